import MgpuProofs.C14Run
/-! # C14 — run-level barrier liveness: nobody waits at a barrier in vain

`NS s` ("not stuck"): every parked wavefront has a wavefront of its group that is neither parked nor
ended. It is an invariant of every legal schedule of the repaired code (`run_NS`): the transition
that parks or ends the *last* moving wavefront of a group releases the whole group in that very
step, so a state in which all unfinished wavefronts of a group are parked is never reached. -/
namespace C14

/-- every parked wavefront still waits for somebody: a wavefront of its group that is neither
    parked nor ended -/
def NS (s : State) : Prop :=
  ∀ v ∈ s.wfs, v.state = .atBarrier →
    ∃ u ∈ s.wfs, u.wg = v.wg ∧ u.state ≠ .atBarrier ∧ u.state ≠ .completed

/-- only the four states the scheduler itself assigns occur (no Dispatching / SampledCompleted) -/
def InR (v : Wf) : Prop :=
  v.state = .ready ∨ v.state = .running ∨ v.state = .atBarrier ∨ v.state = .completed

def Rng (s : State) : Prop := ∀ v ∈ s.wfs, InR v

/-! ## generic preservation lemmas -/

/-- a pointwise update that parks nobody and neither parks nor ends a moving wavefront -/
theorem NS_map {s s' : State} (F : Wf → Wf) (h : NS s) (h1 : s'.wfs = s.wfs.map F)
    (hwg : ∀ v, (F v).wg = v.wg)
    (hback : ∀ v, (F v).state = .atBarrier → v.state = .atBarrier)
    (hfwd : ∀ v, v.state ≠ .atBarrier → v.state ≠ .completed →
      (F v).state ≠ .atBarrier ∧ (F v).state ≠ .completed) : NS s' := by
  intro v' hv' hb
  rw [h1] at hv'
  obtain ⟨v, hv, rfl⟩ := List.mem_map.mp hv'
  obtain ⟨u, hu, hug, hu1, hu2⟩ := h v hv (hback v hb)
  refine ⟨F u, ?_, ?_, (hfwd u hu1 hu2).1, (hfwd u hu1 hu2).2⟩
  · rw [h1]; exact List.mem_map.mpr ⟨u, hu, rfl⟩
  · rw [hwg, hwg]; exact hug

/-- an update that leaves the scheduling states of all groups but `g` alone, and after which group
    `g` either has nobody parked or still has a moving wavefront -/
theorem NS_group {s s' : State} (F : Wf → Wf) (g : Nat) (h : NS s) (h1 : s'.wfs = s.wfs.map F)
    (hwg : ∀ v, (F v).wg = v.wg)
    (hoth : ∀ v ∈ s.wfs, v.wg ≠ g → (F v).state = v.state)
    (hg : (∀ v' ∈ s'.wfs, v'.wg = g → v'.state ≠ .atBarrier) ∨
      (∃ u ∈ s'.wfs, u.wg = g ∧ u.state ≠ .atBarrier ∧ u.state ≠ .completed)) : NS s' := by
  intro v' hv' hb
  by_cases hvg : v'.wg = g
  · rcases hg with hg | ⟨u, hu, hug, hu1, hu2⟩
    · exact absurd hb (hg v' hv' hvg)
    · exact ⟨u, hu, by rw [hug, hvg], hu1, hu2⟩
  · rw [h1] at hv'
    obtain ⟨v, hv, rfl⟩ := List.mem_map.mp hv'
    rw [hwg] at hvg
    rw [hoth v hv hvg] at hb
    obtain ⟨u, hu, hug, hu1, hu2⟩ := h v hv hb
    have hug' : u.wg ≠ g := by rw [hug]; exact hvg
    refine ⟨F u, ?_, ?_, ?_, ?_⟩
    · rw [h1]; exact List.mem_map.mpr ⟨u, hu, rfl⟩
    · rw [hwg, hwg]; exact hug
    · rw [hoth u hu hug']; exact hu1
    · rw [hoth u hu hug']; exact hu2

theorem Rng_map {s s' : State} (F : Wf → Wf) (h : Rng s) (h1 : s'.wfs = s.wfs.map F)
    (hF : ∀ v, InR v → InR (F v)) : Rng s' := by
  intro v' hv'
  rw [h1] at hv'
  obtain ⟨v, hv, rfl⟩ := List.mem_map.mp hv'
  exact hF v (h v hv)

theorem InR_ready {v : Wf} (h : v.state = .ready) : InR v := Or.inl h
theorem InR_running {v : Wf} (h : v.state = .running) : InR v := Or.inr (Or.inl h)
theorem InR_park {v : Wf} (h : v.state = .atBarrier) : InR v := Or.inr (Or.inr (Or.inl h))
theorem InR_completed {v : Wf} (h : v.state = .completed) : InR v := Or.inr (Or.inr (Or.inr h))

theorem InR_release (g : Nat) (v : Wf) (h : InR v) : InR (release g v) := by
  unfold release
  split
  · exact InR_ready rfl
  · exact h

theorem InR_upd (i : Nat) (f : Wf → Wf) (hf : ∀ v, InR (f v)) (v : Wf) (h : InR v) :
    InR (if v.id = i then f v else v) := by
  split
  · exact hf v
  · exact h

theorem updWf_eq_map (wfs : List Wf) (i : Nat) (f : Wf → Wf) :
    updWf wfs i f = wfs.map (fun v => if v.id = i then f v else v) := rfl

/-! ## one evaluated instruction -/

section evalInst
variable {c : Cfg} {s : State} {w : Wf}

/-- in all groups but the evaluated wavefront's, `upd`/`release`/`clearPool` change no state -/
theorem other_group_upd (hids : s.wfs.Pairwise (fun a b => a.id ≠ b.id)) (hw : w ∈ s.wfs) (f : Wf → Wf)
    (v : Wf) (hv : v ∈ s.wfs) (hvg : v.wg ≠ w.wg) : (if v.id = w.id then f v else v) = v := by
  rw [if_neg]
  intro e
  exact hvg (by rw [uniq hids hv hw e])

theorem evalSBarrier_NS (hA : c.fixA = true) (hids : s.wfs.Pairwise (fun a b => a.id ≠ b.id))
    (hw : w ∈ s.wfs) (h : NS s) : NS (evalSBarrier c s w).s := by
  unfold evalSBarrier
  simp only
  split
  · rename_i hall
    simp only [allAtBarrier, List.all_eq_true, hA] at hall
    refine NS_group (fun v => release w.wg (if v.id = w.id then park v else v)) w.wg h ?_ ?_ ?_ ?_
    · show (updWf s.wfs w.id park).map (release w.wg) = _
      rw [updWf_eq_map, List.map_map]; rfl
    · intro v; rw [release_wg]; split <;> rfl
    · intro v hv hvg
      rw [other_group_upd hids hw park v hv hvg, release_miss _ _ (Or.inl hvg)]
    · left
      intro v' hv' hg
      simp only [passBarrier, List.mem_map] at hv'
      obtain ⟨v1, hv1, rfl⟩ := hv'
      rw [release_wg] at hg
      by_cases hc : v1.state = .completed
      · rw [release_miss _ _ (Or.inr hc), hc]; decide
      · rw [(release_hit _ _ hg hc).1]; decide
  · rename_i hall
    have hx : ∃ x ∈ updWf s.wfs w.id park, x.wg = w.wg ∧ x.state ≠ .atBarrier ∧ x.state ≠ .completed := by
      simp only [allAtBarrier, hA, Bool.true_and] at hall
      have : ¬ ∀ x ∈ updWf s.wfs w.id park,
          (x.wg != w.wg || x.state == .atBarrier || x.state == .completed) = true := by
        intro hh; exact hall (List.all_eq_true.mpr hh)
      apply Classical.byContradiction
      intro hne
      apply this
      intro x hx
      by_cases h1 : x.wg = w.wg
      · by_cases h2 : x.state = .atBarrier
        · simp [h2]
        · by_cases h3 : x.state = .completed
          · simp [h3]
          · exact absurd ⟨x, hx, h1, h2, h3⟩ hne
      · simp [h1]
    have key : NS ({ s with wfs := updWf s.wfs w.id park } : State) := by
      refine NS_group (fun v => if v.id = w.id then park v else v) w.wg h rfl ?_ ?_ (Or.inr hx)
      · intro v; split <;> rfl
      · intro v hv hvg; rw [other_group_upd hids hw park v hv hvg]
    split
    · exact key
    · exact key

theorem evalSEndPgm_NS (hids : s.wfs.Pairwise (fun a b => a.id ≠ b.id))
    (hw : w ∈ s.wfs) (h : NS s) : NS (evalSEndPgm c s w).s := by
  unfold evalSEndPgm
  split
  · exact h
  · split
    · rename_i hoth
      simp only [othersCompleted, List.all_eq_true, Bool.or_eq_true, beq_iff_eq, bne_iff_ne] at hoth
      split
      · refine NS_group (fun v => (fun v => if v.wg = w.wg then { v with inPool := false } else v)
            (if v.id = w.id then complete v else v)) w.wg h ?_ ?_ ?_ ?_
        · show clearPool w.wg (updWf s.wfs w.id complete) = _
          unfold clearPool
          rw [updWf_eq_map, List.map_map]; rfl
        · intro v
          by_cases h1 : v.id = w.id <;> by_cases h2 : v.wg = w.wg <;> simp [h1, h2]
        · intro v hv hvg
          rw [other_group_upd hids hw complete v hv hvg]
          simp only; rw [if_neg hvg]
        · left
          intro v' hv' hg
          simp only [clearPool, List.mem_map] at hv'
          obtain ⟨v1, hv1, rfl⟩ := hv'
          obtain ⟨v, hv, rfl⟩ := mem_updWf.mp hv1
          by_cases h1 : v.id = w.id
          · by_cases h2 : v.wg = w.wg <;> simp [h1, h2]
          · have hvg : v.wg = w.wg := by
              by_cases h2 : v.wg = w.wg
              · exact h2
              · simp [h1, h2] at hg
            rcases hoth v hv with (hh | hh) | hh
            · exact absurd hh h1
            · exact absurd hvg hh
            · simp [h1, hvg, hh]
      · exact h
    · rename_i hnot
      split
      · rename_i hoth
        simp only [othersAtBarrier, List.all_eq_true, Bool.or_eq_true, beq_iff_eq, bne_iff_ne] at hoth
        refine NS_group (fun v => (fun v => if v.id = w.id then complete v else v) (release w.wg v)) w.wg h
          ?_ ?_ ?_ ?_
        · show updWf ((s.wfs.map (release w.wg))) w.id complete = _
          rw [updWf_eq_map, List.map_map]; rfl
        · intro v
          simp only [release_id]
          split
          · rw [complete_wg, release_wg]
          · rw [release_wg]
        · intro v hv hvg
          simp only [release_id]
          rw [release_miss _ _ (Or.inl hvg), other_group_upd hids hw complete v hv hvg]
        · left
          intro v' hv' hg
          obtain ⟨v1, hv1, rfl⟩ := mem_updWf.mp hv'
          simp only [passBarrier, List.mem_map] at hv1
          obtain ⟨v, _, rfl⟩ := hv1
          split
          · simp
          · rename_i hne
            rw [if_neg hne, release_wg] at hg
            by_cases hc : v.state = .completed
            · rw [release_miss _ _ (Or.inr hc), hc]; decide
            · rw [(release_hit _ _ hg hc).1]; decide
      · rename_i hnab
        have hx : ∃ x ∈ s.wfs, x.id ≠ w.id ∧ x.wg = w.wg ∧ x.state ≠ .atBarrier ∧ x.state ≠ .completed := by
          have : ¬ ∀ x ∈ s.wfs, (x.id == w.id || x.wg != w.wg || x.state == .atBarrier ||
              x.state == .completed) = true := by
            intro hh; exact hnab (by unfold othersAtBarrier; exact List.all_eq_true.mpr hh)
          apply Classical.byContradiction
          intro hne
          apply this
          intro x hx
          by_cases h0 : x.id = w.id
          · simp [h0]
          by_cases h1 : x.wg = w.wg
          · by_cases h2 : x.state = .atBarrier
            · simp [h2]
            · by_cases h3 : x.state = .completed
              · simp [h3]
              · exact absurd ⟨x, hx, h0, h1, h2, h3⟩ hne
          · simp [h1]
        split
        · obtain ⟨x, hx, hx0, hx1, hx2, hx3⟩ := hx
          refine NS_group (fun v => if v.id = w.id then complete v else v) w.wg h rfl ?_ ?_ ?_
          · intro v; split <;> rfl
          · intro v hv hvg; rw [other_group_upd hids hw complete v hv hvg]
          · right
            exact ⟨x, mem_updWf.mpr ⟨x, hx, by rw [if_neg hx0]⟩, hx1, hx2, hx3⟩
        · exact h

/-- a wavefront made Ready: its group has a moving wavefront, the other groups are untouched -/
theorem setReady_NS (hids : s.wfs.Pairwise (fun a b => a.id ≠ b.id)) (hw : w ∈ s.wfs) (h : NS s) :
    NS ({ s with wfs := updWf s.wfs w.id setReady } : State) := by
  refine NS_group (fun v => if v.id = w.id then setReady v else v) w.wg h rfl ?_ ?_ ?_
  · intro v; split <;> rfl
  · intro v hv hvg; rw [other_group_upd hids hw setReady v hv hvg]
  · right
    refine ⟨setReady w, mem_updWf.mpr ⟨w, hw, by rw [if_pos rfl]⟩, rfl, ?_, ?_⟩ <;>
      (rw [setReady_state]; decide)

theorem evalInst_NS (hA : c.fixA = true) (hids : s.wfs.Pairwise (fun a b => a.id ≠ b.id))
    (hw : w ∈ s.wfs) (h : NS s) : NS (evalInst c s w).s := by
  unfold evalInst
  split
  · exact evalSEndPgm_NS hids hw h
  · split
    · exact evalSBarrier_NS hA hids hw h
    · split
      · unfold evalSWaitCnt
        split
        · exact h
        · exact setReady_NS hids hw h
      · exact setReady_NS hids hw h

theorem evalInst_Rng (h : Rng s) : Rng (evalInst c s w).s := by
  have hp : ∀ v, InR (park v) := fun _ => InR_park rfl
  have hc : ∀ v, InR (complete v) := fun _ => InR_completed rfl
  have hr : ∀ v, InR (setReady v) := fun _ => InR_ready rfl
  have rdy : Rng ({ s with wfs := updWf s.wfs w.id setReady } : State) :=
    Rng_map _ h rfl (InR_upd w.id setReady hr)
  unfold evalInst
  split
  · unfold evalSEndPgm
    split
    · exact h
    · split
      · split
        · refine Rng_map (fun v => (fun v => if v.wg = w.wg then { v with inPool := false } else v)
              (if v.id = w.id then complete v else v)) h ?_ ?_
          · show clearPool w.wg (updWf s.wfs w.id complete) = _
            unfold clearPool
            rw [updWf_eq_map, List.map_map]; rfl
          · intro v hv
            have := InR_upd w.id complete hc v hv
            generalize (if v.id = w.id then complete v else v) = x at this
            show InR (if x.wg = w.wg then { x with inPool := false } else x)
            split
            · exact this
            · exact this
        · exact h
      · split
        · refine Rng_map (fun v => (fun v => if v.id = w.id then complete v else v) (release w.wg v)) h ?_ ?_
          · show updWf ((s.wfs.map (release w.wg))) w.id complete = _
            rw [updWf_eq_map, List.map_map]; rfl
          · intro v hv
            exact InR_upd w.id complete hc _ (InR_release _ _ hv)
        · split
          · exact Rng_map _ h rfl (InR_upd w.id complete hc)
          · exact h
  · split
    · have pk : Rng ({ s with wfs := updWf s.wfs w.id park } : State) :=
        Rng_map _ h rfl (InR_upd w.id park hp)
      unfold evalSBarrier
      simp only
      split
      · exact Rng_map (release w.wg) pk rfl (InR_release _)
      · split
        · exact pk
        · exact pk
    · split
      · unfold evalSWaitCnt
        split
        · exact h
        · exact rdy
      · exact rdy

end evalInst

/-! ## the loop, the events, the run -/

theorem finishOne_wfs (i g : Nat) (e : Ev) : (finishOne i g e).wfs = e.s.wfs := by
  unfold finishOne
  simp only
  split <;> split <;> rfl

theorem NS_congr {s s' : State} (h : NS s) (h1 : s'.wfs = s.wfs) : NS s' := by
  unfold NS; rw [h1]; exact h

theorem Rng_congr {s s' : State} (h : Rng s) (h1 : s'.wfs = s.wfs) : Rng s' := by
  unfold Rng; rw [h1]; exact h

theorem evalOne_NS {c : Cfg} (hA : c.fixA = true) {sp : State × Bool} {i : Nat}
    (hids : sp.1.wfs.Pairwise (fun a b => a.id ≠ b.id)) (h : NS sp.1 ∧ Rng sp.1) :
    NS (evalOne c sp i).1 ∧ Rng (evalOne c sp i).1 := by
  unfold evalOne
  split
  · exact h
  · split
    · exact h
    · rename_i w hget
      obtain ⟨hw, _⟩ := getWf_some hget
      split
      · exact h
      · exact ⟨NS_congr (evalInst_NS hA hids hw h.1) (finishOne_wfs _ _ _),
          Rng_congr (evalInst_Rng h.2) (finishOne_wfs _ _ _)⟩

theorem foldl_NS {c : Cfg} (hA : c.fixA = true) (hB : c.fixB = true) (l : List Nat) (sp : State × Bool)
    (hl : LInv sp.1 l) (h : NS sp.1 ∧ Rng sp.1) :
    NS (l.foldl (evalOne c) sp).1 ∧ Rng (l.foldl (evalOne c) sp).1 := by
  induction l generalizing sp with
  | nil => exact h
  | cons i l ih => exact ih _ (evalOne_LInv hA hB hl) (evalOne_NS hA hl.ids h)

theorem evalInternal_NS {c : Cfg} (hA : c.fixA = true) (hB : c.fixB = true) {s : State} (hi : Inv s)
    (h : NS s ∧ Rng s) : NS (evalInternal c s).1 ∧ Rng (evalInternal c s).1 := by
  unfold evalInternal
  apply foldl_NS hA hB
  · constructor
    · exact hi.ids
    · exact hi.nofault
    · intro w _ hin; cases hin
    · intro w hw hin; exact Or.inl (hi.execSt w hw hin)
    · have := hi.nodup; simpa using this
    · exact hi.ghost
    · exact hi.bars
  · exact h

/-- an update of the wavefronts with id `i` to a moving state (`issue`, `issueUnit`, `unitDone`) or
    one that keeps the state (memory traffic) -/
theorem upd_NS {s : State} (i : Nat) (f : Wf → Wf) (h : NS s ∧ Rng s) (hwg : ∀ v, (f v).wg = v.wg)
    (hst : ∀ v, (f v).state = v.state ∨ (f v).state = .ready ∨ (f v).state = .running) :
    NS ({ s with wfs := updWf s.wfs i f } : State) ∧ Rng ({ s with wfs := updWf s.wfs i f } : State) := by
  constructor
  · refine NS_map (fun v => if v.id = i then f v else v) h.1 rfl ?_ ?_ ?_
    · intro v; split
      · exact hwg v
      · rfl
    · intro v hb
      split at hb
      · rcases hst v with e | e | e
        · rw [← e]; exact hb
        · rw [e] at hb; cases hb
        · rw [e] at hb; cases hb
      · exact hb
    · intro v h1 h2
      split
      · rcases hst v with e | e | e
        · rw [e]; exact ⟨h1, h2⟩
        · rw [e]; exact ⟨by decide, by decide⟩
        · rw [e]; exact ⟨by decide, by decide⟩
      · exact ⟨h1, h2⟩
  · refine Rng_map (fun v => if v.id = i then f v else v) h.2 rfl ?_
    intro v hv
    split
    · rcases hst v with e | e | e
      · unfold InR at hv ⊢; rw [e]; exact hv
      · exact InR_ready e
      · exact InR_running e
    · exact hv

theorem step_NS {c : Cfg} (hA : c.fixA = true) (hB : c.fixB = true) {s : State} {o : Op} (hi : Inv s)
    (h : NS s ∧ Rng s) (hl : legal s o = true) : NS (step c s o).1 ∧ Rng (step c s o).1 := by
  cases o with
  | eval => exact evalInternal_NS hA hB hi h
  | wfComp i => simp [legal] at hl
  | drain k => exact ⟨NS_congr h.1 rfl, Rng_congr h.2 rfl⟩
  | memIssue i v =>
    have := upd_NS i (fun w =>
        if v then { w with osc := w.osc + 1, ovc := w.ovc + 1 } else { w with osc := w.osc + 1 }) h
      (fun w => by split <;> rfl) (fun w => Or.inl (by split <;> rfl))
    exact ⟨NS_congr this.1 rfl, Rng_congr this.2 rfl⟩
  | memRet i k l =>
    have := upd_NS i (memRetWf k l) h (fun w => (memRetWf_fields k l w).2.1)
      (fun w => Or.inl (memRetWf_fields k l w).2.2.1)
    exact ⟨NS_congr this.1 rfl, Rng_congr this.2 rfl⟩
  | issue i op lk vm =>
    have := upd_NS i (issueWf op lk vm) h (fun _ => rfl) (fun _ => Or.inr (Or.inr rfl))
    exact ⟨NS_congr this.1 rfl, Rng_congr this.2 rfl⟩
  | issueUnit i =>
    have := upd_NS i (fun w => { w with state := .running, op := 99, lk := 0, vm := 0 }) h (fun _ => rfl)
      (fun _ => Or.inr (Or.inr rfl))
    exact ⟨NS_congr this.1 rfl, Rng_congr this.2 rfl⟩
  | unitDone i =>
    have := upd_NS i setReady h (fun _ => rfl) (fun _ => Or.inr (Or.inl rfl))
    exact ⟨NS_congr this.1 rfl, Rng_congr this.2 rfl⟩

theorem Init_NS {s : State} (h : Init s) : NS s ∧ Rng s := by
  obtain ⟨_, _, _, h4⟩ := h
  constructor
  · intro v hv hb
    rw [(h4 v hv).1] at hb; cases hb
  · intro v hv; exact InR_ready (h4 v hv).1

theorem run_NS {c : Cfg} (hA : c.fixA = true) (hB : c.fixB = true) (ops : List Op) {s : State} (hi : Inv s)
    (h : NS s ∧ Rng s) (hl : legalRun c s ops = true) : NS (run c s ops) ∧ Rng (run c s ops) := by
  unfold run
  induction ops generalizing s with
  | nil => exact h
  | cons o ops ih =>
    simp only [legalRun, Bool.and_eq_true] at hl
    exact ih (step_Inv hA hB hi hl.1) (step_NS hA hB hi h hl.1) hl.2

end C14
