import MgpuModel.C04
import MgpuProofs.C04
import MgpuProofs.C04Bits
import MgpuProofs.C04Enc
/-! Round trip for the 8-byte vector / memory formats (VOP3a, VOP3b, DS, FLAT) and the SDWA form of VOP2. -/
namespace C04
open Gen
set_option linter.unusedSimpArgs false
set_option linter.unusedVariables false

theorem fmt_vop3a : FmtIs FT_VOP3a 8 16 25 26 52 := by unfold FmtIs; decide
theorem fmt_vop3b : FmtIs FT_VOP3b 8 16 25 26 52 := by unfold FmtIs; decide
theorem fmt_ds : FmtIs FT_DS 8 17 24 26 54 := by unfold FmtIs; decide
theorem fmt_flat : FmtIs FT_FLAT 8 18 24 26 55 := by unfold FmtIs; decide

/-! ## VOP2 + SDWA -/

theorem enc_vop2_sdwa (c : Bool) (d : Desc) (row : Row) (f : Format)
    (hft : d.ft = FT_VOP2) (hf : f.ft = FT_VOP2) (hsz : f.size = 4)
    (hro : row.opcode = d.op) (hop : d.op < 64) (hs : d.sdwa = 1)
    (hfo : fieldsOK d = true) :
    encWord d < 2 ^ 32 ∧ encWord d / 2 ^ 31 = 0 ∧ extractBits (encWord d) 25 30 = d.op ∧
    ∀ w1?, (∀ l, encSecond d = some l → w1? = some l) →
      decodeRow c f row (encWord d) w1? = .ok (instOfRow d row) := by
  have hW : encWord d = d.op * 2 ^ 25 + d.vdst * 2 ^ 17 + d.vsrc1 * 2 ^ 9 + 249 := by
    simp [encWord, hft, hs, FT_SOP2, FT_SOPK, FT_SOP1, FT_SOPC, FT_SOPP, FT_SMEM, FT_VOP2, FT_VOP1, FT_VOPC, FT_VOP3a, FT_VOP3b, FT_FLAT, FT_DS]
  simp [fieldsOK, hft, hs, FT_SOP2, FT_SOPK, FT_SOP1, FT_SOPC, FT_SOPP, FT_SMEM, FT_VOP2, FT_VOP1, FT_VOPC, FT_VOP3a, FT_VOP3b, FT_FLAT, FT_DS] at hfo
  obtain ⟨⟨⟨⟨⟨⟨⟨⟨⟨b0, b1⟩, bd⟩, bs0⟩, bs1⟩, bds⟩, bdu⟩, b0s⟩, b1s⟩, hk⟩ := hfo
  have x0 : extractBits (encWord d) 0 8 = 249 := by rw [hW]; unfold extractBits; omega
  have x1 : extractBits (encWord d) 9 16 = d.vsrc1 := by rw [hW]; unfold extractBits; omega
  have xd : extractBits (encWord d) 17 24 = d.vdst := by rw [hW]; unfold extractBits; omega
  refine ⟨by rw [hW]; omega, by rw [hW]; omega, by rw [hW]; unfold extractBits; omega, ?_⟩
  clear hW
  generalize encWord d = w at x0 x1 xd ⊢
  intro w1? hw1
  have hsec : encSecond d = some (sdwaWord d) := by
    simp [encSecond, hft, hs, FT_SOP2, FT_SOPK, FT_SOP1, FT_SOPC, FT_SOPP, FT_SMEM, FT_VOP2, FT_VOP1, FT_VOPC, FT_VOP3a, FT_VOP3b, FT_FLAT, FT_DS]
  rw [hw1 _ hsec]
  have y0 : extractBits (sdwaWord d) 0 7 = d.src0 := by unfold sdwaWord extractBits; omega
  have y1 : extractBits (sdwaWord d) 8 10 = d.dstSel := by unfold sdwaWord extractBits; omega
  have y2 : extractBits (sdwaWord d) 11 12 = d.dstUnused := by unfold sdwaWord extractBits; omega
  have y3 : extractBits (sdwaWord d) 13 13 = 0 := by unfold sdwaWord extractBits; omega
  have y4 : extractBits (sdwaWord d) 16 18 = d.src0Sel := by unfold sdwaWord extractBits; omega
  have y5 : extractBits (sdwaWord d) 19 19 = 0 := by unfold sdwaWord extractBits; omega
  have y6 : extractBits (sdwaWord d) 20 20 = 0 := by unfold sdwaWord extractBits; omega
  have y7 : extractBits (sdwaWord d) 21 21 = 0 := by unfold sdwaWord extractBits; omega
  have y8 : extractBits (sdwaWord d) 24 26 = d.src1Sel := by unfold sdwaWord extractBits; omega
  have y9 : extractBits (sdwaWord d) 27 27 = 0 := by unfold sdwaWord extractBits; omega
  have y10 : extractBits (sdwaWord d) 28 28 = 0 := by unfold sdwaWord extractBits; omega
  have y11 : extractBits (sdwaWord d) 29 29 = 0 := by unfold sdwaWord extractBits; omega
  have y12 : extractBits (sdwaWord d) 23 23 = d.s0 := by unfold sdwaWord extractBits; omega
  have y13 : extractBits (sdwaWord d) 31 31 = d.s1 := by unfold sdwaWord extractBits; omega
  generalize sdwaWord d = sw at y0 y1 y2 y3 y4 y5 y6 y7 y8 y9 y10 y11 y12 y13 hsec
  have hdu : (d.dstUnused == 3) = false := by
    cases h : d.dstUnused == 3 with
    | false => rfl
    | true => have := beq_iff_eq.mp h; omega
  have hk' : isKOpcode d.op = false := by simpa using hk
  -- staged rewriting (one big `simp` produces a term the kernel cannot check in reasonable time)
  unfold decodeRow
  simp only [hsz, dec4, hf, FT_SOP2, FT_SOPK, FT_SOP1, FT_SOPC, FT_SOPP, FT_SMEM, FT_VOP2, FT_VOP1, FT_VOPC, FT_VOP3a, FT_VOP3b, FT_FLAT, FT_DS,
    Nat.reduceBEq, Bool.false_eq_true, if_false, BEq.rfl, if_true]
  simp only [decodeVOP2, x0, x1, xd, BEq.rfl, if_true]
  simp only [y0, y1, y2, y3, y4, y5, y6, y7, y8, y9, y10, y11, y12, y13, Nat.reduceBEq, Bool.false_eq_true, if_false, hdu, hk', hro, bne_self_eq_false]
  simp only [Outcome.setSize]
  unfold instOfRow
  simp only [hft, hs, hsec, FT_SOP2, FT_SOPK, FT_SOP1, FT_SOPC, FT_SOPP, FT_SMEM, FT_VOP2, FT_VOP1, FT_VOPC, FT_VOP3a, FT_VOP3b, FT_FLAT, FT_DS,
    Nat.reduceBEq, Bool.false_eq_true, if_false, BEq.rfl, if_true, Option.isSome_some, bne_self_eq_false]

/-! ## DS -/

theorem enc_ds (c : Bool) (d : Desc) (row : Row) (f : Format)
    (hft : d.ft = FT_DS) (hf : f.ft = FT_DS) (hsz : f.size = 8)
    (hro : row.opcode = d.op) (hop : d.op < 256)
    (hfo : fieldsOK d = true) :
    encWord d < 2 ^ 32 ∧ encWord d / 2 ^ 26 = 54 ∧ extractBits (encWord d) 17 24 = d.op ∧
    ∀ w1?, (∀ l, encSecond d = some l → w1? = some l) →
      decodeRow c f row (encWord d) w1? = .ok (instOfRow d row) := by
  have hW : encWord d = 0xD8000000 + d.op * 2 ^ 17 + d.gds * 2 ^ 16 + d.offset1 * 2 ^ 8 + d.offset0 := by
    simp [encWord, hft, FT_SOP2, FT_SOPK, FT_SOP1, FT_SOPC, FT_SOPP, FT_SMEM, FT_VOP2, FT_VOP1, FT_VOPC, FT_VOP3a, FT_VOP3b, FT_FLAT, FT_DS]
  have hH : hiWord d = d.vdst * 2 ^ 24 + d.data1 * 2 ^ 16 + d.data0 * 2 ^ 8 + d.addr := by
    simp [hiWord, hft, FT_SOP2, FT_SOPK, FT_SOP1, FT_SOPC, FT_SOPP, FT_SMEM, FT_VOP2, FT_VOP1, FT_VOPC, FT_VOP3a, FT_VOP3b, FT_FLAT, FT_DS]
  simp [fieldsOK, hft, FT_SOP2, FT_SOPK, FT_SOP1, FT_SOPC, FT_SOPP, FT_SMEM, FT_VOP2, FT_VOP1, FT_VOPC, FT_VOP3a, FT_VOP3b, FT_FLAT, FT_DS] at hfo
  obtain ⟨⟨⟨⟨⟨⟨b0, b1⟩, bg⟩, ba⟩, bd0⟩, bd1⟩, bv⟩ := hfo
  have x0 : extractBits (encWord d) 0 7 = d.offset0 := by rw [hW]; unfold extractBits; omega
  have x1 : extractBits (encWord d) 8 15 = d.offset1 := by rw [hW]; unfold extractBits; omega
  have xg : extractBits (encWord d) 16 16 = d.gds := by rw [hW]; unfold extractBits; omega
  have ya : extractBits (hiWord d) 0 7 = d.addr := by rw [hH]; unfold extractBits; omega
  have y0 : extractBits (hiWord d) 8 15 = d.data0 := by rw [hH]; unfold extractBits; omega
  have y1 : extractBits (hiWord d) 16 23 = d.data1 := by rw [hH]; unfold extractBits; omega
  have yv : extractBits (hiWord d) 24 31 = d.vdst := by rw [hH]; unfold extractBits; omega
  have hmod : (d.offset0 + d.offset1 * 256) % 2 ^ 32 = d.offset0 + d.offset1 * 256 := by omega
  refine ⟨by rw [hW]; omega, by rw [hW]; omega, by rw [hW]; unfold extractBits; omega, ?_⟩
  clear hW hH
  generalize encWord d = w at x0 x1 xg ⊢
  intro w1? hw1
  have hsec : encSecond d = some (hiWord d) := by
    simp [encSecond, hft, FT_SOP2, FT_SOPK, FT_SOP1, FT_SOPC, FT_SOPP, FT_SMEM, FT_VOP2, FT_VOP1, FT_VOPC, FT_VOP3a, FT_VOP3b, FT_FLAT, FT_DS]
  rw [hw1 _ hsec]
  generalize hiWord d = h at ya y0 y1 yv hsec
  unfold decodeRow instOfRow
  simp [hsz, hsec, dec8, hf, hft, FT_SOP2, FT_SOPK, FT_SOP1, FT_SOPC, FT_SOPP, FT_SMEM, FT_VOP2, FT_VOP1, FT_VOPC, FT_VOP3a, FT_VOP3b, FT_FLAT, FT_DS,
    decodeDS, x0, x1, xg, ya, y0, y1, yv, hmod, hro, Outcome.setSize]

/-! ## FLAT -/

theorem enc_flat (c : Bool) (d : Desc) (row : Row) (f : Format)
    (hft : d.ft = FT_FLAT) (hf : f.ft = FT_FLAT) (hsz : f.size = 8)
    (hro : row.opcode = d.op) (hop : d.op < 128)
    (hfo : fieldsOK d = true) :
    encWord d < 2 ^ 32 ∧ encWord d / 2 ^ 26 = 55 ∧ extractBits (encWord d) 18 24 = d.op ∧
    ∀ w1?, (∀ l, encSecond d = some l → w1? = some l) →
      decodeRow c f row (encWord d) w1? = .ok (instOfRowArch c d row) := by
  have hW : encWord d = 0xDC000000 + d.op * 2 ^ 18 + d.slc * 2 ^ 17 + d.glc * 2 ^ 16 + d.seg * 2 ^ 14 + d.offset := by
    simp [encWord, hft, FT_SOP2, FT_SOPK, FT_SOP1, FT_SOPC, FT_SOPP, FT_SMEM, FT_VOP2, FT_VOP1, FT_VOPC, FT_VOP3a, FT_VOP3b, FT_FLAT, FT_DS]
  have hH : hiWord d = d.vdst * 2 ^ 24 + d.tfe * 2 ^ 23 + d.saddr * 2 ^ 16 + d.data * 2 ^ 8 + d.addr := by
    simp [hiWord, hft, FT_SOP2, FT_SOPK, FT_SOP1, FT_SOPC, FT_SOPP, FT_SMEM, FT_VOP2, FT_VOP1, FT_VOPC, FT_VOP3a, FT_VOP3b, FT_FLAT, FT_DS]
  simp [fieldsOK, hft, FT_SOP2, FT_SOPK, FT_SOP1, FT_SOPC, FT_SOPP, FT_SMEM, FT_VOP2, FT_VOP1, FT_VOPC, FT_VOP3a, FT_VOP3b, FT_FLAT, FT_DS] at hfo
  obtain ⟨⟨⟨⟨⟨⟨⟨⟨bo, bsg⟩, bg⟩, bs⟩, bt⟩, ba⟩, bd⟩, bsa⟩, bv⟩ := hfo
  have xo : extractBits (encWord d) 0 12 = d.offset := by rw [hW]; unfold extractBits; omega
  have xsg : extractBits (encWord d) 14 15 = d.seg := by rw [hW]; unfold extractBits; omega
  have xg : extractBits (encWord d) 16 16 = d.glc := by rw [hW]; unfold extractBits; omega
  have xs : extractBits (encWord d) 17 17 = d.slc := by rw [hW]; unfold extractBits; omega
  have ya : extractBits (hiWord d) 0 7 = d.addr := by rw [hH]; unfold extractBits; omega
  have yd : extractBits (hiWord d) 8 15 = d.data := by rw [hH]; unfold extractBits; omega
  have ysa : extractBits (hiWord d) 16 22 = d.saddr := by rw [hH]; unfold extractBits; omega
  have yt : extractBits (hiWord d) 23 23 = d.tfe := by rw [hH]; unfold extractBits; omega
  have yv : extractBits (hiWord d) 24 31 = d.vdst := by rw [hH]; unfold extractBits; omega
  refine ⟨by rw [hW]; omega, by rw [hW]; omega, by rw [hW]; unfold extractBits; omega, ?_⟩
  clear hW hH
  generalize encWord d = w at xo xsg xg xs ⊢
  intro w1? hw1
  have hsec : encSecond d = some (hiWord d) := by
    simp [encSecond, hft, FT_SOP2, FT_SOPK, FT_SOP1, FT_SOPC, FT_SOPP, FT_SMEM, FT_VOP2, FT_VOP1, FT_VOPC, FT_VOP3a, FT_VOP3b, FT_FLAT, FT_DS]
  rw [hw1 _ hsec]
  generalize hiWord d = h at ya yd ysa yt yv hsec
  unfold decodeRow instOfRowArch
  simp only [hsz, hsec, dec8, hf, hft, FT_SOP2, FT_SOPK, FT_SOP1, FT_SOPC, FT_SOPP, FT_SMEM, FT_VOP2, FT_VOP1, FT_VOPC, FT_VOP3a, FT_VOP3b, FT_FLAT, FT_DS,
    decodeFLAT, xo, xsg, xg, xs, ya, yd, ysa, yt, yv, hro, signExt13, flatDataCount, flatAddrCount]
  cases c <;> simp [Outcome.setSize]

/-! ## VOP3a -/

theorem extractBits_11_13 (x : Nat) : extractBits x 11 13 = x / 2048 % 8 := by simp [extractBits]

theorem enc_vop3a (c : Bool) (d : Desc) (row : Row) (f : Format)
    (hft : d.ft = FT_VOP3a) (hf : f.ft = FT_VOP3a) (hsz : f.size = 8)
    (hro : row.opcode = d.op) (hop : d.op < 1024)
    (hfo : fieldsOK d = true) :
    encWord d < 2 ^ 32 ∧ encWord d / 2 ^ 26 = 52 ∧ extractBits (encWord d) 16 25 = d.op ∧
    ∀ w1?, (∀ l, encSecond d = some l → w1? = some l) →
      decodeRow c f row (encWord d) w1? = .ok (instOfRow d row) := by
  have hW : encWord d = 0xD0000000 + d.op * 2 ^ 16 + d.clamp * 2 ^ 15 + d.opsel * 2 ^ 11 + d.abs * 2 ^ 8 + d.vdst := by
    simp [encWord, hft, FT_SOP2, FT_SOPK, FT_SOP1, FT_SOPC, FT_SOPP, FT_SMEM, FT_VOP2, FT_VOP1, FT_VOPC, FT_VOP3a, FT_VOP3b, FT_FLAT, FT_DS]
  have hH : hiWord d = d.neg * 2 ^ 29 + d.omod * 2 ^ 27 + d.src2 * 2 ^ 18 + d.src1 * 2 ^ 9 + d.src0 := by
    simp [hiWord, hft, FT_SOP2, FT_SOPK, FT_SOP1, FT_SOPC, FT_SOPP, FT_SMEM, FT_VOP2, FT_VOP1, FT_VOPC, FT_VOP3a, FT_VOP3b, FT_FLAT, FT_DS]
  simp only [fieldsOK, hft, FT_SOP2, FT_SOPK, FT_SOP1, FT_SOPC, FT_SOPP, FT_SMEM, FT_VOP2, FT_VOP1, FT_VOPC, FT_VOP3a, FT_VOP3b, FT_FLAT, FT_DS,
    Nat.reduceBEq, Bool.false_eq_true, if_false, BEq.rfl, if_true, Bool.and_eq_true, decide_eq_true_eq] at hfo
  obtain ⟨⟨⟨⟨⟨⟨⟨⟨hvd, h0⟩, h1⟩, h2⟩, bab⟩, bng⟩, bom⟩, bcl⟩, bos⟩ := hfo
  obtain ⟨b0, s0, g0, e0⟩ := codeOK_some h0
  obtain ⟨b1, s1, g1, e1⟩ := codeOK_some h1
  obtain ⟨b2, s2, g2, e2⟩ := codeOK_some h2
  have bvd : d.vdst < 256 := by
    split at hvd
    · exact (codeOK_some hvd).1
    · simpa using hvd
  have xv : extractBits (encWord d) 0 7 = d.vdst := by rw [hW]; unfold extractBits; omega
  have xab : extractBits (encWord d) 8 10 = d.abs := by rw [hW]; unfold extractBits; omega
  have xos3 : extractBits (encWord d) 11 13 = d.opsel % 8 := by rw [hW]; unfold extractBits; omega
  have xos2 : extractBits (encWord d) 11 12 = d.opsel % 4 := by rw [hW]; unfold extractBits; omega
  have xos1 : extractBits (encWord d) 14 14 = d.opsel / 8 := by rw [hW]; unfold extractBits; omega
  have xcl : extractBits (encWord d) 15 15 = d.clamp := by rw [hW]; unfold extractBits; omega
  have y0 : extractBits (hiWord d) 0 8 = d.src0 := by rw [hH]; unfold extractBits; omega
  have y1 : extractBits (hiWord d) 9 17 = d.src1 := by rw [hH]; unfold extractBits; omega
  have y2 : extractBits (hiWord d) 18 26 = d.src2 := by rw [hH]; unfold extractBits; omega
  have yom : extractBits (hiWord d) 27 28 = d.omod := by rw [hH]; unfold extractBits; omega
  have yng : extractBits (hiWord d) 29 31 = d.neg := by rw [hH]; unfold extractBits; omega
  refine ⟨by rw [hW]; omega, by rw [hW]; omega, by rw [hW]; unfold extractBits; omega, ?_⟩
  clear hW hH
  generalize encWord d = w at xv xab xos3 xos2 xos1 xcl ⊢
  intro w1? hw1
  have hsec : encSecond d = some (hiWord d) := by
    simp [encSecond, hft, FT_SOP2, FT_SOPK, FT_SOP1, FT_SOPC, FT_SOPP, FT_SMEM, FT_VOP2, FT_VOP1, FT_VOPC, FT_VOP3a, FT_VOP3b, FT_FLAT, FT_DS]
  rw [hw1 _ hsec]
  generalize hiWord d = h at y0 y1 y2 yom yng hsec
  -- the destination operand
  have hdst : ∃ dd, (if d.op ≤ 255 then getOperand d.vdst else some (vreg d.vdst d.vdst 0)) = some dd ∧
      (if d.op ≤ 255 then opndOf d.vdst else vreg d.vdst d.vdst 0) = dd := by
    by_cases hle : d.op ≤ 255
    · simp only [hle, if_true] at hvd ⊢
      obtain ⟨_, dd, gd, ed⟩ := codeOK_some hvd
      exact ⟨dd, gd, ed⟩
    · simp only [hle, if_false]
      exact ⟨_, rfl, rfl⟩
  obtain ⟨dd, gdd, edd⟩ := hdst
  unfold decodeRow instOfRow
  simp only [hsz, hsec, dec8, hf, hft, FT_SOP2, FT_SOPK, FT_SOP1, FT_SOPC, FT_SOPP, FT_SMEM, FT_VOP2, FT_VOP1, FT_VOPC, FT_VOP3a, FT_VOP3b, FT_FLAT, FT_DS,
    decodeVOP3a, xv, xab, xos3, xos2, xos1, xcl, y0, y1, y2, yom, yng, g0, g1, g2, gdd, edd, e0, e1, e2, hro]
  by_cases h944 : d.op = 944
  · by_cases hs2 : row.src2W = 0 <;> simp [h944, hs2, Outcome.setSize]
  · by_cases h945 : d.op = 945
    · by_cases hs2 : row.src2W = 0 <;> simp [h945, hs2, Outcome.setSize]
    · by_cases h946 : d.op = 946
      · by_cases hs2 : row.src2W = 0 <;> simp [h946, hs2, Outcome.setSize]
      · have hr : (945 ≤ d.op && d.op ≤ 946) = false := by
          cases hh : (945 ≤ d.op && d.op ≤ 946) with
          | false => rfl
          | true => simp only [Bool.and_eq_true, decide_eq_true_eq] at hh; omega
        by_cases hs2 : row.src2W = 0 <;> simp [h944, hr, hs2, Outcome.setSize]

/-! ## VOP3b -/

theorem enc_vop3b (c : Bool) (d : Desc) (row : Row) (f : Format)
    (hft : d.ft = FT_VOP3b) (hf : f.ft = FT_VOP3b) (hsz : f.size = 8)
    (hro : row.opcode = d.op) (hop : d.op < 1024)
    (hfo : fieldsOK d = true) :
    encWord d < 2 ^ 32 ∧ encWord d / 2 ^ 26 = 52 ∧ extractBits (encWord d) 16 25 = d.op ∧
    ∀ w1?, (∀ l, encSecond d = some l → w1? = some l) →
      decodeRow c f row (encWord d) w1? = .ok (instOfRow d row) := by
  have hW : encWord d = 0xD0000000 + d.op * 2 ^ 16 + d.clamp * 2 ^ 15 + d.sdst * 2 ^ 8 + d.vdst := by
    simp [encWord, hft, FT_SOP2, FT_SOPK, FT_SOP1, FT_SOPC, FT_SOPP, FT_SMEM, FT_VOP2, FT_VOP1, FT_VOPC, FT_VOP3a, FT_VOP3b, FT_FLAT, FT_DS]
  have hH : hiWord d = d.neg * 2 ^ 29 + d.omod * 2 ^ 27 + d.src2 * 2 ^ 18 + d.src1 * 2 ^ 9 + d.src0 := by
    simp [hiWord, hft, FT_SOP2, FT_SOPK, FT_SOP1, FT_SOPC, FT_SOPP, FT_SMEM, FT_VOP2, FT_VOP1, FT_VOPC, FT_VOP3a, FT_VOP3b, FT_FLAT, FT_DS]
  simp only [fieldsOK, hft, FT_SOP2, FT_SOPK, FT_SOP1, FT_SOPC, FT_SOPP, FT_SMEM, FT_VOP2, FT_VOP1, FT_VOPC, FT_VOP3a, FT_VOP3b, FT_FLAT, FT_DS,
    Nat.reduceBEq, Bool.false_eq_true, if_false, BEq.rfl, if_true, Bool.and_eq_true, decide_eq_true_eq] at hfo
  obtain ⟨⟨⟨⟨⟨⟨⟨bvd, hsd⟩, h0⟩, h1⟩, h2⟩, bng⟩, bom⟩, bcl⟩ := hfo
  obtain ⟨bsd, sd, gsd, esd⟩ := codeOK_some hsd
  obtain ⟨b0, s0, g0, e0⟩ := codeOK_some h0
  obtain ⟨b1, s1, g1, e1⟩ := codeOK_some h1
  obtain ⟨b2, s2, g2, e2⟩ := codeOK_some h2
  have xv : extractBits (encWord d) 0 7 = d.vdst := by rw [hW]; unfold extractBits; omega
  have xsd : extractBits (encWord d) 8 14 = d.sdst := by rw [hW]; unfold extractBits; omega
  have xcl : extractBits (encWord d) 15 15 = d.clamp := by rw [hW]; unfold extractBits; omega
  have y0 : extractBits (hiWord d) 0 8 = d.src0 := by rw [hH]; unfold extractBits; omega
  have y1 : extractBits (hiWord d) 9 17 = d.src1 := by rw [hH]; unfold extractBits; omega
  have y2 : extractBits (hiWord d) 18 26 = d.src2 := by rw [hH]; unfold extractBits; omega
  have yom : extractBits (hiWord d) 27 28 = d.omod := by rw [hH]; unfold extractBits; omega
  have yng : extractBits (hiWord d) 29 31 = d.neg := by rw [hH]; unfold extractBits; omega
  refine ⟨by rw [hW]; omega, by rw [hW]; omega, by rw [hW]; unfold extractBits; omega, ?_⟩
  clear hW hH
  generalize encWord d = w at xv xsd xcl ⊢
  intro w1? hw1
  have hsec : encSecond d = some (hiWord d) := by
    simp [encSecond, hft, FT_SOP2, FT_SOPK, FT_SOP1, FT_SOPC, FT_SOPP, FT_SMEM, FT_VOP2, FT_VOP1, FT_VOPC, FT_VOP3a, FT_VOP3b, FT_FLAT, FT_DS]
  rw [hw1 _ hsec]
  generalize hiWord d = h at y0 y1 y2 yom yng hsec
  unfold decodeRow instOfRow
  simp only [hsz, hsec, dec8, hf, hft, FT_SOP2, FT_SOPK, FT_SOP1, FT_SOPC, FT_SOPP, FT_SMEM, FT_VOP2, FT_VOP1, FT_VOPC, FT_VOP3a, FT_VOP3b, FT_FLAT, FT_DS,
    decodeVOP3b, xv, xsd, xcl, y0, y1, y2, yom, yng, gsd, g0, g1, g2, esd, e0, e1, e2, hro]
  by_cases hgt : d.op > 255 <;> by_cases hs2 : row.src2W > 0 <;> simp [hgt, hs2, Outcome.setSize]

end C04
