import MgpuProofs.C11MqInv
/-! Liveness of the multi-queue copy model: the potential `MqEnv.potential` decreases in every round
(helpers for `mq_all_complete` in `Props/C11Mq.lean`). -/
namespace C11

/-! ## the potential, in pieces -/

/-- weight of the commands of one queue that have not been started -/
def mqW (K g : Nat) (q : MqQueue) : Nat := (q.waiting.map fun c => K + 4 * mqWant g c).sum

def mqQW (K g : Nat) (qs : List MqQueue) : Nat := (qs.map (mqW K g)).sum

def mqTimer (c : Int) : Nat := if 0 ≤ c then c.toNat + 1 else 0

/-- `MqEnv.potential` with the queue list and the number of requests at the GPU side as parameters -/
def mqPot (s : Mq) (qs : List MqQueue) (o : Nat) : Nat :=
  mqQW (max s.cycH2D s.cycD2H + 2) s.nGpus qs + mqTimer s.cyclesLeft +
  4 * s.awaiting.length + 3 * s.toSend.length + 2 * (s.portOut.length + o) + s.portIn.length

theorem MqEnv.potential_eq (e : MqEnv) : e.potential = mqPot e.s e.s.queues e.outstanding.length := rfl

theorem mqTimer_neg {c : Int} (h : c < 0) : mqTimer c = 0 := by
  unfold mqTimer; rw [if_neg (by omega)]

theorem mqTimer_nat (k : Nat) : mqTimer (k : Int) = k + 1 := by
  unfold mqTimer; rw [if_pos (by omega)]; simp

theorem mqTimer_pred {c : Int} (h : 0 < c) : mqTimer (c - 1) + 1 = mqTimer c := by
  obtain ⟨k, rfl⟩ := Int.eq_ofNat_of_zero_le (Int.le_of_lt h)
  obtain ⟨m, rfl⟩ : ∃ m, k = m + 1 := ⟨k - 1, by omega⟩
  have : ((m + 1 : Nat) : Int) - 1 = (m : Int) := by omega
  rw [this, mqTimer_nat, mqTimer_nat]

theorem mqQW_cons (K g : Nat) (q : MqQueue) (qs : List MqQueue) : mqQW K g (q :: qs) = mqW K g q + mqQW K g qs := by
  simp [mqQW]

theorem mqQW_set {K g : Nat} : ∀ {qs : List MqQueue} {k : Nat} {q0 q1 : MqQueue}, qs[k]? = some q0 →
    mqW K g q1 = mqW K g q0 → mqQW K g (qs.set k q1) = mqQW K g qs
  | [], _, _, _, h, _ => by simp at h
  | q :: qs, 0, q0, q1, h, hw => by
    simp only [List.getElem?_cons_zero, Option.some.injEq] at h
    subst h
    simp only [List.set_cons_zero, mqQW_cons, hw]
  | q :: qs, k + 1, q0, q1, h, hw => by
    simp only [List.getElem?_cons_succ] at h
    simp only [List.set_cons_succ, mqQW_cons, mqQW_set h hw]

/-! ## `start` / `processNewCommand` -/

/-- the part of the potential that `start` changes besides the queue weights and the timer -/
def mqMass (s : Mq) : Nat := 4 * s.awaiting.length + 3 * s.toSend.length

/-- what `processNewCommand` over some queues does to the potential: `f` = "some queue started" -/
structure StartAcc (K g : Nat) (s : Mq) (qs : List MqQueue) (s' : Mq) (qs' : List MqQueue) (f : Bool) : Prop where
  cfg_g : s'.nGpus = s.nGpus
  cfg_a : s'.cycH2D = s.cycH2D
  cfg_b : s'.cycD2H = s.cycD2H
  po : s'.portOut = s.portOut
  pin : s'.portIn = s.portIn
  none : f = false → s' = s ∧ qs' = qs ∧ ∀ q ∈ qs, q.cmds = [] ∨ q.running = true
  some : f = true → mqQW K g qs' + mqMass s' + K ≤ mqQW K g qs + mqMass s ∧ mqTimer s'.cyclesLeft + 1 ≤ K
  le : mqQW K g qs' + mqMass s' ≤ mqQW K g qs + mqMass s

theorem Mq.start_acc (s : Mq) (k : Nat) (q : MqQueue) :
    StartAcc (max s.cycH2D s.cycD2H + 2) s.nGpus s [q] (s.start k q).1 [(s.start k q).2.1] (s.start k q).2.2 := by
  rcases s.start_cases k q with ⟨hc, e⟩ | ⟨c, rest, hc, hr, _, e⟩ | ⟨c, rest, hc, hr, _, e⟩
  · rw [e]
    refine ⟨rfl, rfl, rfl, rfl, rfl, fun _ => ⟨rfl, rfl, ?_⟩, fun h => (by cases h), Nat.le_refl _⟩
    intro q' hq'
    simp only [List.mem_singleton] at hq'
    subst hq'; exact hc
  · rw [e]
    have hlen := mqNewReqs_length s k q.done c
    unfold mqNewReqs at hlen
    rw [List.length_append] at hlen
    have hw0 : mqW (max s.cycH2D s.cycD2H + 2) s.nGpus q =
        (max s.cycH2D s.cycD2H + 2 + 4 * mqWant s.nGpus c) +
        (rest.map fun c => max s.cycH2D s.cycD2H + 2 + 4 * mqWant s.nGpus c).sum := by
      simp [mqW, MqQueue.waiting, hr, hc]
    have hw1 : mqW (max s.cycH2D s.cycD2H + 2) s.nGpus
        { q with running := true, reqs := (mqNewReqs s k q.done c).map (·.id) } =
        (rest.map fun c => max s.cycH2D s.cycD2H + 2 + 4 * mqWant s.nGpus c).sum := by
      simp [mqW, MqQueue.waiting, hc]
    have hmass : ∀ s' : Mq, s'.awaiting = s.awaiting ++ mqPieceReqs (s.nextId + (mqFlushReqs s k q.done c).length) k q.done c →
        s'.toSend = s.toSend ++ mqFlushReqs s k q.done c → mqMass s' ≤ mqMass s + 4 * mqWant s.nGpus c := by
      intro s' h1 h2
      unfold mqMass
      rw [h1, h2, List.length_append, List.length_append]
      omega
    have hm := hmass _ (rfl : ({ s with
        toSend := s.toSend ++ mqFlushReqs s k q.done c,
        awaiting := s.awaiting ++ mqPieceReqs (s.nextId + (mqFlushReqs s k q.done c).length) k q.done c,
        nextId := s.nextId + (mqNewReqs s k q.done c).length,
        cyclesLeft := if c.kind = .h2d then (s.cycH2D : Int) else (s.cycD2H : Int),
        created := s.created ++ mqNewReqs s k q.done c } : Mq).awaiting = _) rfl
    have hstrict : mqQW (max s.cycH2D s.cycD2H + 2) s.nGpus
          [{ q with running := true, reqs := (mqNewReqs s k q.done c).map (·.id) }] +
        mqMass { s with
          toSend := s.toSend ++ mqFlushReqs s k q.done c,
          awaiting := s.awaiting ++ mqPieceReqs (s.nextId + (mqFlushReqs s k q.done c).length) k q.done c,
          nextId := s.nextId + (mqNewReqs s k q.done c).length,
          cyclesLeft := if c.kind = .h2d then (s.cycH2D : Int) else (s.cycD2H : Int),
          created := s.created ++ mqNewReqs s k q.done c } + (max s.cycH2D s.cycD2H + 2) ≤
        mqQW (max s.cycH2D s.cycD2H + 2) s.nGpus [q] + mqMass s := by
      rw [mqQW_cons, mqQW_cons, hw0, hw1]
      simp only [mqQW, List.map_nil, List.sum_nil]
      omega
    refine ⟨rfl, rfl, rfl, rfl, rfl, fun h => (by cases h), fun _ => ⟨hstrict, ?_⟩,
      Nat.le_trans (Nat.le_add_right _ _) hstrict⟩
    show mqTimer (if c.kind = .h2d then (s.cycH2D : Int) else (s.cycD2H : Int)) + 1 ≤ _
    have h1 := Nat.le_max_left s.cycH2D s.cycD2H
    have h2 := Nat.le_max_right s.cycH2D s.cycD2H
    split <;> rw [mqTimer_nat] <;> omega
  · -- the command needs no request: it completes at once, the queue's weight drops by `K`
    rw [e]
    have hw0 : mqW (max s.cycH2D s.cycD2H + 2) s.nGpus q =
        (max s.cycH2D s.cycD2H + 2 + 4 * mqWant s.nGpus c) +
        (rest.map fun c => max s.cycH2D s.cycD2H + 2 + 4 * mqWant s.nGpus c).sum := by
      simp [mqW, MqQueue.waiting, hr, hc]
    have hw1 : mqW (max s.cycH2D s.cycD2H + 2) s.nGpus
        { q with cmds := rest, running := false, reqs := [], done := q.done + 1 } =
        (rest.map fun c => max s.cycH2D s.cycD2H + 2 + 4 * mqWant s.nGpus c).sum := by
      simp [mqW, MqQueue.waiting]
    have hm : mqMass { s with cyclesLeft := if c.kind = .h2d then (s.cycH2D : Int) else (s.cycD2H : Int),
                              completed := s.completed ++ [(k, q.done)] } = mqMass s := rfl
    have hstrict : mqQW (max s.cycH2D s.cycD2H + 2) s.nGpus
          [{ q with cmds := rest, running := false, reqs := [], done := q.done + 1 }] +
        mqMass { s with cyclesLeft := if c.kind = .h2d then (s.cycH2D : Int) else (s.cycD2H : Int),
                        completed := s.completed ++ [(k, q.done)] } + (max s.cycH2D s.cycD2H + 2) ≤
        mqQW (max s.cycH2D s.cycD2H + 2) s.nGpus [q] + mqMass s := by
      rw [mqQW_cons, mqQW_cons, hw0, hw1, hm]
      simp only [mqQW, List.map_nil, List.sum_nil]
      omega
    refine ⟨rfl, rfl, rfl, rfl, rfl, fun h => (by cases h), fun _ => ⟨hstrict, ?_⟩,
      Nat.le_trans (Nat.le_add_right _ _) hstrict⟩
    show mqTimer (if c.kind = .h2d then (s.cycH2D : Int) else (s.cycD2H : Int)) + 1 ≤ _
    have h1 := Nat.le_max_left s.cycH2D s.cycD2H
    have h2 := Nat.le_max_right s.cycH2D s.cycD2H
    split <;> rw [mqTimer_nat] <;> omega

theorem mqQW_nil (K g : Nat) : mqQW K g [] = 0 := rfl

theorem StartAcc.cons {K g : Nat} {s s1 s2 : Mq} {q q1 : MqQueue} {rest rest2 : List MqQueue} {f1 f2 : Bool}
    (h1 : StartAcc K g s [q] s1 [q1] f1) (h2 : StartAcc K g s1 rest s2 rest2 f2) :
    StartAcc K g s (q :: rest) s2 (q1 :: rest2) (f1 || f2) := by
  have l1 := h1.le
  have l2 := h2.le
  simp only [mqQW_cons, mqQW_nil] at l1
  refine ⟨h2.cfg_g.trans h1.cfg_g, h2.cfg_a.trans h1.cfg_a, h2.cfg_b.trans h1.cfg_b, h2.po.trans h1.po,
    h2.pin.trans h1.pin, ?_, ?_, ?_⟩
  · intro hf
    simp only [Bool.or_eq_false_iff] at hf
    obtain ⟨e1, e2, e3⟩ := h1.none hf.1
    obtain ⟨d1, d2, d3⟩ := h2.none hf.2
    refine ⟨d1.trans e1, ?_, ?_⟩
    · rw [d2]; simp only [List.cons.injEq, and_true] at e2; rw [e2]
    · intro q' hq'
      rcases List.mem_cons.1 hq' with rfl | hq'
      · exact e3 q' (List.mem_singleton.2 rfl)
      · exact d3 q' hq'
  · intro hf
    cases hf2 : f2 with
    | true =>
      obtain ⟨a1, a2⟩ := h2.some hf2
      refine ⟨?_, a2⟩
      simp only [mqQW_cons]
      omega
    | false =>
      rw [hf2, Bool.or_false] at hf
      obtain ⟨a1, a2⟩ := h1.some hf
      obtain ⟨d1, d2, _⟩ := h2.none hf2
      simp only [mqQW_cons, mqQW_nil] at a1
      rw [d1, d2]
      refine ⟨?_, a2⟩
      simp only [mqQW_cons]
      omega
  · simp only [mqQW_cons]
    omega

theorem mqStartAll_acc {K g : Nat} : ∀ (qs : List MqQueue) (s : Mq) (qi : Nat),
    max s.cycH2D s.cycD2H + 2 = K → s.nGpus = g →
    StartAcc K g s qs (mqStartAll s qi qs).1 (mqStartAll s qi qs).2.1 (mqStartAll s qi qs).2.2
  | [], s, qi, _, _ =>
    ⟨rfl, rfl, rfl, rfl, rfl, fun _ => ⟨rfl, rfl, fun q hq => (by cases hq)⟩, fun h => (by cases h), Nat.le_refl _⟩
  | q :: rest, s, qi, hK, hg => by
    have h1 := s.start_acc qi q
    rw [hK, hg] at h1
    have h2 := mqStartAll_acc (K := K) (g := g) rest (s.start qi q).1 (qi + 1)
      (by rw [h1.cfg_a, h1.cfg_b]; exact hK) (by rw [h1.cfg_g]; exact hg)
    exact h1.cons h2

/-! ## the stages of a tick -/

/-- no queue can start a command -/
def Mq.noStart (s : Mq) : Prop := ∀ q ∈ s.queues, q.cmds = [] ∨ q.running = true

theorem Mq.startAll_pot (s : Mq) (o : Nat) :
    mqPot s.startAll.1 s.startAll.1.queues o ≤ mqPot s s.queues o ∧
    (mqPot s.startAll.1 s.startAll.1.queues o + 1 ≤ mqPot s s.queues o ∨ s.noStart) := by
  have acc := mqStartAll_acc s.queues s 0 rfl rfl
  have hP : mqPot s.startAll.1 s.startAll.1.queues o =
      mqQW (max s.cycH2D s.cycD2H + 2) s.nGpus (mqStartAll s 0 s.queues).2.1 +
      mqTimer (mqStartAll s 0 s.queues).1.cyclesLeft + mqMass (mqStartAll s 0 s.queues).1 +
      2 * (s.portOut.length + o) + s.portIn.length := by
    show mqPot (mqStartAll s 0 s.queues).1 (mqStartAll s 0 s.queues).2.1 o = _
    unfold mqPot mqMass
    rw [acc.cfg_g, acc.cfg_a, acc.cfg_b, acc.po, acc.pin]
    omega
  have hQ : mqPot s s.queues o = mqQW (max s.cycH2D s.cycD2H + 2) s.nGpus s.queues + mqTimer s.cyclesLeft +
      mqMass s + 2 * (s.portOut.length + o) + s.portIn.length := by
    unfold mqPot mqMass; omega
  rw [hP, hQ]
  cases hf : (mqStartAll s 0 s.queues).2.2 with
  | false =>
    obtain ⟨e1, e2, e3⟩ := acc.none hf
    rw [e1, e2]
    exact ⟨Nat.le_refl _, .inr e3⟩
  | true =>
    obtain ⟨a1, a2⟩ := acc.some hf
    constructor
    · omega
    · left; omega

theorem Mq.sendToGPUs_pot (s : Mq) (qs : List MqQueue) (o : Nat) (hpo : s.portOut = []) :
    mqPot s.sendToGPUs.1 qs o + 1 ≤ mqPot s qs o ∨ (s.sendToGPUs.1 = s ∧ s.toSend = []) := by
  rcases s.sendToGPUs_cases with ⟨e, h | h⟩ | ⟨r, rest, hts, _, e⟩
  · right; rw [e]; exact ⟨rfl, h⟩
  · rw [hpo] at h; exact absurd (by decide) h
  · left
    rw [e]
    simp only [mqPot, hts, hpo, List.length_cons, List.length_append, List.length_nil]
    omega

theorem Mq.delay_pot (s : Mq) (qs : List MqQueue) (o : Nat) :
    mqPot s.delay.1 qs o + 1 ≤ mqPot s qs o ∨ (s.delay.1 = s ∧ s.cyclesLeft < 0) := by
  rcases s.delay_cases with ⟨hc, e⟩ | ⟨hc, e⟩ | ⟨hc, e⟩
  · left
    rw [e]
    have := mqTimer_pred hc
    simp only [mqPot]
    omega
  · left
    rw [e]
    have h0 : mqTimer s.cyclesLeft = 1 := by rw [hc]; rfl
    have h1 : mqTimer (-1) = 0 := rfl
    simp only [mqPot, List.length_append, List.length_nil, h0, h1]
    omega
  · right; rw [e]; exact ⟨rfl, hc⟩

theorem Mq.response_pot {g a b n : Nat} {s : Mq} {out : List MqReq} {en : List (Nat × MqCmd)}
    (h : MInv g a b n s s.queues out en) (o : Nat) :
    mqPot s.response.1 s.response.1.queues o + 1 ≤ mqPot s s.queues o ∨ (s.response.1 = s ∧ s.portIn = []) := by
  rcases s.response_cases with ⟨hpi, e⟩ | ⟨id, rest, hpi, hans, _⟩ | ⟨id, rest, qs', c, hpi, hans, e⟩
  · right; rw [e]; exact ⟨rfl, hpi⟩
  · obtain ⟨k, q, hk, hc, hm⟩ := h.head_found hpi
    exact absurd hm (mqAnswer_none hans k q hk hc)
  · left
    rw [e]
    obtain ⟨k, q0, hk, hc, hm, hcase⟩ := mqAnswer_some hans
    obtain ⟨hrun, _⟩ := h.q.pick hk hm
    have hQ : mqQW (max s.cycH2D s.cycD2H + 2) s.nGpus qs' = mqQW (max s.cycH2D s.cycD2H + 2) s.nGpus s.queues := by
      rcases hcase with ⟨_, rfl, _⟩ | ⟨_, rfl, _⟩
      · apply mqQW_set hk
        simp [mqW, MqQueue.waiting, hrun]
      · apply mqQW_set hk
        simp [mqW, MqQueue.waiting]
    simp only [mqPot, hQ, hpi, List.length_cons]
    omega

theorem Mq.sendToGPUs_queues (s : Mq) : s.sendToGPUs.1.queues = s.queues := by
  rcases s.sendToGPUs_cases with ⟨e, _⟩ | ⟨r, rest, _, _, e⟩ <;> rw [e]

theorem Mq.delay_queues (s : Mq) : s.delay.1.queues = s.queues := by
  rcases s.delay_cases with ⟨_, e⟩ | ⟨_, e⟩ | ⟨_, e⟩ <;> rw [e]

section
variable {g a b n : Nat} {s : Mq} {out : List MqReq} {en : List (Nat × MqCmd)}

theorem MInv.sendToGPUs' (h : MInv g a b n s s.queues out en) :
    MInv g a b n s.sendToGPUs.1 s.sendToGPUs.1.queues out en := by
  rw [s.sendToGPUs_queues]; exact h.sendToGPUs

theorem MInv.delay' (h : MInv g a b n s s.queues out en) : MInv g a b n s.delay.1 s.delay.1.queues out en := by
  rw [s.delay_queues]; exact h.delay

theorem Mq.tick_eq (h : MInv g a b n s s.queues out en) :
    s.tick.1 = s.sendToGPUs.1.delay.1.response.1.startAll.1 := by
  have h3 := h.sendToGPUs'.delay'.response
  unfold Mq.tick
  rw [if_neg (by rw [h.fault]; simp)]
  simp only
  rw [if_neg (by rw [h3.fault]; simp)]

theorem Mq.tick_pot (h : MInv g a b n s s.queues out en) (hpo : s.portOut = []) (o : Nat) :
    mqPot s.tick.1 s.tick.1.queues o + 1 ≤ mqPot s s.queues o ∨
    (s.toSend = [] ∧ s.cyclesLeft < 0 ∧ s.portIn = [] ∧ s.noStart) := by
  rw [Mq.tick_eq h]
  have ha := h.sendToGPUs'
  have hb := ha.delay'
  have hA : mqPot s.sendToGPUs.1 s.sendToGPUs.1.queues o + 1 ≤ mqPot s s.queues o ∨
      (s.sendToGPUs.1 = s ∧ s.toSend = []) := by
    rw [s.sendToGPUs_queues]; exact s.sendToGPUs_pot s.queues o hpo
  have hB : mqPot s.sendToGPUs.1.delay.1 s.sendToGPUs.1.delay.1.queues o + 1 ≤
        mqPot s.sendToGPUs.1 s.sendToGPUs.1.queues o ∨
      (s.sendToGPUs.1.delay.1 = s.sendToGPUs.1 ∧ s.sendToGPUs.1.cyclesLeft < 0) := by
    rw [s.sendToGPUs.1.delay_queues]; exact s.sendToGPUs.1.delay_pot s.sendToGPUs.1.queues o
  have hC := Mq.response_pot hb o
  have hD := s.sendToGPUs.1.delay.1.response.1.startAll_pot o
  have hBw : mqPot s.sendToGPUs.1.delay.1 s.sendToGPUs.1.delay.1.queues o ≤
      mqPot s.sendToGPUs.1 s.sendToGPUs.1.queues o := by
    rcases hB with hB | ⟨eb, _⟩
    · omega
    · rw [eb]; exact Nat.le_refl _
  have hCw : mqPot s.sendToGPUs.1.delay.1.response.1 s.sendToGPUs.1.delay.1.response.1.queues o ≤
      mqPot s.sendToGPUs.1.delay.1 s.sendToGPUs.1.delay.1.queues o := by
    rcases hC with hC | ⟨ec, _⟩
    · omega
    · rw [ec]; exact Nat.le_refl _
  rcases hA with hA | ⟨ea, hts⟩
  · left
    omega
  · rw [ea] at hB hC hD hBw hCw ⊢
    rcases hB with hB | ⟨eb, hcyc⟩
    · left; omega
    · rw [eb] at hC hD hCw ⊢
      rcases hC with hC | ⟨ec, hpi⟩
      · left; omega
      · rw [ec] at hD ⊢
        rcases hD.2 with hD' | hns
        · left; exact hD'
        · right; exact ⟨hts, hcyc, hpi, hns⟩

end

/-! ## one service round of the GPU side -/

/-- the state after `serveOps`: everything that was in the GPU port or at the GPU side is answered -/
def MqEnv.served (e : MqEnv) : MqEnv :=
  { e with s := { e.s with portOut := [], portIn := e.s.portIn ++ (e.outstanding ++ e.s.portOut).map (·.id) },
           outstanding := [], seen := e.seen ++ e.s.portOut }

theorem MqEnv.step_rsp0 {e : MqEnv} {r : MqReq} {rest : List MqReq} (h : e.outstanding = r :: rest) :
    (e.step (.rsp 0)).1 = { e with s := { e.s with portIn := e.s.portIn ++ [r.id] }, outstanding := rest } := by
  simp only [MqEnv.step, h, Nat.zero_mod, List.getElem?_cons_zero, List.eraseIdx_cons_zero]

theorem MqEnv.run_rsp0 : ∀ (l : List MqReq) (e : MqEnv), e.outstanding = l →
    e.run (List.replicate l.length (.rsp 0)) =
      { e with s := { e.s with portIn := e.s.portIn ++ l.map (·.id) }, outstanding := [] }
  | [], e, h => by
    obtain ⟨s, out, seen, enq⟩ := e
    simp only at h
    subst h
    simp [MqEnv.run]
  | r :: rest, e, h => by
    simp only [List.length_cons, List.replicate_succ, MqEnv.run]
    rw [MqEnv.step_rsp0 h, MqEnv.run_rsp0 rest _ rfl]
    simp

theorem MqEnv.run_serveOps (e : MqEnv) : e.run e.serveOps = e.served := by
  unfold MqEnv.serveOps MqEnv.served
  simp only [MqEnv.run]
  have h1 : (e.step (.take e.s.portOut.length)).1 =
      { e with s := { e.s with portOut := [] }, outstanding := e.outstanding ++ e.s.portOut,
               seen := e.seen ++ e.s.portOut } := by
    simp [MqEnv.step]
  rw [h1]
  have h2 := MqEnv.run_rsp0 (e.outstanding ++ e.s.portOut)
    { e with s := { e.s with portOut := [] }, outstanding := e.outstanding ++ e.s.portOut,
             seen := e.seen ++ e.s.portOut } rfl
  rw [List.length_append] at h2
  rw [h2]

theorem MqEnv.round_eq (e : MqEnv) : e.round = { e.served with s := e.served.s.tick.1 } := by
  unfold MqEnv.round
  rw [MqEnv.run_serveOps]
  rfl

theorem MqEnv.served_pot (e : MqEnv) : e.served.potential ≤ e.potential := by
  rw [MqEnv.potential_eq, MqEnv.potential_eq]
  simp only [MqEnv.served, mqPot, List.length_append, List.length_map, List.length_nil]
  omega

section
variable {g a b n : Nat} {e : MqEnv}

theorem MqEnv.Inv.served (h : e.Inv g a b n) : e.served.Inv g a b n := by
  rw [← MqEnv.run_serveOps]; exact MqEnv.Inv.run _ h

theorem MqEnv.Inv.round (h : e.Inv g a b n) : e.round.Inv g a b n := by
  unfold MqEnv.round; exact (MqEnv.Inv.run _ h).step .tick

theorem MqEnv.round_enq (e : MqEnv) : e.round.enq = e.enq := by
  rw [MqEnv.round_eq]; rfl

/-- nothing in flight, nothing to start: every queue is empty (a running queue has an open request) -/
theorem MqEnv.Inv.quiet_allDone (h : e.Inv g a b n)
    (hts : e.s.toSend = []) (hcyc : e.s.cyclesLeft < 0) (hpi : e.s.portIn = []) (hout : e.outstanding = [])
    (hpo : e.s.portOut = []) (hns : e.s.noStart) : e.allDone := by
  have haw : e.s.awaiting = [] := by
    apply Decidable.byContradiction
    intro hne
    have := h.timer hne
    omega
  intro q hq
  rcases hns q hq with hc | hrun
  · exact hc
  · exfalso
    obtain ⟨j, hj⟩ := List.mem_iff_getElem?.1 hq
    have hne := h.q.live j q hj hrun
    obtain ⟨x, hx⟩ := List.exists_mem_of_ne_nil _ hne
    obtain ⟨r, hr, rfl, _, _, hna⟩ := (h.q.reqs_iff j q hj x).1 hx
    have hlt : r.id < e.s.nextId := by
      have : r.id ∈ e.s.created.map (·.id) := List.mem_map.2 ⟨r, hr, rfl⟩
      rw [h.fl.ids] at this
      exact List.mem_range.1 this
    have := h.fl.all r.id hlt
    rw [haw, hts, hpo, hout, hpi] at this
    simp only [List.append_nil, List.map_nil, List.nil_append] at this
    exact hna this

theorem MqEnv.Inv.round_pot (h : e.Inv g a b n) :
    e.round.potential < e.potential ∨ e.allDone := by
  have hs := h.served
  have hle := e.served_pot
  have hpot : e.round.potential = mqPot e.served.s.tick.1 e.served.s.tick.1.queues 0 := by
    rw [MqEnv.round_eq]; rfl
  have hpot' : e.served.potential = mqPot e.served.s e.served.s.queues 0 := rfl
  rcases Mq.tick_pot hs rfl 0 with hlt | ⟨hts, hcyc, hpi, hns⟩
  · left; omega
  · right
    change e.s.portIn ++ (e.outstanding ++ e.s.portOut).map (·.id) = [] at hpi
    simp only [List.append_eq_nil_iff, List.map_eq_nil_iff] at hpi
    exact h.quiet_allDone hts hcyc hpi.1 hpi.2.1 hpi.2.2 hns

end

/-! ## once every queue is empty it stays empty -/

theorem mqStartAll_idle : ∀ (qs : List MqQueue) (s : Mq) (qi : Nat), (∀ q ∈ qs, q.cmds = []) →
    (mqStartAll s qi qs).2.1 = qs
  | [], _, _, _ => rfl
  | q :: rest, s, qi, h => by
    have hq : q.cmds = [] := h q (List.mem_cons_self ..)
    have e : s.start qi q = (s, q, false) := by
      rcases s.start_cases qi q with ⟨_, e⟩ | ⟨c, rest', hc, _⟩ | ⟨c, rest', hc, _⟩
      · exact e
      · rw [hq] at hc; cases hc
      · rw [hq] at hc; cases hc
    unfold mqStartAll
    simp only [e]
    rw [mqStartAll_idle rest s (qi + 1) (fun q' hq' => h q' (List.mem_cons_of_mem _ hq'))]

theorem Mq.response_idle (s : Mq) (h : ∀ q ∈ s.queues, q.cmds = []) : ∀ q ∈ s.response.1.queues, q.cmds = [] := by
  rcases s.response_cases with ⟨_, e⟩ | ⟨id, rest, _, _, e⟩ | ⟨id, rest, qs', c, _, hans, _⟩
  · rw [e]; exact h
  · rw [e]; exact h
  · obtain ⟨k, q0, hk, hc, _⟩ := mqAnswer_some hans
    exact absurd (h q0 (List.mem_of_getElem? hk)) hc

theorem Mq.tick_idle (s : Mq) (h : ∀ q ∈ s.queues, q.cmds = []) : ∀ q ∈ s.tick.1.queues, q.cmds = [] := by
  have h2 : ∀ q ∈ s.sendToGPUs.1.delay.1.queues, q.cmds = [] := by
    rw [Mq.delay_queues, Mq.sendToGPUs_queues]; exact h
  have h3 := Mq.response_idle _ h2
  unfold Mq.tick
  split
  · exact h
  · simp only
    split
    · exact h3
    · show ∀ q ∈ (mqStartAll _ 0 _).2.1, q.cmds = []
      rw [mqStartAll_idle _ _ _ h3]; exact h3

theorem MqEnv.allDone_round {e : MqEnv} (h : e.allDone) : e.round.allDone := by
  rw [MqEnv.round_eq]
  exact Mq.tick_idle e.served.s h

theorem MqEnv.allDone_rounds : ∀ (k : Nat) {e : MqEnv}, e.allDone → (e.rounds k).allDone
  | 0, _, h => h
  | k + 1, _, h => MqEnv.allDone_rounds k (MqEnv.allDone_round h)

/-- the potential bounds the number of rounds until every queue is empty -/
theorem MqEnv.Inv.rounds_allDone {g a b n : Nat} : ∀ (k : Nat) {e : MqEnv}, e.Inv g a b n →
    e.potential ≤ k → (e.rounds k).allDone
  | 0, e, h, hk => by
    rcases h.round_pot with hlt | hd
    · omega
    · exact hd
  | k + 1, e, h, hk => by
    rcases h.round_pot with hlt | hd
    · exact MqEnv.Inv.rounds_allDone k h.round (by omega)
    · exact MqEnv.allDone_rounds (k + 1) hd

/-! ## before the repair: the zero-length copy without flush was stuck forever -/

deriving instance DecidableEq for Mq
deriving instance DecidableEq for MqEnv

theorem MqEnv.roundsOld_fix {e : MqEnv} (h : e.roundOld = e) : ∀ k, e.roundsOld k = e
  | 0 => rfl
  | k + 1 => by
    show e.roundOld.roundsOld k = e
    rw [h]; exact MqEnv.roundsOld_fix h k

instance (e : MqEnv) : Decidable e.allDone := by unfold MqEnv.allDone; infer_instance

/-- BEFORE the repair (`Mq.tickOld`), a copy of 0 pieces without flush on the only queue: the queue
    is marked running with no request open, and no round changes anything any more -/
theorem mq_zero_stuck_old : ∀ k, ¬ ((reachMqOld 1 0 0 1 false [.enq 0 ⟨.h2d, 0, false⟩]).roundsOld k).allDone
  | 0 => by decide +kernel
  | 1 => by decide +kernel
  | k + 2 => by
    have hfix : (reachMqOld 1 0 0 1 false [.enq 0 ⟨.h2d, 0, false⟩]).roundOld.roundOld.roundOld =
        (reachMqOld 1 0 0 1 false [.enq 0 ⟨.h2d, 0, false⟩]).roundOld.roundOld := by decide +kernel
    show ¬ ((reachMqOld 1 0 0 1 false [.enq 0 ⟨.h2d, 0, false⟩]).roundOld.roundOld.roundsOld k).allDone
    rw [MqEnv.roundsOld_fix hfix k]
    decide +kernel

end C11
