import MgpuProofs.C03SLemmas
/-! Run-level infrastructure for the scalar-ALU theorems of C03: the architectural input type
    (SCC is a `Bool`), per-handler frames, the list of proved handlers, congruence of `execute`. -/
namespace C03S
open C03S
set_option linter.unusedSimpArgs false
set_option maxRecDepth 4000

/-! ## SCC as one bit -/

theorem ArchIn.sccOk (a : ArchIn) : a.toIn.sccOk := by
  cases h : a.scc <;> simp [ArchIn.toIn, ScalarIn.sccOk, h]

/-- the inputs with a one-bit SCC are exactly the images of architectural inputs -/
theorem sccOk_iff (i : ScalarIn) : i.sccOk ↔ ∃ a : ArchIn, a.toIn = i := by
  constructor
  · intro h
    rcases h with h | h
    · exact ⟨⟨i.src0, i.src1, i.dstOld, false, i.vcc, i.exec, i.pc, i.simm16⟩, by cases i; simp_all [ArchIn.toIn]⟩
    · exact ⟨⟨i.src0, i.src1, i.dstOld, true, i.vcc, i.exec, i.pc, i.simm16⟩, by cases i; simp_all [ArchIn.toIn]⟩
  · rintro ⟨a, rfl⟩; exact a.sccOk

/-- handler `h` dispatched for (format, opcode) has, for every ARCHITECTURAL input (SCC is one bit
    by type), exactly the effect the ISA function `spec` prescribes -/
def ConformsArch (disp : Nat → Nat → Option (ScalarIn → ScalarOut)) (fmt op dstW : Nat)
    (spec : ScalarIn → ScalarOut) : Prop :=
  ∃ h, disp fmt op = some h ∧ ∀ a : ArchIn, (h a.toIn).norm dstW = spec a.toIn

theorem conformsArch_iff_conformsScc {disp fmt op w spec} :
    ConformsArch disp fmt op w spec ↔ ConformsScc disp fmt op w spec := by
  constructor
  · rintro ⟨h, hd, hc⟩
    refine ⟨h, hd, fun i hi => ?_⟩
    obtain ⟨a, rfl⟩ := (sccOk_iff i).mp hi
    exact hc a
  · rintro ⟨h, hd, hc⟩
    exact ⟨h, hd, fun a => hc a.toIn a.sccOk⟩

theorem ConformsTo.toArch {disp fmt op w spec} (h : ConformsTo disp fmt op w spec) :
    ConformsArch disp fmt op w spec := by
  obtain ⟨f, hd, hc⟩ := h
  exact ⟨f, hd, fun a => hc a.toIn⟩

/-- both ALUs have the same architectural effect on every ARCHITECTURAL input (SCC one bit by type) -/
def AgreeArch (fmt op dstW : Nat) : Prop :=
  ∃ g c, Gen.gcn3.dispatch fmt op = some g ∧ Gen.cdna3.dispatch fmt op = some c ∧
    ∀ a : ArchIn, (g a.toIn).norm dstW = (c a.toIn).norm dstW

theorem agree_of_conformsArch {fmt op w : Nat} {spec : ScalarIn → ScalarOut}
    (h1 : ConformsArch Gen.gcn3.dispatch fmt op w spec) (h2 : ConformsArch Gen.cdna3.dispatch fmt op w spec) :
    AgreeArch fmt op w := by
  obtain ⟨g, hg, hg'⟩ := h1
  obtain ⟨c, hc, hc'⟩ := h2
  exact ⟨g, c, hg, hc, fun a => (hg' a).trans (hc' a).symm⟩

theorem agreeArch_iff_agreeScc {fmt op w : Nat} : AgreeArch fmt op w ↔ AgreeScc fmt op w := by
  constructor
  · rintro ⟨g, c, hg, hc, h⟩
    refine ⟨g, c, hg, hc, fun i hi => ?_⟩
    obtain ⟨a, rfl⟩ := (sccOk_iff i).mp hi
    exact h a
  · rintro ⟨g, c, hg, hc, h⟩
    exact ⟨g, c, hg, hc, fun a => h a.toIn a.sccOk⟩

/-! ## Frames -/

/-- the handler dispatched for (format, opcode) writes only the cells `w` allows, on every input -/
def Frame (disp : Nat → Nat → Option (ScalarIn → ScalarOut)) (fmt op : Nat) (w : Writes) : Prop :=
  ∃ h, disp fmt op = some h ∧ ∀ i : ScalarIn, (h i).WritesOnly w

theorem writesOnly_lit (w : Writes) (d : Option (BitVec 64)) (s : Option (BitVec 8)) (v e p : Option (BitVec 64))
    (h1 : w.dst = false → d = none) (h2 : w.scc = false → s = none) (h3 : w.vcc = false → v = none)
    (h4 : w.exec = false → e = none) (h5 : w.pc = false → p = none) (h6 : SccBit s) :
    ({ dst := d, scc := s, vcc := v, exec := e, pc := p } : ScalarOut).WritesOnly w :=
  ⟨h1, h2, h3, h4, h5, h6⟩

/-- per-handler frame proof: unfold the handler, follow every branch, inspect the record -/
macro "frame" h:ident : tactic => `(tactic| (
  intro i
  simp only [$h:ident]
  (repeat' split) <;> simp [ScalarOut.WritesOnly, SccBit, ScalarOut.nothing, Spec.writes, Spec.wD, Spec.wDS, Spec.wS, Spec.wDSE, Spec.wP, Spec.wNone]))

macro "frame0" : tactic => `(tactic| (
  intro i
  simp [ScalarOut.WritesOnly, SccBit, ScalarOut.nothing, Spec.writes, Spec.wD, Spec.wDS, Spec.wS, Spec.wDSE, Spec.wP, Spec.wNone]))


/-! ## `execute` and its congruence -/

theorem keep_idem (w : Nat) (v : BitVec 64) : keep w (keep w v) = keep w v := by
  unfold keep
  split
  · apply BitVec.eq_of_toNat_eq; simp
  · rfl

theorem norm_idem (w : Nat) (o : ScalarOut) : (o.norm w).norm w = o.norm w := by
  cases o with
  | mk d s v e p => cases d <;> simp [ScalarOut.norm, keep_idem]

/-- write-back sees a handler's output only through `norm` -/
theorem commit_norm (w : Nat) (d : DInst) (st : MState) (o : ScalarOut) :
    commit w d st (o.norm w) = commit w d st o := by
  cases o with
  | mk dd s v e p => cases dd <;> simp [commit, commitSpecial, ScalarOut.norm, keep_idem]

theorem fetch_sccOk {a b : Nat} {d : DInst} {st : MState} {i : ScalarIn} (hst : st.scc ≤ 1)
    (h : fetch a b d st = some i) : i.sccOk := by
  have h01 : st.scc = 0 ∨ st.scc = 1 := by omega
  unfold fetch at h
  simp only [] at h
  split at h
  · cases h
    rcases h01 with h0 | h0 <;> simp [ScalarIn.sccOk, h0]
  · cases h

/-- two handlers that agree (up to `norm`) on architectural inputs execute alike from every state
    whose SCC is a bit -/
theorem execute_congr (w a b : Nat) (f g : ScalarIn → ScalarOut) (d : DInst) (st : MState) (hst : st.scc ≤ 1)
    (h : ∀ x : ArchIn, (f x.toIn).norm w = (g x.toIn).norm w) :
    execute ⟨w, a, b, f⟩ d st = execute ⟨w, a, b, g⟩ d st := by
  unfold execute
  cases hf : fetch a b d st with
  | none => rfl
  | some i =>
    obtain ⟨x, rfl⟩ := (sccOk_iff i).mp (fetch_sccOk hst hf)
    simp only [Option.bind_eq_bind, Option.bind_some]
    rw [← commit_norm w d st (f x.toIn), ← commit_norm w d st (g x.toIn), h x]

theorem writeOpnd_scc {st st' : MState} {c w v : Nat} (h : writeOpnd st c w v = some st') : st'.scc = st.scc := by
  unfold writeOpnd at h
  repeat' split at h
  all_goals first | (cases h; rfl) | (cases h)

theorem commitSpecial_scc (st1 : MState) (o : ScalarOut) :
    (commitSpecial st1 o).scc = match o.scc with | some v => v.toNat | none => st1.scc := by
  unfold commitSpecial
  cases o.pc <;> cases o.scc <;> cases o.vcc <;> cases o.exec <;> rfl

/-- after write-back SCC is what the record wrote, else unchanged -/
theorem commit_scc {w : Nat} {d : DInst} {st st' : MState} {o : ScalarOut} (h : commit w d st o = some st') :
    st'.scc = match o.scc with | some v => v.toNat | none => st.scc := by
  unfold commit at h
  split at h
  · split at h
    · simp only [Option.map_eq_some_iff] at h
      obtain ⟨st1, h1, rfl⟩ := h
      rw [commitSpecial_scc, writeOpnd_scc h1]
    · cases h
  · cases h
    exact commitSpecial_scc st o

/-! ## The specification respects the ISA destination table -/

theorem bit_is_bit (b : Bool) : Spec.bit b = 0#8 ∨ Spec.bit b = 1#8 := by
  cases b <;> simp [Spec.bit]

theorem sccBit_bit (b : Bool) : SccBit (some (Spec.bit b)) := by
  cases b <;> simp [SccBit, Spec.bit]

/-- the ISA functions respect the ISA's own destination table, and write only bits to SCC -/
theorem spec_respects_writes' : ∀ o ∈ Spec.ops, ∀ i : ScalarIn, (o.f i).WritesOnly (Spec.writes o.fmt o.op) := by
  simp only [Spec.ops, List.forall_mem_cons, List.forall_mem_nil, and_true]
  repeat' apply And.intro
  all_goals first | (intro x hx; exact absurd hx (List.not_mem_nil)) |
  (intro i
   simp only [Spec.s_add_u32, Spec.s_sub_u32, Spec.s_add_i32, Spec.s_sub_i32, Spec.s_addc_u32, Spec.s_subb_u32,
     Spec.s_min_i32, Spec.s_min_u32, Spec.s_max_i32, Spec.s_max_u32, Spec.s_cselect_b32, Spec.s_cselect_b64,
     Spec.s_and_b32, Spec.s_and_b64, Spec.s_or_b32, Spec.s_or_b64, Spec.s_xor_b32, Spec.s_xor_b64, Spec.s_andn2_b32,
     Spec.s_andn2_b64, Spec.s_orn2_b32, Spec.s_orn2_b64, Spec.s_lshl_b32, Spec.s_lshl_b64, Spec.s_lshr_b32, Spec.s_lshr_b64,
     Spec.s_ashr_i32, Spec.s_ashr_i64, Spec.s_bfm_b32, Spec.s_mul_i32, Spec.s_mul_hi_u32, Spec.s_bfe_u32, Spec.s_bfe_i32,
     Spec.s_mov_b32, Spec.s_mov_b64, Spec.s_not_b32, Spec.s_brev_b32, Spec.s_getpc_b64, Spec.s_and_saveexec_b64,
     Spec.s_or_saveexec_b64, Spec.s_xor_saveexec_b64, Spec.s_andn2_saveexec_b64, Spec.s_orn2_saveexec_b64,
     Spec.s_nand_saveexec_b64, Spec.s_nor_saveexec_b64, Spec.s_xnor_saveexec_b64, Spec.s_abs_i32,
     Spec.s_cmp_eq_i32, Spec.s_cmp_lg_i32, Spec.s_cmp_gt_i32, Spec.s_cmp_ge_i32, Spec.s_cmp_lt_i32, Spec.s_cmp_le_i32,
     Spec.s_cmp_eq_u32, Spec.s_cmp_lg_u32, Spec.s_cmp_gt_u32, Spec.s_cmp_ge_u32, Spec.s_cmp_lt_u32, Spec.s_cmp_le_u32,
     Spec.s_movk_i32, Spec.s_cmovk_i32, Spec.s_cmpk_eq_i32, Spec.s_cmpk_lg_i32, Spec.s_mulk_i32,
     Spec.s_nop, Spec.s_waitcnt, Spec.s_branch, Spec.s_cbranch_scc0, Spec.s_cbranch_scc1, Spec.s_cbranch_vccz,
     Spec.s_cbranch_vccnz, Spec.s_cbranch_execz, Spec.s_cbranch_execnz,
     Spec.logic32, Spec.logic64, Spec.cmp, Spec.saveexec, Spec.cbranch]
   (repeat' split) <;>
   simp [ScalarOut.WritesOnly, sccBit_bit, bit_is_bit, SccBit, Spec.ret32, Spec.ret32n, Spec.ret64, Spec.ret64n, Spec.retScc, Spec.retPc,
     Spec.nothing, ScalarOut.nothing, Spec.writes, Spec.wD, Spec.wDS, Spec.wS, Spec.wDSE, Spec.wP, Spec.wNone])

theorem mem_ops_of_find {fmt op : Nat} {o : Spec.Op} (h : Spec.find fmt op = some o) : o ∈ Spec.ops :=
  List.mem_of_find?_eq_some h

theorem spec_scc_bit {fmt op : Nat} {o : Spec.Op} (h : Spec.find fmt op = some o) (i : ScalarIn) :
    SccBit (o.f i).scc :=
  (spec_respects_writes' o (mem_ops_of_find h) i).2.2.2.2.2

/-! ## The list of proved handlers and the coverage of a regenerated dispatch table -/

/-- (format, opcode) is implemented by `disp`, specified by the ISA table, and handler and
    specification agree on every architectural input -/
def ConformsSpec (disp : Nat → Nat → Option (ScalarIn → ScalarOut)) (fmt op : Nat) : Prop :=
  ∃ o h, Spec.find fmt op = some o ∧ disp fmt op = some h ∧ ∀ a : ArchIn, (h a.toIn).norm o.dstW = o.f a.toIn

theorem ConformsSpec.ofArch {disp : Nat → Nat → Option (ScalarIn → ScalarOut)} {fmt op : Nat} (o : Spec.Op)
    (hf : Spec.find fmt op = some o) (h : ConformsArch disp fmt op o.dstW o.f) : ConformsSpec disp fmt op := by
  obtain ⟨f, hd, hc⟩ := h
  exact ⟨o, f, hf, hd, hc⟩

theorem ConformsArch.mono {disp disp' : Nat → Nat → Option (ScalarIn → ScalarOut)} {fmt op w : Nat}
    {spec : ScalarIn → ScalarOut} (hsub : ∀ h, disp fmt op = some h → disp' fmt op = some h)
    (h : ConformsArch disp fmt op w spec) : ConformsArch disp' fmt op w spec := by
  obtain ⟨f, hd, hc⟩ := h
  exact ⟨f, hsub f hd, hc⟩

theorem gen_sub_gcn3 (fmt op : Nat) (h : ScalarIn → ScalarOut) (hd : Gen.gcn3.dispatch fmt op = some h) :
    gcn3Dispatch fmt op = some h := by simp [gcn3Dispatch, hd]
theorem gen_sub_cdna3 (fmt op : Nat) (h : ScalarIn → ScalarOut) (hd : Gen.cdna3.dispatch fmt op = some h) :
    cdna3Dispatch fmt op = some h := by simp [cdna3Dispatch, hd]
theorem hand_sub_gcn3 (fmt op : Nat) (hn : Gen.gcn3.dispatch fmt op = none) (h : ScalarIn → ScalarOut)
    (hd : Hand.gcn3.dispatch fmt op = some h) : gcn3Dispatch fmt op = some h := by simp [gcn3Dispatch, hn, hd]
theorem hand_sub_cdna3 (fmt op : Nat) (hn : Gen.cdna3.dispatch fmt op = none) (h : ScalarIn → ScalarOut)
    (hd : Hand.cdna3.dispatch fmt op = some h) : cdna3Dispatch fmt op = some h := by simp [cdna3Dispatch, hn, hd]

/-- one entry of the frame-theorem list -/
structure Framed (gen hand : Nat → Nat → Option (ScalarIn → ScalarOut)) where
  fmt : Nat
  op : Nat
  ok : Frame gen fmt op (Spec.writes fmt op) ∨ Frame hand fmt op (Spec.writes fmt op)

def Framed.keys {gen hand : Nat → Nat → Option (ScalarIn → ScalarOut)} (ps : List (Framed gen hand)) : List (Nat × Nat) :=
  ps.map fun p => (p.fmt, p.op)

/-- one entry of the theorem list: a (format, opcode) with its conformance proof -/
structure Proved (disp : Nat → Nat → Option (ScalarIn → ScalarOut)) where
  fmt : Nat
  op : Nat
  ok : ConformsSpec disp fmt op

def Proved.keys {disp : Nat → Nat → Option (ScalarIn → ScalarOut)} (ps : List (Proved disp)) : List (Nat × Nat) :=
  ps.map fun p => (p.fmt, p.op)

/-- the rows of a generated (format, opcode, handler) table that have no entry in a theorem list -/
def uncovered (tab : List (Nat × Nat × String)) (keys : List (Nat × Nat)) : List (Nat × Nat × String) :=
  tab.filter fun r => !(keys.contains (r.1, r.2.1))

theorem conforms_of_covered {disp : Nat → Nat → Option (ScalarIn → ScalarOut)} {tab : List (Nat × Nat × String)}
    {ps : List (Proved disp)} (h : uncovered tab (Proved.keys ps) = [])
    (fmt op : Nat) (hin : tab.any (fun r => r.1 == fmt && r.2.1 == op) = true) : ConformsSpec disp fmt op := by
  simp only [List.any_eq_true, Bool.and_eq_true, beq_iff_eq] at hin
  obtain ⟨r, hr, h1, h2⟩ := hin
  have hc : (Proved.keys ps).contains (r.1, r.2.1) = true := by
    have := (List.filter_eq_nil_iff.mp h) r hr
    simpa using this
  rw [List.contains_iff_mem, Proved.keys, List.mem_map] at hc
  obtain ⟨p, _, hp⟩ := hc
  have hp1 : p.fmt = fmt := by rw [← h1]; exact congrArg Prod.fst hp
  have hp2 : p.op = op := by rw [← h2]; exact congrArg Prod.snd hp
  have := p.ok
  rw [hp1, hp2] at this
  exact this

theorem framed_of_covered {gen hand : Nat → Nat → Option (ScalarIn → ScalarOut)} {tab : List (Nat × Nat × String)}
    {ps : List (Framed gen hand)} (h : uncovered tab (Framed.keys ps) = [])
    (fmt op : Nat) (hin : tab.any (fun r => r.1 == fmt && r.2.1 == op) = true) :
    Frame gen fmt op (Spec.writes fmt op) ∨ Frame hand fmt op (Spec.writes fmt op) := by
  simp only [List.any_eq_true, Bool.and_eq_true, beq_iff_eq] at hin
  obtain ⟨r, hr, h1, h2⟩ := hin
  have hc : (Framed.keys ps).contains (r.1, r.2.1) = true := by
    have := (List.filter_eq_nil_iff.mp h) r hr
    simpa using this
  rw [List.contains_iff_mem, Framed.keys, List.mem_map] at hc
  obtain ⟨p, _, hp⟩ := hc
  have hp1 : p.fmt = fmt := by rw [← h1]; exact congrArg Prod.fst hp
  have hp2 : p.op = op := by rw [← h2]; exact congrArg Prod.snd hp
  have := p.ok
  rw [hp1, hp2] at this
  exact this

/-! ## Runs -/

/-- one instruction: whenever the modelled ALU has a handler for it, executing that handler from a
    state whose SCC is a bit gives exactly the state the ISA specification prescribes -/
theorem genSemOf_conforms {disp : Nat → Nat → Option (ScalarIn → ScalarOut)} {tab : List (Nat × Nat × String)}
    (hall : ∀ fmt op h, disp fmt op = some h → ConformsSpec disp fmt op)
    (d : DInst) (st : MState) (hst : st.scc ≤ 1) (sem : Sem) (hs : genSemOf disp tab d = some sem) :
    ∃ sem', specSem d = some sem' ∧ execute sem d st = execute sem' d st := by
  unfold genSemOf at hs
  unfold specSem
  cases hfind : Spec.find d.fmt d.op with
  | none => simp [hfind] at hs
  | some o =>
    simp only [hfind, Option.bind_eq_bind, Option.bind_some] at hs
    refine ⟨⟨o.dstW, o.src0W, o.src1W, o.f⟩, rfl, ?_⟩
    cases hd : disp d.fmt d.op with
    | none =>
      simp only [hd] at hs
      split at hs
      · cases hs; rfl
      · cases hs
    | some f =>
      simp only [hd, Option.some.injEq] at hs
      subst hs
      obtain ⟨o', f', hf', hd', hc⟩ := hall _ _ _ hd
      rw [hfind] at hf'; cases hf'
      rw [hd] at hd'; cases hd'
      apply execute_congr _ _ _ _ _ _ _ hst
      intro x
      rw [← hc x, norm_idem]

theorem execute_spec_scc {fmt op : Nat} {o : Spec.Op} (hf : Spec.find fmt op = some o) {d : DInst} {st st' : MState}
    (hst : st.scc ≤ 1) (h : execute ⟨o.dstW, o.src0W, o.src1W, o.f⟩ d st = some st') : st'.scc ≤ 1 := by
  unfold execute at h
  cases hi : fetch o.src0W o.src1W d st with
  | none => simp [hi] at h
  | some i =>
    simp only [hi, Option.bind_eq_bind, Option.bind_some] at h
    rw [commit_scc h]
    rcases spec_scc_bit hf i with hb | hb | hb <;> simp [hb, hst]

/-- SCC stays a bit along every run of the specification -/
theorem run_spec_scc : ∀ (ds : List DInst) (st st' : MState), st.scc ≤ 1 → run specSem ds st = some st' → st'.scc ≤ 1 := by
  intro ds
  induction ds with
  | nil => intro st st' hst h; simp [run] at h; subst h; exact hst
  | cons d ds ih =>
    intro st st' hst h
    unfold run at h
    cases hs : specSem d with
    | none => simp [hs] at h
    | some s =>
      simp only [hs] at h
      cases he : execute s d st with
      | none => simp [he] at h
      | some st1 =>
        simp only [he] at h
        refine ih st1 st' ?_ h
        unfold specSem at hs
        cases hfind : Spec.find d.fmt d.op with
        | none => simp [hfind] at hs
        | some o =>
          simp only [hfind, Option.map_some, Option.some.injEq] at hs
          subst hs
          exact execute_spec_scc hfind hst he

/-- a whole run: from a state whose SCC is a bit, whatever the modelled ALU computes for a program
    of scalar instructions is what the ISA specification computes -/
theorem run_conforms {disp : Nat → Nat → Option (ScalarIn → ScalarOut)} {tab : List (Nat × Nat × String)}
    (hall : ∀ fmt op h, disp fmt op = some h → ConformsSpec disp fmt op) :
    ∀ (ds : List DInst) (st st' : MState), st.scc ≤ 1 → run (genSemOf disp tab) ds st = some st' →
      run specSem ds st = some st' := by
  intro ds
  induction ds with
  | nil => intro st st' _ h; simpa [run] using h
  | cons d ds ih =>
    intro st st' hst h
    unfold run at h ⊢
    cases hs : genSemOf disp tab d with
    | none => simp [hs] at h
    | some s =>
      simp only [hs] at h
      obtain ⟨s', hs', he⟩ := genSemOf_conforms hall d st hst s hs
      simp only [hs']
      cases hx : execute s d st with
      | none => simp [hx] at h
      | some st1 =>
        simp only [hx] at h
        rw [← he, hx]
        simp only []
        refine ih st1 st' ?_ h
        have : run specSem [d] st = some st1 := by simp [run, hs', ← he, hx]
        exact run_spec_scc [d] st st1 hst this

end C03S
