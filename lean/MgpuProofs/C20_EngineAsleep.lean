import MgpuProofs.C20_Inv2
import MgpuProofs.C20_Measure
/-! # C20 — a tick of a component whose flag is clear finds nothing to do

Under the wake-up discipline `Inv2` a component that has no pending tick event has no work it
could do: its incoming buffers are empty, whatever it would like to send faces a full buffer, and a
sleeping connection has every port blocked.  So a spurious tick of it (which the engine never
schedules, but e.g. a secondary event could) reports "no progress": the flag stays clear. -/
namespace C20

variable {α : Type}

/-! ## the level operations when there is nothing to do -/

theorem send_full (l : Level α) (j : Nat) (u : α) (h : cap ≤ l.pOut.length) : l.send j u = none := by
  unfold Level.send
  rw [if_pos h]

theorem dispatch_blocked (l : Level α)
    (h : l.undisp ≠ [] → l.free ≠ [] → cap ≤ l.pOut.length) : l.dispatch = (l, false) := by
  unfold Level.dispatch
  split
  · rename_i f fs u us hf hu
    rw [send_full l f u (h (by rw [hu]; exact List.cons_ne_nil _ _) (by rw [hf]; exact List.cons_ne_nil _ _))]
  · rfl

theorem childSend_full (l : Level α) (j : Nat) (h : cap ≤ get l.cOut j) : l.childSend j = none := by
  unfold Level.childSend
  simp only
  rw [if_pos h]

theorem childTake_nil (l : Level α) (j : Nat) (h : get l.cIn j = []) : l.childTake j = none := by
  unfold Level.childTake
  rw [h]

/-- `reportFinished…` of a child that is asleep: nothing is sent -/
theorem report_blocked (l : Level α) (j fin : Nat) (h : 0 < fin → cap ≤ get l.cOut j) :
    (if fin = 0 then (l, fin, false)
     else match l.childSend j with
       | none => (l, fin, false)
       | some l' => (l', fin - 1, true)) = (l, fin, false) := by
  by_cases hf : fin = 0
  · rw [if_pos hf]
  · rw [if_neg hf, childSend_full l j (h (Nat.pos_of_ne_zero hf))]

/-! ## a blocked port forwards nothing -/

theorem fwdDown_blocked (pOut : List (Nat × α)) (cIn : List (List α))
    (h : ∀ j u rest, pOut = (j, u) :: rest → cap ≤ (get cIn j).length) :
    Level.fwdDown pOut cIn = (pOut, cIn, [], 0) := by
  cases pOut with
  | nil => rfl
  | cons p rest =>
    obtain ⟨i, u⟩ := p
    unfold Level.fwdDown
    simp only
    rw [if_pos (h i u rest rfl)]

/-- forward direction of `fwdPort_noprogress`: a blocked port makes no progress and moves nothing -/
theorem fwdPort_blocked (o : Level.ConnOut α) (p : Nat) (h : portBlocked o.l p) :
    (Level.fwdPort o p).progress = o.progress ∧ SameBufs o.l (Level.fwdPort o p).l := by
  cases p with
  | zero =>
    have e := fwdDown_blocked o.l.pOut o.l.cIn h
    refine ⟨?_, ?_, rfl, ?_, fun _ => rfl⟩
    · simp only [Level.fwdPort, e, bne_self_eq_false, Bool.or_false]
    · simp only [Level.fwdPort, e]
    · simp only [Level.fwdPort, e]
  | succ k =>
    have hk : min (get o.l.cOut k) (cap - o.l.pIn.length) = 0 := by
      simp only [portBlocked] at h
      omega
    refine ⟨?_, rfl, ?_, rfl, ?_⟩
    · simp only [Level.fwdPort, hk, bne_self_eq_false, Bool.or_false]
    · simp only [Level.fwdPort, hk, List.replicate_zero, List.append_nil]
    · intro i
      simp only [Level.fwdPort, hk, Nat.sub_zero, get_upd]
      split
      · rename_i e; rw [e]
      · rfl

/-- blockedness is transported forwards along `SameBufs` (the converse direction of `portBlocked_same`) -/
theorem portBlocked_same' {a b : Level α} (h : SameBufs a b) (p : Nat) (ha : portBlocked a p) :
    portBlocked b p := by
  obtain ⟨h1, h2, h3, h4⟩ := h
  cases p with
  | zero => simpa only [portBlocked, h1, h3] using ha
  | succ k => simpa only [portBlocked, h2, h4] using ha

theorem foldl_blocked (ps : List Nat) (o : Level.ConnOut α) (h : ∀ p ∈ ps, portBlocked o.l p) :
    (ps.foldl (fun o p => Level.fwdPort o p) o).progress = o.progress := by
  induction ps generalizing o with
  | nil => rfl
  | cons q ps ih =>
    simp only [List.foldl_cons]
    obtain ⟨g1, g2⟩ := fwdPort_blocked o q (h q List.mem_cons_self)
    rw [ih _ (fun p hp => portBlocked_same' g2 p (h p (List.mem_cons_of_mem _ hp))), g1]

/-- converse of `connTick_noprogress`: a connection whose ports are all blocked reports no progress -/
theorem connTick_blocked (l : Level α) (h : ∀ p, p ≤ l.n → portBlocked l p) :
    l.connTick.l.connAwake = false := by
  have hf : connFold l = ((List.range (l.n + 1)).map (fun i => (i + l.rr) % (l.n + 1))).foldl
      (fun o p => Level.fwdPort o p) { l := l } := by
    rw [List.foldl_map]; rfl
  show (connFold l).progress = false
  rw [hf, foldl_blocked]
  intro p hp
  obtain ⟨i, _, e⟩ := List.mem_map.1 hp
  apply h
  have : (i + l.rr) % (l.n + 1) < l.n + 1 := Nat.mod_lt _ (Nat.succ_pos _)
  omega

/-! ## what `LInv2` says about a sleeping parent / a sleeping child -/

theorem LInv2.dispatch_asleep {l : Level α} {n : Nat} {pa : Bool} {ca : Nat → Bool} {cf : Nat → Nat}
    (h : LInv2 l n pa ca cf) (hpa : pa = false) : l.dispatch = (l, false) := by
  apply dispatch_blocked
  intro hu hf
  rcases h.disp hu hf with e | e
  · rw [hpa] at e; cases e
  · exact e

theorem LInv2.procUp_asleep {l : Level α} {n : Nat} {pa : Bool} {ca : Nat → Bool} {cf : Nat → Nat}
    (h : LInv2 l n pa ca cf) (hpa : pa = false) : l.procUp = (l, false, false, false) := by
  apply procUp_nil
  by_cases e : l.pIn = []
  · exact e
  · have := h.parIn e
    rw [hpa] at this; cases this

theorem LInv2.childSend_asleep {l : Level α} {n : Nat} {pa : Bool} {ca : Nat → Bool} {cf : Nat → Nat}
    (h : LInv2 l n pa ca cf) (j : Nat) (hj : j < n) (hca : ca j = false) (hf : cf j ≠ 0) :
    l.childSend j = none := by
  apply childSend_full
  rcases h.chiFin j hj (Nat.pos_of_ne_zero hf) with e | e
  · rw [hca] at e; cases e
  · exact e

theorem LInv2.childTake_asleep {l : Level α} {n : Nat} {pa : Bool} {ca : Nat → Bool} {cf : Nat → Nat}
    (h : LInv2 l n pa ca cf) (j : Nat) (hj : j < n) (hca : ca j = false) : l.childTake j = none := by
  apply childTake_nil
  by_cases e : get l.cIn j = []
  · exact e
  · have := h.chiIn j hj e
    rw [hca] at this; cases this

theorem LInv2.connTick_asleep {l : Level α} {n : Nat} {pa : Bool} {ca : Nat → Bool} {cf : Nat → Nat}
    (h : LInv2 l n pa ca cf) (hn : l.n = n) (hc : l.connAwake = false) :
    l.connTick.l.connAwake = false := by
  apply connTick_blocked
  rcases h.conn with e | e
  · rw [hc] at e; cases e
  · rw [hn]; exact e

/-! ## the seven components -/

open Meas

theorem asleep_noprog_drv (s : Sys) (h2 : Inv2 s) (ha : awakeOf s .drv = false) :
    awakeOf (tickDriver s) .drv = false := by
  have ha' : s.dAwake = false := ha
  have hd := h2.w0.dispatch_asleep ha'
  have hp := h2.w0.procUp_asleep ha'
  unfold tickDriver
  extract_lets d p s1
  have hdE : d = (s.l0, false) := hd
  have hpE : p = (s.l0, false, false, false) := by
    show d.1.procUp = _
    rw [hdE]; exact hp
  rw [if_neg (by rw [hpE]; simp)]
  show (d.2 || p.2.1) = false
  rw [hdE, hpE]; rfl

theorem asleep_noprog_gpu (s : Sys) (g : Nat) (hl : s.legacy = false) (h2 : Inv2 s) (hg : g < s.G)
    (ha : awakeOf s (.gpu g) = false) : awakeOf (tickGpu s g) (.gpu g) = false := by
  have ha' : (get s.gpus g).awake = false := ha
  have hd := (h2.w1 g hg).dispatch_asleep ha'
  have hp := (h2.w1 g hg).procUp_asleep ha'
  have ht := h2.w0.childTake_asleep g hg ha'
  unfold tickGpu
  extract_lets gp r d p2 d1 t p fin s1 s2
  have hrE : r = (s.l0, gp.fin, false) := by
    simp only [r]; split
    · rfl
    · rename_i hf
      rw [h2.w0.childSend_asleep g hg ha' hf]
  have hdE : d = (get s.l1 g, false) := hd
  have htE : t = (s.l0, get s.l1 g, gp.fin, false, false) := by
    simp only [t]
    rw [hrE, hdE]
    simp only
    rw [ht]
  have hpE : p = (get s.l1 g, false, false, false) := by
    show t.2.1.procUp = _
    rw [htE]; exact hp
  have c1 : p.2.2.2 = false := by rw [hpE]
  have c2 : t.2.2.2.2 = false := by rw [htE]
  rw [if_neg (by rw [c1]; simp)]
  simp only [s2]; rw [if_neg (by rw [c2]; simp)]
  show (get (upd s.gpus g _) g).awake = false
  rw [get_upd_self]
  show (r.2.2 || p2 || t.2.2.2.1 || p.2.1) = false
  have hp2 : p2 = false := by simp only [p2, hl, hdE]; rfl
  rw [hrE, hp2, htE, hpE]; rfl

theorem asleep_noprog_sm (s : Sys) (m : Nat) (hl : s.legacy = false) (h2 : Inv2 s)
    (hm : m < s.G * s.S) (ha : awakeOf s (.sm m) = false) :
    awakeOf (tickSm s m) (.sm m) = false := by
  have ha' : (get s.sms m).awake = false := ha
  have hS : 0 < s.S := by
    rcases Nat.eq_zero_or_pos s.S with e | e
    · rw [e, Nat.mul_zero] at hm; cases hm
    · exact e
  have hj : m % s.S < s.S := Nat.mod_lt _ hS
  have hg : m / s.S < s.G := (Nat.div_lt_iff_lt_mul hS).2 hm
  have hca : (fun k => (get s.sms (m / s.S * s.S + k)).awake) (m % s.S) = false := by
    show (get s.sms (m / s.S * s.S + m % s.S)).awake = false
    rw [idx_eq]; exact ha'
  have hd := (h2.w2 m hm).dispatch_asleep ha'
  have hp := (h2.w2 m hm).procUp_asleep ha'
  have ht := (h2.w1 _ hg).childTake_asleep _ hj hca
  unfold tickSm
  extract_lets g j sm lg r d p2 d1 t p fin s1 s2
  have hrE : r = (lg, sm.fin, false) := by
    simp only [r]; split
    · rfl
    · rename_i hf
      have hf' : (fun k => (get s.sms (m / s.S * s.S + k)).fin) (m % s.S) ≠ 0 := by
        show (get s.sms (m / s.S * s.S + m % s.S)).fin ≠ 0
        rw [idx_eq]; exact hf
      have := (h2.w1 _ hg).childSend_asleep _ hj hca hf'
      show (match lg.childSend j with
        | none => (lg, sm.fin, false)
        | some l => (l, sm.fin - 1, true)) = _
      rw [show lg.childSend j = none from this]
  have hdE : d = (get s.l2 m, false) := hd
  have htE : t = (lg, get s.l2 m, sm.fin, sm.warps, false, false) := by
    simp only [t]
    rw [hrE, hdE]
    simp only
    rw [show lg.childTake j = none from ht]
  have hpE : p = (get s.l2 m, false, false, false) := by
    show t.2.1.procUp = _
    rw [htE]; exact hp
  have c1 : p.2.2.2 = false := by rw [hpE]
  have c2 : t.2.2.2.2.2 = false := by rw [htE]
  rw [if_neg (by rw [c1]; simp)]
  simp only [s2]; rw [if_neg (by rw [c2]; simp)]
  show (get (upd s.sms m _) m).awake = false
  rw [get_upd_self]
  show (r.2.2 || p2 || t.2.2.2.2.1 || p.2.1) = false
  have hp2 : p2 = false := by simp only [p2, hl, hdE]; rfl
  rw [hrE, hp2, htE, hpE]; rfl

theorem asleep_noprog_sub (s : Sys) (u : Nat) (h2 : Inv2 s)
    (hu : u < s.G * s.S * s.C) (ha : awakeOf s (.sub u) = false) :
    awakeOf (tickSub s u) (.sub u) = false := by
  have ha' : (get s.subs u).awake = false := ha
  have hC : 0 < s.C := by
    rcases Nat.eq_zero_or_pos s.C with e | e
    · rw [e, Nat.mul_zero] at hu; cases hu
    · exact e
  have hj : u % s.C < s.C := Nat.mod_lt _ hC
  have hm : u / s.C < s.G * s.S := (Nat.div_lt_iff_lt_mul hC).2 hu
  have hca : (fun k => (get s.subs (u / s.C * s.C + k)).awake) (u % s.C) = false := by
    show (get s.subs (u / s.C * s.C + u % s.C)).awake = false
    rw [idx_eq]; exact ha'
  have ht := (h2.w2 _ hm).childTake_asleep _ hj hca
  have hrem : (get s.subs u).rem = 0 := by
    rcases Nat.eq_zero_or_pos (get s.subs u).rem with e | e
    · exact e
    · have := h2.run u hu e
      rw [ha'] at this; cases this
  unfold tickSub
  extract_lets m j sc lm r q
  have hrE : r = (lm, sc.fin, false) := by
    simp only [r]; split
    · rfl
    · rename_i hf
      have hf' : (fun k => (get s.subs (u / s.C * s.C + k)).fin) (u % s.C) ≠ 0 := by
        show (get s.subs (u / s.C * s.C + u % s.C)).fin ≠ 0
        rw [idx_eq]; exact hf
      have := (h2.w2 _ hm).childSend_asleep _ hj hca hf'
      show (match lm.childSend j with
        | none => (lm, sc.fin, false)
        | some l => (l, sc.fin - 1, true)) = _
      rw [show lm.childSend j = none from this]
  have hqE : q.2.2 = false := by
    simp only [q]
    rw [if_pos (show sc.rem = 0 from hrem)]
  split
  · show (get (upd s.subs u _) u).awake = false
    rw [get_upd_self]
    show (r.2.2 || q.2.2) = false
    rw [hrE, hqE]; rfl
  · rename_i n lm' wf heq
    rw [hrE] at heq
    rw [show lm.childTake j = none from ht] at heq
    cases heq

theorem asleep_noprog_c0 (s : Sys) (h2 : Inv2 s) (hn : NInv s) (ha : awakeOf s .c0 = false) :
    awakeOf (tickConn0 s) .c0 = false := by
  have h := h2.w0.connTick_asleep hn.n0 ha
  unfold tickConn0
  extract_lets o s1
  rw [AW_wmGpu _ _ _ _ (by intro _ h; cases h)]
  exact h

theorem asleep_noprog_c1 (s : Sys) (g : Nat) (h2 : Inv2 s) (hn : NInv s) (hg : g < s.G)
    (ha : awakeOf s (.c1 g) = false) : awakeOf (tickConn1 s g) (.c1 g) = false := by
  have h := (h2.w1 g hg).connTick_asleep (hn.n1 g hg) ha
  unfold tickConn1
  extract_lets o s1 s2
  rw [AW_wmSm _ _ _ _ (by intro _ h; cases h)]
  have h1 : awakeOf s2 (.c1 g) = awakeOf s1 (.c1 g) := by
    simp only [s2]; split
    · rw [AW_wakeGpu _ _ _ (by intro h; cases h)]
    · rfl
  rw [h1]
  show (get (upd s.l1 g _) g).connAwake = false
  rw [get_upd_self]
  exact h

theorem asleep_noprog_c2 (s : Sys) (m : Nat) (h2 : Inv2 s) (hn : NInv s) (hm : m < s.G * s.S)
    (ha : awakeOf s (.c2 m) = false) : awakeOf (tickConn2 s m) (.c2 m) = false := by
  have h := (h2.w2 m hm).connTick_asleep (hn.n2 m hm) ha
  unfold tickConn2
  extract_lets o s1 s2
  rw [AW_wmSub _ _ _ _ (by intro _ h; cases h)]
  have h1 : awakeOf s2 (.c2 m) = awakeOf s1 (.c2 m) := by
    simp only [s2]; split
    · rw [AW_wakeSm _ _ _ (by intro h; cases h)]
    · rfl
  rw [h1]
  show (get (upd s.l2 m _) m).connAwake = false
  rw [get_upd_self]
  exact h

/-- A tick of a component whose model flag is clear reports no progress (repaired code, any state
    that satisfies the wake-up discipline `Inv2`): a spurious tick finds nothing to do. -/
theorem asleep_noprog (s : Sys) (e : Ev) (hl : s.legacy = false) (h2 : Inv2 s) (hn : NInv s)
    (he : e.InRange s.G s.S s.C) (ha : awakeOf s e = false) : awakeOf (step s e) e = false := by
  cases e with
  | drv => exact asleep_noprog_drv s h2 ha
  | gpu g => exact asleep_noprog_gpu s g hl h2 he ha
  | sm m => exact asleep_noprog_sm s m hl h2 he ha
  | sub u => exact asleep_noprog_sub s u h2 he ha
  | c0 => exact asleep_noprog_c0 s h2 hn ha
  | c1 g => exact asleep_noprog_c1 s g h2 hn he ha
  | c2 m => exact asleep_noprog_c2 s m h2 hn he ha

end C20
