import MgpuModel.C04
import MgpuProofs.C04
/-! Bit-level lemmas for C04: a format mask `2^32 - 2^k` compares the bits `k..31` of a word, so
    matching a format is a statement about `w / 2^k`. From this: which bits of a word format
    matching depends on, and when two words are matched to the same format. -/
namespace C04
open Gen

theorem testBit_highMask (k i : Nat) (hk : k ≤ 32) :
    (2 ^ 32 - 2 ^ k).testBit i = (decide (k ≤ i) && decide (i < 32)) := by
  have e : 2 ^ 32 - 2 ^ k = 2 ^ k * (2 ^ (32 - k) - 1) := by
    rw [Nat.mul_sub, ← Nat.pow_add, Nat.mul_one]
    congr 2; omega
  rw [e, Nat.testBit_two_pow_mul, Nat.testBit_two_pow_sub_one]
  by_cases h : k ≤ i
  · have : (i - k < 32 - k) ↔ i < 32 := by omega
    simp [h, this]
  · simp [h]

/-- A mask that keeps bits `k..31` compares exactly the quotients by `2^k`. -/
theorem hit_iff_div (w e k : Nat) (hk : k ≤ 32) (hw : w < 2 ^ 32) (he : e < 2 ^ 32) :
    (w ^^^ e) &&& (2 ^ 32 - 2 ^ k) = 0 ↔ w / 2 ^ k = e / 2 ^ k := by
  constructor
  · intro h
    apply Nat.eq_of_testBit_eq
    intro j
    rw [Nat.testBit_div_two_pow, Nat.testBit_div_two_pow]
    by_cases hj : j + k < 32
    · have := congrArg (fun x => x.testBit (j + k)) h
      simp only [Nat.testBit_and, Nat.testBit_xor, Nat.zero_testBit, testBit_highMask _ _ hk] at this
      have h1 : decide (k ≤ j + k) = true := by simp
      have h2 : decide (j + k < 32) = true := by simp [hj]
      rw [h1, h2] at this
      revert this
      cases w.testBit (j + k) <;> cases e.testBit (j + k) <;> simp
    · have hp : 2 ^ 32 ≤ 2 ^ (j + k) := Nat.pow_le_pow_right (by decide) (by omega)
      rw [Nat.testBit_lt_two_pow (Nat.lt_of_lt_of_le hw hp),
          Nat.testBit_lt_two_pow (Nat.lt_of_lt_of_le he hp)]
  · intro h
    apply Nat.eq_of_testBit_eq
    intro i
    simp only [Nat.testBit_and, Nat.testBit_xor, Nat.zero_testBit, testBit_highMask _ _ hk]
    by_cases hi : k ≤ i
    · have := congrArg (fun x => x.testBit (i - k)) h
      simp only [Nat.testBit_div_two_pow] at this
      have e1 : i - k + k = i := by omega
      rw [e1] at this
      rw [this]; simp
    · simp [hi]

/-! ## The mask shape of the format table -/

/-- the `k` with `mask = 2^32 - 2^k` (0 when the mask has another shape; `formats_shaped` says
    that does not happen) -/
def shiftOf (f : Format) : Nat := ((List.range 33).find? fun k => f.mask + 2 ^ k == 2 ^ 32).getD 0

theorem formats_shaped : ∀ f ∈ formats,
    f.mask = 2 ^ 32 - 2 ^ shiftOf f ∧ shiftOf f ≤ 32 ∧ f.encoding < 2 ^ 32 := by decide

theorem hit_eq_div {f : Format} (hf : f ∈ formats) {w : Nat} (hw : w < 2 ^ 32) :
    hit w f = decide (w / 2 ^ shiftOf f = f.encoding / 2 ^ shiftOf f) := by
  obtain ⟨hm, hk, he⟩ := formats_shaped f hf
  unfold hit
  rw [hm, Bool.eq_iff_iff]
  simp only [beq_iff_eq, decide_eq_true_eq]
  exact hit_iff_div w f.encoding _ hk hw he

theorem div_pow_mono {w c p k : Nat} (h : w / 2 ^ p = c / 2 ^ p) (hpk : p ≤ k) :
    w / 2 ^ k = c / 2 ^ k := by
  have e : 2 ^ k = 2 ^ p * 2 ^ (k - p) := by
    rw [← Nat.pow_add]; congr 1; omega
  rw [e, ← Nat.div_div_eq_div_mul, ← Nat.div_div_eq_div_mul, h]

theorem extractBits_of_div {w c lo hi p : Nat} (h : w / 2 ^ p = c / 2 ^ p) (hp : p ≤ lo) :
    extractBits w lo hi = extractBits c lo hi := by
  unfold extractBits
  rw [div_pow_mono h hp]

/-- whether a format hits depends only on the bits from its mask's lowest bit upwards -/
theorem hit_of_div {g : Format} (hg : g ∈ formats) {w c p : Nat} (hw : w < 2 ^ 32) (hc : c < 2 ^ 32)
    (h : w / 2 ^ p = c / 2 ^ p) (hp : p ≤ shiftOf g) : hit w g = hit c g := by
  rw [hit_eq_div hg hw, hit_eq_div hg hc, div_pow_mono h hp]

theorem mem_formatList {g : Format} : g ∈ formatList ↔ g ∈ formats := formatList_perm.mem_iff

theorem find?_congr' {α} {p q : α → Bool} (l : List α) (h : ∀ x ∈ l, p x = q x) :
    l.find? p = l.find? q := by
  induction l with
  | nil => rfl
  | cons a as ih =>
    simp only [List.find?_cons, h a List.mem_cons_self]
    rw [ih (fun x hx => h x (List.mem_cons_of_mem _ hx))]

theorem firstCand_congr {w c : Nat} (h : ∀ g ∈ formats, hit w g = hit c g) :
    firstCand formatList w = firstCand formatList c := by
  unfold firstCand
  apply find?_congr'
  intro g hg
  simp only [cand, h g (mem_formatList.mp hg)]

/-- lowest mask bit of any format / lowest opcode bit of VOP3a: nothing below bit 16 is looked at -/
theorem formats_low_bits : ∀ g ∈ formats, 16 ≤ shiftOf g ∧ (g.ft = FT_VOP3a → 16 ≤ g.opLo) := by decide

theorem firstCand_ft_mem {w : Nat} {g : Format} (h : firstCand formatList w = some g) : g ∈ formats :=
  mem_formatList.mp (firstCand_mem h).1

/-- **Format matching reads only bits 16..31** of a 32-bit word. -/
theorem matchFormat_top16 (w w' : Nat) (hw : w < 2 ^ 32) (hw' : w' < 2 ^ 32)
    (h : w / 2 ^ 16 = w' / 2 ^ 16) : matchFormat w = matchFormat w' := by
  have hc : firstCand formatList w = firstCand formatList w' :=
    firstCand_congr fun g hg => hit_of_div hg hw hw' h (formats_low_bits g hg).1
  rw [matchFormat, matchFormat, matchFormatIn_eq, matchFormatIn_eq, hc]
  cases hfc : firstCand formatList w' with
  | none => rfl
  | some g =>
    simp only
    by_cases h8 : g.ft = FT_VOP3a
    · rw [extractBits_of_div h ((formats_low_bits g (firstCand_ft_mem hfc)).2 h8)]
    · have : (g.ft == FT_VOP3a) = false := by simpa using h8
      simp [this]

/-! ## Words that carry the same format encoding and the same opcode -/

/-- lowest bit from which a word is pinned by "hits `f`" and "has this opcode": the opcode field
    when it is adjacent to the encoding bits, otherwise only the encoding bits -/
def pinOf (f : Format) : Nat :=
  if f.opHi + 1 = shiftOf f ∧ f.opLo ≤ f.opHi then f.opLo else shiftOf f

theorem agree_above_pin {f : Format} (hf : f ∈ formats) {w c : Nat} (hw : w < 2 ^ 32) (hc : c < 2 ^ 32)
    (h1 : hit w f = true) (h2 : hit c f = true)
    (he : extractBits w f.opLo f.opHi = extractBits c f.opLo f.opHi) :
    w / 2 ^ pinOf f = c / 2 ^ pinOf f := by
  rw [hit_eq_div hf hw, decide_eq_true_eq] at h1
  rw [hit_eq_div hf hc, decide_eq_true_eq] at h2
  have hk : w / 2 ^ shiftOf f = c / 2 ^ shiftOf f := h1.trans h2.symm
  unfold pinOf
  split
  · rename_i hadj
    obtain ⟨ha, hlo⟩ := hadj
    unfold extractBits at he
    have hwid : f.opHi - f.opLo + 1 = shiftOf f - f.opLo := by omega
    rw [hwid] at he
    have e : 2 ^ shiftOf f = 2 ^ f.opLo * 2 ^ (shiftOf f - f.opLo) := by
      rw [← Nat.pow_add]; congr 1; omega
    rw [e, ← Nat.div_div_eq_div_mul, ← Nat.div_div_eq_div_mul] at hk
    rw [← Nat.div_add_mod (w / 2 ^ f.opLo) (2 ^ (shiftOf f - f.opLo)),
        ← Nat.div_add_mod (c / 2 ^ f.opLo) (2 ^ (shiftOf f - f.opLo)), hk, he]
  · exact hk

/-- `g` cannot tell `w` from `c` when both hit `f` and agree from bit `p` upwards: either `g`'s
    mask lies within the agreed bits, or `g` and `f` disagree on commonly masked bits (then `g`
    hits neither) -/
def pairOK (f : Format) (p : Nat) (g : Format) : Bool :=
  decide (p ≤ shiftOf g) ||
    g.encoding / 2 ^ (max (shiftOf f) (shiftOf g)) != f.encoding / 2 ^ (max (shiftOf f) (shiftOf g))

theorem hit_congr_of_pairOK {f g : Format} (hf : f ∈ formats) (hg : g ∈ formats) {w c p : Nat}
    (hw : w < 2 ^ 32) (hc : c < 2 ^ 32) (h1 : hit w f = true) (h2 : hit c f = true)
    (h : w / 2 ^ p = c / 2 ^ p) (hok : pairOK f p g = true) : hit w g = hit c g := by
  unfold pairOK at hok
  rw [Bool.or_eq_true, decide_eq_true_eq] at hok
  rcases hok with hp | hne
  · exact hit_of_div hg hw hc h hp
  · have none_hits : ∀ x, x < 2 ^ 32 → hit x f = true → hit x g = false := by
      intro x hx hxf
      rw [hit_eq_div hf hx, decide_eq_true_eq] at hxf
      rw [hit_eq_div hg hx]
      apply decide_eq_false
      intro hxg
      have a := div_pow_mono hxf (Nat.le_max_left (shiftOf f) (shiftOf g))
      have b := div_pow_mono hxg (Nat.le_max_right (shiftOf f) (shiftOf g))
      rw [bne_iff_ne] at hne
      exact hne (b.symm.trans a)
    rw [none_hits w hw h1, none_hits c hc h2]

/-! ## Every operand filling of a table row -/

/-- the canonical word of a row: its format's encoding with the opcode field filled in -/
def opcodeWord (f : Format) (op : Nat) : Nat := f.encoding + op * 2 ^ f.opLo

/-- finite obligation per table row (checked by the kernel over the regenerated table): the
    canonical word hits the row's format and carries its opcode, no other format can tell apart
    two words that do, and the first candidate for the canonical word is the row's format (VOP3a
    for a VOP3b row, whose opcode must then be in the VOP3b list and vice versa) -/
def rowFill (r : Row) : Bool :=
  match formatOf r.ft with
  | none => false
  | some f =>
    let c := opcodeWord f r.opcode
    decide (c < 2 ^ 32) && hit c f && extractBits c f.opLo f.opHi == r.opcode &&
    formats.all (pairOK f (pinOf f)) &&
    (match firstCand formatList c with
     | none => false
     | some g => g.opLo == f.opLo && g.opHi == f.opHi &&
        (if g.ft == FT_VOP3a && isVOP3bOpcode r.opcode then r.ft == FT_VOP3b else g == f))

theorem formatOf_mem {ft : Nat} {f : Format} (h : formatOf ft = some f) : f ∈ formats ∧ f.ft = ft := by
  unfold formatOf at h
  exact ⟨List.mem_of_find?_eq_some h, by simpa using List.find?_some h⟩

theorem match_of_rowFill {r : Row} (hr : rowFill r = true) {f : Format} (hf : formatOf r.ft = some f)
    {w : Nat} (hw : w < 2 ^ 32) (h1 : hit w f = true) (hop : extractBits w f.opLo f.opHi = r.opcode) :
    matchFormat w = some f := by
  unfold rowFill at hr
  rw [hf] at hr
  simp only [Bool.and_eq_true, decide_eq_true_eq, beq_iff_eq] at hr
  obtain ⟨⟨⟨⟨hc, h2⟩, hec⟩, hpair⟩, hm⟩ := hr
  have hfm := (formatOf_mem hf).1
  have agree := agree_above_pin hfm hw hc h1 h2 (hop.trans hec.symm)
  have hfc : firstCand formatList w = firstCand formatList (opcodeWord f r.opcode) :=
    firstCand_congr fun g hg =>
      hit_congr_of_pairOK hfm hg hw hc h1 h2 agree (List.all_eq_true.mp hpair g hg)
  rw [matchFormat, matchFormatIn_eq, hfc]
  cases hg : firstCand formatList (opcodeWord f r.opcode) with
  | none => simp [hg] at hm
  | some g =>
    simp only [hg, Bool.and_eq_true, beq_iff_eq] at hm
    obtain ⟨⟨ho1, ho2⟩, hm⟩ := hm
    simp only [ho1, ho2, hop]
    by_cases hcnd : g.ft = FT_VOP3a ∧ isVOP3bOpcode r.opcode = true
    · rw [if_pos hcnd] at hm
      have : (g.ft == FT_VOP3a && isVOP3bOpcode r.opcode) = true := by simpa using hcnd
      rw [if_pos this, ← (beq_iff_eq.mp hm)]; exact hf
    · rw [if_neg hcnd] at hm
      have : ¬ (g.ft == FT_VOP3a && isVOP3bOpcode r.opcode) = true := by simpa using hcnd
      rw [if_neg this, beq_iff_eq.mp hm]

theorem opcode_fits_of_rowFill {r : Row} (hr : rowFill r = true) {f : Format} (hf : formatOf r.ft = some f) :
    r.opcode < 2 ^ (f.opHi - f.opLo + 1) := by
  unfold rowFill at hr
  rw [hf] at hr
  simp only [Bool.and_eq_true, decide_eq_true_eq, beq_iff_eq] at hr
  obtain ⟨⟨⟨⟨_, _⟩, hec⟩, _⟩, _⟩ := hr
  rw [← hec]
  unfold extractBits
  exact Nat.mod_lt _ (Nat.pow_pos (by decide))

end C04
