import MgpuProofs.C20_Cons
/-! # C20 — instruction and warp conservation along every event sequence -/
namespace C20

/-- the conserved quantity, as a function of the fields it depends on -/
def QI (l0 : Level Kernel) (l1 : List (Level Block)) (l2 : List (Level Warp)) (subs : List Sub) : Nat :=
  sum (subs.map (·.insts)) + (l0.weight instsOfKernel + sum (l1.map (Level.weight instsOfBlock)) + sum (l2.map (Level.weight id)))

def Q (s : Sys) : Nat := receivedInsts s + pendingInsts s

theorem Q_eq (s : Sys) : Q s = QI s.l0 s.l1 s.l2 s.subs := rfl

theorem Q_wakeGpu (s : Sys) (g : Nat) : Q (wakeGpu s g) = Q s := rfl
theorem Q_wakeSm (s : Sys) (m : Nat) : Q (wakeSm s m) = Q s := rfl
theorem Q_wakeSub (s : Sys) (u : Nat) : Q (wakeSub s u) = Q s := by
  have := sum_upd (fun c : Sub => c.insts) rfl s.subs u { get s.subs u with awake := true }
  simp only [Q_eq, QI, wakeSub] at this ⊢
  omega

theorem Q_wakeMany (wake : Sys → Nat → Sys) (h : ∀ s k, Q (wake s k) = Q s) (f : Nat → Nat) (s : Sys) (ks : List Nat) :
    Q (wakeMany wake f s ks) = Q s := by
  unfold wakeMany
  induction ks generalizing s with
  | nil => rfl
  | cons k ks ih => simp only [List.foldl_cons]; rw [ih, h]

theorem Q_dAwake (s : Sys) (b : Bool) : Q { s with dAwake := b } = Q s := rfl

theorem Q_tickDriver (s : Sys) : Q (tickDriver s) = Q s := by
  unfold tickDriver
  simp only
  split
  · rw [Q_wakeMany _ Q_wakeGpu]
    simp only [Q_eq, QI, Level.weight_procUp, Level.weight_dispatch]
  · simp only [Q_eq, QI, Level.weight_procUp, Level.weight_dispatch]

theorem Q_tickConn0 (s : Sys) : Q (tickConn0 s) = Q s := by
  unfold tickConn0
  simp only
  rw [Q_wakeMany _ Q_wakeGpu]
  simp only [Q_eq, QI, Level.weight_connTick]

theorem Q_tickConn1 (s : Sys) (g : Nat) : Q (tickConn1 s g) = Q s := by
  unfold tickConn1
  simp only
  rw [Q_wakeMany _ Q_wakeSm]
  have h := sum_upd (Level.weight instsOfBlock) rfl s.l1 g (get s.l1 g).connTick.l
  rw [Level.weight_connTick] at h
  split
  · rw [Q_wakeGpu]; simp only [Q_eq, QI]; omega
  · simp only [Q_eq, QI]; omega

theorem Q_tickConn2 (s : Sys) (m : Nat) : Q (tickConn2 s m) = Q s := by
  unfold tickConn2
  simp only
  rw [Q_wakeMany _ Q_wakeSub]
  have h := sum_upd (Level.weight (id : Warp → Nat)) rfl s.l2 m (get s.l2 m).connTick.l
  rw [Level.weight_connTick] at h
  split
  · rw [Q_wakeSm]; simp only [Q_eq, QI]; omega
  · simp only [Q_eq, QI]; omega

end C20
