import MgpuProofs.C18SysValid
/-! C18 system level: every clone anywhere in the system (waiting in an outgoing buffer of the inside
channel, in flight in the network, or ever delivered to a node) is addressed to the node that the
common remote table `R` gives for its address (`SRoute`).

The only move that creates a clone is the engine tick: `fwdStep (routeOut cfg)` gives the clone the
destination the table finds for the address of the request, and `clonePl` keeps the address. -/
namespace C18

/-- every clone anywhere in the system is addressed to the node the (common) remote table `R`
    gives for its address -/
structure SRoute (R : Nat → Option Nat) (y : Sys) : Prop where
  cfg : ∀ (a : Nat) (A : Node), y.nodes[a]? = some A → ∀ x, routeOut A.cfg x = R x
  out : ∀ (a : Nat) (A : Node), y.nodes[a]? = some A → ∀ c ∈ A.s.io.reqOut, R (addrOf c.pl) = some c.dst
  netQ : ∀ m ∈ y.netQ, R (addrOf m.c.pl) = some m.c.dst
  all : ∀ (b : Nat) (B : Node), y.nodes[b]? = some B → ∀ nm ∈ B.namesAll, R (addrOf nm.c.pl) = some nm.c.dst

theorem sroute_init (R : Nat → Option Nat) (cfgs : List Cfg) (h : ∀ c ∈ cfgs, ∀ x, routeOut c x = R x) :
    SRoute R (initSys cfgs) := by
  constructor
  · intro a A ha
    simp only [initSys, List.getElem?_map, Option.map_eq_some_iff] at ha
    obtain ⟨c, hc, rfl⟩ := ha
    exact h c (List.mem_of_getElem? hc)
  · intro a A ha
    simp only [initSys, List.getElem?_map, Option.map_eq_some_iff] at ha
    obtain ⟨c, _, rfl⟩ := ha
    intro o ho; simp at ho
  · intro m hm; simp [initSys] at hm
  · intro b B hb
    simp only [initSys, List.getElem?_map, Option.map_eq_some_iff] at hb
    obtain ⟨c, _, rfl⟩ := hb
    intro nm hnm; simp at hnm

/-! ### the channel predicate through a tick -/

/-- every clone in the outgoing buffer is addressed to the node `R` gives for its address -/
def OutRoute (R : Nat → Option Nat) (c : Chan) : Prop := ∀ o ∈ c.reqOut, R (addrOf o.pl) = some o.dst

theorem outRoute_fwdStep (R : Nat → Option Nat) (route : Nat → Option Nat) (cap : Nat) (c : Chan)
    (hr : ∀ x, route x = R x) (h : OutRoute R c) : OutRoute R (fwdStep route cap c).1 := by
  unfold fwdStep
  split
  · exact h
  · next r rest hin =>
    split
    · exact h
    · split
      · exact h
      · next dst hdst =>
        split
        · intro o ho
          simp only [List.mem_append, List.mem_singleton] at ho
          rcases ho with ho | rfl
          · exact h o ho
          · show R (addrOf (clonePl r.pl)) = some dst
            rw [clonePl_id, ← hr]
            exact hdst
        · exact h

theorem outRoute_rspStep (R : Nat → Option Nat) (cap : Nat) (c : Chan) (h : OutRoute R c) :
    OutRoute R (rspStep cap c).1 := by
  unfold rspStep
  split
  · exact h
  · split
    · exact h
    · split
      · exact h
      · split
        · exact h
        · exact h

theorem outRoute_l1Loop (R : Nat → Option Nat) (route : Nat → Option Nat) (cap : Nat)
    (hr : ∀ x, route x = R x) :
    ∀ (n : Nat) (c : Chan) (p : Bool), OutRoute R c → OutRoute R (l1Loop route cap n c p).1 := by
  intro n
  induction n with
  | zero => intro c p h; exact h
  | succ n ih =>
    intro c p h
    unfold l1Loop
    split
    · exact h
    · simp only
      split
      · exact ih _ _ (outRoute_fwdStep R route cap c hr h)
      · exact outRoute_fwdStep R route cap c hr h

/-- the predicate on an engine state: only the inside channel matters -/
def StRoute (R : Nat → Option Nat) (s : St) : Prop := OutRoute R s.io

theorem stRoute_dataPhase (R : Nat → Option Nat) (c : Cfg) (hr : ∀ x, routeOut c x = R x) (s : St)
    (h : StRoute R s) : StRoute R (dataPhase c s).1 := by
  unfold dataPhase
  simp only
  apply pres_iter (StRoute R) _ (pres_guard (StRoute R) _ ?_)
  · apply pres_iter (StRoute R) _ (pres_guard (StRoute R) _ ?_)
    · apply pres_iter (StRoute R) _ (pres_guard (StRoute R) _ ?_)
      · apply pres_iter (StRoute R) _ (pres_guard (StRoute R) _ ?_) _ _ h
        intro t ht
        unfold fromL1
        split
        · exact ht
        · exact outRoute_l1Loop R _ _ hr _ _ _ ht
      · intro t ht; exact ht
    · intro t ht; exact ht
  · intro t ht; exact outRoute_rspStep R _ _ ht

theorem stRoute_tick (R : Nat → Option Nat) (c : Cfg) (hr : ∀ x, routeOut c x = R x) (s : St)
    (h : StRoute R s) : StRoute R (tick c s).1 := by
  unfold tick
  simp only
  apply stRoute_dataPhase R c hr
  have := ctrlPhase_io c s
  unfold StRoute
  rw [this.1]
  exact h

/-! ### the moves -/

/-- a move that replaces node `i` (same configuration) and the two bags of the network -/
theorem sroute_set {R : Nat → Option Nat} {y : Sys} {i : Nat} {A nd' : Node} {nq : List NReq}
    {nr : List NRsp}
    (h : SRoute R y) (hi : y.nodes[i]? = some A)
    (hq : ∀ m ∈ nq, R (addrOf m.c.pl) = some m.c.dst)
    (hall : ∀ nm ∈ nd'.namesAll, R (addrOf nm.c.pl) = some nm.c.dst)
    (hout : ∀ c ∈ nd'.s.io.reqOut, R (addrOf c.pl) = some c.dst)
    (hcfg : nd'.cfg = A.cfg) :
    SRoute R { nodes := y.nodes.set i nd', netQ := nq, netR := nr } := by
  constructor
  · intro b B hb
    rcases getElem?_set' hb with ⟨_, rfl, _⟩ | ⟨_, h2⟩
    · rw [hcfg]; exact h.cfg i A hi
    · exact h.cfg b B h2
  · intro b B hb
    rcases getElem?_set' hb with ⟨_, rfl, _⟩ | ⟨_, h2⟩
    · exact hout
    · exact h.out b B h2
  · exact hq
  · intro b B hb
    rcases getElem?_set' hb with ⟨_, rfl, _⟩ | ⟨_, h2⟩
    · exact hall
    · exact h.all b B h2

theorem sroute_step (R : Nat → Option Nat) (y : Sys) (o : SOp) (h : SRoute R y) : SRoute R (sstep y o) := by
  cases o with
  | issue a src pl =>
    simp only [sstep]
    split
    · exact h
    · next A hA =>
      split
      · next hsp =>
        refine sroute_set h hA h.netQ (h.all a A hA) ?_ rfl
        simp only [step, deliverReq, hsp, if_true]
        exact h.out a A hA
      · exact h
  | ctl a k =>
    simp only [sstep]
    split
    · exact h
    · next A hA =>
      have hc := step_ctl_io A.cfg A.s k
      refine sroute_set h hA h.netQ (h.all a A hA) ?_ rfl
      show ∀ c ∈ (step A.cfg A.s (.ctl k)).io.reqOut, R (addrOf c.pl) = some c.dst
      rw [hc.1]
      exact h.out a A hA
  | tick a =>
    simp only [sstep]
    split
    · exact h
    · next A hA =>
      refine sroute_set h hA h.netQ (h.all a A hA) ?_ rfl
      exact stRoute_tick R A.cfg (h.cfg a A hA) A.s (h.out a A hA)
  | sendQ a =>
    simp only [sstep]
    split
    · exact h
    · next A hA =>
      split
      · exact h
      · next q rest hq =>
        refine sroute_set h hA ?_ (h.all a A hA) ?_ rfl
        · intro m hm
          simp only [List.mem_append, List.mem_singleton] at hm
          rcases hm with hm | rfl
          · exact h.netQ m hm
          · exact h.out a A hA q (by rw [hq]; exact List.mem_cons_self)
        · intro c hc
          exact h.out a A hA c (mem_tail' hc)
  | delivQ j =>
    simp only [sstep]
    split
    · exact h
    · next m hm =>
      split
      · exact h
      · next B hB =>
        split
        · next hsp =>
          refine sroute_set h hB ?_ ?_ ?_ rfl
          · intro x hx
            exact h.netQ x (mem_eraseIdx' hx)
          · intro nm hnm
            simp only [List.mem_cons] at hnm
            rcases hnm with rfl | hnm
            · exact h.netQ m (List.mem_of_getElem? hm)
            · exact h.all _ B hB nm hnm
          · simp only [step]
            exact h.out _ B hB
        · exact h
  | l2take b =>
    simp only [sstep]
    split
    · exact h
    · next B hB =>
      split
      · exact h
      · next q rest hq =>
        refine sroute_set h hB h.netQ (h.all b B hB) ?_ rfl
        simp only [step]
        exact h.out b B hB
  | l2ans b j d =>
    simp only [sstep]
    split
    · exact h
    · next B hB =>
      split
      · exact h
      · next q hq =>
        split
        · next hsp =>
          refine sroute_set h hB h.netQ (h.all b B hB) ?_ rfl
          simp only [step]
          exact h.out b B hB
        · exact h
  | sendR b =>
    simp only [sstep]
    split
    · exact h
    · next B hB =>
      split
      · exact h
      · next o rest ho =>
        split
        · exact h
        · next nm r ht =>
          refine sroute_set h hB h.netQ (h.all b B hB) ?_ rfl
          simp only [step]
          exact h.out b B hB
  | delivR j =>
    simp only [sstep]
    split
    · exact h
    · next m hm =>
      split
      · exact h
      · next A hA =>
        split
        · next hsp =>
          refine sroute_set h hA h.netQ (h.all _ A hA) ?_ rfl
          simp only [step, deliverRsp, hsp, if_true]
          exact h.out _ A hA
        · exact h
  | l1take a =>
    simp only [sstep]
    split
    · exact h
    · next A hA =>
      split
      · exact h
      · next o rest ho =>
        refine sroute_set h hA h.netQ (h.all a A hA) ?_ rfl
        simp only [step]
        exact h.out a A hA
  | ctake a =>
    simp only [sstep]
    split
    · exact h
    · next A hA =>
      split
      · exact h
      · next x rest hx =>
        refine sroute_set h hA h.netQ (h.all a A hA) ?_ rfl
        simp only [step]
        exact h.out a A hA

theorem sroute_run (R : Nat → Option Nat) (y : Sys) (ops : List SOp) (h : SRoute R y) :
    SRoute R (srun y ops) := by
  unfold srun
  induction ops generalizing y with
  | nil => exact h
  | cons o os ih => exact ih _ (sroute_step R y o h)

end C18
