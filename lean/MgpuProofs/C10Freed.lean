import MgpuProofs.C10Init
/-!
Freed buffers of C10: after every successful single-process history, every page of every buffer
that a context lists as freed is unmapped.  No caller discipline is needed: a `Free` that does not
fault has removed, for the one process, every virtual page it iterated over, and virtual addresses
are never handed out twice (the cursor only grows), so nothing can map them again.

Invariant (`FreedInv`), for every buffer `b` of every context:
* either the allocator still remembers the page count of `b`, or it remembers `0` **and** all pages
  of `b` are unmapped (`Free(b.vaddr)` has run — a second one would fault in `pageTable.Remove`);
* if `b` is marked freed, all pages of `b` are unmapped.
-/
namespace C10

/-- no virtual page of buffer `b` is mapped for process `π` -/
def Unmapped (s : State) (π : Nat) (b : Buf) : Prop := ∀ v ∈ bufPages s.ps b, (π, v) ∉ s.pt.map key

/-- the per-buffer invariant -/
def FreedOK (s : State) (π : Nat) (b : Buf) : Prop :=
  (lookup s.npages b.vaddr = some (numPagesOf s.ps b.size) ∨
    (lookup s.npages b.vaddr = some 0 ∧ Unmapped s π b)) ∧
  (b.freed = true → Unmapped s π b)

def FreedInv (s : State) : Prop := ∀ c ∈ s.ctxs, ∀ b ∈ c.bufs, FreedOK s c.pid b

theorem keys_sub {pt pt' : List Page} (h : ∀ e ∈ pt', e ∈ pt) : ∀ k ∈ pt'.map key, k ∈ pt.map key := by
  intro k hk
  obtain ⟨e, he, rfl⟩ := List.mem_map.mp hk
  exact List.mem_map_of_mem (h e he)

theorem bufPages_head (ps : Nat) (b : Buf) : b.vaddr ∈ bufPages ps b :=
  List.mem_map.mpr ⟨0, List.mem_range.mpr (numPagesOf_pos _ _), by simp⟩

theorem Unmapped.of_sub {s s' : State} {π : Nat} {b : Buf} (h : Unmapped s π b) (e1 : s'.ps = s.ps)
    (e3 : ∀ k ∈ s'.pt.map key, k ∈ s.pt.map key) : Unmapped s' π b := by
  intro v hv hk
  rw [e1] at hv
  exact h v hv (e3 _ hk)

/-- transfer along an operation that keeps the record of `b` and does not add page-table keys -/
theorem FreedOK.of_frame {s s' : State} {π : Nat} {b : Buf} (h : FreedOK s π b) (e1 : s'.ps = s.ps)
    (e2 : lookup s'.npages b.vaddr = lookup s.npages b.vaddr)
    (e3 : ∀ k ∈ s'.pt.map key, k ∈ s.pt.map key) : FreedOK s' π b := by
  unfold FreedOK at *
  rw [e1, e2]
  refine ⟨?_, fun hf => (h.2 hf).of_sub e1 e3⟩
  rcases h.1 with h1 | ⟨h1, h2⟩
  · exact Or.inl h1
  · exact Or.inr ⟨h1, h2.of_sub e1 e3⟩

/-- marking an unmapped buffer as freed -/
theorem FreedOK.mark {s : State} {π : Nat} {b : Buf} (h : FreedOK s π b) (hu : Unmapped s π b) :
    FreedOK s π { b with freed := true } :=
  ⟨h.1, fun _ => hu⟩

/-! ### a successful RemovePage / Free of the one process unmaps what it iterates over -/

theorem removePage_unmaps {s s' : State} {v π : Nat} (hS : SinglePID π s) (hM : MirrorWeak s.mirror s.pt)
    (h : removePage s v = .ok s') : (π, v) ∈ s.pt.map key ∧ (π, v) ∉ s'.pt.map key := by
  unfold removePage at h
  split at h
  · simp at h
  · rename_i pg hl
    split at h
    · simp at h
    · rename_i d hd
      split at h
      · simp at h
      · rename_i pt' hr
        injection h with h; subst h
        obtain ⟨⟨e, he⟩, rfl⟩ := ptRemove_ok hr
        obtain ⟨he1, he2, he3⟩ := ptFind_some he
        have hvk : pg.vaddr = v := hM.1 _ (lookup_mem hl)
        have hpid : pg.pid = π := he2.symm.trans (hS e he1)
        constructor
        · exact List.mem_map.mpr ⟨e, he1, by simp [key, he2, he3, hvk, hpid]⟩
        · intro hk
          obtain ⟨x, hx, hkx⟩ := List.mem_map.mp hk
          simp only [key, Prod.mk.injEq] at hkx
          have := (List.mem_filter.mp hx).2
          simp [hkx.1, hkx.2, hpid, hvk] at this

theorem removePages_unmaps (π : Nat) : ∀ (vs : List Nat) (s s' : State),
    PInv s.ps s.devs s.pool.frees s.pt → MirrorWeak s.mirror s.pt → SinglePID π s →
    removePages vs s = .ok s' →
    (∀ v ∈ vs, (π, v) ∉ s'.pt.map key) ∧ (∀ v, vs.head? = some v → (π, v) ∈ s.pt.map key) := by
  intro vs
  induction vs with
  | nil => intro s s' _ _ _ _; exact ⟨by simp, by simp⟩
  | cons v vs ih =>
    intro s s' hP hM hS h
    simp only [removePages] at h
    split at h
    · simp at h
    · rename_i s1 h1
      obtain ⟨hin, hout⟩ := removePage_unmaps hS hM h1
      obtain ⟨a, b, _, _, hsub, _⟩ := removePage_w hP hM h1
      have hS1 : SinglePID π s1 := fun e he => hS e (hsub e he)
      obtain ⟨_, _, _, _, hsub'⟩ := removePages_w vs s1 s' a b h
      obtain ⟨ih1, _⟩ := ih s1 s' a b hS1 h
      refine ⟨?_, ?_⟩
      · intro w hw
        rcases List.mem_cons.mp hw with rfl | hw
        · exact fun hk => hout (keys_sub hsub' _ hk)
        · exact ih1 w hw
      · intro w hw
        simp at hw; subst hw
        exact hin

theorem free_unmaps {s s' : State} {π ptr : Nat} (hP : PInv s.ps s.devs s.pool.frees s.pt)
    (hM : MirrorWeak s.mirror s.pt) (hS : SinglePID π s) (h : free s ptr = .ok s') :
    (π, ptr) ∈ s.pt.map key ∧ ∀ v ∈ freeVAddrs s ptr, (π, v) ∉ s'.pt.map key := by
  unfold free at h
  obtain ⟨a, b⟩ := removePages_unmaps π _ { s with npages := (ptr, 0) :: s.npages } s' hP hM hS h
  exact ⟨b ptr rfl, a⟩

/-! ### the invariant along a step -/

theorem FreedInv.setCtx_sub {s : State} (h : FreedInv s) {c : Nat} {cx x : Ctx} (hc : s.ctxs[c]? = some cx)
    (hp : x.pid = cx.pid) (hsub : ∀ b ∈ x.bufs, b ∈ cx.bufs) : FreedInv (C10.setCtx s c x) := by
  intro y hy b hb
  change y ∈ s.ctxs.set c x at hy
  show FreedOK s y.pid b
  rcases List.mem_or_eq_of_mem_set hy with hy | rfl
  · exact h y hy b hb
  · rw [hp]; exact h cx (List.mem_of_getElem? hc) b (hsub b hb)

theorem step_freed {n : Nat} {s s' : State} {op : Op} {r : Res} (hW : WInv s) (hG : GpuOK n s) (hm : MigOK n op)
    (hO : OneProc s) (hB : BufInv s) (hF : FreedInv s)
    (h : step s op = .ok (r, s')) : FreedInv s' := by
  have hps := hW.phys.pspos
  have frame : ∀ {s1 : State}, s1.ps = s.ps → s1.ctxs = s.ctxs → s1.npages = s.npages →
      (∀ k ∈ s1.pt.map key, k ∈ s.pt.map key) → FreedInv s1 := by
    intro s1 e1 e2 e3 e4 y hy b hb
    rw [e2] at hy
    exact (hF y hy b hb).of_frame e1 (by rw [e3]) e4
  have allocCase : ∀ {c bytes v : Nat} {cx : Ctx} {s1 : State} {d : Nat} {u : Bool}, s.ctxs[c]? = some cx →
      allocatePages s (numPagesOf s.ps bytes) cx.pid d u = .ok (v, s1) →
      FreedInv (setCtx s1 c { cx with bufs := cx.bufs ++ [{ vaddr := v, size := bytes, freed := false }] }) := by
    intro c bytes v cx s1 d u hc h1
    obtain ⟨_, hv⟩ := allocatePages_pres hW.phys h1
    obtain ⟨_, e1, _, _, e4, _, _, _, e8, e9⟩ := allocatePages_ext hW.mw h1
    obtain ⟨hp, _⟩ := hO.pid_of hc
    have hcm := List.mem_of_getElem? hc
    -- old buffers lie below the cursor: their record and their (un)mapped pages are untouched
    have hold : ∀ y ∈ s.ctxs, ∀ b ∈ y.bufs, FreedOK s1 y.pid b := by
      intro y hy b hb
      have hend : pgEnd s.ps b ≤ v := by
        have h1 := hB.below y hy b hb
        rw [hO.ctxPid y hy, ← hp, ← hv] at h1
        exact h1
      have hlt : b.vaddr < v := by
        have h2 : s.ps * 1 ≤ s.ps * numPagesOf s.ps b.size := Nat.mul_le_mul_left _ (numPagesOf_pos _ _)
        unfold pgEnd at hend
        omega
      have hun : Unmapped s y.pid b → Unmapped s1 y.pid b := by
        intro hu w hw hk
        rw [e1] at hw
        rw [e9, List.mem_append] at hk
        rcases hk with hk | hk
        · exact hu w hw hk
        · obtain ⟨i, _, hi⟩ := List.mem_map.mp hk
          simp only [Prod.mk.injEq] at hi
          have := (bufPages_range hps hw).2
          omega
      have hf := hF y hy b hb
      unfold FreedOK at hf ⊢
      rw [e1, e8, lookup_cons_ne _ _ _ _ (by omega)]
      refine ⟨?_, fun h => hun (hf.2 h)⟩
      rcases hf.1 with h1 | ⟨h1, h2⟩
      · exact Or.inl h1
      · exact Or.inr ⟨h1, hun h2⟩
    intro y hy b hb
    change y ∈ s1.ctxs.set c _ at hy
    show FreedOK s1 y.pid b
    rw [e4] at hy
    rcases List.mem_or_eq_of_mem_set hy with hy | rfl
    · exact hold y hy b hb
    · change b ∈ cx.bufs ++ [_] at hb
      rcases List.mem_append.mp hb with hb | hb
      · exact hold cx hcm b hb
      · simp at hb; subst hb
        unfold FreedOK
        rw [e1, e8]
        exact ⟨Or.inl (lookup_cons_eq _ _ _), fun hf => by simp at hf⟩
  cases op with
  | init =>
    rw [step_init h]
    intro y hy b hb
    change y ∈ s.ctxs ++ [_] at hy
    rcases List.mem_append.mp hy with hy | hy
    · exact hF y hy b hb
    · simp at hy; subst hy; simp at hb
  | initpid c =>
    obtain ⟨cx, _, rfl⟩ := step_initpid h
    intro y hy b hb
    change y ∈ s.ctxs ++ [_] at hy
    rcases List.mem_append.mp hy with hy | hy
    · exact hF y hy b hb
    · simp at hy; subst hy; simp at hb
  | sel c g =>
    obtain ⟨cx, hc, rfl⟩ := step_sel h
    exact hF.setCtx_sub hc rfl (fun b hb => hb)
  | unify c ids =>
    rw [step_unify h]
    exact hF
  | alloc c bytes =>
    obtain ⟨cx, v, s1, hc, h1, rfl, _⟩ := step_alloc h
    exact allocCase hc (allocate_ok h1).2
  | allocu c bytes =>
    obtain ⟨cx, v, s1, hc, h1, rfl, _⟩ := step_allocu h
    exact allocCase hc (allocateUnified_ok h1).2
  | free c ptr =>
    obtain ⟨cx, s1, hc, h1, rfl⟩ := step_free h
    obtain ⟨_, _, e1, _, _, e4, _, _, e7, _, hsub⟩ := free_w hW.phys hW.mw h1
    obtain ⟨hin, hout⟩ := free_unmaps hW.phys hW.mw hO.single h1
    have hcm := List.mem_of_getElem? hc
    have hks := keys_sub hsub
    -- every buffer keeps its invariant; the ones that start at `ptr` are unmapped afterwards
    have keep : ∀ y ∈ s.ctxs, ∀ b ∈ y.bufs, FreedOK s1 y.pid b ∧ (b.vaddr = ptr → Unmapped s1 y.pid b) := by
      intro y hy b hb
      have hyp : y.pid = s.npid := hO.ctxPid y hy
      by_cases hbp : b.vaddr = ptr
      · rcases (hF y hy b hb).1 with i1 | ⟨_, i2⟩
        · have hfv : freeVAddrs s b.vaddr = bufPages s.ps b := freeVAddrs_eq i1
          have hun : Unmapped s1 y.pid b := by
            intro w hw
            rw [e1] at hw
            rw [hyp]
            exact hout w (by rw [← hbp, hfv]; exact hw)
          refine ⟨⟨Or.inr ⟨?_, hun⟩, fun _ => hun⟩, fun _ => hun⟩
          rw [e7, ← hbp]
          exact lookup_cons_eq _ _ _
        · exfalso
          refine i2 b.vaddr (bufPages_head _ _) ?_
          rw [hyp, hbp]; exact hin
      · refine ⟨(hF y hy b hb).of_frame e1 ?_ hks, fun hh => absurd hh hbp⟩
        rw [e7, lookup_cons_ne _ _ _ _ (Ne.symm hbp)]
    intro y hy b hb
    change y ∈ s1.ctxs.set c _ at hy
    show FreedOK s1 y.pid b
    rw [e4] at hy
    rcases List.mem_or_eq_of_mem_set hy with hy | rfl
    · exact (keep y hy b hb).1
    · obtain ⟨b1, hb1, rfl⟩ := List.mem_map.mp hb
      obtain ⟨k1, k2⟩ := keep cx hcm b1 hb1
      show FreedOK s1 cx.pid _
      split
      · rename_i hbp
        exact k1.mark (k2 hbp)
      · exact k1
  | remap c addr bytes d =>
    obtain ⟨cx, _, h1⟩ := step_remap h
    obtain ⟨_, f, k⟩ := remap_ext hW.mw h1
    exact frame f.ps f.ctxs f.npages (fun x hx => k ▸ hx)
  | dist c addr bytes ids =>
    obtain ⟨cx, bs, _, h1⟩ := step_dist h
    obtain ⟨_, f, k⟩ := distribute_ext hW.mw h1
    exact frame f.ps f.ctxs f.npages (fun x hx => k ▸ hx)
  | mig c v g =>
    obtain ⟨cx, no, _, h1⟩ := step_mig h
    have hg : ∀ dv, s.devs[g + 1]? = some dv → dv.kind ≠ .unified := by
      intro dv hdv
      obtain ⟨dv', hdv', hk⟩ := hG g hm
      rw [hdv] at hdv'; injection hdv' with hdv'; subst hdv'
      rw [hk]; decide
    obtain ⟨_, _, f, k, _⟩ := prepareMigration_w hW.phys hW.mw hg h1
    exact frame f.ps f.ctxs f.npages (fun x hx => k ▸ hx)
  | rmpage v =>
    obtain ⟨_, _, f, _, hsub, _⟩ := removePage_w hW.phys hW.mw (step_rmpage h)
    exact frame f.ps f.ctxs f.npages (keys_sub hsub)
  | apg c d v u =>
    obtain ⟨cx, pg, _, h1⟩ := step_apg h
    obtain ⟨_, f, k⟩ := allocGiven_ext hW.mw h1
    exact frame f.ps f.ctxs f.npages (fun x hx => k ▸ hx)
  | rfb c =>
    obtain ⟨cx, hc, rfl⟩ := step_rfb h
    exact hF.setCtx_sub hc rfl (fun b hb => (List.mem_filter.mp hb).1)

theorem run_freed {n : Nat} : ∀ (ops : List Op) (s s' : State), WInv s → GpuOK n s → (∀ op ∈ ops, MigOK n op) →
    OneProc s → MirrorOK s → s.npid + inits ops ≤ 1 → BufInv s → FreedInv s →
    run s ops = .ok s' → FreedInv s' := by
  intro ops
  induction ops with
  | nil => intro s s' _ _ _ _ _ _ _ hF h; simp [run] at h; subst h; exact hF
  | cons op ops ih =>
    intro s s' hW hG hm hO hM hb hB hF h
    simp only [run] at h
    split at h
    · simp at h
    · rename_i r s1 h1
      have hmo := hm op (List.mem_cons_self ..)
      obtain ⟨a, b⟩ := step_w hW hG hmo h1
      have hb' : s.npid + ((if op.isInit then 1 else 0) + inits ops) ≤ 1 := by
        unfold inits at hb ⊢
        rw [List.filter_cons] at hb
        split at hb
        · rename_i hi; simp only [hi, if_true]; simp only [List.length_cons] at hb; omega
        · rename_i hi; simp only [hi]; simpa using hb
      have hi : op.isInit = true → s.npid = 0 := by
        intro hi; simp only [hi, if_true] at hb'; omega
      obtain ⟨c, d, e⟩ := step_one hW hG hmo hO hM hi h1
      exact ih s1 s' a b (fun o ho => hm o (List.mem_cons_of_mem _ ho)) c d (by rw [e]; omega)
        (step_buf hW hB h1) (step_freed hW hG hmo hO hB hF h1) h

/-- the invariant after any successful single-process history from any initial registration -/
theorem run_freed_all {ps cpu : Nat} {gpus : List Nat} {ops : List Op} {s' : State} (h : Cfg ps cpu gpus)
    (hm : ∀ op ∈ ops, MigOK gpus.length op) (hi : inits ops ≤ 1)
    (hr : run (initState ps cpu gpus) ops = .ok s') : FreedInv s' := by
  obtain ⟨hW, hG, hO, hM, hB, _, hn, _⟩ := init_all h
  have hF : FreedInv (initState ps cpu gpus) := by
    intro c hc
    rw [(hO.fresh hn).1] at hc
    simp at hc
  exact run_freed ops _ s' hW hG hm hO hM (by rw [hn]; omega) hB hF hr

end C10
