import MgpuModel.C15_Cu
import MgpuProofs.C14FlushLive
import MgpuProofs.C14FlushCount
/-! # C15 ∘ C14 — projections of a composed run onto its two components (definitions) -/
namespace C15.Cu

/-- the event the compute unit performs (`none`: it is not involved / the move was refused) -/
def cuOp (c : Cfg) (σ : Comp) : CEv → Option C14.Flush.Op
  | .cu o => if isLink o then none else some o
  | .xfer =>
    match σ.cu.s.out with
    | [] => none
    | _ :: _ =>
      if σ.cu.fault then none
      else if σ.sys.rob.topIn.length < c.rob.topInCap then some (.take .s 1) else none
  | .back =>
    match σ.sys.rob.topOut with
    | [] => none
    | d :: _ =>
      match nameOf σ d.rspTo with
      | none => none
      | some r =>
        if σ.cu.fault then none
        else if σ.cu.s.inp.length < c.cu.capS then some (.deliver .s r.1 r.2) else none
  | .rob _ => none

/-- the event the closed system around the ROB performs -/
def robEv (c : Cfg) (σ : Comp) : CEv → Option Ev
  | .cu _ => none
  | .xfer =>
    match σ.cu.s.out with
    | [] => none
    | r :: _ =>
      if σ.cu.fault then none
      else if σ.sys.rob.topIn.length < c.rob.topInCap then some (.arrive (reqOf r)) else none
  | .back =>
    match σ.sys.rob.topOut with
    | [] => none
    | d :: _ =>
      match nameOf σ d.rspTo with
      | none => none
      | some _ =>
        if σ.cu.fault then none
        else if σ.cu.s.inp.length < c.cu.capS then some .takeRsp else none
  | .rob (.arrive _) => none
  | .rob .takeRsp => none
  | .rob e => some e

def cuOps (c : Cfg) : Comp → List CEv → List C14.Flush.Op
  | _, [] => []
  | σ, e :: es => (cuOp c σ e).toList ++ cuOps c (cstep c σ e) es

def robEvs (c : Cfg) : Comp → List CEv → List Ev
  | _, [] => []
  | σ, e :: es => (robEv c σ e).toList ++ robEvs c (cstep c σ e) es

/-- every response the ROB has built so far names a request ID the compute unit really put on its
    port (it can fail: a saved record whose re-send was refused by a full port has already been
    given a new ID, and a copy of its request object that survived the flush in the compute unit's
    outgoing buffer is answered under that ID — see `unsent_name_witness`) -/
def SentNames (c : Cfg) (evs : List CEv) : Prop :=
  ∀ k, ∀ x ∈ (crun c (evs.take k)).named, x.2 ∈ (crun c (evs.take k)).cu.s.sent

/-- ids of the records of one memory path: answered, in flight, saved -/
def chanIds (ch : C14.Flush.Chan) : List Nat := ch.applied ++ C14.Flush.ids (ch.inf ++ ch.sh)

/-- no record of a path occurs twice among answered / in flight / saved, and all are below the
    allocation counter -/
def IdsOK (s : C14.Flush.St) : Prop :=
  ((chanIds s.f).Nodup ∧ ∀ i ∈ chanIds s.f, i < s.nextId) ∧
  ((chanIds s.s).Nodup ∧ ∀ i ∈ chanIds s.s, i < s.nextId) ∧
  ((chanIds s.v).Nodup ∧ ∀ i ∈ chanIds s.v, i < s.nextId)

end C15.Cu
