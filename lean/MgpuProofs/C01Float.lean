import MgpuProofs.C01ReluDefs
import MgpuProofs.C01MulDefs
/-! # C01 — what the float dwords of `ReLUForward` and `mul` mean

`Relu.reluBits x = v_max_f32 (0, v_mul_f32 (1.0, x))` is compared, for EVERY 32-bit pattern, with the host
reference `x > 0 ? x : 0` (`reluRef`), against the exact IEEE arithmetic of `MgpuModel/C03V_Float.lean`:
`1.0 * x` is bit-exact `x` for every non-NaN pattern (`mul_one_id`: ±0, denormals, normals, ±∞ — the product
`2^23·M · 2^(E-23)` rounds back to the encoding it was unpacked from) and the canonical quiet NaN otherwise;
`max (0, y)` returns `y` for positive `y` (incl. +∞ and +0) and `+0` for everything with the sign bit and for NaN.
Also: `v_mul_f32` is commutative on bit patterns (`mul_comm_bits`). -/
namespace C01.Emu
open C03V

namespace FloatAux

theorem bias_f32 : F.f32.bias = 127 := rfl
theorem mb_f32 : F.f32.mb = 23 := rfl
theorem eb_f32 : F.f32.eb = 8 := rfl
theorem expMax_f32 : F.f32.expMax = 255 := rfl
theorem signBit_f32 : F.f32.signBit = 2147483648 := rfl
theorem qnan_f32 : F.f32.qnan = 2143289344 := rfl
theorem infBits_f32 (s : Bool) : F.f32.infBits s = (if s then 2147483648 else 0) + 2139095040 := rfl

/-- sign field of a 32-bit pattern -/
theorem sign_f32 (x : Nat) (hx : x < 4294967296) :
    (x / 2147483648 % 2 == 1) = decide (2147483648 ≤ x) := by
  by_cases h : 2147483648 ≤ x
  · have : x / 2147483648 % 2 = 1 := by omega
    simp [h, this]
  · have : x / 2147483648 % 2 = 0 := by omega
    simp [h, this]

theorem unpack_one : F.unpack F.f32 1065353216 = .fin false 8388608 (-23) := by
  simp [F.unpack, mb_f32, eb_f32, expMax_f32, bias_f32]

theorem unpack_zero : F.unpack F.f32 0 = .fin false 0 (-149) := by
  simp [F.unpack, mb_f32, eb_f32, expMax_f32, bias_f32]

theorem unpack_qnan : F.unpack F.f32 2143289344 = .nan := by
  simp [F.unpack, mb_f32, eb_f32, expMax_f32]

theorem unpack_nan (x : Nat) (he : x / 8388608 % 256 = 255) (hm : x % 8388608 ≠ 0) :
    F.unpack F.f32 x = .nan := by
  simp [F.unpack, mb_f32, eb_f32, expMax_f32, he, hm]

theorem unpack_inf (x : Nat) (hx : x < 4294967296) (he : x / 8388608 % 256 = 255)
    (hm : x % 8388608 = 0) : F.unpack F.f32 x = .inf (decide (2147483648 ≤ x)) := by
  simp [F.unpack, mb_f32, eb_f32, expMax_f32, he, hm, sign_f32 x hx]

theorem unpack_den (x : Nat) (hx : x < 4294967296) (he : x / 8388608 % 256 = 0) :
    F.unpack F.f32 x = .fin (decide (2147483648 ≤ x)) (x % 8388608) (-149) := by
  simp [F.unpack, mb_f32, eb_f32, expMax_f32, bias_f32, he, sign_f32 x hx]

theorem unpack_nrm (x : Nat) (hx : x < 4294967296) (he0 : x / 8388608 % 256 ≠ 0)
    (he1 : x / 8388608 % 256 ≠ 255) :
    F.unpack F.f32 x =
      .fin (decide (2147483648 ≤ x)) (x % 8388608 + 8388608) (((x / 8388608 % 256 : Nat) : Int) - 150) := by
  simp [F.unpack, mb_f32, eb_f32, expMax_f32, bias_f32, he0, he1, sign_f32 x hx]
  omega

/-! ### rounding an exactly representable value -/

theorem shr_exact (M : Nat) : F.shrRNE (8388608 * M) 23 = M := by
  unfold F.shrRNE
  have h1 : (8388608 * M) % 2 ^ 23 = 0 := by omega
  have h2 : (8388608 * M) >>> 23 = M := by
    rw [Nat.shiftRight_eq_div_pow]; omega
  rw [h1, h2]
  simp

theorem log2_eq (n k : Nat) (h1 : 2 ^ k ≤ n) (h2 : n < 2 ^ (k + 1)) : Nat.log2 n = k := by
  have hn : n ≠ 0 := by
    intro h; subst h; have := Nat.two_pow_pos k; omega
  have a : Nat.log2 n < k + 1 := (Nat.log2_lt hn).2 h2
  have b : k ≤ Nat.log2 n := (Nat.le_log2 hn).2 h1
  omega

/-- the last step of `round` for f32: assemble the bits from the rounded significand `r` and the biased
    exponent `be` -/
def roundTail (s : Bool) (r be : Nat) : Nat :=
  let bits := if r < 2 ^ 23 then r else (be - 1) * 2 ^ 23 + r
  if bits ≥ 255 * 2 ^ 23 then F.f32.infBits s else (if s then 2147483648 else 0) + bits

/-- `round` for f32 on a nonzero significand, with the clamped exponent named -/
theorem round_core (s : Bool) (m : Nat) (e : Int) (hm : m ≠ 0) :
    F.round F.f32 s m e =
      (let E : Int := e + ((Nat.log2 m : Int) + 1) - 1
       let Ec : Int := if E < -126 then -126 else E
       let sh : Int := e - (Ec - 23)
       roundTail s (if sh ≥ 0 then m <<< sh.toNat else F.shrRNE m (-sh).toNat) (Ec + 127).toNat) := by
  have h0 : (m == 0) = false := by simpa using hm
  unfold F.round
  rw [h0]
  rfl

theorem round_zero (s : Bool) (e : Int) :
    F.round F.f32 s (8388608 * 0) e = (if s then 2147483648 else 0) := by
  unfold F.round
  rfl

/-- a normal number `(m + 2^23)·2^(e-150)` multiplied by `2^23·2^-23` rounds to its own encoding -/
theorem round_normal (s : Bool) (M e : Nat) (hM1 : 8388608 ≤ M) (hM2 : M < 16777216) (he1 : 1 ≤ e)
    (he2 : e ≤ 254) :
    F.round F.f32 s (8388608 * M) (-23 + ((e : Int) - 150)) =
      (if s then 2147483648 else 0) + (e * 8388608 + (M - 8388608)) := by
  have hl : Nat.log2 (8388608 * M) = 46 := by
    apply log2_eq <;> omega
  rw [round_core _ _ _ (by omega), hl]
  have hE : (-23 + ((e : Int) - 150) + (((46 : Nat) : Int) + 1) - 1) = (e : Int) - 127 := by omega
  dsimp only
  rw [hE]
  have hc : (if (e : Int) - 127 < -126 then (-126 : Int) else (e : Int) - 127) = (e : Int) - 127 :=
    if_neg (by omega)
  have hsh : -23 + ((e : Int) - 150) - ((e : Int) - 127 - 23) = -23 := by omega
  have h23 : (-(-23 : Int)).toNat = 23 := by decide
  have hbe : ((e : Int) - 127 + 127).toNat = e := by omega
  have hneg : ¬ ((-23 : Int) ≥ 0) := by decide
  rw [hc, hsh, if_neg hneg, h23, shr_exact, hbe]
  unfold roundTail
  dsimp only
  have h1 : ¬ M < 2 ^ 23 := by omega
  have h2 : ¬ (e - 1) * 2 ^ 23 + M ≥ 255 * 2 ^ 23 := by omega
  rw [if_neg h1, if_neg h2]
  omega

/-- a denormal `m·2^-149` multiplied by `2^23·2^-23` rounds to its own encoding -/
theorem round_denormal (s : Bool) (M : Nat) (hM1 : 0 < M) (hM2 : M < 8388608) :
    F.round F.f32 s (8388608 * M) (-23 + (-149)) = (if s then 2147483648 else 0) + M := by
  have hl : Nat.log2 (8388608 * M) < 46 := (Nat.log2_lt (by omega)).2 (by omega)
  rw [round_core _ _ _ (by omega)]
  dsimp only
  have hc : (if (-23 + (-149) + (((Nat.log2 (8388608 * M) : Nat) : Int) + 1) - 1 : Int) < -126 then (-126 : Int)
      else -23 + (-149) + (((Nat.log2 (8388608 * M) : Nat) : Int) + 1) - 1) = -126 :=
    if_pos (by omega)
  have hsh : (-23 + (-149) - (-126 - 23) : Int) = -23 := by decide
  have h23 : (-(-23 : Int)).toNat = 23 := by decide
  have hbe : ((-126 : Int) + 127).toNat = 1 := by decide
  have hneg : ¬ ((-23 : Int) ≥ 0) := by decide
  rw [hc, hsh, if_neg hneg, h23, shr_exact, hbe]
  unfold roundTail
  dsimp only
  have h1 : M < 2 ^ 23 := by omega
  have h2 : ¬ M ≥ 255 * 2 ^ 23 := by omega
  rw [if_pos h1, if_neg h2]

theorem mulV_one_fin (s : Bool) (M : Nat) (E : Int) :
    F.mulV (.fin false 8388608 (-23)) (.fin s M E) = .fin s (8388608 * M) (-23 + E) := by
  simp [F.mulV]

theorem mulV_one_inf (s : Bool) : F.mulV (.fin false 8388608 (-23)) (.inf s) = .inf s := by
  simp [F.mulV]

theorem mulV_one_nan : F.mulV (.fin false 8388608 (-23)) .nan = .nan := by
  simp [F.mulV]

theorem pack_fin (s : Bool) (m : Nat) (e : Int) : F.pack F.f32 (.fin s m e) = F.round F.f32 s m e := rfl
theorem pack_inf (s : Bool) : F.pack F.f32 (.inf s) = (if s then 2147483648 else 0) + 2139095040 := rfl
theorem pack_nan : F.pack F.f32 .nan = 2143289344 := rfl

/-- `1.0 * x` of a NaN is the canonical quiet NaN -/
theorem mul_one_nan (x : Nat) (he : x / 8388608 % 256 = 255) (hm : x % 8388608 ≠ 0) :
    F.mul F.f32 1065353216 x = 2143289344 := by
  unfold F.mul
  rw [unpack_one, unpack_nan x he hm, mulV_one_nan, pack_nan]

/-- `1.0 * x` is bit-exact `x` for every non-NaN pattern (±0, denormals, normals, ±∞) -/
theorem mul_one_id (x : Nat) (hx : x < 4294967296)
    (hn : ¬ (x / 8388608 % 256 = 255 ∧ x % 8388608 ≠ 0)) : F.mul F.f32 1065353216 x = x := by
  unfold F.mul
  rw [unpack_one]
  by_cases he : x / 8388608 % 256 = 255
  · have hm : x % 8388608 = 0 := by
      apply Classical.byContradiction; intro h; exact hn ⟨he, h⟩
    rw [unpack_inf x hx he hm, mulV_one_inf, pack_inf]
    by_cases hs : 2147483648 ≤ x
    · simp only [hs, decide_true, if_true]; omega
    · simp only [hs, decide_false]; simp only [Bool.false_eq_true, if_false]; omega
  · by_cases he0 : x / 8388608 % 256 = 0
    · rw [unpack_den x hx he0, mulV_one_fin, pack_fin]
      by_cases hm : x % 8388608 = 0
      · rw [hm, round_zero]
        by_cases hs : 2147483648 ≤ x
        · simp only [hs, decide_true, if_true]; omega
        · simp only [hs, decide_false]; simp only [Bool.false_eq_true, if_false]; omega
      · rw [round_denormal _ _ (by omega) (by omega)]
        by_cases hs : 2147483648 ≤ x
        · simp only [hs, decide_true, if_true]; omega
        · simp only [hs, decide_false]; simp only [Bool.false_eq_true, if_false]; omega
    · rw [unpack_nrm x hx he0 he, mulV_one_fin, pack_fin,
        round_normal _ _ _ (by omega) (by omega) (by omega) (by omega)]
      by_cases hs : 2147483648 ≤ x
      · simp only [hs, decide_true, if_true]; omega
      · simp only [hs, decide_false]; simp only [Bool.false_eq_true, if_false]; omega

/-! ### `v_max_f32 (0, y)` -/

theorem cmp_zero_fin (s : Bool) (M : Nat) (E : Int) :
    F.cmpV (.fin false 0 (-149)) (.fin s M E) =
      some (if M = 0 then .eq else if s then .gt else .lt) := by
  unfold F.cmpV
  dsimp only
  generalize (if (-149 : Int) < E then (-149 : Int) else E) = e0
  have hz : F.scaled false 0 (-149) e0 = 0 := by
    unfold F.scaled; simp
  rw [hz]
  by_cases hM : M = 0
  · subst hM
    have hy : F.scaled s 0 E e0 = 0 := by
      unfold F.scaled; cases s <;> simp
    rw [hy]; simp
  · have hpos : 0 < M <<< (E - e0).toNat := by
      rw [Nat.shiftLeft_eq]
      exact Nat.mul_pos (by omega) (Nat.two_pow_pos _)
    rw [if_neg hM]
    cases s
    · have hy : F.scaled false M E e0 = ((M <<< (E - e0).toNat : Nat) : Int) := by
        unfold F.scaled; rfl
      rw [hy]
      generalize M <<< (E - e0).toNat = n at hpos
      have h1 : (0 : Int) < (n : Int) := by omega
      rw [if_pos h1]
      rfl
    · have hy : F.scaled true M E e0 = -((M <<< (E - e0).toNat : Nat) : Int) := by
        unfold F.scaled; rfl
      rw [hy]
      generalize M <<< (E - e0).toNat = n at hpos
      have h1 : ¬ (0 : Int) < -(n : Int) := by omega
      have h2 : ((0 : Int) == -(n : Int)) = false := by
        rw [beq_eq_false_iff_ne]; omega
      rw [if_neg h1, h2]
      rfl

theorem cmp_zero_inf (s : Bool) :
    F.cmpV (.fin false 0 (-149)) (.inf s) = some (if s then .gt else .lt) := rfl

/-- `max (0, y)` for a non-NaN pattern `y`: `y` when the sign bit is clear, `+0` otherwise -/
theorem fmax_zero (x : Nat) (hx : x < 4294967296)
    (hn : ¬ (x / 8388608 % 256 = 255 ∧ x % 8388608 ≠ 0)) :
    F.fmax F.f32 0 x = if x < 2147483648 then x else 0 := by
  unfold F.fmax
  dsimp only
  rw [unpack_zero, signBit_f32]
  have hge : ¬ (0 ≥ 2147483648) := by decide
  by_cases he : x / 8388608 % 256 = 255
  · have hm : x % 8388608 = 0 := by
      apply Classical.byContradiction; intro h; exact hn ⟨he, h⟩
    rw [unpack_inf x hx he hm, cmp_zero_inf]
    by_cases hs : 2147483648 ≤ x
    · have : ¬ x < 2147483648 := by omega
      simp [F.isNaN, hs, this]
    · have : x < 2147483648 := by omega
      simp [F.isNaN, hs, this]
  · by_cases he0 : x / 8388608 % 256 = 0
    · rw [unpack_den x hx he0, cmp_zero_fin]
      by_cases hm : x % 8388608 = 0
      · by_cases hs : 2147483648 ≤ x
        · have : ¬ x < 2147483648 := by omega
          simp [F.isNaN, this, hm]
        · have h1 : x < 2147483648 := by omega
          have h2 : x = 0 := by omega
          simp [F.isNaN, h2]
      · by_cases hs : 2147483648 ≤ x
        · have : ¬ x < 2147483648 := by omega
          simp [F.isNaN, hs, this, hm]
        · have : x < 2147483648 := by omega
          simp [F.isNaN, hs, this, hm]
    · rw [unpack_nrm x hx he0 he, cmp_zero_fin]
      have hM : x % 8388608 + 8388608 ≠ 0 := by omega
      by_cases hs : 2147483648 ≤ x
      · have : ¬ x < 2147483648 := by omega
        simp [F.isNaN, hs, this]
      · have : x < 2147483648 := by omega
        simp [F.isNaN, hs, this]

theorem fmax_zero_qnan : F.fmax F.f32 0 2143289344 = 0 := by
  unfold F.fmax
  dsimp only
  rw [unpack_zero, unpack_qnan]
  rfl

theorem isNaNBits_f32 (x : Nat) :
    F.isNaNBits F.f32 x = true ↔ (x / 8388608 % 256 = 255 ∧ x % 8388608 ≠ 0) := by
  simp [F.isNaNBits, mb_f32, eb_f32, expMax_f32]

theorem mulV_comm (a b : F.Val) : F.mulV a b = F.mulV b a := by
  cases a <;> cases b <;> simp [F.mulV, Nat.mul_comm, Int.add_comm, bne_comm]

end FloatAux
open FloatAux

/-- the C expression `x > 0 ? x : 0` of the host reference (relu/main.go Verify, kernels.cl) on bit patterns:
    NaN → +0, sign bit set (negative numbers, −0, −∞) → +0, everything else (positive numbers incl. denormals,
    +0, +∞) → unchanged -/
def reluRef (x : Nat) : Nat := if F.isNaNBits F.f32 x then 0 else if x < 2147483648 then x else 0

/-- `v_mul_f32 (1.0, x)` on every 32-bit pattern: the identity except that NaNs are canonicalised -/
theorem mul_one_meaning (x : Nat) (hx : x < 4294967296) :
    F.mul F.f32 1065353216 x = if F.isNaNBits F.f32 x then 2143289344 else x := by
  by_cases hn : F.isNaNBits F.f32 x = true
  · rw [if_pos hn]
    have h := (isNaNBits_f32 x).1 hn
    exact mul_one_nan x h.1 h.2
  · rw [if_neg hn]
    exact mul_one_id x hx (fun h => hn ((isNaNBits_f32 x).2 h))

/-- the dword `ReLUForward` stores is the host reference `x > 0 ? x : 0`, for EVERY input pattern -/
theorem relu_meaning (x : Nat) (hx : x < 4294967296) : Relu.reluBits x = reluRef x := by
  unfold Relu.reluBits reluRef
  by_cases hn : F.isNaNBits F.f32 x = true
  · have h := (isNaNBits_f32 x).1 hn
    rw [if_pos hn, mul_one_nan x h.1 h.2]
    have h1 : 2143289344 % 4294967296 = 2143289344 := by decide
    rw [h1, fmax_zero_qnan]
  · have h : ¬ (x / 8388608 % 256 = 255 ∧ x % 8388608 ≠ 0) := fun h => hn ((isNaNBits_f32 x).2 h)
    rw [if_neg hn, mul_one_id x hx h, Nat.mod_eq_of_lt hx, fmax_zero x hx h]
    by_cases hs : x < 2147483648
    · rw [if_pos hs]; exact Nat.mod_eq_of_lt hx
    · rw [if_neg hs]

/-- `v_mul_f32` does not depend on the operand order -/
theorem mul_comm_bits (a b : Nat) : Mul.mulBits a b = Mul.mulBits b a := by
  unfold Mul.mulBits F.mul
  rw [mulV_comm]

/-! ### non-vacuity: the theorem agrees with evaluation on samples of each class -/
example : Relu.reluBits 0x40490fdb = 0x40490fdb := by
  rw [relu_meaning _ (by decide)]; decide
example : Relu.reluBits 0xc0490fdb = 0 := by
  rw [relu_meaning _ (by decide)]; decide
example : Relu.reluBits 0x00000001 = 1 := by
  rw [relu_meaning _ (by decide)]; decide
example : Relu.reluBits 0x7fc00001 = 0 := by
  rw [relu_meaning _ (by decide)]; decide
example : Relu.reluBits 0x7f800000 = 0x7f800000 := by
  rw [relu_meaning _ (by decide)]; decide
example : reluRef 0x40490fdb = 0x40490fdb ∧ Relu.reluBits 0x40490fdb = 0x40490fdb := by decide
example : reluRef 0x80000000 = 0 ∧ Relu.reluBits 0x80000000 = 0 := by decide
example : reluRef 0xff800000 = 0 ∧ Relu.reluBits 0xff800000 = 0 := by decide


end C01.Emu
