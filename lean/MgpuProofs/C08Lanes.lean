import MgpuModel.C08
/-! Helper lemmas for C08 `lanes_correct`: wavefront formation and lane-id decode. -/
namespace C08

/-- flat ids carried by the enabled lanes -/
def laneIds (wfs : List Wf) : List Nat :=
  wfs.flatMap fun w => (lanesOf w.mask).map fun l => w.first + l

/-- `formStep` on flat ids only -/
def stepId (wfs : List Wf) (id : Nat) : List Wf :=
  match wfs with
  | w :: rest =>
    if id / 64 ≠ w.first / 64 then ⟨id - id % 64, 1 <<< (id % 64), 1⟩ :: w :: rest
    else ⟨w.first, w.mask ||| (1 <<< (id % 64)), w.cnt + 1⟩ :: rest
  | [] => [⟨id - id % 64, 1 <<< (id % 64), 1⟩]

theorem formStep_eq (wx wy : Nat) (wfs : List Wf) (it : Coord) :
    formStep wx wy wfs it = stepId wfs (flatId wx wy it) := by
  unfold formStep stepId
  cases wfs <;> rfl

theorem formWfsRev_eq (wx wy : Nat) (items : List Coord) (wfs : List Wf) :
    items.foldl (formStep wx wy) wfs = (items.map (flatId wx wy)).foldl stepId wfs := by
  induction items generalizing wfs with
  | nil => rfl
  | cons a l ih => simp only [List.foldl_cons, List.map_cons, formStep_eq, ih]

theorem stepId_new (w : Wf) (rest : List Wf) (id : Nat) (h : id / 64 ≠ w.first / 64) :
    stepId (w :: rest) id = ⟨id - id % 64, 1 <<< (id % 64), 1⟩ :: w :: rest := by
  unfold stepId; exact if_pos h

theorem stepId_same (w : Wf) (rest : List Wf) (id : Nat) (h : id / 64 = w.first / 64) :
    stepId (w :: rest) id = ⟨w.first, w.mask ||| (1 <<< (id % 64)), w.cnt + 1⟩ :: rest := by
  unfold stepId; exact if_neg (fun hn => hn h)

/-- adding one more accepted element to a filter over a duplicate-free list -/
theorem filter_or_perm (L : List Nat) (p : Nat → Bool) (a : Nat) (hn : L.Nodup) (ha : a ∈ L) (hp : p a = false) :
    (L.filter fun l => p l || decide (a = l)).Perm (a :: L.filter p) := by
  induction L with
  | nil => cases ha
  | cons x xs ih =>
    rw [List.nodup_cons] at hn
    by_cases hax : a = x
    · subst hax
      have hrest : (xs.filter fun l => p l || decide (a = l)) = xs.filter p := by
        apply List.filter_congr
        intro l hl
        have : a ≠ l := fun h => hn.1 (h ▸ hl)
        simp [this]
      simp [hp, hrest]
    · have ha' : a ∈ xs := by
        rcases List.mem_cons.mp ha with h | h
        · exact absurd h hax
        · exact h
      have ih' := ih hn.2 ha'
      simp only [List.filter_cons, hax, decide_false, Bool.or_false]
      cases hpx : p x
      · simpa using ih'
      · simp only [if_true]
        exact (List.Perm.cons x ih').trans (List.Perm.swap a x _)

theorem lanesOf_zero : lanesOf 0 = [] := by
  simp [lanesOf]

/-- setting a bit that was clear adds exactly that lane -/
theorem lanesOf_or_bit (m a : Nat) (ha : a < 64) (hc : m.testBit a = false) :
    (lanesOf (m ||| 1 <<< a)).Perm (a :: lanesOf m) := by
  unfold lanesOf
  have : (fun l => (m ||| 1 <<< a).testBit l) = fun l => m.testBit l || decide (a = l) := by
    funext l
    rw [Nat.testBit_or, Nat.one_shiftLeft, Nat.testBit_two_pow]
  rw [this]
  exact filter_or_perm _ _ a List.nodup_range (List.mem_range.mpr ha) hc

theorem lanesOf_lt {m l : Nat} (h : l ∈ lanesOf m) : l < 64 ∧ m.testBit l = true := by
  simpa [lanesOf] using h

theorem mem_lanesOf {m l : Nat} (h1 : l < 64) (h2 : m.testBit l = true) : l ∈ lanesOf m := by
  simp [lanesOf, h1, h2]

/-- the invariant step: one more id -/
theorem stepId_perm (wfs : List Wf) (done : List Nat) (id : Nat)
    (hperm : (laneIds wfs).Perm done) (hal : ∀ w ∈ wfs, w.first % 64 = 0) (hnew : id ∉ done) :
    (laneIds (stepId wfs id)).Perm (id :: done) ∧ ∀ w ∈ stepId wfs id, w.first % 64 = 0 := by
  have hlt : id % 64 < 64 := Nat.mod_lt _ (by decide)
  have hfirst : id - id % 64 + id % 64 = id := by omega
  have hfa : (id - id % 64) % 64 = 0 := by omega
  have hsingle : (lanesOf (1 <<< (id % 64))).Perm [id % 64] := by
    have := lanesOf_or_bit 0 (id % 64) hlt (Nat.zero_testBit _)
    rw [Nat.zero_or, lanesOf_zero] at this
    exact this
  have hnewwf : ∀ rest, (laneIds (⟨id - id % 64, 1 <<< (id % 64), 1⟩ :: rest)).Perm (id :: laneIds rest) := by
    intro rest
    simp only [laneIds, List.flatMap_cons]
    have h1 := (hsingle.map fun l => id - id % 64 + l)
    simp only [List.map_cons, List.map_nil, hfirst] at h1
    exact List.Perm.append_right _ h1
  cases wfs with
  | nil =>
    refine ⟨?_, ?_⟩
    · exact (hnewwf []).trans (List.Perm.cons id hperm)
    · intro w hw
      simp only [stepId, List.mem_singleton] at hw
      subst hw; exact hfa
  | cons w rest =>
    by_cases hb : id / 64 ≠ w.first / 64
    · refine ⟨?_, ?_⟩
      · rw [stepId_new w rest id hb]
        exact (hnewwf (w :: rest)).trans (List.Perm.cons id hperm)
      · intro w' hw'
        rw [stepId_new w rest id hb] at hw'
        rcases List.mem_cons.mp hw' with h | h
        · subst h; exact hfa
        · exact hal w' h
    · have hb' : id / 64 = w.first / 64 := by
        rcases Nat.lt_or_ge (id / 64) (w.first / 64) with h | h
        · exact absurd (Nat.ne_of_lt h) hb
        · rcases Nat.lt_or_ge (w.first / 64) (id / 64) with h2 | h2
          · exact absurd (Nat.ne_of_gt h2) hb
          · omega
      have hw0 := hal w (List.mem_cons_self)
      have hid : w.first + id % 64 = id := by omega
      -- the bit is still clear: otherwise `id` would already be among the processed ids
      have hclear : w.mask.testBit (id % 64) = false := by
        cases hbit : w.mask.testBit (id % 64)
        · rfl
        · exfalso
          apply hnew
          apply hperm.mem_iff.mp
          simp only [laneIds, List.flatMap_cons, List.mem_append, List.mem_map]
          exact Or.inl ⟨id % 64, mem_lanesOf hlt hbit, hid⟩
      refine ⟨?_, ?_⟩
      · rw [stepId_same w rest id hb']
        simp only [laneIds, List.flatMap_cons]
        have h1 := (lanesOf_or_bit w.mask (id % 64) hlt hclear).map fun l => w.first + l
        simp only [List.map_cons, hid] at h1
        have h2 : (((lanesOf (w.mask ||| 1 <<< (id % 64))).map fun l => w.first + l) ++
            rest.flatMap fun w => (lanesOf w.mask).map fun l => w.first + l).Perm
            (id :: (((lanesOf w.mask).map fun l => w.first + l) ++
            rest.flatMap fun w => (lanesOf w.mask).map fun l => w.first + l)) :=
          List.Perm.append_right _ h1
        refine h2.trans (List.Perm.cons id ?_)
        simpa [laneIds] using hperm
      · intro w' hw'
        rw [stepId_same w rest id hb'] at hw'
        rcases List.mem_cons.mp hw' with h | h
        · subst h; exact hw0
        · exact hal w' (List.mem_cons_of_mem _ h)

theorem fold_perm (ids : List Nat) (wfs : List Wf) (done : List Nat)
    (hperm : (laneIds wfs).Perm done) (hal : ∀ w ∈ wfs, w.first % 64 = 0)
    (hnd : ids.Nodup) (hdisj : ∀ id ∈ ids, id ∉ done) :
    (laneIds (ids.foldl stepId wfs)).Perm (done ++ ids) := by
  induction ids generalizing wfs done with
  | nil => simpa using hperm
  | cons id rest ih =>
    rw [List.nodup_cons] at hnd
    have hs := stepId_perm wfs done id hperm hal (hdisj id List.mem_cons_self)
    have := ih (stepId wfs id) (id :: done) hs.1 hs.2 hnd.2 (by
      intro j hj hmem
      rcases List.mem_cons.mp hmem with h | h
      · exact hnd.1 (h ▸ hj)
      · exact hdisj j (List.mem_cons_of_mem _ hj) h)
    simp only [List.foldl_cons]
    refine this.trans ?_
    simp only [List.cons_append]
    exact (List.perm_middle).symm

theorem laneIds_reverse (wfs : List Wf) : (laneIds wfs.reverse).Perm (laneIds wfs) := by
  unfold laneIds
  exact List.Perm.flatMap_right _ (List.reverse_perm wfs)

/-- x,y,z are recovered from a flattened id computed with the same pitch -/
theorem decode_flat (wx wy x y z : Nat) (hx : x < wx) (hy : y < wy) :
    decodeId wx wy (z * wx * wy + y * wx + x) = (x, y, z) := by
  have hwx : 0 < wx := by omega
  have hwy : 0 < wy := by omega
  have hlt : y * wx + x < wx * wy := by
    calc y * wx + x < y * wx + wx := by omega
      _ = (y + 1) * wx := by rw [Nat.add_mul, Nat.one_mul]
      _ ≤ wy * wx := Nat.mul_le_mul_right _ hy
      _ = wx * wy := Nat.mul_comm _ _
  have e : z * wx * wy + y * wx + x = (y * wx + x) + (wx * wy) * z := by
    rw [Nat.mul_assoc, Nat.mul_comm z]; omega
  unfold decodeId
  rw [e, Nat.add_mul_mod_self_left, Nat.mod_eq_of_lt hlt, Nat.add_mul_div_left _ _ (Nat.mul_pos hwx hwy),
    Nat.div_eq_of_lt hlt, Nat.zero_add]
  have h1 : (y * wx + x) % wx = x := by
    rw [Nat.add_comm, Nat.add_mul_mod_self_right, Nat.mod_eq_of_lt hx]
  have h2 : (y * wx + x) / wx = y := by
    rw [Nat.add_comm, Nat.add_mul_div_right _ _ hwx, Nat.div_eq_of_lt hx, Nat.zero_add]
  rw [h1, h2]

theorem mem_spawn {sz it : Coord} : it ∈ spawn sz ↔ it.1 < sz.1 ∧ it.2.1 < sz.2.1 ∧ it.2.2 < sz.2.2 := by
  obtain ⟨x, y, z⟩ := it
  simp only [spawn, List.mem_flatMap, List.mem_map, List.mem_range, Prod.mk.injEq]
  constructor
  · rintro ⟨z', hz, y', hy, x', hx, rfl, rfl, rfl⟩
    exact ⟨hx, hy, hz⟩
  · rintro ⟨hx, hy, hz⟩
    exact ⟨z, hz, y, hy, x, hx, rfl, rfl, rfl⟩

/-- a flatMap is duplicate-free when a key function recovers the outer element -/
theorem nodup_flatMap_key {α β : Type} (l : List α) (f : α → List β) (key : β → α)
    (hl : l.Nodup) (hf : ∀ a ∈ l, (f a).Nodup) (hk : ∀ a ∈ l, ∀ b ∈ f a, key b = a) :
    (l.flatMap f).Nodup := by
  induction l with
  | nil => simp
  | cons a l ih =>
    rw [List.nodup_cons] at hl
    rw [List.flatMap_cons, List.nodup_append]
    refine ⟨hf a List.mem_cons_self, ih hl.2 (fun x hx => hf x (List.mem_cons_of_mem _ hx))
      (fun x hx => hk x (List.mem_cons_of_mem _ hx)), ?_⟩
    intro b hb b' hb' heq
    rcases List.mem_flatMap.mp hb' with ⟨a', ha', hb''⟩
    have h1 := hk a List.mem_cons_self b hb
    have h2 := hk a' (List.mem_cons_of_mem _ ha') b' hb''
    rw [← heq, h1] at h2
    exact hl.1 (h2 ▸ ha')

theorem nodup_map_key {α β : Type} (l : List α) (f : α → β) (key : β → α)
    (hl : l.Nodup) (hk : ∀ a ∈ l, key (f a) = a) : (l.map f).Nodup := by
  induction l with
  | nil => simp
  | cons a l ih =>
    rw [List.nodup_cons] at hl
    rw [List.map_cons, List.nodup_cons]
    refine ⟨?_, ih hl.2 (fun x hx => hk x (List.mem_cons_of_mem _ hx))⟩
    intro hmem
    rcases List.mem_map.mp hmem with ⟨a', ha', he⟩
    have h1 := hk a List.mem_cons_self
    have h2 := hk a' (List.mem_cons_of_mem _ ha')
    rw [he, h1] at h2
    exact hl.1 (h2 ▸ ha')

theorem spawn_nodup (sz : Coord) : (spawn sz).Nodup := by
  unfold spawn
  apply nodup_flatMap_key _ _ (fun c : Coord => c.2.2) List.nodup_range
  · intro z _
    apply nodup_flatMap_key _ _ (fun c : Coord => c.2.1) List.nodup_range
    · intro y _
      exact nodup_map_key _ _ (fun c : Coord => c.1) List.nodup_range (fun _ _ => rfl)
    · intro y _ b hb
      rcases List.mem_map.mp hb with ⟨x, _, rfl⟩; rfl
  · intro z _ b hb
    rcases List.mem_flatMap.mp hb with ⟨y, _, hb⟩
    rcases List.mem_map.mp hb with ⟨x, _, rfl⟩; rfl

/-- flat ids of the spawned work-items are pairwise distinct when the group fits its pitch -/
theorem flat_nodup (wx wy : Nat) (sz : Coord) (hx : sz.1 ≤ wx) (hy : sz.2.1 ≤ wy) :
    ((spawn sz).map (flatId wx wy)).Nodup := by
  apply nodup_map_key _ _ (decodeId wx wy) (spawn_nodup sz)
  intro it hit
  obtain ⟨x, y, z⟩ := it
  have := mem_spawn.mp hit
  simp only at this
  exact decode_flat wx wy x y z (by omega) (by omega)

end C08
