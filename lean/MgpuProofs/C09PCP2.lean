import MgpuProofs.C09PCP1
import MgpuProofs.C09Pool1
/-! # C09 — partition algorithm inside the command processor, part 2: the shared pool and the identities
    of the work-group objects through one `Next` call.

`KS O a pool nk` ("key state" of one algorithm instance `a`; `O` = the identities held in `currWGs` of the
*other* dispatchers): resident work-groups and pending work-groups were drawn from the counter, a pending
work-group is resident nowhere, two slots of `currWGs` never hold the same object, and the pending objects of
the others are resident nowhere either. It is kept by `nextWG` (a newly built work-group gets the counter
value), by a refused reservation (the resident list does not change) and by a successful one (the placed
object leaves `currWGs` in the same step). Hence `ReserveResourceForWG` never sees a resident work-group:
"reserving a work-group twice" is unreachable, and every CU keeps `Inv`. -/
namespace C09

/-- identity of the work-group object in `currWGs[p]` -/
def PAlg.keyAt (a : PAlg) (p : Nat) : Nat := a.keys.getD p 0

/-- `κ` is the identity of a work-group held in `currWGs` -/
def PAlg.pend (a : PAlg) (κ : Nat) : Prop := ∃ p w, a.part.curAt p = some w ∧ a.keyAt p = κ

/-- `κ` is resident on some CU of the pool -/
def Res (pool : List CU) (κ : Nat) : Prop := ∃ cu ∈ pool, ∃ e ∈ cu.resident, e.1 = κ

structure KS (O : Nat → Prop) (a : PAlg) (pool : List CU) (nk : Nat) : Prop where
  klen : a.keys.length = a.part.n
  res : ∀ κ, Res pool κ → κ < nk
  pend : ∀ κ, a.pend κ → κ < nk ∧ ¬ Res pool κ ∧ ¬ O κ
  inj : ∀ p p' w w', a.part.curAt p = some w → a.part.curAt p' = some w' → a.keyAt p = a.keyAt p' → p = p'
  oth : ∀ κ, O κ → κ < nk ∧ ¬ Res pool κ

/-- replacing CU `c` by one with the same resident list -/
theorem Res_set_same (pool : List CU) (c : Nat) (cu' : CU) (hc : c < pool.length)
    (hr : cu'.resident = pool[c].resident) (κ : Nat) : Res (pool.set c cu') κ ↔ Res pool κ := by
  constructor
  · rintro ⟨cu, hcu, e, he, hk⟩
    rcases List.mem_or_eq_of_mem_set hcu with hm | hm
    · exact ⟨cu, hm, e, he, hk⟩
    · subst hm; rw [hr] at he; exact ⟨_, List.getElem_mem hc, e, he, hk⟩
  · rintro ⟨cu, hcu, e, he, hk⟩
    obtain ⟨j, hj, rfl⟩ := List.getElem_of_mem hcu
    by_cases hjc : j = c
    · subst hjc
      refine ⟨cu', ?_, e, by rw [hr]; exact he, hk⟩
      exact List.mem_iff_getElem.2 ⟨j, by simpa using hj, by simp⟩
    · refine ⟨pool[j], ?_, e, he, hk⟩
      exact List.mem_iff_getElem.2 ⟨j, by simpa using hj, by rw [List.getElem_set_ne (fun h => hjc h.symm)]⟩

/-- replacing CU `c` by one with one more resident entry -/
theorem Res_set_append (pool : List CU) (c : Nat) (cu' : CU) (x : Nat × Dem × List Loc) (hc : c < pool.length)
    (hr : cu'.resident = pool[c].resident ++ [x]) (κ : Nat) :
    Res (pool.set c cu') κ ↔ Res pool κ ∨ κ = x.1 := by
  constructor
  · rintro ⟨cu, hcu, e, he, hk⟩
    rcases List.mem_or_eq_of_mem_set hcu with hm | hm
    · exact Or.inl ⟨cu, hm, e, he, hk⟩
    · subst hm
      rw [hr] at he
      rcases List.mem_append.1 he with he | he
      · exact Or.inl ⟨_, List.getElem_mem hc, e, he, hk⟩
      · simp only [List.mem_singleton] at he; subst he; exact Or.inr hk.symm
  · rintro (⟨cu, hcu, e, he, hk⟩ | hk)
    · obtain ⟨j, hj, rfl⟩ := List.getElem_of_mem hcu
      by_cases hjc : j = c
      · subst hjc
        refine ⟨cu', ?_, e, by rw [hr]; exact List.mem_append_left _ he, hk⟩
        exact List.mem_iff_getElem.2 ⟨j, by simpa using hj, by simp⟩
      · refine ⟨pool[j], ?_, e, he, hk⟩
        exact List.mem_iff_getElem.2 ⟨j, by simpa using hj, by rw [List.getElem_set_ne (fun h => hjc h.symm)]⟩
    · refine ⟨cu', ?_, x, by rw [hr]; simp, hk.symm⟩
      exact List.mem_iff_getElem.2 ⟨c, by simpa using hc, by simp⟩

theorem KS_pool_congr {O : Nat → Prop} {a : PAlg} {pool pool' : List CU} {nk : Nat}
    (h : KS O a pool nk) (hr : ∀ κ, Res pool' κ ↔ Res pool κ) : KS O a pool' nk :=
  { klen := h.klen
    res := fun κ hk => h.res κ ((hr κ).1 hk)
    pend := fun κ hk => ⟨(h.pend κ hk).1, fun h' => (h.pend κ hk).2.1 ((hr κ).1 h'), (h.pend κ hk).2.2⟩
    inj := h.inj
    oth := fun κ hk => ⟨(h.oth κ hk).1, fun h' => (h.oth κ hk).2 ((hr κ).1 h')⟩ }

/-- `nextWG` keeps the key state; a newly built work-group takes the counter value -/
theorem pNextWG_KS (O : Nat → Prop) (a : PAlg) (pool : List CU) (nk i : Nat) (D : List Nat)
    (h : KS O a pool nk) (hpi : PI a.part D) (hi : i < a.part.n) :
    KS O (pNextWG a nk i).1 pool (pNextWG a nk i).2.1 ∧ nk ≤ (pNextWG a nk i).2.1 := by
  unfold pNextWG
  by_cases hge : a.part.disp.getD i 0 ≥ a.part.per
  · simp only [hge, if_true]
    cases hfd : (List.range a.part.n).find? (fun j => (a.part.cur.getD j none).isSome) with
    | none => exact ⟨h, Nat.le_refl _⟩
    | some j =>
      simp only []
      cases hc : a.part.cur.getD j none with
      | none => exact ⟨h, Nat.le_refl _⟩
      | some w => exact ⟨h, Nat.le_refl _⟩
  · simp only [hge, if_false]
    cases hc : a.part.cur.getD i none with
    | some w => exact ⟨h, Nat.le_refl _⟩
    | none =>
      simp only []
      by_cases hp : a.part.pos.getD i 0 < a.part.numWG
      · simp only [hp, if_true]
        refine ⟨?_, Nat.le_succ _⟩
        have hcur' : ∀ j, (a.part.cur.set i (some (a.part.pos.getD i 0))).getD j none =
            if i = j then some (a.part.pos.getD i 0) else a.part.curAt j := by
          intro j
          rw [getD_set, hpi.lcur]
          by_cases hij : i = j
          · subst hij; simp [hi]
          · simp [hij]; rfl
        have hkey' : ∀ j, (a.keys.set i nk).getD j 0 = if i = j then nk else a.keyAt j := by
          intro j
          rw [getD_set, h.klen]
          by_cases hij : i = j
          · subst hij; simp [hi]
          · simp [hij]; rfl
        have hold : ∀ p w, a.part.curAt p = some w → a.keyAt p < nk := fun p w hw => (h.pend _ ⟨p, w, hw, rfl⟩).1
        exact {
          klen := by show (a.keys.set i nk).length = _; rw [List.length_set]; exact h.klen
          res := fun κ hk => Nat.lt_succ_of_lt (h.res κ hk)
          pend := by
            rintro κ ⟨p, w, hw, hk⟩
            have hw : (a.part.cur.set i (some (a.part.pos.getD i 0))).getD p none = some w := hw
            have hk : (a.keys.set i nk).getD p 0 = κ := hk
            rw [hcur' p] at hw; rw [hkey' p] at hk
            by_cases hip : i = p
            · simp only [hip, if_true] at hk
              subst hk
              refine ⟨Nat.lt_succ_self _, fun hr => Nat.lt_irrefl _ (h.res _ hr), fun ho => Nat.lt_irrefl _ (h.oth _ ho).1⟩
            · simp only [hip, if_false] at hw hk
              obtain ⟨p1, p2, p3⟩ := h.pend κ ⟨p, w, hw, hk⟩
              exact ⟨Nat.lt_succ_of_lt p1, p2, p3⟩
          inj := by
            intro p p' w w' hw hw' hk
            have hw : (a.part.cur.set i (some (a.part.pos.getD i 0))).getD p none = some w := hw
            have hw' : (a.part.cur.set i (some (a.part.pos.getD i 0))).getD p' none = some w' := hw'
            have hk : (a.keys.set i nk).getD p 0 = (a.keys.set i nk).getD p' 0 := hk
            rw [hcur' p] at hw; rw [hcur' p'] at hw'; rw [hkey' p, hkey' p'] at hk
            by_cases hip : i = p <;> by_cases hip' : i = p'
            · exact hip.symm.trans hip'
            · rw [if_neg hip'] at hw'
              rw [if_pos hip, if_neg hip'] at hk
              have := hold p' w' hw'
              omega
            · rw [if_neg hip] at hw
              rw [if_neg hip, if_pos hip'] at hk
              have := hold p w hw
              omega
            · simp only [hip, hip', if_false] at hw hw' hk
              exact h.inj p p' w w' hw hw' hk
          oth := fun κ hk => ⟨Nat.lt_succ_of_lt (h.oth κ hk).1, (h.oth κ hk).2⟩ }
      · simp only [hp, if_false]; exact ⟨h, Nat.le_refl _⟩

/-- a successful reservation of the pending work-group of partition `src` on CU `c`, and the bookkeeping of
    `Next` after it -/
theorem KS_place (O : Nat → Prop) (a : PAlg) (pool : List CU) (nk c src w nx : Nat) (cu' : CU) (d : Dem)
    (locs : List Loc) (D : List Nat) (h : KS O a pool nk) (hpi : PI a.part D) (hs : src < a.part.n)
    (hw : a.part.curAt src = some w) (hc : c < pool.length)
    (hr : cu'.resident = pool[c].resident ++ [(a.keyAt src, d, locs)]) :
    KS O { a with part := { a.part with cur := a.part.cur.set src none,
                                        disp := a.part.disp.set src (a.part.disp.getD src 0 + 1),
                                        nd := a.part.nd + 1, next := nx },
                  hist := w :: a.hist } (pool.set c cu') nk := by
  have hR := Res_set_append pool c cu' _ hc hr
  have hcur' : ∀ j, (a.part.cur.set src none).getD j none = if src = j then none else a.part.curAt j := by
    intro j
    rw [getD_set, hpi.lcur]
    by_cases hij : src = j
    · subst hij; simp [hs]
    · simp [hij]; rfl
  have hkp : a.pend (a.keyAt src) := ⟨src, w, hw, rfl⟩
  exact {
    klen := h.klen
    res := by
      intro κ hk
      rcases (hR κ).1 hk with h' | h'
      · exact h.res κ h'
      · have h'' : κ = a.keyAt src := h'
        rw [h'']; exact (h.pend _ hkp).1
    pend := by
      rintro κ ⟨p, w', hw', hk⟩
      have hw' : (a.part.cur.set src none).getD p none = some w' := hw'
      have hk : a.keyAt p = κ := hk
      rw [hcur' p] at hw'
      by_cases hsp : src = p
      · simp [hsp] at hw'
      · simp only [hsp, if_false] at hw'
        obtain ⟨p1, p2, p3⟩ := h.pend κ ⟨p, w', hw', hk⟩
        refine ⟨p1, ?_, p3⟩
        intro hres
        rcases (hR κ).1 hres with h' | h'
        · exact p2 h'
        · have h'' : κ = a.keyAt src := h'
          exact hsp (h.inj src p w w' hw hw' (by rw [hk]; exact h''.symm))
    inj := by
      intro p p' w1 w2 h1 h2 hk
      have h1 : (a.part.cur.set src none).getD p none = some w1 := h1
      have h2 : (a.part.cur.set src none).getD p' none = some w2 := h2
      rw [hcur' p] at h1; rw [hcur' p'] at h2
      by_cases hsp : src = p
      · simp [hsp] at h1
      · by_cases hsp' : src = p'
        · simp [hsp'] at h2
        · simp only [hsp, hsp', if_false] at h1 h2
          exact h.inj p p' w1 w2 h1 h2 hk
    oth := by
      intro κ hk
      refine ⟨(h.oth κ hk).1, ?_⟩
      intro hres
      rcases (hR κ).1 hres with h' | h'
      · exact (h.oth κ hk).2 h'
      · have h'' : κ = a.keyAt src := h'
        exact (h.pend _ hkp).2.2 (by rw [← h'']; exact hk) }

/-- **the loop of `Next` on the shared pool**: no double reservation, every CU keeps `Inv`, the key state is
    kept, and a placed work-group is resident on the CU it was placed on with the returned locations -/
theorem pNextGo_pool (caps : List (List Nat)) (k : Kern) (O : Nat → Prop) (hKO : KernOK k) :
    ∀ (fuel idx : Nat) (a : PAlg) (pool : List CU) (nk : Nat) (D : List Nat),
    PoolInv caps pool → a.part.n = pool.length → PI a.part D → a.part.numWG = k.numWG → KS O a pool nk →
    (pNextGo k fuel idx a pool nk).res ≠ .fault ∧
    PoolInv caps (pNextGo k fuel idx a pool nk).pool ∧
    nk ≤ (pNextGo k fuel idx a pool nk).nk ∧
    KS O (pNextGo k fuel idx a pool nk).alg (pNextGo k fuel idx a pool nk).pool (pNextGo k fuel idx a pool nk).nk ∧
    (∀ c key w locs, (pNextGo k fuel idx a pool nk).res = .placed c key w locs →
      w < k.numWG ∧ (key, k.dem w, locs) ∈ ((pNextGo k fuel idx a pool nk).pool.getD c default).resident) := by
  intro fuel
  induction fuel with
  | zero =>
    intro idx a pool nk D hp _ _ _ hks
    exact ⟨by simp [pNextGo], hp, Nat.le_refl _, hks, fun c key w locs hc => by simp [pNextGo] at hc⟩
  | succ fuel ih =>
    intro idx a pool nk D hp hn hpi hnw hks
    have hi : (idx + a.part.next) % a.part.n < a.part.n := Nat.mod_lt _ hpi.hn
    obtain ⟨e1, e2, _, _⟩ := pNextWG_part a nk ((idx + a.part.next) % a.part.n)
    obtain ⟨q1, _, q3, _, q5, q6⟩ := nextWG_spec a.part D _ hpi hi
    obtain ⟨k1, k2⟩ := pNextWG_KS O a pool nk _ D hks hpi hi
    rcases hw : pNextWG a nk ((idx + a.part.next) % a.part.n) with ⟨a1, nk1, r⟩
    rw [hw] at e1 e2 k1 k2
    simp only at e1 e2 k1 k2
    rw [← e1] at q1 q3 q5 q6
    rw [← e2] at q6
    simp only [pNextGo, hw]
    cases r with
    | none =>
      simp only []
      obtain ⟨i1, i2, i3, i4, i5⟩ := ih (idx + 1) a1 pool nk1 D hp (by rw [q3]; exact hn) q1 (by rw [q5]; exact hnw) k1
      exact ⟨i1, i2, Nat.le_trans k2 i3, i4, i5⟩
    | some ws =>
      obtain ⟨w, src⟩ := ws
      simp only []
      obtain ⟨hsrc, hcw⟩ := q6 w src rfl
      have hsrc1 : src < a1.part.n := by rw [q3]; exact hsrc
      have hc : (idx + a.part.next) % a.part.n < pool.length := by rw [← hn]; exact hi
      have hget : pool.getD ((idx + a.part.next) % a.part.n) default = pool[(idx + a.part.next) % a.part.n] := by
        simp [List.getD_eq_getElem?_getD, hc]
      have hwlt : w < k.numWG := by
        have := (q1.hcur src hsrc1 w hcw).2.2.1
        rw [q5, hnw] at this; exact this
      have hkp : a1.pend (a1.keys.getD src 0) := ⟨src, w, hcw, rfl⟩
      rw [hget]
      rcases hr : reserve pool[(idx + a.part.next) % a.part.n] (a1.keys.getD src 0) (k.dem w) with ⟨res, cu'⟩
      have hpres := reserve_preserves _ _ _ _ res cu' (hp.2 _ hc) hr
      cases res with
      | ok locs =>
        simp only []
        obtain ⟨hi1, hres1⟩ := hpres.1 locs rfl (nwf_pos k w hKO hwlt)
        refine ⟨by simp, PoolInv_set caps pool _ cu' hp (fun _ => hi1), k2, ?_, ?_⟩
        · exact KS_place O a1 pool nk1 _ src w _ cu' (k.dem w) locs D k1 q1 hsrc1 hcw hc hres1
        · intro c' key' w' locs' he
          injection he with h1 h2 h3 h4
          subst h1; subst h2; subst h3; subst h4
          refine ⟨hwlt, ?_⟩
          simp [List.getD_eq_getElem?_getD, hc, hres1]
      | no =>
        simp only []
        obtain ⟨hi1, hres1, _⟩ := hpres.2 rfl
        have hp1 : PoolInv caps (pool.set ((idx + a.part.next) % a.part.n) cu') :=
          PoolInv_set caps pool _ cu' hp (fun _ => hi1)
        obtain ⟨i1, i2, i3, i4, i5⟩ := ih (idx + 1) a1 _ nk1 D hp1
          (by rw [q3, List.length_set]; exact hn) q1 (by rw [q5]; exact hnw)
          (KS_pool_congr k1 (Res_set_same pool _ cu' hc hres1))
        exact ⟨i1, i2, Nat.le_trans k2 i3, i4, i5⟩
      | twice =>
        exfalso
        obtain ⟨e, he, hk⟩ := reserve_twice _ _ _ _ hr
        exact (k1.pend _ hkp).2.1 ⟨_, List.getElem_mem hc, e, he, hk⟩

end C09
