import MgpuProofs.C19SysInv
import MgpuProofs.Props.C19
import MgpuProofs.C19SysComp
/-! # C19 — the closed system: the moves that involve the two-controller world keep the invariant
    (`pmcTake`, `pmcColl`, `pmcBack`, the honest moves inside the world) -/
namespace C19

/-! ## world facts -/

theorem d_mem_setPmc (s : Sys) (i j : Nat) (p : Pmc) : (s.setPmc i p).mem j = s.mem j := by
  unfold Sys.setPmc Sys.mem; (repeat' split) <;> rfl
theorem d_mem_setMq (s : Sys) (i j : Nat) (p : List MReq) : (s.setMq i p).mem j = s.mem j := by
  unfold Sys.setMq Sys.mem; (repeat' split) <;> rfl
theorem d_mem_setMr (s : Sys) (i j : Nat) (p : List MRsp) : (s.setMr i p).mem j = s.mem j := by
  unfold Sys.setMr Sys.mem; (repeat' split) <;> rfl
theorem d_mem_setCq (s : Sys) (i j : Nat) (p : List CMsg) : (s.setCq i p).mem j = s.mem j := by
  unfold Sys.setCq Sys.mem; (repeat' split) <;> rfl
theorem d_mem_setGot (s : Sys) (i j : Nat) (p : List Nat) : (s.setGot i p).mem j = s.mem j := by
  unfold Sys.setGot Sys.mem; (repeat' split) <;> rfl
theorem d_size_setMem (s : Sys) (i j : Nat) (m : Mem) (h : m.size = (s.mem i).size) :
    ((s.setMem i m).mem j).size = (s.mem j).size := by
  unfold Sys.setMem Sys.mem at *
  by_cases hi : i = 0 <;> by_cases hj : j = 0 <;> simp_all

theorem d_size_perform {m m' : Mem} {q : MReq} {r : MRsp} (h : perform m q = some (m', r)) : m'.size = m.size := by
  cases q with
  | read i a n =>
    simp only [perform] at h
    split at h
    · cases h; rfl
    · cases h
  | write i a d =>
    simp only [perform] at h
    split at h
    · cases h; exact size_writeBytes _ _ _
    · cases h

/-- (W4) no move changes the size of a memory -/
theorem d_size_step (s : Sys) (o : Op) (j : Nat) : (((C19.step s o).1).mem j).size = (s.mem j).size := by
  cases o with
  | tick i =>
    unfold C19.step; dsimp only
    generalize tick (s.pmc i) = r
    split
    · show ((s.setPmc i r.1).mem j).size = _
      rw [d_mem_setPmc]
    · rw [d_mem_setPmc]
  | submit i rd wr size peer =>
    unfold C19.step; dsimp only
    show ((s.setCq i _).mem j).size = _
    rw [d_mem_setCq]
  | ctl i =>
    unfold C19.step; dsimp only
    split
    · rfl
    · split
      · rw [d_mem_setCq, d_mem_setPmc]
      · rfl
  | pick i =>
    unfold C19.step; dsimp only
    split
    · rfl
    · show ((s.setPmc i _).mem j).size = _
      rw [d_mem_setPmc]
  | dnet k =>
    unfold C19.step; dsimp only
    split
    · rfl
    · split
      · show ((s.setPmc _ _).mem j).size = _
        rw [d_mem_setPmc]
      · rfl
  | mtake i =>
    unfold C19.step; dsimp only
    split
    · rfl
    · rw [d_mem_setMq, d_mem_setPmc]
  | mdo i k =>
    unfold C19.step; dsimp only
    split
    · rfl
    · split
      · rfl
      · rename_i h
        rw [d_mem_setMr, d_mem_setMq]
        exact d_size_setMem _ _ _ _ (d_size_perform h)
  | mrsp i k =>
    unfold C19.step; dsimp only
    split
    · rfl
    · split
      · rw [d_mem_setMr, d_mem_setPmc]
      · rfl
  | coll i =>
    unfold C19.step; dsimp only
    split
    · rfl
    · rw [d_mem_setGot, d_mem_setPmc]
  | strayDone i => unfold C19.step; dsimp only; rw [d_mem_setMr]
  | strayData i => unfold C19.step; dsimp only; rw [d_mem_setMr]
  | strayRsp i => rfl
  | junkNet i => rfl
  | junkMem i => unfold C19.step; dsimp only; rw [d_mem_setMr]
  | junkCtl i => unfold C19.step; dsimp only; rw [d_mem_setCq]

theorem d_size_wstep (w : World) (o : Op) (j : Nat) : ((w.step o).sys.mem j).size = (w.sys.mem j).size := by
  rw [World.step_sys]; exact d_size_step _ _ _


/-- (W1) without a request in flight no completion is buffered -/
theorem d_ctlOut_nil {w : World} (h : WReach w) (hl : w.live = []) (g : Nat) (hg : g < 2) :
    (w.sys.pmc g).ctlOut = [] := by
  have key := ((migration_end_to_end h).2.2 g hg).2.2.1
  cases hc : (w.sys.pmc g).ctlOut with
  | nil => rfl
  | cons c rest =>
    obtain ⟨_, ℓ, hℓ, _⟩ := key c (by rw [hc]; exact List.mem_cons_self ..)
    rw [hl] at hℓ; cases hℓ

/-- (W2) the buffered completion belongs to the only request in flight; collecting it empties `live` -/
theorem d_coll_live {w : World} (h : WReach w) {ℓ : Live} (hl : w.live = [ℓ]) {g : Nat} (hg : g < 2)
    {c : Nat} {rest : List Nat} (hc : (w.sys.pmc g).ctlOut = c :: rest) :
    ℓ.p = g ∧ (w.step (.coll g)).live = [] := by
  obtain ⟨_, ℓ', hℓ', hp, hid⟩ := ((migration_end_to_end h).2.2 g hg).2.2.1 c (by rw [hc]; exact List.mem_cons_self ..)
  rw [hl] at hℓ'
  have e : ℓ' = ℓ := by simpa using hℓ'
  subst e
  refine ⟨hp, ?_⟩
  simp only [World.step, hc, hl]
  simp [hid]

/-- (W3) -/
theorem d_live_step (w : World) (o : Op) (hs : o.isSubmit = false) (hc : SY.Op.isColl o = false) :
    (w.step o).live = w.live := by
  cases o <;> first | rfl | (simp [Op.isSubmit] at hs; done) | (simp [SY.Op.isColl] at hc; done)

/-- (W5) -/
theorem d_live_submit (w : World) (g rd wr size peer : Nat) :
    (w.step (.submit g rd wr size peer)).live =
      w.live ++ [⟨g, ⟨w.sys.nreq, rd, wr, size, peer⟩, readBytes (w.sys.mem peer) rd size⟩] := rfl

theorem d_valid_coll (w : World) (g : Nat) (hg : g < 2) : (Op.coll g).valid w := by
  simp [Op.valid, Op.honest, hg]

namespace SY
open CP (Cp Cls K Sub Cmd Ans)
open DR (Drv MmuReq MigCmd)

theorem d_upd_same {α : Type} (f : Nat → α) (g : Nat) (v : α) : upd f g v g = v := by simp [upd]
theorem d_upd_ne {α : Type} (f : Nat → α) {g g' : Nat} (v : α) (h : g' ≠ g) : upd f g v g' = f g' := by simp [upd, h]

/-! ## the parts of the invariant read only parts of the state -/

theorem d_reqOK {s s' : Sys} {r : MmuReq} (hd : s'.drv = s.drv) (h : ReqOK s r) : ReqOK s' r := by
  obtain ⟨d, _, _, _, _, _, _⟩ := s'
  dsimp only at hd; subst hd
  exact ⟨h.pid, h.host, h.accNe, h.accNd, h.accLt, h.accIn, h.size, h.pagesNe, h.pagesNd, h.pagesLt, h.req⟩

theorem d_pagesOK {s s' : Sys} {r : MmuReq} (hd : s'.drv = s.drv) (h : PagesOK s r) : PagesOK s' r := by
  obtain ⟨d, _, _, _, _, _, _⟩ := s'
  dsimp only at hd; subst hd
  exact ⟨h.found, h.free⟩

theorem d_rehomed {s s' : Sys} {r : MmuReq} (hd : s'.drv = s.drv) (h : Rehomed s r) : Rehomed s' r := by
  obtain ⟨d, _, _, _, _, _, _⟩ := s'
  dsimp only at hd; subst hd
  exact ⟨h.log⟩

theorem d_mmuInv {s s' : Sys} {pc : List Nat} (hd : s'.drv = s.drv) (hs : s'.mmuSent = s.mmuSent)
    (hg : s'.mmuGot = s.mmuGot) (h : MmuInv s pc) : MmuInv s' pc := by
  obtain ⟨d, _, _, _, _, ms, mg⟩ := s'
  dsimp only at hd hs hg; subst hd; subst hs; subst hg
  exact ⟨h.lost, h.sent, h.ids, h.got, h.ans, h.one, h.fresh, h.cap⟩

theorem d_bcast {s s' : Sys} {p : PK} {r : MmuReq} {σ : Split} {loc : Nat → BLoc} (hd : s'.drv = s.drv)
    (hcp : s'.cp = s.cp) (hcm : s'.cm = s.cm) (h : Bcast s p r σ loc) : Bcast s' p r σ loc := by
  obtain ⟨d, cp, cm, _, _, _, _⟩ := s'
  dsimp only at hd hcp hcm; subst hd; subst hcp; subst hcm
  exact ⟨h.perm, h.toSend, h.gpuOut, h.gpuIn, h.pos, h.busy, h.idle⟩

theorem d_migOK {s s' : Sys} {r : MmuReq} {m : MigCmd} (hd : s'.drv = s.drv)
    (hsz : ∀ i, (s'.w.sys.mem i).size = (s.w.sys.mem i).size) (h : MigOK s r m) : MigOK s' r m := by
  obtain ⟨d, _, _, w, _, _, _⟩ := s'
  dsimp only at hd hsz; subst hd
  exact ⟨h.log, h.gpu, h.peer, h.size, by rw [hsz]; exact h.rd, by rw [hsz]; exact h.wr⟩

theorem d_framesIn {a : Alloc} {t t' : C19.Sys} (hsz : ∀ i, (t'.mem i).size = (t.mem i).size) (h : FramesIn a t) :
    FramesIn a t' := by
  intro d hd
  rw [hsz]
  exact h d hd

theorem d_migPh {s s' : Sys} {r : MmuReq} {fl fl' : Option (MigCmd × MigAt)} {ws ws' : WSt} (h : MigPh s r fl ws)
    (hd : s'.drv = s.drv) (hsz : ∀ i, (s'.w.sys.mem i).size = (s.w.sys.mem i).size)
    (h1 : fl'.isSome = fl.isSome) (h2 : flOut fl' = flOut fl) (h3 : flIn fl' = flIn fl)
    (h4 : ∀ m a, fl' = some (m, a) → ∃ a', fl = some (m, a'))
    (hb : ∀ m loc, fl' = some (m, .atG loc) →
      GS (.mig m.id) loc (flagsBefore (some .mig) s.drv.ngpu (accT r) m.gpu).1
        (flagsBefore (some .mig) s.drv.ngpu (accT r) m.gpu).2 (s'.cp m.gpu) (s'.cm m.gpu))
    (hi : ∀ g, (∀ m loc, fl' = some (m, .atG loc) → g ≠ m.gpu) →
      GIdle (flagsBefore (some .mig) s.drv.ngpu (accT r) g).1 (flagsBefore (some .mig) s.drv.ngpu (accT r) g).2
        (s'.cp g) (s'.cm g))
    (hw : flWs fl' ws') : MigPh s' r fl' ws' := by
  have q : ∀ m ∈ s.drv.toCP, MigOK s' r m := fun m hm => d_migOK hd hsz (h.queue m hm)
  have f : ∀ m a, fl' = some (m, a) → MigOK s' r m := fun m a e => by
    obtain ⟨a', e'⟩ := h4 m a e
    exact d_migOK hd hsz (h.fly m a' e')
  obtain ⟨d, cp, cm, w, _, _, _⟩ := s'
  dsimp only at hd hsz hb hi q f; subst hd
  exact ⟨h.toSend, q, f, by rw [h1]; exact h.one, by rw [h1]; exact h.ctr, h.pos, by rw [h2]; exact h.gpuOut,
    by rw [h3]; exact h.gpuIn, hb, hi, hw⟩

theorem d_phase_mig {s s' : Sys} {r : MmuReq} {fl' : Option (MigCmd × MigAt)} {ws' : WSt} (hd : s'.drv = s.drv)
    (hs : s'.mmuSent = s.mmuSent) (hg : s'.mmuGot = s.mmuGot)
    (a : s.drv.handling = true) (b : s.drv.cur = some r) (c : ReqOK s r) (d : Ctrs s.drv (some .mig) s.drv.mig)
    (mi : MmuInv s [r.id]) (re : Rehomed s r) (mp : MigPh s' r fl' ws') (wi : WorldInv s' ws') : Phase s' := by
  refine Phase.mig r fl' ws' ?_ ?_ (d_reqOK hd c) ?_ mp wi (d_mmuInv hd hs hg mi) (d_rehomed hd re)
  · rw [hd]; exact a
  · rw [hd]; exact b
  · rw [hd]; exact d

theorem d_inv {s s' : Sys} (h : Inv s) (hd : s'.drv = s.drv) (hcfg : ∀ g, CfgOK (s'.cp g))
    (hsz : ∀ i, (s'.w.sys.mem i).size = (s.w.sys.mem i).size) (hph : Phase s') : Inv s' := by
  have pe : ∀ r ∈ s.drv.mmuIn, ReqOK s' r ∧ PagesOK s' r ∧ r.id = s.drv.taken.length := fun r hr =>
    ⟨d_reqOK hd (h.pending r hr).1, d_pagesOK hd (h.pending r hr).2.1, (h.pending r hr).2.2⟩
  have fr : FramesIn s.drv.alloc s'.w.sys := d_framesIn hsz h.frames
  have rl : RangeOK s.drv.alloc ∧
      (∀ m ∈ s.drv.toCP, ∃ d, (d = 1 ∨ d = 2) ∧ s.drv.alloc.deviceOf m.rd = some d ∧
        m.rd + (1 <<< s.drv.alloc.lg) ≤ (s'.w.sys.mem (d - 1)).size) ∧
      (s.drv.one = true → ∃ d, (d = 1 ∨ d = 2) ∧ s.drv.alloc.deviceOf s.drv.oldF = some d ∧
        s.drv.oldF + (1 <<< s.drv.alloc.lg) ≤ (s'.w.sys.mem (d - 1)).size) := by
    refine ⟨h.rel.ranges, ?_, ?_⟩
    · intro m hm
      obtain ⟨d, a, b, c⟩ := h.rel.queued m hm
      exact ⟨d, a, b, by rw [hsz]; exact c⟩
    · intro ho
      obtain ⟨d, a, b, c⟩ := h.rel.flying ho
      exact ⟨d, a, b, by rw [hsz]; exact c⟩
  obtain ⟨d, cp, cm, w, _, _, _⟩ := s'
  dsimp only at hd hsz hcfg pe fr rl; subst hd
  exact ⟨hcfg, h.ng, h.caps, h.nf, fr, h.lg, h.logIds, pe, hph, ⟨rl.1, rl.2.1, rl.2.2⟩⟩

theorem d_cfg_upd {s : Sys} (h : ∀ g, CfgOK (s.cp g)) (g : Nat) (c' : Cp) (hc' : CfgOK c') :
    ∀ g', CfgOK (upd s.cp g c' g') := by
  intro g'
  unfold upd
  split
  · exact hc'
  · exact h g'

theorem d_cfg_pmcOut {c : Cp} (hc : CfgOK c) (l : List Sub) : CfgOK { c with pmcOut := l } :=
  ⟨hc.hCU, hc.hAT, hc.hTLB, hc.hCache, hc.capIn, hc.capDrv, hc.capRdma, hc.capPMC, hc.capCU, hc.capAT, hc.capTLB,
    hc.capCache, hc.small⟩

theorem d_cfg_pmcIn {c : Cp} (hc : CfgOK c) (l : List Sub) : CfgOK { c with pmcIn := l } :=
  ⟨hc.hCU, hc.hAT, hc.hTLB, hc.hCache, hc.capIn, hc.capDrv, hc.capRdma, hc.capPMC, hc.capCU, hc.capAT, hc.capTLB,
    hc.capCache, hc.small⟩

/-- a world state other than `none` occurs only while the command processor waits for the controller -/
theorem d_flWs_ne {fl : Option (MigCmd × MigAt)} {ws : WSt} (h : flWs fl ws) (hne : ws ≠ .none) :
    ∃ m, fl = some (m, .atG .pmcWait) ∧ (ws = .copying m.gpu m ∨ ws = .back m.gpu) := by
  cases fl with
  | none => exact absurd h hne
  | some p =>
    obtain ⟨m, a⟩ := p
    cases a with
    | sent => exact absurd h hne
    | bk => exact absurd h hne
    | atG loc =>
      cases loc with
      | pmcWait => exact ⟨m, rfl, h⟩
      | _ => exact absurd h hne

/-- in the migration phase a GPU is idle unless it serves the migrate command in flight -/
theorem d_mig_cases {s : Sys} {r : MmuReq} {fl : Option (MigCmd × MigAt)} {ws : WSt} (mp : MigPh s r fl ws) (g : Nat) :
    GIdle (flagsBefore (some .mig) s.drv.ngpu (accT r) g).1 (flagsBefore (some .mig) s.drv.ngpu (accT r) g).2
        (s.cp g) (s.cm g) ∨ ∃ m loc, fl = some (m, .atG loc) ∧ g = m.gpu := by
  by_cases hx : ∃ m loc, fl = some (m, .atG loc) ∧ g = m.gpu
  · exact Or.inr hx
  · exact Or.inl (mp.idle g fun m loc e hg => hx ⟨m, loc, e, hg⟩)

/-! ## the completion is delivered to the command processor -/

theorem inv_pmcBack {s : Sys} (h : Inv s) (g : Nat) : Inv (step s (.pmcBack g)) := by
  simp only [step]
  split
  · rename_i hc
    obtain ⟨hb, _⟩ := hc
    cases h.ph with
    | idle _ _ wi _ => have := wi.back g; simp only [WSt.backOf] at this; omega
    | bcast p r σ loc _ _ _ _ _ _ _ _ wi _ _ _ => have := wi.back g; simp only [WSt.backOf] at this; omega
    | mig r fl ws a b c d mp wi mi re =>
      have hws : ws = .back g := by
        have := wi.back g
        cases ws with
        | none => simp only [WSt.backOf] at this; omega
        | copying _ _ => simp only [WSt.backOf] at this; omega
        | back g' =>
          simp only [WSt.backOf] at this
          split at this
          · rename_i e; rw [e]
          · omega
      subst hws
      obtain ⟨m, hfl, hw⟩ := d_flWs_ne mp.ws (by intro e; cases e)
      subst hfl
      have hg : g = m.gpu := by
        rcases hw with e | e
        · cases e
        · cases e; rfl
      subst hg
      obtain ⟨_, hgs⟩ := busy_pmcBack (h.cfg m.gpu) (mp.busy m .pmcWait rfl)
      refine d_inv h rfl (d_cfg_upd h.cfg _ _ (d_cfg_pmcIn (h.cfg m.gpu) _)) (fun _ => rfl) ?_
      refine d_phase_mig (s := s) (fl' := some (m, .atG .pmcIn)) (ws' := .none) rfl rfl rfl a b c d mi re ?_ ?_
      · refine d_migPh mp rfl (fun _ => rfl) rfl rfl rfl (fun m' a' e => ⟨_, by cases e; rfl⟩) ?_ ?_ rfl
        · intro m' loc' e
          cases e
          show GS _ _ _ _ (upd s.cp m.gpu _ m.gpu) _
          rw [d_upd_same]
          exact hgs
        · intro g' hg'
          have hne : g' ≠ m.gpu := hg' m .pmcIn rfl
          show GIdle _ _ (upd s.cp m.gpu _ g') _
          rw [d_upd_ne _ _ hne]
          exact mp.idle g' (fun m' loc' e => by cases e; exact hne)
      · refine ⟨wi.reach, wi.live, ?_⟩
        intro g'
        have := wi.back g'
        show upd s.back m.gpu _ g' = 0
        simp only [WSt.backOf] at this
        have h0 := wi.back m.gpu
        simp only [WSt.backOf] at h0
        unfold upd
        split
        · simp at h0; omega
        · rename_i hne; simp [hne] at this; exact this
  · exact h

/-! ## the completion is collected from the controller -/

theorem d_no_ctlOut {s : Sys} {ws : WSt} (wi : WorldInv s ws) (hl : s.w.live = []) {g : Nat} (hg : g < 2)
    (hc : (s.w.sys.pmc g).ctlOut ≠ []) : False :=
  hc (d_ctlOut_nil wi.reach hl g hg)

theorem inv_pmcColl {s : Sys} (h : Inv s) (g : Nat) : Inv (step s (.pmcColl g)) := by
  simp only [step]
  split
  · rename_i hc
    obtain ⟨hg, hne⟩ := hc
    have hsz : ∀ i, ((s.w.step (.coll g)).sys.mem i).size = (s.w.sys.mem i).size := fun i => d_size_wstep _ _ _
    cases h.ph with
    | idle _ _ wi _ => exact (d_no_ctlOut wi wi.live hg hne).elim
    | bcast p r σ loc _ _ _ _ _ _ _ _ wi _ _ _ => exact (d_no_ctlOut wi wi.live hg hne).elim
    | mig r fl ws a b c d mp wi mi re =>
      cases ws with
      | none => exact (d_no_ctlOut wi wi.live hg hne).elim
      | back _ => exact (d_no_ctlOut wi wi.live hg hne).elim
      | copying g' m' =>
        obtain ⟨m, hfl, hw⟩ := d_flWs_ne mp.ws (by intro e; cases e)
        subst hfl
        have e : g' = m.gpu ∧ m' = m := by
          rcases hw with e | e
          · cases e; exact ⟨rfl, rfl⟩
          · cases e
        obtain ⟨e1, e2⟩ := e
        subst e1; subst e2
        obtain ⟨ℓ, hl, hp, _⟩ := wi.live
        obtain ⟨c0, rest, hco⟩ : ∃ c0 rest, (s.w.sys.pmc g).ctlOut = c0 :: rest := by
          cases hx : (s.w.sys.pmc g).ctlOut with
          | nil => exact absurd hx hne
          | cons c0 rest => exact ⟨c0, rest, rfl⟩
        obtain ⟨hpg, hl'⟩ := d_coll_live wi.reach hl hg hco
        have hgm : g = m'.gpu := by rw [← hpg, hp]
        subst hgm
        refine d_inv h rfl h.cfg hsz ?_
        refine d_phase_mig (s := s) (fl' := some (m', .atG .pmcWait)) (ws' := .back m'.gpu) rfl rfl rfl a b c d mi re ?_ ?_
        · exact d_migPh mp rfl hsz rfl rfl rfl (fun m1 a1 e => ⟨a1, e⟩) mp.busy mp.idle (Or.inr rfl)
        · refine ⟨WReach.step _ wi.reach (d_valid_coll _ _ hg), hl', ?_⟩
          intro g1
          have := wi.back g1
          have h0 := wi.back m'.gpu
          simp only [WSt.backOf] at this h0
          show upd s.back m'.gpu _ g1 = WSt.backOf (.back m'.gpu) g1
          simp only [WSt.backOf]
          unfold upd
          split
          · omega
          · exact this
  · exact h

/-! ## the honest moves inside the two-controller world -/

theorem d_worldInv_world {s : Sys} {ws : WSt} (wi : WorldInv s ws) (o : Op) (ho : o.honest = true)
    (hs : o.isSubmit = false) (hc : Op.isColl o = false) : WorldInv { s with w := s.w.step o } ws := by
  refine ⟨WReach.step o wi.reach (valid_of_honest _ o ho hs), ?_, wi.back⟩
  have e := d_live_step s.w o hs hc
  have := wi.live
  cases ws <;> simp only [liveOK] at this ⊢ <;> rw [e] <;> exact this

theorem inv_world {s : Sys} (h : Inv s) (o : Op) (ho : o.honest = true) (hs : o.isSubmit = false)
    (hc : Op.isColl o = false) : Inv (step s (.world o)) := by
  simp only [step]
  have hsz : ∀ i, ((s.w.step o).sys.mem i).size = (s.w.sys.mem i).size := fun i => d_size_wstep _ _ _
  refine d_inv h rfl h.cfg hsz ?_
  cases h.ph with
  | idle di hi wi mi => exact Phase.idle di hi (d_worldInv_world wi o ho hs hc) (d_mmuInv (s := s) rfl rfl rfl mi)
  | bcast p r σ loc hp a b c d e f bc wi mi pg rh =>
    exact Phase.bcast p r σ loc hp a b (d_reqOK (s := s) rfl c) d e f (d_bcast (s := s) rfl rfl rfl bc)
      (d_worldInv_world wi o ho hs hc) (d_mmuInv (s := s) rfl rfl rfl mi) (fun x => d_pagesOK (s := s) rfl (pg x))
      (fun x => d_rehomed (s := s) rfl (rh x))
  | mig r fl ws a b c d mp wi mi re =>
    exact d_phase_mig (s := s) rfl rfl rfl a b c d mi re
      (d_migPh mp rfl hsz rfl rfl rfl (fun m a e => ⟨a, e⟩) mp.busy mp.idle mp.ws) (d_worldInv_world wi o ho hs hc)

/-! ## the controller takes the request of its command processor -/

theorem d_take {s : Sys} (h : Inv s) {g : Nat} {x : Sub} {rest : List Sub} (hx : (s.cp g).pmcOut = x :: rest)
    {m : MigCmd} (hm : s.drv.migLog.find? (·.id == x.tag) = some m) :
    Inv { s with cp := upd s.cp g { s.cp g with pmcOut := rest },
                 w := s.w.step (.submit g m.rd m.wr m.size m.peer) } := by
  have hsz : ∀ i, ((s.w.step (.submit g m.rd m.wr m.size m.peer)).sys.mem i).size = (s.w.sys.mem i).size :=
    fun i => d_size_wstep _ _ _
  have idleC : ∀ {rq gq : Bool}, GIdle rq gq (s.cp g) (s.cm g) → False := fun hi => by
    have := (idle_drvOut hi).2.1
    rw [hx] at this; cases this
  cases h.ph with
  | idle _ hi _ _ => exact (idleC (hi g)).elim
  | bcast p r σ loc hp _ _ _ _ _ _ bc _ _ _ _ =>
    by_cases hin : g ∈ σ.atG
    · rcases busy_pmcOut (bc.busy g hin) with ⟨e, _⟩ | ⟨_, id, e, _⟩
      · rw [hx] at e; cases e
      · cases p <;> first | exact absurd rfl hp | (simp [cmdOf] at e)
    · exact (idleC (bc.idle g hin)).elim
  | mig r fl ws a b c d mp wi mi re =>
    rcases d_mig_cases mp g with hi | ⟨m', loc, hfl, hgm⟩
    · exact (idleC hi).elim
    · subst hfl; subst hgm
      rcases busy_pmcOut (mp.busy m' loc rfl) with ⟨e, _⟩ | ⟨hloc, id, e, hpo, hgs⟩
      · rw [hx] at e; cases e
      · subst hloc
        cases e
        rw [hx] at hpo
        obtain ⟨hx', hrest⟩ : x = ⟨.flush, 0, m'.id⟩ ∧ rest = [] := by simpa using hpo
        subst hx'; subst hrest
        have mo := mp.fly m' _ rfl
        have hmm : m = m' := by
          have := mo.log
          dsimp only at hm
          rw [this] at hm; cases hm; rfl
        subst hmm
        have hws : ws = .none := mp.ws
        subst hws
        have hl : s.w.live = [] := wi.live
        have hv : validSubmit s.w m.gpu m.rd m.wr m.size m.peer := by
          refine ⟨mo.gpu, mo.peer.1, ?_, ?_, mo.rd, mo.wr, ?_⟩
          · rw [mo.size, c.size]; exact h.lg.2
          · rw [mo.size, c.size]; exact h.lg.1
          · intro ℓ hℓ; rw [hl] at hℓ; cases hℓ
        refine d_inv h rfl (d_cfg_upd h.cfg _ _ (d_cfg_pmcOut (h.cfg m.gpu) _)) hsz ?_
        refine d_phase_mig (s := s) (fl' := some (m, .atG .pmcWait)) (ws' := .copying m.gpu m) rfl rfl rfl a b c d
          mi re ?_ ?_
        · refine d_migPh mp rfl hsz rfl rfl rfl (fun m1 a1 e => ⟨_, by cases e; rfl⟩) ?_ ?_ (Or.inl rfl)
          · intro m1 loc1 e
            cases e
            show GS _ _ _ _ (upd s.cp m.gpu _ m.gpu) _
            rw [d_upd_same]
            exact hgs
          · intro g' hg'
            have hne : g' ≠ m.gpu := hg' m .pmcWait rfl
            show GIdle _ _ (upd s.cp m.gpu _ g') _
            rw [d_upd_ne _ _ hne]
            exact mp.idle g' (fun m1 loc1 e => by cases e; exact hne)
        · refine ⟨WReach.step (.submit m.gpu m.rd m.wr m.size m.peer) wi.reach hv, ?_, wi.back⟩
          exact ⟨_, by rw [d_live_submit, hl]; rfl, rfl, rfl, rfl, rfl, rfl⟩

theorem inv_pmcTake {s : Sys} (h : Inv s) (g : Nat) : Inv (step s (.pmcTake g)) := by
  simp only [step]
  split
  · exact h
  · rename_i x rest hx
    split
    · exact h
    · rename_i m hm
      split
      · exact d_take h hx hm
      · exact h

end SY
end C19
