import MgpuModel.C07_Spec
/-! # C07 helper lemmas: little-endian byte strings, register-file slices, half-register masks -/
namespace C07

/-! ## leNat / toLE -/

@[simp] theorem toLE_length (k v : Nat) : (toLE k v).length = k := by
  induction k generalizing v with
  | zero => rfl
  | succ k ih => simp [toLE, ih]

@[simp] theorem zeros_length (n : Nat) : (zeros n).length = n := by simp [zeros]

theorem leNat_lt (bs : List UInt8) : leNat bs < 256 ^ bs.length := by
  induction bs with
  | nil => simp [leNat]
  | cons b bs ih =>
    have := b.toNat_lt
    simp only [leNat, List.length_cons, Nat.pow_succ]
    omega

theorem ofNat_byte (b : UInt8) (x : Nat) : UInt8.ofNat ((b.toNat + 256 * x) % 256) = b := by
  have : (b.toNat + 256 * x) % 256 = b.toNat := by have := b.toNat_lt; omega
  rw [this]; exact UInt8.ofNat_toNat

theorem toLE_leNat (bs : List UInt8) : toLE bs.length (leNat bs) = bs := by
  induction bs with
  | nil => rfl
  | cons b bs ih =>
    have hb := b.toNat_lt
    have hdiv : (b.toNat + 256 * leNat bs) / 256 = leNat bs := by omega
    simp only [List.length_cons, toLE, leNat, ofNat_byte, hdiv, ih]

theorem toLE_leNat' {k : Nat} (bs : List UInt8) (h : bs.length = k) : toLE k (leNat bs) = bs := by
  subst h; exact toLE_leNat bs

theorem leNat_toLE (k v : Nat) : leNat (toLE k v) = v % 256 ^ k := by
  induction k generalizing v with
  | zero => simp [toLE, leNat, Nat.mod_one]
  | succ k ih =>
    simp only [toLE, leNat, ih, Nat.pow_succ]
    have h1 : (UInt8.ofNat (v % 256)).toNat = v % 256 := by
      rw [UInt8.toNat_ofNat']; omega
    rw [h1]
    have hp : 0 < 256 ^ k := Nat.pow_pos (by omega)
    rw [Nat.mul_comm (256 ^ k) 256, Nat.mod_mul]

theorem leNat_append (a b : List UInt8) : leNat (a ++ b) = leNat a + 256 ^ a.length * leNat b := by
  induction a with
  | nil => simp [leNat]
  | cons x a ih =>
    simp only [List.cons_append, leNat, ih, List.length_cons, Nat.pow_succ]
    have : 256 ^ a.length * 256 * leNat b = 256 * (256 ^ a.length * leNat b) := by
      rw [Nat.mul_comm (256 ^ a.length) 256, Nat.mul_assoc]
    rw [this]
    omega

@[simp] theorem leNat_zeros (n : Nat) : leNat (zeros n) = 0 := by
  induction n with
  | zero => rfl
  | succ n ih => simp only [zeros, List.replicate_succ, leNat] at *; simp [ih]

theorem leNat_append_zeros (a : List UInt8) (n : Nat) : leNat (a ++ zeros n) = leNat a := by
  rw [leNat_append, leNat_zeros]; omega

theorem toLE_add (j k v : Nat) : toLE (j + k) v = toLE j v ++ toLE k (v / 256 ^ j) := by
  induction j generalizing v with
  | zero => simp [toLE]
  | succ j ih =>
    rw [Nat.add_right_comm]
    simp only [toLE, List.cons_append, ih, Nat.pow_succ, Nat.div_div_eq_div_mul]
    rw [Nat.mul_comm 256 (256 ^ j)]

theorem take_toLE (j k v : Nat) (h : j ≤ k) : (toLE k v).take j = toLE j v := by
  obtain ⟨d, rfl⟩ := Nat.exists_eq_add_of_le h
  rw [toLE_add, List.take_left' (toLE_length j v)]

theorem copyInto_of_length {n : Nat} (src : List UInt8) (h : src.length = n) : copyInto n src = src := by
  subst h; simp [copyInto, zeros]

@[simp] theorem copyInto_length (n : Nat) (src : List UInt8) : (copyInto n src).length = n := by
  simp [copyInto]; omega

/-! ## register-file slices -/

@[simp] theorem rd_length (f : File) (off n : Nat) : (rd f off n).length = n := by simp [rd]

@[simp] theorem size_wr (f : File) (off : Nat) (d : List UInt8) : (wr f off d).size = f.size := by
  induction d generalizing f off with
  | nil => rfl
  | cons b bs ih => simp [wr, ih]

theorem get_set (f : File) (i p : Nat) (b : UInt8) :
    get (f.setIfInBounds i b) p = if i = p ∧ i < f.size then b else get f p := by
  simp only [get, Array.getD_eq_getD_getElem?, Array.getElem?_setIfInBounds]
  by_cases h : i = p
  · subst h
    by_cases h2 : i < f.size
    · simp [h2]
    · simp [h2]
  · simp [h]

/-- a byte outside the written range is unchanged -/
theorem get_wr_out (f : File) (off : Nat) (d : List UInt8) (p : Nat) (h : p < off ∨ off + d.length ≤ p) :
    get (wr f off d) p = get f p := by
  induction d generalizing f off with
  | nil => rfl
  | cons b bs ih =>
    simp only [wr]
    rw [ih]
    · rw [get_set]
      have : ¬ (off = p ∧ off < f.size) := by
        simp only [List.length_cons] at h; omega
      simp [this]
    · simp only [List.length_cons] at h; omega

/-- a byte inside the written range holds the written byte -/
theorem get_wr_in (f : File) (off : Nat) (d : List UInt8) (p : Nat) (h1 : off ≤ p) (h2 : p < off + d.length)
    (hs : off + d.length ≤ f.size) : get (wr f off d) p = d.getD (p - off) 0 := by
  induction d generalizing f off with
  | nil => simp at h2; omega
  | cons b bs ih =>
    simp only [wr, List.length_cons] at *
    by_cases hp : p = off
    · subst hp
      rw [get_wr_out _ _ _ _ (Or.inl (by omega)), get_set]
      have : p < f.size := by omega
      simp [this]
    · rw [ih (f.setIfInBounds off b) (off + 1) (by omega) (by omega) (by simp; omega)]
      have : p - off = (p - (off + 1)) + 1 := by omega
      rw [this, List.getD_cons_succ]

theorem rd_wr_disjoint (f : File) (off : Nat) (d : List UInt8) (p n : Nat)
    (h : p + n ≤ off ∨ off + d.length ≤ p) : rd (wr f off d) p n = rd f p n := by
  simp only [rd]
  apply List.map_congr_left
  intro k hk
  have := List.mem_range.mp hk
  exact get_wr_out f off d (p + k) (by omega)

theorem rd_wr_sub (f : File) (off : Nat) (d : List UInt8) (p n : Nat) (h1 : off ≤ p)
    (h2 : p + n ≤ off + d.length) (hs : off + d.length ≤ f.size) :
    rd (wr f off d) p n = (d.drop (p - off)).take n := by
  apply List.ext_getElem
  · simp; omega
  · intro i hi1 hi2
    simp only [rd_length] at hi1
    simp only [rd, List.getElem_map, List.getElem_range, List.getElem_take, List.getElem_drop]
    rw [get_wr_in f off d (p + i) (by omega) (by omega) hs]
    have hlt : p + i - off < d.length := by omega
    simp only [List.getD_eq_getElem?_getD, List.getElem?_eq_getElem hlt, Option.getD_some]
    congr 1; omega

theorem rd_wr_same (f : File) (off : Nat) (d : List UInt8) (hs : off + d.length ≤ f.size) :
    rd (wr f off d) off d.length = d := by
  rw [rd_wr_sub f off d off d.length (Nat.le_refl _) (Nat.le_refl _) hs]; simp

theorem rd_add (f : File) (p m n : Nat) : rd f p (m + n) = rd f p m ++ rd f (p + m) n := by
  simp only [rd, List.range_add, List.map_append, List.map_map]
  congr 1
  apply List.map_congr_left
  intro k _
  simp [Nat.add_assoc]

theorem rd_zero (f : File) (p : Nat) : rd f p 0 = [] := rfl

/-! ## halves of a 64-bit register -/

theorem lo32_mk64 (lo hi : Nat) : lo32 (mk64 lo hi) = lo % 4294967296 := by
  simp only [lo32, mk64, UInt64.toNat_ofNat']; omega

theorem hi32_mk64 (lo hi : Nat) : hi32 (mk64 lo hi) = hi % 4294967296 := by
  simp only [hi32, mk64, UInt64.toNat_ofNat', Nat.shiftRight_eq_div_pow]; omega

theorem mk64_lo_hi (v : UInt64) : mk64 (lo32 v) (hi32 v) = v := by
  have hv := v.toNat_lt
  apply UInt64.toNat_inj.mp
  simp only [mk64, lo32, hi32, UInt64.toNat_ofNat', Nat.shiftRight_eq_div_pow]
  omega

theorem testBit_maskHi (i : Nat) : Nat.testBit MASK_HI i = (decide (32 ≤ i) && decide (i < 64)) := by
  have : MASK_HI = (2 ^ 32 - 1) <<< 32 := by decide
  rw [this, Nat.testBit_shiftLeft, Nat.testBit_two_pow_sub_one]
  by_cases h : 32 ≤ i <;> simp [h] <;> omega

theorem and_maskHi (v : Nat) (hv : v < 2 ^ 64) : v &&& MASK_HI = (v >>> 32) <<< 32 := by
  apply Nat.eq_of_testBit_eq
  intro i
  rw [Nat.testBit_and, testBit_maskHi, Nat.testBit_shiftLeft, Nat.testBit_shiftRight]
  by_cases h : 32 ≤ i
  · by_cases h2 : i < 64
    · have : 32 + (i - 32) = i := by omega
      simp [h, h2, this]
    · have : 32 + (i - 32) = i := by omega
      have hz : v.testBit i = false :=
        Nat.testBit_lt_two_pow (Nat.lt_of_lt_of_le hv (Nat.pow_le_pow_right (by omega) (by omega)))
      simp [h, h2, this, hz]
  · simp [h]

theorem and_maskLo (v : Nat) : v &&& MASK_LO = v % 4294967296 := by
  have : MASK_LO = 2 ^ 32 - 1 := by decide
  rw [this, Nat.and_two_pow_sub_one_eq_mod]

theorem setLo_eq (v : UInt64) (x : Nat) (hx : x < 4294967296) : setLo v x = mk64 x (hi32 v) := by
  have hv := v.toNat_lt
  apply UInt64.toNat_inj.mp
  simp only [setLo, mk64, hi32, UInt64.toNat_ofNat']
  rw [and_maskHi _ hv, ← Nat.shiftLeft_add_eq_or_of_lt (by omega), Nat.shiftLeft_eq,
    Nat.shiftRight_eq_div_pow]
  omega

theorem setHi_eq (v : UInt64) (x : Nat) (_hx : x < 4294967296) : setHi v x = mk64 (lo32 v) x := by
  apply UInt64.toNat_inj.mp
  simp only [setHi, mk64, lo32, UInt64.toNat_ofNat']
  rw [and_maskLo, Nat.or_comm, ← Nat.shiftLeft_add_eq_or_of_lt (by omega), Nat.shiftLeft_eq]
  omega

/-- the timing accessor's form of the high-half write -/
theorem or_hi_eq (v : UInt64) (x : Nat) (hx : x < 4294967296) :
    UInt64.ofNat ((x <<< 32) ||| (v.toNat &&& MASK_LO)) = mk64 (lo32 v) x := by
  rw [← setHi_eq v x hx, setHi, Nat.or_comm]

theorem leNat4_lt (d : List UInt8) (h : d.length = 4) : leNat d < 4294967296 := by
  have := leNat_lt d; rw [h] at this; omega

theorem leNat_take_lt (d : List UInt8) : leNat (d.take 4) < 4294967296 := by
  have := leNat_lt (d.take 4)
  have h2 : (d.take 4).length ≤ 4 := by simp; omega
  have : 256 ^ (d.take 4).length ≤ 256 ^ 4 := Nat.pow_le_pow_right (by omega) h2
  omega

/-- an 8-byte string is the pair of its two 4-byte halves -/
theorem ofNat_leNat8 (d : List UInt8) (h : d.length = 8) :
    UInt64.ofNat (leNat d) = mk64 (leNat (d.take 4)) (leNat (d.drop 4)) := by
  have hd : d = d.take 4 ++ d.drop 4 := (List.take_append_drop 4 d).symm
  have h1 : (d.take 4).length = 4 := by simp; omega
  have h2 : (d.drop 4).length = 4 := by simp; omega
  have l1 := leNat4_lt _ h1
  have l2 := leNat4_lt _ h2
  apply UInt64.toNat_inj.mp
  simp only [mk64, UInt64.toNat_ofNat']
  conv => lhs; rw [hd, leNat_append, h1]
  omega

theorem toLE8_eq (v : UInt64) : toLE 8 v.toNat = toLE 4 (lo32 v) ++ toLE 4 (hi32 v) := by
  have hv := v.toNat_lt
  have : toLE 8 v.toNat = toLE (4 + 4) v.toNat := rfl
  rw [this, toLE_add]
  have e1 : toLE 4 v.toNat = toLE 4 (lo32 v) := by
    have a := leNat_toLE 4 v.toNat
    have b := leNat_toLE 4 (lo32 v)
    have : leNat (toLE 4 v.toNat) = leNat (toLE 4 (lo32 v)) := by
      rw [a, b, lo32]; omega
    have c := toLE_leNat' (toLE 4 v.toNat) (toLE_length 4 _)
    have d := toLE_leNat' (toLE 4 (lo32 v)) (toLE_length 4 _)
    rw [this] at c
    exact c.symm.trans d
  have e2 : toLE 4 (v.toNat / 256 ^ 4) = toLE 4 (hi32 v) := by
    have : v.toNat / 256 ^ 4 = hi32 v := by
      simp only [hi32, Nat.shiftRight_eq_div_pow]; omega
    rw [this]
  rw [e1, e2]

end C07
