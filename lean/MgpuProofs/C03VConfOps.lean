import MgpuProofs.C03VConf
import MgpuProofs.C03SBits
/-! # C03 (vector half) — the Go idioms of the translated lane bodies equal the ISA lane functions

One lemma per idiom the two ALUs use to compute an integer lane result (`uint64` arithmetic with a 32-bit mask
afterwards, carries as `sum > 0xffffffff`, borrows as wrap-around of the 64-bit difference, `>=` written as `!(<)`,
24-bit sign extension by `bitops.SignExt(bitops.ExtractBitsFromU64(·,0,23),23)` or by or-ing 0xff000000, bit-field
extraction with and without the `offset+width < 32` special case, …) stated against the function of
`MgpuModel/C03V_Int.lean` the specification uses for that opcode. All operands are universally quantified. -/
namespace C03V.Conf
open C03V C03V.I
open C06 (b2bv)
set_option linter.unusedSimpArgs false

theorem b2bv_toNat (c : Bool) : (b2bv c).toNat = c.toNat := by cases c <;> rfl

/-! ## widths -/
theorem sw16_sw32 (x : BitVec 64) : (x.setWidth 32).setWidth 16 = x.setWidth 16 :=
  BitVec.setWidth_setWidth_of_le x (by omega)
theorem sw16_and_mask (x : BitVec 64) : (x &&& 65535#64).setWidth 16 = x.setWidth 16 := by
  rw [C03S.and_mask16]; apply BitVec.eq_of_toNat_eq; simp

/-! ## compares -/
theorem ult64_zext (x y : W) : BitVec.ult (x.setWidth 64) (y.setWidth 64) = BitVec.ult x y := by
  apply Bool.eq_iff_iff.mpr
  simp only [BitVec.ult, decide_eq_true_eq, BitVec.toNat_setWidth]
  have := x.isLt; have := y.isLt; omega
theorem ule64_zext (x y : W) : BitVec.ule (x.setWidth 64) (y.setWidth 64) = BitVec.ule x y := by
  apply Bool.eq_iff_iff.mpr
  simp only [BitVec.ule, decide_eq_true_eq, BitVec.toNat_setWidth]
  have := x.isLt; have := y.isLt; omega
theorem beq64_zext (x y : W) : (x.setWidth 64 == y.setWidth 64) = (x == y) := by
  apply Bool.eq_iff_iff.mpr
  simp only [beq_iff_eq]
  constructor
  · intro h
    have := congrArg (BitVec.setWidth 32) h
    simpa using this
  · intro h; rw [h]
theorem bne64_zext (x y : W) : (x.setWidth 64 != y.setWidth 64) = (x != y) := by
  simp only [bne, beq64_zext]

theorem sle_eq {n} (x y : BitVec n) : BitVec.sle x y = (BitVec.slt x y || x == y) := by
  apply Bool.eq_iff_iff.mpr
  simp only [BitVec.sle, BitVec.slt, Bool.or_eq_true, decide_eq_true_eq, beq_iff_eq]
  constructor
  · intro h
    by_cases he : x.toInt = y.toInt
    · exact Or.inr (BitVec.eq_of_toInt_eq he)
    · exact Or.inl (by omega)
  · rintro (h | h)
    · omega
    · rw [h]; omega
theorem ule_eq {n} (x y : BitVec n) : BitVec.ule x y = (BitVec.ult x y || x == y) := by
  apply Bool.eq_iff_iff.mpr
  simp only [BitVec.ule, BitVec.ult, Bool.or_eq_true, decide_eq_true_eq, beq_iff_eq]
  constructor
  · intro h
    by_cases he : x.toNat = y.toNat
    · exact Or.inr (BitVec.eq_of_toNat_eq he)
    · exact Or.inl (by omega)
  · rintro (h | h)
    · omega
    · rw [h]; omega
theorem sgt_eq {n} (x y : BitVec n) : BitVec.slt y x = !(BitVec.slt x y || x == y) := by
  rw [← sle_eq]; simp only [BitVec.sle, BitVec.slt]
  apply Bool.eq_iff_iff.mpr; simp only [decide_eq_true_eq, Bool.not_eq_true', decide_eq_false_iff_not]; omega
theorem sge_eq {n} (x y : BitVec n) : BitVec.sle y x = !BitVec.slt x y := by
  simp only [BitVec.sle, BitVec.slt]
  apply Bool.eq_iff_iff.mpr; simp only [decide_eq_true_eq, Bool.not_eq_true', decide_eq_false_iff_not]; omega
theorem ugt_eq {n} (x y : BitVec n) : BitVec.ult y x = !(BitVec.ult x y || x == y) := by
  rw [← ule_eq]; simp only [BitVec.ule, BitVec.ult]
  apply Bool.eq_iff_iff.mpr; simp only [decide_eq_true_eq, Bool.not_eq_true', decide_eq_false_iff_not]; omega
theorem uge_eq {n} (x y : BitVec n) : BitVec.ule y x = !BitVec.ult x y := by
  simp only [BitVec.ule, BitVec.ult]
  apply Bool.eq_iff_iff.mpr; simp only [decide_eq_true_eq, Bool.not_eq_true', decide_eq_false_iff_not]; omega

/-- the eight integer relations of `cmpI` in the forms the handlers write them -/
theorem cmpI_lt {n} (x y : BitVec n) : cmpI 1 x y = BitVec.slt x y := rfl
theorem cmpI_eq {n} (x y : BitVec n) : cmpI 2 x y = (x == y) := rfl
theorem cmpI_le {n} (x y : BitVec n) : cmpI 3 x y = BitVec.sle x y := by rw [sle_eq]; rfl
theorem cmpI_gt {n} (x y : BitVec n) : cmpI 4 x y = BitVec.slt y x := by rw [sgt_eq]; rfl
theorem cmpI_ne {n} (x y : BitVec n) : cmpI 5 x y = (x != y) := rfl
theorem cmpI_ge {n} (x y : BitVec n) : cmpI 6 x y = BitVec.sle y x := by rw [sge_eq]; rfl
theorem cmpU_f {n} (x y : BitVec n) : cmpU 0 x y = false := rfl
theorem cmpU_lt {n} (x y : BitVec n) : cmpU 1 x y = BitVec.ult x y := rfl
theorem cmpU_eq {n} (x y : BitVec n) : cmpU 2 x y = (x == y) := rfl
theorem cmpU_le {n} (x y : BitVec n) : cmpU 3 x y = BitVec.ule x y := by rw [ule_eq]; rfl
theorem cmpU_gt {n} (x y : BitVec n) : cmpU 4 x y = BitVec.ult y x := by rw [ugt_eq]; rfl
theorem cmpU_ne {n} (x y : BitVec n) : cmpU 5 x y = (x != y) := rfl
theorem cmpU_ge {n} (x y : BitVec n) : cmpU 6 x y = BitVec.ule y x := by rw [uge_eq]; rfl
theorem cmpU_t {n} (x y : BitVec n) : cmpU 7 x y = true := rfl

/-! ## min / max -/
theorem maxI_alt (x y : W) : (if BitVec.slt y x then x else y) = maxI x y := by
  simp only [maxI, BitVec.slt]
  by_cases h1 : y.toInt < x.toInt
  · have h2 : ¬ x.toInt < y.toInt := by omega
    simp [h1, h2]
  · by_cases h2 : x.toInt < y.toInt
    · simp [h1, h2]
    · have : x = y := BitVec.eq_of_toInt_eq (by omega)
      simp [this]
theorem minI_alt (x y : W) : (if BitVec.slt y x then y else x) = minI x y := by
  simp only [minI, BitVec.slt]
  by_cases h1 : y.toInt < x.toInt
  · have h2 : ¬ x.toInt < y.toInt := by omega
    simp [h1, h2]
  · by_cases h2 : x.toInt < y.toInt
    · simp [h1, h2]
    · have : x = y := BitVec.eq_of_toInt_eq (by omega)
      simp [this]
theorem maxU_alt (x y : W) : (if BitVec.ult y x then x else y) = maxU x y := by
  simp only [maxU, BitVec.ult]
  by_cases h1 : y.toNat < x.toNat
  · have h2 : ¬ x.toNat < y.toNat := by omega
    simp [h1, h2]
  · by_cases h2 : x.toNat < y.toNat
    · simp [h1, h2]
    · have : x = y := BitVec.eq_of_toNat_eq (by omega)
      simp [this]
theorem minU_alt (x y : W) : (if BitVec.ult y x then y else x) = minU x y := by
  simp only [minU, BitVec.ult]
  by_cases h1 : y.toNat < x.toNat
  · have h2 : ¬ x.toNat < y.toNat := by omega
    simp [h1, h2]
  · by_cases h2 : x.toNat < y.toNat
    · simp [h1, h2]
    · have : x = y := BitVec.eq_of_toNat_eq (by omega)
      simp [this]
theorem maxU_alt_le (x y : W) : (if BitVec.ule y x then x else y) = maxU x y := by
  simp only [maxU, uge_eq]
  cases BitVec.ult x y <;> rfl

/-- `dst := a; if b < dst {dst = b}; if c < dst {dst = c}` -/
theorem min3I_alt (x y z : W) :
    (if BitVec.slt y x then (if BitVec.slt z y then z else y) else (if BitVec.slt z x then z else x)) = min3I x y z := by
  simp only [min3I, ← minI_alt]
  split <;> rfl
theorem min3U_alt (x y z : W) :
    (if BitVec.ult y x then (if BitVec.ult z y then z else y) else (if BitVec.ult z x then z else x)) = min3U x y z := by
  simp only [min3U, ← minU_alt]
  split <;> rfl
theorem max3I_alt (x y z : W) :
    (if BitVec.slt x y then (if BitVec.slt y z then z else y) else (if BitVec.slt x z then z else x)) = max3I x y z := by
  simp only [max3I, maxI]
  split <;> rfl
theorem max3U_alt (x y z : W) :
    (if BitVec.ult x y then (if BitVec.ult y z then z else y) else (if BitVec.ult x z then z else x)) = max3U x y z := by
  simp only [max3U, maxU]
  split <;> rfl

/-! ## shifts -/
theorem shl_rev (x y : W) : y <<< (x &&& 31#32).toNat = lshlrev x y := by simp [lshlrev]
theorem shr_rev (x y : W) : y >>> (x &&& 31#32).toNat = lshrrev x y := by simp [lshrrev]
theorem ashr_rev (x y : W) : y.sshiftRight (x &&& 31#32).toNat = ashrrev x y := rfl

/-- GCN3 `v_lshrrev_b32` shifts the 64-bit `ReadOperand` values: correct when SRC1 is a zero-extended dword -/
theorem shr_rev64 (X Y : BitVec 64) (hY : Y.toNat < 2 ^ 32) :
    (Y >>> (X &&& 31#64).toNat).setWidth 32 = lshrrev (X.setWidth 32) (Y.setWidth 32) := by
  apply BitVec.eq_of_toNat_eq
  simp only [lshrrev, BitVec.toNat_setWidth, BitVec.toNat_ushiftRight, C03S.and31_toNat, C03S.and31_toNat',
    BitVec.ushiftRight_eq', Nat.shiftRight_eq_div_pow]
  have h1 : Y.toNat / 2 ^ (X.toNat % 2 ^ 32 % 32) ≤ Y.toNat := Nat.div_le_self _ _
  rw [Nat.mod_eq_of_lt (by omega), Nat.mod_eq_of_lt hY]

theorem sw16_and15 (X : BitVec 64) : (X.setWidth 16 &&& 15#16).toNat = ((X.setWidth 32) &&& 15#32).toNat := by
  simp only [BitVec.toNat_and, BitVec.toNat_setWidth, BitVec.toNat_ofNat]
  have h : ∀ n : Nat, n &&& 15 = n % 16 := fun n => Nat.and_two_pow_sub_one_eq_mod n 4
  simp only [show (15 % 2 ^ 16) = 15 from rfl, show (15 % 2 ^ 32) = 15 from rfl, h]
  omega
theorem shl16_rev (X Y : BitVec 64) :
    (Y.setWidth 16 <<< (X.setWidth 16 &&& 15#16).toNat).setWidth 32 = lshlrev16 (X.setWidth 32) (Y.setWidth 32) := by
  simp only [lshlrev16, sw16_sw32, sw16_and15, BitVec.shiftLeft_eq']
theorem add16 (X Y : BitVec 64) : (X.setWidth 16 + Y.setWidth 16).setWidth 32 = addU16 (X.setWidth 32) (Y.setWidth 32) := by
  simp only [addU16, sw16_sw32]

/-! ## add / sub with carry -/
theorem add_carry64 (x y : W) : BitVec.ult 4294967295#64 (x.setWidth 64 + y.setWidth 64) = (addCo x y).2 := by
  simp only [addCo]
  apply Bool.eq_iff_iff.mpr
  simp only [BitVec.ult, decide_eq_true_eq, BitVec.toNat_add, BitVec.toNat_setWidth, BitVec.toNat_ofNat]
  have := x.isLt; have := y.isLt
  omega
theorem add_dst64 (x y : W) : (x.setWidth 64 + y.setWidth 64).setWidth 32 = x + y := by
  rw [sw32_add]; simp

theorem addc_dst64 (x y : W) (c : Bool) :
    (x.setWidth 64 + y.setWidth 64 + b2bv c).setWidth 32 = (addcCo x y c).1 := by
  apply BitVec.eq_of_toNat_eq
  cases c <;> simp [addcCo, b2bv, BitVec.toNat_add] <;> omega
theorem addc_carry64 (x y : W) (c : Bool) :
    BitVec.ult 4294967295#64 (x.setWidth 64 + y.setWidth 64 + b2bv c) = (addcCo x y c).2 := by
  apply Bool.eq_iff_iff.mpr
  have := x.isLt; have := y.isLt
  cases c <;>
  simp only [addcCo, b2bv, BitVec.ult, decide_eq_true_eq, BitVec.toNat_add, BitVec.toNat_setWidth, BitVec.toNat_ofNat,
    Bool.or_eq_true, if_true, if_false, Bool.false_eq_true] <;> omega

theorem sub_dst64 (x y : W) : (x.setWidth 64 - y.setWidth 64).setWidth 32 = x - y := by
  rw [sw32_sub]; simp
/-- borrow as wrap-around of the 64-bit difference (`diff > 0xffffffff`) -/
theorem sub_borrow64 (x y : W) : BitVec.ult 4294967295#64 (x.setWidth 64 - y.setWidth 64) = BitVec.ult x y := by
  apply Bool.eq_iff_iff.mpr
  have := x.isLt; have := y.isLt
  simp only [BitVec.ult, decide_eq_true_eq, BitVec.toNat_sub, BitVec.toNat_setWidth, BitVec.toNat_ofNat]
  omega

theorem subb_dst64 (x y : W) (c : Bool) :
    (x.setWidth 64 - y.setWidth 64 - b2bv c).setWidth 32 = (subbCo x y c).1 := by
  apply BitVec.eq_of_toNat_eq
  have := x.isLt; have := y.isLt
  cases c <;> simp [subbCo, b2bv, BitVec.toNat_sub] <;> omega
/-- borrow as `src0 < src1 + borrowIn` in 64 bits -/
theorem subb_borrow_lt (x y : W) (c : Bool) :
    BitVec.ult (x.setWidth 64) (y.setWidth 64 + b2bv c) = (subbCo x y c).2 := by
  apply Bool.eq_iff_iff.mpr
  have := x.isLt; have := y.isLt
  cases c <;>
  simp only [subbCo, b2bv, BitVec.ult, decide_eq_true_eq, BitVec.toNat_add, BitVec.toNat_sub, BitVec.toNat_setWidth,
    BitVec.toNat_ofNat, Bool.or_eq_true, if_true, if_false, Bool.false_eq_true] <;> omega
/-- borrow as wrap-around of the 64-bit difference -/
theorem subb_borrow_wrap (x y : W) (c : Bool) :
    BitVec.ult 4294967295#64 (x.setWidth 64 - y.setWidth 64 - b2bv c) = (subbCo x y c).2 := by
  apply Bool.eq_iff_iff.mpr
  have := x.isLt; have := y.isLt
  cases c <;>
  simp only [subbCo, b2bv, BitVec.ult, decide_eq_true_eq, BitVec.toNat_add, BitVec.toNat_sub, BitVec.toNat_setWidth,
    BitVec.toNat_ofNat, Bool.or_eq_true, if_true, if_false, Bool.false_eq_true] <;> omega

/-! ## multiplies -/
theorem mulhi64 (x y : W) : ((x.setWidth 64 * y.setWidth 64) >>> (32#64).toNat).setWidth 32 = mulHiU x y := rfl

theorem zext24_shifts (x : W) : (x <<< (8#64).toNat) >>> (8#64).toNat = zext24 x := by
  apply BitVec.eq_of_getLsbD_eq
  intro i hi
  have h8 : (8#64).toNat = 8 := rfl
  have hm : (16777215#32) = (1#32 <<< 24) - 1#32 := by decide
  simp only [h8, zext24, hm, BitVec.getLsbD_ushiftRight, BitVec.getLsbD_shiftLeft, BitVec.getLsbD_and,
    C03S.getLsbD_mask]
  by_cases h : i < 24
  · have : 8 + i < 32 := by omega
    have h2 : ¬ 8 + i < 8 := by omega
    simp [h, this, h2, hi]
  · have : ¬ 8 + i < 32 := by omega
    simp [h, this]
theorem zext24_mask (x : W) : x &&& 16777215#32 = zext24 x := rfl

theorem getLsbD_sext24 (x : W) (i : Nat) (hi : i < 32) :
    (sext24 x).getLsbD i = if i < 24 then x.getLsbD i else x.getLsbD 23 := by
  simp only [sext24, BitVec.getLsbD_signExtend, BitVec.getLsbD_setWidth, BitVec.msb_eq_getLsbD_last]
  by_cases h : i < 24 <;> simp [h, hi]

/-- CDNA3 sign-extends the 24-bit field by testing bit 23 and or-ing 0xff000000 -/
theorem sext24_or (x : W) :
    (if (x &&& 16777215#32 &&& 8388608#32) != 0#32 then x &&& 16777215#32 ||| 4278190080#32 else x &&& 16777215#32)
      = sext24 x := by
  have hb : 8388608#32 = 1#32 <<< 23 := by decide
  have hm : (16777215#32) = (1#32 <<< 24) - 1#32 := by decide
  have hh : ∀ i, i < 32 → (4278190080#32).getLsbD i = decide (24 ≤ i) := by decide
  rw [hb, C03S.and_onebit _ 23 (by omega)]
  apply BitVec.eq_of_getLsbD_eq
  intro i hi
  rw [getLsbD_sext24 x i hi]
  have h23 : (x &&& 16777215#32).getLsbD 23 = x.getLsbD 23 := by
    simp [hm, BitVec.getLsbD_and, C03S.getLsbD_mask]
  rw [h23]
  by_cases hx : x.getLsbD 23 = true
  · simp only [hx, if_true, BitVec.getLsbD_or, BitVec.getLsbD_and, hm, C03S.getLsbD_mask, hh i hi]
    by_cases h : i < 24 <;> simp [h, hi] <;> omega
  · simp only [hx, Bool.false_eq_true, if_false, BitVec.getLsbD_and, hm, C03S.getLsbD_mask]
    have hx' : x.getLsbD 23 = false := by simpa using hx
    by_cases h : i < 24 <;> simp [h, hi, hx']

/-- GCN3 (and CDNA3 `v_mad_i32_i24`) sign-extend the 24-bit field with the `bitops` helpers -/
theorem sext24_go (X : BitVec 64) :
    BitVec.setWidth 32 (C06.Go.signExt (C06.Go.extractBitsU64 X 0#64 23#64) 23#64) = sext24 (X.setWidth 32) := by
  have e : C06.Go.extractBitsU64 X 0#64 23#64 = X &&& 16777215#64 := by
    simp only [C06.Go.extractBitsU64]
    have : ((1#64 <<< (23#64 - 0#64 + 1#64).toNat) - 1#64) <<< (0#64).toNat = 16777215#64 := by decide
    rw [this]
    have h0 : (0#64).toNat = 0 := rfl
    simp [h0]
  have m : ~~~((1#64 <<< (23#64 + 1#64).toNat) - 1#64) = ~~~((1#64 <<< 24) - 1#64) := by decide
  have h23 : (23#64).toNat = 23 := rfl
  have hm : (16777215#64) = (1#64 <<< 24) - 1#64 := by decide
  rw [e]
  simp only [C06.Go.signExt, m, h23, C06.val_shr_and _ _ (show 23 < 64 by omega)]
  have hs : BitVec.ult 0#64 (b2bv ((X &&& 16777215#64).getLsbD 23)) = X.getLsbD 23 := by
    have : (X &&& 16777215#64).getLsbD 23 = X.getLsbD 23 := by
      simp [hm, BitVec.getLsbD_and, C03S.getLsbD_mask]
    rw [this]; cases X.getLsbD 23 <;> rfl
  rw [hs]
  apply BitVec.eq_of_getLsbD_eq
  intro i hi
  rw [getLsbD_sext24 _ i hi]
  have hi64 : i < 64 := by omega
  by_cases hx : X.getLsbD 23 = true
  · simp only [hx, if_true, BitVec.getLsbD_setWidth, BitVec.getLsbD_or, BitVec.getLsbD_and, BitVec.getLsbD_not, hm,
      C03S.getLsbD_mask]
    by_cases h : i < 24 <;> simp [h, hi, hi64, hx]
  · have hx' : X.getLsbD 23 = false := by simpa using hx
    simp only [hx', Bool.false_eq_true, if_false, BitVec.getLsbD_setWidth, BitVec.getLsbD_and, BitVec.getLsbD_not, hm,
      C03S.getLsbD_mask]
    by_cases h : i < 24 <;> simp [h, hi, hi64, hx']

/-! ## 64-bit forms -/
theorem and63_toNat (X : BitVec 64) : (X &&& 63#64).toNat = (X.setWidth 32 &&& 63#32).toNat := by
  simp only [BitVec.toNat_and, BitVec.toNat_setWidth, BitVec.toNat_ofNat]
  have h : ∀ n : Nat, n &&& 63 = n % 64 := fun n => Nat.and_two_pow_sub_one_eq_mod n 6
  simp only [show (63 % 2 ^ 64) = 63 from rfl, show (63 % 2 ^ 32) = 63 from rfl, h]
  omega
theorem shl_rev64 (X Y : BitVec 64) : Y <<< (X &&& 63#64).toNat = lshlrev64 (X.setWidth 32) Y := by
  simp only [lshlrev64, and63_toNat, BitVec.shiftLeft_eq']
theorem ashr_rev64 (X Y : BitVec 64) : Y.sshiftRight (X &&& 63#64).toNat = ashrrev64 (X.setWidth 32) Y := by
  simp only [ashrrev64, and63_toNat]
theorem and63_lt8 (x : W) (h : (x &&& 63#32).toNat < 8) : (x &&& 63#32).toNat = (x &&& 7#32).toNat := by
  have h63 : ∀ n : Nat, n &&& 63 = n % 64 := fun n => Nat.and_two_pow_sub_one_eq_mod n 6
  have h7 : ∀ n : Nat, n &&& 7 = n % 8 := fun n => Nat.and_two_pow_sub_one_eq_mod n 3
  simp only [BitVec.toNat_and, BitVec.toNat_ofNat, show (63 % 2 ^ 32) = 63 from rfl, show (7 % 2 ^ 32) = 7 from rfl,
    h63, h7] at h ⊢
  omega
theorem and7_toNat (X : BitVec 64) : (X &&& 7#64).toNat = (X.setWidth 32 &&& 7#32).toNat := by
  simp only [BitVec.toNat_and, BitVec.toNat_setWidth, BitVec.toNat_ofNat]
  have h : ∀ n : Nat, n &&& 7 = n % 8 := fun n => Nat.and_two_pow_sub_one_eq_mod n 3
  simp only [show (7 % 2 ^ 64) = 7 from rfl, show (7 % 2 ^ 32) = 7 from rfl, h]
  omega
/-- repaired ALUs: `v_lshl_add_u64` shifts by `S1[2:0]`, as the ISA function does -/
theorem lshl_add64_eq (X Z : BitVec 64) (y : W) : X <<< (y &&& 7#32).toNat + Z = lshlAdd64 X y Z := by
  simp only [lshlAdd64, BitVec.shiftLeft_eq']
/-- before the repair both ALUs shifted `v_lshl_add_u64` by `S1[5:0]`; the ISA function shifts by `S1[2:0]`: equal for
    counts below 8 -/
theorem lshl_add64_lt8 (X Z : BitVec 64) (y : W) (h : (y &&& 63#32).toNat < 8) :
    X <<< (y &&& 63#32).toNat + Z = lshlAdd64 X y Z := by
  simp only [lshlAdd64, BitVec.shiftLeft_eq', and63_lt8 y h]
/-- carry-out of the 64-bit add as `sum < addend` -/
theorem mad64_carry (x y : W) (Z : BitVec 64) :
    BitVec.ult (x.setWidth 64 * y.setWidth 64 + Z) Z = (madU64U32 x y Z).2 := by
  simp only [madU64U32]
  apply Bool.eq_iff_iff.mpr
  simp only [BitVec.ult, decide_eq_true_eq, BitVec.toNat_add]
  have hp := (x.setWidth 64 * y.setWidth 64).isLt
  generalize (x.setWidth 64 * y.setWidth 64).toNat = p at hp ⊢
  have := Z.isLt
  omega

/-! ## median of three -/
theorem med3U_clamp (x y z : W) :
    (if BitVec.ult y x then (if BitVec.ult z y then y else if BitVec.ult x z then x else z)
     else (if BitVec.ult z x then x else if BitVec.ult y z then y else z)) = med3U x y z := by
  simp only [med3U, maxU, minU, BitVec.ult, decide_eq_true_eq]
  repeat' split
  all_goals first | rfl | (apply BitVec.eq_of_toNat_eq; omega)

end C03V.Conf
