import MgpuProofs.C09Res4
/-! # C09 — resource bookkeeping: the main theorems
* `reserve_preserves`, `free_preserves`, `reserve_inv` — the invariant `Inv` is preserved by every
  non-panicking sequence of `ReserveResourceForWG` / `FreeResourcesForWG` calls;
* `mkCU_inv` (in `C09Res2`) — `RegisterCU` establishes it;
* `reserve_ok_regions_were_free` — the regions handed out were free before the call;
* `free_all_restores_initial` (in `C09Res2`) — with nothing resident the CU is as registered;
* `byte_offsets_disjoint` (in `C09Res1`) — unit offsets → byte offsets. -/
namespace C09

/-! ## a successful reservation preserves the invariant -/

theorem inv_of_okFacts (cap : List Nat) (cu : CU) (key : Nat) (d : Dem) (locs : List Loc) (cu' : CU)
    (hinv : Inv cap cu) (F : OkFacts cap cu key d locs cu') (hn : 1 ≤ d.nwf) : Inv cap cu' := by
  have hsR : sRegions cu' = sRegions cu ++ locs.map (fun l => (l.soff / 64, units d.s sGran)) := by
    simp only [sRegions, F.res, List.flatMap_append, List.flatMap_cons, List.flatMap_nil, List.append_nil]
  have hvR : ∀ k, vRegions cu' k
      = vRegions cu k ++ (locs.filter (·.simd = k)).map (fun l => (l.voff / 16, units d.v vGran)) := by
    intro k
    simp only [vRegions, F.res, List.flatMap_append, List.flatMap_cons, List.flatMap_nil, List.append_nil]
  have hrO : ∀ k, residentOn cu' k = residentOn cu k + (locs.filter (·.simd = k)).length := by
    intro k
    simp only [residentOn, F.res, List.flatMap_append, List.flatMap_cons, List.flatMap_nil,
      List.append_nil, List.length_append]
  obtain ⟨lo, hlo, hlok⟩ := F.lOK
  have hlR : lRegions cu' = lRegions cu ++ [(lo, units d.l lGran)] := by
    simp only [lRegions, F.res, List.flatMap_append, List.flatMap_cons, List.flatMap_nil, List.append_nil]
    cases locs with
    | nil => have := F.len; simp at this; omega
    | cons l locs =>
      have := hlo l List.mem_cons_self
      simp only [List.append_cancel_left_eq, List.cons.injEq, Prod.mk.injEq, and_true]
      omega
  have hmem : ∀ e ∈ cu'.resident, e ∈ cu.resident ∨ e = (key, d, locs) := by
    intro e he; rw [F.res] at he; simpa using he
  exact {
    sOK := by rw [hsR]; exact F.sOK
    lOK := by rw [hlR]; exact hlok
    vLen := by rw [F.vLen]; exact hinv.vLen
    vOK := by
      intro k hk
      rw [hvR]
      have hk' : k < cu.vmasks.length := by rw [← F.vLen]; exact hk
      exact (F.vOK k _ _ (List.getElem?_eq_getElem hk) (List.getElem?_eq_getElem hk')).1
    wfLen := by rw [F.wfLen]; exact hinv.wfLen
    wfOK := by
      intro k hk
      have := hinv.wfOK k hk
      have := F.wf k
      rw [hrO]; omega
    keys := by
      rw [F.res, List.map_append, List.nodup_append]
      refine ⟨hinv.keys, by simp, ?_⟩
      intro a ha b hb
      simp only [List.map_cons, List.map_nil, List.mem_singleton] at hb
      obtain ⟨e, he, rfl⟩ := List.mem_map.1 ha
      subst hb
      exact F.fresh e he
    simdOK := by
      intro e he l hl
      rcases hmem e he with h | h
      · exact hinv.simdOK e h l hl
      · subst h; exact F.simd l hl
    nextOK := F.next
    locLen := by
      intro e he
      rcases hmem e he with h | h
      · exact hinv.locLen e h
      · subst h; exact F.len
    nwfPos := by
      intro e he
      rcases hmem e he with h | h
      · exact hinv.nwfPos e h
      · subst h; exact hn
    sameL := by
      intro e he l hl l' hl'
      rcases hmem e he with h | h
      · exact hinv.sameL e h l hl l' hl'
      · subst h; rw [hlo l hl, hlo l' hl']
    aligned := by
      intro e he l hl
      rcases hmem e he with h | h
      · exact hinv.aligned e h l hl
      · subst h; exact F.aligned l hl }

/-- one `ReserveResourceForWG` call: `.ok` (for a work-group with at least one wavefront) appends the
    entry and keeps the invariant; `.no` keeps the invariant (so no to-reserve cell survives), leaves the
    resident list and the free wavefront slots unchanged -/
theorem reserve_preserves (cap : List Nat) (cu : CU) (key : Nat) (d : Dem) (res : RRes) (cu' : CU)
    (hinv : Inv cap cu) (h : reserve cu key d = (res, cu')) :
    (∀ locs, res = .ok locs → 1 ≤ d.nwf →
      Inv cap cu' ∧ cu'.resident = cu.resident ++ [(key, d, locs)]) ∧
    (res = .no → Inv cap cu' ∧ cu'.resident = cu.resident ∧ cu'.wfFree = cu.wfFree) := by
  constructor
  · intro locs hr hn
    subst hr
    have F := reserve_ok_facts cap cu key d locs cu' hinv h
    exact ⟨inv_of_okFacts cap cu key d locs cu' hinv F hn, F.res⟩
  · intro hr
    subst hr
    exact reserve_no cap cu key d cu' hinv h

/-! ## freeing a work-group -/

theorem disj_symm (a b : Nat × Nat) (h : disj a b) : disj b a := fun i hi => h i ⟨hi.2, hi.1⟩

/-- clear, from a mask described by `A ++ (E ++ B)`, a list `E'` of regions with the same members as `E` -/
theorem MaskOK_clear_split (M : Mask) (A E B E' : List (Nat × Nat)) (hok : MaskOK M (A ++ (E ++ B)))
    (h1 : ∀ r ∈ E, r ∈ E') (h2 : ∀ r ∈ E', r ∈ E) : MaskOK (M.clear E') (A ++ B) := by
  cases M with
  | unl n => rw [Mask.clear_unl]; trivial
  | lim m =>
    have hpw : (A ++ (E ++ B)).Pairwise disj := hok.2.2
    apply MaskOK_clear (.lim m) (A ++ (E ++ B)) (A ++ B) E' hok
    · exact (List.Sublist.refl A).append (List.sublist_append_right E B)
    · intro r hr
      simp only [List.mem_append] at hr ⊢
      rcases hr with h | h | h
      · exact Or.inl (Or.inl h)
      · exact Or.inr (h1 r h)
      · exact Or.inl (Or.inr h)
    · intro a ha b hb
      have haE := h2 a ha
      rw [List.pairwise_append] at hpw
      obtain ⟨_, hEB, hA⟩ := hpw
      rcases List.mem_append.1 hb with hb | hb
      · exact disj_symm _ _ (hA b hb a (List.mem_append_left _ haE))
      · exact (List.pairwise_append.1 hEB).2.2 a haE b hb

/-- the resident list splits around the entry found by `find?`; `filter` removes exactly that entry -/
theorem find_split {β : Type} (key : Nat) (l : List (Nat × β)) (e : Nat × β)
    (hnd : (l.map (·.1)).Nodup) (hf : l.find? (·.1 = key) = some e) :
    e.1 = key ∧ ∃ l1 l2, l = l1 ++ e :: l2 ∧ l.filter (·.1 ≠ key) = l1 ++ l2 := by
  rw [List.find?_eq_some_iff_append] at hf
  obtain ⟨he, l1, l2, hl, hl1⟩ := hf
  simp only [decide_eq_true_eq] at he
  refine ⟨he, l1, l2, hl, ?_⟩
  subst hl
  rw [List.map_append, List.map_cons, List.nodup_append] at hnd
  obtain ⟨_, hnd2, _⟩ := hnd
  rw [List.nodup_cons] at hnd2
  rw [List.filter_append, List.filter_cons]
  have e1 : List.filter (fun x => decide (x.1 ≠ key)) l1 = l1 := by
    rw [List.filter_eq_self]
    intro a ha
    have := hl1 a ha
    simpa using this
  have e2 : List.filter (fun x => decide (x.1 ≠ key)) l2 = l2 := by
    rw [List.filter_eq_self]
    intro a ha
    simp only [ne_eq, decide_eq_true_eq]
    intro hk
    exact hnd2.1 (List.mem_map.2 ⟨a, ha, by rw [hk, he]⟩)
  rw [e1, e2]
  simp [he]

theorem foldl_incAt_length (locs : List Loc) : ∀ w : List Nat,
    (locs.foldl (fun w l => incAt w l.simd) w).length = w.length := by
  induction locs with
  | nil => intro w; rfl
  | cons l locs ih => intro w; simp only [List.foldl_cons]; rw [ih]; simp [incAt]

theorem foldl_incAt_getD (locs : List Loc) (k : Nat) : ∀ w : List Nat, (∀ l ∈ locs, l.simd < w.length) →
    (locs.foldl (fun w l => incAt w l.simd) w).getD k 0 = w.getD k 0 + (locs.filter (·.simd = k)).length := by
  induction locs with
  | nil => intro w _; simp
  | cons l locs ih =>
    intro w hw
    simp only [List.foldl_cons]
    have hl := hw l List.mem_cons_self
    rw [ih _ (by intro l' hl'; simp only [incAt, List.length_set]; exact hw l' (List.mem_cons_of_mem _ hl'))]
    simp only [incAt, List.getD_eq_getElem?_getD, List.getElem?_set, List.filter_cons]
    by_cases hk : l.simd = k
    · subst hk; simp [hl]; omega
    · simp [hk]

/-- the loop of `FreeResourcesForWG`, field by field -/
theorem foldl_freeLoc (d : Dem) (locs : List Loc) : ∀ cu : CU,
    (locs.foldl (freeLoc d) cu).resident = cu.resident ∧
    (locs.foldl (freeLoc d) cu).nextSIMD = cu.nextSIMD ∧
    (locs.foldl (freeLoc d) cu).wfFree = locs.foldl (fun w l => incAt w l.simd) cu.wfFree ∧
    (locs.foldl (freeLoc d) cu).smask
      = cu.smask.clear (locs.map fun l => (l.soff / 64, units d.s sGran)) ∧
    (locs.foldl (freeLoc d) cu).lmask
      = cu.lmask.clear (locs.map fun l => (l.loff / 256, units d.l lGran)) ∧
    (locs.foldl (freeLoc d) cu).vmasks.length = cu.vmasks.length ∧
    ∀ k : Nat, (locs.foldl (freeLoc d) cu).vmasks[k]?
      = (cu.vmasks[k]?).map fun M : Mask =>
          M.clear ((locs.filter (·.simd = k)).map fun l => (l.voff / 16, units d.v vGran)) := by
  induction locs with
  | nil => intro cu; simp [Mask.clear]
  | cons l locs ih =>
    intro cu
    obtain ⟨h1, h2, h3, h4, h5, h6, h7⟩ := ih (freeLoc d cu l)
    simp only [List.foldl_cons]
    refine ⟨h1, h2, h3, ?_, ?_, ?_, ?_⟩
    · rw [h4]
      simp only [freeLoc, Mask.clear, List.map_cons, List.foldl_cons, sGran]
      rw [Nat.div_div_eq_div_mul]
    · rw [h5]
      simp only [freeLoc, Mask.clear, List.map_cons, List.foldl_cons, lGran]
    · rw [h6]; simp [freeLoc]
    · intro k
      rw [h7 k]
      simp only [freeLoc, List.getElem?_set, List.filter_cons, vGran]
      by_cases hk : l.simd = k
      · subst hk
        by_cases hlt : l.simd < cu.vmasks.length
        · simp only [hlt, if_true, List.getD_eq_getElem?_getD, List.getElem?_eq_getElem hlt,
            Option.getD_some, Option.map_some, decide_true, List.map_cons, Mask.clear, List.foldl_cons]
          rw [Nat.div_div_eq_div_mul]
        · simp [hlt]
      · simp [hk]

/-- one `FreeResourcesForWG` call keeps the invariant -/
theorem free_preserves (cap : List Nat) (cu : CU) (key : Nat) (cu' : CU)
    (hinv : Inv cap cu) (h : free cu key = some cu') : Inv cap cu' := by
  unfold free at h
  split at h
  · cases h
  · rename_i k d locs hfind
    injection h with h
    obtain ⟨hk, l1, l2, hres, hfilt⟩ := find_split key cu.resident (k, d, locs) hinv.keys hfind
    obtain ⟨f1, f2, f3, f4, f5, f6, f7⟩ := foldl_freeLoc d locs cu
    have hr' : cu'.resident = l1 ++ l2 := by rw [← h]; simp only; rw [f1]; exact hfilt
    have he : (k, d, locs) ∈ cu.resident := by rw [hres]; simp
    have hsub : (l1 ++ l2).Sublist cu.resident := by
      rw [hres]; exact (List.Sublist.refl l1).append (List.sublist_cons_self _ _)
    have hmem : ∀ e ∈ cu'.resident, e ∈ cu.resident := by
      intro e he'; rw [hr'] at he'; exact hsub.subset he'
    have hsimd : ∀ l ∈ locs, l.simd < cu.wfFree.length := by
      intro l hl; rw [hinv.wfLen]; exact hinv.simdOK _ he l hl
    have hne : locs ≠ [] := by
      have h1 := hinv.locLen _ he
      have h2 := hinv.nwfPos _ he
      intro h0; simp only at h1 h2; rw [h0] at h1; simp at h1; omega
    exact {
      sOK := by
        have hs := hinv.sOK
        simp only [sRegions, hres, List.flatMap_append, List.flatMap_cons] at hs
        have : cu'.smask = cu.smask.clear (locs.map fun l => (l.soff / 64, units d.s sGran)) := by
          rw [← h]; exact f4
        rw [this]
        simp only [sRegions, hr', List.flatMap_append]
        exact MaskOK_clear_split _ _ _ _ _ hs (fun r hr => hr) (fun r hr => hr)
      lOK := by
        have hs := hinv.lOK
        simp only [lRegions, hres, List.flatMap_append, List.flatMap_cons] at hs
        have : cu'.lmask = cu.lmask.clear (locs.map fun l => (l.loff / 256, units d.l lGran)) := by
          rw [← h]; exact f5
        rw [this]
        simp only [lRegions, hr', List.flatMap_append]
        refine MaskOK_clear_split _ _ _ _ _ hs ?_ ?_
        · intro r hr
          cases locs with
          | nil => exact absurd rfl hne
          | cons l0 locs => simp only [List.mem_singleton] at hr; subst hr; simp
        · intro r hr
          cases locs with
          | nil => exact absurd rfl hne
          | cons l0 locs =>
            obtain ⟨l, hl, rfl⟩ := List.mem_map.1 hr
            have := hinv.sameL _ he l hl l0 List.mem_cons_self
            simp only [List.mem_singleton]
            rw [this]
      vLen := by rw [← h]; simp only; rw [f6]; exact hinv.vLen
      vOK := by
        intro k' hk'
        have hlen : cu'.vmasks.length = cu.vmasks.length := by rw [← h]; exact f6
        have hk0 : k' < cu.vmasks.length := by rw [← hlen]; exact hk'
        have hs := hinv.vOK k' hk0
        simp only [vRegions, hres, List.flatMap_append, List.flatMap_cons] at hs
        have hget : cu'.vmasks[k']? = some ((cu.vmasks[k']).clear
            ((locs.filter (·.simd = k')).map fun l => (l.voff / 16, units d.v vGran))) := by
          rw [← h]; simp only; rw [f7 k', List.getElem?_eq_getElem hk0]; rfl
        have : cu'.vmasks[k'] = (cu.vmasks[k']).clear
            ((locs.filter (·.simd = k')).map fun l => (l.voff / 16, units d.v vGran)) := by
          rw [List.getElem?_eq_getElem hk'] at hget; exact Option.some.inj hget
        rw [this]
        simp only [vRegions, hr', List.flatMap_append]
        exact MaskOK_clear_split _ _ _ _ _ hs (fun r hr => hr) (fun r hr => hr)
      wfLen := by rw [← h]; simp only; rw [f3, foldl_incAt_length]; exact hinv.wfLen
      wfOK := by
        intro k' hk'
        have h0 := hinv.wfOK k' hk'
        have hw : cu'.wfFree.getD k' 0 = cu.wfFree.getD k' 0 + (locs.filter (·.simd = k')).length := by
          rw [← h]; simp only; rw [f3]; exact foldl_incAt_getD locs k' _ hsimd
        have hr1 : residentOn cu k' = (l1.flatMap fun e => e.2.2.filter (·.simd = k')).length
            + ((locs.filter (·.simd = k')).length
              + (l2.flatMap fun e => e.2.2.filter (·.simd = k')).length) := by
          simp only [residentOn, hres, List.flatMap_append, List.flatMap_cons, List.length_append]
        have hr2 : residentOn cu' k' = (l1.flatMap fun e => e.2.2.filter (·.simd = k')).length
            + (l2.flatMap fun e => e.2.2.filter (·.simd = k')).length := by
          simp only [residentOn, hr', List.flatMap_append, List.length_append]
        omega
      keys := by rw [hr']; exact (hsub.map _).nodup hinv.keys
      simdOK := fun e he' => hinv.simdOK e (hmem e he')
      nextOK := by rw [← h]; simp only; rw [f2]; exact hinv.nextOK
      locLen := fun e he' => hinv.locLen e (hmem e he')
      nwfPos := fun e he' => hinv.nwfPos e (hmem e he')
      sameL := fun e he' => hinv.sameL e (hmem e he')
      aligned := fun e he' => hinv.aligned e (hmem e he') }

/-! ## sequences of calls -/

/-- one non-panicking call keeps the invariant -/
theorem stepR_inv (cap : List Nat) (cu : CU) (op : ROp) (cu' : CU) (hinv : Inv cap cu)
    (hop : ∀ k d, op = .reserve k d → 1 ≤ d.nwf) (h : stepR cu op = some cu') : Inv cap cu' := by
  cases op with
  | free k => exact free_preserves cap cu k cu' hinv h
  | reserve k d =>
    simp only [stepR] at h
    rcases hr : reserve cu k d with ⟨res, c⟩
    rw [hr] at h
    have hp := reserve_preserves cap cu k d res c hinv hr
    cases res with
    | twice => simp at h
    | no => simp only [Option.some.injEq] at h; subst h; exact (hp.2 rfl).1
    | ok locs => simp only [Option.some.injEq] at h; subst h; exact (hp.1 locs rfl (hop k d rfl)).1

/-- the invariant holds after every non-panicking sequence of reserve / free calls
    (work-groups with at least one wavefront) -/
theorem reserve_inv (cap : List Nat) (cu0 : CU) (hinv : Inv cap cu0) (_hcap : 0 < cap.length)
    (ops : List ROp) (hops : ∀ op ∈ ops, ∀ k d, op = .reserve k d → 1 ≤ d.nwf)
    (cu' : CU) (h : runR cu0 ops = some cu') : Inv cap cu' := by
  induction ops generalizing cu0 with
  | nil => simp only [runR, Option.some.injEq] at h; subst h; exact hinv
  | cons op ops ih =>
    simp only [runR] at h
    cases hs : stepR cu0 op with
    | none => rw [hs] at h; simp at h
    | some c =>
      rw [hs] at h
      simp only [Option.bind_some] at h
      exact ih c (stepR_inv cap cu0 op c hinv (hops op List.mem_cons_self) hs)
        (fun op' h' => hops op' (List.mem_cons_of_mem _ h')) h

/-! ## the regions handed out were free -/

/-- a successful `ReserveResourceForWG` returns one location per wavefront; on limited masks the SGPR,
    LDS and VGPR unit regions of every location were free before the call; and each SIMD had a free
    wavefront slot for every location placed on it -/
theorem reserve_ok_regions_were_free (cap : List Nat) (cu : CU) (key : Nat) (d : Dem) (locs : List Loc)
    (cu' : CU) (hinv : Inv cap cu) (h : reserve cu key d = (.ok locs, cu')) :
    locs.length = d.nwf ∧
    (∀ l ∈ locs, ∀ i, inR (l.soff / 64, units d.s sGran) i → ∀ m, cu.smask = .lim m → m[i]? = some 0) ∧
    (∀ l ∈ locs, ∀ i, inR (l.loff / 256, units d.l lGran) i → ∀ m, cu.lmask = .lim m → m[i]? = some 0) ∧
    (∀ l ∈ locs, ∀ i, inR (l.voff / 16, units d.v vGran) i →
      ∀ m, cu.vmasks[l.simd]? = some (.lim m) → m[i]? = some 0) ∧
    (∀ k, (locs.filter (·.simd = k)).length ≤ cu.wfFree.getD k 0) := by
  have F := reserve_ok_facts cap cu key d locs cu' hinv h
  refine ⟨F.len, ?_, ?_, ?_, ?_⟩
  · intro l hl i hi m hm
    exact was_free cu.smask cu'.smask _ _ hinv.sOK F.sOK F.sSh _
      (List.mem_map.2 ⟨l, hl, rfl⟩) i hi m hm
  · intro l hl i hi m hm
    obtain ⟨lo, hlo, hlok⟩ := F.lOK
    have e : l.loff / 256 = lo := by rw [hlo l hl]; omega
    rw [e] at hi
    exact was_free cu.lmask cu'.lmask _ _ hinv.lOK hlok F.lSh _ (List.mem_singleton.2 rfl) i hi m hm
  · intro l hl i hi m hm
    obtain ⟨hk, hMk⟩ := List.getElem?_eq_some_iff.1 hm
    have hk' : l.simd < cu'.vmasks.length := by rw [F.vLen]; exact hk
    obtain ⟨hok, hsh⟩ := F.vOK l.simd _ _ (List.getElem?_eq_getElem hk') hm
    have hold := hinv.vOK l.simd hk
    rw [hMk] at hold
    exact was_free (.lim m) _ _ _ hold hok hsh _
      (List.mem_map.2 ⟨l, List.mem_filter.2 ⟨hl, by simp⟩, rfl⟩) i hi m rfl
  · intro k
    have := F.wf k
    omega

/-! ## why `1 ≤ nwf` is needed -/

/-- a work-group without wavefronts reserves an LDS region that `FreeResourcesForWG` (one iteration per
    wavefront) never releases: after reserve + free nothing is resident but an LDS unit stays reserved -/
theorem nwf_zero_leaks_lds :
    ((mkCU [10] (some 32) [some 256] (some 512)).bind fun cu0 =>
        runR cu0 [.reserve 7 ⟨0, 0, 0, 256⟩, .free 7]).map (fun c => (c.resident, c.lmask))
      = some ([], .lim [2, 0]) := by
  decide

end C09
