import MgpuProofs.C11MqLink
/-! Order facts about every reachable state of the multi-queue copy model: the flush requests of a copy
command leave the driver BEFORE the command's page pieces. `seen ++ portOut ++ toSend` is the FIFO
pipeline towards the GPU side: requests enter at the end of `toSend` (flush requests when the command
starts, page pieces when the delay line expires) and only move forward (`sendToGPUs`, `take`). -/
namespace C11

/-! ## the order invariant on lists -/

/-- `cr` = the requests created so far, `L` = the pipeline towards the GPU side.
    `fl`: a flush request of a command that also has a request of another kind is in the pipeline
    (it was put there when it was created). `ord`: in front of every non-flush request in the pipeline
    are all flush requests of its command. -/
structure FOrd (cr L : List MqReq) : Prop where
  fl : ∀ rf ∈ cr, rf.kind = .flush → ∀ rp ∈ cr, rf.q = rp.q → rf.seq = rp.seq → rp.kind ≠ .flush → rf ∈ L
  ord : ∀ (j : Nat) (rp : MqReq), L[j]? = some rp → rp.kind ≠ .flush →
    ∀ rf ∈ cr, rf.q = rp.q → rf.seq = rp.seq → rf.kind = .flush → ∃ i, i < j ∧ L[i]? = some rf

/-- requests that were created before are appended to the pipeline (the delay line expires) -/
theorem FOrd.append {cr L : List MqReq} (h : FOrd cr L) (add : List MqReq) (hadd : ∀ r ∈ add, r ∈ cr) :
    FOrd cr (L ++ add) := by
  refine ⟨fun rf hrf hk rp hrp hq hs hnk => List.mem_append_left _ (h.fl rf hrf hk rp hrp hq hs hnk), ?_⟩
  intro j rp hj hnk rf hrf hq hs hk
  by_cases hlt : j < L.length
  · rw [List.getElem?_append_left hlt] at hj
    obtain ⟨i, hi, hi'⟩ := h.ord j rp hj hnk rf hrf hq hs hk
    exact ⟨i, hi, by rw [List.getElem?_append_left (by omega)]; exact hi'⟩
  · have hrp : rp ∈ cr := by
      rw [List.getElem?_append_right (by omega)] at hj
      exact hadd rp (List.mem_of_getElem? hj)
    have hm := h.fl rf hrf hk rp hrp hq hs hnk
    obtain ⟨i, hi⟩ := List.mem_iff_getElem?.1 hm
    have hil : i < L.length := (List.getElem?_eq_some_iff.1 hi).1
    exact ⟨i, by omega, by rw [List.getElem?_append_left hil]; exact hi⟩

/-- a command `(k, d)` starts: its flush requests `newF` are created and appended to the pipeline, its
    page pieces `newP` (all of one kind `ck`) are created and go to the delay line -/
theorem FOrd.start {cr L newF newP : List MqReq} (h : FOrd cr L) (hL : ∀ r ∈ L, r ∈ cr) {k d : Nat} {ck : MqKind}
    (hold : ∀ r ∈ cr, r.q = k → r.seq < d)
    (hF : ∀ r ∈ newF, r.q = k ∧ r.seq = d ∧ r.kind = .flush)
    (hP : ∀ r ∈ newP, r.q = k ∧ r.seq = d ∧ r.kind = ck) : FOrd (cr ++ (newF ++ newP)) (L ++ newF) := by
  have hN : ∀ r ∈ newF ++ newP, r.q = k ∧ r.seq = d := by
    intro r hr
    rcases List.mem_append.1 hr with hr | hr
    · exact ⟨(hF r hr).1, (hF r hr).2.1⟩
    · exact ⟨(hP r hr).1, (hP r hr).2.1⟩
  constructor
  · intro rf hrf hk rp hrp hq hs hnk
    rcases List.mem_append.1 hrf with hrf | hrf
    · rcases List.mem_append.1 hrp with hrp | hrp
      · exact List.mem_append_left _ (h.fl rf hrf hk rp hrp hq hs hnk)
      · exfalso
        have h1 := hN rp hrp
        have h2 := hold rf hrf (hq.trans h1.1)
        omega
    · rcases List.mem_append.1 hrf with hrf | hrf
      · exact List.mem_append_right _ hrf
      · exfalso
        have h1 := hP rf hrf
        rcases List.mem_append.1 hrp with hrp | hrp
        · have h2 := hold rp hrp (hq.symm.trans h1.1)
          omega
        · rcases List.mem_append.1 hrp with hrp | hrp
          · exact hnk (hF rp hrp).2.2
          · exact hnk ((hP rp hrp).2.2.trans (h1.2.2.symm.trans hk))
  · intro j rp hj hnk rf hrf hq hs hk
    by_cases hlt : j < L.length
    · rw [List.getElem?_append_left hlt] at hj
      have hrp : rp ∈ cr := hL rp (List.mem_of_getElem? hj)
      rcases List.mem_append.1 hrf with hrf | hrf
      · obtain ⟨i, hi, hi'⟩ := h.ord j rp hj hnk rf hrf hq hs hk
        exact ⟨i, hi, by rw [List.getElem?_append_left (by omega)]; exact hi'⟩
      · exfalso
        have h1 := hN rf hrf
        have h2 := hold rp hrp (hq.symm.trans h1.1)
        omega
    · exfalso
      rw [List.getElem?_append_right (by omega)] at hj
      exact hnk (hF rp (List.mem_of_getElem? hj)).2.2

/-! ## the invariant of the driver state, given what the GPU side has taken -/

structure OInv (seen : List MqReq) (s : Mq) : Prop where
  sub : ∀ r ∈ seen, r ∈ s.created
  ord : FOrd s.created (seen ++ s.portOut ++ s.toSend)

theorem OInv.congr {seen seen' : List MqReq} {s s' : Mq} (h : OInv seen s) (hc : s'.created = s.created)
    (hL : seen' ++ s'.portOut ++ s'.toSend = seen ++ s.portOut ++ s.toSend)
    (hsub : ∀ r ∈ seen', r ∈ s.created) : OInv seen' s' :=
  ⟨by rw [hc]; exact hsub, by rw [hc, hL]; exact h.ord⟩

theorem mqFlushReqs_kind (s : Mq) (qi seq : Nat) (c : MqCmd) : ∀ r ∈ mqFlushReqs s qi seq c, r.kind = .flush := by
  intro r hr
  unfold mqFlushReqs at hr
  split at hr
  · simp only [List.mem_map, List.mem_range] at hr
    obtain ⟨x, _, rfl⟩ := hr
    rfl
  · cases hr

theorem mqPieceReqs_kind (base qi seq : Nat) (c : MqCmd) : ∀ r ∈ mqPieceReqs base qi seq c, r.kind = c.kind := by
  intro r hr
  unfold mqPieceReqs at hr
  simp only [List.mem_map, List.mem_range] at hr
  obtain ⟨x, _, rfl⟩ := hr
  rfl

private theorem stq (s : Mq) : s.sendToGPUs.1.queues = s.queues := by
  rcases s.sendToGPUs_cases with ⟨e, _⟩ | ⟨r, rest, _, _, e⟩ <;> rw [e]

private theorem dq (s : Mq) : s.delay.1.queues = s.queues := by
  rcases s.delay_cases with ⟨_, e⟩ | ⟨_, e⟩ | ⟨_, e⟩ <;> rw [e]

section
variable {g a b n : Nat} {s : Mq} {qs : List MqQueue} {out : List MqReq} {en : List (Nat × MqCmd)}
  {seen : List MqReq}

theorem OInv.sendToGPUs (h : OInv seen s) : OInv seen s.sendToGPUs.1 := by
  rcases s.sendToGPUs_cases with ⟨e, _⟩ | ⟨r, rest, hts, _, e⟩
  · rw [e]; exact h
  · rw [e]
    refine h.congr rfl ?_ h.sub
    show seen ++ (s.portOut ++ [r]) ++ rest = seen ++ s.portOut ++ s.toSend
    rw [hts]; simp

theorem OInv.delay (h : OInv seen s) (hi : MInv g a b n s qs out en) : OInv seen s.delay.1 := by
  rcases s.delay_cases with ⟨_, e⟩ | ⟨_, e⟩ | ⟨_, e⟩
  · rw [e]; exact h.congr rfl rfl h.sub
  · rw [e]
    refine ⟨h.sub, ?_⟩
    show FOrd s.created (seen ++ s.portOut ++ (s.toSend ++ s.awaiting))
    rw [← List.append_assoc]
    apply h.ord.append
    intro r hr
    apply hi.fl.objs r
    simp only [List.mem_append]
    exact .inl (.inl (.inl hr))
  · rw [e]; exact h

theorem OInv.response (h : OInv seen s) : OInv seen s.response.1 := by
  rcases s.response_cases with ⟨_, e⟩ | ⟨id, rest, _, _, e⟩ | ⟨id, rest, qs', c, _, _, e⟩
  · rw [e]; exact h
  · rw [e]; exact h.congr rfl rfl h.sub
  · rw [e]; exact h.congr rfl rfl h.sub

theorem OInv.start (h : OInv seen s) (hi : MInv g a b n s qs out en) {k : Nat} {q : MqQueue} (hk : qs[k]? = some q) :
    OInv seen (s.start k q).1 := by
  rcases s.start_cases k q with ⟨_, e⟩ | ⟨c, rest, _, hr, _, e⟩ | ⟨c, rest, _, _, _, e⟩
  · rw [e]; exact h
  · rw [e]
    have hold : ∀ r ∈ s.created, r.q = k → r.seq < q.done := by
      intro r hr' hq
      obtain ⟨q', hq', hseq⟩ := hi.q.seq_lt r hr'
      rw [hq, hk] at hq'
      cases hq'
      rw [hr] at hseq
      simpa using hseq
    have hL : ∀ r ∈ seen ++ s.portOut ++ s.toSend, r ∈ s.created := by
      intro r hr'
      simp only [List.mem_append] at hr'
      rcases hr' with (hr' | hr') | hr'
      · exact h.sub r hr'
      · apply hi.fl.objs r
        simp only [List.mem_append]
        exact .inl (.inr hr')
      · apply hi.fl.objs r
        simp only [List.mem_append]
        exact .inl (.inl (.inr hr'))
    have htag := mqNewReqs_tag s k q.done c
    have hF : ∀ r ∈ mqFlushReqs s k q.done c, r.q = k ∧ r.seq = q.done ∧ r.kind = .flush := by
      intro r hr'
      have := htag r (List.mem_append_left _ hr')
      exact ⟨this.1, this.2.1, mqFlushReqs_kind s k q.done c r hr'⟩
    have hP : ∀ r ∈ mqPieceReqs (s.nextId + (mqFlushReqs s k q.done c).length) k q.done c,
        r.q = k ∧ r.seq = q.done ∧ r.kind = c.kind := by
      intro r hr'
      have := htag r (List.mem_append_right _ hr')
      exact ⟨this.1, this.2.1, mqPieceReqs_kind _ k q.done c r hr'⟩
    refine ⟨fun r hr' => List.mem_append_left _ (h.sub r hr'), ?_⟩
    show FOrd (s.created ++ mqNewReqs s k q.done c) (seen ++ s.portOut ++ (s.toSend ++ mqFlushReqs s k q.done c))
    rw [← List.append_assoc]
    exact h.ord.start hL hold hF hP
  · rw [e]; exact h.congr rfl rfl h.sub

theorem OInv.mqStartAll : ∀ (rest : List MqQueue) (s : Mq) (pre : List MqQueue),
    MInv g a b n s (pre ++ rest) out en → OInv seen s → OInv seen (mqStartAll s pre.length rest).1
  | [], s, pre, _, ho => by simpa [C11.mqStartAll] using ho
  | q :: rest, s, pre, h, ho => by
    have hk : (pre ++ q :: rest)[pre.length]? = some q := by simp
    have h1 := h.start hk
    have e1 : (pre ++ q :: rest).set pre.length (s.start pre.length q).2.1 =
        (pre ++ [(s.start pre.length q).2.1]) ++ rest := by
      rw [List.set_append]; simp
    rw [e1] at h1
    have ho1 := ho.start h hk
    have h2 := OInv.mqStartAll rest (s.start pre.length q).1 (pre ++ [(s.start pre.length q).2.1]) h1 ho1
    have e2 : (pre ++ [(s.start pre.length q).2.1]).length = pre.length + 1 := by simp
    rw [e2] at h2
    unfold C11.mqStartAll
    exact h2

theorem OInv.startAll (ho : OInv seen s) (h : MInv g a b n s s.queues out en) : OInv seen s.startAll.1 := by
  have h1 := OInv.mqStartAll s.queues s [] (by simpa using h) ho
  simp only [List.length_nil] at h1
  exact ⟨h1.sub, h1.ord⟩

theorem OInv.tick (ho : OInv seen s) (h : MInv g a b n s s.queues out en) : OInv seen s.tick.1 := by
  have ha := h.sendToGPUs
  have hb := ha.delay
  have hb' : MInv g a b n s.sendToGPUs.1.delay.1 s.sendToGPUs.1.delay.1.queues out en := by
    rw [dq, stq]; exact hb
  have hc := hb'.response
  have o3 := (ho.sendToGPUs.delay ha).response
  unfold Mq.tick
  split
  · exact ho
  · simp only
    split
    · exact o3
    · exact o3.startAll hc

end

/-! ## the environment's moves -/

/-- the order invariant of an environment state -/
def MqEnv.Ord (e : MqEnv) : Prop := OInv e.seen e.s

theorem MqEnv.Ord.init (g a b n : Nat) (warm : Bool) : (MqEnv.init g a b n warm).Ord :=
  ⟨fun r hr => (by cases hr),
   ⟨fun rf hrf => (by cases hrf), fun j rp hj => (by simp [MqEnv.init] at hj)⟩⟩

theorem MqEnv.Ord.step {g a b n : Nat} {e : MqEnv} (hi : e.Inv g a b n) (h : e.Ord) (op : MqOp) :
    (e.step op).1.Ord := by
  cases op with
  | enq qi c =>
    simp only [MqEnv.step]
    split
    · exact OInv.congr h rfl rfl h.sub
    · exact h
  | tick => exact OInv.tick h hi
  | take k =>
    refine OInv.congr h rfl ?_ ?_
    · show (e.seen ++ e.s.portOut.take k) ++ e.s.portOut.drop k ++ e.s.toSend = e.seen ++ e.s.portOut ++ e.s.toSend
      rw [List.append_assoc e.seen, List.take_append_drop]
    · intro r hr
      change r ∈ e.seen ++ e.s.portOut.take k at hr
      rcases List.mem_append.1 hr with hr | hr
      · exact h.sub r hr
      · apply hi.fl.objs r
        simp only [List.mem_append]
        exact .inl (.inr (List.mem_of_mem_take hr))
  | rsp j =>
    simp only [MqEnv.step]
    split
    · exact h
    · split
      · exact h
      · exact OInv.congr h rfl rfl h.sub

theorem MqEnv.Ord.run {g a b n : Nat} : ∀ (ops : List MqOp) {e : MqEnv}, e.Inv g a b n → e.Ord → (e.run ops).Ord
  | [], _, _, h => h
  | op :: rest, _, hi, h => MqEnv.Ord.run rest (hi.step op) (h.step hi op)

theorem reachMq_ord (g a b n : Nat) (warm : Bool) (ops : List MqOp) : (reachMq g a b n warm ops).Ord :=
  MqEnv.Ord.run ops (MqEnv.Inv.init g a b n warm) (MqEnv.Ord.init g a b n warm)

/-! ## the facts, for every reachable state -/

/-- (A) **the flush requests of a command are in front of its page pieces** in the FIFO pipeline
    `seen ++ portOut ++ toSend` towards the GPU side (what the GPU side has taken, in order, then the
    GPU port, then `requestsToSend`) -/
theorem mq_flush_before_pieces (g a b n : Nat) (warm : Bool) (ops : List MqOp) (rf rp : MqReq) :
    rf ∈ (reachMq g a b n warm ops).s.created → rp ∈ (reachMq g a b n warm ops).s.created →
    rf.q = rp.q → rf.seq = rp.seq → rf.kind = .flush → rp.kind ≠ .flush →
    ∀ j : Nat, ((reachMq g a b n warm ops).seen ++ (reachMq g a b n warm ops).s.portOut ++
          (reachMq g a b n warm ops).s.toSend)[j]? = some rp →
      ∃ i : Nat, i < j ∧ ((reachMq g a b n warm ops).seen ++ (reachMq g a b n warm ops).s.portOut ++
          (reachMq g a b n warm ops).s.toSend)[i]? = some rf := by
  intro hrf _ hq hs hk hnk j hj
  exact (reachMq_ord g a b n warm ops).ord.ord j rp hj hnk rf hrf hq hs hk

/-- (B) the GPU side takes the flush requests of a command before any of its page pieces -/
theorem mq_flush_seen_before_piece (g a b n : Nat) (warm : Bool) (ops : List MqOp) (rf rp : MqReq) :
    rf ∈ (reachMq g a b n warm ops).s.created → rp ∈ (reachMq g a b n warm ops).s.created →
    rf.q = rp.q → rf.seq = rp.seq → rf.kind = .flush → rp.kind ≠ .flush →
    ∀ j : Nat, (reachMq g a b n warm ops).seen[j]? = some rp →
      ∃ i : Nat, i < j ∧ (reachMq g a b n warm ops).seen[i]? = some rf := by
  intro hrf hrp hq hs hk hnk j hj
  have hjl : j < (reachMq g a b n warm ops).seen.length := (List.getElem?_eq_some_iff.1 hj).1
  have hj' : ((reachMq g a b n warm ops).seen ++ (reachMq g a b n warm ops).s.portOut ++
      (reachMq g a b n warm ops).s.toSend)[j]? = some rp := by
    rw [List.append_assoc, List.getElem?_append_left hjl]; exact hj
  obtain ⟨i, hi, hi'⟩ := mq_flush_before_pieces g a b n warm ops rf rp hrf hrp hq hs hk hnk j hj'
  refine ⟨i, hi, ?_⟩
  rw [List.append_assoc, List.getElem?_append_left (by omega)] at hi'
  exact hi'

/-- (C) a page piece of a command that needs flushing has a flush request beside it (at least one
    GPU) -/
theorem mq_piece_has_flush (g a b n : Nat) (warm : Bool) (ops : List MqOp) (rp : MqReq) (c : MqCmd) :
    rp ∈ (reachMq g a b n warm ops).s.created → rp.kind ≠ .flush →
    ((reachMq g a b n warm ops).enqOf rp.q)[rp.seq]? = some c → c.flush = true → 1 ≤ g →
    ∃ rf ∈ (reachMq g a b n warm ops).s.created, rf.q = rp.q ∧ rf.seq = rp.seq ∧ rf.kind = .flush := by
  intro hrp _ hc hfl hg
  have h := reachMq_inv g a b n warm ops
  obtain ⟨q, hq, hseq⟩ := h.q.seq_lt rp hrp
  have hw := h.q.want rp.q q hq rp.seq c hc hseq
  have hm : (MqKind.flush, 0) ∈ mqWantReqs g c := by
    unfold mqWantReqs
    rw [if_pos hfl]
    apply List.mem_append_left
    simp only [List.mem_map, List.mem_range]
    exact ⟨0, by omega, rfl⟩
  rw [← hw] at hm
  simp only [List.mem_map, List.mem_filter, decide_eq_true_eq, Prod.mk.injEq] at hm
  obtain ⟨rf, ⟨hrf, hq', hs'⟩, hk, _⟩ := hm
  exact ⟨rf, hrf, hq', hs', hk⟩

/-- (D) a request exists only for a command that was enqueued -/
theorem mq_created_seq_enqueued (g a b n : Nat) (warm : Bool) (ops : List MqOp) :
    ∀ r ∈ (reachMq g a b n warm ops).s.created, r.seq < ((reachMq g a b n warm ops).enqOf r.q).length := by
  intro r hr
  have h := reachMq_inv g a b n warm ops
  obtain ⟨q, hq, hseq⟩ := h.q.seq_lt r hr
  have hb := h.q.bound hq
  exact Nat.lt_of_lt_of_le hseq hb

end C11
