import MgpuModel.C01_Kernels
import MgpuProofs.C01MapDefs
/-! # C01 — `ReLUForward` (amd/benchmarks/dnn/layer_benchmarks/relu/kernels.hsaco): definitions

```
  0 s_load_dword s2, s[4:5], 0x4          ; work-group size x|y from the dispatch packet
  8 s_load_dword s3, s[6:7], 0x0          ; count
 16 s_load_dwordx2 s[0:1], s[6:7], 0x18   ; hidden global offset x
 24 s_waitcnt lgkmcnt(0)
 28 s_and_b32 s1, s2, 0xffff
 36 s_mul_i32 s8, s8, s1                  ; work-group id * work-group size
 40 v_add_u32 v0, vcc, s8, v0
 44 v_add_u32 v1, vcc, s0, v0             ; global id
 48 v_cmp_gt_i32 vcc, s3, v1
 52 s_and_saveexec_b64 s[0:1], vcc
 56 s_cbranch_execz 19                    ; → 136
 60 s_load_dwordx4 s[0:3], s[6:7], 0x8    ; in, out
 68 v_mov_b32 v0, 0
 72 v_ashrrev_i64 v[0:1], 30, v[0:1]      ; byte offset = id * 4
 80 s_waitcnt lgkmcnt(0)
 84 v_mov_b32 v3, s1
 88 v_add_u32 v2, vcc, s0, v0
 92 v_addc_u32 v3, vcc, v3, v1, vcc
 96 flat_load_dword v2, v[2:3]
104 v_mov_b32 v4, s3
108 v_add_u32 v0, vcc, s2, v0
112 v_addc_u32 v1, vcc, v4, v1, vcc
116 s_waitcnt vmcnt(0) lgkmcnt(0)
120 v_mul_f32 v2, 1.0, v2
124 v_max_f32 v2, 0, v2
128 flat_store_dword v[0:1], v2
136 s_endpgm
```
Kernel arguments (`relu.KernelArgs`, packed): Count u32 @0, Padding @4, Input @8, Output @16,
HiddenGlobalOffsetX i64 @24, …Y @32, …Z @40. -/
namespace C01.Emu.Relu
open C03V

def P : Program := ⟨reluKernelCode, false⟩

/-- the dword the kernel stores for an input dword `x`: `v_max_f32 (0, v_mul_f32 (1.0, x))` in the C03V
    float specification -/
def reluBits (x : Nat) : Nat :=
  F.fmax F.f32 0 (F.mul F.f32 1065353216 x % 4294967296) % 4294967296

/-- the dword stored for element `e` when the memory content is `m` (`src` = the input array) -/
def reluVal (src : Nat) (m : Nat → Nat) (e : Nat) : Nat := reluBits (rd32 m (src + 4 * e) % 2 ^ 32)

/-- admissible launch: `c.lim` = Count -/
structure Valid (c : Map.Cfg) (src : Nat) : Prop where
  lim31 : c.lim < 2 ^ 31
  srcEnd : src + 4 * (c.lo + c.K) ≤ 2 ^ 64
  dstEnd : c.dst + 4 * (c.lo + c.K) ≤ 2 ^ 64
  kaEnd : c.ka + 32 ≤ 2 ^ 64
  paEnd : c.pa + 8 ≤ 2 ^ 64
  coEnd : c.co + 140 < 2 ^ 64
  ka4 : c.ka % 4 = 0
  pa4 : c.pa % 4 = 0
  dSrc : ∀ a, c.inDst a → ¬ (src + 4 * c.lo ≤ a ∧ a < src + 4 * (c.lo + c.K))
  dKa : ∀ a, c.inDst a → ¬ (c.ka ≤ a ∧ a < c.ka + 32)
  dPa : ∀ a, c.inDst a → ¬ (c.pa + 4 ≤ a ∧ a < c.pa + 8)

/-- what the kernel reads from the dispatch packet and the kernel-argument segment -/
structure Img (c : Map.Cfg) (src : Nat) (f : Nat → Nat) : Prop where
  wg : rd32 f (c.pa + 4) % 65536 = 64
  n : rd32 f (c.ka + 0) % 2 ^ 32 = c.lim
  goff : rd32 f (c.ka + 24) % 2 ^ 32 = c.lo
  srcLo : rd32 f (c.ka + 8) % 2 ^ 32 = src % 2 ^ 32
  srcHi : rd32 f (c.ka + 12) % 2 ^ 32 = src / 2 ^ 32
  dstLo : rd32 f (c.ka + 16) % 2 ^ 32 = c.dst % 2 ^ 32
  dstHi : rd32 f (c.ka + 20) % 2 ^ 32 = c.dst / 2 ^ 32

end C01.Emu.Relu
