import MgpuProofs.C10BuddyFull5
/-!
Buddy allocator, histories with frees — part 6: device-level operations and whole histories (`runLive`).
Main result: `finv_runLive` / `runLive_safe`.
-/
namespace C10.Buddy

/-- the page has an entry in `blockTracking` -/
def Tracked (s : State) (q : Nat) : Prop := ∃ id, (q, id) ∈ s.track

theorem finv_init (F base : Nat) : FInv F (init base (4096 * 2 ^ F)) := by
  have hfree : ∀ l k, FreeN F (init base (4096 * 2 ^ F)) l k → l = 0 := by
    intro l k hf
    exact (init_lvl_mem hf).1
  have hsplit : ∀ l k, ¬ SplitN F (init base (4096 * 2 ^ F)) l k := by
    intro l k hs
    have := hs.2
    simp [init] at this
  have hmerge : ∀ l k, ¬ MergeN (init base (4096 * 2 ^ F)) l k := by
    intro l k hs
    unfold MergeN at hs
    simp [init] at hs
  refine ⟨rfl, by simp [init, ordOf_pow], ?_, ?_, by simp [init], by simp [init], ⟨?_, ?_, ?_, ?_⟩, ?_, ?_, ?_⟩
  · intro l a ha
    obtain ⟨rfl, rfl⟩ := init_lvl_mem ha
    exact ⟨0, by simp, by simp [addr, init]⟩
  · intro l
    simp only [init, lvl, List.getD_eq_getElem?_getD]
    cases l with
    | zero => simp
    | succ l =>
      simp only [List.getElem?_cons_succ, List.getElem?_replicate]
      split <;> simp
  · intro l k _ _ hf
    have := hfree l k hf
    subst this
    exact ⟨fun l' e => by omega, hsplit 0 k⟩
  · intro l k _ _ hs
    exact absurd hs (hsplit l k)
  · intro l k _ _
    constructor
    · intro hm
      exact absurd hm (hmerge l k)
    · intro hh
      exact absurd hh.1 (hsplit l k)
  · intro k _
    exact hsplit F k
  · intro p id hp
    simp [init] at hp
  · intro p1 id1 p2 id2 a n1 n2 hp
    simp [init] at hp
  · intro id ia num e
    simp [init] at e

theorem finv_popOne {F : Nat} {s s' : State} {p : Nat} (h : FInv F s) (hp : popOne s = .ok (p, s')) :
    FInv F s' ∧ s'.base = s.base ∧ ∀ q, (q = p ∨ Tracked s q) → Tracked s' q := by
  unfold popOne at hp
  rw [allocMulti_pos s (by decide)] at hp
  split at hp
  · cases hp
  · split at hp
    · cases hp
    · rename_i ps s1 ha
      simp only [] at hp
      split at hp
      · injection hp with hp
        injection hp with h1 h2
        subst h2
        obtain ⟨f, b, m⟩ := finv_allocMulti h ha
        obtain ⟨i, level, blk, rest, -, -, -, -, hpages, -⟩ := allocMulti_ok ha (by rw [h.hlen]; omega)
        refine ⟨f, b, ?_⟩
        intro q hq
        apply m
        rcases hq with hq | hq
        · left
          rw [hq, ← h1, hpages]
          simp [pagesFrom]
        · exact Or.inr hq
      · cases hp

theorem finv_popN {F : Nat} : ∀ (k : Nat) (s s' : State) (ps : List Nat), FInv F s → popN k s = .ok (ps, s') →
    FInv F s' ∧ s'.base = s.base ∧ ∀ q, (q ∈ ps ∨ Tracked s q) → Tracked s' q := by
  intro k
  induction k with
  | zero =>
    intro s s' ps h hp
    simp only [popN] at hp
    injection hp with hp
    injection hp with h1 h2
    subst h1; subst h2
    refine ⟨h, rfl, ?_⟩
    intro q hq
    rcases hq with hq | hq
    · cases hq
    · exact hq
  | succ k ih =>
    intro s s' ps h hp
    simp only [popN] at hp
    split at hp
    · cases hp
    · rename_i p s1 h1
      split at hp
      · cases hp
      · rename_i ps' s2 h2
        injection hp with hp
        injection hp with e1 e2
        subst e1; subst e2
        obtain ⟨f1, b1, m1⟩ := finv_popOne h h1
        obtain ⟨f2, b2, m2⟩ := ih _ _ _ f1 h2
        refine ⟨f2, b2.trans b1, ?_⟩
        intro q hq
        apply m2
        rcases hq with hq | hq
        · rcases List.mem_cons.mp hq with hq | hq
          · exact Or.inr (m1 q (Or.inl hq))
          · exact Or.inl hq
        · exact Or.inr (m1 q (Or.inr hq))

theorem finv_amOp {F : Nat} {s s' : State} {ps : List Nat} {n : Nat} (h : FInv F s) (hp : amOp s n = .ok (ps, s')) :
    FInv F s' ∧ s'.base = s.base ∧ ∀ q, (q ∈ ps ∨ Tracked s q) → Tracked s' q := by
  by_cases hn0 : n = 0
  · subst hn0
    obtain ⟨rfl, rfl⟩ := amOp_zero_ok hp
    exact ⟨h, rfl, fun q hq => hq.elim (fun hh => by cases hh) id⟩
  unfold amOp at hp
  rw [allocMulti_pos s hn0] at hp
  split at hp
  · cases hp
  · split at hp
    · cases hp
    · rename_i ps1 s1 ha
      split at hp
      · injection hp with hp
        injection hp with h1 h2
        subst h1; subst h2
        exact finv_allocMulti h ha
      · cases hp

theorem finv_addAll {F : Nat} : ∀ (ps : List Nat) (s s' : State), FInv F s → addAll ps s = .ok s' →
    FInv F s' ∧ s'.base = s.base ∧ ∀ q, q ∉ ps → Tracked s q → Tracked s' q := by
  intro ps
  induction ps with
  | nil =>
    intro s s' h ha
    simp only [addAll] at ha
    injection ha with ha
    subst ha
    exact ⟨h, rfl, fun q _ hq => hq⟩
  | cons p ps ih =>
    intro s s' h ha
    simp only [addAll] at ha
    split at ha
    · cases ha
    · rename_i s1 h1
      obtain ⟨f1, b1, m1⟩ := finv_addSingle h h1
      obtain ⟨f2, b2, m2⟩ := ih s1 s' f1 ha
      refine ⟨f2, b2.trans b1, ?_⟩
      intro q hq ht
      have hq1 : q ≠ p := fun e => hq (e ▸ List.mem_cons_self)
      have hq2 : q ∉ ps := fun e => hq (List.mem_cons_of_mem _ e)
      exact m2 q hq2 (m1 q hq1 ht)

/-- every history (legal or not) keeps the invariant, and every live page is tracked -/
theorem finv_runLive {F : Nat} : ∀ (ops : List Op) (s : State) (live : List Nat), FInv F s →
    (∀ p ∈ live, Tracked s p) →
    FInv F (runLive s live ops).st ∧ ∀ p ∈ (runLive s live ops).live, Tracked (runLive s live ops).st p := by
  intro ops
  induction ops with
  | nil =>
    intro s live h hl
    exact ⟨h, hl⟩
  | cons op ops ih =>
    intro s live h hl
    cases op with
    | add ps =>
      simp only [runLive]
      split
      · rename_i hlegal
        split
        · exact ⟨h, hl⟩
        · rename_i out s1 hstep
          simp only [step] at hstep
          split at hstep
          · cases hstep
          · rename_i s2 hadd
            injection hstep with hstep
            injection hstep with _ e
            subst e
            obtain ⟨f1, _, m1⟩ := finv_addAll ps s s2 h hadd
            apply ih s2 _ f1
            intro p hp
            obtain ⟨hp1, hp2⟩ := List.mem_filter.mp hp
            have hnp : p ∉ ps := by simpa using hp2
            exact m1 p hnp (hl p hp1)
      · exact ⟨h, hl⟩
    | pop k =>
      simp only [runLive]
      split
      · exact ⟨h, hl⟩
      · rename_i out s1 hstep
        simp only [step] at hstep
        obtain ⟨f1, _, m1⟩ := finv_popN k s s1 out h hstep
        apply ih s1 _ f1
        intro p hp
        rcases List.mem_append.mp hp with hp | hp
        · exact m1 p (Or.inr (hl p hp))
        · exact m1 p (Or.inl hp)
    | am n =>
      simp only [runLive]
      split
      · exact ⟨h, hl⟩
      · rename_i out s1 hstep
        simp only [step] at hstep
        obtain ⟨f1, _, m1⟩ := finv_amOp h hstep
        apply ih s1 _ f1
        intro p hp
        rcases List.mem_append.mp hp with hp | hp
        · exact m1 p (Or.inr (hl p hp))
        · exact m1 p (Or.inl hp)

/-- after any history on a fresh device of `4096 * 2^F` bytes: no live page inside a free block, free blocks
pairwise disjoint and listed once -/
theorem runLive_safe (F base : Nat) (ops : List Op) :
    NoLiveInFree (runLive (init base (4096 * 2 ^ F)) [] ops).st (runLive (init base (4096 * 2 ^ F)) [] ops).live ∧
    FreeDisjoint (runLive (init base (4096 * 2 ^ F)) [] ops).st := by
  obtain ⟨f, m⟩ := finv_runLive ops (init base (4096 * 2 ^ F)) [] (finv_init F base) (by simp)
  exact f.safe _ m

end C10.Buddy
