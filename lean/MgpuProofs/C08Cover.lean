import MgpuModel.C08
import MgpuProofs.C08Enum
/-! Helper lemmas for C08: work-items cover the grid; per-GPU ranges; partition ranges. -/
namespace C08

/-- global id of a work-item of a work-group -/
def globalOf (g : Geo) (w : WG) (it : Coord) : Coord :=
  (w.id.1 * g.wx + it.1, w.id.2.1 * g.wy + it.2.1, w.id.2.2 * g.wz + it.2.2)

/-- global ids of the work-items of all produced work-groups, in production order -/
def allItems (g : Geo) : List Coord :=
  (allWGs g).flatMap fun w => (spawn w.sz).map (globalOf g w)

theorem axis_fwd (g w i x : Nat) (hg : 0 < g) (hw : 0 < w) (hi : i < nwg g w) (hx : x < min (g - i * w) w) :
    i * w + x < g ∧ (i * w + x) / w = i ∧ (i * w + x) % w = x := by
  have h1 := (lt_nwg g w i hg hw).mp hi
  have hxw : x < w := by omega
  refine ⟨by omega, ?_, ?_⟩
  · rw [Nat.add_comm, Nat.add_mul_div_right _ _ hw, Nat.div_eq_of_lt hxw, Nat.zero_add]
  · rw [Nat.add_comm, Nat.add_mul_mod_self_right, Nat.mod_eq_of_lt hxw]

theorem axis_bwd (g w X : Nat) (hg : 0 < g) (hw : 0 < w) (hX : X < g) :
    X / w < nwg g w ∧ X % w < min (g - X / w * w) w ∧ X / w * w + X % w = X := by
  have h1 := Nat.div_mul_le_self X w
  have h2 := Nat.div_add_mod' X w
  have h3 := Nat.mod_lt X hw
  refine ⟨(lt_nwg g w _ hg hw).mpr (by omega), by omega, h2⟩

theorem allItems_eq (g : Geo) :
    allItems g = (List.range g.total).flatMap fun n => (spawn (wgAt g n).sz).map (globalOf g (wgAt g n)) := by
  unfold allItems allWGs
  rw [List.flatMap_map]

theorem allItems_nodup (g : Geo) (hv : g.Valid) : (allItems g).Nodup := by
  rw [allItems_eq]
  apply nodup_flatMap_key _ _ (fun P : Coord => lin g (P.1 / g.wx, P.2.1 / g.wy, P.2.2 / g.wz)) List.nodup_range
  · intro n hn
    have hb := coordOf_bounds g n (List.mem_range.mp hn)
    apply nodup_map_key _ _ (fun P : Coord => (P.1 % g.wx, P.2.1 % g.wy, P.2.2 % g.wz)) (spawn_nodup _)
    intro it hit
    obtain ⟨x, y, z⟩ := it
    have hm := mem_spawn.mp hit
    simp only [wgAt, sizesOf] at hm
    have ax := axis_fwd g.gx g.wx _ x hv.gx hv.wx hb.1 hm.1
    have ay := axis_fwd g.gy g.wy _ y hv.gy hv.wy hb.2.1 hm.2.1
    have az := axis_fwd g.gz g.wz _ z hv.gz hv.wz hb.2.2 hm.2.2
    simp only [globalOf, wgAt, ax.2.2, ay.2.2, az.2.2]
  · intro n hn P hP
    have hb := coordOf_bounds g n (List.mem_range.mp hn)
    rcases List.mem_map.mp hP with ⟨it, hit, rfl⟩
    obtain ⟨x, y, z⟩ := it
    have hm := mem_spawn.mp hit
    simp only [wgAt, sizesOf] at hm
    have ax := axis_fwd g.gx g.wx _ x hv.gx hv.wx hb.1 hm.1
    have ay := axis_fwd g.gy g.wy _ y hv.gy hv.wy hb.2.1 hm.2.1
    have az := axis_fwd g.gz g.wz _ z hv.gz hv.wz hb.2.2 hm.2.2
    simp only [globalOf, wgAt, ax.2.1, ay.2.1, az.2.1]
    exact lin_coordOf g n

theorem mem_allItems (g : Geo) (hv : g.Valid) (P : Coord) :
    P ∈ allItems g ↔ P.1 < g.gx ∧ P.2.1 < g.gy ∧ P.2.2 < g.gz := by
  rw [allItems_eq]
  simp only [List.mem_flatMap, List.mem_map, List.mem_range]
  constructor
  · rintro ⟨n, hn, it, hit, rfl⟩
    have hb := coordOf_bounds g n hn
    obtain ⟨x, y, z⟩ := it
    have hm := mem_spawn.mp hit
    simp only [wgAt, sizesOf] at hm
    have ax := axis_fwd g.gx g.wx _ x hv.gx hv.wx hb.1 hm.1
    have ay := axis_fwd g.gy g.wy _ y hv.gy hv.wy hb.2.1 hm.2.1
    have az := axis_fwd g.gz g.wz _ z hv.gz hv.wz hb.2.2 hm.2.2
    exact ⟨ax.1, ay.1, az.1⟩
  · rintro ⟨hx, hy, hz⟩
    obtain ⟨X, Y, Z⟩ := P
    simp only at hx hy hz
    have bx := axis_bwd g.gx g.wx X hv.gx hv.wx hx
    have by' := axis_bwd g.gy g.wy Y hv.gy hv.wy hy
    have bz := axis_bwd g.gz g.wz Z hv.gz hv.wz hz
    let c : Coord := (X / g.wx, Y / g.wy, Z / g.wz)
    have hc : coordOf g (lin g c) = c := coordOf_lin g c bx.1 by'.1
    refine ⟨lin g c, lin_lt g c bx.1 by'.1 bz.1, (X % g.wx, Y % g.wy, Z % g.wz), ?_, ?_⟩
    · apply mem_spawn.mpr
      simp only [wgAt, sizesOf, hc]
      exact ⟨bx.2.1, by'.2.1, bz.2.1⟩
    · simp only [globalOf, wgAt, hc]
      simp only [c, bx.2.2, by'.2.2, bz.2.2]

/-! ### per-GPU ranges -/

theorem wgDist_length (per : Nat) (cus : List Nat) (acc : Nat) : (wgDist per cus acc).length = cus.length + 1 := by
  induction cus generalizing acc with
  | nil => rfl
  | cons c cs ih => simp [wgDist, ih]

theorem wgDist_head (per : Nat) (cus : List Nat) (acc : Nat) : (wgDist per cus acc).getD 0 0 = acc := by
  cases cus <;> simp [wgDist]

theorem wgDist_ge (per : Nat) (cus : List Nat) : ∀ acc i, i ≤ cus.length → acc ≤ (wgDist per cus acc).getD i 0 := by
  induction cus with
  | nil => intro acc i hi; have : i = 0 := by simpa using hi
           subst this; simp [wgDist]
  | cons c cs ih =>
    intro acc i hi
    cases i with
    | zero => simp [wgDist]
    | succ j =>
      simp only [wgDist, List.getD_cons_succ]
      have := ih (acc + c * per) j (by simpa using hi)
      omega

/-- consecutive: each range starts where the previous one ended and has `cu·per` elements -/
theorem wgDist_step (per : Nat) (cus : List Nat) : ∀ acc i, (h : i < cus.length) →
    (wgDist per cus acc).getD (i + 1) 0 = (wgDist per cus acc).getD i 0 + cus[i] * per := by
  induction cus with
  | nil => intro acc i h; cases h
  | cons c cs ih =>
    intro acc i h
    cases i with
    | zero => simp only [wgDist, List.getD_cons_succ, List.getD_cons_zero, wgDist_head, List.getElem_cons_zero]
    | succ j =>
      simp only [wgDist, List.getD_cons_succ, List.getElem_cons_succ]
      exact ih (acc + c * per) j (by simpa using h)

theorem wgDist_cover (per : Nat) (cus : List Nat) : ∀ acc f, acc ≤ f → f < acc + cus.sum * per →
    ∃ i, i < cus.length ∧ (wgDist per cus acc).getD i 0 ≤ f ∧ f < (wgDist per cus acc).getD (i + 1) 0 := by
  induction cus with
  | nil => intro acc f h1 h2; simp at h2; omega
  | cons c cs ih =>
    intro acc f h1 h2
    rw [List.sum_cons, Nat.add_mul] at h2
    by_cases hf : f < acc + c * per
    · refine ⟨0, by simp, ?_, ?_⟩
      · simp only [wgDist, List.getD_cons_zero]; exact h1
      · simp only [wgDist, List.getD_cons_succ, wgDist_head]; exact hf
    · obtain ⟨i, hi, a, b⟩ := ih (acc + c * per) f (by omega) (by omega)
      exact ⟨i + 1, by simpa using hi, by simpa [wgDist] using a, by simpa [wgDist] using b⟩

theorem wgDist_unique (per : Nat) (cus : List Nat) : ∀ acc i j f, i < cus.length → j < cus.length →
    (wgDist per cus acc).getD i 0 ≤ f → f < (wgDist per cus acc).getD (i + 1) 0 →
    (wgDist per cus acc).getD j 0 ≤ f → f < (wgDist per cus acc).getD (j + 1) 0 → i = j := by
  induction cus with
  | nil => intro acc i j f hi; cases hi
  | cons c cs ih =>
    intro acc i j f hi hj a b c' d
    cases i with
    | zero =>
      cases j with
      | zero => rfl
      | succ j =>
        exfalso
        simp only [wgDist, List.getD_cons_succ, wgDist_head] at b c'
        have := wgDist_ge per cs (acc + c * per) j (by simp at hj; omega)
        omega
    | succ i =>
      cases j with
      | zero =>
        exfalso
        simp only [wgDist, List.getD_cons_succ, wgDist_head] at a d
        have := wgDist_ge per cs (acc + c * per) i (by simp at hi; omega)
        omega
      | succ j =>
        simp only [wgDist, List.getD_cons_succ] at a b c' d
        have := ih (acc + c * per) i j f (by simpa using hi) (by simpa using hj) a b c' d
        omega

/-- the ranges reach the total: `total ≤ Σcu · ceil(total / Σcu)` — the driver's panic is dead code -/
theorem wg_all_allocated (total sumCU : Nat) (hc : 0 < sumCU) (ht : 0 < total) :
    total ≤ sumCU * wgPerCU total sumCU := by
  unfold wgPerCU
  have := Nat.div_add_mod (total - 1) sumCU
  have hm := Nat.mod_lt (total - 1) hc
  rw [Nat.mul_add, Nat.mul_one]
  omega

/-- the filter closure's flattened id is the linear index -/
theorem filter_flat (g : Geo) (c : Coord) : c.2.2 * g.nx * g.ny + c.2.1 * g.nx + c.1 = lin g c := by
  unfold lin
  rw [Nat.add_mul, Nat.mul_assoc, Nat.mul_assoc, Nat.mul_comm g.nx g.ny]

/-! ### partition ranges -/

theorem chunks_take {α : Type} (l : List α) (per : Nat) (P : Nat) :
    (List.range P).flatMap (fun i => (l.drop (i * per)).take per) = l.take (P * per) := by
  induction P with
  | zero => simp
  | succ P ih =>
    rw [List.range_succ, List.flatMap_append, ih, Nat.succ_mul, List.take_add]
    simp

/-! ### counting over a family of filters of which exactly one accepts each element -/

theorem sum_map_add {α : Type} (R : List α) (f h : α → Nat) :
    (R.map fun i => f i + h i).sum = (R.map f).sum + (R.map h).sum := by
  induction R with
  | nil => rfl
  | cons a R ih => simp only [List.map_cons, List.sum_cons, ih]; omega

theorem indicator_sum (q : Nat → Bool) (i K : Nat) (hq : ∀ j, j < K → (q j = true ↔ j = i)) :
    ∀ k, k ≤ K → ((List.range k).map fun j => if q j then 1 else 0).sum = if i < k then 1 else 0 := by
  intro k
  induction k with
  | zero => intro _; simp
  | succ k ih =>
    intro hk
    rw [List.range_succ, List.map_append, List.sum_append, ih (by omega)]
    simp only [List.map_cons, List.map_nil, List.sum_cons, List.sum_nil, Nat.add_zero]
    have := hq k (by omega)
    by_cases hki : k = i
    · have hqk : q k = true := this.mpr hki
      simp only [hqk, if_true]
      have h1 : ¬ i < k := by omega
      have h2 : i < k + 1 := by omega
      simp [h1, h2]
    · have hqk : q k = false := by
        cases hqk : q k
        · rfl
        · exact absurd (this.mp hqk) hki
      simp only [hqk]
      by_cases hik : i < k
      · have : i < k + 1 := by omega
        simp [hik, this]
      · have : ¬ i < k + 1 := by omega
        simp [hik, this]

theorem sum_countP_partition {α : Type} (L : List α) (k : Nat) (p : Nat → α → Bool)
    (h : ∀ a ∈ L, ∃ i, i < k ∧ p i a = true ∧ ∀ j, j < k → p j a = true → j = i) :
    ((List.range k).map fun i => L.countP (p i)).sum = L.length := by
  induction L with
  | nil =>
    simp only [List.countP_nil, List.length_nil]
    generalize List.range k = R
    induction R with
    | nil => rfl
    | cons x R ih => simpa using ih
  | cons a L ih =>
    have e : (fun i => (a :: L).countP (p i)) = fun i => L.countP (p i) + (if p i a then 1 else 0) := by
      funext i; rw [List.countP_cons]
    rw [e, sum_map_add, ih (fun b hb => h b (List.mem_cons_of_mem _ hb))]
    obtain ⟨i, hi, hpi, hu⟩ := h a List.mem_cons_self
    have := indicator_sum (fun j => p j a) i k (fun j hj => ⟨fun hj' => hu j hj hj', fun hj' => hj' ▸ hpi⟩) k (Nat.le_refl _)
    rw [this]
    simp [hi]

end C08
