import MgpuProofs.C14Eval
/-! # C14 — legal schedules and the invariant along them -/
namespace C14

/-- the issue rules of the scheduler and its units: only a Ready wavefront issues, only a
    wavefront that is Running in a unit (not inside the scheduler, not an `s_barrier`) is finished by
    that unit. Memory traffic, evaluation rounds and draining are unrestricted. The sampling event
    `wfComp` is not part of the runs the theorems are about. -/
def legal (s : State) : Op → Bool
  | .issue i _ _ _ => s.wfs.any (fun w => w.id == i) && s.wfs.all (fun w => w.id != i || w.state == .ready)
  | .issueUnit i => s.wfs.any (fun w => w.id == i) && s.wfs.all (fun w => w.id != i || w.state == .ready)
  | .unitDone i => s.wfs.any (fun w => w.id == i) &&
      s.wfs.all (fun w => w.id != i || (w.state == .running && w.op != 10)) && !s.exec.contains i
  | .wfComp _ => false
  | _ => true

def legalRun (c : Cfg) : State → List Op → Bool
  | _, [] => true
  | s, o :: ops => legal s o && legalRun c (step c s o).1 ops

/-- freshly dispatched work-groups: every wavefront Ready, nothing inside the scheduler; the
    contents of the barrier buffer and of the ToACE port are arbitrary -/
def Init (s : State) : Prop :=
  s.exec = [] ∧ s.fault = false ∧ s.wfs.Pairwise (fun a b => a.id ≠ b.id) ∧
  ∀ w ∈ s.wfs, w.state = .ready ∧ w.arr = 0 ∧ w.bar = 0

theorem Init_Inv {s : State} (h : Init s) : Inv s := by
  obtain ⟨h1, h2, h3, h4⟩ := h
  constructor
  · exact h3
  · exact h2
  · intro w _ hin; rw [h1] at hin; cases hin
  · intro w _ hin; cases hin
  · rw [h1]; exact List.nodup_nil
  · intro w hw
    obtain ⟨a, b, c⟩ := h4 w hw
    refine ⟨?_, ?_, ?_⟩
    · intro hh; rw [a] at hh; cases hh
    · intro _; rw [b, c]
    · intro hh; rw [a] at hh; cases hh
  · intro u hu v hv _ _
    rw [(h4 u hu).2.2, (h4 v hv).2.2]; exact Nat.le_refl 0

/-- from `Inv s` and a wavefront `i` that is not inside the scheduler: the loop invariant with `i`
    as the only entry to visit -/
theorem Inv_single {s : State} {i : Nat} {w : Wf} (h : Inv s) (hw : w ∈ s.wfs) (hi : w.id = i)
    (hst : Good w ∨ w.state = .ready) (hni : i ∉ s.exec) : LInv s [i] := by
  constructor
  · exact h.ids
  · exact h.nofault
  · exact h.execSt
  · intro v hv hin
    have : v.id = i := by simpa using hin
    have : v = w := uniq h.ids hv hw (this.trans hi.symm)
    subst this; exact hst
  · have := h.nodup
    simp only [List.append_nil] at this
    rw [List.nodup_append]
    refine ⟨this, by simp, ?_⟩
    intro a ha b hb hab
    have : b = i := by simpa using hb
    exact hni (by rw [← this, ← hab]; exact ha)
  · exact h.ghost
  · exact h.bars

theorem ready_not_in_exec {s : State} {w : Wf} (h : Inv s) (hw : w ∈ s.wfs) (hr : w.state = .ready) :
    w.id ∉ s.exec := by
  intro hin
  rcases h.execSt w hw hin with hg | hg
  · rw [hr] at hg; cases hg
  · rw [hr] at hg; cases hg.1

theorem memRetWf_fields (k : Nat) (l : Bool) (v : Wf) :
    (memRetWf k l v).id = v.id ∧ (memRetWf k l v).wg = v.wg ∧ (memRetWf k l v).state = v.state ∧
    (memRetWf k l v).op = v.op ∧ (memRetWf k l v).arr = v.arr ∧ (memRetWf k l v).bar = v.bar := by
  unfold memRetWf
  split
  · exact ⟨rfl, rfl, rfl, rfl, rfl, rfl⟩
  · split
    · exact ⟨rfl, rfl, rfl, rfl, rfl, rfl⟩
    · split
      · exact ⟨rfl, rfl, rfl, rfl, rfl, rfl⟩
      · split <;> exact ⟨rfl, rfl, rfl, rfl, rfl, rfl⟩

theorem step_Inv {c : Cfg} (hA : c.fixA = true) (hB : c.fixB = true) {s : State} {o : Op} (h : Inv s)
    (hl : legal s o = true) : Inv (step c s o).1 := by
  cases o with
  | eval => exact evalInternal_Inv hA hB h
  | wfComp i => simp [legal] at hl
  | drain k => exact LInv.congr h rfl rfl rfl
  | memIssue i v =>
    refine LInv_same (fun w => if w.id = i then
        (if v then { w with osc := w.osc + 1, ovc := w.ovc + 1 } else { w with osc := w.osc + 1 }) else w)
      h ?_ ?_ ?_ ?_ ?_ ?_ _ rfl rfl rfl
    all_goals
      intro w
      split
      · split <;> rfl
      · rfl
  | memRet i k l =>
    refine LInv_same (fun w => if w.id = i then memRetWf k l w else w) h ?_ ?_ ?_ ?_ ?_ ?_ _ rfl rfl rfl
    · intro w
      split
      · exact (memRetWf_fields k l w).1
      · rfl
    · intro w
      split
      · exact (memRetWf_fields k l w).2.1
      · rfl
    · intro w
      split
      · exact (memRetWf_fields k l w).2.2.1
      · rfl
    · intro w
      split
      · exact (memRetWf_fields k l w).2.2.2.1
      · rfl
    · intro w
      split
      · exact (memRetWf_fields k l w).2.2.2.2.1
      · rfl
    · intro w
      split
      · exact (memRetWf_fields k l w).2.2.2.2.2
      · rfl
  | issue i op lk vm =>
    simp only [legal, Bool.and_eq_true, List.any_eq_true, List.all_eq_true, beq_iff_eq, Bool.or_eq_true,
      bne_iff_ne] at hl
    obtain ⟨⟨w, hw, hi⟩, hall⟩ := hl
    have hr : w.state = .ready := by
      rcases hall w hw with hh | hh
      · exact absurd hi hh
      · exact hh
    have hni : i ∉ s.exec := hi ▸ ready_not_in_exec h hw hr
    have hW : W (issueWf op lk vm w) := by
      have := (h.ghost w hw).2.1 hr
      refine ⟨?_, ?_, ?_⟩
      · intro _
        constructor
        · intro ho; simp only [issueWf] at ho ⊢; rw [if_pos ho, this]
        · intro ho; simp only [issueWf] at ho ⊢; rw [if_neg ho, this]
      · intro hh; cases hh
      · intro hh; cases hh
    exact LInv_upd (issueWf op lk vm) true (Inv_single h hw hi (Or.inr hr) hni) hw hi (fun _ => rfl)
      (fun _ => rfl) (fun _ => rfl) hW (fun _ => Or.inl rfl) (by rw [hr]; decide) _ rfl rfl rfl
  | issueUnit i =>
    simp only [legal, Bool.and_eq_true, List.any_eq_true, List.all_eq_true, beq_iff_eq, Bool.or_eq_true,
      bne_iff_ne] at hl
    obtain ⟨⟨w, hw, hi⟩, hall⟩ := hl
    have hr : w.state = .ready := by
      rcases hall w hw with hh | hh
      · exact absurd hi hh
      · exact hh
    have hni : i ∉ s.exec := hi ▸ ready_not_in_exec h hw hr
    have hW : W ({ w with state := .running, op := 99, lk := 0, vm := 0 } : Wf) := by
      have := (h.ghost w hw).2.1 hr
      refine ⟨?_, ?_, ?_⟩
      · intro _
        constructor
        · intro ho; simp at ho
        · intro _; exact this
      · intro hh; cases hh
      · intro hh; cases hh
    exact LInv_upd (fun w => { w with state := .running, op := 99, lk := 0, vm := 0 }) false
      (Inv_single h hw hi (Or.inr hr) hni) hw hi (fun _ => rfl)
      (fun _ => rfl) (fun _ => rfl) hW (fun hh => by cases hh) (by rw [hr]; decide) _ rfl rfl rfl
  | unitDone i =>
    simp only [legal, Bool.and_eq_true, List.any_eq_true, List.all_eq_true, beq_iff_eq, Bool.or_eq_true,
      bne_iff_ne, Bool.not_eq_true', List.contains_eq_mem, decide_eq_false_iff_not] at hl
    obtain ⟨⟨⟨w, hw, hi⟩, hall⟩, hni⟩ := hl
    have hr : w.state = .running ∧ w.op ≠ 10 := by
      rcases hall w hw with hh | hh
      · exact absurd hi hh
      · exact hh
    have hW : W (setReady w) := by
      have := ((h.ghost w hw).1 hr.1).2 hr.2
      refine ⟨?_, ?_, ?_⟩
      · intro hh; cases hh
      · intro _; exact this
      · intro hh; cases hh
    exact LInv_upd setReady false (Inv_single h hw hi (Or.inl (Or.inl hr.1)) hni) hw hi (fun _ => rfl)
      (fun _ => rfl) (fun _ => rfl) hW (fun hh => by cases hh) (by rw [hr.1]; decide) _ rfl rfl rfl

theorem run_Inv {c : Cfg} (hA : c.fixA = true) (hB : c.fixB = true) (ops : List Op) {s : State} (h : Inv s)
    (hl : legalRun c s ops = true) : Inv (run c s ops) := by
  unfold run
  induction ops generalizing s with
  | nil => exact h
  | cons o ops ih =>
    simp only [legalRun, Bool.and_eq_true] at hl
    exact ih (step_Inv hA hB h hl.1) hl.2

end C14
