import MgpuProofs.C07Run
import MgpuProofs.C09Res
set_option linter.unusedVariables false
set_option linter.unusedSimpArgs false
/-! # C07 helper lemmas: the register windows handed out by the resource allocator (`CUResourceImpl`,
model `MgpuModel/C09_Res.lean`, invariant `C09.Inv` of `MgpuProofs/C09Res2.lean`) are pairwise
byte-disjoint and inside the register files, in every reachable allocator state -/
namespace C07
open Gen

/-- shape of the masks of a compute unit with a `64·sUnits`-byte scalar file and `nsimd` vector files
    of 64 lane rows of `16·vUnits` bytes -/
structure CUShape (cu : C09.CU) (sUnits vUnits nsimd : Nat) : Prop where
  s : ∃ ms, cu.smask = .lim ms ∧ ms.length = sUnits
  vlen : cu.vmasks.length = nsimd
  v : ∀ k (h : k < cu.vmasks.length), ∃ mv, cu.vmasks[k] = .lim mv ∧ mv.length = vUnits

/-- the shipped compute unit (`cu.MakeBuilder`: 4 SIMDs × 10 wavefront slots, 3200 SGPRs,
    16384 VGPRs per SIMD, 64 KiB LDS) as `RegisterCU` sees it -/
def shippedCU : Option C09.CU :=
  C09.mkCU C09.shippedWf (some C09.shippedSRegs) (C09.shippedVRegs.map some) (some C09.shippedLDS)


/-! ### shapes never change -/

theorem shape_nextRegion (M : C09.Mask) (a b : Nat) : (M.nextRegion a b).2.shape = M.shape := by
  cases M <;> rfl

theorem shape_setStatus (M : C09.Mask) (a b c : Nat) : (M.setStatus a b c).shape = M.shape := by
  cases M <;> simp [C09.Mask.setStatus, C09.Mask.shape, C09.length_setStatusL]

theorem shape_convert (M : C09.Mask) (a b : Nat) : (M.convert a b).shape = M.shape := by
  cases M <;> simp [C09.Mask.convert, C09.Mask.shape, C09.length_convertL]

theorem sgprLoop_shape (req : Nat) : ∀ (n : Nat) (M : C09.Mask), (C09.sgprLoop req n M).2.shape = M.shape := by
  intro n
  induction n with
  | zero => intro M; rfl
  | succ n ih =>
    intro M
    have hn := shape_nextRegion M req C09.stFree
    rcases hnr : M.nextRegion req C09.stFree with ⟨_ | off, M1⟩
    · rw [hnr] at hn; simp only [C09.sgprLoop, hnr]; exact hn
    · rw [hnr] at hn; simp only [C09.sgprLoop, hnr]; rw [ih, shape_setStatus]; exact hn

theorem map_shape_set (l : List C09.Mask) (i : Nat) (x : C09.Mask)
    (hx : ∀ y, l[i]? = some y → x.shape = y.shape) :
    (l.set i x).map C09.Mask.shape = l.map C09.Mask.shape := by
  apply List.ext_getElem?
  intro j
  simp only [List.getElem?_map, List.getElem?_set]
  split
  · next h =>
    subst h
    split
    · next hlt =>
      rw [List.getElem?_eq_getElem hlt]
      simp only [Option.map_some]
      rw [hx _ (List.getElem?_eq_getElem hlt)]
    · next hge => rw [List.getElem?_eq_none (Nat.le_of_not_lt hge)]
  · rfl

theorem simdTry_shape (req : Nat) (wf : List Nat) : ∀ (t : Nat) (st : C09.MatchSt),
    (C09.simdTry req wf t st).2.vmasks.map C09.Mask.shape = st.vmasks.map C09.Mask.shape := by
  intro t
  induction t with
  | zero => intro st; rfl
  | succ t ih =>
    intro st
    have h1 : (st.vmasks.set st.next ((st.vmasks.getD st.next (.lim [])).nextRegion req C09.stFree).2).map
        C09.Mask.shape = st.vmasks.map C09.Mask.shape := by
      apply map_shape_set
      intro y hy
      rw [shape_nextRegion, List.getD_eq_getElem?_getD, hy]; rfl
    have h2 : ∀ off, ((st.vmasks.set st.next ((st.vmasks.getD st.next (.lim [])).nextRegion req C09.stFree).2).set
        st.next (((st.vmasks.getD st.next (.lim [])).nextRegion req C09.stFree).2.setStatus off req C09.stToRes)).map
        C09.Mask.shape = st.vmasks.map C09.Mask.shape := by
      intro off
      rw [← h1]
      apply map_shape_set
      intro y hy
      rw [List.getElem?_set] at hy
      simp only [if_true] at hy
      split at hy
      · injection hy with hy; subst hy; exact shape_setStatus _ _ _ _
      · cases hy
    simp only [C09.simdTry]
    split
    · split
      · exact h2 _
      · rw [ih]; exact h1
    · rw [ih]; exact h1

theorem matchLoop_shape (req : Nat) (wf : List Nat) : ∀ (n : Nat) (st : C09.MatchSt),
    (C09.matchLoop req wf n st).2.vmasks.map C09.Mask.shape = st.vmasks.map C09.Mask.shape := by
  intro n
  induction n with
  | zero => intro st; rfl
  | succ n ih =>
    intro st
    have hs := simdTry_shape req wf wf.length st
    rcases hst : C09.simdTry req wf wf.length st with ⟨_ | p, st1⟩
    · rw [hst] at hs; simp only [C09.matchLoop, hst]; exact hs
    · rw [hst] at hs; simp only [C09.matchLoop, hst]; rw [ih]; exact hs

/-- the masks of `cu'` have the shapes of the masks of `cu` -/
def SameShape (cu cu' : C09.CU) : Prop :=
  cu'.smask.shape = cu.smask.shape ∧ cu'.vmasks.map C09.Mask.shape = cu.vmasks.map C09.Mask.shape

theorem SameShape.refl (cu : C09.CU) : SameShape cu cu := ⟨rfl, rfl⟩

theorem SameShape.trans {a b c : C09.CU} (h1 : SameShape a b) (h2 : SameShape b c) : SameShape a c :=
  ⟨h2.1.trans h1.1, h2.2.trans h1.2⟩

theorem map_shape_convert (l : List C09.Mask) (a b : Nat) :
    (l.map (·.convert a b)).map C09.Mask.shape = l.map C09.Mask.shape := by
  rw [List.map_map]
  apply List.map_congr_left
  intro M _
  exact shape_convert M a b

theorem clearTemp_shape (cu : C09.CU) : SameShape cu (C09.clearTemp cu) :=
  ⟨shape_convert _ _ _, map_shape_convert _ _ _⟩

theorem reserve_shape (cu : C09.CU) (key : Nat) (d : C09.Dem) : SameShape cu (C09.reserve cu key d).2 := by
  have hs := sgprLoop_shape (C09.units d.s C09.sGran) d.nwf cu.smask
  have hm := fun st => matchLoop_shape (C09.units d.v C09.vGran) cu.wfFree d.nwf st
  unfold C09.reserve
  simp only []
  split
  · exact ⟨(shape_convert _ _ _).trans hs, map_shape_convert _ _ _⟩
  · split
    · exact ⟨(shape_convert _ _ _).trans hs, map_shape_convert _ _ _⟩
    · split
      · exact ⟨(shape_convert _ _ _).trans hs, (map_shape_convert _ _ _).trans (hm _)⟩
      · split
        · exact ⟨(shape_convert _ _ _).trans hs, (map_shape_convert _ _ _).trans (hm _)⟩
        · exact ⟨(shape_convert _ _ _).trans hs, (map_shape_convert _ _ _).trans (hm _)⟩

theorem freeLoc_shape (d : C09.Dem) (cu : C09.CU) (l : C09.Loc) : SameShape cu (C09.freeLoc d cu l) := by
  refine ⟨shape_setStatus _ _ _ _, ?_⟩
  simp only [C09.freeLoc]
  apply map_shape_set
  intro y hy
  rw [shape_setStatus, List.getD_eq_getElem?_getD, hy]; rfl

theorem foldl_freeLoc_shape (d : C09.Dem) (locs : List C09.Loc) : ∀ cu : C09.CU,
    SameShape cu (locs.foldl (C09.freeLoc d) cu) := by
  induction locs with
  | nil => intro cu; exact SameShape.refl cu
  | cons l locs ih => intro cu; exact (freeLoc_shape d cu l).trans (ih _)

theorem free_shape (cu cu' : C09.CU) (key : Nat) (h : C09.free cu key = some cu') : SameShape cu cu' := by
  unfold C09.free at h
  split at h
  · cases h
  · next d locs _ =>
    injection h with h
    subst h
    exact foldl_freeLoc_shape d locs cu

theorem shape_eq_some (M : C09.Mask) (a : Nat) : M.shape = some a ↔ ∃ ms, M = .lim ms ∧ ms.length = a := by
  cases M <;> simp [C09.Mask.shape]

theorem cuShape_iff (cu : C09.CU) (a b n : Nat) :
    CUShape cu a b n ↔ cu.smask.shape = some a ∧ cu.vmasks.map C09.Mask.shape = List.replicate n (some b) := by
  rw [List.eq_replicate_iff, List.forall_mem_map, List.forall_mem_iff_forall_getElem, List.length_map, shape_eq_some]
  constructor
  · rintro ⟨h1, h2, h3⟩
    exact ⟨h1, h2, fun k hk => (shape_eq_some _ _).2 (h3 k hk)⟩
  · rintro ⟨h1, h2, h3⟩
    exact ⟨h1, h2, fun k hk => (shape_eq_some _ _).1 (h3 k hk)⟩

theorem CUShape.of_same {cu cu' : C09.CU} {a b n : Nat} (h : SameShape cu cu') (hs : CUShape cu a b n) :
    CUShape cu' a b n := by
  rw [cuShape_iff] at hs ⊢
  exact ⟨h.1.trans hs.1, h.2.trans hs.2⟩

theorem stepR_same (cu cu' : C09.CU) (op : C09.ROp) (h : C09.stepR cu op = some cu') : SameShape cu cu' := by
  cases op with
  | reserve k d =>
    have hr := reserve_shape cu k d
    simp only [C09.stepR] at h
    split at h
    · cases h
    · next r c hne heq =>
      injection h with h
      subst h
      rw [heq] at hr
      exact hr
  | free k => exact free_shape cu cu' k h

/-- `ReserveResourceForWG` / `FreeResourcesForWG` never change the size of a mask -/
theorem stepR_shape (cu cu' : C09.CU) (op : C09.ROp) (a b n : Nat) (h : C09.stepR cu op = some cu')
    (hs : CUShape cu a b n) : CUShape cu' a b n :=
  CUShape.of_same (stepR_same cu cu' op h) hs

theorem runR_shape (ops : List C09.ROp) : ∀ (cu cu' : C09.CU) (a b n : Nat), C09.runR cu ops = some cu' →
    CUShape cu a b n → CUShape cu' a b n := by
  induction ops with
  | nil =>
    intro cu cu' a b n h hs
    simp only [C09.runR, Option.some.injEq] at h
    subst h
    exact hs
  | cons op ops ih =>
    intro cu cu' a b n h hs
    simp only [C09.runR, Option.bind_eq_some_iff] at h
    obtain ⟨c, hc, hr⟩ := h
    exact ih c cu' a b n hr (stepR_shape cu c op a b n hc hs)

theorem shipped_shape (cu : C09.CU) (h : shippedCU = some cu) : CUShape cu 200 64 4 := by
  simp [shippedCU, C09.mkCU, C09.mkMask, C09.shippedWf, C09.shippedSRegs, C09.shippedVRegs, C09.shippedLDS,
    C09.sGran, C09.vGran, C09.lGran] at h
  subst h
  rw [cuShape_iff]
  exact ⟨rfl, rfl⟩

/-! ### from unit regions to byte windows -/

/-- the SGPR unit region of a wavefront -/
def fS (w : TWf) : Nat × Nat := (w.soff / 64, C09.units w.ns C09.sGran)
/-- the VGPR unit region of a wavefront (on its SIMD) -/
def fV (w : TWf) : Nat × Nat := (w.voff / 16, C09.units w.nv C09.vGran)

theorem sRegions_eq (cu : C09.CU) : C09.sRegions cu = (wfsOfCU cu).map fS := by
  simp only [C09.sRegions, wfsOfCU, List.map_flatMap, List.map_map]; rfl

theorem vRegions_eq (cu : C09.CU) (k : Nat) :
    C09.vRegions cu k = ((wfsOfCU cu).filter (·.simd = k)).map fV := by
  simp only [C09.vRegions, wfsOfCU, List.filter_flatMap, List.filter_map, List.map_flatMap, List.map_map]; rfl

theorem mem_wfsOfCU (cu : C09.CU) (w : TWf) : w ∈ wfsOfCU cu ↔ ∃ e ∈ cu.resident, ∃ l ∈ e.2.2,
    w = { simd := l.simd, soff := l.soff, voff := l.voff, ns := e.2.1.s, nv := e.2.1.v } := by
  simp only [wfsOfCU, List.mem_flatMap, List.mem_map]
  constructor
  · rintro ⟨e, he, l, hl, rfl⟩; exact ⟨e, he, l, hl, rfl⟩
  · rintro ⟨e, he, l, hl, rfl⟩; exact ⟨e, he, l, hl, rfl⟩

theorem ownS_disj (a b : TWf) (ha : a.soff % 64 = 0) (hb : b.soff % 64 = 0)
    (h : ∀ i, ¬ (C09.inR (fS a) i ∧ C09.inR (fS b) i)) : ∀ p, ¬ (ownS a p ∧ ownS b p) := by
  intro p ⟨h1, h2⟩
  have ua := C09.sgpr_bytes_fit 16 64 a.ns rfl rfl
  have ub := C09.sgpr_bytes_fit 16 64 b.ns rfl rfl
  apply h (p / 64)
  simp only [C09.inR, fS, C09.sGran]
  unfold ownS at h1 h2
  generalize C09.units a.ns 16 = x at *
  generalize C09.units b.ns 16 = y at *
  omega

theorem ownV_disj (a b : TWf) (ha : a.voff % 16 = 0) (hb : b.voff % 16 = 0)
    (hra : (fV a).1 + (fV a).2 ≤ 64) (hrb : (fV b).1 + (fV b).2 ≤ 64)
    (h : ∀ i, ¬ (C09.inR (fV a) i ∧ C09.inR (fV b) i)) : ∀ p, ¬ (ownV a p ∧ ownV b p) := by
  intro p ⟨h1, h2⟩
  have ua := C09.vgpr_bytes_fit 4 16 a.nv rfl rfl
  have ub := C09.vgpr_bytes_fit 4 16 b.nv rfl rfl
  unfold ownV inCleared at h1 h2
  obtain ⟨l, _, _, h1a, h1b⟩ := h1
  obtain ⟨l', _, _, h2a, h2b⟩ := h2
  simp only [fV, C09.vGran] at hra hrb
  apply h ((p - 1024 * l) / 16)
  simp only [C09.inR, fV, C09.vGran]
  generalize C09.units a.nv 4 = x at *
  generalize C09.units b.nv 4 = y at *
  have hl : l = l' := by omega
  subst hl
  omega

/-- **the allocator's windows**: in a state satisfying C09's invariant, with limited masks of
    `sUnits` / `vUnits` units, the windows of all live wavefronts are pairwise byte-disjoint, and each
    lies inside a `64·sUnits`-byte scalar file, inside one `16·vUnits`-byte lane row, on an existing SIMD -/
theorem allocator_windows (cap : List Nat) (cu : C09.CU) (sUnits vUnits : Nat) (hinv : C09.Inv cap cu)
    (hsh : CUShape cu sUnits vUnits cap.length) (hv64 : vUnits ≤ 64) :
    (wfsOfCU cu).Pairwise WindowsDisjoint ∧
    ∀ w ∈ wfsOfCU cu, w.soff + 4 * w.ns ≤ 64 * sUnits ∧ w.voff + 4 * w.nv ≤ 16 * vUnits ∧ w.simd < cap.length := by
  obtain ⟨⟨ms, hms, hmsl⟩, hvl, hv⟩ := hsh
  have hS := hinv.sOK
  rw [hms, sRegions_eq] at hS
  obtain ⟨-, hScap, hSpw⟩ := hS
  rw [List.pairwise_map] at hSpw
  have hV : ∀ k (hk : k < cu.vmasks.length),
      (∀ w ∈ wfsOfCU cu, w.simd = k → (fV w).1 + (fV w).2 ≤ vUnits) ∧
      (wfsOfCU cu).Pairwise (fun x y => x.simd = k → y.simd = k →
        ∀ i, ¬ (C09.inR (fV x) i ∧ C09.inR (fV y) i)) := by
    intro k hk
    obtain ⟨mv, hmv, hmvl⟩ := hv k hk
    have hk' := hinv.vOK k hk
    rw [hmv, vRegions_eq] at hk'
    obtain ⟨-, hc, hp⟩ := hk'
    rw [List.pairwise_map, List.pairwise_filter] at hp
    refine ⟨?_, ?_⟩
    · intro w hw hwk
      rw [← hmvl]
      exact hc (fV w) (List.mem_map_of_mem (List.mem_filter.2 ⟨hw, by simpa using hwk⟩))
    · refine hp.imp ?_
      intro x y hxy hx hy
      exact hxy (by simpa using hx) (by simpa using hy)
  have hal : ∀ w ∈ wfsOfCU cu, w.soff % 64 = 0 ∧ w.voff % 16 = 0 ∧ w.simd < cap.length := by
    intro w hw
    obtain ⟨e, he, l, hl, rfl⟩ := (mem_wfsOfCU cu w).1 hw
    have := hinv.aligned e he l hl
    exact ⟨this.1, this.2.1, hinv.simdOK e he l hl⟩
  have hvin : ∀ w ∈ wfsOfCU cu, (fV w).1 + (fV w).2 ≤ vUnits := by
    intro w hw
    have hk : w.simd < cu.vmasks.length := by rw [hinv.vLen]; exact (hal w hw).2.2
    exact (hV w.simd hk).1 w hw rfl
  have hin : ∀ w ∈ wfsOfCU cu,
      w.soff + 4 * w.ns ≤ 64 * sUnits ∧ w.voff + 4 * w.nv ≤ 16 * vUnits ∧ w.simd < cap.length := by
    intro w hw
    obtain ⟨a1, a2, a3⟩ := hal w hw
    have h1 := hScap (fS w) (List.mem_map_of_mem hw)
    have h2 := hvin w hw
    have us := C09.sgpr_bytes_fit 16 64 w.ns rfl rfl
    have uv := C09.vgpr_bytes_fit 4 16 w.nv rfl rfl
    simp only [fS, fV, C09.sGran, C09.vGran] at h1 h2
    rw [hmsl] at h1
    generalize C09.units w.ns 16 = x at *
    generalize C09.units w.nv 4 = y at *
    refine ⟨?_, ?_, a3⟩ <;> omega
  refine ⟨?_, hin⟩
  rw [List.pairwise_iff_forall_sublist]
  intro a b hab
  have ha : a ∈ wfsOfCU cu := hab.subset (by simp)
  have hb : b ∈ wfsOfCU cu := hab.subset (by simp)
  obtain ⟨a1, a2, a3⟩ := hal a ha
  obtain ⟨b1, b2, b3⟩ := hal b hb
  refine ⟨ownS_disj a b a1 b1 (List.pairwise_iff_forall_sublist.1 hSpw hab), ?_⟩
  by_cases hsimd : a.simd = b.simd
  · right
    have hk : a.simd < cu.vmasks.length := by rw [hinv.vLen]; exact a3
    exact ownV_disj a b a2 b2 (Nat.le_trans (hvin a ha) hv64) (Nat.le_trans (hvin b hb) hv64)
      (List.pairwise_iff_forall_sublist.1 (hV a.simd hk).2 hab rfl hsimd.symm)
  · exact Or.inl hsimd

/-- the layout part of a wavefront record -/
def TWf.layout (w : TWf) : Nat × Nat × Nat × Nat × Nat := (w.simd, w.soff, w.voff, w.ns, w.nv)

theorem layout_eq {w w' : TWf} (h : w'.layout = w.layout) :
    w'.simd = w.simd ∧ w'.soff = w.soff ∧ w'.voff = w.voff ∧ w'.ns = w.ns ∧ w'.nv = w.nv := by
  simpa [TWf.layout] using h

theorem WindowsDisjoint.of_layout {a b a' b' : TWf} (ha : a'.layout = a.layout) (hb : b'.layout = b.layout)
    (h : WindowsDisjoint a b) : WindowsDisjoint a' b' := by
  obtain ⟨a1, a2, a3, a4, a5⟩ := layout_eq ha
  obtain ⟨b1, b2, b3, b4, b5⟩ := layout_eq hb
  unfold WindowsDisjoint ownS ownV at *
  rw [a1, a2, a3, a4, a5, b1, b2, b3, b4, b5]
  exact h

/-- **from the allocator to the register files**: a compute unit with the shipped register files
    whose resident wavefronts have the layouts the allocator recorded (any special-register values),
    each kernel using at most the 102 architectural SGPRs, satisfies the allocation invariant `Alloc`
    that the run-level refinement needs -/
theorem alloc_of_allocator (cap : List Nat) (cu : C09.CU) (t : TimingRF) (hinv : C09.Inv cap cu)
    (hsh : CUShape cu 200 64 cap.length)
    (hlay : t.wfs.toList.map TWf.layout = (wfsOfCU cu).map TWf.layout)
    (hsf : t.sfile.size = 12800) (hnv : t.vfiles.size = cap.length)
    (hvf : ∀ k (h : k < t.vfiles.size), t.vfiles[k].size = 65536)
    (hns : ∀ e ∈ cu.resident, e.2.1.s ≤ 102) : Alloc t := by
  obtain ⟨hpw, hin⟩ := allocator_windows cap cu 200 64 hinv hsh (Nat.le_refl _)
  have hlen : t.wfs.size = (wfsOfCU cu).length := by simpa using congrArg List.length hlay
  have hidx : ∀ i (hi : i < t.wfs.size),
      (t.wf i).layout = ((wfsOfCU cu)[i]'(hlen ▸ hi)).layout := by
    intro i hi
    have h1 := List.getElem_of_eq hlay (i := i) (by simpa using hi)
    simp only [List.getElem_map, Array.getElem_toList] at h1
    have h2 : t.wf i = t.wfs[i] := by simp [TimingRF.wf, hi]
    rw [h2]; exact h1
  rw [List.pairwise_iff_getElem] at hpw
  refine ⟨?_, ?_⟩
  · intro i hi
    have hw : (wfsOfCU cu)[i]'(hlen ▸ hi) ∈ wfsOfCU cu := List.getElem_mem _
    obtain ⟨b1, b2, b3⟩ := hin _ hw
    obtain ⟨e1, e2, e3, e4, e5⟩ := layout_eq (hidx i hi)
    refine ⟨?_, ?_, ?_, ?_, ?_⟩
    · rw [hsf, e2, e4]; omega
    · rw [e4]
      obtain ⟨e, he, l, hl, hweq⟩ := (mem_wfsOfCU cu _).1 hw
      rw [hweq]; exact hns e he
    · rw [hnv, e1]; exact b3
    · have hlt : (t.wf i).simd < t.vfiles.size := by rw [hnv, e1]; exact b3
      have := hvf _ hlt
      simp [TimingRF.vfileOf, hlt, this]
    · rw [e3, e5]; omega
  · intro i j hi hj hne
    rcases Nat.lt_or_gt_of_ne hne with hlt | hlt
    · exact WindowsDisjoint.of_layout (hidx i hi) (hidx j hj) (hpw i j (hlen ▸ hi) (hlen ▸ hj) hlt)
    · exact (WindowsDisjoint.of_layout (hidx j hj) (hidx i hi) (hpw j i (hlen ▸ hj) (hlen ▸ hi) hlt)).symm

end C07
