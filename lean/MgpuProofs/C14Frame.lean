import MgpuProofs.C14Run
/-! # C14 — frame facts: what one evaluated internal instruction leaves alone

`evalInst_frame`: the wavefront list after `evalInst c s w` is `s.wfs.map F` for an `F` that keeps
identity, group, opcode, thresholds, the outstanding counters and the ghost arrival count of every
wavefront, keeps ended wavefronts ended and parked/Ready ones parked/Ready, and does not touch any
*Running* wavefront other than `w`. Used by the completion-progress, wait-count and barrier
next-round theorems. -/
namespace C14

/-- fields no evaluation touches -/
def Pres (F : Wf → Wf) : Prop :=
  ∀ v, (F v).id = v.id ∧ (F v).wg = v.wg ∧ (F v).op = v.op ∧ (F v).arr = v.arr ∧ (F v).osc = v.osc ∧
    (F v).ovc = v.ovc ∧ (F v).lk = v.lk ∧ (F v).vm = v.vm

theorem Pres_id : Pres (fun v => v) := fun _ => ⟨rfl, rfl, rfl, rfl, rfl, rfl, rfl, rfl⟩

theorem Pres_comp {F G : Wf → Wf} (hF : Pres F) (hG : Pres G) : Pres (fun v => G (F v)) := by
  intro v
  obtain ⟨a1, a2, a3, a4, a5, a6, a7, a8⟩ := hF v
  obtain ⟨b1, b2, b3, b4, b5, b6, b7, b8⟩ := hG (F v)
  exact ⟨b1.trans a1, b2.trans a2, b3.trans a3, b4.trans a4, b5.trans a5, b6.trans a6, b7.trans a7,
    b8.trans a8⟩

theorem Pres_upd (i : Nat) {f : Wf → Wf} (hf : Pres f) : Pres (fun v => if v.id = i then f v else v) := by
  intro v
  dsimp only
  split
  · exact hf v
  · exact Pres_id v

theorem Pres_release (g : Nat) : Pres (release g) := by
  intro v; unfold release
  split <;> exact ⟨rfl, rfl, rfl, rfl, rfl, rfl, rfl, rfl⟩

theorem Pres_clr (g : Nat) : Pres (fun v => if v.wg = g then { v with inPool := false } else v) := by
  intro v
  dsimp only
  split <;> exact ⟨rfl, rfl, rfl, rfl, rfl, rfl, rfl, rfl⟩

theorem Pres_park : Pres park := fun _ => ⟨rfl, rfl, rfl, rfl, rfl, rfl, rfl, rfl⟩
theorem Pres_complete : Pres complete := fun _ => ⟨rfl, rfl, rfl, rfl, rfl, rfl, rfl, rfl⟩
theorem Pres_setReady : Pres setReady := fun _ => ⟨rfl, rfl, rfl, rfl, rfl, rfl, rfl, rfl⟩

/-- wavefronts other than `j`: ended stays ended, parked/Ready stays parked/Ready -/
def Quiet (j : Nat) (F : Wf → Wf) : Prop :=
  ∀ v, v.id ≠ j → (v.state = .completed → (F v).state = .completed) ∧
    ((v.state = .ready ∨ v.state = .atBarrier) → ((F v).state = .ready ∨ (F v).state = .atBarrier)) ∧
    (v.state ≠ .completed → (F v).state ≠ .completed)

theorem Quiet_id (j : Nat) : Quiet j (fun v => v) := fun _ _ => ⟨fun h => h, fun h => h, fun h => h⟩

theorem Quiet_comp {j : Nat} {F G : Wf → Wf} (hP : Pres F) (hF : Quiet j F) (hG : Quiet j G) :
    Quiet j (fun v => G (F v)) := by
  intro v hv
  have hv' : (F v).id ≠ j := by rw [(hP v).1]; exact hv
  exact ⟨fun h => (hG _ hv').1 ((hF v hv).1 h), fun h => (hG _ hv').2.1 ((hF v hv).2.1 h),
    fun h => (hG _ hv').2.2 ((hF v hv).2.2 h)⟩

theorem Quiet_upd (j : Nat) (f : Wf → Wf) : Quiet j (fun v => if v.id = j then f v else v) := by
  intro v hv
  dsimp only
  rw [if_neg hv]
  exact ⟨fun h => h, fun h => h, fun h => h⟩

theorem Quiet_release (j g : Nat) : Quiet j (release g) := by
  intro v _
  refine ⟨?_, ?_, ?_⟩
  · intro h; rw [release_miss _ _ (Or.inr h)]; exact h
  · intro h
    unfold release
    split
    · left; rfl
    · exact h
  · intro h
    unfold release
    split
    · show WfState.ready ≠ WfState.completed
      decide
    · exact h

theorem Quiet_clr (j g : Nat) : Quiet j (fun v => if v.wg = g then { v with inPool := false } else v) := by
  intro v _
  dsimp only
  refine ⟨?_, ?_, ?_⟩
  · intro h; split <;> exact h
  · intro h; split <;> exact h
  · intro h; split <;> exact h

/-- the frame of one evaluated instruction -/
theorem evalInst_frame (c : Cfg) (s : State) (w : Wf) :
    ∃ F : Wf → Wf, (evalInst c s w).s.wfs = s.wfs.map F ∧ Pres F ∧ Quiet w.id F ∧
      (∀ v ∈ s.wfs, v.state = .running → v.id ≠ w.id → F v = v) ∧
      (w.op = 10 → (F w).state = .ready ∨ (F w).state = .atBarrier) := by
  have idF : ∃ F : Wf → Wf, s.wfs = s.wfs.map F ∧ Pres F ∧ Quiet w.id F ∧
      (∀ v ∈ s.wfs, v.state = .running → v.id ≠ w.id → F v = v) :=
    ⟨fun v => v, by simp, Pres_id, Quiet_id _, fun _ _ _ _ => rfl⟩
  have updF : ∀ f : Wf → Wf, Pres f → ∃ F : Wf → Wf, updWf s.wfs w.id f = s.wfs.map F ∧ Pres F ∧
      Quiet w.id F ∧ (∀ v ∈ s.wfs, v.state = .running → v.id ≠ w.id → F v = v) ∧
      F w = f w :=
    fun f hf => ⟨fun v => if v.id = w.id then f v else v, rfl, Pres_upd _ hf, Quiet_upd _ _,
      fun v _ _ hne => by dsimp only; rw [if_neg hne], by dsimp only; rw [if_pos rfl]⟩
  unfold evalInst
  split
  · rename_i hop
    have h10 : ¬ w.op = 10 := by rw [hop]; decide
    unfold evalSEndPgm
    split
    · obtain ⟨F, a, b, c', d⟩ := idF
      exact ⟨F, a, b, c', d, fun h => absurd h h10⟩
    · split
      · rename_i hoth
        simp only [othersCompleted, List.all_eq_true, Bool.or_eq_true, beq_iff_eq, bne_iff_ne] at hoth
        split
        · refine ⟨fun v => (fun v => if v.wg = w.wg then { v with inPool := false } else v)
            (if v.id = w.id then complete v else v), ?_, ?_, ?_, ?_, fun h => absurd h h10⟩
          · show clearPool w.wg (updWf s.wfs w.id complete) = _
            unfold clearPool updWf
            rw [List.map_map]; rfl
          · exact Pres_comp (Pres_upd _ Pres_complete) (Pres_clr _)
          · exact Quiet_comp (Pres_upd _ Pres_complete) (Quiet_upd _ _) (Quiet_clr _ _)
          · intro v hv hr hne
            have hvg : v.wg ≠ w.wg := by
              rcases hoth v hv with (hh | hh) | hh
              · exact absurd hh hne
              · exact hh
              · rw [hh] at hr; cases hr
            simp only [if_neg hne, if_neg hvg]
        · obtain ⟨F, a, b, c', d⟩ := idF
          exact ⟨F, a, b, c', d, fun h => absurd h h10⟩
      · split
        · rename_i hoth
          simp only [othersAtBarrier, List.all_eq_true, Bool.or_eq_true, beq_iff_eq, bne_iff_ne] at hoth
          refine ⟨fun v => (fun v => if v.id = w.id then complete v else v) (release w.wg v), ?_, ?_, ?_, ?_,
            fun h => absurd h h10⟩
          · show updWf (s.wfs.map (release w.wg)) w.id complete = _
            unfold updWf
            rw [List.map_map]; rfl
          · exact Pres_comp (Pres_release _) (Pres_upd _ Pres_complete)
          · exact Quiet_comp (Pres_release _) (Quiet_release _ _) (Quiet_upd _ _)
          · intro v hv hr hne
            have hvg : v.wg ≠ w.wg := by
              rcases hoth v hv with ((hh | hh) | hh) | hh
              · exact absurd hh hne
              · exact hh
              · rw [hh] at hr; cases hr
              · rw [hh] at hr; cases hr
            simp only [release_miss _ _ (Or.inl hvg), if_neg hne]
        · split
          · obtain ⟨F, a, b, c', d, _⟩ := updF complete Pres_complete
            exact ⟨F, a, b, c', d, fun h => absurd h h10⟩
          · obtain ⟨F, a, b, c', d⟩ := idF
            exact ⟨F, a, b, c', d, fun h => absurd h h10⟩
  · split
    · unfold evalSBarrier
      simp only
      split
      · rename_i hall
        simp only [allAtBarrier, List.all_eq_true] at hall
        refine ⟨fun v => release w.wg (if v.id = w.id then park v else v), ?_, ?_, ?_, ?_, ?_⟩
        · show (updWf s.wfs w.id park).map (release w.wg) = _
          unfold updWf
          rw [List.map_map]; rfl
        · exact Pres_comp (Pres_upd _ Pres_park) (Pres_release _)
        · exact Quiet_comp (Pres_upd _ Pres_park) (Quiet_upd _ _) (Quiet_release _ _)
        · intro v hv hr hne
          have hmem : v ∈ updWf s.wfs w.id park := mem_updWf.mpr ⟨v, hv, by rw [if_neg hne]⟩
          have := hall v hmem
          simp only [Bool.or_eq_true, bne_iff_ne, beq_iff_eq, Bool.and_eq_true] at this
          have hvg : v.wg ≠ w.wg := by
            rcases this with (hh | hh) | hh
            · exact hh
            · rw [hh] at hr; cases hr
            · rw [hh.2] at hr; cases hr
          simp only [if_neg hne, release_miss _ _ (Or.inl hvg)]
        · intro _
          left
          simp only []
          exact (release_hit w.wg (park w) rfl (by rw [park_state]; decide)).1
      · have : ∃ F : Wf → Wf, updWf s.wfs w.id park = s.wfs.map F ∧ Pres F ∧ Quiet w.id F ∧
            (∀ v ∈ s.wfs, v.state = .running → v.id ≠ w.id → F v = v) ∧
            (w.op = 10 → (F w).state = .ready ∨ (F w).state = .atBarrier) := by
          obtain ⟨F, a, b, c', d, e⟩ := updF park Pres_park
          exact ⟨F, a, b, c', d, fun _ => Or.inr (by rw [e]; rfl)⟩
        split
        · exact this
        · exact this
    · rename_i h10
      have rdy : ∃ F : Wf → Wf, updWf s.wfs w.id setReady = s.wfs.map F ∧ Pres F ∧ Quiet w.id F ∧
            (∀ v ∈ s.wfs, v.state = .running → v.id ≠ w.id → F v = v) ∧
            (w.op = 10 → (F w).state = .ready ∨ (F w).state = .atBarrier) := by
        obtain ⟨F, a, b, c', d, _⟩ := updF setReady Pres_setReady
        exact ⟨F, a, b, c', d, fun h => absurd h h10⟩
      split
      · unfold evalSWaitCnt
        split
        · obtain ⟨F, a, b, c', d⟩ := idF
          exact ⟨F, a, b, c', d, fun h => absurd h h10⟩
        · exact rdy
      · exact rdy

/-- how one evaluated instruction touches the port, the message log and `internalExecuting` -/
theorem evalInst_out (c : Cfg) (s : State) (w : Wf) :
    ((evalInst c s w).s.out = s.out ∧ (evalInst c s w).s.sent = s.sent) ∨
    ((evalInst c s w).s.out = s.out ++ [some w.wg] ∧ (evalInst c s w).s.sent = s.sent ++ [w.wg] ∧
      (evalInst c s w).completed = true ∧ (evalInst c s w).pass = false) := by
  unfold evalInst
  split
  · unfold evalSEndPgm
    split
    · exact Or.inl ⟨rfl, rfl⟩
    · split
      · split
        · exact Or.inr ⟨rfl, rfl, rfl, rfl⟩
        · exact Or.inl ⟨rfl, rfl⟩
      · split
        · exact Or.inl ⟨rfl, rfl⟩
        · split <;> exact Or.inl ⟨rfl, rfl⟩
  · split
    · unfold evalSBarrier
      simp only
      split
      · exact Or.inl ⟨rfl, rfl⟩
      · split <;> exact Or.inl ⟨rfl, rfl⟩
    · split
      · unfold evalSWaitCnt
        split <;> exact Or.inl ⟨rfl, rfl⟩
      · exact Or.inl ⟨rfl, rfl⟩

theorem evalInst_exec (c : Cfg) (s : State) (w : Wf) : (evalInst c s w).s.exec = s.exec := by
  unfold evalInst
  split
  · unfold evalSEndPgm
    split
    · rfl
    · split
      · split <;> rfl
      · split
        · rfl
        · split <;> rfl
  · split
    · unfold evalSBarrier
      simp only
      split
      · rfl
      · split <;> rfl
    · split
      · unfold evalSWaitCnt
        split <;> rfl
      · rfl

end C14
