import MgpuProofs.C11CpInv
/-! The command processor's environment moves as a transition system: every `CpEnv.step` is a
sequence of the atomic transitions `CpTr` (helper for `Props/C11Cp.lean`). -/
namespace C11

def CpEnv.withS (e : CpEnv) (s : Cp) : CpEnv := { e with s := s }

@[simp] theorem CpEnv.withS_s (e : CpEnv) (s : Cp) : (e.withS s).s = s := rfl
@[simp] theorem CpEnv.withS_sent (e : CpEnv) (s : Cp) : (e.withS s).sent = e.sent := rfl
@[simp] theorem CpEnv.withS_atDma (e : CpEnv) (s : Cp) : (e.withS s).atDma = e.atDma := rfl
@[simp] theorem CpEnv.withS_atCaches (e : CpEnv) (s : Cp) : (e.withS s).atCaches = e.atCaches := rfl
@[simp] theorem CpEnv.withS_drained (e : CpEnv) (s : Cp) : (e.withS s).drained = e.drained := rfl
@[simp] theorem CpEnv.withS_dmaSeen (e : CpEnv) (s : Cp) : (e.withS s).dmaSeen = e.dmaSeen := rfl
@[simp] theorem CpEnv.withS_answered (e : CpEnv) (s : Cp) : (e.withS s).answered = e.answered := rfl
@[simp] theorem CpEnv.withS_withS (e : CpEnv) (s t : Cp) : (e.withS s).withS t = e.withS t := rfl
@[simp] theorem CpEnv.withS_self (e : CpEnv) : e.withS e.s = e := rfl

/-- atomic transitions of the command processor and its environment -/
inductive CpTr : CpEnv → CpEnv → Prop
  /-- `processFlushReq`: ToCaches is full at the `k`-th cache (`panic`) -/
  | flushFault (e : CpEnv) (m : CpMsg) (rest : List CpMsg) (k : Nat) (hf : e.s.fault = none)
      (hd : e.s.drvIn = m :: rest) (hn : e.s.numAck = 0) (hk : m.kind = .flush) (hkn : k < e.s.nCaches)
      (hcap : e.s.capCache ≤ e.s.cacheOut.length + k) :
      CpTr e (e.withS { e.s.flushAsk m.id k with fault := some "cache_send" })
  /-- `processFlushReq`: all caches asked -/
  | flushOk (e : CpEnv) (m : CpMsg) (rest : List CpMsg) (hf : e.s.fault = none)
      (hd : e.s.drvIn = m :: rest) (hn : e.s.numAck = 0) (hk : m.kind = .flush) (hpos : 0 < e.s.nCaches) :
      CpTr e (e.withS { e.s.flushAsk m.id e.s.nCaches with curFlush := some m.id, drvIn := rest })
  /-- `processFlushReq` without caches: answered at once -/
  | flushZero (e : CpEnv) (m : CpMsg) (rest : List CpMsg) (b : Bool) (hf : e.s.fault = none)
      (hd : e.s.drvIn = m :: rest) (hn : e.s.numAck = 0) (hk : m.kind = .flush) (hz : e.s.nCaches = 0)
      (hb : b = true ↔ e.s.drvOut.length < e.s.capDrv) :
      CpTr e (e.withS { e.s with log := e.s.log ++ [.flushStart m.id, .flushDone m.id b],
                                 curFlush := some m.id, drvIn := rest,
                                 drvOut := if b then e.s.drvOut ++ [m] else e.s.drvOut })
  /-- `processMemCopyReq` -/
  | copy (e : CpEnv) (m : CpMsg) (rest : List CpMsg) (b : Bool) (hf : e.s.fault = none)
      (hd : e.s.drvIn = m :: rest) (hn : e.s.numAck = 0) (hk : m.kind ≠ .flush)
      (hb : b = true ↔ e.s.dmaOut.length < e.s.capDma) :
      CpTr e (e.withS (e.s.copyFwd m rest b))
  /-- `processMemCopyRsp` -/
  | done (e : CpEnv) (c : Nat) (rest : List Nat) (o : Nat) (k : CpKind) (b : Bool) (hf : e.s.fault = none)
      (hd : e.s.dmaIn = c :: rest)
      (hl : k = .h2d ∧ e.s.mapH.lookup c = some o ∨
            k = .d2h ∧ e.s.mapH.lookup c = none ∧ e.s.mapD.lookup c = some o)
      (hb : b = true ↔ e.s.drvOut.length < e.s.capDrv) :
      CpTr e (e.withS (e.s.copyDone c o k rest b))
  /-- `processMemCopyRsp`: `panic("never")` -/
  | never (e : CpEnv) (c : Nat) (rest : List Nat) (hf : e.s.fault = none) (hd : e.s.dmaIn = c :: rest)
      (hH : e.s.mapH.lookup c = none) (hD : e.s.mapD.lookup c = none) :
      CpTr e (e.withS { e.s with fault := some "never" })
  /-- `processCacheFlushRsp`, acknowledgements still outstanding -/
  | ackDec (e : CpEnv) (x : Nat) (rest : List Nat) (n' : Nat) (hf : e.s.fault = none)
      (hd : e.s.cacheIn = x :: rest) (hn : 0 < e.s.numAck → n' = e.s.numAck - 1) (hz : n' ≠ 0) :
      CpTr e (e.withS { e.s with numAck := n', cacheIn := rest, log := e.s.log ++ [.ack] })
  /-- `processCacheFlushRsp`: nil dereference of `currFlushRequest` -/
  | nilderef (e : CpEnv) (x : Nat) (rest : List Nat) (n' : Nat) (hf : e.s.fault = none)
      (hd : e.s.cacheIn = x :: rest) (hn : 0 < e.s.numAck → n' = e.s.numAck - 1) (hz : n' = 0)
      (hc : e.s.curFlush = none) :
      CpTr e (e.withS { e.s with numAck := n', cacheIn := rest, log := e.s.log ++ [.ack],
                                 fault := some "nilderef" })
  /-- `processCacheFlushRsp`: last acknowledgement, the flush is answered -/
  | ackFinal (e : CpEnv) (x : Nat) (rest : List Nat) (n' f : Nat) (b : Bool) (hf : e.s.fault = none)
      (hd : e.s.cacheIn = x :: rest) (hn : 0 < e.s.numAck → n' = e.s.numAck - 1) (hz : n' = 0)
      (hc : e.s.curFlush = some f) (hb : b = true ↔ e.s.drvOut.length < e.s.capDrv) :
      CpTr e (e.withS { e.s with numAck := 0, cacheIn := rest, curFlush := none,
                                 drvOut := if b then e.s.drvOut ++ [⟨f, .flush⟩] else e.s.drvOut,
                                 log := e.s.log ++ [.ack, .flushDone f b] })
  /-- the driver port accepts a request -/
  | req (e : CpEnv) (k : CpKind) (h : e.s.drvIn.length < e.s.capIn) :
      CpTr e { e with s := { e.s with drvIn := e.s.drvIn ++ [⟨e.sent.length, k⟩] },
                      sent := e.sent ++ [⟨e.sent.length, k⟩] }
  | takeDma (e : CpEnv) (k : Nat) :
      CpTr e { e with s := { e.s with dmaOut := e.s.dmaOut.drop k },
                      atDma := e.atDma ++ e.s.dmaOut.take k, dmaSeen := e.dmaSeen ++ e.s.dmaOut.take k }
  | takeCache (e : CpEnv) (k : Nat) :
      CpTr e { e with s := { e.s with cacheOut := e.s.cacheOut.drop k },
                      atCaches := e.atCaches ++ e.s.cacheOut.take k }
  | takeDrv (e : CpEnv) (k : Nat) :
      CpTr e { e with s := { e.s with drvOut := e.s.drvOut.drop k }, drained := e.drained ++ e.s.drvOut.take k }
  | ackEnv (e : CpEnv) (j x : Nat) (hj : j < e.atCaches.length) :
      CpTr e { e with s := { e.s with cacheIn := e.s.cacheIn ++ [x] }, atCaches := e.atCaches.eraseIdx j }
  | rspEnv (e : CpEnv) (j : Nat) (c : CpClone) (hj : e.atDma[j]? = some c) :
      CpTr e { e with s := { e.s with dmaIn := e.s.dmaIn ++ [c.cid] }, atDma := e.atDma.eraseIdx j,
                      answered := e.answered ++ [c.cid] }

inductive CpSteps : CpEnv → CpEnv → Prop
  | refl (e : CpEnv) : CpSteps e e
  | tail {a b c : CpEnv} : CpSteps a b → CpTr b c → CpSteps a c

theorem CpSteps.single {a b : CpEnv} (h : CpTr a b) : CpSteps a b := .tail (.refl a) h

theorem CpSteps.trans {a b c : CpEnv} (h1 : CpSteps a b) (h2 : CpSteps b c) : CpSteps a c := by
  induction h2 with
  | refl => exact h1
  | tail _ t ih => exact .tail ih t

theorem handle_steps (e : CpEnv) : CpSteps e (e.withS e.s.handle.1) := by
  rcases Cp.handle_cases e.s with h | ⟨m, rest, hf, hd, hn, hk, h | h | h⟩ | ⟨m, rest, hf, hd, hn, hk, hb, h⟩
  · rw [h]; exact .refl e
  · obtain ⟨k, hkn, hcap, h⟩ := h
    rw [h]; exact .single (.flushFault e m rest k hf hd hn hk hkn hcap)
  · obtain ⟨hpos, h⟩ := h
    rw [h]; exact .single (.flushOk e m rest hf hd hn hk hpos)
  · obtain ⟨hz, hb, h⟩ := h
    rw [h]; exact .single (.flushZero e m rest true hf hd hn hk hz (by simp [hb]))
  · rw [h]; exact .single (.copy e m rest true hf hd hn hk (by simp [hb]))

theorem dmaRsp_steps (e : CpEnv) : CpSteps e (e.withS e.s.dmaRsp.1) := by
  rcases Cp.dmaRsp_cases e.s with h | ⟨c, rest, hf, hd, hb, ⟨o, k, hl, h⟩ | ⟨hH, hD, h⟩⟩
  · rw [h]; exact .refl e
  · rw [h]; exact .single (.done e c rest o k true hf hd hl (by simp [hb]))
  · rw [h]; exact .single (.never e c rest hf hd hH hD)

theorem cacheRsp_steps (e : CpEnv) : CpSteps e (e.withS e.s.cacheRsp.1) := by
  rcases Cp.cacheRsp_cases e.s with h | ⟨x, rest, n', hf, hd, hn, ⟨hz, h⟩ | ⟨hz, hc, h⟩ | ⟨hz, f, hc, hb, h⟩⟩
  · rw [h]; exact .refl e
  · rw [h]; exact .single (.ackDec e x rest n' hf hd hn hz)
  · rw [h]; exact .single (.nilderef e x rest n' hf hd hn hz hc)
  · rw [h]; exact .single (.ackFinal e x rest n' f true hf hd hn hz hc (by simp [hb]))

theorem pass_steps (e : CpEnv) : CpSteps e (e.withS e.s.pass.1) := by
  have h1 := handle_steps e
  have h2 := dmaRsp_steps (e.withS e.s.handle.1)
  have h3 := cacheRsp_steps (e.withS e.s.handle.1.dmaRsp.1)
  simp only [CpEnv.withS_s, CpEnv.withS_withS] at h2 h3
  exact (h1.trans h2).trans h3

theorem tick_steps (e : CpEnv) : CpSteps e (e.withS e.s.tick.1) := by
  unfold Cp.tick
  split
  · exact .refl e
  · split
    · exact pass_steps e
    · have h1 := pass_steps e
      have h2 := pass_steps (e.withS e.s.pass.1)
      simp only [CpEnv.withS_s, CpEnv.withS_withS] at h2
      exact h1.trans h2

theorem step_steps (e : CpEnv) (op : CpOp) : CpSteps e (e.step op).1 := by
  cases op with
  | req k =>
    simp only [CpEnv.step]
    split
    · rename_i h; exact .single (.req e k h)
    · exact .refl e
  | tick => exact tick_steps e
  | takeDma k => exact .single (.takeDma e k)
  | takeCache k => exact .single (.takeCache e k)
  | takeDrv k => exact .single (.takeDrv e k)
  | ack j =>
    simp only [CpEnv.step]
    split
    · exact .refl e
    · rename_i hne
      split
      · exact .refl e
      · have hpos : 0 < e.atCaches.length := by
          cases h : e.atCaches with
          | nil => exact absurd h (by simpa using hne)
          | cons a l => simp
        exact .single (.ackEnv e (j % e.atCaches.length) _ (Nat.mod_lt _ hpos))
  | rsp j =>
    simp only [CpEnv.step]
    split
    · exact .refl e
    · split
      · exact .refl e
      · split
        · exact .refl e
        · rename_i c hc
          exact .single (.rspEnv e _ c hc)

theorem run_steps (e : CpEnv) (ops : List CpOp) : CpSteps e (e.run ops) := by
  induction ops generalizing e with
  | nil => exact .refl e
  | cons op ops ih => exact (step_steps e op).trans (ih _)

/-- an invariant of the atomic transitions holds in every reachable state -/
theorem reach_inv {P : CpEnv → Prop} {n cin cdrv cdma ccache : Nat} (h0 : P (CpEnv.init n cin cdrv cdma ccache))
    (hstep : ∀ e e', P e → CpTr e e' → P e') (ops : List CpOp) :
    P (reachCp n cin cdrv cdma ccache ops) := by
  have : ∀ a b, CpSteps a b → P a → P b := by
    intro a b h
    induction h with
    | refl => exact id
    | tail _ t ih => exact fun ha => hstep _ _ (ih ha) t
  exact this _ _ (run_steps _ ops) h0

end C11
