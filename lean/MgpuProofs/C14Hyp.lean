import MgpuProofs.C14XDefs
/-! # C14 — hypotheses: removed where the invariant gives them, witnessed where they are needed -/
namespace C14

theorem hyp_upd_Rng {s : State} (i : Nat) (f : Wf → Wf) (h : Rng s)
    (hst : ∀ v, (f v).state = v.state ∨ InR (f v)) :
    Rng ({ s with wfs := updWf s.wfs i f } : State) := by
  refine Rng_map (fun v => if v.id = i then f v else v) h rfl ?_
  intro v hv
  split
  · rcases hst v with e | e
    · unfold InR at hv ⊢; rw [e]; exact hv
    · exact e
  · exact hv

theorem hyp_clearPool_Rng {s s' : State} (g : Nat) (h : Rng s) (h1 : s'.wfs = clearPool g s.wfs) : Rng s' := by
  refine Rng_map (fun w => if w.wg = g then { w with inPool := false } else w) h h1 ?_
  intro v hv
  split
  · exact hv
  · exact hv

theorem hyp_evalOne_Rng (c : Cfg) (sp : State × Bool) (i : Nat) (h : Rng sp.1) : Rng (evalOne c sp i).1 := by
  unfold evalOne
  split
  · exact h
  · split
    · exact h
    · split
      · exact h
      · exact Rng_congr (evalInst_Rng h) (finishOne_wfs _ _ _)

theorem hyp_foldl_Rng (c : Cfg) (l : List Nat) (sp : State × Bool) (h : Rng sp.1) :
    Rng (l.foldl (evalOne c) sp).1 := by
  induction l generalizing sp with
  | nil => exact h
  | cons i l ih => exact ih _ (hyp_evalOne_Rng c sp i h)

theorem hyp_wfComp_Rng (c : Cfg) (s : State) (i : Nat) (h : Rng s) : Rng (wfComp c s i).1 := by
  unfold wfComp
  split
  · exact h
  · have h1 : Rng ({ s with wfs := updWf s.wfs i complete } : State) :=
      hyp_upd_Rng i complete h (fun _ => Or.inr (InR_completed rfl))
    dsimp only
    split
    · split
      · exact hyp_clearPool_Rng _ h1 rfl
      · exact h1
    · exact h1

/-- every event, legal or not (the sampling handler included), every code variant: only the four
    states the scheduler assigns occur afterwards -/
theorem step_Rng (c : Cfg) (s : State) (o : Op) (h : Rng s) : Rng (step c s o).1 := by
  cases o with
  | eval => exact hyp_foldl_Rng c _ _ (Rng_congr h rfl)
  | wfComp i => exact hyp_wfComp_Rng c s i h
  | drain k => exact Rng_congr h rfl
  | memIssue i v =>
    exact hyp_upd_Rng i _ h (fun w => Or.inl (by split <;> rfl))
  | memRet i k l => exact hyp_upd_Rng i _ h (fun w => Or.inl (memRetWf_fields k l w).2.2.1)
  | issue i op lk vm => exact Rng_congr (hyp_upd_Rng i (issueWf op lk vm) h (fun _ => Or.inr (InR_running rfl))) rfl
  | issueUnit i => exact hyp_upd_Rng i _ h (fun _ => Or.inr (InR_running rfl))
  | unitDone i => exact hyp_upd_Rng i setReady h (fun _ => Or.inr (InR_ready rfl))

/-- under `Rng` the last branch of `evalSEndPgm` is dead: a wavefront of the group that is neither
    parked nor ended is Ready or Running -/
theorem hyp_evalInst_nofault (c : Cfg) (s : State) (w : Wf) (h : Rng s) (hf : s.fault = false) :
    (evalInst c s w).s.fault = false := by
  unfold evalInst
  split
  · unfold evalSEndPgm
    split
    · exact hf
    · split
      · split
        · exact hf
        · exact hf
      · split
        · exact hf
        · split
          · exact hf
          · rename_i hoth hsome
            exfalso
            obtain ⟨v, hv, hp⟩ := not_all_of_false (by simpa using hoth : ¬ othersAtBarrier w.wg w.id s.wfs = true)
            apply hsome
            unfold someExecuting
            rw [List.any_eq_true]
            refine ⟨v, hv, ?_⟩
            simp only [Bool.or_eq_false_iff, bne_eq_false_iff_eq, beq_eq_false_iff_ne] at hp
            obtain ⟨⟨⟨_, hg⟩, hb⟩, hc⟩ := hp
            rcases h v hv with e | e | e | e
            · simp [hg, e]
            · simp [hg, e]
            · exact absurd e hb
            · exact absurd e hc
  · split
    · unfold evalSBarrier
      dsimp only
      split
      · exact hf
      · split
        · exact hf
        · exact hf
    · split
      · unfold evalSWaitCnt
        split
        · exact hf
        · exact hf
      · exact hf

theorem hyp_finishOne_fault (i g : Nat) (e : Ev) : (finishOne i g e).fault = e.s.fault := by
  unfold finishOne
  split <;> split <;> rfl

theorem hyp_evalOne_nofault (c : Cfg) (sp : State × Bool) (i : Nat) (h : Rng sp.1) (hf : sp.1.fault = false) :
    (evalOne c sp i).1.fault = false := by
  unfold evalOne
  split
  · exact hf
  · split
    · exact hf
    · split
      · exact hf
      · dsimp only
        rw [hyp_finishOne_fault]
        exact hyp_evalInst_nofault c _ _ h hf

theorem hyp_foldl_nofault (c : Cfg) (l : List Nat) (sp : State × Bool) (h : Rng sp.1) (hf : sp.1.fault = false) :
    (l.foldl (evalOne c) sp).1.fault = false := by
  induction l generalizing sp with
  | nil => exact hf
  | cons i l ih => exact ih _ (hyp_evalOne_Rng c sp i h) (hyp_evalOne_nofault c sp i h hf)

theorem hyp_wfComp_fault (c : Cfg) (s : State) (i : Nat) : (wfComp c s i).1.fault = s.fault := by
  unfold wfComp
  split
  · rfl
  · dsimp only
    split
    · split <;> rfl
    · rfl

/-- ... and `panic("never")` is not reached -/
theorem step_nofault (c : Cfg) (s : State) (o : Op) (h : Rng s) (hf : s.fault = false) :
    (step c s o).1.fault = false := by
  cases o with
  | eval => exact hyp_foldl_nofault c _ _ (Rng_congr h rfl) hf
  | wfComp i => exact (hyp_wfComp_fault c s i).trans hf
  | drain k => exact hf
  | memIssue i v => exact hf
  | memRet i k l => exact hf
  | issue i op lk vm => exact hf
  | issueUnit i => exact hf
  | unitDone i => exact hf

theorem run_Rng_nofault (c : Cfg) (ops : List Op) (s : State) (h : Rng s) (hf : s.fault = false) :
    Rng (run c s ops) ∧ (run c s ops).fault = false := by
  unfold run
  induction ops generalizing s with
  | nil => exact ⟨h, hf⟩
  | cons o ops ih => exact ih _ (step_Rng c s o h) (step_nofault c s o h hf)

/-! ## the emulator terminates: every wavefront passes exactly the barriers it executes -/

def emuFresh (wfs : List EWf) : Prop := ∀ w ∈ wfs, w.atBarrier = false ∧ w.completed = false ∧ w.bar = 0

/-- between two rounds of `runWG`: nobody is parked -/
def emuIdle (wfs : List EWf) : Prop := ∀ w ∈ wfs, w.atBarrier = false

/-- the barriers a wavefront will have passed at the end -/
def emuGoal (w : EWf) : Nat := if w.completed then w.bar else w.bar + w.todo

theorem hyp_emu_round (wfs : List EWf) (hi : emuIdle wfs) :
    ∃ wfs', emuResolve true (wfs.map emuRunWf) = some wfs' ∧ emuIdle wfs' ∧
      wfs'.map emuGoal = wfs.map emuGoal ∧
      (∀ n, (∀ w ∈ wfs, w.completed = false → w.todo < n + 1) → ∀ w ∈ wfs', w.completed = false → w.todo < n) := by
  unfold emuResolve
  split
  · rename_i hall
    refine ⟨_, rfl, ?_, ?_, ?_⟩
    · intro w' hw'
      obtain ⟨w, hw, rfl⟩ := List.mem_map.mp hw'
      have hc := List.all_eq_true.mp hall _ hw'
      unfold emuRunWf at hc ⊢
      split
      · exact hi w hw
      · split
        · exact hi w hw
        · rename_i hnc _ n _
          simp only [hnc] at hc
          split at hc <;> simp_all
    · rw [List.map_map]
      apply List.map_congr_left
      intro w hw
      have hc := List.all_eq_true.mp hall _ (List.mem_map.mpr ⟨w, hw, rfl⟩)
      simp only [Function.comp]
      unfold emuRunWf at hc ⊢
      split
      · rfl
      · rename_i hnc
        split
        · rename_i h0
          simp [emuGoal, hnc, h0]
        · simp_all
    · intro n _ w' hw' hc'
      have hc := List.all_eq_true.mp hall _ hw'
      rw [hc] at hc'; cases hc'
  · rename_i hnall
    have hall2 : ((wfs.map emuRunWf).all fun w => (true && w.completed) || w.atBarrier) = true := by
      rw [List.all_eq_true]
      intro w' hw'
      obtain ⟨w, hw, rfl⟩ := List.mem_map.mp hw'
      unfold emuRunWf
      split
      · rename_i h; simp [h]
      · split <;> simp
    rw [if_pos hall2]
    refine ⟨_, rfl, ?_, ?_, ?_⟩
    · intro w'' hw''
      obtain ⟨w', hw', rfl⟩ := List.mem_map.mp hw''
      obtain ⟨w, hw, rfl⟩ := List.mem_map.mp hw'
      split
      · rename_i hc
        unfold emuRunWf at hc ⊢
        split
        · exact hi w hw
        · split
          · exact hi w hw
          · simp_all
      · rfl
    · rw [List.map_map, List.map_map]
      apply List.map_congr_left
      intro w hw
      simp only [Function.comp]
      unfold emuRunWf
      split
      · rename_i hc; simp [hc, emuGoal]
      · rename_i hnc
        split
        · simp_all [emuGoal]
        · rename_i n h1
          simp [hnc, emuGoal, h1]
          omega
    · intro n hn w'' hw'' hc''
      obtain ⟨w', hw', rfl⟩ := List.mem_map.mp hw''
      obtain ⟨w, hw, rfl⟩ := List.mem_map.mp hw'
      revert hc''
      unfold emuRunWf
      split
      · rename_i hc; simp [hc]
      · rename_i hnc
        split
        · simp
        · rename_i m h1
          intro _
          have := hn w hw (by simpa using hnc)
          simp [hnc]
          omega

theorem hyp_emu_run (fuel : Nat) (wfs : List EWf) (hi : emuIdle wfs)
    (hfuel : ∀ w ∈ wfs, w.completed = false → w.todo < fuel) :
    ∃ wfs', emuRunWG true fuel wfs = some (wfs', true) ∧ wfs'.map emuGoal = wfs.map emuGoal ∧
      (∀ w ∈ wfs', w.completed = true) := by
  induction fuel generalizing wfs with
  | zero =>
    have hall : ∀ w ∈ wfs, w.completed = true := by
      intro w hw
      cases hc : w.completed with
      | true => rfl
      | false => exact absurd (hfuel w hw hc) (Nat.not_lt_zero _)
    refine ⟨wfs, ?_, rfl, hall⟩
    unfold emuRunWG
    rw [List.all_eq_true.mpr (fun w hw => hall w hw)]
  | succ n ih =>
    unfold emuRunWG
    split
    · rename_i hall
      exact ⟨wfs, rfl, rfl, fun w hw => List.all_eq_true.mp hall w hw⟩
    · obtain ⟨wfs1, h1, h2, h3, h4⟩ := hyp_emu_round wfs hi
      rw [h1]
      obtain ⟨wfs', a, b, d⟩ := ih wfs1 h2 (h4 n hfuel)
      exact ⟨wfs', a, b.trans h3, d⟩

/-- `runWG` of the repaired emulator with at least `max todo + 1` rounds of fuel ends with every
    wavefront Completed, each having been released from exactly the barriers it executed — also
    when some wavefronts leave early -/
theorem emu_runWG_completes (wfs : List EWf) (hf : emuFresh wfs) (fuel : Nat)
    (hfuel : ∀ w ∈ wfs, w.todo < fuel) :
    ∃ wfs', emuRunWG true fuel wfs = some (wfs', true) ∧
      wfs'.map (·.bar) = wfs.map (·.todo) ∧ (∀ w ∈ wfs', w.completed = true) := by
  obtain ⟨wfs', a, b, d⟩ := hyp_emu_run fuel wfs (fun w hw => (hf w hw).1) (fun w hw _ => hfuel w hw)
  refine ⟨wfs', a, ?_, d⟩
  have e1 : wfs'.map emuGoal = wfs'.map (·.bar) := by
    apply List.map_congr_left
    intro w hw
    simp [emuGoal, d w hw]
  have e2 : wfs.map emuGoal = wfs.map (·.todo) := by
    apply List.map_congr_left
    intro w hw
    obtain ⟨_, h2, h3⟩ := hf w hw
    simp [emuGoal, h2, h3]
  rw [← e1, b, e2]

end C14
