import MgpuProofs.C10BuddyFull
/-!
Buddy allocator, round trips — part 1: two more facts about the five abstract transitions of
`MgpuProofs/C10BuddyFull1.lean`:

* `NSib`: under a split parent the two children are never both free (the allocator merges at once), and
* the *backward* description of the used nodes after a transition (which nodes can be used afterwards).
-/
namespace C10.Buddy

/-- under a split parent the two children are never both on their free list -/
def NSib (F : Nat) (Fr Sp : Nat → Nat → Prop) : Prop :=
  ∀ l k, l < F → k < 2 ^ l → Sp l k → ¬ (Fr (l + 1) (2 * k) ∧ Fr (l + 1) (2 * k + 1))

section transitions
variable {F : Nat} {Fr Sp Mg Fr' Sp' Mg' : Nat → Nat → Prop}

theorem ex_of_same (hSp : ∀ l' k', l' ≤ F → k' < 2 ^ l' → (Sp' l' k' ↔ Sp l' k')) {l k : Nat} (hl : l ≤ F)
    (hk : k < 2 ^ l) : Ex Sp' l k ↔ Ex Sp l k := by
  constructor
  · intro ex l'' e
    subst e
    have p := pow_succ2 l''
    rw [← hSp l'' (k / 2) (by omega) (by omega)]
    exact ex l'' rfl
  · intro ex l'' e
    subst e
    have p := pow_succ2 l''
    rw [hSp l'' (k / 2) (by omega) (by omega)]
    exact ex l'' rfl

theorem AInv.take_trip (_h : AInv F Fr Sp Mg) (hN : NSib F Fr Sp) {l k : Nat}
    (hFr : ∀ l' k', l' ≤ F → k' < 2 ^ l' → (Fr' l' k' ↔ Fr l' k' ∧ ¬ (l' = l ∧ k' = k)))
    (hSp : ∀ l' k', l' ≤ F → k' < 2 ^ l' → (Sp' l' k' ↔ Sp l' k')) :
    NSib F Fr' Sp' ∧
      ∀ l' k', l' ≤ F → k' < 2 ^ l' → Used Fr' Sp' l' k' → Used Fr Sp l' k' ∨ (l' = l ∧ k' = k) := by
  refine ⟨?_, ?_⟩
  · intro l' k' hl' hk' hs hf
    have p := pow_succ2 l'
    rw [hSp l' k' (by omega) hk'] at hs
    rw [hFr (l' + 1) (2 * k') (by omega) (by omega), hFr (l' + 1) (2 * k' + 1) (by omega) (by omega)] at hf
    exact hN l' k' hl' hk' hs ⟨hf.1.1, hf.2.1⟩
  · intro l' k' hl' hk' ⟨ex, ns, nf⟩
    by_cases hc : l' = l ∧ k' = k
    · exact Or.inr hc
    · left
      refine ⟨(ex_of_same hSp hl' hk').mp ex, by rw [← hSp l' k' hl' hk']; exact ns, ?_⟩
      intro hf
      exact nf ((hFr l' k' hl' hk').mpr ⟨hf, hc⟩)

theorem AInv.split_trip (h : AInv F Fr Sp Mg) (hN : NSib F Fr Sp) {l k : Nat} (hl : l < F) (hk : k < 2 ^ l)
    (hu : Used Fr Sp l k)
    (hFr : ∀ l' k', l' ≤ F → k' < 2 ^ l' → (Fr' l' k' ↔ Fr l' k' ∨ (l' = l + 1 ∧ k' = 2 * k + 1)))
    (hSp : ∀ l' k', l' ≤ F → k' < 2 ^ l' → (Sp' l' k' ↔ Sp l' k' ∨ (l' = l ∧ k' = k))) :
    NSib F Fr' Sp' ∧
      ∀ l' k', l' ≤ F → k' < 2 ^ l' → Used Fr' Sp' l' k' →
        (Used Fr Sp l' k' ∧ ¬ (l' = l ∧ k' = k)) ∨ (l' = l + 1 ∧ k' = 2 * k) := by
  obtain ⟨uex, uns, unf⟩ := hu
  have pl := pow_succ2 l
  have f0 : ¬ Fr (l + 1) (2 * k) := by
    intro hf
    have := (h.A _ _ (by omega) (by omega) hf).1 l rfl
    rw [show 2 * k / 2 = k by omega] at this
    exact uns this
  refine ⟨?_, ?_⟩
  · intro l' k' hl' hk' hs hf
    have p := pow_succ2 l'
    have a1 := hSp l' k' (by omega) hk'
    have a2 := hFr (l' + 1) (2 * k') (by omega) (by omega)
    have a3 := hFr (l' + 1) (2 * k' + 1) (by omega) (by omega)
    have a4 := hN l' k' hl' hk'
    clear hFr hSp hN h
    grind
  · intro l' k' hl' hk' ⟨ex, ns, nf⟩
    have b1 := hSp l' k' hl' hk'
    have b2 := hFr l' k' hl' hk'
    cases l' with
    | zero =>
      left
      refine ⟨⟨fun l'' e => by omega, fun hh => ns (b1.mpr (Or.inl hh)), fun hh => nf (b2.mpr (Or.inl hh))⟩, ?_⟩
      intro hc
      exact ns (b1.mpr (Or.inr hc))
    | succ l0 =>
      have p := pow_succ2 l0
      have b3 := hSp l0 (k' / 2) (by omega) (by omega)
      have b4 := ex l0 rfl
      by_cases hc : l0 = l ∧ k' / 2 = k
      · right
        obtain ⟨rfl, hc2⟩ := hc
        refine ⟨rfl, ?_⟩
        have : ¬ (k' = 2 * k + 1) := fun e => nf (b2.mpr (Or.inr ⟨rfl, e⟩))
        omega
      · left
        refine ⟨⟨?_, fun hh => ns (b1.mpr (Or.inl hh)), fun hh => nf (b2.mpr (Or.inl hh))⟩, ?_⟩
        · intro l'' e
          have e' : l'' = l0 := by omega
          subst e'
          rcases b3.mp b4 with hh | hh
          · exact hh
          · exact absurd hh hc
        · intro hc2
          exact ns (b1.mpr (Or.inr hc2))

theorem AInv.free_stop_trip (h : AInv F Fr Sp Mg) (hN : NSib F Fr Sp) {l k : Nat} (hl : l + 1 ≤ F)
    (hk : k < 2 ^ (l + 1)) (hu : Used Fr Sp (l + 1) k) (hm : ¬ Mg l (k / 2))
    (hFr : ∀ l' k', l' ≤ F → k' < 2 ^ l' → (Fr' l' k' ↔ Fr l' k' ∨ (l' = l + 1 ∧ k' = k)))
    (hSp : ∀ l' k', l' ≤ F → k' < 2 ^ l' → (Sp' l' k' ↔ Sp l' k')) :
    NSib F Fr' Sp' ∧
      ∀ l' k', l' ≤ F → k' < 2 ^ l' → Used Fr' Sp' l' k' → Used Fr Sp l' k' ∧ ¬ (l' = l + 1 ∧ k' = k) := by
  have hbf : ¬ Fr (l + 1) (bud k) := fun hf => hm ((h.buddy_free hl hk hu).mpr hf)
  obtain ⟨uex, uns, unf⟩ := hu
  refine ⟨?_, ?_⟩
  · intro l' k' hl' hk' hs hf
    have p := pow_succ2 l'
    have a1 := hSp l' k' (by omega) hk'
    have a2 := hFr (l' + 1) (2 * k') (by omega) (by omega)
    have a3 := hFr (l' + 1) (2 * k' + 1) (by omega) (by omega)
    have a4 := hN l' k' hl' hk'
    have a5 : (k = 2 * (k / 2) ∧ bud k = 2 * (k / 2) + 1) ∨ (k = 2 * (k / 2) + 1 ∧ bud k = 2 * (k / 2)) := by
      unfold bud; split <;> omega
    generalize k / 2 = m at a5
    generalize bud k = b at a5 hbf
    clear hFr hSp hN h
    grind
  · intro l' k' hl' hk' ⟨ex, ns, nf⟩
    have b2 := hFr l' k' hl' hk'
    refine ⟨⟨(ex_of_same hSp hl' hk').mp ex, by rw [← hSp l' k' hl' hk']; exact ns,
      fun hh => nf (b2.mpr (Or.inl hh))⟩, fun hc => nf (b2.mpr (Or.inr hc))⟩

theorem AInv.free_merge_trip (_h : AInv F Fr Sp Mg) (hN : NSib F Fr Sp) {l k : Nat} (_hl : l + 1 ≤ F)
    (_hk : k < 2 ^ (l + 1))
    (hFr : ∀ l' k', l' ≤ F → k' < 2 ^ l' → (Fr' l' k' ↔ Fr l' k' ∧ ¬ (l' = l + 1 ∧ k' = bud k)))
    (hSp : ∀ l' k', l' ≤ F → k' < 2 ^ l' → (Sp' l' k' ↔ Sp l' k' ∧ ¬ (l' = l ∧ k' = k / 2))) :
    NSib F Fr' Sp' ∧
      ∀ l' k', l' ≤ F → k' < 2 ^ l' → Used Fr' Sp' l' k' →
        (Used Fr Sp l' k' ∧ ¬ (l' = l + 1 ∧ k' = k)) ∨ (l' = l ∧ k' = k / 2) := by
  have hb2 : bud k / 2 = k / 2 := by unfold bud; split <;> omega
  refine ⟨?_, ?_⟩
  · intro l' k' hl' hk' hs hf
    have p := pow_succ2 l'
    rw [hSp l' k' (by omega) hk'] at hs
    rw [hFr (l' + 1) (2 * k') (by omega) (by omega), hFr (l' + 1) (2 * k' + 1) (by omega) (by omega)] at hf
    exact hN l' k' hl' hk' hs.1 ⟨hf.1.1, hf.2.1⟩
  · intro l' k' hl' hk' ⟨ex, ns, nf⟩
    have b1 := hSp l' k' hl' hk'
    have b2 := hFr l' k' hl' hk'
    by_cases hc : l' = l ∧ k' = k / 2
    · exact Or.inr hc
    · left
      have hns : ¬ Sp l' k' := fun hh => ns (b1.mpr ⟨hh, hc⟩)
      cases l' with
      | zero =>
        refine ⟨⟨fun l'' e => by omega, hns, fun hh => nf (b2.mpr ⟨hh, by omega⟩)⟩, by omega⟩
      | succ l0 =>
        have p := pow_succ2 l0
        have b3 := hSp l0 (k' / 2) (by omega) (by omega)
        have b4 := b3.mp (ex l0 rfl)
        have hpar : ¬ (l0 = l ∧ k' / 2 = k / 2) := b4.2
        refine ⟨⟨?_, hns, ?_⟩, ?_⟩
        · intro l'' e
          have e' : l'' = l0 := by omega
          subst e'
          exact b4.1
        · intro hh
          refine nf (b2.mpr ⟨hh, ?_⟩)
          rintro ⟨e1, e2⟩
          apply hpar
          refine ⟨by omega, ?_⟩
          rw [e2, hb2]
        · rintro ⟨e1, e2⟩
          apply hpar
          exact ⟨by omega, by rw [e2]⟩

theorem AInv.free_root_trip (_h : AInv F Fr Sp Mg) (hN : NSib F Fr Sp)
    (hFr : ∀ l' k', l' ≤ F → k' < 2 ^ l' → (Fr' l' k' ↔ Fr l' k' ∨ (l' = 0 ∧ k' = 0)))
    (hSp : ∀ l' k', l' ≤ F → k' < 2 ^ l' → (Sp' l' k' ↔ Sp l' k')) :
    NSib F Fr' Sp' ∧
      ∀ l' k', l' ≤ F → k' < 2 ^ l' → Used Fr' Sp' l' k' → Used Fr Sp l' k' ∧ ¬ (l' = 0 ∧ k' = 0) := by
  refine ⟨?_, ?_⟩
  · intro l' k' hl' hk' hs hf
    have p := pow_succ2 l'
    rw [hSp l' k' (by omega) hk'] at hs
    rw [hFr (l' + 1) (2 * k') (by omega) (by omega), hFr (l' + 1) (2 * k' + 1) (by omega) (by omega)] at hf
    refine hN l' k' hl' hk' hs ⟨?_, ?_⟩
    · rcases hf.1 with hh | hh
      · exact hh
      · omega
    · rcases hf.2 with hh | hh
      · exact hh
      · omega
  · intro l' k' hl' hk' ⟨ex, ns, nf⟩
    have b2 := hFr l' k' hl' hk'
    refine ⟨⟨(ex_of_same hSp hl' hk').mp ex, by rw [← hSp l' k' hl' hk']; exact ns,
      fun hh => nf (b2.mpr (Or.inl hh))⟩, fun hc => nf (b2.mpr (Or.inr hc))⟩

end transitions

end C10.Buddy
