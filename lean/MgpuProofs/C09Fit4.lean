import MgpuProofs.C09Fit3
/-! # C09 — an empty CU accepts a work-group iff it fits

`Fits` is the fit predicate exactly as `ReserveResourceForWG` computes it on a CU without resident
work-groups (granule rounding by `units`, one SGPR region per wavefront, one LDS region per group,
wavefronts spread over the SIMDs limited by slots and by VGPR regions per SIMD file). -/
namespace C09

theorem mstair_all_free (M : Mask) (h : ∀ m, M = .lim m → m = List.replicate m.length 0) : MStair M 0 := by
  cases M with
  | unl _ => trivial
  | lim m => exact ⟨stair_of_all_free m (h m rfl), by omega⟩

/-- the state the matching starts from on an empty CU -/
theorem ES_init (cap : List Nat) (cu : CU) (req : Nat) (hinv : Inv cap cu) (hres : cu.resident = []) :
    ES cap cu.shapes.2.1 req
      { vmasks := cu.vmasks, next := cu.nextSIMD, used := cap.map (fun _ => 0) } ∧
    Rem cap cu.shapes.2.1 req (cap.map (fun _ => 0)) =
      slotSum (fun k => slotsOn (cap.getD k 0) (cu.shapes.2.1.getD k none) req) cap.length := by
  obtain ⟨_, _, _, hv⟩ := free_all_restores_initial cap cu hinv hres
  have hz : ∀ k, (cap.map (fun _ => 0)).getD k 0 = 0 := by
    intro k
    simp only [List.getD_eq_getElem?_getD, List.getElem?_map]
    cases cap[k]? <;> rfl
  constructor
  · refine { vlen := hinv.vLen, ulen := by simp, slen := by simp [CU.shapes, hinv.vLen],
             next := hinv.nextOK, shape := ?_, stair := ?_, le := ?_ }
    · intro k hk
      simp [CU.shapes, List.getD_eq_getElem?_getD, hk]
    · intro k hk
      simp only [hz, Nat.zero_mul]
      exact mstair_all_free _ (fun m hm => hv k hk m hm)
    · intro k _
      simp only [hz]; omega
  · unfold Rem
    apply slotSum_congr
    intro i _
    simp only [hz]; omega

/-- **completeness and exactness of `ReserveResourceForWG` on an empty CU** -/
theorem reserve_empty (cap : List Nat) (cu : CU) (key : Nat) (d : Dem) (hinv : Inv cap cu)
    (hres : cu.resident = []) :
    (Fits cap cu.shapes d → ∃ locs cu', reserve cu key d = (.ok locs, cu')) ∧
    (¬ Fits cap cu.shapes d → ∃ cu', reserve cu key d = (.no, cu')) := by
  obtain ⟨hw, hs0, hl0, _⟩ := free_all_restores_initial cap cu hinv hres
  have hS := sgprLoop_stair (units d.s sGran) d.nwf cu.smask 0 (mstair_all_free _ hs0)
  have hL := mstair_step cu.lmask 0 (units d.l lGran) (mstair_all_free _ hl0)
  obtain ⟨hes, hrem⟩ := ES_init cap cu (units d.v vGran) hinv hres
  have hM := matchLoop_empty cap cu.shapes.2.1 (units d.v vGran) d.nwf _ hes
  rw [hrem] at hM
  simp only [Nat.zero_add] at hS hL
  constructor
  · intro ⟨f1, f2, f3⟩
    obtain ⟨soffs, e1⟩ := hS.1 f1
    obtain ⟨loff, e2, _⟩ := hL.1 f2
    obtain ⟨ps, e3⟩ := hM.1 f3
    have e2' : (cu.lmask.nextRegion (units d.l lGran) stFree).1 = some loff := by rw [e2]
    unfold reserve
    simp only [e1, e2', hw, e3, hres, List.any_nil, Bool.false_eq_true, if_false]
    exact ⟨_, _, rfl⟩
  · intro hnf
    unfold reserve
    by_cases f1 : fitsUnits cu.shapes.1 (d.nwf * units d.s sGran)
    · obtain ⟨soffs, e1⟩ := hS.1 f1
      by_cases f2 : fitsUnits cu.shapes.2.2 (units d.l lGran)
      · obtain ⟨loff, e2, _⟩ := hL.1 f2
        have e2' : (cu.lmask.nextRegion (units d.l lGran) stFree).1 = some loff := by rw [e2]
        have f3 : slotSum (fun k => slotsOn (cap.getD k 0) (cu.shapes.2.1.getD k none) (units d.v vGran))
            cap.length < d.nwf := by
          apply Classical.byContradiction
          intro hge
          exact hnf ⟨f1, f2, by omega⟩
        have e3 := hM.2 f3
        simp only [e1, e2', hw, e3]
        exact ⟨_, rfl⟩
      · have e2 := hL.2 f2
        simp only [e1, e2]
        exact ⟨_, rfl⟩
    · have e1 := hS.2 f1
      simp only [e1]
      exact ⟨_, rfl⟩

/-! ## the mask shapes never change -/

theorem sgprLoop_shape (req : Nat) : ∀ (n : Nat) (M : Mask), (sgprLoop req n M).2.shape = M.shape := by
  intro n
  induction n with
  | zero => intro M; rfl
  | succ n ih =>
    intro M
    simp only [sgprLoop]
    rcases hx : M.nextRegion req stFree with ⟨_ | off, M'⟩
    · simp only
      have := shape_nextRegion M req stFree; rw [hx] at this; exact this
    · simp only
      rw [ih, shape_setStatus]
      have := shape_nextRegion M req stFree; rw [hx] at this; exact this

theorem map_shape_set (l : List Mask) (k : Nat) (M : Mask)
    (h : M.shape = (l.getD k (.lim [])).shape) : (l.set k M).map Mask.shape = l.map Mask.shape := by
  apply List.ext_getElem?
  intro i
  simp only [List.getElem?_map, List.getElem?_set]
  by_cases e : k = i
  · subst e
    by_cases hk : k < l.length
    · simp [hk, h, List.getD_eq_getElem?_getD]
    · simp [hk, List.getElem?_eq_none (by omega : l.length ≤ k)]
  · simp [e]

theorem simdTry_shapes (req : Nat) (w : List Nat) : ∀ (t : Nat) (st : MatchSt),
    (simdTry req w t st).2.vmasks.map Mask.shape = st.vmasks.map Mask.shape := by
  intro t
  induction t with
  | zero => intro st; rfl
  | succ t ih =>
    intro st
    have hskip : (st.vmasks.set st.next ((st.vmasks.getD st.next (.lim [])).nextRegion req stFree).2).map
        Mask.shape = st.vmasks.map Mask.shape := map_shape_set _ _ _ (shape_nextRegion _ _ _)
    rcases hnr : (st.vmasks.getD st.next (.lim [])).nextRegion req stFree with ⟨_ | off, M1⟩
    · simp only [simdTry, hnr]
      rw [ih]; rw [hnr] at hskip; exact hskip
    · simp only [simdTry, hnr]
      rw [hnr] at hskip
      split
      · simp only [List.set_set]
        apply map_shape_set
        rw [shape_setStatus]
        have := shape_nextRegion (st.vmasks.getD st.next (.lim [])) req stFree
        rw [hnr] at this; exact this
      · rw [ih]; exact hskip

theorem matchLoop_shapes (req : Nat) (w : List Nat) : ∀ (n : Nat) (st : MatchSt),
    (matchLoop req w n st).2.vmasks.map Mask.shape = st.vmasks.map Mask.shape := by
  intro n
  induction n with
  | zero => intro st; rfl
  | succ n ih =>
    intro st
    have h1 := simdTry_shapes req w w.length st
    rcases hx : simdTry req w w.length st with ⟨_ | p, st1⟩
    · simp only [matchLoop, hx]; rw [hx] at h1; exact h1
    · simp only [matchLoop, hx]; rw [hx] at h1; rw [ih]; exact h1

theorem map_shape_convert (l : List Mask) (a b : Nat) :
    (l.map (·.convert a b)).map Mask.shape = l.map Mask.shape := by
  rw [List.map_map]
  apply List.map_congr_left
  intro M _
  exact shape_convert M a b

theorem clearTemp_shapes (cu : CU) : (clearTemp cu).shapes = cu.shapes := by
  simp only [clearTemp, CU.shapes, shape_convert, map_shape_convert]

/-- **`ReserveResourceForWG` never changes the shape of a mask**, whatever it answers -/
theorem reserve_shapes (cu : CU) (key : Nat) (d : Dem) : (reserve cu key d).2.shapes = cu.shapes := by
  unfold reserve
  have hS := sgprLoop_shape (units d.s sGran) d.nwf cu.smask
  have hLn := shape_nextRegion cu.lmask (units d.l lGran) stFree
  have hM := matchLoop_shapes (units d.v vGran) cu.wfFree d.nwf
    { vmasks := cu.vmasks, next := cu.nextSIMD, used := cu.wfFree.map (fun _ => 0) }
  cases hs : (sgprLoop (units d.s sGran) d.nwf cu.smask).1 with
  | none =>
    simp only [hs, clearTemp_shapes]
    simp only [CU.shapes, hS]
  | some soffs =>
    simp only [hs]
    cases hl : (cu.lmask.nextRegion (units d.l lGran) stFree).1 with
    | none =>
      simp only [hl, clearTemp_shapes]
      simp only [CU.shapes, hS, hLn]
    | some loff =>
      simp only [hl]
      cases hm : (matchLoop (units d.v vGran) cu.wfFree d.nwf
          { vmasks := cu.vmasks, next := cu.nextSIMD, used := cu.wfFree.map (fun _ => 0) }).1 with
      | none =>
        simp only [hm, clearTemp_shapes]
        simp only [CU.shapes, hS, shape_setStatus, hLn, hM]
      | some ps =>
        simp only [hm]
        split <;> simp only [CU.shapes, shape_convert, map_shape_convert, hS, shape_setStatus, hLn, hM]

theorem freeLoc_shapes (d : Dem) (cu : CU) (l : Loc) : (freeLoc d cu l).shapes = cu.shapes := by
  simp only [freeLoc, CU.shapes, shape_setStatus]
  rw [map_shape_set _ _ _ (shape_setStatus _ _ _ _)]

theorem foldl_freeLoc_shapes (d : Dem) : ∀ (locs : List Loc) (cu : CU),
    (locs.foldl (freeLoc d) cu).shapes = cu.shapes := by
  intro locs
  induction locs with
  | nil => intro cu; rfl
  | cons l ls ih => intro cu; simp only [List.foldl_cons]; rw [ih, freeLoc_shapes]

/-- **`FreeResourcesForWG` never changes the shape of a mask** -/
theorem free_shapes (cu : CU) (key : Nat) (cu' : CU) (h : free cu key = some cu') : cu'.shapes = cu.shapes := by
  unfold free at h
  cases hf : cu.resident.find? (·.1 = key) with
  | none => simp [hf] at h
  | some e =>
    obtain ⟨k, d, locs⟩ := e
    simp only [hf, Option.some.injEq] at h
    subst h
    exact foldl_freeLoc_shapes d locs cu

end C09
