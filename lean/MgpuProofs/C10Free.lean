import MgpuProofs.C10Bufs
/-!
`Free` on an intact allocation: it cannot panic, unmaps exactly the buffer's virtual pages and
returns exactly their physical pages; and the run-level invariant `AllocInv` (every live buffer of
a disciplined single-process history is intact).
-/
namespace C10

/-- the virtual pages of a buffer -/
def bufPages (ps : Nat) (b : Buf) : List Nat := (List.range (numPagesOf ps b.size)).map fun i => b.vaddr + i * ps

/-- the allocation behind buffer `b` of process `π` is intact: the allocator remembers its page
count and every one of its virtual pages is mapped -/
def Intact (s : State) (π : Nat) (b : Buf) : Prop :=
  lookup s.npages b.vaddr = some (numPagesOf s.ps b.size) ∧ ∀ v ∈ bufPages s.ps b, (π, v) ∈ s.pt.map key

theorem bufPages_range {ps : Nat} {b : Buf} {v : Nat} (hps : 0 < ps) (h : v ∈ bufPages ps b) :
    b.vaddr ≤ v ∧ v < pgEnd ps b := by
  obtain ⟨i, hi, rfl⟩ := List.mem_map.mp h
  have hi' := List.mem_range.mp hi
  have : (i + 1) * ps ≤ numPagesOf ps b.size * ps := Nat.mul_le_mul_right _ hi'
  rw [Nat.add_mul, Nat.one_mul, Nat.mul_comm (numPagesOf ps b.size)] at this
  unfold pgEnd
  omega

theorem bufPages_disj {ps : Nat} {a b : Buf} {v : Nat} (hps : 0 < ps) (h : BDisj ps a b)
    (ha : v ∈ bufPages ps a) (hb : v ∈ bufPages ps b) : False := by
  have h1 := bufPages_range hps ha
  have h2 := bufPages_range hps hb
  rcases h with h | h <;> omega

theorem freeVAddrs_eq {s : State} {b : Buf} (h : lookup s.npages b.vaddr = some (numPagesOf s.ps b.size)) :
    freeVAddrs s b.vaddr = bufPages s.ps b := by
  unfold freeVAddrs bufPages
  rw [h]
  simp only [Option.getD_some]
  unfold numPagesOf
  rw [Nat.add_sub_cancel, List.range_succ_eq_map, List.map_cons, List.map_map]
  simp only [Nat.zero_mul, Nat.add_zero, Function.comp_def, Nat.succ_eq_add_one]

/-! ### totality of RemovePage / Free -/

theorem devOfFrom_some : ∀ (devs : List Dev) (i p : Nat), (∃ d ∈ devs, inRange d p = true) →
    ∃ j, devOfFrom devs i p = some j := by
  intro devs
  induction devs with
  | nil => intro i p h; obtain ⟨d, hd, _⟩ := h; simp at hd
  | cons d ds ih =>
    intro i p h
    simp only [devOfFrom]
    split
    · exact ⟨i, rfl⟩
    · rename_i hn
      obtain ⟨d', hd', hr⟩ := h
      rcases List.mem_cons.mp hd' with rfl | hd'
      · exact absurd hr hn
      · exact ih (i + 1) p ⟨d', hd', hr⟩

theorem ptFind_of_mem {pt : List Page} {e : Page} (he : e ∈ pt) : ∃ e', ptFind pt e.pid e.vaddr = some e' := by
  unfold ptFind
  apply Option.isSome_iff_exists.mp
  rw [List.find?_isSome]
  exact ⟨e, he, by simp⟩

theorem removePage_total {s : State} {v π : Nat} (hI : Inv s) (hk : (π, v) ∈ s.pt.map key) :
    ∃ s', removePage s v = .ok s' := by
  obtain ⟨e, he, hke⟩ := List.mem_map.mp hk
  simp only [key, Prod.mk.injEq] at hke
  have hag := hI.mirror.1 e he
  rw [hke.2] at hag
  unfold agreesB at hag
  split at hag
  · rename_i pg hl
    simp at hag
    obtain ⟨⟨hg1, hg2⟩, hg3⟩ := hag
    obtain ⟨d, hd, hb, hend⟩ := hI.phys.inDev e he
    have hps := hI.phys.pspos
    have hr : inRange d pg.paddr = true := by
      unfold inRange; rw [hg3]; simp; omega
    obtain ⟨j, hj⟩ := devOfFrom_some s.devs 0 pg.paddr ⟨d, List.mem_of_getElem? hd, hr⟩
    obtain ⟨e', he'⟩ := ptFind_of_mem he
    unfold removePage
    rw [hl]
    simp only [devOf, hj, ptRemove, hg1, hg2, he']
    exact ⟨_, rfl⟩
  · simp at hag

theorem filter_key_single {pt : List Page} {π : Nat} {e : Page} (hs : ∀ x ∈ pt, x.pid = π) (he : e ∈ pt) :
    (pt.filter fun p => !(p.pid == e.pid && p.vaddr == e.vaddr)) = pt.filter fun p => !(p.vaddr == e.vaddr) := by
  apply List.filter_congr
  intro x hx
  have : x.pid = e.pid := (hs x hx).trans (hs e he).symm
  simp [this]

/-- `Free`'s loop over the pages of an intact single-process allocation: it succeeds, unmaps exactly
the listed virtual pages, and puts exactly the physical pages of their entries on the free lists -/
theorem removePages_total (π : Nat) : ∀ (vs : List Nat) (s : State), Inv s → SinglePID π s → vs.Nodup →
    (∀ v ∈ vs, (π, v) ∈ s.pt.map key) →
    ∃ (s' : State) (es : List Page), removePages vs s = .ok s' ∧ es.map (·.vaddr) = vs ∧ (∀ e ∈ es, e ∈ s.pt) ∧
      s'.pt = s.pt.filter (fun e => !(vs.contains e.vaddr)) ∧
      s'.pool.frees.flatten.Perm (es.map (·.paddr) ++ s.pool.frees.flatten) ∧ Inv s' := by
  intro vs
  induction vs with
  | nil =>
    intro s hI _ _ _
    exact ⟨s, [], rfl, rfl, by simp, (List.filter_eq_self.mpr (by simp)).symm, by simp, hI⟩
  | cons v vs ih =>
    intro s hI hS hnd hk
    obtain ⟨s1, h1⟩ := removePage_total hI (hk v (List.mem_cons_self ..))
    obtain ⟨hP1, hM1, hS1, e, he, hpt, hperm, hev, _⟩ := removePage_pres hI.phys hI.mirror h1
    obtain ⟨_, _, _, hsurv, _⟩ := removePage_w hI.phys (MirrorWeak.of_ok hI.mirror) h1
    have hnd' := List.nodup_cons.mp hnd
    have hk1 : ∀ v' ∈ vs, (π, v') ∈ s1.pt.map key := by
      intro v' hv'
      obtain ⟨x, hx, hkx⟩ := List.mem_map.mp (hk v' (List.mem_cons_of_mem _ hv'))
      simp only [key, Prod.mk.injEq] at hkx
      refine List.mem_map.mpr ⟨x, hsurv x hx ?_, by simp [key, hkx]⟩
      rw [hkx.2]; intro hh; exact hnd'.1 (hh ▸ hv')
    obtain ⟨s', es, hr, hes, hin, hpt', hperm', hI'⟩ := ih s1 ⟨hP1, hM1⟩ (hS1 π hS) hnd'.2 hk1
    refine ⟨s', e :: es, ?_, ?_, ?_, ?_, ?_, hI'⟩
    · simp only [removePages, h1]; exact hr
    · simp [hes, hev]
    · intro x hx
      rcases List.mem_cons.mp hx with rfl | hx
      · exact he
      · have := hin x hx
        rw [hpt] at this
        exact (List.mem_filter.mp this).1
    · rw [hpt', hpt, filter_key_single hS he, List.filter_filter]
      apply List.filter_congr
      intro x _
      rw [hev]
      simp only [List.contains_cons]
      cases (x.vaddr == v) <;> simp
    · refine hperm'.trans ?_
      have := List.Perm.append_left (es.map (·.paddr)) hperm
      refine this.trans ?_
      simp only [List.map_cons, List.cons_append]
      exact List.perm_middle

/-- `Free` of an intact buffer of the single process: no panic; exactly the buffer's pages are
unmapped and exactly their physical pages are returned; the invariant is kept. -/
theorem free_total {s : State} {π : Nat} {b : Buf} (hI : Inv s) (hS : SinglePID π s) (hb : Intact s π b) :
    ∃ (s' : State) (es : List Page), free s b.vaddr = .ok s' ∧ es.map (·.vaddr) = bufPages s.ps b ∧ (∀ e ∈ es, e ∈ s.pt) ∧
      s'.pt = s.pt.filter (fun e => !((bufPages s.ps b).contains e.vaddr)) ∧
      s'.pool.frees.flatten.Perm (es.map (·.paddr) ++ s.pool.frees.flatten) ∧ Inv s' := by
  unfold free
  rw [freeVAddrs_eq hb.1]
  exact removePages_total π (bufPages s.ps b) { s with npages := (b.vaddr, 0) :: s.npages }
    ⟨hI.phys, ⟨hI.mirror.1, hI.mirror.2⟩⟩ hS (range_pages_nodup _ _ _ hI.phys.pspos) hb.2

/-! ### live buffers stay intact in disciplined single-process histories -/

/-- caller discipline: `FreeMemory` is called with the pointer of a live buffer of that context;
`RemovePage` (an allocator-internal entry point the driver never calls) is not used -/
def OpOK (s : State) : Op → Prop
  | .free c ptr => ∃ cx, s.ctxs[c]? = some cx ∧ ∃ b ∈ cx.bufs, b.vaddr = ptr ∧ b.freed = false
  | .rmpage _ => False
  | _ => True

def AllocInv (s : State) : Prop := ∀ c ∈ s.ctxs, ∀ b ∈ c.bufs, b.freed = false → Intact s c.pid b

theorem pairwise_getElem?_ne {α : Type} {R : α → α → Prop} (hsym : ∀ a b, R a b → R b a) {l : List α}
    (hp : l.Pairwise R) {i j : Nat} {a b : α} (hi : l[i]? = some a) (hj : l[j]? = some b) (hne : i ≠ j) : R a b := by
  obtain ⟨hi1, rfl⟩ := List.getElem?_eq_some_iff.mp hi
  obtain ⟨hj1, rfl⟩ := List.getElem?_eq_some_iff.mp hj
  rw [List.pairwise_iff_getElem] at hp
  rcases Nat.lt_or_gt_of_ne hne with h | h
  · exact hp i j hi1 hj1 h
  · exact hsym _ _ (hp j i hj1 hi1 h)

theorem pairwise_mem_ne {ps : Nat} {l : List Buf} (hp : l.Pairwise (BDisj ps)) {a b : Buf} (ha : a ∈ l) (hb : b ∈ l)
    (hne : a.vaddr ≠ b.vaddr) : BDisj ps a b := by
  induction l with
  | nil => simp at ha
  | cons x xs ih =>
    rw [List.pairwise_cons] at hp
    rcases List.mem_cons.mp ha with rfl | ha' <;> rcases List.mem_cons.mp hb with rfl | hb'
    · exact absurd rfl hne
    · exact hp.1 b hb'
    · exact (hp.1 a ha').symm
    · exact ih hp.2 ha' hb'

theorem Intact.of_frame {s s' : State} {π : Nat} {b : Buf} (h : Intact s π b) (e1 : s'.ps = s.ps)
    (e2 : s'.npages = s.npages) (e3 : ∀ k ∈ s.pt.map key, k ∈ s'.pt.map key) : Intact s' π b := by
  unfold Intact at *
  rw [e1, e2]
  exact ⟨h.1, fun v hv => e3 _ (h.2 v hv)⟩

theorem AllocInv.setCtx_sub {s : State} (h : AllocInv s) {c : Nat} {cx x : Ctx} (hc : s.ctxs[c]? = some cx)
    (hp : x.pid = cx.pid) (hsub : ∀ b ∈ x.bufs, b.freed = false → b ∈ cx.bufs) : AllocInv (C10.setCtx s c x) := by
  intro y hy b hb hf
  change y ∈ s.ctxs.set c x at hy
  show Intact s y.pid b
  rcases List.mem_or_eq_of_mem_set hy with hy | rfl
  · exact h y hy b hb hf
  · rw [hp]; exact h cx (List.mem_of_getElem? hc) b (hsub b hb hf) hf

theorem step_intact {n : Nat} {s s' : State} {op : Op} {r : Res} (hW : WInv s) (hG : GpuOK n s) (hm : MigOK n op)
    (hO : OneProc s) (hB : BufInv s) (hA : AllocInv s) (hok : OpOK s op)
    (h : step s op = .ok (r, s')) : AllocInv s' := by
  have hps := hW.phys.pspos
  have frame : ∀ {s1 : State}, s1.ps = s.ps → s1.ctxs = s.ctxs → s1.npages = s.npages →
      s1.pt.map key = s.pt.map key → AllocInv s1 := by
    intro s1 e1 e2 e3 e4 y hy b hb hf
    rw [e2] at hy
    exact (hA y hy b hb hf).of_frame e1 e3 (fun k hk => by rw [e4]; exact hk)
  have allocCase : ∀ {c bytes v : Nat} {cx : Ctx} {s1 : State} {d : Nat} {u : Bool}, s.ctxs[c]? = some cx →
      allocatePages s (numPagesOf s.ps bytes) cx.pid d u = .ok (v, s1) →
      AllocInv (setCtx s1 c { cx with bufs := cx.bufs ++ [{ vaddr := v, size := bytes, freed := false }] }) := by
    intro c bytes v cx s1 d u hc h1
    obtain ⟨_, hv⟩ := allocatePages_pres hW.phys h1
    obtain ⟨_, e1, _, _, e4, _, _, _, e8, e9⟩ := allocatePages_ext hW.mw h1
    obtain ⟨hp, _⟩ := hO.pid_of hc
    have hcm := List.mem_of_getElem? hc
    -- old live buffers stay intact: their start lies below the cursor
    have hold : ∀ y ∈ s.ctxs, ∀ b ∈ y.bufs, b.freed = false → Intact s1 y.pid b := by
      intro y hy b hb hf
      obtain ⟨i1, i2⟩ := hA y hy b hb hf
      have hlt : b.vaddr < v := by
        have h1 := hB.below y hy b hb
        rw [hO.ctxPid y hy, ← hp, ← hv] at h1
        have h2 : s.ps * 1 ≤ s.ps * numPagesOf s.ps b.size := Nat.mul_le_mul_left _ (numPagesOf_pos _ _)
        unfold pgEnd at h1
        omega
      unfold Intact
      rw [e1, e8, e9, lookup_cons_ne _ _ _ _ (by omega)]
      exact ⟨i1, fun w hw => by rw [List.mem_append]; exact Or.inl (i2 w hw)⟩
    intro y hy b hb hf
    change y ∈ s1.ctxs.set c _ at hy
    show Intact s1 y.pid b
    rw [e4] at hy
    rcases List.mem_or_eq_of_mem_set hy with hy | rfl
    · exact hold y hy b hb hf
    · change b ∈ cx.bufs ++ [_] at hb
      rcases List.mem_append.mp hb with hb | hb
      · exact hold cx hcm b hb hf
      · simp at hb; subst hb
        unfold Intact
        rw [e1, e8, e9]
        refine ⟨lookup_cons_eq _ _ _, ?_⟩
        intro w hw
        rw [List.mem_append]; right
        obtain ⟨i, hi, rfl⟩ := List.mem_map.mp hw
        exact List.mem_map.mpr ⟨i, hi, rfl⟩
  cases op with
  | init =>
    rw [step_init h]
    intro y hy b hb hf
    change y ∈ s.ctxs ++ [_] at hy
    rcases List.mem_append.mp hy with hy | hy
    · exact hA y hy b hb hf
    · simp at hy; subst hy; simp at hb
  | initpid c =>
    obtain ⟨cx, _, rfl⟩ := step_initpid h
    intro y hy b hb hf
    change y ∈ s.ctxs ++ [_] at hy
    rcases List.mem_append.mp hy with hy | hy
    · exact hA y hy b hb hf
    · simp at hy; subst hy; simp at hb
  | sel c g =>
    obtain ⟨cx, hc, rfl⟩ := step_sel h
    exact hA.setCtx_sub hc rfl (fun b hb _ => hb)
  | unify c ids =>
    rw [step_unify h]
    exact hA
  | alloc c bytes =>
    obtain ⟨cx, v, s1, hc, h1, rfl, _⟩ := step_alloc h
    exact allocCase hc (allocate_ok h1).2
  | allocu c bytes =>
    obtain ⟨cx, v, s1, hc, h1, rfl, _⟩ := step_allocu h
    exact allocCase hc (allocateUnified_ok h1).2
  | free c ptr =>
    obtain ⟨cx, s1, hc, h1, rfl⟩ := step_free h
    obtain ⟨cx', hc', b0, hb0, hb0v, hb0f⟩ := hok
    rw [hc] at hc'; injection hc' with hc'; subst hc'
    obtain ⟨_, _, e1, _, _, e4, _, _, e7, hsurv, _⟩ := free_w hW.phys hW.mw h1
    have hcm := List.mem_of_getElem? hc
    have hi0 := hA cx hcm b0 hb0 hb0f
    have hfv : freeVAddrs s ptr = bufPages s.ps b0 := by rw [← hb0v]; exact freeVAddrs_eq hi0.1
    -- a live buffer disjoint from the freed one stays intact
    have keep : ∀ (π : Nat) (b : Buf), Intact s π b → BDisj s.ps b0 b → Intact s1 π b := by
      intro π b hi hd
      have hne : ptr ≠ b.vaddr := by
        intro hh
        have h2 : s.ps * 1 ≤ s.ps * numPagesOf s.ps b0.size := Nat.mul_le_mul_left _ (numPagesOf_pos _ _)
        have h3 : s.ps * 1 ≤ s.ps * numPagesOf s.ps b.size := Nat.mul_le_mul_left _ (numPagesOf_pos _ _)
        unfold BDisj pgEnd at hd
        rcases hd with hd | hd <;> omega
      unfold Intact
      rw [e1, e7, lookup_cons_ne _ _ _ _ hne]
      refine ⟨hi.1, fun w hw => ?_⟩
      obtain ⟨x, hx, hkx⟩ := List.mem_map.mp (hi.2 w hw)
      simp only [key, Prod.mk.injEq] at hkx
      refine List.mem_map.mpr ⟨x, hsurv x hx ?_, by simp [key, hkx]⟩
      rw [hfv, hkx.2]
      exact fun hh => bufPages_disj hps hd hh hw
    intro y hy b hb hf
    obtain ⟨j, hj⟩ := List.mem_iff_getElem?.mp hy
    change (s1.ctxs.set c _)[j]? = some y at hj
    show Intact s1 y.pid b
    rw [e4] at hj
    by_cases hjc : c = j
    · subst hjc
      rw [List.getElem?_set_self (List.getElem?_eq_some_iff.mp hc).1] at hj
      injection hj with hj; subst hj
      obtain ⟨b1, hb1, rfl⟩ := List.mem_map.mp hb
      dsimp only at hf ⊢
      split at hf
      · simp at hf
      · rename_i hne
        rw [if_neg hne]
        exact keep _ b1 (hA cx hcm b1 hb1 hf)
          (pairwise_mem_ne (hB.within cx hcm) hb0 hb1 (by rw [hb0v]; exact fun hh => hne hh.symm))
    · rw [List.getElem?_set_ne hjc] at hj
      have hym := List.mem_of_getElem? hj
      have hcd : CDisj s.ps cx y := pairwise_getElem?_ne (fun _ _ => CDisj.symm) hB.across hc hj hjc
      exact keep _ b (hA y hym b hb hf)
        (hcd ((hO.ctxPid cx hcm).trans (hO.ctxPid y hym).symm) b0 hb0 b hb)
  | remap c addr bytes d =>
    obtain ⟨cx, _, h1⟩ := step_remap h
    obtain ⟨_, f, k⟩ := remap_ext hW.mw h1
    exact frame f.ps f.ctxs f.npages k
  | dist c addr bytes ids =>
    obtain ⟨cx, bs, _, h1⟩ := step_dist h
    obtain ⟨_, f, k⟩ := distribute_ext hW.mw h1
    exact frame f.ps f.ctxs f.npages k
  | mig c v g =>
    obtain ⟨cx, no, _, h1⟩ := step_mig h
    have hg : ∀ dv, s.devs[g + 1]? = some dv → dv.kind ≠ .unified := by
      intro dv hdv
      obtain ⟨dv', hdv', hk⟩ := hG g hm
      rw [hdv] at hdv'; injection hdv' with hdv'; subst hdv'
      rw [hk]; decide
    obtain ⟨_, _, f, k, _⟩ := prepareMigration_w hW.phys hW.mw hg h1
    exact frame f.ps f.ctxs f.npages k
  | rmpage v => exact absurd hok id
  | apg c d v u =>
    obtain ⟨cx, pg, _, h1⟩ := step_apg h
    obtain ⟨_, f, k⟩ := allocGiven_ext hW.mw h1
    exact frame f.ps f.ctxs f.npages k
  | rfb c =>
    obtain ⟨cx, hc, rfl⟩ := step_rfb h
    exact hA.setCtx_sub hc rfl (fun b hb _ => (List.mem_filter.mp hb).1)

/-- a history in which every op is used within its caller discipline (checked along the run) -/
def Disciplined : State → List Op → Prop
  | _, [] => True
  | s, op :: ops => OpOK s op ∧ ∀ r s', step s op = .ok (r, s') → Disciplined s' ops

theorem run_intact {n : Nat} : ∀ (ops : List Op) (s s' : State), WInv s → GpuOK n s → (∀ op ∈ ops, MigOK n op) →
    OneProc s → MirrorOK s → s.npid + inits ops ≤ 1 → BufInv s → AllocInv s → Disciplined s ops →
    run s ops = .ok s' → AllocInv s' := by
  intro ops
  induction ops with
  | nil => intro s s' _ _ _ _ _ _ _ hA _ h; simp [run] at h; subst h; exact hA
  | cons op ops ih =>
    intro s s' hW hG hm hO hM hb hB hA hD h
    simp only [run] at h
    split at h
    · simp at h
    · rename_i r s1 h1
      have hmo := hm op (List.mem_cons_self ..)
      obtain ⟨a, b⟩ := step_w hW hG hmo h1
      have hb' : s.npid + ((if op.isInit then 1 else 0) + inits ops) ≤ 1 := by
        unfold inits at hb ⊢
        rw [List.filter_cons] at hb
        split at hb
        · rename_i hi; simp only [hi, if_true]; simp only [List.length_cons] at hb; omega
        · rename_i hi; simp only [hi]; simpa using hb
      have hi : op.isInit = true → s.npid = 0 := by
        intro hi; simp only [hi, if_true] at hb'; omega
      obtain ⟨c, d, e⟩ := step_one hW hG hmo hO hM hi h1
      exact ih s1 s' a b (fun o ho => hm o (List.mem_cons_of_mem _ ho)) c d (by rw [e]; omega)
        (step_buf hW hB h1) (step_intact hW hG hmo hO hB hA hD.1 h1) (hD.2 r s1 h1) h

end C10
