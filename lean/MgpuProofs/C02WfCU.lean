import MgpuProofs.C02WfStep
/-! Several wavefronts on one compute unit sharing memory: each one still simulates its emulator run. -/
namespace C02.Wf

variable {P : Prog}

/-- which events change memory, and how -/
theorem tstep_mem {gate} {s s' : TState} {e : Ev} (h : tstep P gate s e = some s') (hne : isEnv e = false) :
    s'.mem = s.mem ∨ ∃ (k : Nat) (p : Pend), s.vq[k]? = some p ∧ p.inst.isStore = true ∧ s'.mem = p.inst.stf p.r0 s.mem := by
  cases e with
  | env a v => simp [isEnv] at hne
  | fetch => simp only [tstep] at h; split at h <;> cases h; exact Or.inl rfl
  | fetchRet =>
    simp only [tstep] at h
    split at h
    · cases h
    · split at h <;> cases h <;> exact Or.inl rfl
  | resync => simp only [tstep] at h; split at h <;> cases h; exact Or.inl rfl
  | decode =>
    simp only [tstep] at h
    split at h
    · cases h
    · split at h
      · split at h <;> cases h; exact Or.inl rfl
      · cases h
  | issue =>
    simp only [tstep] at h
    split at h
    · cases h
    · split at h <;> cases h; exact Or.inl rfl
  | exec =>
    simp only [tstep] at h
    split at h
    · cases h
    · rename_i i _
      split at h
      · cases hk : i.kind <;> simp only [hk] at h
        · split at h <;> cases h <;> exact Or.inl rfl
        · cases h; exact Or.inl rfl
        · split at h
          · split at h
            · cases h
            · obtain ⟨st, ib, _, rfl⟩ := advance_eq _ _ _ h; exact Or.inl rfl
          · obtain ⟨st, ib, _, rfl⟩ := advance_eq _ _ _ h; exact Or.inl rfl
        · split at h
          · split at h
            · cases h
            · obtain ⟨st, ib, _, rfl⟩ := advance_eq _ _ _ h; exact Or.inl rfl
          · obtain ⟨st, ib, _, rfl⟩ := advance_eq _ _ _ h; exact Or.inl rfl
        · obtain ⟨st, ib, _, rfl⟩ := advance_eq _ _ _ h; exact Or.inl rfl
        · cases h
        · cases h
        · cases h
      · cases h
  | complete =>
    simp only [tstep] at h
    split at h
    · cases h
    · rename_i i _
      cases hk : i.kind <;> simp only [hk] at h
      · split at h
        · split at h
          · obtain ⟨st, ib, _, rfl⟩ := setReady_eq _ _ h; exact Or.inl rfl
          · obtain ⟨st, ib, _, rfl⟩ := advance_eq _ _ _ h; exact Or.inl rfl
        · cases h
      · split at h <;> cases h; exact Or.inl rfl
      · cases h
      · cases h
      · cases h
      · split at h
        · obtain ⟨st, ib, _, rfl⟩ := advance_eq _ _ _ h; exact Or.inl rfl
        · cases h
      · split at h
        · obtain ⟨st, ib, _, rfl⟩ := advance_eq _ _ _ h; exact Or.inl rfl
        · cases h
      · split at h <;> cases h; exact Or.inl rfl
  | serveV k =>
    simp only [tstep] at h
    split at h
    · cases h
    · rename_i p hk
      split at h
      · cases h
      · split at h
        · rename_i hst; cases h; exact Or.inr ⟨k, p, hk, hst, rfl⟩
        · cases h; exact Or.inl rfl
  | serveS k =>
    simp only [tstep] at h
    split at h
    · cases h
    · split at h <;> cases h; exact Or.inl rfl
  | retV =>
    simp only [tstep] at h
    split at h
    · cases h
    · split at h <;> cases h; exact Or.inl rfl
  | retS k =>
    simp only [tstep] at h
    split at h
    · cases h
    · split at h <;> cases h; exact Or.inl rfl

/-- somebody else changes memory the wavefront does not own -/
theorem Sim.mem_change (hP : P.WF) {x0} {s : TState} (hs : Sim P x0 s) (m' : Mem)
    (hag : ∀ a, P.own a = true → m' a = s.mem a) : Sim P x0 { s with mem := m' } := by
  obtain ⟨n, E, H, hrun, hinv⟩ := hs
  have hwf := pend_wf hP hinv
  refine ⟨n, E, H, hrun, ⟨hinv.c, ?_, ?_, hinv.f, hinv.p, hinv.pdec⟩⟩
  · apply hinv.r.mem_change hwf
    intro p hp _ _ b hb
    exact (hag b ((hinv.pdec p hp).2.1 b hb)).symm
  · constructor
    · intro a ha hall
      show E.mem a = m' a
      rw [hag a ha]
      exact hinv.m.m1 a ha hall
    · intro p hp hst hsv a ha
      rw [hinv.m.m2 p hp hst hsv a ha]
      exact (hwf p (List.mem_append_left _ hp)).st_dep hst p.r0 p.r0 s.mem m' a (fun _ _ => rfl) ha

/-- what one wavefront may write, no other wavefront reads or writes (the property's "race-free") -/
def SepL (Ps : List Prog) : Prop :=
  ∀ (w j : Nat) (Pw Pj : Prog), Ps[w]? = some Pw → Ps[j]? = some Pj → w ≠ j →
    ∀ (a : Nat), Pw.wown a = true → Pj.own a = false

/-- what is known about every wavefront of the compute unit during a run -/
structure CUInv (Ps : List Prog) (x0s : List (EState × HState)) (c : List TState) : Prop where
  len : c.length = Ps.length
  lenx : x0s.length = Ps.length
  sim : ∀ (j : Nat) (P : Prog) (x0 : EState × HState) (s : TState),
    Ps[j]? = some P → x0s[j]? = some x0 → c[j]? = some s → Sim P x0 s
  shared : ∀ s ∈ c, ∀ s' ∈ c, s.mem = s'.mem

theorem getElem?_setMemAll (m : Mem) (c : List TState) (j : Nat) :
    (setMemAll m c)[j]? = (c[j]?).map fun s => { s with mem := m } := by
  simp [setMemAll]

theorem cuinv_step (Ps : List Prog) (hP : ∀ P ∈ Ps, P.WF) {gate} (x0s : List (EState × HState)) (fuel : Nat)
    (hhaz : ∀ (j : Nat) (P : Prog) (x0 : EState × HState), Ps[j]? = some P → x0s[j]? = some x0 →
      hazardFreeRun P fuel x0 = true)
    (hsep : SepL Ps)
    {c c' : List TState} (we : Nat × Ev) (h : CUInv Ps x0s c) (hs : custep Ps gate c we = some c') :
    CUInv Ps x0s c' := by
  obtain ⟨w, e⟩ := we
  unfold custep at hs
  simp only at hs
  split at hs
  · cases hs
  · rename_i hne
    have hne' : isEnv e = false := by simpa using hne
    split at hs
    · rename_i s Pw hcw hPw
      split at hs
      · cases hs
      · rename_i s' hst
        cases hs
        have hwlt : w < c.length := by
          rcases Nat.lt_or_ge w c.length with h' | h'
          · exact h'
          · simp [List.getElem?_eq_none h'] at hcw
        have hPwWF := hP Pw (List.mem_of_getElem? hPw)
        refine ⟨by simp [setMemAll, h.len], h.lenx, ?_, ?_⟩
        · intro j Pj x0 t hPj hx0 ht
          rw [getElem?_setMemAll] at ht
          by_cases hjw : j = w
          · subst hjw
            rw [List.getElem?_set_self hwlt] at ht
            simp only [Option.map_some, Option.some.injEq] at ht
            subst ht
            rw [hPw] at hPj; cases hPj
            exact sim_step hPwWF (hhaz j Pw x0 hPw hx0) e (h.sim j Pw x0 s hPw hx0 hcw) hst
          · rw [List.getElem?_set_ne (fun e => hjw e.symm)] at ht
            cases hcj : c[j]? with
            | none => simp [hcj] at ht
            | some sj =>
              simp only [hcj, Option.map_some, Option.some.injEq] at ht
              subst ht
              have hsimj := h.sim j Pj x0 sj hPj hx0 hcj
              have hshared : sj.mem = s.mem :=
                h.shared sj (List.mem_of_getElem? hcj) s (List.mem_of_getElem? hcw)
              apply hsimj.mem_change (hP Pj (List.mem_of_getElem? hPj))
              intro a ha
              rcases tstep_mem hst hne' with hm | ⟨k, p, hk, hpst, hm⟩
              · rw [hm, hshared]
              · rw [hm, hshared]
                -- the store of wavefront w does not touch what wavefront j owns
                have hwx : w < x0s.length := by rw [h.lenx, ← h.len]; exact hwlt
                have hx0w : x0s[w]? = some x0s[w] := List.getElem?_eq_getElem hwx
                obtain ⟨nw, Ew, Hw, _, hinvw⟩ := h.sim w Pw _ s hPw hx0w hcw
                have hpv : p ∈ s.vq := List.mem_of_getElem? hk
                obtain ⟨⟨l, hl⟩, _, hpw⟩ := hinvw.pdec p (List.mem_append_left _ hpv)
                have hfp : p.inst.fp p.r0 a = false := by
                  cases hfa : p.inst.fp p.r0 a with
                  | false => rfl
                  | true =>
                    have := hsep w j Pw Pj hPw hPj (fun e => hjw e.symm) a (hpw hpst a hfa)
                    rw [ha] at this; cases this
                exact (hPwWF.inst l _ hl).1.st_frame hpst p.r0 s.mem a hfp
        · intro t ht t' ht'
          simp only [setMemAll, List.mem_map] at ht ht'
          obtain ⟨_, _, rfl⟩ := ht
          obtain ⟨_, _, rfl⟩ := ht'
          rfl
    · cases hs

theorem cuinv_run (Ps : List Prog) (hP : ∀ P ∈ Ps, P.WF) {gate} (x0s : List (EState × HState)) (fuel : Nat)
    (hhaz : ∀ (j : Nat) (P : Prog) (x0 : EState × HState), Ps[j]? = some P → x0s[j]? = some x0 →
      hazardFreeRun P fuel x0 = true)
    (hsep : SepL Ps) :
    ∀ (evs : List (Nat × Ev)) (c c' : List TState), CUInv Ps x0s c → curun Ps gate c evs = some c' →
      CUInv Ps x0s c' := by
  intro evs
  induction evs with
  | nil => intro c c' h hr; simp only [curun] at hr; cases hr; exact h
  | cons e es ih =>
    intro c c' h hr
    simp only [curun] at hr
    cases hs : custep Ps gate c e with
    | none => simp [hs] at hr
    | some c1 =>
      simp only [hs] at hr
      exact ih c1 c' (cuinv_step Ps hP x0s fuel hhaz hsep e h hs) hr

theorem cuinv_init (Ps : List Prog) (inits : List (Nat × RF)) (m0 : Mem) (hlen : inits.length = Ps.length) :
    CUInv Ps (inits.map fun pr => (einit pr.1 pr.2 m0, ({} : HState)))
      (inits.map fun pr => tinit pr.1 pr.2 m0) := by
  refine ⟨by simpa using hlen, by simpa using hlen, ?_, ?_⟩
  · intro j P x0 s _ hx0 hs
    simp only [List.getElem?_map] at hx0 hs
    cases hi : inits[j]? with
    | none => simp [hi] at hs
    | some pr =>
      simp only [hi, Option.map_some, Option.some.injEq] at hx0 hs
      subst hx0 hs
      exact sim_init pr.1 pr.2 m0
  · intro s hs s' hs'
    simp only [List.mem_map] at hs hs'
    obtain ⟨_, _, rfl⟩ := hs
    obtain ⟨_, _, rfl⟩ := hs'
    rfl

/-! ## the emulator: one wavefront after the other = each one alone -/

/-- two emulator states that agree except on memory the program does not own -/
structure EEq (own : Nat → Bool) (E1 E2 : EState) : Prop where
  pc : E1.pc = E2.pc
  regs : E1.regs = E2.regs
  trace : E1.trace = E2.trace
  done : E1.done = E2.done
  mem : ∀ a, own a = true → E1.mem a = E2.mem a

theorem estep_congr (hP : P.WF) {E1 E2 E1' : EState} (h : EEq P.own E1 E2) (hs : estep P E1 = some E1')
    (hown : ∀ i, P.instAt E1.pc = some i → ∀ a, i.fp E1.regs a = true → P.own a = true) :
    ∃ E2', estep P E2 = some E2' ∧ EEq P.own E1' E2' := by
  unfold estep at hs ⊢
  rw [← h.done, ← h.pc]
  by_cases hd : E1.done = true
  · simp [hd] at hs
  · rw [if_neg hd] at hs ⊢
    cases hi : P.instAt E1.pc with
    | none => simp [hi] at hs
    | some i =>
      simp only [hi] at hs ⊢
      have hwf := (hP.inst _ _ hi).1
      cases hk : i.kind <;> simp only [hk] at hs ⊢ <;> cases hs
      · exact ⟨_, rfl, ⟨rfl, by simp [h.regs], by simp [h.trace, h.pc], rfl, h.mem⟩⟩
      · exact ⟨_, rfl, ⟨by simp [h.regs], h.regs, by simp [h.trace, h.pc], rfl, h.mem⟩⟩
      · refine ⟨_, rfl, ⟨rfl, ?_, by simp [h.trace, h.pc], rfl, h.mem⟩⟩
        show i.ld E1.regs E1.mem = i.ld E2.regs E2.mem
        rw [← h.regs]
        funext x
        by_cases hx : x ∈ i.wrD E1.regs
        · exact hwf.ld_depM E1.regs E1.mem E2.mem (fun a ha => h.mem a (hown i hi a ha)) x hx
        · rw [hwf.ld_frame _ _ x hx, hwf.ld_frame _ _ x hx]
      · refine ⟨_, rfl, ⟨rfl, h.regs, by simp [h.trace, h.pc], rfl, ?_⟩⟩
        intro a ha
        show i.stf E1.regs E1.mem a = i.stf E2.regs E2.mem a
        rw [← h.regs]
        have hst : i.isStore = true := by simp [Inst.isStore, hk]
        cases hf : i.fp E1.regs a with
        | true => exact hwf.st_dep hst _ _ _ _ a (fun _ _ => rfl) hf
        | false => rw [hwf.st_frame hst _ _ a hf, hwf.st_frame hst _ _ a hf]; exact h.mem a ha
      · refine ⟨_, rfl, ⟨rfl, ?_, by simp [h.trace, h.pc], rfl, h.mem⟩⟩
        show i.ld E1.regs E1.mem = i.ld E2.regs E2.mem
        rw [← h.regs]
        funext x
        by_cases hx : x ∈ i.wrD E1.regs
        · exact hwf.ld_depM E1.regs E1.mem E2.mem (fun a ha => h.mem a (hown i hi a ha)) x hx
        · rw [hwf.ld_frame _ _ x hx, hwf.ld_frame _ _ x hx]
      · exact ⟨_, rfl, ⟨rfl, h.regs, by simp [h.trace, h.pc], rfl, h.mem⟩⟩
      · exact ⟨_, rfl, ⟨rfl, h.regs, by simp [h.trace, h.pc], rfl, h.mem⟩⟩
      · exact ⟨_, rfl, ⟨rfl, h.regs, by simp [h.trace, h.pc], rfl, h.mem⟩⟩

theorem EEq.symm {own : Nat → Bool} {E1 E2 : EState} (h : EEq own E1 E2) : EEq own E2 E1 :=
  ⟨h.pc.symm, h.regs.symm, h.trace.symm, h.done.symm, fun a ha => (h.mem a ha).symm⟩

/-- a checked emulator step can be replayed from a state that differs only in foreign memory -/
theorem ehstep_congr (hP : P.WF) {E1 E2 : EState} {H : HState} {y1 : EState × HState}
    (h : EEq P.own E1 E2) (hs : ehstep P (E1, H) = some y1) :
    ∃ E2', ehstep P (E2, H) = some (E2', y1.2) ∧ EEq P.own y1.1 E2' := by
  unfold ehstep at hs ⊢
  simp only at hs ⊢
  rw [← h.done, ← h.pc, ← h.regs]
  split at hs
  · cases hs
  · rename_i hd
    rw [if_neg hd]
    split at hs
    · cases hs
    · rename_i i hi
      split at hs
      · rename_i H' E1' hh he
        split at hs
        · rename_i hoc
          cases hs
          obtain ⟨E2', he2, heq⟩ := estep_congr hP h he (by
            intro j hj a ha
            rw [hi] at hj; cases hj
            have hoc' := hoc
            unfold accOK at hoc'
            simp only [Bool.and_eq_true] at hoc'
            exact expand_own P.own _ hoc'.1 a ha)
          refine ⟨E2', ?_, heq⟩
          simp only [hh, he2, hoc, if_true]
        · cases hs
      · cases hs

theorem ehrun_congr (hP : P.WF) : ∀ (n : Nat) (E1 E2 : EState) (H : HState) (y1 : EState × HState),
    EEq P.own E1 E2 → ehrun P n (E1, H) = some y1 →
    ∃ E2', ehrun P n (E2, H) = some (E2', y1.2) ∧ EEq P.own y1.1 E2' := by
  intro n
  induction n with
  | zero => intro E1 E2 H y1 h hr; simp only [ehrun] at hr; cases hr; exact ⟨E2, rfl, h⟩
  | succ n ih =>
    intro E1 E2 H y1 h hr
    simp only [ehrun] at hr
    cases hs : ehstep P (E1, H) with
    | none => simp [hs] at hr
    | some ya =>
      simp only [hs] at hr
      obtain ⟨Eb, hsb, heq⟩ := ehstep_congr hP h hs
      obtain ⟨E2', hr2, heq'⟩ := ih ya.1 Eb ya.2 y1 heq hr
      exact ⟨E2', by simp only [ehrun, hsb]; exact hr2, heq'⟩

theorem hfr_reaches_done : ∀ (fuel : Nat) (x : EState × HState), hazardFreeRun P fuel x = true →
    ∃ n y, ehrun P n x = some y ∧ y.1.done = true := by
  intro fuel
  induction fuel with
  | zero => intro x h; exact ⟨0, x, rfl, h⟩
  | succ fuel ih =>
    intro x h
    simp only [hazardFreeRun] at h
    by_cases hd : x.1.done = true
    · exact ⟨0, x, rfl, hd⟩
    · simp only [hd] at h
      cases hs : ehstep P x with
      | none => simp [hs] at h
      | some y =>
        simp only [hs] at h
        obtain ⟨n, z, hr, hz⟩ := ih y (by simpa using h)
        exact ⟨n + 1, z, by simp only [ehrun, hs]; exact hr, hz⟩

/-- a checked emulator run changes memory only inside what the wavefront may write -/
theorem ehstep_frame (hP : P.WF) {x y : EState × HState} (hs : ehstep P x = some y) (a : Nat)
    (ha : P.wown a = false) : y.1.mem a = x.1.mem a := by
  unfold ehstep at hs
  split at hs
  · cases hs
  · split at hs
    · cases hs
    · rename_i i hi
      split at hs
      · rename_i H' E' hh he
        split at hs
        · rename_i hoc
          cases hs
          have hd : x.1.done = false := by
            cases hx : x.1.done with
            | false => rfl
            | true => simp [estep, hx] at he
          have hE' := estep_eq he hi hd
          have hwf := (hP.inst _ _ hi).1
          cases hk : i.kind <;> simp only [hk] at hE' <;> subst hE' <;> try rfl
          have hst : i.isStore = true := by simp [Inst.isStore, hk]
          apply hwf.st_frame hst
          cases hf : i.fp x.1.regs a with
          | false => rfl
          | true =>
            unfold accOK at hoc
            simp only [Bool.and_eq_true, Bool.or_eq_true, Bool.not_eq_true'] at hoc
            rcases hoc.2 with h' | h'
            · rw [hst] at h'; cases h'
            · have := expand_own P.wown _ h' a hf
              rw [ha] at this; cases this
        · cases hs
      · cases hs

theorem ehrun_frame (hP : P.WF) : ∀ (n : Nat) (x y : EState × HState), ehrun P n x = some y → ∀ (a : Nat),
    P.wown a = false → y.1.mem a = x.1.mem a := by
  intro n
  induction n with
  | zero => intro x y hr a _; simp only [ehrun] at hr; cases hr; rfl
  | succ n ih =>
    intro x y hr a ha
    simp only [ehrun] at hr
    cases hs : ehstep P x with
    | none => simp [hs] at hr
    | some z =>
      simp only [hs] at hr
      rw [ih z y hr a ha, ehstep_frame hP hs a ha]

theorem SepL.tail {Q : Prog} {Ps : List Prog} (h : SepL (Q :: Ps)) : SepL Ps := by
  intro w j Pw Pj hw hj hne
  exact h (w + 1) (j + 1) Pw Pj (by simpa using hw) (by simpa using hj) (by omega)

/-- **the emulator's sequential order = every wavefront alone** on what it owns; and the whole
    sequence changes memory only inside what its wavefronts may write -/
theorem emuSeq_alone (fuel : Nat) : ∀ (Ps : List Prog) (inits : List (Nat × RF)) (m : Mem) (Es : List EState) (m' : Mem),
    EmuSeq Ps inits m Es m' → (∀ Q ∈ Ps, Q.WF) → SepL Ps → ∀ (m0 : Mem),
    (∀ Q ∈ Ps, ∀ a, Q.own a = true → m a = m0 a) →
    (∀ (j : Nat) (Q : Prog) (pr : Nat × RF), Ps[j]? = some Q → inits[j]? = some pr →
      hazardFreeRun Q fuel (einit pr.1 pr.2 m0, {}) = true) →
    (∀ (a : Nat), (∀ Q ∈ Ps, Q.wown a = false) → m' a = m a) ∧
    ∀ (j : Nat) (Q : Prog) (pc : Nat) (regs : RF), Ps[j]? = some Q → inits[j]? = some (pc, regs) →
    ∃ Eseq n Ealone, Es[j]? = some Eseq ∧ erun Q n (einit pc regs m0) = some Ealone ∧
      EEq Q.own Eseq Ealone ∧ ∀ a, Q.own a = true → m' a = Ealone.mem a := by
  intro Ps inits m Es m' h
  induction h with
  | nil m => intro _ _ _ _ _; exact ⟨fun _ _ => rfl, fun j Q pc regs hj => by simp at hj⟩
  | cons Q0 Ps pc0 regs0 rest m m' n E Es hr hd hseq ih =>
    intro hP hsep m0 hm hhaz
    have hQ0 := hP Q0 (List.mem_cons_self ..)
    -- the checked run of the first wavefront alone, replayed on the memory it finds
    obtain ⟨n2, y2, hr2, hd2⟩ := hfr_reaches_done fuel _ (hhaz 0 Q0 (pc0, regs0) (by simp) (by simp))
    have heq0 : EEq Q0.own (einit pc0 regs0 m0) (einit pc0 regs0 m) :=
      ⟨rfl, rfl, rfl, rfl, fun a ha => (hm Q0 (List.mem_cons_self ..) a ha).symm⟩
    obtain ⟨Eb, hrb, heqb⟩ := ehrun_congr hQ0 n2 _ _ {} y2 heq0 hr2
    have hrb' := ehrun_erun Q0 n2 _ _ hrb
    have hE : E = Eb := erun_done_unique Q0 n n2 _ E Eb hr hd hrb' (by rw [← heqb.done]; exact hd2)
    subst hE
    have hframe0 : ∀ a, Q0.wown a = false → E.mem a = m a := fun a ha => ehrun_frame hQ0 n2 _ _ hrb a ha
    -- the rest of the sequence
    have htail := ih (fun Q' hQ' => hP Q' (List.mem_cons_of_mem _ hQ')) hsep.tail m0
      (by
        intro Q' hQ' a ha
        rw [← hm Q' (List.mem_cons_of_mem _ hQ') a ha]
        apply hframe0
        obtain ⟨k, hk, hk'⟩ := List.getElem_of_mem hQ'
        cases hw : Q0.wown a with
        | false => rfl
        | true =>
          have := hsep 0 (k + 1) Q0 Q' (by simp) (by simp [List.getElem?_eq_getElem hk, hk']) (by omega) a hw
          rw [ha] at this; cases this)
      (fun j Q pr hj hi => hhaz (j + 1) Q pr (by simpa using hj) (by simpa using hi))
    refine ⟨?_, ?_⟩
    · intro a ha
      rw [htail.1 a (fun Q' hQ' => ha Q' (List.mem_cons_of_mem _ hQ'))]
      exact hframe0 a (ha Q0 (List.mem_cons_self ..))
    · intro j Q pc regs hj hi
      cases j with
      | zero =>
        simp only [List.getElem?_cons_zero, Option.some.injEq] at hj hi
        subst hj
        cases hi
        refine ⟨E, n2, y2.1, by simp, ehrun_erun Q0 n2 _ _ hr2, heqb.symm, ?_⟩
        intro a ha
        rw [htail.1 a]
        · exact (heqb.mem a ha).symm
        · intro Q' hQ'
          obtain ⟨k, hk, hk'⟩ := List.getElem_of_mem hQ'
          cases hw : Q'.wown a with
          | false => rfl
          | true =>
            have := hsep (k + 1) 0 Q' Q0 (by simp [List.getElem?_eq_getElem hk, hk']) (by simp) (by omega) a hw
            rw [ha] at this; cases this
      | succ j =>
        simp only [List.getElem?_cons_succ] at hj hi
        obtain ⟨Eseq, n', Ea, h1, h2, h3, h4⟩ := htail.2 j Q pc regs hj hi
        exact ⟨Eseq, n', Ea, by simpa using h1, h2, h3, h4⟩

theorem emuSeq_done : ∀ (Ps : List Prog) (inits : List (Nat × RF)) (m : Mem) (Es : List EState) (m' : Mem),
    EmuSeq Ps inits m Es m' → ∀ (j : Nat) (E : EState), Es[j]? = some E → E.done = true := by
  intro Ps inits m Es m' h
  induction h with
  | nil m => intro j E hj; simp at hj
  | cons Q Qs pc regs rest m m2 k E0 Es' _ hd _ ih =>
    intro j E hj
    cases j with
    | zero => simp only [List.getElem?_cons_zero, Option.some.injEq] at hj; subst hj; exact hd
    | succ j => exact ih j E (by simpa using hj)

end C02.Wf
