import MgpuProofs.C19SysRankT3
/-! # C19 — the closed system: the rank under a shootdown acknowledgement -/
namespace C19
namespace SY
open CP (Cp Cls K Sub Cmd Ans)
open DR (Drv MmuReq MigCmd)

theorem rank_ret_shoot {s : Sys} (I : Inv s) (rest : List Ans) (hin : s.drv.gpuIn = Ans.shoot :: rest) :
    LexLt (rank { s with drv := s.drv.ret.1 }) (rank s) := by
  obtain ⟨r, σ, loc, b0, bk', hbk, hrest, hh, hc, hr, hct, htc, hone, hb, hw, hm, hpg⟩ := c3_phase I rest hin
  obtain ⟨c1, c2, c3, c4, c5⟩ := hct
  simp at c1 c2 c3 c4 c5
  have hpos := hb.pos
  have hRs : R s = 2 * pagesN s.drv r + 4 + sumN (s.drv.mmuIn.map fun r => 2 * pagesN s.drv r + 7) := by
    unfold R curRem
    rw [hc]
    simp only [c1, c2]
    rw [if_neg (by omega), if_pos (by omega)]
  by_cases h2 : 2 ≤ σ.open_
  · rw [c3_ret_more s.drv rest I.nf hin (by omega)]
    generalize hs' : ({ s with drv := { s.drv with shoot := s.drv.shoot - 1, gpuIn := rest } } : Sys) = s'
    have e1 : s'.cp = s.cp := by rw [← hs']
    have e2 : s'.cm = s.cm := by rw [← hs']
    have e3 : s'.w = s.w := by rw [← hs']
    have e4 : s'.back = s.back := by rw [← hs']
    have d1 : s'.drv.cur = s.drv.cur := by rw [← hs']
    have d2 : s'.drv.drain = s.drv.drain := by rw [← hs']
    have d3 : s'.drv.shoot = s.drv.shoot - 1 := by rw [← hs']
    have d4 : s'.drv.ngpu = s.drv.ngpu := by rw [← hs']
    have d5 : s'.drv.mmuIn = s.drv.mmuIn := by rw [← hs']
    have d6 : s'.drv.migLog = s.drv.migLog := by rw [← hs']
    have d7 : s'.drv.toSend = s.drv.toSend := by rw [← hs']
    have d8 : s'.drv.gpuOut = s.drv.gpuOut := by rw [← hs']
    have d9 : s'.drv.gpuIn = rest := by rw [← hs']
    have d10 : s'.drv.toMMU = s.drv.toMMU := by rw [← hs']
    have d11 : s'.drv.mmuOut = s.drv.mmuOut := by rw [← hs']
    have hpn : ∀ q, pagesN s'.drv q = pagesN s.drv q := fun q => by unfold pagesN; rw [d4]
    have hR : R s' = R s := by
      rw [hRs]
      unfold R curRem
      rw [d1, hc]
      simp only [d2, d3, c1, c2, d5, hpn]
      rw [if_neg (by omega), if_pos (by omega)]
    have hq : ∀ e, wq s' e = wq s e := fun e => wq_congr (fun g => by rw [e1]; exact SameCfg.refl _) d6 e
    have hg : gsum s' = gsum s := gsum_same _ _ d4 d6 e1 e2
    have hL : L s' + 1 = L s := by
      unfold L
      rw [hg, drvL_eq s s' hq, drvL_eq s s (fun _ => rfl), d7, d8, d9, d10, d11, e3, e4, hin]
      simp only [List.length_cons]
      omega
    exact lexLt_of hR (by omega)
  · have h1 : σ.open_ = 1 := by omega
    have hl : σ.wait = [] ∧ σ.sent = [] ∧ σ.atG = [] ∧ bk' = [] := by
      simp only [Split.open_, hbk, List.length_cons] at h1
      exact ⟨List.eq_nil_of_length_eq_zero (by omega), List.eq_nil_of_length_eq_zero (by omega),
        List.eq_nil_of_length_eq_zero (by omega), List.eq_nil_of_length_eq_zero (by omega)⟩
    obtain ⟨hwait, hsent, hatg, hbk'⟩ := hl
    subst hbk'
    have hrest' : rest = [] := hrest
    subst hrest'
    have hng := I.ng
    rw [c3_ret_last s.drv [] r I.nf hin (by omega) hc hr.host (by omega) hr.pid]
    have hLOK : c3_LOK s.drv.alloc r.pid r.host (migOrder s.drv.ngpu r.map) :=
      ⟨fun x hx => ⟨(hr.req x hx).1, (hr.req x hx).2, (hpg.found x hx).1, (hpg.found x hx).2⟩, hr.pagesNd, hpg.free⟩
    obtain ⟨a', new, heq, hN⟩ := c3_mkMigs s.w.sys r.pid r.pageSize r.host hr.host (migOrder s.drv.ngpu r.map)
      { s.drv with shoot := 0, gpuIn := [] } I.nf hLOK I.frames I.rel.ranges
      (by show s.drv.mig + _ < _; rw [c3]; have := hr.pagesLt; omega)
    rw [heq]
    have hl0 : new.length = (migOrder s.drv.ngpu r.map).length := by
      have := congrArg List.length hN.key
      simpa using this
    have hne : 0 < (migOrder s.drv.ngpu r.map).length := List.length_pos_iff.mpr hr.pagesNe
    apply lexLt_of_R
    rw [hRs]
    unfold R curRem
    show (match s.drv.cur with
      | none => 0
      | some r' => _) + _ < _
    rw [hc]
    simp only [c1, c3, htc, hone, List.nil_append, hl0, pagesN]
    rw [if_neg (by omega), if_neg (by omega), if_pos (by omega)]
    simp only [Bool.false_eq_true, if_false]
    omega

end SY
end C19
