import MgpuProofs.C19SysRank
/-! # C19 — the closed system: the progress measure under the moves local to one GPU

`rank_cstage`, `rank_ctick`, `rank_take`, `rank_ack`: a stage / a tick of a command processor, a component
taking a sub-request or acknowledging one never increase `rank` and decrease it when they do something;
`busy_enabled`: a GPU that serves a command can always move (or waits for the controllers). -/
namespace C19
namespace SY
open CP (Cp Cls K Sub Cmd Ans)
open DR (Drv MmuReq MigCmd)
open CpS

/-! ## the shape of one GPU -/

/-- GPU `(c, m)` is idle or serves a command -/
def t1_Sh (c : Cp) (m : Comps) : Prop :=
  (∃ rq gq, GIdle rq gq c m) ∨ (∃ x loc rq gq, GS x loc rq gq c m)

/-- every GPU has a shape; the GPUs that are not idle are among the first `ngpu` -/
theorem t1_shape {s : Sys} (I : Inv s) (g : Nat) :
    (∃ rq gq, GIdle rq gq (s.cp g) (s.cm g)) ∨
    (g < s.drv.ngpu ∧ ∃ x loc rq gq, GS x loc rq gq (s.cp g) (s.cm g)) := by
  have ng := I.ng
  cases I.ph with
  | idle hd hg hw hm => exact Or.inl ⟨_, _, hg g⟩
  | bcast p r σ loc hp hh hc hr hct htc hone hb hw hm hpg hrh =>
    by_cases hg : g ∈ σ.atG
    · right
      refine ⟨?_, _, _, _, _, hb.busy g hg⟩
      have hall : g ∈ σ.all := by
        simp only [Split.all, List.mem_append]; exact Or.inl (Or.inl (Or.inr hg))
      have ht : g ∈ targets p s.drv.ngpu r := hb.perm.subset hall
      cases p with
      | drain => exact List.mem_range.mp ht
      | rdma => exact List.mem_range.mp ht
      | shoot => exact accT_lt hr ht
      | restart => exact accT_lt hr ht
      | mig => exact absurd rfl hp
    · exact Or.inl ⟨_, _, hb.idle g hg⟩
  | mig r fl ws hh hc hr hct hmp hw hm hrh =>
    by_cases hfl : ∃ m loc, fl = some (m, .atG loc) ∧ g = m.gpu
    · obtain ⟨m, loc, rfl, rfl⟩ := hfl
      right
      have := (hmp.fly m _ rfl).gpu
      exact ⟨by omega, _, _, _, _, hmp.busy m loc rfl⟩
    · exact Or.inl ⟨_, _, hmp.idle g (fun m loc hx e => hfl ⟨m, loc, hx, e⟩)⟩

/-! ## a move local to GPU `g` -/

theorem t1_wq_local {s s' : Sys} (g : Nat) (c' : Cp) (hd : s'.drv = s.drv) (hcp : s'.cp = upd s.cp g c')
    (hcfg : SameCfg (s.cp g) c') : wq s' = wq s := by
  funext e
  unfold wq
  rw [hd, hcp]
  by_cases h : e.1 = g
  · rw [h, upd_same]; exact wCmd_same hcfg _ _
  · rw [upd_other _ _ _ _ h]

theorem t1_local {s s' : Sys} (I : Inv s) (g : Nat) (c' : Cp) (m' : Comps)
    (hl : LocalOK (s.cp g) (s.cm g) c' m')
    (hd : s'.drv = s.drv) (hw : s'.w = s.w) (hb : s'.back = s.back)
    (hcp : s'.cp = upd s.cp g c') (hcm : s'.cm = upd s.cm g m')
    (hle : gmeas (wmOf s.drv) c' m' ≤ gmeas (wmOf s.drv) (s.cp g) (s.cm g)) :
    LexLe (rank s') (rank s) ∧
    (g < s.drv.ngpu → gmeas (wmOf s.drv) c' m' < gmeas (wmOf s.drv) (s.cp g) (s.cm g) → LexLt (rank s') (rank s)) := by
  have hR : R s' = R s := by unfold R; rw [hd]
  have hq := t1_wq_local g c' hd hcp hl.cfg
  have hD : drvL s' = drvL s := by unfold drvL; rw [hq, hd]
  rcases t1_shape I g with ⟨rq, gq, hi⟩ | ⟨hg, _⟩
  · obtain ⟨e1, e2⟩ := hl.idle rq gq hi
    have hcp' : s'.cp = s.cp := by rw [hcp, e1, upd_id]
    have hcm' : s'.cm = s.cm := by rw [hcm, e2, upd_id]
    have hG : gsum s' = gsum s := by unfold gsum; rw [hd, hcp', hcm']
    have hL : L s' = L s := by unfold L; rw [hD, hG, hw, hb]
    refine ⟨Or.inr ⟨hR, Nat.le_of_eq hL⟩, ?_⟩
    intro _ hlt
    rw [e1, e2] at hlt
    exact absurd hlt (Nat.lt_irrefl _)
  · have hG := gsum_upd s s' g hg hd
      (fun x hx => by rw [hcp, upd_other _ _ _ _ hx]) (fun x hx => by rw [hcm, upd_other _ _ _ _ hx])
    rw [hcp, hcm, upd_same, upd_same] at hG
    have hL : L s' + gmeas (wmOf s.drv) (s.cp g) (s.cm g) = L s + gmeas (wmOf s.drv) c' m' := by
      unfold L; rw [hD, hw, hb]; omega
    refine ⟨Or.inr ⟨hR, ?_⟩, fun _ hlt => Or.inr ⟨hR, ?_⟩⟩
    · show L s' ≤ L s
      omega
    · show L s' < L s
      omega

/-! ## one GPU under a stage, a pass, a tick -/

theorem t1_sh_cstage (k : Nat) (wm : Nat → Nat) {c : Cp} {m : Comps} (hc : CfgOK c) (h : t1_Sh c m) :
    t1_Sh (cstageFn k c).1 m ∧ CfgOK (cstageFn k c).1 ∧
    gmeas wm (cstageFn k c).1 m ≤ gmeas wm c m ∧
    ((cstageFn k c).2 = true → gmeas wm (cstageFn k c).1 m < gmeas wm c m) := by
  refine ⟨?_, cfgOK_of_same (sameCfg_cstage k c) hc, ?_⟩
  · rcases h with ⟨rq, gq, hi⟩ | ⟨x, loc, rq, gq, hg⟩
    · rw [idle_cstage k hi]; exact Or.inl ⟨rq, gq, hi⟩
    · obtain ⟨⟨loc', hg', _⟩, _, _⟩ := busy_cstage k wm hc hg
      exact Or.inr ⟨x, loc', rq, gq, hg'⟩
  · rcases h with ⟨rq, gq, hi⟩ | ⟨x, loc, rq, gq, hg⟩
    · rw [idle_cstage k hi]
      exact ⟨Nat.le_refl _, fun h => by cases h⟩
    · obtain ⟨_, h1, h2⟩ := busy_cstage k wm hc hg
      refine ⟨?_, h1⟩
      cases hf : (cstageFn k c).2 with
      | true => exact Nat.le_of_lt (h1 hf)
      | false => rw [h2 hf]; exact Nat.le_refl _

theorem t1_runStages (wm : Nat → Nat) (m : Comps) (ks : List Nat) : ∀ (c : Cp) (b : Bool), CfgOK c → t1_Sh c m →
    t1_Sh (CP.runStages (ks.map cstageFn) (c, b)).1 m ∧ CfgOK (CP.runStages (ks.map cstageFn) (c, b)).1 ∧
    gmeas wm (CP.runStages (ks.map cstageFn) (c, b)).1 m ≤ gmeas wm c m ∧
    ((CP.runStages (ks.map cstageFn) (c, b)).2 = true →
      b = true ∨ gmeas wm (CP.runStages (ks.map cstageFn) (c, b)).1 m < gmeas wm c m) := by
  induction ks with
  | nil =>
    intro c b hc h
    exact ⟨h, hc, Nat.le_refl _, fun hb => Or.inl hb⟩
  | cons k ks ih =>
    intro c b hc h
    obtain ⟨a1, a2, a3, a4⟩ := t1_sh_cstage k wm hc h
    have e : CP.runStages ((k :: ks).map cstageFn) (c, b) =
        CP.runStages (ks.map cstageFn) ((cstageFn k c).1, b || (cstageFn k c).2) := by
      simp only [CP.runStages, List.map_cons, List.foldl_cons]
    rw [e]
    obtain ⟨b1, b2, b3, b4⟩ := ih (cstageFn k c).1 (b || (cstageFn k c).2) a2 a1
    refine ⟨b1, b2, Nat.le_trans b3 a3, ?_⟩
    intro hr
    rcases b4 hr with h5 | h5
    · rcases (Bool.or_eq_true _ _).mp h5 with h6 | h6
      · exact Or.inl h6
      · exact Or.inr (Nat.lt_of_le_of_lt b3 (a4 h6))
    · exact Or.inr (Nat.lt_of_lt_of_le h5 a3)

theorem t1_stages_eq : CP.stages = [0, 1, 2, 3, 4, 5, 6, 7].map cstageFn := rfl

theorem t1_pass (wm : Nat → Nat) {c : Cp} {m : Comps} (hc : CfgOK c) (h : t1_Sh c m) :
    t1_Sh c.pass.1 m ∧ CfgOK c.pass.1 ∧ gmeas wm c.pass.1 m ≤ gmeas wm c m ∧
    (c.pass.2 = true → gmeas wm c.pass.1 m < gmeas wm c m) := by
  unfold Cp.pass
  rw [t1_stages_eq]
  obtain ⟨a1, a2, a3, a4⟩ := t1_runStages wm m [0, 1, 2, 3, 4, 5, 6, 7] c false hc h
  refine ⟨a1, a2, a3, fun hr => ?_⟩
  rcases a4 hr with h5 | h5
  · cases h5
  · exact h5

theorem t1_tick (wm : Nat → Nat) {c : Cp} {m : Comps} (hc : CfgOK c) (h : t1_Sh c m) :
    gmeas wm c.tick.1 m ≤ gmeas wm c m ∧ (c.tick.2 = true → gmeas wm c.tick.1 m < gmeas wm c m) := by
  unfold Cp.tick
  split
  · exact ⟨Nat.le_refl _, fun h => by cases h⟩
  · simp only
    split
    · obtain ⟨_, _, a3, a4⟩ := t1_pass wm hc h
      refine ⟨a3, fun hr => a4 ?_⟩
      simpa using hr
    · obtain ⟨a1, a2, a3, a4⟩ := t1_pass wm hc h
      obtain ⟨_, _, b3, b4⟩ := t1_pass wm a2 a1
      refine ⟨Nat.le_trans b3 a3, fun hr => ?_⟩
      rcases (Bool.or_eq_true _ _).mp hr with h6 | h6
      · exact Nat.lt_of_le_of_lt b3 (a4 h6)
      · exact Nat.lt_of_lt_of_le (b4 h6) a3

theorem t1_sh_of {s : Sys} (I : Inv s) (g : Nat) : t1_Sh (s.cp g) (s.cm g) := by
  rcases t1_shape I g with h | ⟨_, h⟩
  · exact Or.inl h
  · exact Or.inr h

/-! ## the four moves -/

theorem rank_cstage {s : Sys} (I : Inv s) (g k : Nat) :
    LexLe (rank (step s (.cstage g k))) (rank s) ∧
    (g < s.drv.ngpu → (cstageFn k (s.cp g)).2 = true → LexLt (rank (step s (.cstage g k))) (rank s)) := by
  obtain ⟨_, _, a3, a4⟩ := t1_sh_cstage k (wmOf s.drv) (I.cfg g) (t1_sh_of I g)
  obtain ⟨b1, b2⟩ := t1_local (s' := step s (.cstage g k)) I g (cstageFn k (s.cp g)).1 (s.cm g)
    (localOK_cstage k _ _) rfl rfl rfl rfl (upd_id _ _).symm a3
  exact ⟨b1, fun hg hf => b2 hg (a4 hf)⟩

theorem rank_ctick {s : Sys} (I : Inv s) (g : Nat) :
    LexLe (rank (step s (.ctick g))) (rank s) ∧
    (g < s.drv.ngpu → (s.cp g).tick.2 = true → LexLt (rank (step s (.ctick g))) (rank s)) := by
  obtain ⟨a3, a4⟩ := t1_tick (wmOf s.drv) (I.cfg g) (t1_sh_of I g)
  obtain ⟨b1, b2⟩ := t1_local (s' := step s (.ctick g)) I g (s.cp g).tick.1 (s.cm g)
    (localOK_tick _ _) rfl rfl rfl rfl (upd_id _ _).symm a3
  exact ⟨b1, fun hg hf => b2 hg (a4 hf)⟩

theorem t1_sh_takeG (wm : Nat → Nat) (cl : Cls) {c : Cp} {m : Comps} (hc : CfgOK c) (h : t1_Sh c m) :
    gmeas wm (takeG c m cl).1 (takeG c m cl).2 ≤ gmeas wm c m ∧
    (cl ≠ .pmc → c.out cl ≠ [] → gmeas wm (takeG c m cl).1 (takeG c m cl).2 < gmeas wm c m) := by
  rcases h with ⟨rq, gq, hi⟩ | ⟨x, loc, rq, gq, hg⟩
  · rw [idle_takeG hi]
    refine ⟨Nat.le_refl _, fun _ ho => absurd ?_ ho⟩
    rw [hi.cp]; cases cl <;> rfl
  · obtain ⟨_, h1, h2⟩ := busy_takeG wm cl hc hg
    constructor
    · rcases h1 with h1 | h1
      · rw [h1]; exact Nat.le_refl _
      · exact Nat.le_of_lt h1
    · intro hp ho
      rcases h1 with h1 | h1
      · exact absurd h1 (h2 hp ho)
      · exact h1

theorem t1_sh_ackG (wm : Nat → Nat) (cl : Cls) (j : Nat) {c : Cp} {m : Comps} (hc : CfgOK c) (h : t1_Sh c m) :
    gmeas wm (ackG c m cl j).1 (ackG c m cl j).2 ≤ gmeas wm c m ∧
    (m.pend cl ≠ [] → gmeas wm (ackG c m cl j).1 (ackG c m cl j).2 < gmeas wm c m) := by
  rcases h with ⟨rq, gq, hi⟩ | ⟨x, loc, rq, gq, hg⟩
  · rw [idle_ackG hi]
    exact ⟨Nat.le_refl _, fun ho => absurd (pend_of_pendEmpty hi.pe cl) ho⟩
  · obtain ⟨_, h1, h2⟩ := busy_ackG wm cl j hc hg
    constructor
    · rcases h1 with h1 | h1
      · rw [h1]; exact Nat.le_refl _
      · exact Nat.le_of_lt h1
    · intro ho
      rcases h1 with h1 | h1
      · exact absurd h1 (h2 ho)
      · exact h1

theorem rank_take {s : Sys} (I : Inv s) (g : Nat) (cl : Cls) :
    LexLe (rank (step s (.take g cl))) (rank s) ∧
    (g < s.drv.ngpu → cl ≠ .pmc → (s.cp g).out cl ≠ [] → LexLt (rank (step s (.take g cl))) (rank s)) := by
  obtain ⟨a3, a4⟩ := t1_sh_takeG (wmOf s.drv) cl (I.cfg g) (t1_sh_of I g)
  obtain ⟨b1, b2⟩ := t1_local (s' := step s (.take g cl)) I g _ _
    (localOK_takeG (s.cp g) (s.cm g) cl) rfl rfl rfl rfl rfl a3
  exact ⟨b1, fun hg hp ho => b2 hg (a4 hp ho)⟩

theorem rank_ack {s : Sys} (I : Inv s) (g : Nat) (cl : Cls) (j : Nat) :
    LexLe (rank (step s (.ack g cl j))) (rank s) ∧
    (g < s.drv.ngpu → (s.cm g).pend cl ≠ [] → LexLt (rank (step s (.ack g cl j))) (rank s)) := by
  obtain ⟨a3, a4⟩ := t1_sh_ackG (wmOf s.drv) cl j (I.cfg g) (t1_sh_of I g)
  obtain ⟨b1, b2⟩ := t1_local (s' := step s (.ack g cl j)) I g _ _
    (localOK_ackG (s.cp g) (s.cm g) cl j) rfl rfl rfl rfl rfl a3
  exact ⟨b1, fun hg ho => b2 hg (a4 ho)⟩

/-! ## a busy GPU can move -/

theorem t1_hCtrl_true {c : Cp} {x : Cmd} {rest : List Cmd} {rq gq : Bool} (hf : c.fault = none)
    (hd : c.drvIn = x :: rest) (hs : c.shoot = false) (hn : c.numCache = 0) (hp : Pre x rq gq) : (Cp.hCtrl c).2 = true := by
  unfold Cp.hCtrl
  rw [if_neg (by simp [hf])]
  cases x with
  | drain => simp only [hd]; split <;> rfl
  | rdmaRestart => simp only [hd]
  | shoot id => simp [hd, hs, hn]
  | restart => simp only [hd]; split <;> rfl
  | mig id => simp only [hd]; split <;> rfl
  | flush f => exact hp.elim
  | other => exact hp.elim

theorem t1_shoot_setTok {x : Cmd} {cl : Cls} {k : K} (b : Cp) (o i : List Sub) (n : Nat) (hch : (cl, k) ∈ chain x)
    (hc : cl = .cache) (hk : k = .flush) : (setTok (baseX x b) cl k o i n).shoot = true := by
  subst hc; subst hk
  cases x <;> simp [chain] at hch <;> rfl

theorem t1_stage_true {c : Cp} {cl : Cls} {y : Sub} {rest : List Sub} (hf : c.fault = none)
    (hi : c.inn cl = y :: rest) (hk : y.k ≠ .junk)
    (hsh : cl = .cache → y.k = .flush → c.shoot = true) : (stageOf cl c).2 = true := by
  cases cl with
  | rdma =>
    have hi' : c.rdmaIn = y :: rest := hi
    simp only [stageOf, Cp.rRdma, hf, hi']
    cases hy : y.k <;> simp_all <;> split <;> rfl
  | cu =>
    have hi' : c.cuIn = y :: rest := hi
    simp only [stageOf, Cp.rCU, hf, hi']
    cases hy : y.k <;> simp_all <;> split <;> rfl
  | «at» =>
    have hi' : c.atIn = y :: rest := hi
    simp only [stageOf, Cp.rAT, hf, hi']
    simp [hk]
    repeat' split
    all_goals rfl
  | cache =>
    have hi' : c.cacheIn = y :: rest := hi
    simp only [stageOf, Cp.rCache, hf, hi']
    cases hy : y.k
    · have hs := hsh rfl hy
      simp [hs]
      repeat' split
      all_goals rfl
    · simp_all
      repeat' split
      all_goals rfl
    · simp_all
  | tlb =>
    have hi' : c.tlbIn = y :: rest := hi
    simp only [stageOf, Cp.rTLB, hf, hi']
    cases hy : y.k <;> simp_all <;> split <;> rfl
  | pmc =>
    have hi' : c.pmcIn = y :: rest := hi
    simp only [stageOf, Cp.rPMC, hf, hi']
    simp [hk]
    split <;> rfl

theorem t1_stage_idx (cl : Cls) (c : Cp) : ∃ k, cstageFn k c = stageOf cl c := by
  cases cl
  · exact ⟨2, rfl⟩
  · exact ⟨3, rfl⟩
  · exact ⟨4, rfl⟩
  · exact ⟨5, rfl⟩
  · exact ⟨6, rfl⟩
  · exact ⟨7, rfl⟩

theorem t1_fault_setTok (x : Cmd) (b : Cp) (cl : Cls) (k : K) (o i : List Sub) (n : Nat) :
    (setTok (baseX x b) cl k o i n).fault = none := by
  cases x <;> cases cl <;> cases k <;> rfl

/-- a busy GPU can always move: a stage of its command processor makes progress, a component can take or
    acknowledge a request, an answer or a PMC request waits to be picked up, or it waits for the controllers -/
theorem busy_enabled {x : Cmd} {loc : BLoc} {rq gq : Bool} {c : Cp} {m : Comps} (hc : CfgOK c) (h : GS x loc rq gq c m) :
    (∃ k, (cstageFn k c).2 = true) ∨ (∃ cl, cl ≠ Cls.pmc ∧ c.out cl ≠ []) ∨ (∃ cl, m.pend cl ≠ []) ∨
    c.drvOut ≠ [] ∨ c.pmcOut ≠ [] ∨ loc = .pmcWait := by
  have _ := hc
  obtain ⟨pre, h'⟩ := h
  cases loc with
  | cmd =>
    obtain ⟨hcp, _, _⟩ := h'
    left
    exact ⟨1, t1_hCtrl_true (c := c) (fld Cp.fault hcp rfl) (fld Cp.drvIn hcp rfl) (fld Cp.shoot hcp rfl) (fld Cp.numCache hcp rfl) pre⟩
  | tok cl k =>
    obtain ⟨O, P, I, C, g⟩ := h'
    cases O with
    | cons o O' =>
      right; left
      refine ⟨cl, chain_ne_pmc g.ch, ?_⟩
      rw [tok_out g.cp]; simp [toks]
    | nil =>
      cases P with
      | cons p P' =>
        right; right; left
        refine ⟨cl, ?_⟩
        rw [g.pend]; simp [toks]
      | nil =>
        cases I with
        | nil => exact absurd g.ne (by simp)
        | cons i I' =>
          left
          obtain ⟨k', hk'⟩ := t1_stage_idx cl c
          refine ⟨k', ?_⟩
          rw [hk']
          have hf : c.fault = none := by rw [g.cp]; exact t1_fault_setTok ..
          exact t1_stage_true (y := ⟨k, i, 0⟩) (rest := toks k 0 I') hf (tok_inn g.cp) (chain_ne_junk g.ch)
            (fun hc hk => by rw [g.cp]; exact t1_shoot_setTok _ _ _ _ g.ch hc hk)
  | pmcOut =>
    obtain ⟨⟨id, _, hcp⟩, _, _⟩ := h'
    right; right; right; right; left
    rw [fld Cp.pmcOut hcp rfl]; simp
  | pmcWait => right; right; right; right; right; rfl
  | pmcIn =>
    obtain ⟨_, hcp, _, _⟩ := h'
    left
    exact ⟨7, t1_stage_true (cl := .pmc) (y := ⟨.flush, 0, 0⟩) (rest := []) (fld Cp.fault hcp rfl)
      (fld Cp.pmcIn hcp rfl) (by simp) (fun h => by cases h)⟩
  | ans =>
    obtain ⟨hcp, _, _⟩ := h'
    right; right; right; left
    rw [fld Cp.drvOut hcp rfl]; simp

end SY
end C19
