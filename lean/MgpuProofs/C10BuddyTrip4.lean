import MgpuProofs.C10BuddyFull
/-!
Buddy allocator, histories with frees — totality: on a device `init base (4096 * 2^F)` every operation either
succeeds or faults with `oom`. In particular `add` never faults (no bit-field index out of range) and an
allocation never returns a page outside the device.
-/
namespace C10.Buddy

/-- nbits of a device of 2^F pages -/
def NB (F : Nat) (s : State) : Prop := s.nbits = 64 * (2 ^ F / 64 + 1)

theorem ix_lt_nbits {F l k : Nat} (hl : l < F) (hk : k < 2 ^ l) : ix l k < 64 * (2 ^ F / 64 + 1) := by
  unfold ix
  have hp : 2 ^ (l + 1) ≤ 2 ^ F := Nat.pow_le_pow_right (by decide) hl
  rw [pow_succ2] at hp
  have := nbits_gt F
  omega

/-! ## levelOfBlock -/

theorem levelOf_total_aux {F : Nat} {s : State} (h : FInv F s) (hnb : NB F s) {l k : Nat} (hl : l ≤ F)
    (hk : k < 2 ^ l) (hex : Ex (SplitN F s) l k) (hns : ¬ SplitN F s l k) :
    ∀ n, l ≤ n → n ≤ F → levelOf s (addr s.base F l k) n = .ok l := by
  have hnb' : s.nbits = 64 * (2 ^ F / 64 + 1) := hnb
  intro n
  induction n with
  | zero =>
    intro hln _
    have e : l = 0 := by omega
    subst e
    simp only [levelOf]
  | succ n ih =>
    intro hln hnF
    simp only [levelOf]
    rcases Nat.lt_or_ge n l with hlt | hge
    · have e : l = n + 1 := by omega
      subst e
      have ei : indexOfBlock s.base s.size (addr s.base F (n + 1) k) n = ix n (k / 2) := by
        rw [h.hsize]; exact index_parent hl
      rw [ei]
      have hsp : ix n (k / 2) ∈ s.split := (hex n rfl).2
      have pn := pow_succ2 n
      have hb : ix n (k / 2) < s.nbits := by
        rw [hnb']; exact ix_lt_nbits (by omega) (by omega)
      rw [if_pos hb, if_pos hsp]
    · obtain ⟨d, rfl⟩ : ∃ d, n = l + d := ⟨n - l, by omega⟩
      have ea := addr_desc (base := s.base) (F := F) (l := l) (k := k) d (by omega)
      have ei : indexOfBlock s.base s.size (addr s.base F l k) (l + d) = ix (l + d) (k * 2 ^ d) := by
        rw [h.hsize, ← ea]; exact index_self (by omega)
      rw [ei]
      have hkk : k * 2 ^ d < 2 ^ (l + d) := by
        rw [Nat.pow_add]
        exact Nat.mul_lt_mul_of_pos_right hk (Nat.pow_pos (by decide))
      have hnsp : ix (l + d) (k * 2 ^ d) ∉ s.split := by
        intro hin
        have hs : SplitN F s (l + d) (k * 2 ^ d) := ⟨by omega, hin⟩
        cases d with
        | zero => simp at hs; exact hns hs
        | succ d =>
          have hex' := h.tree.B _ _ (by omega) hkk hs
          have := h.tree.anc d l _ (by omega) hkk hex'
          rw [Nat.mul_div_cancel _ (Nat.pow_pos (by decide))] at this
          exact hns this
      have hb : ix (l + d) (k * 2 ^ d) < s.nbits := by
        rw [hnb']; exact ix_lt_nbits (by omega) hkk
      rw [if_pos hb, if_neg hnsp]
      exact ih (by omega) (by omega)

theorem levelOf_total {F : Nat} {s : State} (h : FInv F s) (hnb : NB F s) {l k : Nat} (hl : l ≤ F) (hk : k < 2 ^ l)
    (hex : Ex (SplitN F s) l k) (hns : ¬ SplitN F s l k) :
    levelOf s (addr s.base F l k) (s.free.length - 1) = .ok l :=
  levelOf_total_aux h hnb hl hk hex hns (s.free.length - 1) (by rw [h.hlen]; omega) (by rw [h.hlen]; omega)

/-! ## freeBlock -/

theorem freeLoop_step {lv a : Nat} {s : State} (hc : indexOfBlock s.base s.size a lv < s.nbits) :
    freeLoop (lv + 1) a s =
      if indexOfBlock s.base s.size a lv ∈ toggle s.merge (indexOfBlock s.base s.size a lv) then
        .ok (push { s with merge := toggle s.merge (indexOfBlock s.base s.size a lv) } (lv + 1) a)
      else
        freeLoop lv (if buddyOf s.base s.size a (lv + 1) < a then buddyOf s.base s.size a (lv + 1) else a)
          { s with merge := toggle s.merge (indexOfBlock s.base s.size a lv),
                   split := toggle s.split (indexOfBlock s.base s.size a lv),
                   free := setLvl s.free (lv + 1) ((lvl s.free (lv + 1)).erase (buddyOf s.base s.size a (lv + 1))) } := by
  simp only [freeLoop, flipMerge, flipSplit, hc, if_true]

theorem freeLoop_total {F : Nat} : ∀ (L k : Nat) (s : State), FInv F s → NB F s → L ≤ F → k < 2 ^ L →
    UsedN F s L k → NoTrk F s L k → ∃ s', freeLoop L (addr s.base F L k) s = .ok s' ∧ s'.nbits = s.nbits := by
  intro L
  induction L with
  | zero =>
    intro k s _ _ _ _ _ _
    exact ⟨push s 0 (addr s.base F 0 k), by simp only [freeLoop], rfl⟩
  | succ lv ih =>
    intro k s h hnb hl hk hu hnt
    have hnb' : s.nbits = 64 * (2 ^ F / 64 + 1) := hnb
    have pl := pow_succ2 lv
    have ei : indexOfBlock s.base s.size (addr s.base F (lv + 1) k) lv = ix lv (k / 2) := by
      rw [h.hsize]; exact index_parent hl
    have eb : buddyOf s.base s.size (addr s.base F (lv + 1) k) (lv + 1) = addr s.base F (lv + 1) (bud k) := by
      rw [h.hsize]; exact buddy_addr hl
    have hmt : ix lv (k / 2) ∈ toggle s.merge (ix lv (k / 2)) ↔ ¬ MergeN s lv (k / 2) := by
      rw [mem_toggle h.mnodup, if_pos rfl]
      rfl
    have hlt : ix lv (k / 2) < s.nbits := by
      rw [hnb']; exact ix_lt_nbits (by omega) (by omega)
    rw [freeLoop_step (by rw [ei]; exact hlt), ei, eb]
    by_cases hm : ix lv (k / 2) ∈ toggle s.merge (ix lv (k / 2))
    · rw [if_pos hm]
      exact ⟨_, rfl, rfl⟩
    · rw [if_neg hm, min_buddy_addr hl]
      have hmg : MergeN s lv (k / 2) := Classical.not_not.mp (fun hn => hm (hmt.mpr hn))
      obtain ⟨h1, u1, n1⟩ := finv_free_merge
        (s' := { s with merge := toggle s.merge (ix lv (k / 2)), split := toggle s.split (ix lv (k / 2)),
                        free := setLvl s.free (lv + 1) ((lvl s.free (lv + 1)).erase (addr s.base F (lv + 1) (bud k))) })
        h hl hk hu hnt hmg rfl rfl rfl rfl rfl rfl rfl
      obtain ⟨s', e, hn'⟩ := ih (k / 2) _ h1 hnb' (by omega) (by omega) u1 n1
      exact ⟨s', e, hn'⟩

theorem freeBlock_total {F : Nat} {s : State} {l k : Nat} (h : FInv F s) (hnb : NB F s) (hl : l ≤ F) (hk : k < 2 ^ l)
    (hu : UsedN F s l k) (hnt : NoTrk F s l k) :
    ∃ s', freeBlock s (addr s.base F l k) = .ok s' ∧ s'.nbits = s.nbits := by
  unfold freeBlock
  rw [levelOf_total h hnb hl hk hu.1 hu.2.1]
  exact freeLoop_total l k s h hnb hl hk hu hnt

/-! ## addSinglePAddr -/

theorem addSingle_total {F : Nat} {s : State} {p : Nat} (h : FInv F s) (hnb : NB F s) :
    ∃ s', addSingle s p = .ok s' ∧ s'.nbits = s.nbits := by
  unfold addSingle
  split
  · exact ⟨s, rfl, rfl⟩
  · rename_i p0 id hfind
    have hp0 : p0 = p := by simpa using List.find?_some hfind
    subst hp0
    have hp : (p0, id) ∈ s.track := List.mem_of_find?_eq_some hfind
    obtain ⟨l, k, num, hl, hk, e, hu, g1, g2⟩ := h.D p0 id hp
    simp only [e]
    obtain ⟨f2, hzero⟩ := finv_untrack h hp e
    split
    · rename_i hnum
      have hnt : NoTrk F
          { s with track := s.track.filter (fun e => e.1 != p0), trk := s.trk.set id (addr s.base F l k, num - 1) }
          l k := by
        intro q j hq hin
        have hq' : (q, j) ∈ s.track := (List.mem_filter.mp hq).1
        obtain ⟨l', k', num', hl', hk', e', hu', g1', g2'⟩ := h.D q j hq'
        obtain ⟨q1, q2⟩ := leaf_overlap h.tree hl hk hl' hk' hu.1 hu.2.1 hu'.1 hu'.2.1 hin.1 hin.2 g1' g2'
        subst q1; subst q2
        have := h.Dinj p0 id q j _ _ _ hp hq' e e'
        subst this
        exact hzero hnum q hq
      exact freeBlock_total (l := l) (k := k) f2 hnb hl hk hu hnt
    · exact ⟨_, rfl, rfl⟩

theorem addAll_total {F : Nat} : ∀ (ps : List Nat) (s : State), FInv F s → NB F s →
    ∃ s', addAll ps s = .ok s' ∧ s'.nbits = s.nbits := by
  intro ps
  induction ps with
  | nil => intro s _ _; exact ⟨s, rfl, rfl⟩
  | cons p ps ih =>
    intro s h hnb
    obtain ⟨s1, e1, n1⟩ := addSingle_total (p := p) h hnb
    obtain ⟨f1, -, -⟩ := finv_addSingle h e1
    have hnb1 : NB F s1 := n1.trans hnb
    obtain ⟨s2, e2, n2⟩ := ih s1 f1 hnb1
    refine ⟨s2, ?_, n2.trans n1⟩
    simp only [addAll, e1]
    exact e2

/-! ## allocateMultiplePages -/

/-- a block of a free list lies inside the device -/
theorem FInv.fblk {F : Nat} {s : State} (h : FInv F s) {i blk : Nat} (hmem : blk ∈ lvl s.free i) :
    i ≤ F ∧ s.base ≤ blk ∧ blk + szl (4096 * 2 ^ F) i ≤ s.base + 4096 * 2 ^ F := by
  have hiF := h.level_le hmem
  obtain ⟨k, hk, rfl⟩ := h.fnode i blk hmem
  refine ⟨hiF, by unfold addr; omega, ?_⟩
  unfold addr
  have h0 : szl (4096 * 2 ^ F) 0 = 4096 * 2 ^ F := by simp [szl]
  have hm := szl_mul (F := F) (i := 0) (l := i) (Nat.zero_le _) hiF
  rw [h0, Nat.sub_zero] at hm
  have hle : (k + 1) * szl (4096 * 2 ^ F) i ≤ 2 ^ i * szl (4096 * 2 ^ F) i := Nat.mul_le_mul_right _ hk
  rw [Nat.add_mul, Nat.one_mul, Nat.mul_comm (2 ^ i), ← hm] at hle
  omega

theorem allocMulti_ok_or_oom {F : Nat} {s : State} (n : Nat) (h : FInv F s) (hnb : NB F s) :
    (∃ ps s', allocMultiPos s n = .ok (ps, s')) ∨ allocMultiPos s n = .error .oom := by
  have hnb' : s.nbits = 64 * (2 ^ F / 64 + 1) := hnb
  have hlen : s.free.length - 1 = F := by rw [h.hlen]; omega
  unfold allocMultiPos
  simp only [hlen]
  by_cases hord : F < ordOf (n * 4096)
  · right; simp [hord]
  · rw [if_neg hord]
    cases hfind : findLevel s.free (F - ordOf (n * 4096)) with
    | none => right; simp
    | some i =>
      left
      simp only []
      obtain ⟨hile, hne⟩ := findLevel_some hfind
      obtain ⟨blk, rest, hbr⟩ := List.exists_cons_of_ne_nil hne
      have hmem : blk ∈ lvl s.free i := by rw [hbr]; exact List.mem_cons_self
      obtain ⟨hiF, hb1, hb2⟩ := h.fblk hmem
      have hsz := h.hsize
      have hidx : ∀ j, j < F → indexOfBlock s.base s.size blk j < s.nbits := by
        intro j hj
        rw [hsz, hnb']
        exact index_lt hj hiF hb1 hb2
      rw [hbr]
      simp only [List.headD_cons, List.tail_cons]
      have hm : ∃ s1 : State, (if 0 < i then
            flipMerge { s with free := setLvl s.free i rest } (indexOfBlock s.base s.size blk (i - 1))
          else Except.ok { s with free := setLvl s.free i rest }) = .ok s1 ∧
          s1.base = s.base ∧ s1.size = s.size ∧ s1.nbits = s.nbits := by
        split
        · rename_i hc
          have hlt := hidx (i - 1) (by omega)
          refine ⟨{ s with free := setLvl s.free i rest,
                           merge := toggle s.merge (indexOfBlock s.base s.size blk (i - 1)) }, ?_, rfl, rfl, rfl⟩
          simp [flipMerge, hlt]
        · exact ⟨_, rfl, rfl, rfl, rfl⟩
      obtain ⟨s1, e1, b1, z1, n1⟩ := hm
      rw [e1]
      simp only []
      obtain ⟨s2, e2⟩ := splitLoop_total blk (F - ordOf (n * 4096) - i) i s1 (by
        intro j h1 h2
        rw [b1, z1, n1]
        exact hidx j (by omega))
      rw [e2]
      exact ⟨_, _, rfl⟩

/-- every page of a successful allocation lies inside the device -/
theorem allocMulti_pages_inDev {F : Nat} {s s' : State} {n : Nat} {ps : List Nat} (h : FInv F s)
    (ha : allocMultiPos s n = .ok (ps, s')) : ∀ p ∈ ps, inDev s' p = true := by
  obtain ⟨i, level, blk, rest, hord, hlevel, hile, hbr, hpages, hb, hz, -, -⟩ :=
    allocMulti_ok ha (by rw [h.hlen]; omega)
  have hmem : blk ∈ lvl s.free i := by rw [hbr]; exact List.mem_cons_self
  obtain ⟨hiF, hb1, hb2⟩ := h.fblk hmem
  have hlenF := h.hlen
  have hlevF : level ≤ F := by omega
  have hn : n * 4096 ≤ szl (4096 * 2 ^ F) level := by
    rw [szl_eq hlevF]
    have : F - level = ordOf (n * 4096) := by omega
    rw [this]
    exact ordOf_ge _
  have hlev_le : szl (4096 * 2 ^ F) level ≤ szl (4096 * 2 ^ F) i := szl_le hile hlevF
  intro p hp
  rw [hpages] at hp
  obtain ⟨t, ht, rfl⟩ := (pagesFrom_mem _ _ _).mp hp
  simp only [inDev, hb, hz, h.hsize, Bool.and_eq_true, decide_eq_true_eq]
  omega

/-- allocation under FInv: succeeds (pages inside the device) or out of memory -/
theorem allocMulti_total_f {F : Nat} {s : State} (n : Nat) (h : FInv F s) (hnb : NB F s) :
    (∃ ps s', allocMultiPos s n = .ok (ps, s') ∧ (∀ p ∈ ps, inDev s' p = true)) ∨ allocMultiPos s n = .error .oom := by
  rcases allocMulti_ok_or_oom n h hnb with ⟨ps, s', ha⟩ | ha
  · exact Or.inl ⟨ps, s', ha, allocMulti_pages_inDev h ha⟩
  · exact Or.inr ha

/-! ## device-level operations -/

theorem popOne_cases_f {F : Nat} {s : State} (h : FInv F s) (hnb : NB F s) :
    (∃ p s', popOne s = .ok (p, s') ∧ NB F s') ∨ popOne s = .error .oom := by
  unfold popOne
  rw [allocMulti_pos s (by decide)]
  split
  · right; rfl
  · rcases allocMulti_total_f 1 h hnb with ⟨ps, s1, ha, hin⟩ | ha
    · left
      rw [ha]
      simp only []
      obtain ⟨i, level, blk, rest, -, -, -, -, hpages, -⟩ := allocMulti_ok ha (by rw [h.hlen]; omega)
      have hmem : ps.headD 0 ∈ ps := by
        rw [hpages]; simp [pagesFrom]
      rw [if_pos (hin _ hmem)]
      exact ⟨_, _, rfl, (allocMulti_nbits ha).trans hnb⟩
    · right; rw [ha]

theorem popN_cases_f {F : Nat} : ∀ (k : Nat) (s : State), FInv F s → NB F s →
    (∃ ps s', popN k s = .ok (ps, s') ∧ NB F s') ∨ popN k s = .error .oom := by
  intro k
  induction k with
  | zero => intro s _ hnb; left; exact ⟨[], s, rfl, hnb⟩
  | succ k ih =>
    intro s h hnb
    simp only [popN]
    rcases popOne_cases_f h hnb with ⟨p, s1, h1, hnb1⟩ | h1
    · obtain ⟨f1, -, -⟩ := finv_popOne h h1
      rw [h1]
      simp only []
      rcases ih s1 f1 hnb1 with ⟨ps, s2, h2, hnb2⟩ | h2
      · left
        rw [h2]
        exact ⟨_, _, rfl, hnb2⟩
      · right; rw [h2]
    · right; rw [h1]

theorem amOp_cases_f {F : Nat} {s : State} (n : Nat) (h : FInv F s) (hnb : NB F s) :
    (∃ ps s', amOp s n = .ok (ps, s') ∧ NB F s') ∨ amOp s n = .error .oom := by
  by_cases hn0 : n = 0
  · subst hn0
    rw [amOp_zero]
    split
    · right; rfl
    · left; exact ⟨[], s, rfl, hnb⟩
  unfold amOp
  rw [allocMulti_pos s hn0]
  split
  · right; rfl
  · rcases allocMulti_total_f n h hnb with ⟨ps, s1, ha, hin⟩ | ha
    · left
      rw [ha]
      simp only []
      have hall : ps.all (inDev s1) = true := by
        rw [List.all_eq_true]
        exact hin
      rw [if_pos hall]
      exact ⟨_, _, rfl, (allocMulti_nbits ha).trans hnb⟩
    · right; rw [ha]

/-- an `add` step never faults -/
theorem add_step_ok' {F : Nat} {s : State} (ps : List Nat) (h : FInv F s) (hnb : NB F s) :
    ∃ s', step s (.add ps) = .ok ([], s') ∧ NB F s' := by
  obtain ⟨s', e, n'⟩ := addAll_total ps s h hnb
  refine ⟨s', ?_, n'.trans hnb⟩
  simp only [step, e]

theorem step_cases_f {F : Nat} {s : State} (op : Op) (h : FInv F s) (hnb : NB F s) :
    (∃ ps s', step s op = .ok (ps, s') ∧ NB F s') ∨ step s op = .error .oom := by
  cases op with
  | pop k => exact popN_cases_f k s h hnb
  | am n => exact amOp_cases_f n h hnb
  | add ps =>
    obtain ⟨s', e, n'⟩ := add_step_ok' ps h hnb
    exact Or.inl ⟨[], s', e, n'⟩

/-- a successful step keeps the invariant -/
theorem finv_step {F : Nat} {s s' : State} {op : Op} {ps : List Nat} (h : FInv F s)
    (hs : step s op = .ok (ps, s')) : FInv F s' := by
  cases op with
  | pop k => exact (finv_popN k s s' ps h hs).1
  | am n => exact (finv_amOp h hs).1
  | add l =>
    simp only [step] at hs
    split at hs
    · cases hs
    · rename_i s2 hadd
      injection hs with hs
      injection hs with _ e
      subst e
      exact (finv_addAll l s s2 h hadd).1

/-- a successful step keeps the size of the bit fields -/
theorem nb_step {F : Nat} {s s' : State} {op : Op} {ps : List Nat} (h : FInv F s) (hnb : NB F s)
    (hs : step s op = .ok (ps, s')) : NB F s' := by
  rcases step_cases_f op h hnb with ⟨ps1, s1, e1, n1⟩ | e1
  · rw [e1] at hs
    injection hs with hs
    injection hs with _ e
    subst e
    exact n1
  · rw [e1] at hs
    cases hs

/-- NB along histories -/
theorem nb_runLive {F : Nat} : ∀ (ops : List Op) (s : State) (live : List Nat), FInv F s → NB F s →
    NB F (runLive s live ops).st := by
  intro ops
  induction ops with
  | nil => intro s live _ hnb; exact hnb
  | cons op ops ih =>
    intro s live h hnb
    cases op with
    | add ps =>
      simp only [runLive]
      split
      · split
        · exact hnb
        · rename_i out s1 hstep
          exact ih s1 _ (finv_step h hstep) (nb_step h hnb hstep)
      · exact hnb
    | pop k =>
      simp only [runLive]
      split
      · exact hnb
      · rename_i out s1 hstep
        exact ih s1 _ (finv_step h hstep) (nb_step h hnb hstep)
    | am n =>
      simp only [runLive]
      split
      · exact hnb
      · rename_i out s1 hstep
        exact ih s1 _ (finv_step h hstep) (nb_step h hnb hstep)

/-- every fault of a history is out-of-memory (legal or not: frees of untracked pages are no-ops in the model) -/
theorem runFault_only_oom {F : Nat} : ∀ (ops : List Op) (s : State), FInv F s → NB F s →
    ∀ e, runFault s ops = some e → e = .oom := by
  intro ops
  induction ops with
  | nil => intro s _ _ e h; simp [runFault] at h
  | cons op ops ih =>
    intro s h hnb e he
    simp only [runFault] at he
    rcases step_cases_f op h hnb with ⟨ps, s1, h1, hnb1⟩ | h1
    · have f1 := finv_step h h1
      rw [h1] at he
      exact ih s1 f1 hnb1 e he
    · rw [h1] at he
      injection he with he
      exact he.symm

theorem nb_init (F base : Nat) : NB F (init base (4096 * 2 ^ F)) := by
  simp [NB, init, ordOf_pow]

/-- an `add` step never faults -/
theorem add_step_ok {F : Nat} {s : State} (ps : List Nat) (h : FInv F s) (hnb : NB F s) :
    ∃ s', step s (.add ps) = .ok ([], s') := by
  obtain ⟨s', e, -⟩ := add_step_ok' ps h hnb
  exact ⟨s', e⟩

end C10.Buddy
