import MgpuProofs.C09Sys3
/-! # C09, closed loop — port-room accounting

The free-slot counters the dispatchers read (`cuRoom`, `drvRoom`) are, in the closed loop, exactly
"capacity − messages still in the buffer": `cuRoom + #MapWGReq sent = capM + #MapWGReq delivered`,
`drvRoom + #LaunchKernelRsp sent = capD + #LaunchKernelRsp retrieved`. -/
namespace C09

theorem rspTotal_cons_map (log : List Ev) (r c l i : Nat) (locs : List Loc) :
    Sys.rspTotal (.map r c l i locs :: log) = Sys.rspTotal log := by
  simp [Sys.rspTotal]

theorem rspTotal_cons_rsp (log : List Ev) (l : Nat) : Sys.rspTotal (.rsp l :: log) = Sys.rspTotal log + 1 := by
  simp [Sys.rspTotal]

theorem VStep_rooms {v v' : V} (s : VStep v v') :
    v'.cuRoom + (reqsOf v'.log).length = v.cuRoom + (reqsOf v.log).length ∧
    v'.drvRoom + Sys.rspTotal v'.log = v.drvRoom + Sys.rspTotal v.log := by
  cases s with
  | cyc i c hi hc => exact ⟨rfl, rfl⟩
  | map i k c locs hi hk hlt hr =>
    refine ⟨?_, ?_⟩
    · show v.cuRoom - 1 + (reqsOf (.map v.nextReq c k.id (v.ds i).nd locs :: v.log)).length = _
      rw [reqsOf_cons_map, List.length_append, List.length_singleton]; omega
    · show v.drvRoom + Sys.rspTotal (.map v.nextReq c k.id (v.ds i).nd locs :: v.log) = _
      rw [rspTotal_cons_map]
  | done i r cyc' hi hr => exact ⟨rfl, rfl⟩
  | rsp i k hi hk hnd hnc hfl hr =>
    refine ⟨?_, ?_⟩
    · show v.cuRoom + (reqsOf (.rsp k.id :: v.log)).length = _
      rw [reqsOf_cons_rsp]
    · show v.drvRoom - 1 + Sys.rspTotal (.rsp k.id :: v.log) = _
      rw [rspTotal_cons_rsp]; omega
  | start i k rest cyc' hi hd hk => exact ⟨rfl, rfl⟩

theorem Steps_rooms {b : Bool} {v v' : V} (s : Steps b v v') :
    v'.cuRoom + (reqsOf v'.log).length = v.cuRoom + (reqsOf v.log).length ∧
    v'.drvRoom + Sys.rspTotal v'.log = v.drvRoom + Sys.rspTotal v.log := by
  induction s with
  | refl v => exact ⟨rfl, rfl⟩
  | cons s _ ih =>
    obtain ⟨a1, a2⟩ := VStep_rooms s
    exact ⟨ih.1.trans a1, ih.2.trans a2⟩

theorem cpTick_rooms (cp : CP) (h : DCI cp) :
    (cpTick cp).1.cuRoom + (reqsOf (cpTick cp).1.log).length = cp.cuRoom + (reqsOf cp.log).length ∧
    (cpTick cp).1.drvRoom + Sys.rspTotal (cpTick cp).1.log = cp.drvRoom + Sys.rspTotal cp.log :=
  Steps_rooms (cpTick_steps cp h)

namespace Sys

/-- buffer occupancy = capacity − free slots, at both outgoing ports of the command processor -/
def Rooms (capM capD : Nat) (s : Sys) : Prop :=
  s.cp.cuRoom + (reqsOf s.cp.log).length = capM + s.delivered.length ∧
  s.cp.drvRoom + rspTotal s.cp.log = capD + s.rspTaken

theorem Rooms_step {capM capD : Nat} {s : Sys} (hd : DCI s.cp) (h : Rooms capM capD s) (o : SOp) :
    Rooms capM capD (sstep s o) := by
  obtain ⟨h1, h2⟩ := h
  cases o with
  | launch k => exact ⟨h1, h2⟩
  | tick =>
    obtain ⟨a1, a2⟩ := cpTick_rooms s.cp hd
    exact ⟨a1.trans h1, a2.trans h2⟩
  | cu c t => exact ⟨h1, h2⟩
  | deliverMap r =>
    cases hm : mapMove s r with
    | none =>
      have e : sstep s (.deliverMap r) = { s with cus := (sstep s (.deliverMap r)).cus } := by
        simp only [sstep, cpOp, hm, step_idOp, Option.isSome_none]; rfl
      rw [e]; exact ⟨h1, h2⟩
    | some p =>
      refine ⟨?_, ?_⟩
      · show (step s.cp (cpOp s (.deliverMap r))).cuRoom + (reqsOf (step s.cp (cpOp s (.deliverMap r))).log).length =
          capM + (if (mapMove s r).isSome then r :: s.delivered else s.delivered).length
        simp only [cpOp, hm, Option.isSome_some, if_true, List.length_cons]
        show s.cp.cuRoom + 1 + (reqsOf s.cp.log).length = _
        omega
      · show (step s.cp (cpOp s (.deliverMap r))).drvRoom + rspTotal (step s.cp (cpOp s (.deliverMap r))).log = _
        simp only [cpOp, hm]
        exact h2
  | deliverCmp c r =>
    refine ⟨?_, ?_⟩
    · show (step s.cp (cpOp s (.deliverCmp c r))).cuRoom + (reqsOf (step s.cp (cpOp s (.deliverCmp c r))).log).length = _
      simp only [cpOp]; split <;> exact h1
    · show (step s.cp (cpOp s (.deliverCmp c r))).drvRoom + rspTotal (step s.cp (cpOp s (.deliverCmp c r))).log = _
      simp only [cpOp]; split <;> exact h2
  | takeRsp =>
    by_cases hlt : s.rspTaken < rspTotal s.cp.log
    · refine ⟨?_, ?_⟩
      · show (step s.cp (cpOp s .takeRsp)).cuRoom + (reqsOf (step s.cp (cpOp s .takeRsp)).log).length = _
        simp only [cpOp, hlt, if_true]; exact h1
      · show (step s.cp (cpOp s .takeRsp)).drvRoom + rspTotal (step s.cp (cpOp s .takeRsp)).log =
          capD + (if s.rspTaken < rspTotal s.cp.log then s.rspTaken + 1 else s.rspTaken)
        simp only [cpOp, hlt, if_true]
        show s.cp.drvRoom + 1 + rspTotal s.cp.log = _
        omega
    · refine ⟨?_, ?_⟩
      · show (step s.cp (cpOp s .takeRsp)).cuRoom + (reqsOf (step s.cp (cpOp s .takeRsp)).log).length = _
        simp only [cpOp, hlt, if_false]; exact h1
      · show (step s.cp (cpOp s .takeRsp)).drvRoom + rspTotal (step s.cp (cpOp s .takeRsp)).log =
          capD + (if s.rspTaken < rspTotal s.cp.log then s.rspTaken + 1 else s.rspTaken)
        simp only [cpOp, hlt, if_false]; exact h2

theorem Rooms_run {capM capD : Nat} {s : Sys} (hsi : SI s) (h : Rooms capM capD s) (ops : List SOp) :
    Rooms capM capD (srun s ops) := by
  induction ops generalizing s with
  | nil => exact h
  | cons o os ih => rw [srun_cons]; exact ih (SI_step hsi o) (Rooms_step hsi.dci h o)

theorem Rooms_init (cfg : Cfg) (nd : Nat) (pool : List CU) (caps : Nat → List Nat) (room capM capD : Nat) :
    Rooms capM capD (sinit cfg nd pool caps room capM capD) := ⟨rfl, rfl⟩

end Sys
end C09
