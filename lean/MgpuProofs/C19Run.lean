import MgpuProofs.C19Reach
import MgpuProofs.C19Enab
/-! Helper definitions for C19 (closed system): runs of valid moves, an executable validity check,
    a concrete run used as non-vacuity witness. -/
namespace C19

theorem readBytes_eq_of_img {m : Mem} {a n : Nat} {S : List Nat} (h : Img m a S 0 n) (hl : S.length = n) :
    readBytes m a n = S := by
  apply List.ext_getElem
  · simp [readBytes_length, hl]
  · intro j h1 h2
    have hj : j < n := by simpa [readBytes_length] using h1
    have := h j (Nat.zero_le _) hj
    simp only [readBytes, List.getElem_map, List.getElem_range]
    rw [this]
    simp [List.getD, h2]

/-- runs of valid moves -/
inductive Steps : World → World → Prop
  | refl (w : World) : Steps w w
  | tail {w w1 : World} (o : Op) : Steps w w1 → o.valid w1 → Steps w (w1.step o)

theorem Steps.reach {w w' : World} (h : WReach w) (s : Steps w w') : WReach w' := by
  induction s with
  | refl => exact h
  | tail o _ hv ih => exact WReach.step o ih hv

instance (w : World) (o : Op) : Decidable (o.valid w) := by
  cases o <;> simp only [Op.valid, validSubmit] <;> exact inferInstance

def runW (w : World) (ops : List Op) : World := ops.foldl World.step w

def allValid : World → List Op → Bool
  | _, [] => true
  | w, o :: ops => decide (o.valid w) && allValid (w.step o) ops

theorem wreach_run {w : World} (h : WReach w) (ops : List Op) (hv : allValid w ops = true) :
    WReach (runW w ops) := by
  induction ops generalizing w with
  | nil => exact h
  | cons o ops ih =>
    simp only [allValid, Bool.and_eq_true, decide_eq_true_eq] at hv
    exact ih (WReach.step o h hv.1) hv.2

/-- a one-chunk migration from memory 1 (bytes 0..63) to memory 0 (bytes 64..127), message by message -/
def demoOps : List Op :=
  [.submit 0 0 64 64 1, .ctl 0, .tick 0, .tick 0, .pick 0, .dnet 0, .tick 1, .tick 1, .mtake 1, .mdo 1 0, .mrsp 1 0,
   .tick 1, .tick 1, .pick 1, .dnet 0, .tick 0, .tick 0, .mtake 0, .mdo 0 0, .mrsp 0 0, .tick 0, .tick 0]

def demoW : World := { sys := { m0 := Array.replicate 128 7, m1 := Array.ofFn (n := 128) fun x => x.val } }

theorem World.step_sys (w : World) (o : Op) : (w.step o).sys = (C19.step w.sys o).1 := by
  cases o <;> simp only [World.step]
  split <;> rfl

theorem valid_of_honest (w : World) (o : Op) (ho : o.honest = true) (hs : o.isSubmit = false) : o.valid w := by
  cases o <;> simp_all [Op.valid, Op.isSubmit]

/-- a run of productive moves of the environment and the controllers, without new submissions -/
def ProductiveRun : World → List Op → Prop
  | _, [] => True
  | w, o :: ops => o.honest = true ∧ o.isSubmit = false ∧ productive w.sys o = true ∧ ProductiveRun (w.step o) ops

def productiveRunB : World → List Op → Bool
  | _, [] => true
  | w, o :: ops => o.honest && !o.isSubmit && productive w.sys o && productiveRunB (w.step o) ops

theorem productiveRun_of_B {w : World} (ops : List Op) (h : productiveRunB w ops = true) : ProductiveRun w ops := by
  induction ops generalizing w with
  | nil => trivial
  | cons o ops ih =>
    simp only [productiveRunB, Bool.and_eq_true, Bool.not_eq_true'] at h
    exact ⟨h.1.1.1, h.1.1.2, h.1.2, ih h.2⟩

/-- no productive move is enabled -/
def Quiescent (s : Sys) : Prop := ∀ o : Op, o.honest = true → o.isSubmit = false → productive s o = false

theorem productiveRun_reach {w : World} (h : WReach w) (ops : List Op) (hr : ProductiveRun w ops) :
    WReach (runW w ops) := by
  induction ops generalizing w with
  | nil => exact h
  | cons o ops ih =>
    obtain ⟨h1, h2, _, h4⟩ := hr
    exact ih (WReach.step o h (valid_of_honest w o h1 h2)) h4

end C19
