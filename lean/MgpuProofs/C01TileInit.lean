import MgpuProofs.C01TileGrid
/-! # C01 — where the symbolic execution of a `matrixTranspose` wavefront starts

`initWfs` on a full 16x16 work-group (C08 `formWfs`): four wavefronts with all 64 lanes enabled, first flattened
ids 0, 64, 128, 192; `initWfRegs` gives lane `l` of wavefront `k` the local ids `v0 = (64 k + l) % 16`,
`v1 = (64 k + l) / 16` (code object V3, work-item-id enable 1, as the shipped kernel's descriptor has it) — the
`lix`, `liy` the descriptions `lwWave` / `wrWave` are indexed by. -/
set_option linter.unusedSimpArgs false
set_option maxRecDepth 100000
namespace C01
namespace Emu
namespace TT
open C03V (St)

/-- all 64 lanes -/
def fullMask : Nat := 18446744073709551615

theorem formWfs_16x16 : C08.formWfs 16 16 (C08.spawn (16, 16, 1)) =
    [⟨0, fullMask, 64⟩, ⟨64, fullMask, 64⟩, ⟨128, fullMask, 64⟩, ⟨192, fullMask, 64⟩] := by decide +kernel

/-- `initWfs` of the `n`-th work-group -/
theorem wavesOf_geoT (D : Dispatch) (nb n : Nat) (hgeo : D.geo = geoT nb) :
    wavesOf D (wgT nb n) = (List.range 4).map fun k => initWave D (wgT nb n) ⟨64 * k, fullMask, 64⟩ := by
  unfold wavesOf
  rw [hgeo]
  show (C08.formWfs 16 16 (C08.spawn (16, 16, 1))).map _ = _
  rw [formWfs_16x16]
  rfl

theorem initWave_rv1 (D : Dispatch) (wg : C08.WG) (wf : C08.Wf) (lane : Nat) (hl : lane < 64) :
    (initWave D wg wf).st.rv 1 lane = vgprInit D wf.first 1 lane := by
  unfold St.rv initWave
  simp only [Array.getD_eq_getD_getElem?, Array.getElem?_ofFn]
  have h1 : 1 * 64 + lane < 256 * 64 := by omega
  have h2 : 1 * 64 + lane < 3 * 64 := by omega
  have h3 : (1 * 64 + lane) / 64 = 1 := by omega
  have h4 : (1 * 64 + lane) % 64 = lane := by omega
  simp only [h1, dite_true, Option.getD_some, h2, if_true, h3, h4]

/-- the local ids in v0 / v1 -/
theorem initWave_ids (D : Dispatch) (nb : Nat) (hgeo : D.geo = geoT nb) (hv5 : D.v5 = false) (hwi : D.vgprWI = 1)
    (wg : C08.WG) (k lane : Nat) (hk : k < 4) (hl : lane < 64) :
    (initWave D wg ⟨64 * k, fullMask, 64⟩).st.rv 0 lane = (64 * k + lane) % 16 ∧
    (initWave D wg ⟨64 * k, fullMask, 64⟩).st.rv 1 lane = (64 * k + lane) / 16 ∧
    (initWave D wg ⟨64 * k, fullMask, 64⟩).st.exec = fullMask ∧
    (initWave D wg ⟨64 * k, fullMask, 64⟩).completed = false := by
  refine ⟨?_, ?_, rfl, rfl⟩
  · rw [Copy.initWave_rv0 D wg _ lane hl]
    unfold vgprInit C08.laneRegs C08.decodeId
    rw [hgeo, hv5, hwi]
    show (64 * k + lane) % (16 * 16) % 16 % 2 ^ 32 = _
    omega
  · rw [initWave_rv1 D wg _ lane hl]
    unfold vgprInit C08.laneRegs C08.decodeId
    rw [hgeo, hv5, hwi]
    show (64 * k + lane) % (16 * 16) / 16 % 2 ^ 32 = _
    omega

end TT
end Emu
end C01
