import MgpuModel.C14_Chain
import MgpuProofs.C14VmuProofs
import MgpuProofs.Props.C15Deep
/-! # C14 — composition helpers: the components seen from the connection

* the reorder buffer in a run without control messages (`NF`): nothing is discarded, the ids the Top
  port hands out are `0, 1, 2, …` in arrival order, and what the requester took followed by what
  waits in the Top port's outgoing buffer is the whole `delivered` log (with control messages only
  a sub-list: `rob_refines_fifo`);
* the vector memory unit: a cycle appends the same transactions to the port buffer and to the send
  history and creates nothing. -/
namespace C14.Chain
open C14

/-! ## list facts -/

theorem range_split (a b : List Nat) (x n : Nat) (h : a ++ x :: b = List.range n) :
    x = a.length ∧ a.length < n := by
  have hl := congrArg List.length h
  simp only [List.length_append, List.length_cons, List.length_range] at hl
  have h' : (a ++ [x]) ++ b = List.range n := by simpa using h
  have h2 := Vmu.vmu_prefix_range _ _ _ h'
  simp only [List.length_append, List.length_singleton, List.range_succ] at h2
  have := List.append_inj' h2 rfl
  exact ⟨by simpa using this.2, by omega⟩

/-! ## the reorder buffer without control messages -/

/-- the ROB between events of a run without control messages; `o` = what the requester has taken,
    `n` = requests admitted to the Top port so far -/
structure NF (s : C15.St) (o : List C15.TRsp) (n : Nat) : Prop where
  ctl : s.ctlIn = []
  fl : s.flushing = false
  disc : s.discarded = []
  nt : s.nextTop = n
  ids : s.accepted ++ s.topIn.map (·.id) = List.range n
  outs : o ++ s.topOut = s.delivered

theorem bottomUp_nf (c : C15.Cfg) {o : List C15.TRsp} {n : Nat} (s : C15.St) (h : NF s o n) :
    NF (C15.bottomUp c s).1 o n := by
  unfold C15.bottomUp
  split
  · exact h
  split
  · exact h
  split
  · exact h
  split
  · exact ⟨h.ctl, h.fl, h.disc, h.nt, h.ids, h.outs⟩
  split
  · refine ⟨h.ctl, h.fl, h.disc, h.nt, h.ids, ?_⟩
    show o ++ (s.topOut ++ _) = s.delivered ++ _
    rw [← List.append_assoc, h.outs]
  · exact h

theorem parseBottom_nf {o : List C15.TRsp} {n : Nat} (s : C15.St) (h : NF s o n) :
    NF (C15.parseBottom s).1 o n := by
  unfold C15.parseBottom
  split
  · exact h
  split
  · exact h
  split
  · exact ⟨h.ctl, h.fl, h.disc, h.nt, h.ids, h.outs⟩
  · exact ⟨h.ctl, h.fl, h.disc, h.nt, h.ids, h.outs⟩

theorem topDown_nf (c : C15.Cfg) {o : List C15.TRsp} {n : Nat} (s : C15.St) (h : NF s o n) :
    NF (C15.topDown c s).1 o n := by
  unfold C15.topDown
  split
  · exact h
  split
  · exact h
  rename_i r rest hI
  split
  · exact h
  split
  · exact ⟨h.ctl, h.fl, h.disc, h.nt, h.ids, h.outs⟩
  split
  · exact ⟨h.ctl, h.fl, h.disc, h.nt, h.ids, h.outs⟩
  · refine ⟨h.ctl, h.fl, h.disc, h.nt, ?_, h.outs⟩
    have := h.ids
    rw [hI] at this
    simpa [C15.St.accepted] using this

theorem runPipeline_nf (c : C15.Cfg) {o : List C15.TRsp} {n : Nat} (s : C15.St) (h : NF s o n) :
    NF (C15.runPipeline c s).1 o n := by
  unfold C15.runPipeline
  exact C15.iterP_pres (P := fun s => NF s o n) (topDown_nf c) _ _
    (C15.iterP_pres (P := fun s => NF s o n) parseBottom_nf _ _
      (C15.iterP_pres (P := fun s => NF s o n) (bottomUp_nf c) _ (s, false) h))

theorem tick_nf (c : C15.Cfg) {o : List C15.TRsp} {n : Nat} (s : C15.St) (h : NF s o n) :
    NF (C15.tick c s).1 o n := by
  have hp : C15.processCtl c s = (s, false) := by
    unfold C15.processCtl
    rw [h.ctl]
  unfold C15.tick
  split
  · exact h
  simp only [hp]
  split
  · exact h
  rw [h.fl]
  exact runPipeline_nf c s h

/-- the closed system: what the requester took so far is the second argument -/
theorem arrive_nf (c : C15.Cfg) (σ : C15.Sys) (q : C15.ReqIn) {n : Nat} (h : NF σ.rob σ.out n)
    (hroom : σ.rob.topIn.length < c.topInCap) :
    NF (C15.sysStep c σ (.arrive q)).rob (C15.sysStep c σ (.arrive q)).out (n + 1) := by
  show NF (C15.step c σ.rob (.top q)) σ.out (n + 1)
  simp only [C15.step, if_pos hroom]
  refine ⟨h.ctl, h.fl, h.disc, ?_, ?_, h.outs⟩
  · show σ.rob.nextTop + 1 = n + 1
    rw [h.nt]
  · show σ.rob.accepted ++ (σ.rob.topIn ++ [q.toReq σ.rob.nextTop]).map (·.id) = List.range (n + 1)
    rw [List.map_append, ← List.append_assoc, h.ids, List.range_succ, h.nt]
    rfl

theorem sysTick_nf (c : C15.Cfg) (σ : C15.Sys) {n : Nat} (h : NF σ.rob σ.out n) :
    NF (C15.sysStep c σ .tick).rob (C15.sysStep c σ .tick).out n :=
  tick_nf c σ.rob h

theorem memTake_nf (c : C15.Cfg) (σ : C15.Sys) {n : Nat} (h : NF σ.rob σ.out n) :
    NF (C15.sysStep c σ .memTake).rob (C15.sysStep c σ .memTake).out n := by
  simp only [C15.sysStep]
  split
  · exact h
  · exact ⟨h.ctl, h.fl, h.disc, h.nt, h.ids, h.outs⟩

theorem memAnswer_nf (c : C15.Cfg) (σ : C15.Sys) (j : Nat) (p : C15.Rsp) {n : Nat} (h : NF σ.rob σ.out n) :
    NF (C15.sysStep c σ (.memAnswer j p)).rob (C15.sysStep c σ (.memAnswer j p)).out n := by
  simp only [C15.sysStep]
  split
  · exact h
  · split
    · show NF (C15.step c σ.rob (.bot _ p)) σ.out n
      simp only [C15.step]
      split
      all_goals first | exact h | exact ⟨h.ctl, h.fl, h.disc, h.nt, h.ids, h.outs⟩
    · exact h

theorem takeRsp_nf (c : C15.Cfg) (σ : C15.Sys) (r : C15.TRsp) (rest : List C15.TRsp) {n : Nat}
    (h : NF σ.rob σ.out n) (ht : σ.rob.topOut = r :: rest) :
    C15.sysStep c σ .takeRsp = { σ with rob := C15.step c σ.rob .drainTop, out := σ.out ++ [r] } ∧
    NF (C15.step c σ.rob .drainTop) (σ.out ++ [r]) n := by
  constructor
  · simp only [C15.sysStep, ht]
  · refine ⟨h.ctl, h.fl, h.disc, h.nt, h.ids, ?_⟩
    show (σ.out ++ [r]) ++ σ.rob.topOut.drop 1 = σ.rob.delivered
    rw [ht, ← h.outs, ht]
    simp

theorem sysRun_snoc (c : C15.Cfg) (evs : List C15.Ev) (e : C15.Ev) :
    C15.sysRun c (evs ++ [e]) = C15.sysStep c (C15.sysRun c evs) e := by
  simp [C15.sysRun, List.foldl_append]

/-- **The ROB hands out the responses in arrival order, none missing** (a run without control
    messages; from `C15.sys_order_once_capacity`): the ids of the responses the requester took,
    then of those waiting in the Top port, then of the pending transactions, then of the requests
    still in the Top port's incoming buffer are `0, 1, …, n-1`. -/
theorem rob_ids (c : C15.Cfg) (evs : List C15.Ev) (n : Nat)
    (h : NF (C15.sysRun c evs).rob (C15.sysRun c evs).out n) :
    ((C15.sysRun c evs).out ++ (C15.sysRun c evs).rob.topOut).map (·.rspTo) ++
      (C15.sysRun c evs).rob.txs.map (·.req.id) ++ (C15.sysRun c evs).rob.topIn.map (·.id) = List.range n := by
  have ho := (C15.sys_order_once_capacity c evs).1
  have hl : (C15.sysRun c evs).rob.live = (C15.sysRun c evs).rob.accepted := by
    simp [C15.St.live, h.disc]
  rw [h.outs, ho, hl, h.ids]

/-! ## the vector memory unit: what a cycle does to the port -/

theorem send_app (c : Vmu.Cfg) : ∀ (n : Nat) (s : Vmu.St),
    ∃ l, (Vmu.send c n s).out = s.out ++ l ∧ (Vmu.send c n s).sent = s.sent ++ l ∧
      (Vmu.send c n s).next = s.next
  | 0, s => ⟨[], by simp [Vmu.send]⟩
  | n + 1, s => by
    unfold Vmu.send
    split
    · exact ⟨[], by simp⟩
    · rename_i e older _
      split
      · split
        · obtain ⟨l, h1, h2, h3⟩ := send_app c n
            { s with inOrder := older, aside := s.aside.erase e, out := s.out ++ [e], sent := s.sent ++ [e] }
          exact ⟨e :: l, by simpa using h1, by simpa using h2, h3⟩
        · exact ⟨[], by simp⟩
      · split
        · exact ⟨[], by simp⟩
        · rename_i hd rest _
          split
          · split
            · obtain ⟨l, h1, h2, h3⟩ := send_app c n
                { s with inOrder := older, post := rest, out := s.out ++ [e], sent := s.sent ++ [e] }
              exact ⟨e :: l, by simpa using h1, by simpa using h2, h3⟩
            · exact ⟨[], by simp⟩
          · obtain ⟨l, h1, h2, h3⟩ := send_app c n { s with post := rest, aside := s.aside ++ [hd] }
            exact ⟨l, h1, h2, h3⟩

theorem insertLoop_os (c : Vmu.Cfg) : ∀ (fuel : Nat) (s : Vmu.St),
    (Vmu.insertLoop c fuel s).out = s.out ∧ (Vmu.insertLoop c fuel s).sent = s.sent ∧
      (Vmu.insertLoop c fuel s).next = s.next
  | 0, s => ⟨rfl, rfl, rfl⟩
  | fuel + 1, s => by
    unfold Vmu.insertLoop
    split
    · exact ⟨rfl, rfl, rfl⟩
    · rename_i e p rest _
      split
      · exact ⟨rfl, rfl, rfl⟩
      split
      · split
        · dsimp only
          split
          · exact ⟨rfl, rfl, rfl⟩
          · exact insertLoop_os c fuel _
        · exact ⟨rfl, rfl, rfl⟩
      · split
        · exact ⟨rfl, rfl, rfl⟩
        · dsimp only
          split
          · exact ⟨rfl, rfl, rfl⟩
          · exact insertLoop_os c fuel _

theorem cycle_app (c : Vmu.Cfg) (s : Vmu.St) :
    ∃ l, (Vmu.cycle c s).out = s.out ++ l ∧ (Vmu.cycle c s).sent = s.sent ++ l ∧
      (Vmu.cycle c s).next = s.next := by
  obtain ⟨l, h1, h2, h3⟩ := send_app c c.burst s
  refine ⟨l, ?_⟩
  show (Vmu.insert c _).out = _ ∧ (Vmu.insert c _).sent = _ ∧ (Vmu.insert c _).next = _
  unfold Vmu.insert
  split
  · exact ⟨h1, h2, h3⟩
  · obtain ⟨i1, i2, i3⟩ := insertLoop_os c
      ({ Vmu.send c c.burst s with
          lanes := (Vmu.tick c.buf (Vmu.send c c.burst s).lanes (Vmu.send c c.burst s).post).1,
          post := (Vmu.tick c.buf (Vmu.send c c.burst s).lanes (Vmu.send c c.burst s).post).2 } : Vmu.St).waiting.length
      { Vmu.send c c.burst s with
          lanes := (Vmu.tick c.buf (Vmu.send c c.burst s).lanes (Vmu.send c c.burst s).post).1,
          post := (Vmu.tick c.buf (Vmu.send c c.burst s).lanes (Vmu.send c c.burst s).post).2 }
    exact ⟨i1.trans h1, i2.trans h2, i3.trans h3⟩

/-- the send history of a unit that satisfies the invariant behind `vmu_fifo` is `0, 1, 2, …` -/
theorem sent_range (c : Vmu.Cfg) (s : Vmu.St) (h : Vmu.vmu_GInv c s) :
    s.sent = List.range s.sent.length ∧ s.sent.length ≤ s.next := by
  have h1 := h.1
  unfold Vmu.ledger at h1
  rw [List.append_assoc] at h1
  refine ⟨Vmu.vmu_prefix_range _ _ _ h1, ?_⟩
  have := congrArg List.length h1
  simp only [List.length_append, List.length_range] at this
  omega

theorem take_inv (c : Vmu.Cfg) (s : Vmu.St) (t : Nat) (h : Vmu.vmu_GInv c s) : Vmu.vmu_GInv c (Vmu.take s t) := by
  obtain ⟨h1, h2, h3, h4⟩ := h
  refine ⟨h1, h2, h3, ?_⟩
  show (s.out.drop t).length ≤ c.cap
  simp; omega

end C14.Chain
