import MgpuProofs.C11SysSees2
import MgpuProofs.C11DmaLive
import MgpuProofs.C11CpLink
/-! # C11 helper: liveness of the closed copy system (driver copy path + command processor + DMA engine +
memory): a lexicographic measure every move decreases, absence of deadlock, termination under every
fair schedule. -/
namespace C11

/-! ## the order on measures -/

/-- lexicographic order on (driver measure, command-processor measure, DMA measure) -/
def SysLt (a b : Nat × Nat × Nat) : Prop :=
  a.1 < b.1 ∨ (a.1 = b.1 ∧ (a.2.1 < b.2.1 ∨ (a.2.1 = b.2.1 ∧ a.2.2 < b.2.2)))

theorem SysLt.wf : WellFounded SysLt := by
  refine Subrelation.wf (r := (Prod.lex Nat.lt_wfRel (Prod.lex Nat.lt_wfRel Nat.lt_wfRel)).rel) ?_
    WellFoundedRelation.wf
  intro a b h
  show Prod.Lex (· < ·) (Prod.Lex (· < ·) (· < ·)) a b
  rw [Prod.lex_def]
  rcases h with h | ⟨h1, h⟩
  · exact .inl h
  · refine .inr ⟨h1, ?_⟩
    rw [Prod.lex_def]
    rcases h with h | ⟨h2, h⟩
    · exact .inl h
    · exact .inr ⟨h2, h⟩

theorem SysLt.irrefl (a : Nat × Nat × Nat) : ¬ SysLt a a := by
  intro h
  rcases h with h | ⟨_, h | ⟨_, h⟩⟩ <;> exact Nat.lt_irrefl _ h

/-! ## the driver: request ids in the pipeline towards the GPU side are pairwise different -/

/-- `seen ++ portOut ++ toSend ++ awaiting`: what the GPU side took, the GPU port, `requestsToSend`, the
    delay line — every request is in it once, with an id below `nextId` -/
structure PipeInv (seen : List MqReq) (s : Mq) : Prop where
  lt : ∀ r ∈ seen ++ s.portOut ++ s.toSend ++ s.awaiting, r.id < s.nextId
  nodup : ((seen ++ s.portOut ++ s.toSend ++ s.awaiting).map (·.id)).Nodup

theorem PipeInv.perm {seen seen' : List MqReq} {s s' : Mq} (h : PipeInv seen s)
    (hp : (seen' ++ s'.portOut ++ s'.toSend ++ s'.awaiting).Perm (seen ++ s.portOut ++ s.toSend ++ s.awaiting))
    (hn : s'.nextId = s.nextId) : PipeInv seen' s' :=
  ⟨fun r hr => hn ▸ h.lt r (hp.mem_iff.1 hr), (hp.map _).nodup_iff.2 h.nodup⟩

theorem PipeInv.sendToGPUs {seen : List MqReq} {s : Mq} (h : PipeInv seen s) : PipeInv seen s.sendToGPUs.1 := by
  rcases s.sendToGPUs_cases with ⟨e, _⟩ | ⟨r, rest, hts, _, e⟩
  · rw [e]; exact h
  · rw [e]
    refine h.perm ?_ rfl
    show (seen ++ (s.portOut ++ [r]) ++ rest ++ s.awaiting).Perm _
    rw [hts]; simp

theorem PipeInv.delay {seen : List MqReq} {s : Mq} (h : PipeInv seen s) : PipeInv seen s.delay.1 := by
  rcases s.delay_cases with ⟨_, e⟩ | ⟨_, e⟩ | ⟨_, e⟩
  · rw [e]; exact h.perm (List.Perm.refl _) rfl
  · rw [e]
    refine h.perm ?_ rfl
    show (seen ++ s.portOut ++ (s.toSend ++ s.awaiting) ++ []).Perm _
    simp
  · rw [e]; exact h

theorem PipeInv.response {seen : List MqReq} {s : Mq} (h : PipeInv seen s) : PipeInv seen s.response.1 := by
  rcases s.response_cases with ⟨_, e⟩ | ⟨id, rest, _, _, e⟩ | ⟨id, rest, qs', c, _, _, e⟩
  · rw [e]; exact h
  · rw [e]; exact h.perm (List.Perm.refl _) rfl
  · rw [e]; exact h.perm (List.Perm.refl _) rfl

theorem PipeInv.start {seen : List MqReq} {s : Mq} (h : PipeInv seen s) (k : Nat) (q : MqQueue) :
    PipeInv seen (s.start k q).1 := by
  rcases s.start_cases k q with ⟨_, e⟩ | ⟨c, rest, _, _, _, e⟩ | ⟨c, rest, _, _, _, e⟩
  · rw [e]; exact h
  · rw [e]
    have hp : (seen ++ s.portOut ++ (s.toSend ++ mqFlushReqs s k q.done c) ++
        (s.awaiting ++ mqPieceReqs (s.nextId + (mqFlushReqs s k q.done c).length) k q.done c)).Perm
        ((seen ++ s.portOut ++ s.toSend ++ s.awaiting) ++ mqNewReqs s k q.done c) := by
      unfold mqNewReqs
      apply List.perm_iff_count.2
      intro a
      simp only [List.count_append]
      omega
    have hids := mqNewReqs_ids s k q.done c
    constructor
    · intro r hr
      have hr' := hp.mem_iff.1 hr
      show r.id < s.nextId + (mqNewReqs s k q.done c).length
      rcases List.mem_append.1 hr' with a | a
      · have := h.lt r a; omega
      · have : r.id ∈ (mqNewReqs s k q.done c).map (·.id) := List.mem_map_of_mem a
        rw [hids] at this
        simp only [List.mem_map, List.mem_range] at this
        obtain ⟨i, hi, he⟩ := this
        omega
    · rw [(hp.map _).nodup_iff, List.map_append, List.nodup_append]
      refine ⟨h.nodup, ?_, ?_⟩
      · rw [hids, ← List.range'_eq_map_range]
        exact List.nodup_range' ..
      · intro a ha b hb hab
        subst hab
        obtain ⟨r, hr, rfl⟩ := List.mem_map.1 ha
        have h1 := h.lt r hr
        rw [hids] at hb
        simp only [List.mem_map, List.mem_range] at hb
        obtain ⟨i, _, he⟩ := hb
        omega
  · rw [e]; exact h.perm (List.Perm.refl _) rfl

theorem PipeInv.mqStartAll {seen : List MqReq} : ∀ (qs : List MqQueue) (s : Mq) (qi : Nat),
    PipeInv seen s → PipeInv seen (mqStartAll s qi qs).1
  | [], s, qi, h => by simpa [C11.mqStartAll] using h
  | q :: rest, s, qi, h => by
    unfold C11.mqStartAll
    exact PipeInv.mqStartAll rest (s.start qi q).1 (qi + 1) (h.start qi q)

theorem PipeInv.startAll {seen : List MqReq} {s : Mq} (h : PipeInv seen s) : PipeInv seen s.startAll.1 := by
  have h1 := PipeInv.mqStartAll s.queues s 0 h
  exact ⟨h1.lt, h1.nodup⟩

theorem PipeInv.tick {seen : List MqReq} {s : Mq} (h : PipeInv seen s) : PipeInv seen s.tick.1 := by
  have o3 := h.sendToGPUs.delay.response
  unfold Mq.tick
  split
  · exact h
  · simp only
    split
    · exact o3
    · exact o3.startAll

def MqEnv.Pipe (e : MqEnv) : Prop := PipeInv e.seen e.s

theorem MqEnv.Pipe.step {e : MqEnv} (h : e.Pipe) (op : MqOp) : (e.step op).1.Pipe := by
  cases op with
  | enq qi c =>
    simp only [MqEnv.step]
    split
    · exact PipeInv.perm h (List.Perm.refl _) rfl
    · exact h
  | tick => exact PipeInv.tick h
  | take k =>
    refine PipeInv.perm h ?_ rfl
    show ((e.seen ++ e.s.portOut.take k) ++ e.s.portOut.drop k ++ e.s.toSend ++ e.s.awaiting).Perm _
    rw [List.append_assoc e.seen, List.take_append_drop]
  | rsp j =>
    simp only [MqEnv.step]
    split
    · exact h
    · split
      · exact h
      · exact PipeInv.perm h (List.Perm.refl _) rfl

theorem MqEnv.Pipe.run : ∀ (ops : List MqOp) {e : MqEnv}, e.Pipe → (e.run ops).Pipe
  | [], _, h => h
  | op :: rest, _, h => MqEnv.Pipe.run rest (h.step op)

theorem reachMq_pipe (g a b n : Nat) (warm : Bool) (ops : List MqOp) : (reachMq g a b n warm ops).Pipe :=
  MqEnv.Pipe.run ops ⟨fun r hr => by simp [MqEnv.init] at hr, by simp [MqEnv.init]⟩

/-- the ids of the requests the GPU side took are pairwise different, and none of them waits in the port -/
theorem MqEnv.Pipe.seen_nodup {e : MqEnv} (h : e.Pipe) : (e.seen.map (·.id)).Nodup := by
  have := h.nodup
  simp only [List.map_append, List.append_assoc] at this
  exact (List.nodup_append.1 this).1

theorem MqEnv.Pipe.seen_inj {e : MqEnv} (h : e.Pipe) {i j : Nat} {a b : MqReq} (hi : e.seen[i]? = some a)
    (hj : e.seen[j]? = some b) (hid : a.id = b.id) : i = j := by
  have hnd := h.seen_nodup
  obtain ⟨hil, hia⟩ := List.getElem?_eq_some_iff.1 hi
  obtain ⟨hjl, hjb⟩ := List.getElem?_eq_some_iff.1 hj
  have h1 : (e.seen.map (·.id))[i]'(by simpa using hil) = a.id := by simp [hia]
  have h2 : (e.seen.map (·.id))[j]'(by simpa using hjl) = b.id := by simp [hjb]
  exact (List.getElem_inj hnd).1 (by rw [h1, h2, hid])

/-! ## the driver: every request created is a request its command wants -/

/-- a request that is not a flush request is a page piece of the command it was created for -/
theorem MqEnv.Inv.created_piece {g a b n : Nat} {e : MqEnv} (h : e.Inv g a b n) {r : MqReq} (hr : r ∈ e.s.created)
    (hk : r.kind ≠ .flush) : ∃ c, (e.enqOf r.q)[r.seq]? = some c ∧ r.kind = c.kind ∧ r.idx < c.pieces := by
  obtain ⟨q, hq, hlt⟩ := h.q.seq_lt r hr
  have hb := h.q.bound hq
  have hlen : r.seq < (mqEnqOf e.enq r.q).length := by omega
  refine ⟨(mqEnqOf e.enq r.q)[r.seq], List.getElem?_eq_getElem hlen, ?_⟩
  have hw := h.q.want r.q q hq r.seq _ (List.getElem?_eq_getElem hlen) hlt
  have hm : (r.kind, r.idx) ∈ (e.s.created.filter fun x => x.q = r.q ∧ x.seq = r.seq).map fun x => (x.kind, x.idx) :=
    List.mem_map.2 ⟨r, List.mem_filter.2 ⟨hr, by simp⟩, rfl⟩
  rw [hw] at hm
  unfold mqWantReqs at hm
  rcases List.mem_append.1 hm with hm | hm
  · exfalso
    split at hm
    · obtain ⟨x, _, hx⟩ := List.mem_map.1 hm
      simp only [Prod.mk.injEq] at hx
      exact hk hx.1.symm
    · cases hm
  · obtain ⟨x, hx, he⟩ := List.mem_map.1 hm
    simp only [Prod.mk.injEq] at he
    exact ⟨he.1.symm, by rw [← he.2]; exact List.mem_range.1 hx⟩

/-! ## the command processor: a forwarded request is a copy; an answer is produced once -/

attribute [local simp] filterMap_single CpEv.isFwd CpEv.isAck CpEv.cacheIdx? CpEv.flushStart? CpEv.flushDone?
  CpEv.popped? CpEv.clone? CpEv.fwdCid? CpEv.rsp? CpEv.doneOrig? CpEv.dropped

/-- no forward event carries a flush request -/
def CpFwdNF (e : CpEnv) : Prop := ∀ o c k b, CpEv.fwd o c k b ∈ e.s.log → k ≠ .flush

theorem CpFwdNF.tr {e e' : CpEnv} (h : CpFwdNF e) (t : CpTr e e') : CpFwdNF e' := by
  intro o c k b hm
  cases t with
  | flushFault m rest k' hf hd hn hk hkn hcap =>
    simp only [CpEnv.withS_s, Cp.flushAsk, List.mem_append, List.mem_cons, List.mem_map] at hm
    rcases hm with hm | hm | ⟨i, _, hm⟩
    · exact h o c k b hm
    · cases hm
    · cases hm
  | flushOk m rest hf hd hn hk hpos =>
    simp only [CpEnv.withS_s, Cp.flushAsk, List.mem_append, List.mem_cons, List.mem_map] at hm
    rcases hm with hm | hm | ⟨i, _, hm⟩
    · exact h o c k b hm
    · cases hm
    · cases hm
  | flushZero m rest b' hf hd hn hk hz hb =>
    simp only [CpEnv.withS_s, List.mem_append, List.mem_cons, List.not_mem_nil, or_false] at hm
    rcases hm with hm | hm | hm
    · exact h o c k b hm
    · cases hm
    · cases hm
  | copy m rest b' hf hd hn hk hb =>
    simp only [CpEnv.withS_s, Cp.copyFwd, List.mem_append, List.mem_singleton] at hm
    rcases hm with hm | hm
    · exact h o c k b hm
    · cases hm; exact hk
  | done c' rest o' k' b' hf hd hl hb =>
    simp only [CpEnv.withS_s, Cp.copyDone, List.mem_append, List.mem_singleton] at hm
    rcases hm with hm | hm
    · exact h o c k b hm
    · cases hm
  | never c' rest hf hd hH hD => exact h o c k b hm
  | ackDec x rest n' hf hd hn hz =>
    simp only [CpEnv.withS_s, List.mem_append, List.mem_singleton] at hm
    rcases hm with hm | hm
    · exact h o c k b hm
    · cases hm
  | nilderef x rest n' hf hd hn hz hc =>
    simp only [CpEnv.withS_s, List.mem_append, List.mem_singleton] at hm
    rcases hm with hm | hm
    · exact h o c k b hm
    · cases hm
  | ackFinal x rest n' f b' hf hd hn hz hc hb =>
    simp only [CpEnv.withS_s, List.mem_append, List.mem_cons, List.not_mem_nil, or_false] at hm
    rcases hm with hm | hm | hm
    · exact h o c k b hm
    · cases hm
    · cases hm
  | req k' hlt => exact h o c k b hm
  | takeDma k' => exact h o c k b hm
  | takeCache k' => exact h o c k b hm
  | takeDrv k' => exact h o c k b hm
  | ackEnv j x hj => exact h o c k b hm
  | rspEnv j c' hj => exact h o c k b hm

theorem reach_fwdNF (n cin cdrv cdma ccache : Nat) (ops : List CpOp) : CpFwdNF (reachCp n cin cdrv cdma ccache ops) :=
  reach_inv (P := CpFwdNF) (fun o c k b hm => by cases hm) (fun e e' h t => h.tr t) ops

/-- the answers the command processor has produced (taken by the driver or waiting in ToDriver) are
    pairwise different -/
theorem CpInvAll.answers_nodup {e : CpEnv} (h : CpInvAll e) (hnd : ∀ ev ∈ e.s.log, ev.dropped = false)
    (hnf : CpFwdNF e) : (e.drained ++ e.s.drvOut).Nodup := by
  rw [h.rsp.rsps, (rsp_split _).nodup_iff, List.nodup_append]
  refine ⟨?_, ?_, ?_⟩
  · rw [flushRsp_eq _ hnd]
    show List.Pairwise (· ≠ ·) (List.map (fun f => (⟨f, CpKind.flush⟩ : CpMsg)) _)
    rw [List.pairwise_map]
    exact h.flushDone_nodup.imp (fun hab e => hab (by cases e; rfl))
  · have := h.copy.done_orig
    rw [← doneRsp_ids _ hnd] at this
    exact nodup_of_map _ this
  · intro a ha b hb hab
    subst hab
    rw [flushRsp_eq _ hnd] at ha
    obtain ⟨f, _, rfl⟩ := List.mem_map.1 ha
    obtain ⟨ev, hev, he⟩ := List.mem_filterMap.1 hb
    cases ev with
    | done o c k b' =>
      cases b' with
      | false => simp [CpEv.doneRsp?] at he
      | true =>
        simp only [CpEv.doneRsp?, Option.some.injEq, CpMsg.mk.injEq] at he
        obtain ⟨pre, post, hdec⟩ := List.append_of_mem hev
        have hfw : CpEv.fwd o c k true ∈ e.s.log := by
          rw [hdec]; exact List.mem_append_left _ (h.copy.done_pre pre post o c k true hdec).1
        exact hnf o c k true hfw he.2
    | _ => simp [CpEv.doneRsp?] at he

/-! ## page pieces are never empty (no assumption on the page table) -/

theorem pieces_pos (pt : List Page) : ∀ (fuel addr off left : Nat) (ps : List (Nat × Nat × Nat)),
    pieces pt fuel addr off left = some ps → ∀ p ∈ ps, 0 < p.2.2 := by
  intro fuel
  induction fuel with
  | zero =>
    intro addr off left ps h
    simp [pieces] at h; subst h
    intro p hp; cases hp
  | succ fuel ih =>
    intro addr off left ps h
    by_cases hl : left = 0
    · simp [pieces, hl] at h; subst h
      intro p hp; cases hp
    · obtain ⟨pg, n, r, _, hn, _, _, _, hr, rfl⟩ := pieces_cons hl h
      intro p hp
      rcases List.mem_cons.1 hp with rfl | hp
      · exact hn
      · exact ih _ _ _ r hr p hp

/-! ## the measure of the closed system -/

/-- (driver measure, command-processor measure, DMA measure), compared lexicographically: a hand-over
    decreases the measure of the sender and increases that of the receiver, which comes later -/
def sysMeasure (s : Sys) : Nat × Nat × Nat := (s.mq.fairMeasure, cpMeasure s.cp, dmaMeasure s.dma)

theorem SysLt.of1 {a b : Nat × Nat × Nat} (h : a.1 < b.1) : SysLt a b := .inl h
theorem SysLt.of2 {a b : Nat × Nat × Nat} (h1 : a.1 = b.1) (h : a.2.1 < b.2.1) : SysLt a b := .inr ⟨h1, .inl h⟩
theorem SysLt.of3 {a b : Nat × Nat × Nat} (h1 : a.1 = b.1) (h2 : a.2.1 = b.2.1) (h : a.2.2 < b.2.2) : SysLt a b :=
  .inr ⟨h1, .inr ⟨h2, h⟩⟩

/-- moves that feed the system from outside: a new copy command, a kernel write -/
def SysOp.isInput : SysOp → Bool
  | .enq .. => true
  | .kwrite .. => true
  | _ => false

section
variable {g a b n : Nat} {s : Sys}

theorem sys_drvTick (hm : s.mq.Inv g a b n) :
    ((s.step .drvTick).1 = s ∧ s.mq.s.quietTick) ∨ SysLt (sysMeasure (s.step .drvTick).1) (sysMeasure s) := by
  rcases MqEnv.step_tick_fair hm with h | ⟨h, hq⟩
  · right; exact .of1 (by show (s.mq.step .tick).1.fairMeasure < s.mq.fairMeasure; omega)
  · left
    refine ⟨?_, hq⟩
    show { s with mq := (s.mq.step .tick).1 } = s
    rw [h]

theorem sys_toCp :
    ((s.step .toCp).1 = s ∧ (s.mq.s.portOut = [] ∨ s.cp.s.capIn ≤ s.cp.s.drvIn.length)) ∨
    SysLt (sysMeasure (s.step .toCp).1) (sysMeasure s) := by
  cases hp : s.mq.s.portOut with
  | nil => left; exact ⟨by simp only [Sys.step, hp], .inl rfl⟩
  | cons r rest =>
    by_cases hfull : s.cp.s.drvIn.length < s.cp.s.capIn
    · right
      simp only [Sys.step, hp, hfull, if_true]
      rcases s.mq.step_take_fair 1 with h | ⟨_, h⟩
      · exact .of1 (by show (s.mq.step (.take 1)).1.fairMeasure < s.mq.fairMeasure; omega)
      · rw [hp] at h; simp at h
    · left
      exact ⟨by simp only [Sys.step, hp, hfull, if_false], .inr (by omega)⟩

theorem sys_cpTick (hg : CpGood s.cp) :
    ((s.step .cpTick).1 = s ∧ s.cp.s.tick.1 = s.cp.s) ∨ SysLt (sysMeasure (s.step .cpTick).1) (sysMeasure s) := by
  rcases tick_prog hg with h | h
  · left
    have h' : (s.cp.step .tick).1 = s.cp := h
    refine ⟨?_, by have := congrArg CpEnv.s h; simpa using this⟩
    show { s with cp := (s.cp.step .tick).1 } = s
    rw [h']
  · right; exact .of2 rfl h

theorem sys_cacheTake (k : Nat) :
    ((s.step (.cacheTake k)).1 = s ∧ (k = 0 ∨ s.cp.s.cacheOut = [])) ∨
    SysLt (sysMeasure (s.step (.cacheTake k)).1) (sysMeasure s) := by
  rcases takeCache_prog s.cp k with ⟨h1, h2⟩ | h
  · left
    refine ⟨?_, h1⟩
    show { s with cp := (s.cp.step (.takeCache k)).1 } = s
    rw [h2]
  · right; exact .of2 rfl h

theorem sys_cacheAck (j : Nat) :
    ((s.step (.cacheAck j)).1 = s ∧ (s.cp.atCaches = [] ∨ s.cp.s.capIn ≤ s.cp.s.cacheIn.length)) ∨
    SysLt (sysMeasure (s.step (.cacheAck j)).1) (sysMeasure s) := by
  cases ha : s.cp.atCaches with
  | nil => left; exact ⟨by simp only [Sys.step, ha], .inl rfl⟩
  | cons x xs =>
    by_cases hfull : s.cp.s.cacheIn.length ≥ s.cp.s.capIn
    · left; exact ⟨by simp only [Sys.step, ha, hfull, if_true], .inr hfull⟩
    · right
      simp only [Sys.step, ha, hfull, if_false]
      rcases ack_prog s.cp j with ⟨h1, _⟩ | h
      · rcases h1 with h1 | h1
        · rw [ha] at h1; cases h1
        · omega
      · exact .of2 rfl h

theorem sys_toDma :
    ((s.step .toDma).1 = s ∧ (s.cp.s.dmaOut = [] ∨
      ∃ cl rest, s.cp.s.dmaOut = cl :: rest ∧ (s.reqOfCp cl.orig).bind s.pieceOf = none)) ∨
    SysLt (sysMeasure (s.step .toDma).1) (sysMeasure s) := by
  cases hd : s.cp.s.dmaOut with
  | nil => left; exact ⟨by simp only [Sys.step, hd], .inl rfl⟩
  | cons cl rest =>
    cases hp : (s.reqOfCp cl.orig).bind s.pieceOf with
    | none => left; exact ⟨by simp only [Sys.step, hd, hp], .inr ⟨cl, rest, rfl, hp⟩⟩
    | some p =>
      right
      simp only [Sys.step, hd, hp]
      rcases takeDma_prog s.cp 1 with ⟨h1, _⟩ | h
      · rw [hd] at h1; simp at h1
      · exact .of2 rfl h

theorem sys_dmaTick :
    ((s.step .dmaTick).1 = s ∧ s.dma.s.tick.1 = s.dma.s) ∨ SysLt (sysMeasure (s.step .dmaTick).1) (sysMeasure s) := by
  rcases dstep_tick s.dma with h | h
  · left
    refine ⟨?_, congrArg Env.s h⟩
    show { s with dma := s.dma.step .tick } = s
    rw [h]
  · right; exact .of3 rfl rfl h

theorem sys_memTake (k : Nat) :
    ((s.step (.memTake k)).1 = s ∧ (k = 0 ∨ s.dma.s.memOut = [])) ∨
    SysLt (sysMeasure (s.step (.memTake k)).1) (sysMeasure s) := by
  rcases dstep_take s.dma k with ⟨h1, h2⟩ | h
  · left
    refine ⟨?_, h1⟩
    show { s with dma := s.dma.step (.take k) } = s
    rw [h2]
  · right; exact .of3 rfl rfl h

theorem sys_dmaOut :
    ((s.step .dmaOut).1 = s ∧ s.dma.s.cpOut = []) ∨ SysLt (sysMeasure (s.step .dmaOut).1) (sysMeasure s) := by
  rcases dstep_drain s.dma with ⟨h1, h2⟩ | h
  · left
    refine ⟨?_, h1⟩
    show { s with dma := s.dma.step .drain, wire := s.wire ++ s.dma.s.cpOut } = s
    rw [h2, h1, List.append_nil]
  · right; exact .of3 rfl rfl h

theorem sys_memDo (j : Nat) :
    ((s.step (.memDo j)).1 = s ∧ (s.dma.outstanding = [] ∨ s.dma.s.memCap ≤ s.dma.s.memIn.length ∨
      ∃ r ∈ s.dma.outstanding, (s.reqOfDma r.owner).bind s.pieceOf = none)) ∨
    SysLt (sysMeasure (s.step (.memDo j)).1) (sysMeasure s) := by
  cases ho : s.dma.outstanding with
  | nil => left; exact ⟨by simp only [Sys.step, ho], .inl rfl⟩
  | cons x xs =>
    by_cases hfull : s.dma.s.memIn.length ≥ s.dma.s.memCap
    · left; exact ⟨by simp only [Sys.step, ho, hfull, if_true], .inr (.inl hfull)⟩
    · have hlt : j % (x :: xs).length < (x :: xs).length := Nat.mod_lt _ (by simp)
      have hget : (x :: xs)[j % (x :: xs).length]? = some (x :: xs)[j % (x :: xs).length] :=
        List.getElem?_eq_getElem hlt
      have hdec : dmaMeasure (s.dma.step (.respond j)) < dmaMeasure s.dma := by
        rcases dstep_respond s.dma j with ⟨h1, _⟩ | h
        · rcases h1 with h1 | h1
          · omega
          · rw [ho] at h1; cases h1
        · exact h
      cases hp : (s.reqOfDma (x :: xs)[j % (x :: xs).length].owner).bind s.pieceOf with
      | none =>
        left
        exact ⟨by simp only [Sys.step, ho, hfull, if_false, hget, hp], .inr (.inr ⟨_, List.getElem_mem hlt, hp⟩)⟩
      | some p =>
        right
        simp only [Sys.step, ho, hfull, if_false, hget, hp]
        split
        · exact .of3 rfl rfl hdec
        · exact .of3 rfl rfl hdec

theorem sys_toCpRsp :
    ((s.step .toCpRsp).1 = s ∧ (s.wire = [] ∨ s.cp.s.capIn ≤ s.cp.s.dmaIn.length ∨
      ∃ c rest, s.wire = c :: rest ∧ findIdx? (fun (cl : CpClone) => cl.cid == c) s.cp.atDma = none)) ∨
    SysLt (sysMeasure (s.step .toCpRsp).1) (sysMeasure s) := by
  cases hw : s.wire with
  | nil => left; exact ⟨by simp only [Sys.step, hw], .inl rfl⟩
  | cons c rest =>
    cases hf : findIdx? (fun (cl : CpClone) => cl.cid == c) s.cp.atDma with
    | none => left; exact ⟨by simp only [Sys.step, hw, hf], .inr (.inr ⟨c, rest, rfl, hf⟩)⟩
    | some j =>
      by_cases hfull : s.cp.s.dmaIn.length ≥ s.cp.s.capIn
      · left; exact ⟨by simp only [Sys.step, hw, hf, hfull, if_true], .inr (.inl hfull)⟩
      · right
        simp only [Sys.step, hw, hf, hfull, if_false]
        obtain ⟨x, hx, _⟩ := findIdx?_spec _ _ _ hf
        rcases rsp_prog s.cp j with ⟨h1, _⟩ | h
        · rcases h1 with h1 | h1
          · rw [h1] at hx; cases hx
          · omega
        · exact .of2 rfl h

theorem sys_toDrv :
    ((s.step .toDrv).1 = s ∧ (s.cp.s.drvOut = [] ∨
      ∃ m rest, s.cp.s.drvOut = m :: rest ∧ (s.reqOfCp m.id = none ∨
        ∃ rq, s.reqOfCp m.id = some rq ∧ findIdx? (fun (x : MqReq) => x.id == rq.id) s.mq.outstanding = none))) ∨
    SysLt (sysMeasure (s.step .toDrv).1) (sysMeasure s) := by
  cases hd : s.cp.s.drvOut with
  | nil => left; exact ⟨by simp only [Sys.step, hd], .inl rfl⟩
  | cons m rest =>
    cases hr : s.reqOfCp m.id with
    | none => left; exact ⟨by simp only [Sys.step, hd, hr], .inr ⟨m, rest, rfl, .inl hr⟩⟩
    | some rq =>
      cases hf : findIdx? (fun (x : MqReq) => x.id == rq.id) s.mq.outstanding with
      | none => left; exact ⟨by simp only [Sys.step, hd, hr, hf], .inr ⟨m, rest, rfl, .inr ⟨rq, hr, hf⟩⟩⟩
      | some j =>
        right
        simp only [Sys.step, hd, hr, hf]
        obtain ⟨x, hx, _⟩ := findIdx?_spec _ _ _ hf
        rcases s.mq.step_rsp_fair j with h | ⟨_, h⟩
        · exact .of1 (by show (s.mq.step (.rsp j)).1.fairMeasure < s.mq.fairMeasure; omega)
        · rw [h] at hx; cases hx

end

/-! ## conservation: what the GPU side of the driver holds = delivered to the command processor and not
yet answered back -/

def Sys.CountInv (s : Sys) : Prop := s.mq.outstanding.length + s.cp.drained.length = s.mq.seen.length

theorem CpEnv.step_drained_len (e : CpEnv) (op : CpOp) (h : ∀ k, op ≠ .takeDrv k) :
    (e.step op).1.drained = e.drained := e.step_drained_frame op h

theorem Sys.CountInv.step {s : Sys} (h : s.CountInv) (op : SysOp) : (s.step op).1.CountInv := by
  unfold Sys.CountInv at h ⊢
  cases op with
  | enq q h2d addr len salt =>
    simp only [Sys.step]
    split
    · exact h
    · split
      · simp only [MqEnv.step]
        split <;> exact h
      · exact h
  | drvTick => exact h
  | toCp =>
    cases hp : s.mq.s.portOut with
    | nil => simp only [Sys.step, hp]; exact h
    | cons r rest =>
      by_cases hfull : s.cp.s.drvIn.length < s.cp.s.capIn
      · simp only [Sys.step, hp, hfull, if_true]
        have hd : (s.cp.step (.req (mqKindToCp r.kind))).1.drained = s.cp.drained :=
          s.cp.step_drained_frame _ (fun k => by simp)
        rw [hd]
        simp only [MqEnv.step, hp, List.take_succ_cons, List.take_zero, List.length_append, List.length_singleton]
        omega
      · simp only [Sys.step, hp, hfull, if_false]; exact h
  | cpTick =>
    show s.mq.outstanding.length + (s.cp.step .tick).1.drained.length = s.mq.seen.length
    rw [s.cp.step_drained_frame _ (fun k => by simp)]; exact h
  | cacheTake k =>
    show s.mq.outstanding.length + (s.cp.step (.takeCache k)).1.drained.length = s.mq.seen.length
    rw [s.cp.step_drained_frame _ (fun k => by simp)]; exact h
  | cacheAck j =>
    simp only [Sys.step]
    split
    · exact h
    · split
      · exact h
      · show s.mq.outstanding.length + (s.cp.step (.ack j)).1.drained.length = s.mq.seen.length
        rw [s.cp.step_drained_frame _ (fun k => by simp)]; exact h
  | toDma =>
    simp only [Sys.step]
    split
    · exact h
    · split
      · exact h
      · show s.mq.outstanding.length + (s.cp.step (.takeDma 1)).1.drained.length = s.mq.seen.length
        rw [s.cp.step_drained_frame _ (fun k => by simp)]; exact h
  | dmaTick => exact h
  | memTake k => exact h
  | memDo j =>
    simp only [Sys.step]
    repeat' (first | exact h | split)
  | dmaOut => exact h
  | toCpRsp =>
    simp only [Sys.step]
    split
    · exact h
    · split
      · exact h
      · split
        · exact h
        · rename_i j _ _
          show s.mq.outstanding.length + (s.cp.step (.rsp j)).1.drained.length = s.mq.seen.length
          rw [s.cp.step_drained_frame _ (fun k => by simp)]; exact h
  | toDrv =>
    cases hd : s.cp.s.drvOut with
    | nil => simp only [Sys.step, hd]; exact h
    | cons m rest =>
      cases hr : s.reqOfCp m.id with
      | none => simp only [Sys.step, hd, hr]; exact h
      | some rq =>
        cases hf : findIdx? (fun (x : MqReq) => x.id == rq.id) s.mq.outstanding with
        | none => simp only [Sys.step, hd, hr, hf]; exact h
        | some j =>
          simp only [Sys.step, hd, hr, hf]
          obtain ⟨x, hx, _⟩ := findIdx?_spec _ _ _ hf
          obtain ⟨hjl, _⟩ := List.getElem?_eq_some_iff.1 hx
          have hm : j % s.mq.outstanding.length = j := Nat.mod_eq_of_lt hjl
          cases ho : s.mq.outstanding with
          | nil => rw [ho] at hjl; cases hjl
          | cons y ys =>
            rw [ho] at hm hx hjl h
            simp only [CpEnv.step, MqEnv.step, ho, hm, hx, hd, List.take_succ_cons, List.take_zero,
              List.length_append, List.length_singleton, List.length_eraseIdx, hjl, if_true]
            simp only [List.length_cons] at h ⊢
            omega
  | kwrite i a v => exact h

theorem Sys.CountInv.run : ∀ (ops : List SysOp) {s : Sys}, s.CountInv → (s.run ops).CountInv
  | [], _, h => h
  | op :: rest, _, h => Sys.CountInv.run rest (h.step op)

theorem reachSys_count (c : SysCfg) (ops : List SysOp) : (reachSys c ops).CountInv :=
  Sys.CountInv.run ops (s := Sys.init c) rfl

/-! ## what a reachable state of the closed system knows about its components -/

structure SysCtx (c : SysCfg) (s : Sys) : Prop where
  all : s.AllInv c
  count : s.CountInv
  mq : s.mq.Inv 1 c.cycH2D c.cycD2H c.nQueues
  mlink : s.mq.Link
  pipe : s.mq.Pipe
  cpinv : CpInvAll s.cp
  cpnd : ∀ ev ∈ s.cp.s.log, ev.dropped = false
  cpnf : CpFwdNF s.cp
  cpcaps : s.cp.s.capIn = c.cin ∧ s.cp.s.capDrv = c.cdrv ∧ s.cp.s.capDma = c.cdma
  cpgood : c.nCaches ≤ c.ccache → CpGood s.cp
  dma : s.dma.Live
  dcfg : s.dma.s.maxReq = c.maxReq ∧ s.dma.s.memCap = c.memCap

theorem sysCtx_of {c : SysCfg} {s : Sys} (h : s.AllInv c) (hc : s.CountInv) : SysCtx c s := by
  obtain ⟨mo, co, dops, h1, h2, h3, h4⟩ := h.comp
  refine ⟨h, hc, ?_, ?_, ?_, ?_, ?_, ?_, ?_, ?_, ?_, ?_⟩
  · rw [h1]; exact reachMq_inv ..
  · rw [h1]; exact reachMq_link ..
  · rw [h1]; exact reachMq_pipe ..
  · rw [h2]; exact (reach_all ..).1
  · rw [h2]; exact reach_nodrop _ _ _ _ _ _
  · rw [h2]; exact reach_fwdNF _ _ _ _ _ _
  · rw [h2]; exact reach_caps ..
  · intro hcap; rw [h2]; exact reach_good _ _ _ _ _ _ hcap
  · rw [h3]; exact init_run_live _ _ _ dops h4
  · rw [h3]; exact init_run_cfg _ _ _ dops

theorem reachSys_ctx (c : SysCfg) (ops : List SysOp) : SysCtx c (reachSys c ops) :=
  sysCtx_of (reachSys_all c ops) (reachSys_count c ops)

theorem SysCtx.step {c : SysCfg} {s : Sys} (h : SysCtx c s) (op : SysOp) : SysCtx c (s.step op).1 :=
  sysCtx_of (h.all.step op) (h.count.step op)

/-! ## the hand-overs never fail for want of a link -/

theorem findIdx?_none {α} (p : α → Bool) : ∀ (l : List α), findIdx? p l = none → ∀ x ∈ l, p x = false
  | [], _, x, hx => by cases hx
  | y :: ys, h, x, hx => by
    unfold findIdx? at h
    split at h
    · cases h
    · rename_i hy
      cases hr : findIdx? p ys with
      | some k => rw [hr] at h; cases h
      | none =>
        rcases List.mem_cons.1 hx with rfl | hx
        · simpa using hy
        · exact findIdx?_none p ys hr x hx

section
variable {c : SysCfg} {s : Sys}

/-- the `k`-th clone the DMA side took has id `k` -/
theorem SysCtx.dmaSeen_cid (h : SysCtx c s) {k : Nat} {cl : CpClone} (hk : s.cp.dmaSeen[k]? = some cl) : cl.cid = k := by
  obtain ⟨hkl, hke⟩ := List.getElem?_eq_some_iff.1 hk
  have hpos := h.cpinv.clone_positions h.cpnd
  have hkl' : k < (s.cp.dmaSeen ++ s.cp.s.dmaOut).length := by rw [List.length_append]; omega
  have := map_range_getElem hpos k hkl'
  rw [List.getElem_append_left hkl, hke] at this
  exact this

/-- a transaction at the memory belongs to a DMA copy request made from a page piece -/
theorem SysCtx.memDo_link (h : SysCtx c s) {r : MemReq} (hr : r ∈ s.dma.outstanding) :
    ∃ p, (s.reqOfDma r.owner).bind s.pieceOf = some p := by
  have hseen := h.all.mem.outs r hr
  have hiss : r ∈ s.dma.issued := by
    unfold Env.issued; exact List.mem_append_left _ (List.mem_append_left _ hseen)
  obtain ⟨r', hr', hid, _⟩ := h.dma.tx.issued_in_range r hiss
  have hget := getElem?_of_ids_range h.dma.inv.cps_ids hr'
  obtain ⟨cl, rq, p, h1, h2, h3, _⟩ := h.all.link.pay r'.id r' hget
  refine ⟨p, ?_⟩
  unfold Sys.reqOfDma Sys.reqOfCp
  rw [← hid, h1]
  simp only [h2, Option.bind_some, h3]

/-- every copy request of the DMA engine carries a non-empty page piece -/
theorem SysCtx.dma_cps_pos (h : SysCtx c s) : ∀ r ∈ s.dma.cps, 0 < r.len := by
  intro r hr
  obtain ⟨k, hk⟩ := List.mem_iff_getElem?.1 hr
  obtain ⟨cl, rq, p, _, _, h3, h4⟩ := h.all.link.pay k r hk
  obtain ⟨hcm, _, _, _, hpc, _⟩ := Sys.pieceOf_spec h3
  have hpcs := h.all.wf.pcs p.cmd hcm
  have := pieces_pos s.pt _ _ _ _ _ hpcs (p.pa, p.off, p.len) (List.mem_of_getElem? hpc)
  rw [h4]; exact this

/-- a completion on the wire names a clone that is still at the DMA side -/
theorem SysCtx.toCpRsp_link (h : SysCtx c s) {x : Nat} {rest : List Nat} (hw : s.wire = x :: rest) :
    findIdx? (fun (cl : CpClone) => cl.cid == x) s.cp.atDma ≠ none := by
  intro hnone
  have hwire := h.all.link.wire
  rw [hw] at hwire
  have hxd : x ∈ s.dma.drained := by rw [← hwire]; simp
  have hem := h.dma.inv.d.emitted
  have hxc : x ∈ s.dma.s.completed := by
    rw [hem]; exact List.mem_append_left _ (List.mem_append_left _ hxd)
  have hlt : x < s.cp.dmaSeen.length := by
    have := h.dma.inv.d.ids_lt x (List.mem_append_left _ (List.mem_append_left _ hxc))
    rw [h.all.link.next, h.all.link.len] at this; exact this
  have hcnd : s.dma.s.completed.Nodup := (List.nodup_append.1 (List.nodup_append.1 h.dma.inv.d.ids_nodup).1).1
  have hdnd : s.dma.drained.Nodup := by
    rw [hem, List.append_assoc] at hcnd
    exact (List.nodup_append.1 hcnd).1
  have hna : x ∉ s.cp.answered := by
    rw [← hwire] at hdnd
    intro ha
    exact (List.nodup_append.1 hdnd).2.2 x ha x (by simp) rfl
  have hget : s.cp.dmaSeen[x]? = some s.cp.dmaSeen[x] := List.getElem?_eq_getElem hlt
  have hcid := h.dmaSeen_cid hget
  have hmem : s.cp.dmaSeen[x] ∈ s.cp.dmaSeen := List.getElem_mem hlt
  rcases h.cpinv.copy.seen_acc _ hmem with ha | ha | ⟨o, k, b, ha⟩
  · have := findIdx?_none _ _ hnone _ ha
    simp [hcid] at this
  · rw [hcid] at ha; exact hna (h.cpinv.copy.dmaIn_ans x ha)
  · rw [hcid] at ha; exact hna (h.cpinv.copy.done_ans o x k b ha)

/-- the DMA engine is quiet and the wire is empty: no clone is left at the DMA side -/
theorem SysCtx.atDma_nil (h : SysCtx c s) (hq : s.dma.quiet) (hw : s.wire = []) : s.cp.atDma = [] := by
  cases ha : s.cp.atDma with
  | nil => rfl
  | cons cl rest =>
    exfalso
    have hcl : cl ∈ s.cp.atDma := by rw [ha]; exact List.mem_cons_self
    have hseen := h.cpinv.copy.atDma_seen cl hcl
    obtain ⟨k, hkl, hke⟩ := List.getElem_of_mem hseen
    have hcid := h.dmaSeen_cid (show s.cp.dmaSeen[k]? = some cl by rw [List.getElem?_eq_getElem hkl, hke])
    have hperm := h.dma.quiet_perm hq
    have hkin : k ∈ s.dma.cps.map (·.id) := by
      rw [h.dma.inv.cps_ids, h.all.link.next, h.all.link.len]; exact List.mem_range.2 hkl
    have hkd : k ∈ s.dma.drained := hperm.mem_iff.2 hkin
    have hwire := h.all.link.wire
    rw [hw, List.append_nil] at hwire
    rw [← hwire] at hkd
    have hnd := h.cpinv.copy.ans_nodup
    unfold cpOpen at hnd
    refine (List.nodup_append.1 hnd).2.2 k ?_ k hkd rfl
    rw [← hcid]
    exact List.mem_map_of_mem (List.mem_append_right _ hcl)

end

section
variable {c : SysCfg} {s : Sys}

/-- a command of the driver's bookkeeping is a command of the system -/
theorem SysCtx.cmdOf_of_enqOf (h : SysCtx c s) {q seq : Nat} {cm : MqCmd} (he : (s.mq.enqOf q)[seq]? = some cm) :
    ∃ cmd, s.cmdOf q seq = some cmd ∧ cmd.toMq.2 = cm := by
  unfold MqEnv.enqOf at he
  rw [h.all.wf.enq, List.filter_map, List.map_map, List.getElem?_map] at he
  have : (s.cmds.filter ((fun x : Nat × MqCmd => decide (x.1 = q)) ∘ SysCmd.toMq)) = s.cmds.filter (·.q == q) := by
    apply List.filter_congr; intro x _; simp only [SysCmd.toMq, Function.comp]
    by_cases hx : x.q = q <;> simp [hx]
  rw [this] at he
  unfold Sys.cmdOf
  cases hc : (s.cmds.filter (·.q == q))[seq]? with
  | none => rw [hc] at he; cases he
  | some cmd =>
    rw [hc] at he
    simp only [Option.map_some, Option.some.injEq] at he
    exact ⟨cmd, rfl, he⟩

/-- a copy request the GPU side of the driver took carries a page piece -/
theorem SysCtx.seen_piece (h : SysCtx c s) {rq : MqReq} (hr : rq ∈ s.mq.seen) (hk : rq.kind ≠ .flush) :
    ∃ p, s.pieceOf rq = some p := by
  obtain ⟨cm, he, hkind, hidx⟩ := h.mq.created_piece (h.mlink.seen rq hr) hk
  obtain ⟨cmd, hc, hcm⟩ := h.cmdOf_of_enqOf he
  have hlen : rq.idx < cmd.pcs.length := by
    rw [← hcm] at hidx; exact hidx
  unfold Sys.pieceOf
  rw [if_neg hk, hc]
  simp only [List.getElem?_eq_getElem hlen]
  exact ⟨_, rfl⟩

/-- the clone at the head of the command processor's DMA port was made from a copy request of the driver -/
theorem SysCtx.toDma_link (h : SysCtx c s) {cl : CpClone} (hcl : cl ∈ s.cp.s.dmaOut) :
    ∃ p, (s.reqOfCp cl.orig).bind s.pieceOf = some p := by
  have hm : cl ∈ s.cp.dmaSeen ++ s.cp.s.dmaOut := List.mem_append_right _ hcl
  obtain ⟨hsent, _⟩ := h.cpinv.forwarded_was_head hm
  have hlt : cl.orig < s.mq.seen.length := by
    rw [← h.all.cmd.len]; exact (List.getElem?_eq_some_iff.1 hsent).1
  have hget : s.mq.seen[cl.orig]? = some s.mq.seen[cl.orig] := List.getElem?_eq_getElem hlt
  have hs2 := h.all.cmd.sent cl.orig _ hget
  rw [hsent] at hs2
  simp only [Option.some.injEq, CpMsg.mk.injEq, true_and] at hs2
  have hnf : cl.kind ≠ .flush := by
    have : cl ∈ s.cp.s.log.filterMap CpEv.clone? := by rw [← h.cpinv.copy.clones]; exact hm
    exact h.cpnf _ _ _ _ (mem_clone_fwd this)
  have hk : s.mq.seen[cl.orig].kind ≠ .flush := by
    intro hf; rw [hf] at hs2; exact hnf hs2
  obtain ⟨p, hp⟩ := h.seen_piece (List.getElem_mem hlt) hk
  exact ⟨p, by unfold Sys.reqOfCp; rw [hget]; exact hp⟩

/-- the answer at the head of the command processor's driver port is for a request the GPU side of the
    driver still holds -/
theorem SysCtx.toDrv_link (h : SysCtx c s) {m : CpMsg} {rest : List CpMsg} (hd : s.cp.s.drvOut = m :: rest) :
    ∃ rq, s.reqOfCp m.id = some rq ∧ findIdx? (fun (x : MqReq) => x.id == rq.id) s.mq.outstanding ≠ none := by
  have hmem : m ∈ s.cp.drained ++ s.cp.s.drvOut := by rw [hd]; simp
  have hsent := h.cpinv.answers_are_requests m hmem
  have hlt : m.id < s.mq.seen.length := by
    rw [← h.all.cmd.len]; exact (List.getElem?_eq_some_iff.1 hsent).1
  have hget : s.mq.seen[m.id]? = some s.mq.seen[m.id] := List.getElem?_eq_getElem hlt
  refine ⟨s.mq.seen[m.id], hget, ?_⟩
  intro hnone
  have hrs : s.mq.seen[m.id] ∈ s.mq.seen := List.getElem_mem hlt
  have hcr := h.mlink.seen _ hrs
  have hidlt : s.mq.seen[m.id].id < s.mq.s.nextId := by
    have : s.mq.seen[m.id].id ∈ s.mq.s.created.map (·.id) := List.mem_map_of_mem hcr
    rw [h.mq.fl.ids] at this
    exact List.mem_range.1 this
  have hall := h.mq.fl.all _ hidlt
  simp only [List.map_append, List.mem_append] at hall
  have hpn := h.pipe.nodup
  simp only [List.map_append, List.append_assoc] at hpn
  have hdisj := (List.nodup_append.1 hpn).2.2 _ (List.mem_map_of_mem (f := fun r : MqReq => r.id) hrs)
  rcases hall with ((((a | a) | a) | a) | a) | a
  · exact hdisj _ (by simp only [List.mem_append]; exact .inr (.inr a)) rfl
  · exact hdisj _ (by simp only [List.mem_append]; exact .inr (.inl a)) rfl
  · exact hdisj _ (by simp only [List.mem_append]; exact .inl a) rfl
  · obtain ⟨x, hx, hxid⟩ := List.mem_map.1 a
    have := findIdx?_none _ _ hnone x hx
    simp [hxid] at this
  · -- the answer is already in the driver's port: the command processor would have answered twice
    obtain ⟨m', hm', rq', hrq', hid'⟩ := h.all.cmd.fed _ (List.mem_append_right _ a)
    have hij := h.pipe.seen_inj hrq' hget hid'
    have hs' := h.cpinv.answers_are_requests m' (List.mem_append_left _ hm')
    rw [hij, hsent] at hs'
    cases hs'
    have hnd := h.cpinv.answers_nodup h.cpnd h.cpnf
    exact (List.nodup_append.1 hnd).2.2 m hm' m (by rw [hd]; simp) rfl
  · obtain ⟨m', hm', rq', hrq', hid'⟩ := h.all.cmd.fed _ (List.mem_append_left _ a)
    have hij := h.pipe.seen_inj hrq' hget hid'
    have hs' := h.cpinv.answers_are_requests m' (List.mem_append_left _ hm')
    rw [hij, hsent] at hs'
    cases hs'
    have hnd := h.cpinv.answers_nodup h.cpnd h.cpnf
    exact (List.nodup_append.1 hnd).2.2 m hm' m (by rw [hd]; simp) rfl

end

/-! ## no deadlock -/

/-- capacities under which the closed system cannot get stuck: every buffer between two components has
    room for one message, ToCaches for one flush request per cache, the DMA engine processes at least one
    copy at a time -/
structure SysCaps (c : SysCfg) : Prop where
  cin : 1 ≤ c.cin
  cdrv : 1 ≤ c.cdrv
  cdma : 1 ≤ c.cdma
  ccache : c.nCaches ≤ c.ccache
  maxReq : 1 ≤ c.maxReq
  memCap : 1 ≤ c.memCap

/-- the twelve kinds of move of the closed system; the caches take `k1` flush requests and acknowledge the
    `j1`-th outstanding one, the memory takes `k2` transactions and performs the `j2`-th outstanding one -/
def sysMovesP (k1 j1 k2 j2 : Nat) : List SysOp :=
  [.drvTick, .toCp, .cpTick, .cacheTake k1, .cacheAck j1, .toDma, .dmaTick, .memTake k2, .memDo j2, .dmaOut,
   .toCpRsp, .toDrv]

/-- the twelve kinds of move with takes of one message and the first outstanding item -/
def sysMoves : List SysOp := sysMovesP 1 0 1 0

theorem sys_no_deadlock_core {c : SysCfg} {s : Sys} (h : SysCtx c s) (hc : SysCaps c) {k1 j1 k2 j2 : Nat}
    (hk1 : 1 ≤ k1) (hk2 : 1 ≤ k2) (hn : ∀ op ∈ sysMovesP k1 j1 k2 j2, (s.step op).1 = s) :
    s.mq.allDone ∧ s.cp.quiet ∧ s.dma.quiet ∧ s.wire = [] ∧ s.mq.outstanding = [] ∧ s.mq.s.portOut = [] := by
  have irr : ∀ {x : Sys}, x = s → ¬ SysLt (sysMeasure x) (sysMeasure s) := by
    intro x hx; rw [hx]; exact SysLt.irrefl _
  have n1 := hn .drvTick (by simp [sysMovesP])
  have n2 := hn .toCp (by simp [sysMovesP])
  have n3 := hn .cpTick (by simp [sysMovesP])
  have n4 := hn (.cacheTake k1) (by simp [sysMovesP])
  have n5 := hn (.cacheAck j1) (by simp [sysMovesP])
  have n6 := hn .toDma (by simp [sysMovesP])
  have n7 := hn .dmaTick (by simp [sysMovesP])
  have n8 := hn (.memTake k2) (by simp [sysMovesP])
  have n9 := hn (.memDo j2) (by simp [sysMovesP])
  have n10 := hn .dmaOut (by simp [sysMovesP])
  have n11 := hn .toCpRsp (by simp [sysMovesP])
  have n12 := hn .toDrv (by simp [sysMovesP])
  have hgood := h.cpgood hc.ccache
  obtain ⟨cap1, cap2, cap3⟩ := h.cpcaps
  obtain ⟨cap4, cap5⟩ := h.dcfg
  -- the DMA engine
  have d1 : s.dma.s.tick.1 = s.dma.s := by
    rcases sys_dmaTick (s := s) with ⟨_, a⟩ | a
    · exact a
    · exact absurd a (irr n7)
  have d2 : s.dma.s.memOut = [] := by
    rcases sys_memTake (s := s) k2 with ⟨_, a | a⟩ | a
    · omega
    · exact a
    · exact absurd a (irr n8)
  have d3 : s.dma.s.cpOut = [] := by
    rcases sys_dmaOut (s := s) with ⟨_, a⟩ | a
    · exact a
    · exact absurd a (irr n10)
  have d4 : s.dma.s.memCap ≤ s.dma.s.memIn.length ∨ s.dma.outstanding = [] := by
    rcases sys_memDo (s := s) j2 with ⟨_, a | a | ⟨r, hr, a⟩⟩ | a
    · exact .inr a
    · exact .inl a
    · obtain ⟨p, hp⟩ := h.memDo_link hr
      rw [hp] at a; cases a
    · exact absurd a (irr n9)
  have dq : s.dma.quiet := dma_no_deadlock_core h.dma h.dma_cps_pos (by rw [cap4]; exact hc.maxReq)
    (by rw [cap5]; exact hc.memCap) d1 d2 d4 d3
  -- the wire
  have w1 : s.wire = [] ∨ s.cp.s.capIn ≤ s.cp.s.dmaIn.length := by
    rcases sys_toCpRsp (s := s) with ⟨_, a | a | ⟨x, rest, hw, a⟩⟩ | a
    · exact .inl a
    · exact .inr a
    · exact absurd a (h.toCpRsp_link hw)
    · exact absurd a (irr n11)
  -- the command processor
  have c1 : s.cp.s.tick.1 = s.cp.s := by
    rcases sys_cpTick (s := s) hgood with ⟨_, a⟩ | a
    · exact a
    · exact absurd a (irr n3)
  have c2 : s.cp.s.dmaOut = [] := by
    rcases sys_toDma (s := s) with ⟨_, a | ⟨cl, rest, hd, a⟩⟩ | a
    · exact a
    · obtain ⟨p, hp⟩ := h.toDma_link (show cl ∈ s.cp.s.dmaOut by rw [hd]; exact List.mem_cons_self)
      rw [hp] at a; cases a
    · exact absurd a (irr n6)
  have c3 : s.cp.s.cacheOut = [] := by
    rcases sys_cacheTake (s := s) k1 with ⟨_, a | a⟩ | a
    · omega
    · exact a
    · exact absurd a (irr n4)
  have c4 : s.cp.s.drvOut = [] := by
    rcases sys_toDrv (s := s) with ⟨_, a | ⟨m, rest, hd, a⟩⟩ | a
    · exact a
    · obtain ⟨rq, hrq, hf⟩ := h.toDrv_link hd
      rcases a with a | ⟨rq', hrq', a⟩
      · rw [a] at hrq; cases hrq
      · rw [hrq] at hrq'; cases hrq'; exact absurd a hf
    · exact absurd a (irr n12)
  have c5 : s.cp.atCaches = [] ∨ s.cp.s.capIn ≤ s.cp.s.cacheIn.length := by
    rcases sys_cacheAck (s := s) j1 with ⟨_, a⟩ | a
    · exact a
    · exact absurd a (irr n5)
  have c6 : s.cp.atDma = [] ∨ s.cp.s.capIn ≤ s.cp.s.dmaIn.length := by
    rcases w1 with a | a
    · exact .inl (h.atDma_nil dq a)
    · exact .inr a
  have cq : s.cp.quiet := no_deadlock_core hgood (by rw [cap1]; exact hc.cin) (by rw [cap2]; exact hc.cdrv)
    (by rw [cap3]; exact hc.cdma) c1 c2 c3 c4 c5 c6
  have w2 : s.wire = [] := by
    rcases w1 with a | a
    · exact a
    · rw [cq.2.2.2.1] at a; simp at a; have := hc.cin; omega
  -- the driver
  have m1 : s.mq.s.portOut = [] := by
    rcases sys_toCp (s := s) with ⟨_, a | a⟩ | a
    · exact a
    · rw [cq.1] at a; simp at a; have := hc.cin; omega
    · exact absurd a (irr n2)
  have m2 : s.mq.outstanding = [] := by
    have hperm := h.cpinv.quiet_perm cq hgood.nofault h.cpnd
    have hl := hperm.length_eq
    have hcnt : s.mq.outstanding.length + s.cp.drained.length = s.mq.seen.length := h.count
    rw [hl, h.all.cmd.len] at hcnt
    exact List.eq_nil_of_length_eq_zero (by omega)
  have m3 : s.mq.s.quietTick := by
    rcases sys_drvTick (s := s) h.mq with ⟨_, a⟩ | a
    · exact a
    · exact absurd a (irr n1)
  exact ⟨h.mq.noop_allDone m3 m1 m2, cq, dq, w2, m2, m1⟩

/-! ## every move leaves the state as it is or decreases the measure -/

theorem sys_step_prog {c : SysCfg} {s : Sys} (h : SysCtx c s) (hcap : c.nCaches ≤ c.ccache) (op : SysOp)
    (hop : op.isInput = false) : (s.step op).1 = s ∨ SysLt (sysMeasure (s.step op).1) (sysMeasure s) := by
  cases op with
  | enq q h2d addr len salt => cases hop
  | kwrite i a v => cases hop
  | drvTick => exact (sys_drvTick h.mq).imp (fun x => x.1) id
  | toCp => exact sys_toCp.imp (fun x => x.1) id
  | cpTick => exact (sys_cpTick (h.cpgood hcap)).imp (fun x => x.1) id
  | cacheTake k => exact (sys_cacheTake k).imp (fun x => x.1) id
  | cacheAck j => exact (sys_cacheAck j).imp (fun x => x.1) id
  | toDma => exact sys_toDma.imp (fun x => x.1) id
  | dmaTick => exact sys_dmaTick.imp (fun x => x.1) id
  | memTake k => exact (sys_memTake k).imp (fun x => x.1) id
  | memDo j => exact (sys_memDo j).imp (fun x => x.1) id
  | dmaOut => exact sys_dmaOut.imp (fun x => x.1) id
  | toCpRsp => exact sys_toCpRsp.imp (fun x => x.1) id
  | toDrv => exact sys_toDrv.imp (fun x => x.1) id

/-- no command is added by a move that is not an enqueue -/
theorem Sys.step_cmds (s : Sys) (op : SysOp) (hop : op.isInput = false) : (s.step op).1.cmds = s.cmds := by
  cases op with
  | enq q h2d addr len salt => cases hop
  | _ =>
    simp only [Sys.step]
    repeat' (first | rfl | split)

/-! ## infinite schedules -/

/-- the state after the first `i` moves of the infinite schedule `σ` -/
def sysRunSched (s : Sys) (σ : Nat → SysOp) : Nat → Sys
  | 0 => s
  | i + 1 => ((sysRunSched s σ i).step (σ i)).1

theorem sysRunSched_succ (s : Sys) (σ : Nat → SysOp) (i : Nat) :
    sysRunSched s σ (i + 1) = ((sysRunSched s σ i).step (σ i)).1 := rfl

/-- A fair schedule of the closed system without new commands and kernel writes: each of the twelve
    kinds of move recurs for ever — the three components tick, every hand-over is attempted, the caches
    and the memory take at least one message, acknowledge / perform some outstanding item (which one is
    arbitrary). -/
def SysFair (σ : Nat → SysOp) : Prop :=
  (∀ i, (σ i).isInput = false) ∧
  ∀ i, (∃ j, i ≤ j ∧ σ j = .drvTick) ∧ (∃ j, i ≤ j ∧ σ j = .toCp) ∧ (∃ j, i ≤ j ∧ σ j = .cpTick) ∧
    (∃ j, i ≤ j ∧ ∃ k, 1 ≤ k ∧ σ j = .cacheTake k) ∧ (∃ j, i ≤ j ∧ ∃ x, σ j = .cacheAck x) ∧
    (∃ j, i ≤ j ∧ σ j = .toDma) ∧ (∃ j, i ≤ j ∧ σ j = .dmaTick) ∧
    (∃ j, i ≤ j ∧ ∃ k, 1 ≤ k ∧ σ j = .memTake k) ∧ (∃ j, i ≤ j ∧ ∃ x, σ j = .memDo x) ∧
    (∃ j, i ≤ j ∧ σ j = .dmaOut) ∧ (∃ j, i ≤ j ∧ σ j = .toCpRsp) ∧ (∃ j, i ≤ j ∧ σ j = .toDrv)

theorem sysRunSched_ctx {c : SysCfg} {s : Sys} (h : SysCtx c s) (σ : Nat → SysOp) (i : Nat) :
    SysCtx c (sysRunSched s σ i) := by
  induction i with
  | zero => exact h
  | succ i ih => exact ih.step _

theorem sysRunSched_cmds (s : Sys) {σ : Nat → SysOp} (hσ : ∀ i, (σ i).isInput = false) (i : Nat) :
    (sysRunSched s σ i).cmds = s.cmds := by
  induction i with
  | zero => rfl
  | succ i ih => rw [sysRunSched_succ, Sys.step_cmds _ _ (hσ i), ih]

/-- what holds once nothing can move any more -/
def Sys.settled (s : Sys) : Prop :=
  s.mq.allDone ∧ s.cp.quiet ∧ s.dma.quiet ∧ s.wire = [] ∧ s.mq.outstanding = [] ∧ s.mq.s.portOut = []

/-- on a fair schedule: the state never changes again and is settled, or the measure drops later -/
theorem sys_fair_settled_or_drop {c : SysCfg} {s : Sys} (h : SysCtx c s) (hc : SysCaps c) {σ : Nat → SysOp}
    (hσ : SysFair σ) (i : Nat) :
    ((∀ j, i ≤ j → sysRunSched s σ j = sysRunSched s σ i) ∧ (sysRunSched s σ i).settled) ∨
    ∃ j, i ≤ j ∧ SysLt (sysMeasure (sysRunSched s σ j)) (sysMeasure (sysRunSched s σ i)) := by
  by_cases hex : ∃ j, i ≤ j ∧ SysLt (sysMeasure (sysRunSched s σ j)) (sysMeasure (sysRunSched s σ i))
  · exact .inr hex
  · left
    have hconst : ∀ d, sysRunSched s σ (i + d) = sysRunSched s σ i := by
      intro d
      induction d with
      | zero => rfl
      | succ d ih =>
        have hp := sys_step_prog (sysRunSched_ctx h σ (i + d)) hc.ccache (σ (i + d)) (hσ.1 _)
        rw [← sysRunSched_succ] at hp
        rcases hp with hp | hp
        · exact hp.trans ih
        · rw [ih] at hp
          exact absurd ⟨i + d + 1, by omega, hp⟩ hex
    have hcj : ∀ j, i ≤ j → sysRunSched s σ j = sysRunSched s σ i := by
      intro j hj
      have := hconst (j - i)
      rwa [show i + (j - i) = j by omega] at this
    refine ⟨hcj, ?_⟩
    have hnoop : ∀ j, i ≤ j → ((sysRunSched s σ i).step (σ j)).1 = sysRunSched s σ i := by
      intro j hj
      have h1 := sysRunSched_succ s σ j
      rw [hcj j hj, hcj (j + 1) (by omega)] at h1
      exact h1.symm
    obtain ⟨⟨j1, l1, s1⟩, ⟨j2, l2, s2⟩, ⟨j3, l3, s3⟩, ⟨j4, l4, k4, hk4, s4⟩, ⟨j5, l5, x5, s5⟩, ⟨j6, l6, s6⟩,
      ⟨j7, l7, s7⟩, ⟨j8, l8, k8, hk8, s8⟩, ⟨j9, l9, x9, s9⟩, ⟨j10, l10, s10⟩, ⟨j11, l11, s11⟩, ⟨j12, l12, s12⟩⟩ := hσ.2 i
    refine sys_no_deadlock_core (sysRunSched_ctx h σ i) hc (k1 := k4) (j1 := x5) (k2 := k8) (j2 := x9) hk4 hk8 ?_
    intro op hop
    simp only [sysMovesP, List.mem_cons, List.not_mem_nil, or_false] at hop
    rcases hop with rfl | rfl | rfl | rfl | rfl | rfl | rfl | rfl | rfl | rfl | rfl | rfl
    · rw [← s1]; exact hnoop j1 l1
    · rw [← s2]; exact hnoop j2 l2
    · rw [← s3]; exact hnoop j3 l3
    · rw [← s4]; exact hnoop j4 l4
    · rw [← s5]; exact hnoop j5 l5
    · rw [← s6]; exact hnoop j6 l6
    · rw [← s7]; exact hnoop j7 l7
    · rw [← s8]; exact hnoop j8 l8
    · rw [← s9]; exact hnoop j9 l9
    · rw [← s10]; exact hnoop j10 l10
    · rw [← s11]; exact hnoop j11 l11
    · rw [← s12]; exact hnoop j12 l12

/-- on a fair schedule the closed system settles: from some point on the state never changes and
    everything is done -/
theorem sys_fair_settles {c : SysCfg} {s : Sys} (h : SysCtx c s) (hc : SysCaps c) {σ : Nat → SysOp}
    (hσ : SysFair σ) :
    ∃ N, (∀ M, N ≤ M → sysRunSched s σ M = sysRunSched s σ N) ∧ (sysRunSched s σ N).settled := by
  suffices H : ∀ m : Nat × Nat × Nat, ∀ i, sysMeasure (sysRunSched s σ i) = m →
      ∃ N, (∀ M, N ≤ M → sysRunSched s σ M = sysRunSched s σ N) ∧ (sysRunSched s σ N).settled from
    H _ 0 rfl
  intro m
  refine SysLt.wf.induction (C := fun m => ∀ i, sysMeasure (sysRunSched s σ i) = m →
      ∃ N, (∀ M, N ≤ M → sysRunSched s σ M = sysRunSched s σ N) ∧ (sysRunSched s σ N).settled) m ?_
  intro m ih i hm
  rcases sys_fair_settled_or_drop h hc hσ i with ⟨h1, h2⟩ | ⟨j, _, hj⟩
  · exact ⟨i, h1, h2⟩
  · rw [hm] at hj
    exact ih _ hj j rfl

/-! ## every enqueued command completes, exactly once -/

theorem SysCtx.enqOf_length {c : SysCfg} {s : Sys} (h : SysCtx c s) (qi : Nat) :
    (s.mq.enqOf qi).length = (s.cmds.filter (·.q == qi)).length := by
  unfold MqEnv.enqOf
  rw [h.all.wf.enq, List.filter_map, List.map_map, List.length_map]
  have : (s.cmds.filter ((fun x : Nat × MqCmd => decide (x.1 = qi)) ∘ SysCmd.toMq)) = s.cmds.filter (·.q == qi) := by
    apply List.filter_congr; intro x _; simp only [SysCmd.toMq, Function.comp]
    by_cases hx : x.q = qi <;> simp [hx]
  rw [this]

/-- all queues empty: the completions of queue `qi` are its commands `0, 1, …`, as many as were enqueued on it -/
theorem SysCtx.completed_all {c : SysCfg} {s : Sys} (h : SysCtx c s) (hd : s.mq.allDone) (qi : Nat)
    (hqi : qi < c.nQueues) :
    (s.mq.s.completed.filter (·.1 = qi)).map (·.2) = List.range (s.cmds.filter (·.q == qi)).length := by
  have hlt : qi < s.mq.s.queues.length := by rw [h.mq.qlen]; exact hqi
  have := (h.mq.allDone_completed hd (List.getElem?_eq_getElem hlt)).2
  rw [h.enqOf_length] at this
  exact this

/-- the closed system under a fair schedule, from a reachable state -/
theorem reachSys_fair_complete (c : SysCfg) (hc : SysCaps c) (ops : List SysOp) (σ : Nat → SysOp) (hσ : SysFair σ) :
    ∃ N, ∀ M, N ≤ M →
      (sysRunSched (reachSys c ops) σ M).settled ∧
      sysRunSched (reachSys c ops) σ M = sysRunSched (reachSys c ops) σ N ∧
      (sysRunSched (reachSys c ops) σ M).cmds = (reachSys c ops).cmds ∧
      ∀ qi, qi < c.nQueues →
        ((sysRunSched (reachSys c ops) σ M).mq.s.completed.filter (·.1 = qi)).map (·.2) =
          List.range ((reachSys c ops).cmds.filter (·.q == qi)).length := by
  have hctx := reachSys_ctx c ops
  obtain ⟨N, h1, h2⟩ := sys_fair_settles hctx hc hσ
  refine ⟨N, fun M hM => ?_⟩
  have hM' := h1 M hM
  have hset : (sysRunSched (reachSys c ops) σ M).settled := by rw [hM']; exact h2
  have hcm := sysRunSched_cmds (reachSys c ops) hσ.1 M
  refine ⟨hset, hM', hcm, fun qi hqi => ?_⟩
  have := (sysRunSched_ctx hctx σ M).completed_all hset.1 qi hqi
  rw [hcm] at this
  exact this

/-! ## a fair schedule -/

/-- round robin over the twelve kinds of move -/
def sysRoundRobin (i : Nat) : SysOp :=
  match i % 12 with
  | 0 => .drvTick
  | 1 => .toCp
  | 2 => .cpTick
  | 3 => .cacheTake 1
  | 4 => .cacheAck 0
  | 5 => .toDma
  | 6 => .dmaTick
  | 7 => .memTake 1
  | 8 => .memDo 0
  | 9 => .dmaOut
  | 10 => .toCpRsp
  | _ => .toDrv

theorem sysRoundRobin_at (i r : Nat) : sysRoundRobin (12 * i + r) = sysRoundRobin r := by
  unfold sysRoundRobin
  rw [Nat.mul_add_mod]

theorem sysRoundRobin_fair : SysFair sysRoundRobin := by
  constructor
  · intro i
    unfold sysRoundRobin
    split <;> rfl
  · intro i
    refine ⟨⟨12 * i + 0, by omega, ?_⟩, ⟨12 * i + 1, by omega, ?_⟩, ⟨12 * i + 2, by omega, ?_⟩,
      ⟨12 * i + 3, by omega, 1, Nat.le_refl _, ?_⟩, ⟨12 * i + 4, by omega, 0, ?_⟩, ⟨12 * i + 5, by omega, ?_⟩,
      ⟨12 * i + 6, by omega, ?_⟩, ⟨12 * i + 7, by omega, 1, Nat.le_refl _, ?_⟩, ⟨12 * i + 8, by omega, 0, ?_⟩,
      ⟨12 * i + 9, by omega, ?_⟩, ⟨12 * i + 10, by omega, ?_⟩, ⟨12 * i + 11, by omega, ?_⟩⟩ <;>
    (rw [sysRoundRobin_at]; rfl)

/-! ## states that wait for ever -/

/-- a state in which no component can tick, nothing waits in any buffer towards a neighbour except the
    driver's GPU port, and the command processor's driver port has no room: every move that feeds nothing
    new leaves it as it is -/
theorem sys_stuck_step {s : Sys} (h1 : (s.mq.step .tick).1 = s.mq)
    (h2 : s.mq.s.portOut = [] ∨ s.cp.s.capIn ≤ s.cp.s.drvIn.length) (h3 : (s.cp.step .tick).1 = s.cp)
    (h4 : s.cp.s.cacheOut = []) (h5 : s.cp.atCaches = []) (h6 : s.cp.s.dmaOut = []) (h7 : s.dma.step .tick = s.dma)
    (h8 : s.dma.s.memOut = []) (h9 : s.dma.outstanding = []) (h10 : s.dma.s.cpOut = []) (h11 : s.wire = [])
    (h12 : s.cp.s.drvOut = []) (op : SysOp) (hop : op.isInput = false) : (s.step op).1 = s := by
  cases op with
  | enq q h2d addr len salt => cases hop
  | kwrite i a v => cases hop
  | drvTick => show { s with mq := (s.mq.step .tick).1 } = s; rw [h1]
  | toCp =>
    rcases sys_toCp (s := s) with a | a
    · exact a.1
    · exfalso
      cases hp : s.mq.s.portOut with
      | nil => simp only [Sys.step, hp] at a; exact SysLt.irrefl _ a
      | cons r rest =>
        rcases h2 with b | b
        · rw [hp] at b; cases b
        · have : ¬ s.cp.s.drvIn.length < s.cp.s.capIn := by omega
          simp only [Sys.step, hp, this, if_false] at a; exact SysLt.irrefl _ a
  | cpTick => show { s with cp := (s.cp.step .tick).1 } = s; rw [h3]
  | cacheTake k =>
    have h2' : (s.cp.step (.takeCache k)).1 = s.cp := by
      rcases takeCache_prog s.cp k with a | a
      · exact a.2
      · simp only [CpEnv.step, cpMeasure, h4] at a; simp at a
    show { s with cp := (s.cp.step (.takeCache k)).1 } = s
    rw [h2']
  | cacheAck j => simp only [Sys.step, h5]
  | toDma => simp only [Sys.step, h6]
  | dmaTick => show { s with dma := s.dma.step .tick } = s; rw [h7]
  | memTake k =>
    have h2' : s.dma.step (.take k) = s.dma := by
      rcases dstep_take s.dma k with a | a
      · exact a.2
      · simp only [Env.step, dmaMeasure, Dma.meas, h8] at a; simp at a
    show { s with dma := s.dma.step (.take k) } = s
    rw [h2']
  | memDo j => simp only [Sys.step, h9]
  | dmaOut =>
    have h2' : s.dma.step .drain = s.dma := by
      rcases dstep_drain s.dma with a | a
      · exact a.2
      · simp only [Env.step, dmaMeasure, Dma.meas, h10] at a; simp at a
    show { s with dma := s.dma.step .drain, wire := s.wire ++ s.dma.s.cpOut } = s
    rw [h2', h10, List.append_nil]
  | toCpRsp => simp only [Sys.step, h11]
  | toDrv => simp only [Sys.step, h12]

theorem sysRunSched_stuck {s : Sys} (h1 : (s.mq.step .tick).1 = s.mq)
    (h2 : s.mq.s.portOut = [] ∨ s.cp.s.capIn ≤ s.cp.s.drvIn.length) (h3 : (s.cp.step .tick).1 = s.cp)
    (h4 : s.cp.s.cacheOut = []) (h5 : s.cp.atCaches = []) (h6 : s.cp.s.dmaOut = []) (h7 : s.dma.step .tick = s.dma)
    (h8 : s.dma.s.memOut = []) (h9 : s.dma.outstanding = []) (h10 : s.dma.s.cpOut = []) (h11 : s.wire = [])
    (h12 : s.cp.s.drvOut = []) {σ : Nat → SysOp} (hσ : ∀ i, (σ i).isInput = false) :
    ∀ M, sysRunSched s σ M = s := by
  intro M
  induction M with
  | zero => rfl
  | succ M ih =>
    rw [sysRunSched_succ, ih]
    exact sys_stuck_step h1 h2 h3 h4 h5 h6 h7 h8 h9 h10 h11 h12 _ (hσ M)

end C11
