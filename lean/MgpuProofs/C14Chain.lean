import MgpuProofs.C14ChainParts
import MgpuProofs.C14Truth
/-! # C14 — the invariant of the composed vector memory path

`CInv`: the unit satisfies the invariant behind `vmu_fifo`; the ROB component is a closed-system run
without control messages (`NF`); the port buffer of the unit is the tail of its send history behind
the `nextTop` requests the ROB has admitted (so the id the ROB gives a request IS the creation index
of the transaction); for every wavefront the not yet answered transactions, in creation order, are
the expansion of its ghost queue (`pendOf = expand`); the annotated events the scheduler saw are
consistent and in order. Preserved by every event of `C14.Chain.cstep` (`cstep_inv`). -/
namespace C14.Chain
open C14

/-- the transactions of wavefront `i` that the compute unit has not received the response of, in
    creation order: (instruction, last flag) -/
def pendOf (σ : CSys) (i : Nat) : List (Nat × Bool) :=
  ((σ.table.drop σ.sys.out.length).filter (fun t => t.wf = i)).map (fun t => (t.ins, t.last))

/-- the transactions a ghost queue stands for when responses return in order -/
def expand : List Nat → List Acc → List (Nat × Bool)
  | ins :: is, a :: as => List.replicate a.rest (ins, false) ++ (ins, true) :: expand is as
  | _, _ => []

theorem expand_snoc : ∀ (is : List Nat) (as : List Acc) (ins : Nat) (a : Acc), is.length = as.length →
    expand (is ++ [ins]) (as ++ [a]) = expand is as ++ (List.replicate a.rest (ins, false) ++ [(ins, true)])
  | [], [], ins, a, _ => by simp [expand]
  | [], _ :: _, _, _, h => by simp at h
  | _ :: _, [], _, _, h => by simp at h
  | i :: is, b :: as, ins, a, h => by
    simp only [List.cons_append, expand]
    rw [expand_snoc is as ins a (by simpa using h)]
    simp

theorem expand_head (x : Nat × Bool) (P : List (Nat × Bool)) : ∀ (is : List Nat) (as : List Acc),
    x :: P = expand is as →
    ∃ ins is' a as', is = ins :: is' ∧ as = a :: as' ∧ x.1 = ins ∧
      ((a.rest = 0 ∧ x.2 = true ∧ P = expand is' as') ∨
       (∃ r, a.rest = r + 1 ∧ x.2 = false ∧ P = expand (ins :: is') ({ a with rest := r } :: as')))
  | [], _, h => by simp [expand] at h
  | _ :: _, [], h => by simp [expand] at h
  | ins :: is', a :: as', h => by
    refine ⟨ins, is', a, as', rfl, rfl, ?_⟩
    simp only [expand] at h
    cases hr : a.rest with
    | zero =>
      rw [hr] at h
      simp only [List.replicate_zero, List.nil_append, List.cons.injEq] at h
      obtain ⟨h1, h2⟩ := h
      subst h1
      exact ⟨rfl, Or.inl ⟨rfl, rfl, h2⟩⟩
    | succ r =>
      rw [hr, List.replicate_succ] at h
      simp only [List.cons_append, List.cons.injEq] at h
      obtain ⟨h1, h2⟩ := h
      subst h1
      exact ⟨rfl, Or.inr ⟨r, rfl, rfl, by rw [h2]; simp [expand]⟩⟩

/-! ## only the order inside an instruction matters -/

theorem accRet_lastlast : ∀ (q : List Acc) (k : Nat) (last : Bool) (a : Acc), q[k]? = some a →
    (∀ b ∈ q, b.lastPending = true) → (last = true → a.rest = 0) →
    ∀ b ∈ accRet q k last, b.lastPending = true
  | q, 0, last, a, hk, hall, hord => accRet_inorder q last a hk hall hord
  | [], k + 1, _, _, hk, _, _ => by simp at hk
  | x :: q, k + 1, last, a, hk, hall, hord => by
    intro b hb
    simp only [accRet] at hb
    rcases List.mem_cons.1 hb with e | e
    · rw [e]; exact hall x List.mem_cons_self
    · exact accRet_lastlast q k last a (by simpa using hk) (fun y hy => hall y (List.mem_cons_of_mem _ hy)) hord b e

theorem gstep_AllLast' (c : Cfg) (gs : GState) (o : GOp) (h : AllLast gs.g) (hok : respOK gs o = true)
    (hin : lastLast gs o = true) : AllLast (gstep c gs o).g := by
  cases o with
  | plain o => exact h
  | memIssue i v n => exact gstep_AllLast c gs _ h hok rfl
  | memRet i kind k last =>
    simp only [respOK, Bool.and_eq_true, Bool.or_eq_true, beq_iff_eq] at hok
    obtain ⟨hkind, hent⟩ := hok
    simp only [lastLast, Bool.or_eq_true, Bool.not_eq_true'] at hin
    intro j
    simp only [gstep]
    by_cases hj : j = i
    · subst hj
      simp only [if_true]
      cases hq : (pathQueue (gs.g j) kind)[k]? with
      | none => rw [hq] at hent; cases hent
      | some a =>
        rw [hq] at hin
        have hord : last = true → a.rest = 0 := by
          intro hl
          rcases hin with e | e
          · rw [hl] at e; cases e
          · simpa using e
        rcases hkind with (h0 | h1) | h3
        · have hp : pathQueue (gs.g j) kind = (gs.g j).qv := by simp [pathQueue, h0]
          rw [hp] at hq
          simp only [gRet, h0, true_or, if_true]
          exact ⟨accRet_lastlast _ k last a hq (h j).1 hord, (h j).2⟩
        · have hp : pathQueue (gs.g j) kind = (gs.g j).qv := by simp [pathQueue, h1]
          rw [hp] at hq
          simp only [gRet, h1, or_true, if_true]
          exact ⟨accRet_lastlast _ k last a hq (h j).1 hord, (h j).2⟩
        · have hp : pathQueue (gs.g j) kind = (gs.g j).qs := by simp [pathQueue, h3]
          rw [hp] at hq
          have e1 : ¬ ((3 : Nat) = 0 ∨ (3 : Nat) = 1) := by decide
          simp only [gRet, h3, e1, if_false, if_true]
          exact ⟨(h j).1, accRet_lastlast _ k last a hq (h j).2 hord⟩
    · simp only [if_neg hj]; exact h j

theorem grun_AllLast' (c : Cfg) (ops : List GOp) (gs : GState) (h : AllLast gs.g)
    (hok : respOKRun c gs ops = true) (hin : lastLastRun c gs ops = true) : AllLast (grun c gs ops).g := by
  unfold grun
  induction ops generalizing gs with
  | nil => exact h
  | cons o ops ih =>
    simp only [respOKRun, Bool.and_eq_true] at hok
    simp only [lastLastRun, Bool.and_eq_true] at hin
    exact ih _ (gstep_AllLast' c gs o h hok.1 hin.1) hok.2 hin.2

theorem inOrder_lastLast (gs : GState) (o : GOp) (h : inOrder gs o = true) : lastLast gs o = true := by
  cases o with
  | plain o => rfl
  | memIssue i v n => rfl
  | memRet i kind k last =>
    simp only [inOrder, Bool.and_eq_true, beq_iff_eq] at h
    obtain ⟨hk, h2⟩ := h
    subst hk
    exact h2

/-! ## the log of annotated events -/

theorem grun_snoc (c : Cfg) (gs : GState) (l : List GOp) (o : GOp) :
    grun c gs (l ++ [o]) = gstep c (grun c gs l) o := by
  simp [grun, List.foldl_append]

theorem respOKRun_snoc (c : Cfg) : ∀ (l : List GOp) (gs : GState) (o : GOp),
    respOKRun c gs (l ++ [o]) = (respOKRun c gs l && respOK (grun c gs l) o)
  | [], gs, o => by simp [respOKRun, grun]
  | a :: l, gs, o => by
    simp only [List.cons_append, respOKRun, respOKRun_snoc c l, Bool.and_assoc]
    rfl

theorem inOrderRun_snoc (c : Cfg) : ∀ (l : List GOp) (gs : GState) (o : GOp),
    inOrderRun c gs (l ++ [o]) = (inOrderRun c gs l && inOrder (grun c gs l) o)
  | [], gs, o => by simp [inOrderRun, grun]
  | a :: l, gs, o => by
    simp only [List.cons_append, inOrderRun, inOrderRun_snoc c l, Bool.and_assoc]
    rfl

theorem log_ext {c : Cfg} {g0 g : GState} {log : List GOp} (o : GOp) (hg : g = grun c g0 log)
    (hok : respOKRun c g0 log = true) (hord : inOrderRun c g0 log = true)
    (h1 : respOK g o = true) (h2 : inOrder g o = true) :
    gstep c g o = grun c g0 (log ++ [o]) ∧ respOKRun c g0 (log ++ [o]) = true ∧
      inOrderRun c g0 (log ++ [o]) = true := by
  subst hg
  refine ⟨(grun_snoc c g0 log o).symm, ?_, ?_⟩
  · rw [respOKRun_snoc, hok, h1]; rfl
  · rw [inOrderRun_snoc, hord, h2]; rfl

/-- an event outside the vector memory path leaves the FLAT ghost queues alone -/
theorem other_qv (c : Cfg) (gs : GState) (o : GOp) (h : nonFlat o = true) (j : Nat) :
    ((gstep c gs o).g j).qv = (gs.g j).qv := by
  cases o with
  | plain o' => rfl
  | memIssue i v n =>
    simp only [nonFlat, Bool.not_eq_true'] at h
    subst h
    show (if j = i then gIssue (gs.g i) false n else gs.g j).qv = _
    split
    · next hj => subst hj; simp [gIssue]
    · rfl
  | memRet i kind k last =>
    simp only [nonFlat, beq_iff_eq] at h
    subst h
    show (if j = i then gRet (gs.g i) 3 k last else gs.g j).qv = _
    split
    · next hj => subst hj; simp [gRet]
    · rfl

/-- the in-order return of a FLAT transaction whose instruction heads the ghost queue -/
theorem ret_facts (c : Cfg) (gs : GState) (i kind : Nat) (hk : kind = 0 ∨ kind = 1) (a : Acc) (as : List Acc)
    (hq : (gs.g i).qv = a :: as) (last : Bool) (hl : a.lastPending = true)
    (hc : (a.rest = 0 ∧ last = true) ∨ (∃ r, a.rest = r + 1 ∧ last = false)) :
    respOK gs (.memRet i kind 0 last) = true ∧ inOrder gs (.memRet i kind 0 last) = true ∧
    ((gstep c gs (.memRet i kind 0 last)).g i).qv =
      (if last then as else { a with rest := a.rest - 1 } :: as) ∧
    ∀ j, j ≠ i → ((gstep c gs (.memRet i kind 0 last)).g j).qv = (gs.g j).qv := by
  have hp : pathQueue (gs.g i) kind = a :: as := by
    unfold pathQueue
    rcases hk with rfl | rfl <;> simpa using hq
  have hg : ∀ j, (gstep c gs (.memRet i kind 0 last)).g j =
      if j = i then gRet (gs.g i) kind 0 last else gs.g j := fun _ => rfl
  have hr : (gRet (gs.g i) kind 0 last).qv = accRet (a :: as) 0 last := by
    unfold gRet
    rw [if_pos hk, hq]
  refine ⟨?_, ?_, ?_, ?_⟩
  · simp only [respOK, hp, List.getElem?_cons_zero]
    rcases hc with ⟨h0, rfl⟩ | ⟨r, hr', rfl⟩
    · rcases hk with rfl | rfl <;> simp [hl]
    · rcases hk with rfl | rfl <;> simp [hr']
  · simp only [inOrder, hp, List.getElem?_cons_zero]
    rcases hc with ⟨h0, rfl⟩ | ⟨r, hr', rfl⟩
    · simp [h0]
    · simp
  · rw [hg, if_pos rfl, hr]
    rcases hc with ⟨h0, rfl⟩ | ⟨r, hr', rfl⟩
    · simp [accRet, h0]
    · simp [accRet, hr', hl]
  · intro j hj
    rw [hg, if_neg hj]

/-! ## the invariant -/

structure CInv (c : Cfg) (vc : Vmu.Cfg) (rc : C15.Cfg) (g0 : GState) (σ : CSys) : Prop where
  vmu : Vmu.vmu_GInv vc σ.vmu
  isRun : ∃ evs, σ.sys = C15.sysRun rc evs
  nf : NF σ.sys.rob σ.sys.out σ.sys.rob.nextTop
  port : σ.vmu.sent = List.range σ.sys.rob.nextTop ++ σ.vmu.out
  tlen : σ.table.length = σ.vmu.next
  adm : σ.adm = List.range σ.sys.rob.nextTop
  kinds : ∀ t ∈ σ.table, t.kind = 0 ∨ t.kind = 1
  pend : ∀ i, pendOf σ i = expand (σ.oi i) (σ.g.g i).qv
  len : ∀ i, (σ.oi i).length = (σ.g.g i).qv.length
  glog : σ.g = grun c g0 σ.log
  ok : respOKRun c g0 σ.log = true
  ord : inOrderRun c g0 σ.log = true

variable {c : Cfg} {vc : Vmu.Cfg} {rc : C15.Cfg} {g0 : GState}

/-- the ids of the responses the ROB has handed / is about to hand to the compute unit -/
theorem CInv.ids {σ : CSys} (h : CInv c vc rc g0 σ) :
    (σ.sys.out ++ σ.sys.rob.topOut).map (·.rspTo) ++ σ.sys.rob.txs.map (·.req.id) ++
      σ.sys.rob.topIn.map (·.id) = List.range σ.sys.rob.nextTop := by
  obtain ⟨evs, he⟩ := h.isRun
  have := h.nf
  rw [he] at this ⊢
  exact rob_ids rc evs _ this

theorem CInv.bounds {σ : CSys} (h : CInv c vc rc g0 σ) :
    σ.sys.out.length + σ.sys.rob.topOut.length ≤ σ.sys.rob.nextTop ∧ σ.sys.rob.nextTop ≤ σ.table.length := by
  have h1 := congrArg List.length h.ids
  have h2 := congrArg List.length h.port
  have h3 := (sent_range vc σ.vmu h.vmu).2
  simp only [List.length_append, List.length_map, List.length_range] at h1 h2
  rw [h.tlen]
  omega

theorem CInv.lastP {σ : CSys} (h : CInv c vc rc g0 σ) (hf : GFresh g0) (i : Nat) :
    ∀ a ∈ (σ.g.g i).qv, a.lastPending = true := by
  have := grun_AllLast c σ.log g0 (GFresh_inv hf).2 h.ok h.ord
  rw [← h.glog] at this
  exact (this i).1

/-- a change of the ROB side that leaves the taken responses and the admitted requests alone -/
theorem CInv.sys_keep {σ : CSys} (h : CInv c vc rc g0 σ) (e : C15.Ev)
    (ho : (C15.sysStep rc σ.sys e).out = σ.sys.out)
    (hn : NF (C15.sysStep rc σ.sys e).rob (C15.sysStep rc σ.sys e).out σ.sys.rob.nextTop) :
    CInv c vc rc g0 { σ with sys := C15.sysStep rc σ.sys e } := by
  obtain ⟨evs, he⟩ := h.isRun
  refine { vmu := h.vmu, isRun := ⟨evs ++ [e], by rw [sysRun_snoc, ← he]⟩, nf := ?_, port := ?_, tlen := h.tlen,
           adm := ?_, kinds := h.kinds, pend := ?_, len := h.len, glog := h.glog, ok := h.ok, ord := h.ord }
  · show NF (C15.sysStep rc σ.sys e).rob (C15.sysStep rc σ.sys e).out (C15.sysStep rc σ.sys e).rob.nextTop
    rw [hn.nt]; exact hn
  · show σ.vmu.sent = List.range (C15.sysStep rc σ.sys e).rob.nextTop ++ σ.vmu.out
    rw [hn.nt]; exact h.port
  · show σ.adm = List.range (C15.sysStep rc σ.sys e).rob.nextTop
    rw [hn.nt]; exact h.adm
  · intro i
    show ((σ.table.drop (C15.sysStep rc σ.sys e).out.length).filter _).map _ = _
    rw [ho]; exact h.pend i

theorem memTake_out (rc : C15.Cfg) (s : C15.Sys) : (C15.sysStep rc s .memTake).out = s.out := by
  simp only [C15.sysStep]; split <;> rfl

theorem memAnswer_out (rc : C15.Cfg) (s : C15.Sys) (j : Nat) (p : C15.Rsp) :
    (C15.sysStep rc s (.memAnswer j p)).out = s.out := by
  simp only [C15.sysStep]
  split
  · rfl
  · split <;> rfl

theorem filter_new (i j kind ins n : Nat) :
    ((newTxns i kind ins n).filter (fun t => t.wf = j)).map (fun t => (t.ins, t.last)) =
      if j = i then List.replicate n (ins, false) ++ [(ins, true)] else [] := by
  unfold newTxns
  by_cases hj : j = i
  · subst hj
    simp [List.filter_append]
  · have : ¬ i = j := fun h => hj h.symm
    simp [List.filter_append, this, hj]

theorem cstep_inv (hf : GFresh g0) (σ : CSys) (e : CEv) (h : CInv c vc rc g0 σ)
    (hs : ∀ o, e = .other o → nonFlat o = true ∧ respOK σ.g o = true ∧ inOrder σ.g o = true) :
    CInv c vc rc g0 (cstep c vc rc σ e) := by
  cases e with
  | other o =>
    obtain ⟨hnf, h1, h2⟩ := hs o rfl
    obtain ⟨l1, l2, l3⟩ := log_ext o h.glog h.ok h.ord h1 h2
    refine { vmu := h.vmu, isRun := h.isRun, nf := h.nf, port := h.port, tlen := h.tlen, adm := h.adm,
             kinds := h.kinds, pend := ?_, len := ?_, glog := l1, ok := l2, ord := l3 }
    · intro i
      show pendOf σ i = expand (σ.oi i) ((gstep c σ.g o).g i).qv
      rw [other_qv c σ.g o hnf i]; exact h.pend i
    · intro i
      show (σ.oi i).length = ((gstep c σ.g o).g i).qv.length
      rw [other_qv c σ.g o hnf i]; exact h.len i
  | flat i store n p =>
    obtain ⟨l1, l2, l3⟩ := log_ext (c := c) (.memIssue i true n) h.glog h.ok h.ord rfl rfl
    have hq : ∀ j, ((gstep c σ.g (.memIssue i true n)).g j).qv =
        if j = i then (σ.g.g i).qv ++ [⟨n, true⟩] else (σ.g.g j).qv := by
      intro j
      show (if j = i then gIssue (σ.g.g i) true n else σ.g.g j).qv = _
      split
      · simp [gIssue]
      · rfl
    have hm : σ.sys.out.length ≤ σ.table.length := by have := h.bounds; omega
    refine { vmu := Vmu.vmu_step_inv vc σ.vmu (.issue (n + 1) p) h.vmu, isRun := h.isRun, nf := h.nf,
             port := h.port, tlen := ?_, adm := h.adm, kinds := ?_, pend := ?_, len := ?_, glog := l1, ok := l2,
             ord := l3 }
    · show (σ.table ++ newTxns i (kindOf store) σ.vmu.next n).length = σ.vmu.next + (n + 1)
      simp [newTxns, h.tlen]
    · intro t ht
      show t.kind = 0 ∨ t.kind = 1
      rcases List.mem_append.1 ht with ht | ht
      · exact h.kinds t ht
      · have : t.kind = kindOf store := by
          unfold newTxns at ht
          rcases List.mem_append.1 ht with ht | ht
          · rw [(List.mem_replicate.1 ht).2]
          · rw [List.mem_singleton.1 ht]
        rw [this]; unfold kindOf; cases store <;> simp
    · intro j
      show (((σ.table ++ newTxns i (kindOf store) σ.vmu.next n).drop σ.sys.out.length).filter (fun t => t.wf = j)).map
          (fun t => (t.ins, t.last)) =
        expand (upd σ.oi i (σ.oi i ++ [σ.vmu.next]) j) ((gstep c σ.g (.memIssue i true n)).g j).qv
      rw [List.drop_append_of_le_length hm, List.filter_append, List.map_append, filter_new, hq]
      have hp := h.pend j
      unfold pendOf at hp
      rw [hp]
      unfold upd
      by_cases hj : j = i
      · subst hj
        rw [if_pos rfl, if_pos rfl, if_pos rfl, expand_snoc _ _ _ _ (h.len j)]
      · rw [if_neg hj, if_neg hj, if_neg hj, List.append_nil]
    · intro j
      show (upd σ.oi i (σ.oi i ++ [σ.vmu.next]) j).length = ((gstep c σ.g (.memIssue i true n)).g j).qv.length
      rw [hq]
      unfold upd
      by_cases hj : j = i
      · subst hj
        rw [if_pos rfl, if_pos rfl, List.length_append, List.length_append, h.len j]
        rfl
      · rw [if_neg hj, if_neg hj]; exact h.len j
  | vcyc =>
    obtain ⟨l, c1, c2, c3⟩ := cycle_app vc σ.vmu
    refine { vmu := Vmu.vmu_cycle_inv vc σ.vmu h.vmu, isRun := h.isRun, nf := h.nf, port := ?_, tlen := ?_,
             adm := h.adm, kinds := h.kinds, pend := h.pend, len := h.len, glog := h.glog, ok := h.ok, ord := h.ord }
    · show (Vmu.cycle vc σ.vmu).sent = List.range σ.sys.rob.nextTop ++ (Vmu.cycle vc σ.vmu).out
      rw [c1, c2, h.port, List.append_assoc]
    · show σ.table.length = (Vmu.cycle vc σ.vmu).next
      rw [c3]; exact h.tlen
  | conn q =>
    simp only [cstep, cstepG]
    split
    · exact h
    · rename_i e rest hout
      split
      · rename_i hroom
        have hsr := (sent_range vc σ.vmu h.vmu).1
        have hport := h.port
        rw [hout] at hport
        have he : e = σ.sys.rob.nextTop := by
          rw [hport] at hsr
          have := (range_split _ _ _ _ hsr).1
          simpa using this
        have hn := arrive_nf rc σ.sys q h.nf hroom
        obtain ⟨evs, hev⟩ := h.isRun
        refine { vmu := take_inv vc σ.vmu 1 h.vmu, isRun := ⟨evs ++ [.arrive q], by rw [sysRun_snoc, ← hev]⟩,
                 nf := ?_, port := ?_, tlen := h.tlen, adm := ?_, kinds := h.kinds, pend := h.pend, len := h.len,
                 glog := h.glog, ok := h.ok, ord := h.ord }
        · show NF (C15.sysStep rc σ.sys (.arrive q)).rob (C15.sysStep rc σ.sys (.arrive q)).out
            (C15.sysStep rc σ.sys (.arrive q)).rob.nextTop
          rw [hn.nt]; exact hn
        · show σ.vmu.sent = List.range (C15.sysStep rc σ.sys (.arrive q)).rob.nextTop ++ σ.vmu.out.drop 1
          rw [hn.nt, hport, hout, List.range_succ, he]
          simp
        · show σ.adm ++ [e] = List.range (C15.sysStep rc σ.sys (.arrive q)).rob.nextTop
          rw [hn.nt, List.range_succ, h.adm, he]
      · exact h
  | robTick => exact h.sys_keep .tick rfl (sysTick_nf rc σ.sys h.nf)
  | memTake => exact h.sys_keep .memTake (memTake_out rc σ.sys) (memTake_nf rc σ.sys h.nf)
  | memAnswer j p => exact h.sys_keep (.memAnswer j p) (memAnswer_out rc σ.sys j p) (memAnswer_nf rc σ.sys j p h.nf)
  | ret =>
    simp only [cstep, cstepG]
    split
    · exact h
    · rename_i r rest htop
      have hids := h.ids
      rw [htop, List.map_append, List.map_cons, List.append_assoc, List.append_assoc] at hids
      obtain ⟨hr, hlt⟩ := range_split _ _ _ _ hids
      rw [List.length_map] at hr hlt
      have hb := h.bounds
      have hm : σ.sys.out.length < σ.table.length := by omega
      split
      · exact h
      · rename_i t ht
        rw [hr] at ht
        have ht : σ.table[σ.sys.out.length]? = some t := by
          unfold txnOf at ht
          rw [h.adm, List.getElem?_range hlt] at ht
          simpa using ht
        have htm : t = σ.table[σ.sys.out.length] := by
          rw [List.getElem?_eq_getElem hm] at ht
          exact (Option.some.inj ht).symm
        have hdrop : σ.table.drop σ.sys.out.length = t :: σ.table.drop (σ.sys.out.length + 1) := by
          rw [htm]; exact List.drop_eq_getElem_cons hm
        have hk : t.kind = 0 ∨ t.kind = 1 := h.kinds t (by rw [htm]; exact List.getElem_mem hm)
        -- the pending transactions before / after the response is taken
        have hpi := h.pend t.wf
        unfold pendOf at hpi
        rw [hdrop, List.filter_cons, if_pos (by simp), List.map_cons] at hpi
        obtain ⟨ins, is', a, as', hoi, hqv, hins, hcase⟩ := expand_head _ _ _ _ hpi
        have hins' : t.ins = ins := hins
        have hidx : (σ.oi t.wf).idxOf t.ins = 0 := by
          rw [hoi, hins']; exact List.idxOf_cons_self
        have hlast := h.lastP hf t.wf a (by rw [hqv]; exact List.mem_cons_self)
        have hc' : (a.rest = 0 ∧ t.last = true) ∨ (∃ r, a.rest = r + 1 ∧ t.last = false) := by
          rcases hcase with ⟨x, y, _⟩ | ⟨r, x, y, _⟩
          · exact Or.inl ⟨x, y⟩
          · exact Or.inr ⟨r, x, y⟩
        have hop : retOp σ t = .memRet t.wf t.kind 0 t.last := by unfold retOp; rw [hidx]
        obtain ⟨f1, f2, f3, f4⟩ := ret_facts c σ.g t.wf t.kind hk a as' hqv t.last hlast hc'
        obtain ⟨t1, t2⟩ := takeRsp_nf rc σ.sys r rest h.nf htop
        obtain ⟨evs, hev⟩ := h.isRun
        rw [hop]
        obtain ⟨l1, l2, l3⟩ := log_ext (c := c) (.memRet t.wf t.kind 0 t.last) h.glog h.ok h.ord f1 f2
        have hpj : ∀ j, j ≠ t.wf → ((σ.table.drop (σ.sys.out.length + 1)).filter (fun u => u.wf = j)).map
            (fun u => (u.ins, u.last)) = expand (σ.oi j) (σ.g.g j).qv := by
          intro j hj
          have := h.pend j
          unfold pendOf at this
          rw [hdrop, List.filter_cons, if_neg (by simpa using fun e => hj e.symm)] at this
          exact this
        -- the new ghost queue and the new identity list of the wavefront concerned
        have hqT : ((gstep c σ.g (.memRet t.wf t.kind 0 t.last)).g t.wf).qv =
            (if t.last then as' else { a with rest := a.rest - 1 } :: as') := f3
        have hoiT : (if (((gstep c σ.g (.memRet t.wf t.kind 0 t.last)).g t.wf).qv.length < (σ.g.g t.wf).qv.length) then
              upd σ.oi t.wf ((σ.oi t.wf).eraseIdx ((σ.oi t.wf).idxOf t.ins)) else σ.oi) t.wf =
            (if t.last then is' else ins :: is') := by
          rw [hqT, hqv, hidx]
          rcases hc' with ⟨_, y⟩ | ⟨r', _, y⟩
          · have hlt : as'.length < (a :: as').length := by simp
            simp only [y, if_true, hlt, upd, hoi, List.eraseIdx_cons_zero]
          · have hlt : ¬ (({ a with rest := a.rest - 1 } : Acc) :: as').length < (a :: as').length := by simp
            simp only [y, Bool.false_eq_true, if_false, hlt, hoi]
        have hoiJ : ∀ j, j ≠ t.wf →
            (if (((gstep c σ.g (.memRet t.wf t.kind 0 t.last)).g t.wf).qv.length < (σ.g.g t.wf).qv.length) then
              upd σ.oi t.wf ((σ.oi t.wf).eraseIdx ((σ.oi t.wf).idxOf t.ins)) else σ.oi) j = σ.oi j := by
          intro j hj
          split
          · unfold upd; rw [if_neg hj]
          · rfl
        refine { vmu := h.vmu, isRun := ⟨evs ++ [.takeRsp], by rw [sysRun_snoc, ← hev]⟩, nf := ?_, port := ?_,
                 tlen := h.tlen, adm := ?_, kinds := h.kinds, pend := ?_, len := ?_, glog := l1, ok := l2, ord := l3 }
        · show NF (C15.sysStep rc σ.sys .takeRsp).rob (C15.sysStep rc σ.sys .takeRsp).out
            (C15.sysStep rc σ.sys .takeRsp).rob.nextTop
          rw [t1]
          show NF (C15.step rc σ.sys.rob .drainTop) (σ.sys.out ++ [r]) (C15.step rc σ.sys.rob .drainTop).nextTop
          rw [t2.nt]; exact t2
        · show σ.vmu.sent = List.range (C15.sysStep rc σ.sys .takeRsp).rob.nextTop ++ σ.vmu.out
          rw [t1]
          show σ.vmu.sent = List.range (C15.step rc σ.sys.rob .drainTop).nextTop ++ σ.vmu.out
          rw [t2.nt]; exact h.port
        · show σ.adm = List.range (C15.sysStep rc σ.sys .takeRsp).rob.nextTop
          rw [t1]
          show σ.adm = List.range (C15.step rc σ.sys.rob .drainTop).nextTop
          rw [t2.nt]; exact h.adm
        · intro j
          show ((σ.table.drop (C15.sysStep rc σ.sys .takeRsp).out.length).filter (fun u => u.wf = j)).map
              (fun u => (u.ins, u.last)) =
            expand ((if (((gstep c σ.g (.memRet t.wf t.kind 0 t.last)).g t.wf).qv.length < (σ.g.g t.wf).qv.length) then
              upd σ.oi t.wf ((σ.oi t.wf).eraseIdx ((σ.oi t.wf).idxOf t.ins)) else σ.oi) j)
              ((gstep c σ.g (.memRet t.wf t.kind 0 t.last)).g j).qv
          rw [t1]
          show ((σ.table.drop (σ.sys.out ++ [r]).length).filter (fun u => u.wf = j)).map
              (fun u => (u.ins, u.last)) = _
          rw [List.length_append, List.length_singleton]
          by_cases hj : j = t.wf
          · subst hj
            rw [hoiT, hqT]
            rcases hcase with ⟨x, y, z⟩ | ⟨r', x, y, z⟩
            · have y' : t.last = true := y
              simp only [y', if_true]
              exact z
            · have y' : t.last = false := y
              simp only [y', Bool.false_eq_true, if_false, x, Nat.add_sub_cancel]
              exact z
          · rw [f4 j hj, hoiJ j hj, hpj j hj]
        · intro j
          show ((if (((gstep c σ.g (.memRet t.wf t.kind 0 t.last)).g t.wf).qv.length < (σ.g.g t.wf).qv.length) then
              upd σ.oi t.wf ((σ.oi t.wf).eraseIdx ((σ.oi t.wf).idxOf t.ins)) else σ.oi) j).length =
            ((gstep c σ.g (.memRet t.wf t.kind 0 t.last)).g j).qv.length
          by_cases hj : j = t.wf
          · subst hj
            rw [hoiT, hqT]
            have hlen := h.len t.wf
            rw [hoi, hqv] at hlen
            simp only [List.length_cons] at hlen
            split
            · omega
            · simp only [List.length_cons]; omega
          · rw [f4 j hj, hoiJ j hj]; exact h.len j

theorem init_inv (hf : GFresh g0) : CInv c vc rc g0 (CSys.init vc g0) := by
  refine { vmu := Vmu.vmu_init_inv vc, isRun := ⟨[], rfl⟩, nf := ⟨rfl, rfl, rfl, rfl, rfl, rfl⟩, port := rfl,
           tlen := rfl, adm := rfl, kinds := (fun t ht => by cases ht), pend := ?_, len := ?_, glog := rfl, ok := rfl, ord := rfl }
  · intro i
    show _ = expand [] (g0.g i).qv
    rw [hf.2 i]; rfl
  · intro i
    show ([] : List Nat).length = (g0.g i).qv.length
    rw [hf.2 i]; rfl

theorem crun_inv (hf : GFresh g0) : ∀ (evs : List CEv) (σ : CSys), CInv c vc rc g0 σ →
    sideOK c vc rc σ evs = true → CInv c vc rc g0 (crun c vc rc σ evs)
  | [], _, h, _ => h
  | e :: es, σ, h, hs => by
    simp only [sideOK, Bool.and_eq_true] at hs
    refine crun_inv hf es _ (cstep_inv hf σ e h ?_) hs.2
    intro o ho
    subst ho
    simpa [Bool.and_eq_true, and_assoc] using hs.1

end C14.Chain
