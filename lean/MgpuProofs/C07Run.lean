import MgpuProofs.C07Map
set_option linter.unusedVariables false
set_option linter.unusedSimpArgs false
/-! # C07 helper lemmas: run-level refinement (arbitrary interleaved access sequences of several
wavefronts), congruence of the abstract machine under agreement on owned cells, last write per cell -/
namespace C07
open Gen

/-- every access of the sequence is made by a resident wavefront and lies in its supported subset -/
def GOk (t : TimingRF) (ops : List (Nat × Op)) : Prop :=
  ∀ p ∈ ops, p.1 < t.wfs.size ∧ p.2.Ok (t.wf p.1).ns (t.wf p.1).nv

theorem GOk.layout {t t' : TimingRF} {ops : List (Nat × Op)} (h : SameLayout t t') (hok : GOk t ops) : GOk t' ops := by
  intro p hp
  obtain ⟨a, b⟩ := hok p hp
  obtain ⟨_, _, _, l4, l5⟩ := h.lay p.1
  exact ⟨by rw [h.nwf]; exact a, by rw [l4, l5]; exact b⟩

theorem timing_exec_refines (ops : List (Nat × Op)) : ∀ (t : TimingRF), Alloc t → GOk t ops →
    (t.exec ops).2 = ((absG t).exec ops).2 ∧ absG (t.exec ops).1 = ((absG t).exec ops).1 ∧
    SameLayout t (t.exec ops).1 ∧ Alloc (t.exec ops).1 := by
  induction ops with
  | nil => intro t hA _; exact ⟨rfl, rfl, SameLayout.refl t, hA⟩
  | cons p ops ih =>
    intro t hA hok
    obtain ⟨hwi, ho⟩ := hok p (by simp)
    obtain ⟨s1, s2, s3⟩ := tim_step_refines t p.1 p.2 hA hwi ho
    have hok' : GOk (t.step p.1 p.2).1 ops := GOk.layout s3 (fun q hq => hok q (by simp [hq]))
    obtain ⟨i1, i2, i3, i4⟩ := ih (t.step p.1 p.2).1 (s3.alloc hA) hok'
    simp only [TimingRF.exec, GMap.exec]
    rw [← s2]
    exact ⟨by rw [s1, i1], i2, s3.trans i3, i4⟩

theorem absEG_step (es : EmuG) (wi : Nat) (o : Op) (hs : ∀ j, (es j).Sized) (ho : o.Ok 102 256) :
    (es.step wi o).2 = ((absEG es).step wi o).2 ∧ absEG (es.step wi o).1 = ((absEG es).step wi o).1 ∧
    ∀ j, ((es.step wi o).1 j).Sized := by
  obtain ⟨s1, s2, s3⟩ := emu_step_refines (es wi) o (hs wi) ho
  refine ⟨s1, ?_, fun j => ?_⟩
  · funext j
    by_cases hj : j = wi
    · subst hj; simp only [absEG, EmuG.step, GMap.step, if_true]; exact s2
    · simp only [absEG, EmuG.step, GMap.step, hj, if_false]
  · by_cases hj : j = wi
    · subst hj; simp only [EmuG.step, if_true]; exact s3
    · simp only [EmuG.step, hj, if_false]; exact hs j

theorem emu_exec_refines (ops : List (Nat × Op)) : ∀ (es : EmuG), (∀ j, (es j).Sized) →
    (∀ p ∈ ops, p.2.Ok 102 256) →
    (es.exec ops).2 = ((absEG es).exec ops).2 ∧ absEG (es.exec ops).1 = ((absEG es).exec ops).1 ∧
    ∀ j, ((es.exec ops).1 j).Sized := by
  induction ops with
  | nil => intro es hs _; exact ⟨rfl, rfl, hs⟩
  | cons p ops ih =>
    intro es hs hok
    obtain ⟨s1, s2, s3⟩ := absEG_step es p.1 p.2 hs (hok p (by simp))
    obtain ⟨i1, i2, i3⟩ := ih (es.step p.1 p.2).1 s3 (fun q hq => hok q (by simp [hq]))
    simp only [EmuG.exec, GMap.exec]
    rw [← s2]
    exact ⟨by rw [s1, i1], i2, i3⟩

/-! ## agreement on owned cells -/

/-- the cells a wavefront with `ns` SGPRs and `nv` VGPRs owns -/
def Owned (ns nv : Nat) : CellId → Prop
  | .s i => i < ns
  | .v l i => l < 64 ∧ i < nv
  | _ => True

theorem supported_cells_owned (a : Acc) (ns nv : Nat) (ha : a.Supported ns nv) : ∀ id ∈ a.cells, Owned ns nv id := by
  obtain ⟨k, rc, lane⟩ := a
  intro id hid
  cases k with
  | s i =>
    obtain ⟨_, hb⟩ := ha
    simp only [Acc.cells, List.mem_map, List.mem_range] at hid hb
    obtain ⟨j, hj, rfl⟩ := hid
    show i + j < ns
    omega
  | v i =>
    obtain ⟨_, hb, hl⟩ := ha
    simp only [Acc.cells, List.mem_map, List.mem_range] at hid hb hl
    obtain ⟨j, hj, rfl⟩ := hid
    exact ⟨hl, by omega⟩
  | vcclo => simp only [Acc.cells] at hid; split at hid <;> simp at hid <;> rcases hid with rfl | rfl <;> trivial
  | execlo => simp only [Acc.cells] at hid; split at hid <;> simp at hid <;> rcases hid with rfl | rfl <;> trivial
  | vcc => simp [Acc.cells] at hid; rcases hid with rfl | rfl <;> trivial
  | exec => simp [Acc.cells] at hid; rcases hid with rfl | rfl <;> trivial
  | _ => simp [Acc.cells] at hid; subst hid; trivial

def MapAgree (ns nv : Nat) (m m' : CMap) : Prop := ∀ id, Owned ns nv id → m id = m' id

theorem readBytes_mapAgree (ns nv : Nat) (m m' : CMap) (a : Acc) (h : MapAgree ns nv m m')
    (ha : a.Supported ns nv) : m.readBytes a = m'.readBytes a := by
  unfold CMap.readBytes
  exact flatMap_congr' (fun id hid => by rw [h id (supported_cells_owned a ns nv ha id hid)])

theorem writeBytes_mapAgree (ns nv : Nat) (m m' : CMap) (a : Acc) (d : List UInt8) (h : MapAgree ns nv m m') :
    MapAgree ns nv (m.writeBytes a d) (m'.writeBytes a d) := by
  intro id hid
  unfold CMap.writeBytes
  split
  · rfl
  · exact h id hid

theorem cmap_step_agree (ns nv : Nat) (m m' : CMap) (o : Op) (h : MapAgree ns nv m m') (ho : o.Ok ns nv) :
    (m.step o).2 = (m'.step o).2 ∧ MapAgree ns nv (m.step o).1 (m'.step o).1 := by
  cases o with
  | rb a n => exact ⟨by simp only [CMap.step, readBytes_mapAgree ns nv m m' a h ho], h⟩
  | r a => exact ⟨by simp only [CMap.step, readBytes_mapAgree ns nv m m' a h ho], h⟩
  | wb a d => exact ⟨rfl, writeBytes_mapAgree ns nv m m' a d h⟩
  | w a v => exact ⟨rfl, writeBytes_mapAgree ns nv m m' a _ h⟩

/-- two abstract states agree on the cells each of the first `n` wavefronts owns
    (`lay j` = its SGPR / VGPR counts) -/
def GAgree (n : Nat) (lay : Nat → Nat × Nat) (g g' : GMap) : Prop :=
  ∀ j, j < n → MapAgree (lay j).1 (lay j).2 (g j) (g' j)

theorem gmap_exec_agree (n : Nat) (lay : Nat → Nat × Nat) (ops : List (Nat × Op)) : ∀ (g g' : GMap),
    GAgree n lay g g' → (∀ p ∈ ops, p.1 < n ∧ p.2.Ok (lay p.1).1 (lay p.1).2) →
    (g.exec ops).2 = (g'.exec ops).2 ∧ GAgree n lay (g.exec ops).1 (g'.exec ops).1 := by
  induction ops with
  | nil => intro g g' h _; exact ⟨rfl, h⟩
  | cons p ops ih =>
    intro g g' h hok
    obtain ⟨hp, ho⟩ := hok p (by simp)
    obtain ⟨c1, c2⟩ := cmap_step_agree _ _ (g p.1) (g' p.1) p.2 (h p.1 hp) ho
    have h' : GAgree n lay (g.step p.1 p.2).1 (g'.step p.1 p.2).1 := by
      intro j hj
      by_cases e : j = p.1
      · subst e; simp only [GMap.step, if_true]; exact c2
      · simp only [GMap.step, e, if_false]; exact h j hj
    obtain ⟨i1, i2⟩ := ih _ _ h' (fun q hq => hok q (by simp [hq]))
    simp only [GMap.exec]
    have c1' : (g.step p.1 p.2).2 = (g'.step p.1 p.2).2 := c1
    exact ⟨by rw [c1', i1], i2⟩

theorem Agree.mapAgree {c c' : Cells} {ns nv : Nat} (h : Agree c c' ns nv) : MapAgree ns nv c.toMap c'.toMap := by
  obtain ⟨h1, h2, h3, h4, h5, h6⟩ := h
  intro id hid
  cases id with
  | s i => exact h1 i hid
  | v l i => exact h2 l i hid.1 hid.2
  | _ => simp [Cells.toMap, Cells.cell, h3, h4, h5, h6]

theorem Op.Ok.mono {o : Op} {ns nv ns' nv' : Nat} (h1 : ns ≤ ns') (h2 : nv ≤ nv') (h : o.Ok ns nv) : o.Ok ns' nv' := by
  cases o with
  | rb a n => exact supported_mono a _ _ _ _ h1 h2 h
  | r a => exact supported_mono a _ _ _ _ h1 h2 h
  | wb a d => exact ⟨supported_mono a _ _ _ _ h1 h2 h.1, h.2⟩
  | w a v => exact ⟨supported_mono a _ _ _ _ h1 h2 h.1, h.2⟩

/-! ## the last write per cell -/

/-- what an access writes into cell `id`, if anything -/
def opWrite (o : Op) (id : CellId) : Option Nat :=
  match o with
  | .wb a d => if id ∈ a.cells then some (chunk a d id) else none
  | .w a v => if id ∈ a.cells then some (chunk a ((toLE 8 v).take a.width) id) else none
  | _ => none

/-- the value most recently written into cell `id` of wavefront `wi` along the sequence -/
def lastWrite (wi : Nat) (id : CellId) : List (Nat × Op) → Option Nat
  | [] => none
  | p :: ops =>
    match lastWrite wi id ops with
    | some v => some v
    | none => if p.1 = wi then opWrite p.2 id else none

theorem cmap_step_cell (m : CMap) (o : Op) (id : CellId) : (m.step o).1 id = (opWrite o id).getD (m id) := by
  cases o with
  | rb a n => rfl
  | r a => rfl
  | wb a d => simp only [CMap.step, CMap.writeBytes, opWrite]; split <;> rfl
  | w a v => simp only [CMap.step, CMap.writeBytes, opWrite]; split <;> rfl

theorem gmap_last_write (wi : Nat) (id : CellId) (ops : List (Nat × Op)) : ∀ (g : GMap),
    (g.exec ops).1 wi id = (lastWrite wi id ops).getD (g wi id) := by
  induction ops with
  | nil => intro g; rfl
  | cons p ops ih =>
    intro g
    simp only [GMap.exec, lastWrite]
    rw [ih]
    cases lastWrite wi id ops with
    | some v => rfl
    | none =>
      simp only [Option.getD_none, GMap.step]
      by_cases e : p.1 = wi
      · subst e; simp only [if_true]; exact cmap_step_cell _ _ _
      · have e' : ¬ wi = p.1 := fun h => e h.symm
        simp only [e, e', if_false, Option.getD_none]

/-! ## small facts used by the property file -/

/-- the three co-resident wavefronts of `t0` satisfy the allocation invariant -/
theorem t0_alloc : Alloc t0 := by
  have hf : ∀ i, i < 3 → Fits t0 (t0.wf i) := by
    intro i hi
    have : i = 0 ∨ i = 1 ∨ i = 2 := by omega
    rcases this with rfl | rfl | rfl <;>
      exact ⟨by simp [t0, TimingRF.wf], by simp [t0, TimingRF.wf], by simp [t0, TimingRF.wf],
        by simp [t0, TimingRF.wf, TimingRF.vfileOf], by simp [t0, TimingRF.wf]⟩
  have hsz : t0.wfs.size = 3 := rfl
  refine ⟨fun i hi => hf i (by rw [hsz] at hi; exact hi), fun i j hi hj hne => ?_⟩
  rw [hsz] at hi hj
  apply RegionsDisjoint.windows _ (hf i hi).hrow (hf j hj).hrow
  have hi' : i = 0 ∨ i = 1 ∨ i = 2 := by omega
  have hj' : j = 0 ∨ j = 1 ∨ j = 2 := by omega
  rcases hi' with rfl | rfl | rfl <;> rcases hj' with rfl | rfl | rfl <;>
    first | exact absurd rfl hne | simp [RegionsDisjoint, t0, TimingRF.wf]

theorem EmuG.exec_single (wi : Nat) (ops : List Op) : ∀ es : EmuG,
    (es.exec (ops.map fun o => (wi, o))).2 = (es wi).run ops := by
  induction ops with
  | nil => intro es; rfl
  | cons o ops ih =>
    intro es
    simp only [List.map_cons, EmuG.exec, EmuRF.run]
    rw [ih]
    simp [EmuG.step]

theorem TimingRF.exec_single (wi : Nat) (ops : List Op) : ∀ t : TimingRF,
    (t.exec (ops.map fun o => (wi, o))).2 = t.run wi ops := by
  induction ops with
  | nil => intro t; rfl
  | cons o ops ih =>
    intro t
    simp only [List.map_cons, TimingRF.exec, TimingRF.run]
    rw [ih]

end C07
