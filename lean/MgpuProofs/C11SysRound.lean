import MgpuProofs.C11SysTx
/-! # C11 helper: what the memory holds after a history; growth of the ghost lists along a run -/
namespace C11

theorem SMem.get_cons (m : SMem) (a v b : Nat) : SMem.get ((a, v) :: m) b = if a = b then v else m.get b := by
  unfold SMem.get
  by_cases h : a = b
  · subst h; simp [List.lookup]
  · have : (b == a) = false := by simp; exact fun e => h e.symm
    simp [List.lookup, this, h]

theorem SMem.write_get : ∀ (bs : List Nat) (m : SMem) (a b : Nat),
    (m.write a bs).get b = if a ≤ b ∧ b < a + bs.length then bs.getD (b - a) 0 else m.get b
  | [], m, a, b => by
    simp only [SMem.write, List.length_nil, Nat.add_zero]
    rw [if_neg (by omega)]
  | x :: xs, m, a, b => by
    rw [SMem.write, SMem.write_get xs ((a, x) :: m) (a + 1) b, SMem.get_cons]
    by_cases h1 : a + 1 ≤ b ∧ b < a + 1 + xs.length
    · rw [if_pos h1, if_pos (by simp; omega)]
      have : b - a = (b - (a + 1)) + 1 := by omega
      rw [this]; simp
    · rw [if_neg h1]
      by_cases h2 : a = b
      · subst h2; simp
      · rw [if_neg h2, if_neg (by simp; omega)]

theorem SMem.read_getElem? (m : SMem) (a n j : Nat) (x : Nat) (h : (m.read a n)[j]? = some x) :
    j < n ∧ x = m.get (a + j) := by
  unfold SMem.read at h
  rw [List.getElem?_map] at h
  by_cases hj : j < n
  · rw [List.getElem?_range hj] at h
    simp only [Option.map_some, Option.some.injEq] at h
    exact ⟨hj, h.symm⟩
  · rw [List.getElem?_eq_none (by simp; omega)] at h; cases h

/-- the value an event stores at address `a`, if it writes there -/
def MemEv.writesAt (ev : MemEv) (a : Nat) : Option Nat :=
  match ev with
  | .tx t => if t.write = true ∧ t.addr ≤ a ∧ a < t.addr + t.bytes.length then some (t.bytes.getD (a - t.addr) 0) else none
  | .wb _ a' v => if a' = a then some v else none

theorem MemEv.apply_get (m : SMem) (ev : MemEv) (a : Nat) :
    (MemEv.apply m ev).get a = (ev.writesAt a).getD (m.get a) := by
  cases ev with
  | tx t =>
    simp only [MemEv.apply, MemEv.writesAt]
    by_cases hw : t.write = true
    · rw [if_pos hw, SMem.write_get]
      by_cases h : t.addr ≤ a ∧ a < t.addr + t.bytes.length
      · rw [if_pos h, if_pos ⟨hw, h⟩]; rfl
      · rw [if_neg h, if_neg (fun x => h x.2)]; rfl
    · rw [if_neg hw, if_neg (fun x => hw x.1)]; rfl
  | wb i a' v =>
    simp only [MemEv.apply, MemEv.writesAt, SMem.get_cons]
    by_cases h : a' = a <;> simp [h]

theorem foldl_apply_get_of_all (a v : Nat) : ∀ (h : List MemEv) (m : SMem),
    (∀ ev ∈ h, ∀ x, ev.writesAt a = some x → x = v) →
    ((∃ ev ∈ h, (ev.writesAt a).isSome = true) ∨ m.get a = v) → (h.foldl MemEv.apply m).get a = v
  | [], m, _, hex => by
    rcases hex with ⟨ev, hev, _⟩ | hm
    · cases hev
    · exact hm
  | ev :: h, m, hall, hex => by
    rw [List.foldl_cons]
    apply foldl_apply_get_of_all a v h _ (fun e he => hall e (List.mem_cons_of_mem _ he))
    by_cases htail : ∃ e ∈ h, (e.writesAt a).isSome = true
    · exact .inl htail
    · right
      rw [MemEv.apply_get]
      cases hw : ev.writesAt a with
      | some x => simp only [Option.getD_some]; exact hall ev (List.mem_cons_self ..) x hw
      | none =>
        simp only [Option.getD_none]
        rcases hex with ⟨e, he, hs⟩ | hm
        · rcases List.mem_cons.1 he with rfl | he
          · rw [hw] at hs; cases hs
          · exact absurd ⟨e, he, hs⟩ htail
        · exact hm

/-- if every event of `h` that writes `a` writes `v` there, and some event does, the memory holds `v` -/
theorem histMem_get_of_all (a v : Nat) (h : List MemEv) (hall : ∀ ev ∈ h, ∀ x, ev.writesAt a = some x → x = v)
    (hex : ∃ ev ∈ h, (ev.writesAt a).isSome = true) : (histMem h).get a = v :=
  foldl_apply_get_of_all a v h [] hall (.inl hex)

/-! ## growth along a run -/

structure Sys.Grows (s s' : Sys) : Prop where
  hist : ∃ l, s'.hist = s.hist ++ l
  cmds : ∃ l, s'.cmds = s.cmds ++ l
  dmaSeen : ∃ l, s'.cp.dmaSeen = s.cp.dmaSeen ++ l
  seen : ∃ l, s'.mq.seen = s.mq.seen ++ l

theorem Sys.Grows.refl (s : Sys) : s.Grows s :=
  ⟨⟨[], (List.append_nil _).symm⟩, ⟨[], (List.append_nil _).symm⟩, ⟨[], (List.append_nil _).symm⟩,
   ⟨[], (List.append_nil _).symm⟩⟩

theorem Sys.Grows.trans {a b c : Sys} (h1 : a.Grows b) (h2 : b.Grows c) : a.Grows c := by
  obtain ⟨⟨l1, e1⟩, ⟨l2, e2⟩, ⟨l3, e3⟩, ⟨l4, e4⟩⟩ := h1
  obtain ⟨⟨m1, f1⟩, ⟨m2, f2⟩, ⟨m3, f3⟩, ⟨m4, f4⟩⟩ := h2
  exact ⟨⟨l1 ++ m1, by rw [f1, e1, List.append_assoc]⟩, ⟨l2 ++ m2, by rw [f2, e2, List.append_assoc]⟩,
    ⟨l3 ++ m3, by rw [f3, e3, List.append_assoc]⟩, ⟨l4 ++ m4, by rw [f4, e4, List.append_assoc]⟩⟩

theorem Sys.step_grows (s : Sys) (op : SysOp) : s.Grows (s.step op).1 := by
  refine ⟨s.step_hist_grows op, (s.step_cmds_host op).1, ?_, ?_⟩
  · obtain ⟨l, hl⟩ := s.step_cp op; rw [hl]; exact CpEnv.run_dmaSeen l s.cp
  · obtain ⟨l, hl⟩ := s.step_mq op; rw [hl]; exact MqEnv.run_seen l s.mq

theorem Sys.run_grows : ∀ (ops : List SysOp) (s : Sys), s.Grows (s.run ops)
  | [], s => Sys.Grows.refl s
  | op :: rest, s => (s.step_grows op).trans (Sys.run_grows rest _)

theorem Sys.run_append : ∀ (a b : List SysOp) (s : Sys), s.run (a ++ b) = (s.run a).run b
  | [], _, _ => rfl
  | _ :: a, b, _ => Sys.run_append a b _

theorem Sys.Grows.reqOfDma {s s' : Sys} (h : s.Grows s') {d : Nat} {rq : MqReq} (hr : s.reqOfDma d = some rq) :
    s'.reqOfDma d = some rq := Sys.reqOfDma_mono h.dmaSeen h.seen hr

theorem Sys.Grows.pieceOf {s s' : Sys} (h : s.Grows s') {rq : MqReq} {p : Piece} (hp : s.pieceOf rq = some p) :
    s'.pieceOf rq = some p := by
  obtain ⟨l, hl⟩ := h.cmds
  exact Sys.pieceOf_mono hl hp

theorem Sys.Grows.cmdOf {s s' : Sys} (h : s.Grows s') {q seq : Nat} {c : SysCmd} (hc : s.cmdOf q seq = some c) :
    s'.cmdOf q seq = some c := by
  obtain ⟨l, hl⟩ := h.cmds
  exact Sys.cmdOf_mono hl hc

end C11
