import MgpuProofs.C12_Full
/-! Conservation of requests for C12.W.Full: every request of a running head command is in exactly
    one place (delay line, `requestsToSend`, the port's outgoing buffer, the GPU side, or — as its
    answer — the port's incoming buffer), `left` counts them, and a queue that is not running has
    none anywhere. Consequences: answers are always solicited, a running queue always waits for
    something that exists, and a driver that sleeps with everything answered has drained its queues. -/
namespace C12
namespace W
namespace Full

/-- requests in `l` owned by the head of queue `i` -/
def ownedBy (i : Nat) (l : List GReq) : Nat := l.countP (fun r => r.owner == some i)
/-- answers in `l` to requests of the head of queue `i` -/
def rspFor (i : Nat) (l : List GMsg) : Nat := l.countP (fun m => m.owner == some i)

/-- everything in flight for queue `i`: core `c`, GPU side `ext` -/
def inflight (c : C) (ext : List GReq) (i : Nat) : Nat :=
  ownedBy i c.d.awaiting + ownedBy i c.d.toSend + ownedBy i c.outb + ownedBy i ext + rspFor i c.inb

def QOK (c : C) (ext : List GReq) (i : Nat) (q : Q) : Prop :=
  (q.running = true → q.left = inflight c ext i ∧ 0 < q.left ∧ q.cmds ≠ []) ∧
  (q.running = false → inflight c ext i = 0)

/-- conservation; nothing in flight for queues that do not exist; the delay line never holds
    requests without counting; every queued command has a handler -/
def CInv (c : C) (ext : List GReq) : Prop :=
  (∀ i q, c.d.qs[i]? = some q → QOK c ext i q) ∧
  (∀ i, c.d.qs.length ≤ i → inflight c ext i = 0) ∧
  (c.d.awaiting ≠ [] → c.d.cyc ≠ none) ∧
  (∀ q ∈ c.d.qs, ∀ x ∈ q.cmds, x.handled = true)

/-! ### counting -/

theorem ownedBy_nil (i : Nat) : ownedBy i [] = 0 := rfl
theorem rspFor_nil (i : Nat) : rspFor i [] = 0 := rfl

theorem ownedBy_append (i : Nat) (l1 l2 : List GReq) : ownedBy i (l1 ++ l2) = ownedBy i l1 + ownedBy i l2 := by
  unfold ownedBy; exact List.countP_append

theorem rspFor_append (i : Nat) (l1 l2 : List GMsg) : rspFor i (l1 ++ l2) = rspFor i l1 + rspFor i l2 := by
  unfold rspFor; exact List.countP_append

theorem ownedBy_cons (i : Nat) (x : GReq) (l : List GReq) :
    ownedBy i (x :: l) = ownedBy i l + (if x.owner = some i then 1 else 0) := by
  unfold ownedBy; simp only [List.countP_cons, beq_iff_eq]

theorem rspFor_cons (i : Nat) (x : GMsg) (l : List GMsg) :
    rspFor i (x :: l) = rspFor i l + (if x.owner = some i then 1 else 0) := by
  unfold rspFor; simp only [List.countP_cons, beq_iff_eq]

theorem ownedBy_replicate (i n : Nat) (x : GReq) :
    ownedBy i (List.replicate n x) = if x.owner = some i then n else 0 := by
  unfold ownedBy; simp only [List.countP_replicate, beq_iff_eq]

theorem ownedBy_replicate_none (i n : Nat) (x : GReq) (h : x.owner = none) : ownedBy i (List.replicate n x) = 0 := by
  rw [ownedBy_replicate, h]; simp

theorem ownedBy_eraseIdx (i : Nat) : ∀ (l : List GReq) (j : Nat) (x : GReq), l[j]? = some x →
    ownedBy i (l.eraseIdx j) + (if x.owner = some i then 1 else 0) = ownedBy i l
  | [], j, x, h => by simp at h
  | y :: l, 0, x, h => by
    simp only [List.getElem?_cons_zero, Option.some.injEq] at h
    subst h
    simp only [List.eraseIdx_cons_zero, ownedBy_cons]
  | y :: l, j + 1, x, h => by
    simp only [List.getElem?_cons_succ] at h
    have := ownedBy_eraseIdx i l j x h
    simp only [List.eraseIdx_cons_succ, ownedBy_cons]
    omega

theorem answer_owner (x : GReq) : x.answer.owner = x.owner := by cases x <;> rfl

/-! ### `updAt` -/

theorem updAt_length (f : Q → Q) : ∀ (i : Nat) (qs : List Q), (updAt f i qs).length = qs.length
  | _, [] => by simp [updAt]
  | 0, q :: qs => by simp [updAt]
  | i + 1, q :: qs => by simp [updAt, updAt_length f i qs]

theorem updAt_getElem? (f : Q → Q) : ∀ (i : Nat) (qs : List Q) (j : Nat),
    (updAt f i qs)[j]? = if j = i then (qs[j]?).map f else qs[j]?
  | _, [], j => by simp [updAt]
  | 0, q :: qs, 0 => by simp [updAt]
  | 0, q :: qs, j + 1 => by simp [updAt]
  | i + 1, q :: qs, 0 => by simp [updAt]
  | i + 1, q :: qs, j + 1 => by simp [updAt, updAt_getElem? f i qs j]

theorem updAt_mem (f : Q → Q) : ∀ (i : Nat) (qs : List Q) (q' : Q), q' ∈ updAt f i qs →
    q' ∈ qs ∨ ∃ q0 ∈ qs, q' = f q0
  | _, [], q', h => by simp [updAt] at h
  | 0, q :: qs, q', h => by
    simp only [updAt, List.mem_cons] at h
    rcases h with rfl | h
    · exact Or.inr ⟨q, by simp, rfl⟩
    · exact Or.inl (by simp [h])
  | i + 1, q :: qs, q', h => by
    simp only [updAt, List.mem_cons] at h
    rcases h with rfl | h
    · exact Or.inl (by simp)
    · rcases updAt_mem f i qs q' h with h | ⟨q0, h0, rfl⟩
      · exact Or.inl (by simp [h])
      · exact Or.inr ⟨q0, by simp [h0], rfl⟩

/-! ### frame: nothing about the queues changes and every request stays somewhere -/

theorem cinv_frame {c c' : C} {ext ext' : List GReq} (h : CInv c ext) (hq : c'.d.qs = c.d.qs)
    (hin : ∀ i, inflight c' ext' i = inflight c ext i)
    (h3 : c'.d.awaiting ≠ [] → c'.d.cyc ≠ none) : CInv c' ext' := by
  obtain ⟨h1, h2, _, h4⟩ := h
  refine ⟨?_, ?_, h3, ?_⟩
  · intro i q hi
    rw [hq] at hi
    have := h1 i q hi
    unfold QOK at this ⊢
    rw [hin i]; exact this
  · intro i hi; rw [hq] at hi; rw [hin i]; exact h2 i hi
  · rw [hq]; exact h4

/-! ### an answer is taken -/

theorem retQ_cmds_sub (q0 : Q) : ∀ x ∈ (retQ q0).cmds, x ∈ q0.cmds := by
  intro x hx
  unfold retQ at hx
  split at hx
  · split at hx
    · exact List.mem_of_mem_tail hx
    · exact hx
  · exact hx

theorem retQ_ok {q0 : Q} {n n' : Nat}
    (hok : (q0.running = true → q0.left = n ∧ 0 < q0.left ∧ q0.cmds ≠ []) ∧ (q0.running = false → n = 0))
    (hf : n = n' + 1) :
    ((retQ q0).running = true → (retQ q0).left = n' ∧ 0 < (retQ q0).left ∧ (retQ q0).cmds ≠ []) ∧
    ((retQ q0).running = false → n' = 0) := by
  cases hr : q0.running with
  | false => have := hok.2 hr; omega
  | true =>
    obtain ⟨hl, hp, hc⟩ := hok.1 hr
    unfold retQ
    rw [hr]
    simp only [if_true]
    by_cases hle : q0.left ≤ 1
    · rw [if_pos hle]
      refine ⟨fun h => (by simp at h), fun _ => (by omega)⟩
    · rw [if_neg hle]
      refine ⟨fun _ => ⟨by show q0.left - 1 = n'; omega, by show 0 < q0.left - 1; omega, hc⟩, fun h => ?_⟩
      simp at h

theorem cinv_ret_core {c c' : C} {ext : List GReq} {q : Nat} (h : CInv c ext)
    (hq : c'.d.qs = updAt retQ q c.d.qs)
    (hfl : ∀ i, inflight c ext i = inflight c' ext i + (if i = q then 1 else 0))
    (h3' : c'.d.awaiting ≠ [] → c'.d.cyc ≠ none) : CInv c' ext := by
  obtain ⟨h1, h2, _, h4⟩ := h
  refine ⟨?_, ?_, h3', ?_⟩
  · intro i q' hi
    rw [hq, updAt_getElem?] at hi
    by_cases hiq : i = q
    · rw [if_pos hiq] at hi
      cases hq0 : c.d.qs[i]? with
      | none => rw [hq0] at hi; simp at hi
      | some q0 =>
        rw [hq0] at hi
        simp only [Option.map_some, Option.some.injEq] at hi
        subst hi
        have hok := h1 i q0 hq0
        have hf := hfl i
        rw [if_pos hiq] at hf
        exact retQ_ok hok hf
    · rw [if_neg hiq] at hi
      have hok := h1 i q' hi
      have hf := hfl i
      rw [if_neg hiq, Nat.add_zero] at hf
      unfold QOK at hok ⊢
      rw [← hf]; exact hok
  · intro i hi
    rw [hq, updAt_length] at hi
    have := h2 i hi
    have hf := hfl i
    omega
  · intro q' hq' x hx
    rw [hq] at hq'
    rcases updAt_mem retQ q c.d.qs q' hq' with hm | ⟨q0, h0, rfl⟩
    · exact h4 q' hm x hx
    · exact h4 q0 h0 x (retQ_cmds_sub q0 x hx)

theorem cinv_ret {c : C} {ext : List GReq} {m : GMsg} {rest : List GMsg} {q : Nat}
    (hin : c.inb = m :: rest) (hm : m.owner = some q) (h : CInv c ext) :
    CInv { c with inb := rest, d := { c.d with qs := updAt retQ q c.d.qs } } ext := by
  refine cinv_ret_core h rfl ?_ h.2.2.1
  intro i
  simp only [inflight, hin, rspFor_cons, hm, Option.some.injEq]
  by_cases hiq : i = q
  · subst hiq; simp; omega
  · have : ¬ q = i := fun h => hiq h.symm
    simp [hiq, this]

/-! ### the stages that do not touch the queues -/

theorem cinv_init (cfg : Cfg) : CInv (init cfg).core (init cfg).ext := by
  have hfl : ∀ i, inflight (init cfg).core (init cfg).ext i = 0 := fun _ => rfl
  refine ⟨?_, fun i _ => hfl i, ?_, ?_⟩
  · intro i q hi
    have hq : q ∈ (init cfg).core.d.qs := List.mem_of_getElem? hi
    simp only [init, initD, List.mem_map] at hq
    obtain ⟨c, _, rfl⟩ := hq
    exact ⟨fun h => (by cases h), fun _ => hfl i⟩
  · intro ha; exact absurd rfl ha
  · intro q hq x hx
    simp only [init, initD, List.mem_map] at hq
    obtain ⟨c, _, rfl⟩ := hq
    cases hx

theorem sendToGPUs_cinv (k : Caps) (c : C) (ext : List GReq) (h : CInv c ext) : CInv (sendToGPUs k c).1 ext := by
  unfold sendToGPUs
  split
  · exact h
  · rename_i x rest hts
    split
    · refine cinv_frame h rfl ?_ h.2.2.1
      intro i
      simp only [inflight, hts, ownedBy_append, ownedBy_cons, ownedBy_nil]
      omega
    · exact h

theorem sendToMMU_cinv (k : Caps) (c : C) (ext : List GReq) (h : CInv c ext) : CInv (sendToMMU k c).1 ext := by
  unfold sendToMMU
  split
  · split
    · exact cinv_frame h rfl (fun _ => rfl) h.2.2.1
    · exact h
  · exact h

theorem sendMig_cinv (k : Caps) (c : C) (ext : List GReq) (h : CInv c ext) : CInv (sendMigrationReqToCP k c).1 ext := by
  unfold sendMigrationReqToCP
  split
  · exact h
  · split
    · exact h
    · split
      · refine cinv_frame h rfl ?_ h.2.2.1
        intro i
        simp [inflight, ownedBy_append, ownedBy_cons, ownedBy_nil, GReq.owner]
      · exact h

theorem parseFromMMU_cinv (c : C) (ext : List GReq) (h : CInv c ext) : CInv (parseFromMMU c).1 ext := by
  unfold parseFromMMU
  split
  · exact h
  · split
    · exact h
    · refine cinv_frame h rfl ?_ h.2.2.1
      intro i
      simp [inflight, ownedBy_append, ownedBy_replicate, GReq.owner]

/-- the handlers of the page-migration handshake: queues, delay line and timer untouched, only
    requests nobody owns are added -/
def DSame (d d' : D) : Prop :=
  d'.qs = d.qs ∧ d'.awaiting = d.awaiting ∧ d'.cyc = d.cyc ∧ ∀ i, ownedBy i d'.toSend = ownedBy i d.toSend

theorem onDrainRsp_same (d : D) : DSame d (onDrainRsp d) := by
  unfold onDrainRsp
  dsimp only
  split <;> refine ⟨rfl, rfl, rfl, fun i => ?_⟩ <;> simp [ownedBy_append, ownedBy_replicate, GReq.owner]

theorem onShootRsp_same (d : D) : DSame d (onShootRsp d) := by
  unfold onShootRsp
  dsimp only
  split <;> exact ⟨rfl, rfl, rfl, fun i => rfl⟩

theorem onMigRsp_same (d : D) : DSame d (onMigRsp d) := by
  unfold onMigRsp
  dsimp only
  split <;> refine ⟨rfl, rfl, rfl, fun i => ?_⟩ <;> simp [ownedBy_append, ownedBy_replicate, GReq.owner]

theorem onRestartRsp_same (d : D) : DSame d (onRestartRsp d) := by
  unfold onRestartRsp
  dsimp only
  split <;> refine ⟨rfl, rfl, rfl, fun i => ?_⟩ <;> simp [ownedBy_append, ownedBy_replicate, GReq.owner]

theorem onRdmaRsp_same (d : D) : DSame d (onRdmaRsp d) := by
  unfold onRdmaRsp
  dsimp only
  split <;> exact ⟨rfl, rfl, rfl, fun i => rfl⟩

theorem cinv_dsame {c : C} {ext : List GReq} {m : GMsg} {rest : List GMsg} {d' : D}
    (hin : c.inb = m :: rest) (hm : m.owner = none) (hd : DSame c.d d') (h : CInv c ext) :
    CInv { c with inb := rest, d := d' } ext := by
  obtain ⟨hq, ha, hc, hs⟩ := hd
  refine cinv_frame h hq ?_ ?_
  · intro i
    simp only [inflight, hin, rspFor_cons, hm, ha, hs i]
    simp
  · show d'.awaiting ≠ [] → d'.cyc ≠ none
    rw [ha, hc]; exact h.2.2.1

theorem processReturnReq_cinv (c : C) (ext : List GReq) (h : CInv c ext) : CInv (processReturnReq c).1 ext := by
  obtain ⟨d, inb, outb⟩ := c
  unfold processReturnReq
  cases inb with
  | nil => exact h
  | cons m rest =>
    cases m with
    | kernRsp q => exact cinv_ret rfl rfl h
    | genRsp q => exact h
    | drainRsp => exact cinv_dsame rfl rfl (onDrainRsp_same d) h
    | shootRsp => exact cinv_dsame rfl rfl (onShootRsp_same d) h
    | migRsp => exact cinv_dsame rfl rfl (onMigRsp_same d) h
    | restartRsp => exact cinv_dsame rfl rfl (onRestartRsp_same d) h
    | rdmaRsp => exact cinv_dsame rfl rfl (onRdmaRsp_same d) h
    | foreignGen => exact h
    | foreign => exact h

/-! ### the memory-copy middleware -/

theorem delay_cinv (c : C) (ext : List GReq) (h : CInv c ext) : CInv { c with d := (delay c.d).1 } ext := by
  obtain ⟨d, inb, outb⟩ := c
  unfold delay
  dsimp only
  split
  · refine cinv_frame h rfl (fun _ => rfl) ?_
    intro _; simp
  · refine cinv_frame h rfl ?_ (fun h => absurd rfl h)
    intro i
    simp only [inflight, ownedBy_append, ownedBy_nil]
    omega
  · exact h

theorem mwTick_cinv (c : C) (ext : List GReq) (h : CInv c ext) : CInv (mwTick c).1 ext := by
  have h1 := delay_cinv c ext h
  obtain ⟨d, inb, outb⟩ := c
  unfold mwTick
  cases inb with
  | nil => exact h1
  | cons m rest =>
    cases m with
    | genRsp q => exact cinv_ret (c := { d := (delay d).1, inb := .genRsp q :: rest, outb := outb }) rfl rfl h1
    | kernRsp q => exact h1
    | drainRsp => exact h1
    | shootRsp => exact h1
    | migRsp => exact h1
    | restartRsp => exact h1
    | rdmaRsp => exact h1
    | foreignGen => exact h1
    | foreign => exact h1

/-! ### `processNewCommand` -/

/-- requests of the head of queue `j` inside the driver and not yet handed to the port -/
def own (j : Nat) (d : D) : Nat := ownedBy j d.toSend + ownedBy j d.awaiting

theorem own_applyStarted (j : Nat) (d : D) (ctx : Nat) (st : Started) :
    own j (applyStarted d ctx st) = own j d + (ownedBy j st.send + ownedBy j st.await) := by
  simp only [own, applyStarted, ownedBy_append]; omega

/-- what starting the head of queue `i` adds: only requests of queue `i`; as many as `left` says when
    the queue runs afterwards, none otherwise; a copy start always restarts the timer -/
theorem procQ_spec (d : D) (i : Nat) (q : Q) :
    (∀ j, j ≠ i → ownedBy j (procQ d i q).2.1.send + ownedBy j (procQ d i q).2.1.await = 0) ∧
    (q.running = true → (procQ d i q).1 = q ∧
      ownedBy i (procQ d i q).2.1.send + ownedBy i (procQ d i q).2.1.await = 0) ∧
    (q.running = false →
      ((procQ d i q).1.running = true →
        ownedBy i (procQ d i q).2.1.send + ownedBy i (procQ d i q).2.1.await = (procQ d i q).1.left ∧
        0 < (procQ d i q).1.left ∧ (procQ d i q).1.cmds ≠ []) ∧
      ((procQ d i q).1.running = false →
        ownedBy i (procQ d i q).2.1.send + ownedBy i (procQ d i q).2.1.await = 0)) ∧
    (∀ x ∈ (procQ d i q).1.cmds, x ∈ q.cmds) ∧
    ((procQ d i q).2.1.await ≠ [] → (procQ d i q).2.1.cyc ≠ none) := by
  obtain ⟨cmds, running, left, ctx⟩ := q
  unfold procQ
  cases cmds with
  | nil => simp [ownedBy_nil]
  | cons c cs =>
    cases running with
    | true => simp [ownedBy_nil]
    | false =>
      cases c with
      | noop => simp [ownedBy_nil]; exact fun x hx => Or.inr hx
      | unhandled => simp [ownedBy_nil]
      | mcopy => simp [ownedBy_nil]; exact fun x hx => Or.inr hx
      | fl =>
        dsimp only
        by_cases hz : d.nGpus = 0
        · simp [hz, ownedBy_nil]; exact fun x hx => Or.inr hx
        · simp only [Bool.false_eq_true, if_false, hz, ownedBy_replicate, ownedBy_nil, GReq.owner, Option.some.injEq]
          refine ⟨fun j hj => ?_, fun h => (by cases h), fun _ => ?_, fun x hx => hx, fun h => absurd rfl h⟩
          · have : ¬ i = j := fun h => hj h.symm
            simp [this]
          · simp; omega
      | kern n =>
        cases n with
        | zero => simp [ownedBy_nil]; exact fun x hx => Or.inr hx
        | succ n =>
          simp only [Bool.false_eq_true, if_false, ownedBy_replicate, ownedBy_nil, GReq.owner, Option.some.injEq]
          refine ⟨fun j hj => ?_, fun h => (by cases h), fun _ => ?_, fun x hx => hx, fun h => absurd rfl h⟩
          · have : ¬ i = j := fun h => hj h.symm
            simp [this]
          · simp
      | copy d2h pieces =>
        dsimp only
        generalize (if (d.dirty[ctx]?).getD false = true then d.nGpus else 0) = nf
        by_cases hz : nf + pieces = 0
        · have h1 : nf = 0 := by omega
          have h2 : pieces = 0 := by omega
          subst h1; subst h2
          simp [ownedBy_nil]; exact fun x hx => Or.inr hx
        · simp only [Bool.false_eq_true, if_false, hz, ownedBy_replicate, GReq.owner, Option.some.injEq]
          refine ⟨fun j hj => ?_, fun h => (by cases h), fun _ => ?_, fun x hx => hx, fun _ h => (by cases h)⟩
          · have : ¬ i = j := fun h => hj h.symm
            simp [this]
          · simp; omega

theorem applyStarted_timer (d : D) (ctx : Nat) (st : Started) (hst : st.await ≠ [] → st.cyc ≠ none)
    (hd : d.awaiting ≠ [] → d.cyc ≠ none) :
    (applyStarted d ctx st).awaiting ≠ [] → (applyStarted d ctx st).cyc ≠ none := by
  intro ha
  simp only [applyStarted] at ha ⊢
  cases hc : st.cyc with
  | some v => simp
  | none =>
    have : st.await = [] := Classical.byContradiction fun hne => hst hne hc
    rw [this, List.append_nil] at ha
    exact hd ha

theorem procAll_spec : ∀ (qs : List Q) (d : D) (i : Nat),
    (procAll d i qs).2.1.length = qs.length ∧
    (∀ j, (j < i ∨ i + qs.length ≤ j) → own j (procAll d i qs).1 = own j d) ∧
    (∀ p q, qs[p]? = some q → ∃ q', (procAll d i qs).2.1[p]? = some q' ∧
        (q.running = true → q' = q ∧ own (i + p) (procAll d i qs).1 = own (i + p) d) ∧
        (q.running = false →
          (q'.running = true → own (i + p) (procAll d i qs).1 = own (i + p) d + q'.left ∧ 0 < q'.left ∧ q'.cmds ≠ []) ∧
          (q'.running = false → own (i + p) (procAll d i qs).1 = own (i + p) d)) ∧
        (∀ x ∈ q'.cmds, x ∈ q.cmds)) ∧
    ((d.awaiting ≠ [] → d.cyc ≠ none) → ((procAll d i qs).1.awaiting ≠ [] → (procAll d i qs).1.cyc ≠ none))
  | [], d, i => by
    refine ⟨rfl, fun _ _ => rfl, ?_, fun h => h⟩
    intro p q hp; simp at hp
  | q0 :: rest, d, i => by
    obtain ⟨hs1, hs2, hs3, hs4, hs5⟩ := procQ_spec d i q0
    obtain ⟨ih1, ih2, ih3, ih4⟩ := procAll_spec rest (applyStarted d q0.ctx (procQ d i q0).2.1) (i + 1)
    have hown := own_applyStarted (d := d) (ctx := q0.ctx) (st := (procQ d i q0).2.1)
    simp only [procAll]
    refine ⟨by simp only [List.length_cons, ih1], ?_, ?_, ?_⟩
    · intro j hj
      simp only [List.length_cons] at hj
      rw [ih2 j (by omega), hown j, hs1 j (by omega)]; rfl
    · intro p q hp
      cases p with
      | zero =>
        simp only [List.getElem?_cons_zero, Option.some.injEq] at hp
        subst hp
        refine ⟨_, List.getElem?_cons_zero, ?_, ?_, hs4⟩
        · intro hr
          obtain ⟨he, hn⟩ := hs2 hr
          refine ⟨he, ?_⟩
          rw [Nat.add_zero, ih2 i (by omega), hown i, hn]; rfl
        · intro hr
          obtain ⟨ht, hf⟩ := hs3 hr
          rw [Nat.add_zero, ih2 i (by omega), hown i]
          refine ⟨fun h => ?_, fun h => ?_⟩
          · obtain ⟨a, b, c⟩ := ht h
            exact ⟨by rw [a], b, c⟩
          · rw [hf h]; rfl
      | succ p =>
        simp only [List.getElem?_cons_succ] at hp
        obtain ⟨q', hq', ha, hb, hc⟩ := ih3 p q hp
        have hidx : i + (p + 1) = i + 1 + p := by omega
        have hsame : own (i + 1 + p) (applyStarted d q0.ctx (procQ d i q0).2.1) = own (i + 1 + p) d := by
          rw [hown, hs1 _ (by omega)]; rfl
        rw [hidx]
        rw [hsame] at ha hb
        exact ⟨q', by simpa only [List.getElem?_cons_succ] using hq', ha, hb, hc⟩
    · intro hd
      exact ih4 (applyStarted_timer d q0.ctx _ hs5 hd)

theorem processNewCommand_core {c c' : C} {ext : List GReq} (h : CInv c ext)
    (hqs : c'.d.qs = (procAll c.d 0 c.d.qs).2.1)
    (hfl : ∀ j, inflight c' ext j + own j c.d = inflight c ext j + own j (procAll c.d 0 c.d.qs).1)
    (h3' : c'.d.awaiting ≠ [] → c'.d.cyc ≠ none) : CInv c' ext := by
  obtain ⟨h1, h2, h3, h4⟩ := h
  obtain ⟨s1, s2, s3, s4⟩ := procAll_spec c.d.qs c.d 0
  refine ⟨?_, ?_, h3', ?_⟩
  · intro j q' hj
    rw [hqs] at hj
    have hlt : j < c.d.qs.length := by
      rw [← s1]; exact (List.getElem?_eq_some_iff.mp hj).1
    obtain ⟨q, hq⟩ : ∃ q, c.d.qs[j]? = some q := ⟨c.d.qs[j], List.getElem?_eq_getElem hlt⟩
    obtain ⟨q'', hq'', ha, hb, _⟩ := s3 j q hq
    rw [hj] at hq''
    cases hq''
    rw [Nat.zero_add] at ha hb
    have hok := h1 j q hq
    have hf := hfl j
    unfold QOK at hok ⊢
    cases hr : q.running with
    | true =>
      obtain ⟨he, hn⟩ := ha hr
      subst he
      have : inflight c' ext j = inflight c ext j := by omega
      rw [this]; exact hok
    | false =>
      have h0 := hok.2 hr
      obtain ⟨ht, hff⟩ := hb hr
      refine ⟨fun hr' => ?_, fun hr' => ?_⟩
      · obtain ⟨x, y, z⟩ := ht hr'
        exact ⟨by omega, y, z⟩
      · have := hff hr'; omega
  · intro j hj
    rw [hqs, s1] at hj
    have := s2 j (Or.inr (by omega))
    have hf := hfl j
    have := h2 j hj
    omega
  · intro q' hq' x hx
    rw [hqs] at hq'
    obtain ⟨p, hp⟩ := List.getElem?_of_mem hq'
    have hlt : p < c.d.qs.length := by
      rw [← s1]; exact (List.getElem?_eq_some_iff.mp hp).1
    obtain ⟨q, hq⟩ : ∃ q, c.d.qs[p]? = some q := ⟨c.d.qs[p], List.getElem?_eq_getElem hlt⟩
    obtain ⟨q'', hq3, _, _, hsub⟩ := s3 p q hq
    rw [hp] at hq3
    cases hq3
    exact h4 q (List.mem_of_getElem? hq) x (hsub x hx)

theorem processNewCommand_cinv (c : C) (ext : List GReq) (h : CInv c ext) : CInv (processNewCommand c).1 ext := by
  unfold processNewCommand
  refine processNewCommand_core h rfl ?_ ((procAll_spec c.d.qs c.d 0).2.2.2 h.2.2.1)
  intro j
  simp only [inflight, own]
  omega

/-! ### a whole `Tick`, an event, a run -/

theorem runStages_pres {D I O : Type} (P : Core D I O → Prop) :
    ∀ (l : List (Stage D I O)), (∀ st ∈ l, ∀ c, P c → P (st c).1) → ∀ c, P c → P (runStages l c).1
  | [], _, c, h => h
  | st :: rest, hl, c, h => by
    simp only [runStages]
    exact runStages_pres P rest (fun st' hst' => hl st' (by simp [hst'])) _ (hl st (by simp) c h)

theorem tick_cinv (k : Caps) (c : C) (ext : List GReq) (h : CInv c ext) : CInv (tick k c).1 ext := by
  refine runStages_pres (fun c => CInv c ext) (stages k) ?_ c h
  intro st hst
  simp only [stages, List.mem_cons, List.mem_nil_iff, or_false] at hst
  rcases hst with rfl | rfl | rfl | rfl | rfl | rfl | rfl
  · exact fun c h => sendToGPUs_cinv k c ext h
  · exact fun c h => sendToMMU_cinv k c ext h
  · exact fun c h => sendMig_cinv k c ext h
  · exact fun c h => mwTick_cinv c ext h
  · exact fun c h => processReturnReq_cinv c ext h
  · exact fun c h => processNewCommand_cinv c ext h
  · exact fun c h => parseFromMMU_cinv c ext h

theorem cinv_enq (c : C) (ext : List GReq) (i : Nat) (cmd : Cmd) (hc : cmd.handled = true) (h : CInv c ext) :
    CInv { c with d := enqCmd i cmd c.d } ext := by
  obtain ⟨h1, h2, h3, h4⟩ := h
  have hfl : ∀ j, inflight { c with d := enqCmd i cmd c.d } ext j = inflight c ext j := fun _ => rfl
  refine ⟨?_, ?_, h3, ?_⟩
  · intro j q' hj
    have hj' : (updAt (fun q => { q with cmds := q.cmds ++ [cmd] }) i c.d.qs)[j]? = some q' := hj
    rw [updAt_getElem?] at hj'
    unfold QOK
    rw [hfl j]
    by_cases hji : j = i
    · rw [if_pos hji] at hj'
      cases hq0 : c.d.qs[j]? with
      | none => rw [hq0] at hj'; simp at hj'
      | some q0 =>
        rw [hq0] at hj'
        simp only [Option.map_some, Option.some.injEq] at hj'
        subst hj'
        have hok := h1 j q0 hq0
        exact ⟨fun hr => ⟨(hok.1 hr).1, (hok.1 hr).2.1, by simp⟩, hok.2⟩
    · rw [if_neg hji] at hj'
      exact h1 j q' hj'
  · intro j hj
    have hj' : (updAt (fun q => { q with cmds := q.cmds ++ [cmd] }) i c.d.qs).length ≤ j := hj
    rw [updAt_length] at hj'
    rw [hfl j]; exact h2 j hj'
  · intro q' hq' x hx
    have hq'' : q' ∈ updAt (fun q => { q with cmds := q.cmds ++ [cmd] }) i c.d.qs := hq'
    rcases updAt_mem _ i c.d.qs q' hq'' with hm | ⟨q0, h0, rfl⟩
    · exact h4 q' hm x hx
    · simp only [List.mem_append, List.mem_singleton] at hx
      rcases hx with hx | rfl
      · exact h4 q0 h0 x hx
      · exact hc

theorem cinv_step (k : Caps) (s : Sys) (ev : Ev) (hl : ev.legit = true) (h : CInv s.core s.ext) :
    CInv (step k s ev).core (step k s ev).ext := by
  cases ev with
  | retrieveG =>
    simp only [step]
    split
    · exact h
    · rename_i x rest hout
      refine cinv_frame h rfl ?_ h.2.2.1
      intro i
      simp only [inflight, hout, ownedBy_append, ownedBy_cons, ownedBy_nil]
      omega
  | answer j =>
    simp only [step]
    split
    · exact h
    · rename_i x hx
      split
      · rename_i hlt
        simp only [deliverG, hlt, if_true]
        refine cinv_frame h rfl ?_ h.2.2.1
        intro i
        have := ownedBy_eraseIdx i s.ext j x hx
        simp only [inflight, rspFor_append, rspFor_cons, rspFor_nil, answer_owner]
        omega
      · exact h
  | inject m => simp [Ev.legit] at hl
  | deliverM r =>
    simp only [step]
    split
    · exact cinv_frame h rfl (fun _ => rfl) h.2.2.1
    · exact h
  | retrieveM =>
    simp only [step]
    split
    · exact h
    · exact cinv_frame h rfl (fun _ => rfl) h.2.2.1
  | enq i c => exact cinv_enq s.core s.ext i c hl h
  | kick => exact h
  | tick =>
    simp only [step]
    split
    · exact tick_cinv k s.core s.ext h
    · exact h

theorem cinv_run (k : Caps) (evs : List Ev) (s : Sys) (hl : ∀ ev ∈ evs, ev.legit = true)
    (h : CInv s.core s.ext) : CInv (run k s evs).core (run k s evs).ext := by
  induction evs generalizing s with
  | nil => exact h
  | cons ev evs ih =>
    exact ih _ (fun e he => hl e (by simp [he])) (cinv_step k s ev (hl ev (by simp)) h)

/-! ### consequences of the invariant on one state -/

theorem rspFor_pos {i : Nat} {l : List GMsg} {m : GMsg} (hm : m ∈ l) (ho : m.owner = some i) : 0 < rspFor i l := by
  unfold rspFor
  exact List.countP_pos_iff.mpr ⟨m, hm, by simp [ho]⟩

/-- an answer in the port belongs to a running head that still counts it -/
theorem cinv_solicited {c : C} {ext : List GReq} (h : CInv c ext) {m : GMsg} {i : Nat} (hm : m ∈ c.inb)
    (ho : m.owner = some i) : ∃ q, c.d.qs[i]? = some q ∧ q.running = true ∧ 0 < q.left := by
  have hpos : 0 < inflight c ext i := by
    have := rspFor_pos hm ho
    unfold inflight; omega
  by_cases hlt : i < c.d.qs.length
  · refine ⟨c.d.qs[i], List.getElem?_eq_getElem hlt, ?_⟩
    have hok := h.1 i c.d.qs[i] (List.getElem?_eq_getElem hlt)
    cases hr : c.d.qs[i].running with
    | true => exact ⟨rfl, (hok.1 hr).2.1⟩
    | false => have := hok.2 hr; omega
  · have := h.2.1 i (by omega); omega

/-- nothing left to do, nothing outside the driver ⇒ every queue is empty and idle -/
theorem cinv_drained {k : Caps} {c : C} {ext : List GReq} (h : CInv c ext) (hnw : ¬ work k c)
    (hcap : 0 < k.gOut) (hext : ext = []) (hout : c.outb = []) :
    ∀ q ∈ c.d.qs, q.cmds = [] ∧ q.running = false := by
  have hin : c.inb = [] := Classical.byContradiction fun hin => hnw (Or.inl hin)
  have hts : c.d.toSend = [] := Classical.byContradiction fun hts =>
    hnw (Or.inr (Or.inr (Or.inr (Or.inl ⟨hts, by rw [hout]; exact hcap⟩))))
  have haw : c.d.awaiting = [] := Classical.byContradiction fun haw =>
    hnw (Or.inr (Or.inr (Or.inr (Or.inr (Or.inl ⟨h.2.2.1 haw, haw⟩)))))
  have hfl : ∀ i, inflight c ext i = 0 := by
    intro i
    simp only [inflight, hin, hts, haw, hext, hout, ownedBy_nil, rspFor_nil]
  intro q hq
  obtain ⟨i, hi⟩ := List.getElem?_of_mem hq
  have hok := h.1 i q hi
  have hrun : q.running = false := by
    cases hr : q.running with
    | false => rfl
    | true => have := hok.1 hr; have := hfl i; omega
  refine ⟨?_, hrun⟩
  cases hc : q.cmds with
  | nil => rfl
  | cons x cs =>
    exfalso
    refine hnw (Or.inr (Or.inr (Or.inl ⟨q, hq, hrun, x, cs, hc, ?_⟩)))
    exact h.2.2.2 q hq x (by rw [hc]; simp)

end Full
end W
end C12
