import MgpuModel.C19_Base
/-! Helper lemmas for C19: the completion protocol of one controller, stage by stage. -/
namespace C19

/-- the fields the completion protocol depends on -/
structure Key where
  handling : Bool
  cur : Option MigReq
  toCtrl : Option Nat
  pending : Int
  dones : Nat
  started : List MigReq
  completed : List Nat
  ctlIn : List CMsg

def key (p : Pmc) : Key := ⟨p.handling, p.cur, p.toCtrl, p.pending, p.dones, p.started, p.completed, p.ctlIn⟩

/-- migration requests among control messages -/
def migsOf : List CMsg → List MigReq
  | [] => []
  | .mig r :: t => r :: migsOf t
  | .junk :: t => migsOf t

/-- where a controller is in the life of its requests (`S` = requests already completed) -/
inductive Phase (k : Key) : Prop
  | idle : k.handling = false → k.cur = none → k.toCtrl = none → k.pending = -1 →
      k.completed = k.started.map (·.id) → Phase k
  | moving (S : List MigReq) (r : MigReq) : k.handling = true → k.cur = some r → k.started = S ++ [r] →
      k.completed = S.map (·.id) → k.toCtrl = none → k.pending = ((r.size / unit : Nat) : Int) - k.dones →
      0 ≤ k.pending → Phase k
  | done (S : List MigReq) (r : MigReq) : k.handling = true → k.cur = none → k.started = S ++ [r] →
      k.completed = S.map (·.id) → k.toCtrl = some r.id → k.pending = -1 → k.dones = r.size / unit →
      1 ≤ r.size / unit → Phase k

/-- transient state inside a tick: request taken from the port, chunks not yet generated -/
inductive Accepted (k : Key) : Prop
  | mk (S : List MigReq) (r : MigReq) : k.handling = false → k.cur = some r → k.started = S ++ [r] →
      k.completed = S.map (·.id) → k.toCtrl = none → k.pending = -1 → Accepted k

def reqs (k : Key) : List MigReq := k.started ++ migsOf k.ctlIn

/-! ### stages that do not touch the protocol fields -/

theorem key_sendPull (p : Pmc) : key (sendPull p).1 = key p := by
  unfold sendPull
  split
  · rfl
  · split <;> rfl
theorem key_sendRead (p : Pmc) : key (sendRead p).1 = key p := by
  unfold sendRead; repeat' split <;> rfl
theorem key_sendRsp (p : Pmc) : key (sendRsp p).1 = key p := by
  unfold sendRsp
  split
  · rfl
  · split <;> rfl
theorem key_sendWrite (p : Pmc) : key (sendWrite p).1 = key p := by
  unfold sendWrite; repeat' split <;> rfl
theorem key_fromOutside (p : Pmc) : key (fromOutside p).1 = key p := by
  unfold fromOutside; repeat' split <;> rfl
theorem key_fromMem (p : Pmc) : key (fromMem p).1 = key p := by
  unfold fromMem; repeat' split <;> rfl
theorem key_readPage (p : Pmc) : key (readPage p).1 = key p := by
  unfold readPage; repeat' split <;> rfl
theorem key_dataReadyRsp (p : Pmc) : key (dataReadyRsp p).1 = key p := by
  unfold dataReadyRsp; repeat' split <;> rfl

theorem key_pullRspLoop (l : List PullRsp) (p : Pmc) : key (pullRspLoop p l) = key p := by
  induction l generalizing p with
  | nil => rfl
  | cons r rs ih =>
    unfold pullRspLoop
    split
    · rfl
    · rw [ih]; rfl

theorem key_pullRsp (p : Pmc) : key (pullRsp p).1 = key p := by
  unfold pullRsp
  split
  · rfl
  · show key { pullRspLoop p p.recvData with recvData := [] } = key p
    have := key_pullRspLoop p.recvData p
    simp only [key] at *
    exact this

/-! ### stages that do -/

theorem phase_sendComplete (p : Pmc) (h : Phase (key p)) :
    Phase (key (sendComplete p).1) ∧ reqs (key (sendComplete p).1) = reqs (key p) := by
  unfold sendComplete
  cases hc : p.toCtrl with
  | none => exact ⟨h, rfl⟩
  | some c =>
    simp only
    split
    · refine ⟨?_, rfl⟩
      cases h with
      | idle _ _ h3 _ _ => simp [key, hc] at h3
      | moving S r _ _ _ _ h5 _ _ => simp [key, hc] at h5
      | done S r h1 h2 h3 h4 h5 h6 h7 h8 =>
        simp only [key] at *
        rw [hc] at h5
        injection h5 with h5
        apply Phase.idle <;> simp [h3, h4, h5, h6]
    · exact ⟨h, rfl⟩

theorem phase_fromCtrl (p : Pmc) (h : Phase (key p)) (hf : (fromCtrl p).1.fault = none) (_hp : p.fault = none) :
    (Phase (key (fromCtrl p).1) ∨ Accepted (key (fromCtrl p).1)) ∧
      reqs (key (fromCtrl p).1) = reqs (key p) := by
  unfold fromCtrl at *
  split
  · exact ⟨Or.inl h, rfl⟩
  · rename_i hh
    split
    · exact ⟨Or.inl h, rfl⟩
    · rename_i r rest hin
      refine ⟨Or.inr ?_, ?_⟩
      · cases h with
        | idle h1 h2 h3 h4 h5 =>
          simp only [key] at *
          exact Accepted.mk p.started r (by simpa using hh) rfl rfl (by simpa using h5) h3 h4
        | moving S r' h1 => simp [key] at h1; simp [h1] at hh
        | done S r' h1 => simp [key] at h1; simp [h1] at hh
      · simp [reqs, key, hin, migsOf]
    · rename_i rest hin
      simp [hh, hin] at hf

theorem phase_startMigration (p : Pmc) (h : Phase (key p) ∨ Accepted (key p)) :
    Phase (key (startMigration p).1) ∧ reqs (key (startMigration p).1) = reqs (key p) := by
  unfold startMigration
  cases hc : p.cur with
  | none =>
    rcases h with h | h
    · exact ⟨h, rfl⟩
    · cases h with
      | mk S r _ h2 => simp [key, hc] at h2
  | some r =>
    by_cases hh : p.handling = true
    · simp only [hh, if_true]
      rcases h with h | h
      · exact ⟨h, trivial⟩
      · cases h with
        | mk S r' h1 => simp [key] at h1; simp [h1] at hh
    · simp only [hh]
      refine ⟨?_, rfl⟩
      rcases h with h | h
      · cases h with
        | idle _ h2 => simp [key, hc] at h2
        | moving S r' h1 => simp [key] at h1; exact absurd h1 hh
        | done S r' h1 => simp [key] at h1; exact absurd h1 hh
      · cases h with
        | mk S r' h1 h2 h3 h4 h5 h6 =>
          simp only [key] at *
          rw [hc] at h2
          injection h2 with h2
          subst h2
          refine Phase.moving S r rfl rfl h3 h4 h5 ?_ ?_
          · show ((r.size / unit : Nat) : Int) = ((r.size / unit : Nat) : Int) - ((0 : Nat) : Int)
            omega
          · exact Int.natCast_nonneg _

theorem phase_writeDone (p : Pmc) (h : Phase (key p)) (hf : (writeDone p).1.fault = none) :
    Phase (key (writeDone p).1) ∧ reqs (key (writeDone p).1) = reqs (key p) := by
  unfold writeDone at *
  cases hw : p.wdone with
  | none => exact ⟨h, rfl⟩
  | some w =>
    simp only [hw] at hf ⊢
    by_cases h1 : p.pending - 1 < 0
    · simp [h1] at hf
    · simp only [h1, if_false] at hf ⊢
      cases h with
      | idle _ _ _ h4 _ => simp only [key] at h4; omega
      | done S r _ _ _ _ _ h6 => simp only [key] at h6; omega
      | moving S r g1 g2 g3 g4 g5 g6 g7 =>
        simp only [key] at g1 g2 g3 g4 g5 g6 g7
        by_cases h2 : p.pending - 1 = 0
        · simp only [h2, if_true, g2] at hf ⊢
          refine ⟨?_, rfl⟩
          refine Phase.done S r g1 rfl g3 g4 rfl rfl ?_ ?_
          · show p.dones + 1 = r.size / unit
            omega
          · omega
        · simp only [h2, if_false] at hf ⊢
          refine ⟨?_, rfl⟩
          refine Phase.moving S r g1 g2 g3 g4 g5 ?_ ?_
          · show p.pending - 1 = ((r.size / unit : Nat) : Int) - ((p.dones + 1 : Nat) : Int)
            omega
          · show 0 ≤ p.pending - 1
            omega

/-! ### the whole tick -/

/-- a predicate that is claimed only while no panic has happened -/
def Good (P : Pmc → Prop) (x : Pmc × Bool) : Prop := x.1.fault = none → P x.1

theorem stage_good (P Q : Pmc → Prop) (f : Pmc → Pmc × Bool) (x : Pmc × Bool)
    (hf : ∀ p, p.fault = none → P p → (f p).1.fault = none → Q (f p).1) (hx : Good P x) :
    Good Q (stage f x) := by
  unfold stage Good at *
  split
  · rename_i hs
    intro h; rw [h] at hs; simp at hs
  · rename_i hs
    have hn : x.1.fault = none := by
      cases hx' : x.1.fault with
      | none => rfl
      | some s => rw [hx'] at hs; simp at hs
    intro h
    exact hf x.1 hn (hx hn) h

/-- the protocol state and the requests known to the controller (`L`) -/
def Inv (L : List MigReq) (p : Pmc) : Prop := Phase (key p) ∧ reqs (key p) = L
def InvA (L : List MigReq) (p : Pmc) : Prop := (Phase (key p) ∨ Accepted (key p)) ∧ reqs (key p) = L

theorem frame (L : List MigReq) (f : Pmc → Pmc × Bool) (hk : ∀ p, key (f p).1 = key p) :
    ∀ p, p.fault = none → Inv L p → (f p).1.fault = none → Inv L (f p).1 := by
  intro p _ h _; unfold Inv at *; rw [hk]; exact h

theorem frameA (L : List MigReq) (f : Pmc → Pmc × Bool) (hk : ∀ p, key (f p).1 = key p) :
    ∀ p, p.fault = none → InvA L p → (f p).1.fault = none → InvA L (f p).1 := by
  intro p _ h _; unfold InvA at *; rw [hk]; exact h

theorem tick_inv (L : List MigReq) (p : Pmc) (h : Inv L p) (hf : (tick p).1.fault = none) :
    Inv L (tick p).1 := by
  unfold tick at *
  have g0 : Good (Inv L) (p, false) := fun _ => h
  have g1 := stage_good _ _ sendPull _ (frame L _ key_sendPull) g0
  have g2 := stage_good _ _ sendRead _ (frame L _ key_sendRead) g1
  have g3 := stage_good (Inv L) (Inv L) sendComplete _ (by
    intro q _ hq _; obtain ⟨a, b⟩ := phase_sendComplete q hq.1; exact ⟨a, b.trans hq.2⟩) g2
  have g4 := stage_good _ _ sendRsp _ (frame L _ key_sendRsp) g3
  have g5 := stage_good _ _ sendWrite _ (frame L _ key_sendWrite) g4
  have g6 := stage_good _ _ fromOutside _ (frame L _ key_fromOutside) g5
  have g7 := stage_good (Inv L) (InvA L) fromCtrl _ (by
    intro q hn hq hfq; obtain ⟨a, b⟩ := phase_fromCtrl q hq.1 hfq hn; exact ⟨a, b.trans hq.2⟩) g6
  have g8 := stage_good _ _ fromMem _ (frameA L _ key_fromMem) g7
  have g9 := stage_good (InvA L) (Inv L) startMigration _ (by
    intro q _ hq _; obtain ⟨a, b⟩ := phase_startMigration q hq.1; exact ⟨a, b.trans hq.2⟩) g8
  have g10 := stage_good _ _ readPage _ (frame L _ key_readPage) g9
  have g11 := stage_good _ _ dataReadyRsp _ (frame L _ key_dataReadyRsp) g10
  have g12 := stage_good _ _ pullRsp _ (frame L _ key_pullRsp) g11
  have g13 := stage_good (Inv L) (Inv L) writeDone _ (by
    intro q _ hq hfq; obtain ⟨a, b⟩ := phase_writeDone q hq.1 hfq; exact ⟨a, b.trans hq.2⟩) g12
  exact g13 hf

/-- what the environment can do to a controller between ticks: fill and drain port buffers;
    the control port's incoming buffer is only appended to -/
inductive EnvMove (p : Pmc) : Pmc → Prop
  | mk (remIn remOut : List RMsg) (more : List CMsg) (ctlOut : List Nat) (memIn : List MRsp) (memOut : List MReq) :
      EnvMove p { p with remIn := remIn, remOut := remOut, ctlIn := p.ctlIn ++ more, ctlOut := ctlOut,
                          memIn := memIn, memOut := memOut }

/-- states a controller can reach without panicking, together with the list of all migration
    requests ever delivered to its control port -/
inductive Reach : Pmc → List MigReq → Prop
  | init (self : Nat) : Reach { self := self } []
  | tick {p L} : Reach p L → (tick p).1.fault = none → Reach (tick p).1 L
  | env {p q L} : Reach p L → EnvMove p q → Reach q (L ++ migsOf (q.ctlIn.drop p.ctlIn.length))

theorem migsOf_append (a b : List CMsg) : migsOf (a ++ b) = migsOf a ++ migsOf b := by
  induction a with
  | nil => rfl
  | cons x xs ih => cases x <;> simp [migsOf, ih]

theorem reach_inv {p : Pmc} {L : List MigReq} (h : Reach p L) : Inv L p := by
  induction h with
  | init self => exact ⟨Phase.idle rfl rfl rfl rfl rfl, rfl⟩
  | tick _ hf ih => exact tick_inv _ _ ih hf
  | env _ hm ih =>
    cases hm with
    | mk remIn remOut more ctlOut memIn memOut =>
      obtain ⟨h1, h2⟩ := ih
      refine ⟨?_, ?_⟩
      · cases h1 with
        | idle a b c d e => exact Phase.idle a b c d e
        | moving S r a b c d e f g => exact Phase.moving S r a b c d e f g
        | done S r a b c d e f g i => exact Phase.done S r a b c d e f g i
      · simp only [reqs, key, List.drop_left] at *
        rw [migsOf_append, ← List.append_assoc, h2]


end C19
