import MgpuProofs.C17Live
/-! C17 liveness, part 2: the weighted chain of a bank through one whole tick. -/
namespace C17

/-! ### dispatchPending: the first pending request of an empty bank is taken -/

theorem dispatchOne_other (c : Cfg) (k : Nat) (st : List Bank × List Req) (r : Req) (hk : bankOf c r.addr ≠ k) :
    (dispatchOne c st r).1[k]? = st.1[k]? ∧ wPendL c k (dispatchOne c st r).2 = wPendL c k st.2 := by
  have hin : inB c k r = false := by simp [inB, hk]
  unfold dispatchOne
  split
  · exact ⟨rfl, by simp [wPendL_cons, hin]⟩
  · split
    · exact ⟨by simp [List.getElem?_set_ne hk], rfl⟩
    · exact ⟨rfl, by simp [wPendL_cons, hin]⟩

theorem dispatch_fold_strict (c : Cfg) (k : Nat) (hd0 : 0 < c.depth) : ∀ (todo : List Req) (st : List Bank × List Req),
    WF c st.1 → LenAll c st.1 → Nrem c st → k < st.1.length → wBankAt c st.1 k = [] → wPendL c k st.2 = [] →
    Strict (wBankAt c st.1 k ++ wPendL c k (st.2 ++ todo))
      (wBankAt c (todo.foldl (dispatchOne c) st).1 k ++ wPendL c k (todo.foldl (dispatchOne c) st).2) := by
  intro todo
  induction todo with
  | nil => intro st _ _ _ _ hb hp h; simp [hb, hp] at h
  | cons r rest ih =>
    intro st hw hl hn hk hb hp
    obtain ⟨hw', hn', _⟩ := dispatchOne_step c k st r hw hn
    obtain ⟨hl', _⟩ := dispatchOne_w c k st r hw hl hn
    by_cases hin : bankOf c r.addr = k
    · -- the first request for bank `k`: the bank is empty, so it is dispatched
      obtain ⟨b, hlook⟩ : ∃ b, st.1[k]? = some b := ⟨st.1[k], List.getElem?_eq_getElem hk⟩
      have hbm := List.mem_of_getElem? hlook
      have hbe : wBank c b = [] := by simpa [wBankAt, hlook] using hb
      obtain ⟨b', hd⟩ := dispatchBank_empty c r b (hw b hbm).1 (hl b hbm) hd0 hbe
      have e : dispatchOne c st r = (st.1.set k b', st.2) := by simp [dispatchOne, hin, hlook, hd]
      obtain ⟨⟨w, hwb, hwlt⟩, _⟩ := dispatchBank_w c r b b' (hw b hbm).1 (hl b hbm) (hw b hbm).2 hd
      obtain ⟨_, hdom⟩ := dispatch_fold_w c k rest (dispatchOne c st r) hw' hl' hn'
      simp only [List.foldl_cons]
      refine Strict.trans_dom ?_ hdom
      intro _
      have hinb : inB c k r = true := by simp [inB, hin]
      rw [e]
      simp only [wPendL_append, hp, wPendL_cons, hinb, if_true, List.nil_append, wBankAt, hlook,
        List.getElem?_set_self hk, hwb, hbe, List.cons_append]
      exact hwlt
    · obtain ⟨o1, o2⟩ := dispatchOne_other c k st r hin
      have hk' : k < (dispatchOne c st r).1.length := by
        have := List.getElem?_eq_some_iff.1 (o1.trans (List.getElem?_eq_getElem hk))
        exact this.1
      have hb' : wBankAt c (dispatchOne c st r).1 k = [] := by simpa [wBankAt, o1] using hb
      have := ih (dispatchOne c st r) hw' hl' hn' hk' hb' (by rw [o2, hp])
      have hinb : inB c k r = false := by simp [inB, hin]
      simp only [List.foldl_cons]
      simpa [hb, hb', hp, o2, wPendL_cons, hinb] using this

/-! ### the weighted chain of bank `k` in a state -/

def wChain (c : Cfg) (s : State) (k : Nat) : WL :=
  wBankAt c s.banks k ++ wPendL c k s.pending ++ wTopL c k s.topIn

theorem wChain_reqs (c : Cfg) (s : State) (k : Nat) : (wChain c s k).map (·.1) = (chain c s k).map (·.req) := by
  have h1 : (wBankAt c s.banks k).map (·.1) = (bankChain s.banks k).map (·.req) := by
    simp only [wBankAt, bankChain]
    cases s.banks[k]? with
    | none => rfl
    | some b => exact wBank_reqs c b
  simp only [wChain, chain, List.map_append, List.filter_append, h1]
  simp [wPendL, wTopL, Function.comp_def, fresh]

theorem wChain_pos (c : Cfg) (s : State) (k : Nat) : ∀ a ∈ wChain c s k, 1 ≤ a.2 := by
  intro a ha
  simp only [wChain, List.mem_append] at ha
  rcases ha with (ha | ha) | ha
  · simp only [wBankAt] at ha
    cases hb : s.banks[k]? with
    | none => simp [hb] at ha
    | some b => rw [hb] at ha; exact wBank_pos c b a ha
  · simp only [wPendL, List.mem_map] at ha
    obtain ⟨_, _, rfl⟩ := ha
    simp only [wPend]; omega
  · simp only [wTopL, List.mem_map] at ha
    obtain ⟨_, _, rfl⟩ := ha
    omega

theorem wChain_nodup (c : Cfg) (s : State) (h : Inv c s) (k : Nat) : ((wChain c s k).map (·.1)).Nodup := by
  rw [wChain_reqs]
  have : (s.arrived.filter (inB c k)).Nodup := (arrived_nodup c s h).filter _
  rw [← h.r k, List.nodup_append] at this
  exact this.2.1

/-! ### liveness side conditions carried along a run -/

/-- the bank address converter (if installed) accepts the request's address -/
def belongs (c : Cfg) (r : Req) : Bool := match c.bconv with
  | none => true
  | some v => (v.conv? r.addr).isSome

theorem convFault_false (c : Cfg) (l : List Req) (h : ∀ r ∈ l, belongs c r = true) : convFault c l = false := by
  unfold convFault
  cases hv : c.bconv with
  | none => rfl
  | some v =>
    simp only [List.any_eq_false]
    intro r hr
    have := h r hr
    simp only [belongs, hv] at this
    simp [Option.isSome_iff_ne_none.1 this]

theorem pending_sub_arrived (c : Cfg) (s : State) (h : Inv c s) : ∀ r ∈ s.pending, r ∈ s.arrived := by
  intro r hr
  have : r ∈ s.arrived.filter (inB c (bankOf c r.addr)) := by
    rw [← h.r (bankOf c r.addr)]
    simp only [chain, List.map_append, List.filter_append, List.mem_append, List.mem_map, List.mem_filter]
    exact Or.inr (Or.inr (Or.inl ⟨fresh r, ⟨r, ⟨hr, by simp [inB]⟩, rfl⟩, rfl⟩))
  exact (List.mem_filter.1 this).1

structure LI (c : Cfg) (s : State) : Prop where
  nb : s.banks.length = c.banks
  len : LenAll c s.banks
  ok : ∀ r ∈ s.arrived, maskOk r = true
  bel : ∀ r ∈ s.arrived, belongs c r = true
  cap : ∀ r ∈ s.arrived, capErr c.cap r.addr r.size = false

theorem wBankAt_map (c : Cfg) (f : Bank → Bank) (bs : List Bank) (k : Nat)
    (h : ∀ b ∈ bs, Dom (wBank c b) (wBank c (f b))) : Dom (wBankAt c bs k) (wBankAt c (bs.map f) k) := by
  simp only [wBankAt, List.getElem?_map]
  cases hb : bs[k]? with
  | none => exact Dom.nil
  | some b => exact h b (List.mem_of_getElem? hb)

/-! ### finalizeBanks -/

theorem finalizePost_drop (c : Cfg) : ∀ (post : List Item) (log : List Req) (out resp : List Rsp),
    ∃ i, i ≤ post.length ∧ wPost (finalizePost c post log out resp).post = (wPost post).drop i := by
  intro post
  induction post with
  | nil => intro log out resp; exact ⟨0, by simp [finalizePost]⟩
  | cons it rest ih =>
    intro log out resp
    simp only [finalizePost]
    split
    · exact ⟨0, by simp⟩
    cases hcm : commit it log with
    | none => exact ⟨0, by simp⟩
    | some p =>
      obtain ⟨it', log'⟩ := p
      obtain ⟨h1, _, _⟩ := commit_spec it it' log log' hcm
      simp only
      split
      · obtain ⟨i, hi, he⟩ := ih log' (out ++ [rspOf it']) (resp ++ [rspOf it'])
        exact ⟨i + 1, by simp; omega, by simpa [wPost] using he⟩
      · exact ⟨0, by simp, by simp [wPost, h1]⟩

theorem finalizePost_nofault (c : Cfg) : ∀ (post : List Item) (log : List Req) (out resp : List Rsp),
    (∀ it ∈ post, maskOk it.req = true ∧ capErr c.cap it.req.addr it.req.size = false) →
    (finalizePost c post log out resp).fault = false := by
  intro post
  induction post with
  | nil => intro log out resp _; rfl
  | cons it rest ih =>
    intro log out resp hok
    have hi := (hok it (by simp)).1
    simp only [finalizePost]
    split
    · rename_i hcf
      simp [capFault, (hok it (by simp)).2] at hcf
    cases hcm : commit it log with
    | none =>
      exfalso
      unfold commit at hcm
      split at hcm
      · cases hcm
      · split at hcm
        · cases hcm
        · simp at hcm
    | some p =>
      obtain ⟨it', log'⟩ := p
      simp only
      split
      · exact ih _ _ _ (fun x hx => hok x (by simp [hx]))
      · rfl

theorem finalizeAt_w (c : Cfg) (s : State) (j k : Nat) :
    ∃ i, wChain c (finalizeAt c s j).1 k = (wChain c s k).drop i := by
  unfold finalizeAt
  cases hb : s.banks[j]? with
  | none => exact ⟨0, rfl⟩
  | some b =>
    simp only
    by_cases hj : j = k
    · subst hj
      have hlt : j < s.banks.length := (List.getElem?_eq_some_iff.1 hb).1
      obtain ⟨i, hi, he⟩ := finalizePost_drop c b.post s.log s.outBuf s.resp
      refine ⟨i, ?_⟩
      have hi' : i ≤ (wPost b.post).length := by simpa [wPost] using hi
      simp only [wChain, wBankAt, List.getElem?_set_self hlt, hb, wBank, he, List.append_assoc]
      rw [List.drop_append_of_le_length hi']
    · exact ⟨0, by simp [wChain, wBankAt, List.getElem?_set_ne hj]⟩

theorem finalizeAt_LI (c : Cfg) (s : State) (j : Nat) (h : LI c s) : LI c (finalizeAt c s j).1 := by
  unfold finalizeAt
  cases hb : s.banks[j]? with
  | none => exact h
  | some b =>
    refine ⟨by simpa using h.nb, ?_, h.ok, h.bel, h.cap⟩
    intro x hx
    rcases List.mem_or_eq_of_mem_set hx with hx | rfl
    · exact h.len x hx
    · exact h.len b (List.mem_of_getElem? hb)

theorem finalizeAt_nofault (c : Cfg) (s : State) (j : Nat) (h : Inv c s) (hl : LI c s) : (finalizeAt c s j).2 = false := by
  unfold finalizeAt
  cases hb : s.banks[j]? with
  | none => rfl
  | some b =>
    simp only
    apply finalizePost_nofault
    intro it hit
    have hall := allIn c s j b (h.r j) hb it (by simp [bItems, hit])
    have : it.req ∈ s.arrived.filter (inB c j) := by
      rw [← h.r j]
      simp only [chain, bankChain, hb, List.mem_append, List.mem_map]
      exact Or.inr ⟨it, Or.inl (by simp [bItems, hit]), rfl⟩
    exact ⟨hl.ok _ (List.mem_filter.1 this).1, hl.cap _ (List.mem_filter.1 this).1⟩

theorem finalizeFrom_w (c : Cfg) (k : Nat) : ∀ (ks : List Nat) (s : State), Inv c s → LI c s →
    (finalizeFrom c ks s).2 = false ∧ LI c (finalizeFrom c ks s).1 ∧
    ∃ i, wChain c (finalizeFrom c ks s).1 k = (wChain c s k).drop i := by
  intro ks
  induction ks with
  | nil => intro s _ hl; exact ⟨rfl, hl, 0, rfl⟩
  | cons j ks ih =>
    intro s h hl
    simp only [finalizeFrom]
    rw [finalizeAt_nofault c s j h hl]
    simp only [Bool.false_eq_true, if_false]
    obtain ⟨a1, a2, i2, a3⟩ := ih _ (finalizeAt_inv c s j h) (finalizeAt_LI c s j hl)
    obtain ⟨i1, b3⟩ := finalizeAt_w c s j k
    exact ⟨a1, a2, i1 + i2, by rw [a3, b3, List.drop_drop]⟩

/-- the top port took every response bank `k` offered in this tick (its post-pipeline buffer is empty after
`finalizeBanks`) -/
def accepts (c : Cfg) (s : State) (k : Nat) : Bool := match (finalize c s).1.banks[k]? with
  | some b => b.post.isEmpty
  | none => true

/-! ### the other phases -/

theorem tickPipes_LI (c : Cfg) (s : State) (h : Inv c s) (hl : LI c s) : LI c (tickPipes c s) := by
  refine ⟨by simpa [tickPipes] using hl.nb, ?_, hl.ok, hl.bel, hl.cap⟩
  intro b' hb'
  simp only [tickPipes] at hb'
  obtain ⟨b, hb, rfl⟩ := List.mem_map.1 hb'
  exact (pipe_w c b (h.wf b hb).1 (hl.len b hb)).2.1

theorem tickDelays_LI (c : Cfg) (s : State) (h : Inv c s) (hl : LI c s) : LI c (tickDelays c s) := by
  refine ⟨by simpa [tickDelays] using hl.nb, ?_, hl.ok, hl.bel, hl.cap⟩
  intro b' hb'
  simp only [tickDelays] at hb'
  obtain ⟨b, hb, rfl⟩ := List.mem_map.1 hb'
  exact (delay_w c b (h.wf b hb).1 (hl.len b hb)).2.1

theorem foldl_dispatch_length (c : Cfg) : ∀ (todo : List Req) (st : List Bank × List Req),
    (todo.foldl (dispatchOne c) st).1.length = st.1.length := by
  intro todo
  induction todo with
  | nil => intro st; rfl
  | cons r rest ih =>
    intro st
    simp only [List.foldl_cons]
    rw [ih]
    unfold dispatchOne
    split
    · rfl
    · split
      · simp
      · rfl

theorem dispatch_LI (c : Cfg) (s : State) (h : Inv c s) (hl : LI c s) : LI c (dispatch c s) := by
  refine ⟨?_, ?_, hl.ok, hl.bel, hl.cap⟩
  · simp only [dispatch]; rw [foldl_dispatch_length]; exact hl.nb
  · exact (dispatch_fold_w c 0 s.pending (s.banks, []) h.wf hl.len (by intro r' hr'; simp at hr')).1

theorem drainTop_LI (c : Cfg) (s : State) (hl : LI c s) : LI c (drainTop s) := ⟨hl.nb, hl.len, hl.ok, hl.bel, hl.cap⟩

/-! ### one tick -/

theorem top_dom (c : Cfg) (k : Nat) (l : List Req) :
    Dom (wTopL c k l) (wPendL c k l) ∧ Strict (wTopL c k l) (wPendL c k l) := by
  simp only [wTopL, wPendL]
  generalize l.filter (inB c k) = m
  constructor
  · induction m with
    | nil => exact Dom.nil
    | cons a m ih => exact Dom.cons (by omega) ih
  · cases m with
    | nil => intro h; simp at h
    | cons a m => intro _; simp [hd]

theorem pipe_idle (c : Cfg) (b : Bank) (h : W1 b) (hpost : b.post = []) (hfree : b.lanes.flatMap laneItems = []) :
    (tickBankPipe c b).post = [] ∧ (tickBankPipe c b).lanes.flatMap laneItems = [] := by
  have := (pipe_items c b h).1
  simp only [bItems, hpost, hfree, List.nil_append, List.append_nil] at this
  have hdq : (tickBankPipe c b).dq = b.dq := rfl
  rw [hdq] at this
  have h2 : (tickBankPipe c b).post ++ (tickBankPipe c b).lanes.flatMap laneItems = [] := by
    have := congrArg List.length this
    simp only [List.length_append, List.length_map] at this
    apply List.eq_nil_of_length_eq_zero
    simp only [List.length_append]; omega
  exact List.append_eq_nil_iff.1 h2

theorem pipe_strict_bank (c : Cfg) (b : Bank) (h : W1 b) (hl : LenOk c b) (hp : 0 < c.post) (hpost : b.post = [])
    (hne : b.lanes.flatMap laneItems ≠ []) : Strict (wBank c b) (wBank c (tickBankPipe c b)) := by
  have h3 := (pipe_w c b h hl).2.2 hp hpost
  obtain ⟨l, hl1⟩ := h
  have hd1 := tickLane_dom c b.post l
  have hne' : wPost b.post ++ b.lanes.flatMap (wLane c 0) ≠ [] := by
    intro he
    apply hne
    have := congrArg (List.map (·.1)) he
    simp only [hl1, List.flatMap_cons, List.flatMap_nil, List.append_nil, List.map_append, wLane_reqs, hpost, wPost,
      List.map_nil, List.nil_append] at this
    simpa [hl1] using this
  have hdq : (tickBankPipe c b).dq = b.dq := rfl
  simp only [wBank, hdq]
  refine Strict.append _ _ ?_ h3 hne'
  simpa [tickBankPipe, hl1, tickLanes] using hd1

/-- the tick after `finalizeBanks` (no panic) -/
def afterFin (c : Cfg) (s1 : State) : State := drainTop (dispatch c (tickDelays c (tickPipes c s1)))

theorem wBankAt_some (c : Cfg) (bs : List Bank) (k : Nat) (b : Bank) (h : bs[k]? = some b) : wBankAt c bs k = wBank c b := by
  simp [wBankAt, h]

theorem afterFin_w (c : Cfg) (hd0 : 0 < c.depth) (hp : 0 < c.post) (s1 : State) (h1 : Inv c s1) (hl1 : LI c s1)
    (k : Nat) (hk : k < c.banks) :
    Dom (wChain c s1 k) (wChain c (afterFin c s1) k) ∧
    ((∀ b, s1.banks[k]? = some b → b.post = []) → Strict (wChain c s1 k) (wChain c (afterFin c s1) k)) := by
  -- invariants of the intermediate states
  have h2 := tickPipes_inv c s1 h1
  have hl2 := tickPipes_LI c s1 h1 hl1
  have h3 := tickDelays_inv c _ h2
  have hl3 := tickDelays_LI c _ h2 hl2
  have h4 := dispatch_inv c _ h3
  -- the banks of each state
  obtain ⟨b1, hb1⟩ : ∃ b, s1.banks[k]? = some b := ⟨s1.banks[k]'(by rw [hl1.nb]; exact hk), List.getElem?_eq_getElem _⟩
  have hm1 := List.mem_of_getElem? hb1
  have hb2 : (tickPipes c s1).banks[k]? = some (tickBankPipe c b1) := by simp [tickPipes, hb1]
  have hm2 := List.mem_of_getElem? hb2
  have hb3 : (tickDelays c (tickPipes c s1)).banks[k]? = some (tickBankDelay c (tickBankPipe c b1)) := by
    simp [tickDelays, tickPipes, hb1]
  -- domination, phase by phase
  have dP : Dom (wBank c b1) (wBank c (tickBankPipe c b1)) := (pipe_w c b1 (h1.wf b1 hm1).1 (hl1.len b1 hm1)).1
  have dD : Dom (wBank c (tickBankPipe c b1)) (wBank c (tickBankDelay c (tickBankPipe c b1))) :=
    (delay_w c _ (h2.wf _ hm2).1 (hl2.len _ hm2)).1
  have dX := (dispatch_fold_w c k (tickDelays c (tickPipes c s1)).pending ((tickDelays c (tickPipes c s1)).banks, [])
    h3.wf hl3.len (by intro r' hr'; simp at hr')).2
  simp only [List.nil_append] at dX
  have e3 : wBankAt c (tickDelays c (tickPipes c s1)).banks k = wBank c (tickBankDelay c (tickBankPipe c b1)) :=
    wBankAt_some c _ k _ hb3
  have ePend : (tickDelays c (tickPipes c s1)).pending = s1.pending := rfl
  have eTop : (dispatch c (tickDelays c (tickPipes c s1))).topIn = s1.topIn := rfl
  rw [e3, ePend] at dX
  -- the final chain
  have eF : wChain c (afterFin c s1) k =
      wBankAt c (dispatch c (tickDelays c (tickPipes c s1))).banks k ++
        wPendL c k (dispatch c (tickDelays c (tickPipes c s1))).pending ++ wPendL c k s1.topIn := by
    simp only [afterFin, wChain, drainTop, wPendL_append, eTop, wTopL, List.filter_nil, List.map_nil, List.append_nil,
      List.append_assoc]
  have e1 : wChain c s1 k = wBank c b1 ++ wPendL c k s1.pending ++ wTopL c k s1.topIn := by
    simp only [wChain, wBankAt_some c _ k _ hb1]
  have dX' : Dom (wBank c (tickBankDelay c (tickBankPipe c b1)) ++ wPendL c k s1.pending)
      (wBankAt c (dispatch c (tickDelays c (tickPipes c s1))).banks k ++
        wPendL c k (dispatch c (tickDelays c (tickPipes c s1))).pending) := dX
  have dT := top_dom c k s1.topIn
  rw [eF, e1]
  refine ⟨?_, ?_⟩
  · exact Dom.append (Dom.trans (Dom.append (Dom.trans dP dD) (Dom.refl _)) dX') dT.1
  · intro hpost
    have hp1 : b1.post = [] := hpost b1 hb1
    by_cases hA : wBank c b1 = []
    · -- the bank is empty and stays empty until dispatchPending
      have hA3 : wBank c (tickBankDelay c (tickBankPipe c b1)) = [] := (Dom.trans dP dD).nil_right hA
      by_cases hB : wPendL c k s1.pending = []
      · -- the head (if any) is in the port buffer
        have hX : wBankAt c (dispatch c (tickDelays c (tickPipes c s1))).banks k ++
            wPendL c k (dispatch c (tickDelays c (tickPipes c s1))).pending = [] := by
          apply dX'.nil_right; simp [hA3, hB]
        rw [hA, hB, hX]
        simpa using dT.2
      · have hs := dispatch_fold_strict c k hd0 (tickDelays c (tickPipes c s1)).pending
          ((tickDelays c (tickPipes c s1)).banks, []) h3.wf hl3.len (by intro r' hr'; simp at hr')
          (by simp only; rw [hl3.nb]; exact hk) (by simp only; rw [e3, hA3]) rfl
        simp only [List.nil_append] at hs
        rw [e3, ePend, hA3] at hs
        rw [hA]
        have hs' : Strict ([] ++ wPendL c k s1.pending)
            (wBankAt c (dispatch c (tickDelays c (tickPipes c s1))).banks k ++
              wPendL c k (dispatch c (tickDelays c (tickPipes c s1))).pending) := hs
        have dX'' : Dom ([] ++ wPendL c k s1.pending)
            (wBankAt c (dispatch c (tickDelays c (tickPipes c s1))).banks k ++
              wPendL c k (dispatch c (tickDelays c (tickPipes c s1))).pending) := by
          have := dX'; rw [hA3] at this; exact this
        exact Strict.append _ _ dX'' hs' (by simpa using hB)
    · -- the head is inside the bank
      have hw1 := (h1.wf b1 hm1).1
      have sB : Strict (wBank c b1) (wBank c (tickBankDelay c (tickBankPipe c b1))) := by
        by_cases hL : b1.lanes.flatMap laneItems = []
        · obtain ⟨q1, q2⟩ := pipe_idle c b1 hw1 hp1 hL
          exact Strict.dom_trans dP ((delay_w c _ (h2.wf _ hm2).1 (hl2.len _ hm2)).2.2 hd0 q1 q2)
        · exact Strict.trans_dom (pipe_strict_bank c b1 hw1 (hl1.len b1 hm1) hp hp1 hL) dD
      have s1' : Strict (wBank c b1 ++ wPendL c k s1.pending)
          (wBank c (tickBankDelay c (tickBankPipe c b1)) ++ wPendL c k s1.pending) :=
        Strict.append _ _ (Dom.trans dP dD) sB hA
      have s2' := Strict.trans_dom s1' dX'
      exact Strict.append _ _ (Dom.trans (Dom.append (Dom.trans dP dD) (Dom.refl _)) dX') s2' (by simp [hA])

theorem tick_eq (c : Cfg) (s : State) (h : Inv c s) (hl : LI c s) : tick c s = afterFin c (finalize c s).1 := by
  obtain ⟨this, hl1, _⟩ := finalizeFrom_w c 0 (List.range s.banks.length) s h hl
  have h1 := finalize_inv c s h
  have hcf : convFault c (tickDelays c (tickPipes c (finalize c s).1)).pending = false := by
    apply convFault_false
    intro r hr
    exact hl1.bel r (pending_sub_arrived c _ h1 r hr)
  unfold tick
  simp only [finalize] at hcf
  simp only [finalize, this, Bool.false_eq_true, if_false, afterFin, hcf]

theorem tick_LI (c : Cfg) (s : State) (h : Inv c s) (hl : LI c s) : LI c (tick c s) := by
  rw [tick_eq c s h hl]
  have h1 := finalize_inv c s h
  have hl1 : LI c (finalize c s).1 := (finalizeFrom_w c 0 _ s h hl).2.1
  have h2 := tickPipes_inv c _ h1
  have hl2 := tickPipes_LI c _ h1 hl1
  have h3 := tickDelays_inv c _ h2
  have hl3 := tickDelays_LI c _ h2 hl2
  exact drainTop_LI c _ (dispatch_LI c _ h3 hl3)

/-- **One tick on the weighted chain of bank `k`:** a prefix is answered, nothing that remains gets heavier, and when
the port took all of bank `k`'s responses the first remaining request gets strictly lighter. -/
theorem tick_w (c : Cfg) (hd0 : 0 < c.depth) (hp : 0 < c.post) (s : State) (h : Inv c s) (hl : LI c s)
    (k : Nat) (hk : k < c.banks) :
    ∃ i, Dom ((wChain c s k).drop i) (wChain c (tick c s) k) ∧
      (accepts c s k = true → Strict ((wChain c s k).drop i) (wChain c (tick c s) k)) := by
  obtain ⟨_, hl1, i, hi⟩ := finalizeFrom_w c k (List.range s.banks.length) s h hl
  have h1 := finalize_inv c s h
  obtain ⟨a1, a2⟩ := afterFin_w c hd0 hp (finalize c s).1 h1 hl1 k hk
  rw [tick_eq c s h hl]
  refine ⟨i, ?_, ?_⟩
  · rw [← hi]; exact a1
  · intro hacc
    rw [← hi]
    apply a2
    intro b hb
    simp only [accepts, hb] at hacc
    simpa using hacc

end C17
