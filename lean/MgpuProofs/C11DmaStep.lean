import MgpuProofs.C11DmaFlow
/-! # C11 helper: when exactly a copy completes inside a tick -/
namespace C11

theorem sendCP_fields (s : Dma) :
    s.sendCP.1.memIn = s.memIn ∧ s.sendCP.1.pending = s.pending ∧
    s.sendCP.1.processing = s.processing ∧ s.sendCP.1.completed = s.completed ∧
    s.sendCP.1.nextId = s.nextId ∧ s.sendCP.1.fault = s.fault := by
  unfold Dma.sendCP; cases s.toCP <;> simp

theorem sendMem_fields (s : Dma) :
    s.sendMem.1.memIn = s.memIn ∧ s.sendMem.1.pending = s.pending ∧
    s.sendMem.1.processing = s.processing ∧ s.sendMem.1.completed = s.completed ∧
    s.sendMem.1.nextId = s.nextId ∧ s.sendMem.1.fault = s.fault := by
  unfold Dma.sendMem
  cases s.toMem with
  | nil => simp
  | cons r rest => simp only; split <;> simp

/-- `parseFromMem`: either `completed` is unchanged, or exactly one copy id is appended, and then
    the parsed response was for the last still-pending sub-request of that copy's collection -/
theorem parseFromMem_completed {s : Dma} {n : Nat} {d : List Nat} (hd : DInv s n d) :
    s.parseFromMem.1.completed = s.completed ∨
    ∃ c ∈ s.processing, ∃ id rest, s.memIn = id :: rest ∧ id ∈ c.subs ∧ id ∈ pendIds s ∧
      s.parseFromMem.1.completed = s.completed ++ [c.sup.id] ∧
      (∀ x ∈ c.subs, x ≠ id → x ∉ pendIds s) ∧
      (∀ x ∈ c.subs, x ∉ pendIds s.parseFromMem.1) ∧ s.parseFromMem.1.nextId = s.nextId := by
  rcases parseFromMem_cases s with ⟨_, e⟩ | ⟨id, rest, hm, hc⟩
  · rw [e]; exact .inl rfl
  · rcases hc with ⟨hn, e⟩ | ⟨hid, hnone, e⟩ | ⟨hid, c', hd', hcnt, e⟩ | ⟨hid, c', hd', hcnt, e⟩
    · rw [e]; exact .inl rfl
    · rw [e]; exact .inl rfl
    · rw [e]; exact .inl rfl
    · right
      obtain ⟨c0, h0, hin, hc, hs⟩ := hd.decAll_some hd'
      refine ⟨c0, h0, id, rest, hm, hin, hid, by rw [e, hs], ?_⟩
      have hpe : pendIds s.parseFromMem.1 = (pendIds s).filter (· != id) := by
        rw [e, ← pendIds_filter]; rfl
      have hQ : ∀ x, x ∈ pendIds s.parseFromMem.1 ↔ x ∈ pendIds s ∧ x ≠ id := by
        intro x; rw [hpe]; exact mem_filter_ne _ _ _
      have hcr := count_remove' c0.subs (pendIds s) (pendIds s.parseFromMem.1) id hQ
        (hd.subs_nodup c0 h0) hin hid
      have hce := hd.count_eq c0 h0
      have hnil : c0.subs.filter (fun x => decide (x ∈ pendIds s.parseFromMem.1)) = [] := by
        apply List.eq_nil_of_length_eq_zero; omega
      have hall : ∀ x ∈ c0.subs, x ∉ pendIds s.parseFromMem.1 := by
        intro x hx hp
        have : x ∈ c0.subs.filter (fun x => decide (x ∈ pendIds s.parseFromMem.1)) :=
          List.mem_filter.2 ⟨hx, by simpa using hp⟩
        rw [hnil] at this; cases this
      refine ⟨?_, hall, by rw [e]⟩
      intro x hx hne hp
      exact hall x hx ((hQ x).2 ⟨hp, hne⟩)

theorem parseFromCP_fields (s : Dma) :
    s.parseFromCP.1.completed = s.completed ∧
    ∀ x, x ∈ pendIds s.parseFromCP.1 → x ∈ pendIds s ∨ s.nextId ≤ x := by
  rcases parseFromCP_cases s with ⟨e, _⟩ | ⟨r, rest, _, _, e⟩
  · rw [e]; exact ⟨rfl, fun x hx => .inl hx⟩
  · rw [e]
    refine ⟨rfl, ?_⟩
    intro x hx
    simp only [pendIds, List.map_append, List.mem_append] at hx
    rcases hx with hx | hx
    · exact .inl hx
    · rw [subReqs_ids, List.mem_range'_1] at hx; exact .inr hx.1

/-- **When a copy completes.** In one tick `completed` is unchanged or grows by exactly one copy id;
    in the latter case the response parsed in this tick (head of ToMem's incoming buffer) answers a
    sub-request of that copy, every other sub-request of the copy had already been answered, and
    after the tick none of its sub-requests is pending. -/
theorem tick_completed {s : Dma} {n : Nat} {d : List Nat} (hd : DInv s n d) :
    s.tick.1.completed = s.completed ∨
    ∃ c ∈ s.processing, ∃ id rest, s.memIn = id :: rest ∧ id ∈ c.subs ∧ id ∈ pendIds s ∧
      s.tick.1.completed = s.completed ++ [c.sup.id] ∧
      (∀ x ∈ c.subs, x ≠ id → x ∉ pendIds s) ∧
      (∀ x ∈ c.subs, x ∉ pendIds s.tick.1) := by
  obtain ⟨a1, a2, a3, a4, a5, _⟩ := sendCP_fields s
  obtain ⟨b1, b2, b3, b4, b5, _⟩ := sendMem_fields s.sendCP.1
  have hd1 := hd.sendCP.sendMem
  have hpe : pendIds s.sendCP.1.sendMem.1 = pendIds s := by unfold pendIds; rw [b2, a2]
  have key : ∀ t : Dma, (t = s.sendCP.1.sendMem.1.parseFromMem.1 ∨
      t = s.sendCP.1.sendMem.1.parseFromMem.1.parseFromCP.1) →
      (t.completed = s.completed ∨
      ∃ c ∈ s.processing, ∃ id rest, s.memIn = id :: rest ∧ id ∈ c.subs ∧ id ∈ pendIds s ∧
        t.completed = s.completed ++ [c.sup.id] ∧
        (∀ x ∈ c.subs, x ≠ id → x ∉ pendIds s) ∧ (∀ x ∈ c.subs, x ∉ pendIds t)) := by
    intro t ht
    have hcp := parseFromCP_fields s.sendCP.1.sendMem.1.parseFromMem.1
    rcases parseFromMem_completed hd1 with e | ⟨c, hc, id, rest, hm, hin, hid, e, hoth, hall, hnx⟩
    · left
      rcases ht with rfl | rfl
      · rw [e, b4, a4]
      · rw [hcp.1, e, b4, a4]
    · right
      rw [b3, a3] at hc
      rw [b1, a1] at hm
      rw [hpe] at hid hoth
      rw [b4, a4] at e
      refine ⟨c, hc, id, rest, hm, hin, hid, ?_, hoth, ?_⟩
      · rcases ht with rfl | rfl
        · exact e
        · rw [hcp.1]; exact e
      · rcases ht with rfl | rfl
        · exact hall
        · intro x hx hp
          rcases hcp.2 x hp with hp | hp
          · exact hall x hx hp
          · have := hd.subs_lt c hc x hx
            rw [hnx, b5, a5] at hp; omega
  unfold Dma.tick
  split
  · exact .inl rfl
  · simp only
    split
    · exact key _ (.inl rfl)
    · exact key _ (.inr rfl)

end C11
