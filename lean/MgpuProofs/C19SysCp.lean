import MgpuProofs.C19SysDefs
/-! # C19 — the closed system: the eight stages of the command processor on the shapes of one GPU

`sameCfg_cstage`, `cfgOK_of_same`, `idle_cstage`, `busy_cstage`. Everything else lives in the namespace
`C19.SY.CpS` (so that the helper names cannot clash with those of the sibling files):

* `Helpers`: `pushAll_app` / `pushAll_nil` / `pushAll_map` (a fan-out into an empty buffer with room), `push_nil`,
  `mod_w64`, `mem_seg`, `mem_ordReset`, `mem_ordRestart`, `length_ordReset`, `length_ordRestart`, `mem_ordOf`,
  `length_ordOf`, `qFull_mid`, `fold_strict` (the strict cache fan-out), `baseX_eq`, `setTok_idem`;
* `Stages`: one computation lemma per (stage, situation), on the shape `setTok (baseX x b) cl k o i n` with an
  arbitrary carrier `b` of the configuration;
* `Cfg`: the stages keep the configuration;
* `Shapes`: transport of `ordOf` / `sizeOf` / `qFull` / `QS` along `SameCfg`, and the three ways a token
  sub-phase is (re-)established: `gtok_start`, `gtok_next`, `gtok_more`; `qs_last` / `gs_ans` for the answer;
* `Meas`: the measure decreases on every progress step;
* `Assembly` / `Main`: `Res` (the statement of `busy_cstage` about a result), per class `res_rRdma … res_rTLB`,
  `res_stageOf`, `res_hFlush`, `res_hCtrl`. -/
namespace C19
namespace SY
open CP (Cp Cls K Sub Cmd Ans)

namespace CpS

section Helpers

def isShoot : Cmd → Bool
  | .shoot _ => true
  | _ => false

theorem baseX_eq (x : Cmd) (b : Cp) : baseX x b = { base b with shoot := isShoot x } := by
  cases x <;> rfl

theorem setTok_idem (x : Cmd) (b : Cp) (cl : Cls) (k : K) (o i : List Sub) (n : Nat) :
    setTok (baseX x b) cl k o i n = setTok (baseX x (setTok (baseX x b) cl k o i n)) cl k o i n := by
  rw [baseX_eq, baseX_eq]; cases cl <;> cases k <;> rfl

theorem pushAll_app {α : Type} (cap : Nat) (l : List α) : ∀ out : List α, out.length + l.length ≤ cap →
    CP.pushAll out cap l = out ++ l := by
  induction l with
  | nil => intro out _; simp [CP.pushAll]
  | cons a l ih =>
    intro out h
    simp only [List.length_cons] at h
    have h1 : out.length < cap := by omega
    have : CP.pushAll out cap (a :: l) = CP.pushAll (out ++ [a]) cap l := by
      simp [CP.pushAll, CP.push, h1]
    rw [this, ih (out ++ [a]) (by simp; omega)]; simp

theorem pushAll_nil {α : Type} (cap : Nat) (l : List α) (h : l.length ≤ cap) : CP.pushAll [] cap l = l := by
  rw [pushAll_app cap l [] (by simpa using h)]; rfl

theorem pushAll_map {α : Type} (cap : Nat) (f : Nat → α) (l : List Nat) (h : l.length ≤ cap) :
    CP.pushAll [] cap (l.map f) = l.map f := pushAll_nil _ _ (by simpa using h)

theorem push_nil {α : Type} (cap : Nat) (a : α) (h : 1 ≤ cap) : CP.push [] cap a = [a] := by
  have : 0 < cap := h
  simp [CP.push, this]

theorem mod_w64 {n : Nat} (h : n < CP.w64) : n % CP.w64 = n := Nat.mod_eq_of_lt h

theorem length_toks (k : K) (t : Nat) (l : List Nat) : (toks k t l).length = l.length := by simp [toks]

theorem mem_seg (a n i : Nat) : i ∈ CP.seg a n ↔ a ≤ i ∧ i < a + n := by
  simp only [CP.seg, List.mem_map, List.mem_range]
  constructor
  · rintro ⟨j, hj, rfl⟩; omega
  · intro h; exact ⟨i - a, by omega, by omega⟩

theorem length_seg (a n : Nat) : (CP.seg a n).length = n := by simp [CP.seg]

theorem mem_ordReset (c : Cp) (i : Nat) : i ∈ c.ordReset ↔ i < c.nCache := by
  simp only [Cp.ordReset, Cp.nCache, List.mem_append, mem_seg]; omega

theorem mem_ordRestart (c : Cp) (i : Nat) : i ∈ c.ordRestart ↔ i < c.nCache := by
  simp only [Cp.ordRestart, Cp.nCache, List.mem_append, mem_seg]; omega

theorem length_ordReset (c : Cp) : c.ordReset.length = c.nCache := by
  simp only [Cp.ordReset, Cp.nCache, List.length_append, length_seg]; omega

theorem length_ordRestart (c : Cp) : c.ordRestart.length = c.nCache := by
  simp only [Cp.ordRestart, Cp.nCache, List.length_append, length_seg]; omega

theorem mem_ordOf (c : Cp) (cl : Cls) (k : K) (h1 : cl ≠ .rdma) (h2 : cl ≠ .pmc) (i : Nat) :
    i ∈ ordOf c cl k ↔ i < sizeOf c cl := by
  cases cl <;> cases k <;> simp_all [ordOf, sizeOf, mem_ordReset, mem_ordRestart]

theorem length_ordOf (c : Cp) (cl : Cls) (k : K) (h2 : cl ≠ .pmc) : (ordOf c cl k).length = sizeOf c cl := by
  cases cl <;> cases k <;> simp_all [ordOf, sizeOf, length_ordReset, length_ordRestart]

theorem qFull_mid (c : Cp) (rq g : Bool) (cl : Cls) (h1 : cl ≠ .rdma) (h2 : cl ≠ .pmc) (i : Nat) :
    qFull c rq g cl i ↔ (g = true ∧ i < sizeOf c cl) := by
  cases cl <;> simp_all [qFull]

/-- the strict cache fan-out from a fault-free state with enough room: nothing faults, every token is queued -/
theorem fold_strict (k : K) (tag : Nat) : ∀ (l : List Nat) (s : Cp), s.fault = none →
    s.cacheOut.length + l.length ≤ s.capCache → s.numCache + l.length < CP.w64 →
    l.foldl (fun s i => s.cacheStrict ⟨k, i, tag⟩) s =
      { s with cacheOut := s.cacheOut ++ toks k tag l, numCache := s.numCache + l.length } := by
  intro l
  induction l with
  | nil => intro s _ _ _; simp [toks]
  | cons a l ih =>
    intro s hf hc hn
    simp only [List.length_cons] at hc hn
    have h1 : s.cacheOut.length < s.capCache := by omega
    have h2 : (s.numCache + 1) % CP.w64 = s.numCache + 1 := Nat.mod_eq_of_lt (by omega)
    have hs : s.cacheStrict ⟨k, a, tag⟩ =
        { s with cacheOut := s.cacheOut ++ [⟨k, a, tag⟩], numCache := s.numCache + 1 } := by
      simp [Cp.cacheStrict, hf, h1, CP.inc, h2]
    rw [List.foldl_cons, hs]
    rw [ih { s with cacheOut := s.cacheOut ++ [⟨k, a, tag⟩], numCache := s.numCache + 1 } hf
      (by simp only [List.length_append, List.length_singleton]; omega) (by show s.numCache + 1 + l.length < CP.w64; omega)]
    simp [toks]; omega

end Helpers

section Stages

theorem hFlush_noop (c : Cp) (h : ∀ f rest, c.drvIn ≠ .flush f :: rest) : Cp.hFlush c = (c, false) := by
  unfold Cp.hFlush
  split
  · rfl
  · split
    · exact absurd ‹_› (h _ _)
    · rfl

theorem hCtrl_nil (c : Cp) (h : c.drvIn = []) : Cp.hCtrl c = (c, false) := by
  simp [Cp.hCtrl, h]
theorem rRdma_nil (c : Cp) (h : c.rdmaIn = []) : Cp.rRdma c = (c, false) := by
  simp [Cp.rRdma, h]
theorem rCU_nil (c : Cp) (h : c.cuIn = []) : Cp.rCU c = (c, false) := by
  simp [Cp.rCU, h]
theorem rAT_nil (c : Cp) (h : c.atIn = []) : Cp.rAT c = (c, false) := by
  simp [Cp.rAT, h]
theorem rCache_nil (c : Cp) (h : c.cacheIn = []) : Cp.rCache c = (c, false) := by
  simp [Cp.rCache, h]
theorem rTLB_nil (c : Cp) (h : c.tlbIn = []) : Cp.rTLB c = (c, false) := by
  simp [Cp.rTLB, h]
theorem rPMC_nil (c : Cp) (h : c.pmcIn = []) : Cp.rPMC c = (c, false) := by
  simp [Cp.rPMC, h]

theorem hCtrl_drain (b : Cp) (h : 1 ≤ b.capRdma) :
    Cp.hCtrl { base b with drvIn := [.drain] } =
      (setTok (baseX .drain b) .rdma .flush (toks .flush 0 [0]) [] 1, true) := by
  have h' : 0 < b.capRdma := h
  simp [Cp.hCtrl, setTok, baseX_eq, base, toks, isShoot, h']

theorem hCtrl_rdmaRestart (b : Cp) (h : 1 ≤ b.capRdma) :
    Cp.hCtrl { base b with drvIn := [.rdmaRestart] } =
      (setTok (baseX .rdmaRestart b) .rdma .restart (toks .restart 0 [0]) [] 1, true) := by
  have h' : 0 < b.capRdma := h
  simp [Cp.hCtrl, setTok, baseX_eq, base, toks, isShoot, CP.push, h']

theorem hCtrl_shoot (b : Cp) (id : Nat) (h1 : b.nCU ≤ b.capCU) (h2 : b.nCU < CP.w64) :
    Cp.hCtrl { base b with drvIn := [.shoot id] } =
      (setTok (baseX (.shoot id) { b with curShoot := some id }) .cu .flush
        (toks .flush 0 (List.range b.nCU)) [] b.nCU, true) := by
  have hp := pushAll_map b.capCU (fun i => (⟨.flush, i, 0⟩ : Sub)) (List.range b.nCU) (by simpa using h1)
  simp [Cp.hCtrl, setTok, baseX_eq, base, toks, isShoot, hp, mod_w64 h2]

theorem hCtrl_restart_gen (s s' : Cp) (rest : List Cmd) (hf : s.fault = none) (hd : s.drvIn = .restart :: rest)
    (hs : s.ordRestart.foldl (fun s i => s.cacheStrict ⟨.restart, i, 0⟩) s = s') (hf' : s'.fault = none) :
    Cp.hCtrl s = ({ s' with drvIn := rest }, true) := by
  unfold Cp.hCtrl
  rw [if_neg (by simp [hf])]
  split <;> simp_all

theorem hCtrl_restart (b : Cp) (h1 : b.nCache ≤ b.capCache) (h2 : b.nCache < CP.w64) :
    Cp.hCtrl { base b with drvIn := [.restart] } =
      (setTok (baseX .restart b) .cache .restart (toks .restart 0 b.ordRestart) [] b.nCache, true) := by
  have hf := fold_strict .restart 0 b.ordRestart { base b with drvIn := [.restart] } rfl
    (by simpa [base, length_ordRestart] using h1) (by simpa [base, length_ordRestart] using h2)
  rw [hCtrl_restart_gen _ _ [] rfl rfl hf rfl]
  simp [setTok, baseX_eq, base, isShoot, length_ordRestart]

theorem hCtrl_mig (b : Cp) (id : Nat) (h : 1 ≤ b.capPMC) :
    Cp.hCtrl { base b with drvIn := [.mig id] } = ({ base b with pmcOut := [⟨.flush, 0, id⟩] }, true) := by
  have h' : 0 < b.capPMC := h
  simp [Cp.hCtrl, base, h']

theorem rRdma_flush (b : Cp) (i n : Nat) (h : 1 ≤ b.capDrv) :
    Cp.rRdma (setTok (baseX .drain b) .rdma .flush [] (toks .flush 0 [i]) n) =
      ({ base b with drvOut := [.drain] }, true) := by
  have h' : 0 < b.capDrv := h
  simp [Cp.rRdma, setTok, baseX_eq, base, toks, isShoot, h']

theorem rRdma_restart (b : Cp) (i n : Nat) (h : 1 ≤ b.capDrv) :
    Cp.rRdma (setTok (baseX .rdmaRestart b) .rdma .restart [] (toks .restart 0 [i]) n) =
      ({ base b with drvOut := [.rdmaRestart] }, true) := by
  have h' : 0 < b.capDrv := h
  simp [Cp.rRdma, setTok, baseX_eq, base, toks, isShoot, CP.push, h']

theorem rCU_more (x : Cmd) (b : Cp) (k : K) (o : List Sub) (i : Nat) (I' : List Nat) (n : Nat)
    (hk : k ≠ .junk) (hn : n ≠ 0) :
    Cp.rCU (setTok (baseX x b) .cu k o (toks k 0 (i :: I')) (n + 1)) =
      (setTok (baseX x b) .cu k o (toks k 0 I') n, true) := by
  cases k <;> simp_all [Cp.rCU, setTok, baseX_eq, base, toks, CP.dec]

theorem rCU_flush_last (b : Cp) (id i : Nat) (h1 : b.nAT ≤ b.capAT) (h2 : b.nAT < CP.w64) :
    Cp.rCU (setTok (baseX (.shoot id) b) .cu .flush [] (toks .flush 0 [i]) 1) =
      (setTok (baseX (.shoot id) b) .at .flush (toks .flush 0 (List.range b.nAT)) [] b.nAT, true) := by
  have hp := pushAll_map b.capAT (fun i => (⟨.flush, i, 0⟩ : Sub)) (List.range b.nAT) (by simpa using h1)
  simp [Cp.rCU, setTok, baseX_eq, base, toks, CP.dec, hp, mod_w64 h2]

theorem rCU_restart_last (b : Cp) (i : Nat) (h : 1 ≤ b.capDrv) :
    Cp.rCU (setTok (baseX .restart b) .cu .restart [] (toks .restart 0 [i]) 1) =
      ({ base b with drvOut := [.restart] }, true) := by
  have h' : 0 < b.capDrv := h
  simp [Cp.rCU, setTok, baseX_eq, base, toks, CP.dec, isShoot, CP.push, h']

theorem rAT_more (x : Cmd) (b : Cp) (k : K) (o : List Sub) (i : Nat) (I' : List Nat) (n : Nat)
    (hk : k ≠ .junk) (hn : n ≠ 0) :
    Cp.rAT (setTok (baseX x b) .at k o (toks k 0 (i :: I')) (n + 1)) =
      (setTok (baseX x b) .at k o (toks k 0 I') n, true) := by
  cases k <;> simp_all [Cp.rAT, setTok, baseX_eq, base, toks, CP.dec]

theorem rAT_flush_last (b : Cp) (id i : Nat) (h1 : b.nCache ≤ b.capCache) (h2 : b.nCache < CP.w64) :
    Cp.rAT (setTok (baseX (.shoot id) b) .at .flush [] (toks .flush 0 [i]) 1) =
      (setTok (baseX (.shoot id) b) .cache .flush (toks .flush 1 b.ordReset) [] b.nCache, true) := by
  have hp := pushAll_map b.capCache (fun i => (⟨.flush, i, 1⟩ : Sub)) b.ordReset (by simpa [length_ordReset] using h1)
  have ho : ∀ (s : Cp), s.nI = b.nI → s.nS = b.nS → s.nV = b.nV → s.n2 = b.n2 → s.ordReset = b.ordReset := by
    intro s e1 e2 e3 e4; simp only [Cp.ordReset, e1, e2, e3, e4]
  have hc : ∀ (s : Cp), s.nI = b.nI → s.nS = b.nS → s.nV = b.nV → s.n2 = b.n2 → s.nCache = b.nCache := by
    intro s e1 e2 e3 e4; simp only [Cp.nCache, e1, e2, e3, e4]
  simp [Cp.rAT, setTok, baseX_eq, base, toks, CP.dec, ho, hc, hp, mod_w64 h2]

theorem rAT_restart_last (b : Cp) (i : Nat) (h1 : b.nCU ≤ b.capCU) (h2 : b.nCU < CP.w64) :
    Cp.rAT (setTok (baseX .restart b) .at .restart [] (toks .restart 0 [i]) 1) =
      (setTok (baseX .restart b) .cu .restart (toks .restart 0 (List.range b.nCU)) [] b.nCU, true) := by
  have hp := pushAll_map b.capCU (fun i => (⟨.restart, i, 0⟩ : Sub)) (List.range b.nCU) (by simpa using h1)
  simp [Cp.rAT, setTok, baseX_eq, base, toks, CP.dec, hp, mod_w64 h2]

theorem rCache_more (x : Cmd) (b : Cp) (k : K) (o : List Sub) (i : Nat) (I' : List Nat) (n : Nat)
    (hk : k ≠ .junk) (hn : n ≠ 0) :
    Cp.rCache (setTok (baseX x b) .cache k o (toks k 0 (i :: I')) (n + 1)) =
      (setTok (baseX x b) .cache k o (toks k 0 I') n, true) := by
  cases k <;> simp_all [Cp.rCache, setTok, baseX_eq, base, toks, CP.dec]

theorem rCache_flush_last (b : Cp) (id i : Nat) (hs : b.curShoot = some id) (h1 : b.nTLB ≤ b.capTLB)
    (h2 : b.nTLB < CP.w64) :
    Cp.rCache (setTok (baseX (.shoot id) b) .cache .flush [] (toks .flush 0 [i]) 1) =
      (setTok (baseX (.shoot id) { b with curFlush := none }) .tlb .flush
        (toks .flush id (List.range b.nTLB)) [] b.nTLB, true) := by
  have hp := pushAll_map b.capTLB (fun i => (⟨.flush, i, id⟩ : Sub)) (List.range b.nTLB) (by simpa using h1)
  simp [Cp.rCache, setTok, baseX_eq, base, toks, CP.dec, isShoot, hs, hp, mod_w64 h2]

theorem rCache_restart_last (b : Cp) (i : Nat) (h1 : b.nTLB ≤ b.capTLB) (h2 : b.nTLB < CP.w64) :
    Cp.rCache (setTok (baseX .restart b) .cache .restart [] (toks .restart 0 [i]) 1) =
      (setTok (baseX .restart b) .tlb .restart (toks .restart 0 (List.range b.nTLB)) [] b.nTLB, true) := by
  have hp := pushAll_map b.capTLB (fun i => (⟨.restart, i, 0⟩ : Sub)) (List.range b.nTLB) (by simpa using h1)
  simp [Cp.rCache, setTok, baseX_eq, base, toks, CP.dec, hp, mod_w64 h2]

theorem rTLB_more (x : Cmd) (b : Cp) (k : K) (o : List Sub) (i : Nat) (I' : List Nat) (n : Nat)
    (hk : k ≠ .junk) (hn : n ≠ 0) :
    Cp.rTLB (setTok (baseX x b) .tlb k o (toks k 0 (i :: I')) (n + 1)) =
      (setTok (baseX x b) .tlb k o (toks k 0 I') n, true) := by
  cases k <;> simp_all [Cp.rTLB, setTok, baseX_eq, base, toks, CP.dec]

theorem rTLB_flush_last (b : Cp) (id i : Nat) (h : 1 ≤ b.capDrv) :
    Cp.rTLB (setTok (baseX (.shoot id) b) .tlb .flush [] (toks .flush 0 [i]) 1) =
      ({ base b with drvOut := [.shoot] }, true) := by
  have h' : 0 < b.capDrv := h
  simp [Cp.rTLB, setTok, baseX_eq, base, toks, CP.dec, isShoot, CP.push, h']

theorem rTLB_restart_last (b : Cp) (i : Nat) (h1 : b.nAT ≤ b.capAT) (h2 : b.nAT < CP.w64) :
    Cp.rTLB (setTok (baseX .restart b) .tlb .restart [] (toks .restart 0 [i]) 1) =
      (setTok (baseX .restart b) .at .restart (toks .restart 0 (List.range b.nAT)) [] b.nAT, true) := by
  have hp := pushAll_map b.capAT (fun i => (⟨.restart, i, 0⟩ : Sub)) (List.range b.nAT) (by simpa using h1)
  simp [Cp.rTLB, setTok, baseX_eq, base, toks, CP.dec, hp, mod_w64 h2]

theorem rPMC_in (b : Cp) (h : 1 ≤ b.capDrv) :
    Cp.rPMC { base b with pmcIn := [⟨.flush, 0, 0⟩] } = ({ base b with drvOut := [.mig] }, true) := by
  have h' : 0 < b.capDrv := h
  simp [Cp.rPMC, base, h']

end Stages

section Cfg

theorem SameCfg.rfl' (c : Cp) : SameCfg c c := ⟨rfl, rfl, rfl, rfl, rfl, rfl, rfl, rfl, rfl, rfl, rfl, rfl, rfl, rfl, rfl⟩

theorem SameCfg.trans' {a b c : Cp} (h1 : SameCfg a b) (h2 : SameCfg b c) : SameCfg a c := by
  unfold SameCfg at *
  obtain ⟨a1, a2, a3, a4, a5, a6, a7, a8, a9, a10, a11, a12, a13, a14, a15⟩ := h1
  obtain ⟨b1, b2, b3, b4, b5, b6, b7, b8, b9, b10, b11, b12, b13, b14, b15⟩ := h2
  exact ⟨b1.trans a1, b2.trans a2, b3.trans a3, b4.trans a4, b5.trans a5, b6.trans a6, b7.trans a7, b8.trans a8,
    b9.trans a9, b10.trans a10, b11.trans a11, b12.trans a12, b13.trans a13, b14.trans a14, b15.trans a15⟩

theorem sameCfg_strict (s : Cp) (m : Sub) : SameCfg s (s.cacheStrict m) := by
  unfold Cp.cacheStrict
  split
  · exact SameCfg.rfl' s
  · split <;> exact SameCfg.rfl' s

theorem sameCfg_fold (f : Nat → Sub) : ∀ (l : List Nat) (s : Cp),
    SameCfg s (l.foldl (fun s i => s.cacheStrict (f i)) s) := by
  intro l
  induction l with
  | nil => intro s; exact SameCfg.rfl' s
  | cons a l ih => intro s; exact SameCfg.trans' (sameCfg_strict s (f a)) (ih _)

theorem sameCfg_hFlush (c : Cp) : SameCfg c (Cp.hFlush c).1 := by
  unfold Cp.hFlush
  split
  · exact SameCfg.rfl' c
  · split
    · split
      · exact SameCfg.rfl' c
      · split
        · exact SameCfg.rfl' c
        · have h := sameCfg_fold (fun i => ⟨.flush, i, 0⟩) c.ordFlush c
          dsimp only
          split
          · exact h
          · refine SameCfg.trans' h ?_
            split <;> exact SameCfg.rfl' _
    · exact SameCfg.rfl' c

theorem sameCfg_hCtrl (c : Cp) : SameCfg c (Cp.hCtrl c).1 := by
  unfold Cp.hCtrl
  split
  · exact SameCfg.rfl' c
  · split
    · split <;> exact SameCfg.rfl' c
    · exact SameCfg.rfl' c
    · split
      · exact SameCfg.rfl' c
      · split <;> exact SameCfg.rfl' c
    · have h := sameCfg_fold (fun i => ⟨.restart, i, 0⟩) c.ordRestart c
      dsimp only
      split
      · exact h
      · exact SameCfg.trans' h (SameCfg.rfl' _)
    · split <;> exact SameCfg.rfl' c
    · exact SameCfg.rfl' c

theorem sameCfg_rRdma (c : Cp) : SameCfg c (Cp.rRdma c).1 := by
  simp only [Cp.rRdma]; repeat' split
  all_goals exact SameCfg.rfl' c

theorem sameCfg_rCU (c : Cp) : SameCfg c (Cp.rCU c).1 := by
  simp only [Cp.rCU]; repeat' split
  all_goals exact SameCfg.rfl' c

theorem sameCfg_rAT (c : Cp) : SameCfg c (Cp.rAT c).1 := by
  simp only [Cp.rAT]; repeat' split
  all_goals exact SameCfg.rfl' c

theorem sameCfg_rCache (c : Cp) : SameCfg c (Cp.rCache c).1 := by
  simp only [Cp.rCache]; repeat' split
  all_goals exact SameCfg.rfl' c

theorem sameCfg_rTLB (c : Cp) : SameCfg c (Cp.rTLB c).1 := by
  simp only [Cp.rTLB]; repeat' split
  all_goals exact SameCfg.rfl' c

theorem sameCfg_rPMC (c : Cp) : SameCfg c (Cp.rPMC c).1 := by
  simp only [Cp.rPMC]; repeat' split
  all_goals exact SameCfg.rfl' c

theorem cstage_ge (k : Nat) (c : Cp) : cstageFn (k + 8) c = (c, false) := by
  simp [cstageFn, CP.stages]

end Cfg

section Shapes

macro "same_rfl" : tactic =>
  `(tactic| exact ⟨rfl, rfl, rfl, rfl, rfl, rfl, rfl, rfl, rfl, rfl, rfl, rfl, rfl, rfl, rfl⟩)

theorem sameCfg_setTok (x : Cmd) (b : Cp) (cl : Cls) (k : K) (o i : List Sub) (n : Nat) :
    SameCfg b (setTok (baseX x b) cl k o i n) := by
  rw [baseX_eq]; cases cl <;> cases k <;> same_rfl

theorem curShoot_setTok (x : Cmd) (b : Cp) (cl : Cls) (k : K) (o i : List Sub) (n : Nat) :
    (setTok (baseX x b) cl k o i n).curShoot = b.curShoot := by
  rw [baseX_eq]; cases cl <;> cases k <;> rfl

theorem drvIn_setTok (x : Cmd) (b : Cp) (cl : Cls) (k : K) (o i : List Sub) (n : Nat) :
    (setTok (baseX x b) cl k o i n).drvIn = [] := by
  rw [baseX_eq]; cases cl <;> cases k <;> rfl

theorem inn_setTok_self (x : Cmd) (b : Cp) (cl : Cls) (k : K) (o i : List Sub) (n : Nat) :
    (setTok (baseX x b) cl k o i n).inn cl = i := by
  rw [baseX_eq]; cases cl <;> cases k <;> rfl

theorem inn_setTok_other (x : Cmd) (b : Cp) (cl cl' : Cls) (k : K) (o i : List Sub) (n : Nat) (h : cl' ≠ cl) :
    (setTok (baseX x b) cl k o i n).inn cl' = [] := by
  rw [baseX_eq]; cases cl <;> cases cl' <;> cases k <;> first | rfl | exact absurd rfl h

theorem nCache_same {c c' : Cp} (h : SameCfg c c') : c'.nCache = c.nCache := by
  obtain ⟨_, _, _, a4, a5, a6, a7, _⟩ := h
  simp only [Cp.nCache, a4, a5, a6, a7]

theorem ordOf_same {c c' : Cp} (h : SameCfg c c') (cl : Cls) (k : K) : ordOf c' cl k = ordOf c cl k := by
  obtain ⟨a1, a2, a3, a4, a5, a6, a7, _⟩ := h
  cases cl <;> cases k <;> simp only [ordOf, Cp.ordReset, Cp.ordRestart, a1, a2, a3, a4, a5, a6, a7]

theorem sizeOf_same {c c' : Cp} (h : SameCfg c c') (cl : Cls) : sizeOf c' cl = sizeOf c cl := by
  have hn := nCache_same h
  obtain ⟨a1, a2, a3, _⟩ := h
  cases cl <;> simp only [sizeOf, a1, a2, a3, hn]

theorem qFull_same {c c' : Cp} (h : SameCfg c c') (rq g : Bool) (cl : Cls) (i : Nat) :
    qFull c' rq g cl i ↔ qFull c rq g cl i := by
  have hs := sizeOf_same h
  cases cl <;> simp only [qFull, hs]

theorem QS_same {c c' : Cp} {m : Comps} {rq gq : Bool} (h : SameCfg c c') (q : QS c m rq gq) : QS c' m rq gq :=
  fun cl i => (q cl i).trans (qFull_same h rq gq cl i).symm

theorem wFan_same {c c' : Cp} (h : SameCfg c c') : wFan c' = wFan c := by
  have hn := nCache_same h
  obtain ⟨a1, a2, a3, _⟩ := h
  simp only [wFan, a1, a2, a3, hn]

theorem pend_of_pe {m : Comps} (h : PendEmpty m) (cl : Cls) : m.pend cl = [] := by
  obtain ⟨h1, h2, h3, h4, h5⟩ := h
  cases cl <;> simp [Comps.pend, *]

theorem chain_k {x : Cmd} {cl : Cls} {k : K} (h : (cl, k) ∈ chain x) : k ≠ .junk := by
  cases x <;> simp [chain] at h <;> (intro hk; subst hk; simp at h)

theorem chain_cl {x : Cmd} {cl : Cls} {k : K} (h : (cl, k) ∈ chain x) : cl ≠ .pmc := by
  cases x <;> simp [chain] at h <;> (intro hk; subst hk; simp at h)

theorem nil3 {O P I : List Nat} (h : O.length + P.length + I.length = 0) : O = [] ∧ P = [] ∧ I = [] :=
  ⟨List.eq_nil_of_length_eq_zero (by omega), List.eq_nil_of_length_eq_zero (by omega),
   List.eq_nil_of_length_eq_zero (by omega)⟩

theorem pendEmpty_of_gtok {x : Cmd} {cl : Cls} {k : K} {rq gq : Bool} {c : Cp} {m : Comps} {O I C : List Nat}
    (g : GTok x cl k rq gq c m O [] I C) : PendEmpty m := by
  have h : ∀ cl', m.pend cl' = [] := by
    intro cl'
    by_cases e : cl' = cl
    · subst e; rw [g.pend]; rfl
    · exact g.pe cl' e
  exact ⟨h .rdma, h .cu, h .at, h .cache, h .tlb⟩

/-- the first sub-phase of a fan-out: every token still in the outgoing buffer -/
theorem gtok_start {x : Cmd} {rq gq : Bool} {c : Cp} {m : Comps} (cl : Cls) (k : K) (b : Cp) (n : Nat)
    (hpe : PendEmpty m) (hb : SameCfg c b)
    (hch : (cl, k) ∈ chain x) (hcs : ∀ id, x = .shoot id → b.curShoot = some id)
    (hn : n = (ordOf c cl k).length) (hpos : 0 < n)
    (hqa : ∀ j, j ∈ m.quiet cl ↔ (if k = .flush then False else j ∈ ordOf c cl k))
    (hqo : ∀ cl' j, cl' ≠ cl → (j ∈ m.quiet cl' ↔ qFull c rq (gqOf x gq cl cl') cl' j)) :
    GTok x cl k rq gq (setTok (baseX x b) cl k (toks k (tagOf x cl k) (ordOf c cl k)) [] n) m
      (ordOf c cl k) [] [] [] := by
  subst hn
  have hs : SameCfg c (setTok (baseX x b) cl k (toks k (tagOf x cl k) (ordOf c cl k)) [] (ordOf c cl k).length) :=
    SameCfg.trans' hb (sameCfg_setTok ..)
  refine ⟨hch, ?_, ?_, ?_, ?_, ?_, ?_, ?_, ?_⟩
  · exact setTok_idem x b cl k (toks k (tagOf x cl k) (ordOf c cl k)) [] (ordOf c cl k).length
  · intro id h; rw [curShoot_setTok]; exact hcs id h
  · rw [pend_of_pe hpe]; rfl
  · intro cl' _; exact pend_of_pe hpe cl'
  · rw [ordOf_same hs]; simp
  · simpa using hpos
  · intro j; rw [hqa j]; cases k <;> simp
  · intro cl' j h; rw [hqo cl' j h]; exact (qFull_same hs ..).symm

theorem own_full {x : Cmd} {cl : Cls} {k : K} {rq gq : Bool} {c : Cp} {m : Comps} {i : Nat} {C : List Nat}
    (g : GTok x cl k rq gq c m [] [] [i] C) (j : Nat) : j ∈ [i] ++ C ↔ j ∈ ordOf c cl k := by
  have := g.perm.mem_iff (a := j)
  simpa using this

theorem qFull_rdma (c c' : Cp) (rq g g' : Bool) (i : Nat) : qFull c rq g .rdma i ↔ qFull c' rq g' .rdma i := by
  simp [qFull]

theorem qFull_pmc (c c' : Cp) (rq rq' g g' : Bool) (i : Nat) : qFull c rq g .pmc i ↔ qFull c' rq' g' .pmc i := by
  simp [qFull]

/-- the next sub-phase of the chain after the last acknowledgement of class `cl` was consumed -/
theorem gtok_next {x : Cmd} {cl : Cls} {k : K} {rq gq : Bool} {c : Cp} {m : Comps} {i : Nat} {C : List Nat}
    (g : GTok x cl k rq gq c m [] [] [i] C) (cl2 : Cls) (b : Cp) (n : Nat)
    (hb : SameCfg c b) (hbs : b.curShoot = c.curShoot) (hch : (cl2, k) ∈ chain x)
    (h1 : cl ≠ .rdma) (h2 : cl2 ≠ .rdma) (hne : cl2 ≠ cl)
    (hn : n = sizeOf c cl2) (hpos : 0 < n)
    (hA : gqOf x gq cl cl2 = (k != .flush))
    (hB : gqOf x gq cl2 cl = (k == .flush))
    (hC : ∀ cl', cl' ≠ cl → cl' ≠ cl2 → cl' ≠ .rdma → cl' ≠ .pmc → gqOf x gq cl2 cl' = gqOf x gq cl cl') :
    GTok x cl2 k rq gq (setTok (baseX x b) cl2 k (toks k (tagOf x cl2 k) (ordOf c cl2 k)) [] n) m
      (ordOf c cl2 k) [] [] [] := by
  have h1' := chain_cl g.ch
  have h2' := chain_cl hch
  have hk := chain_k hch
  refine gtok_start cl2 k b n (pendEmpty_of_gtok g) hb hch (fun id h => hbs.trans (g.cs id h))
    (by rw [hn, length_ordOf c cl2 k h2']) hpos ?_ ?_
  · intro j
    rw [g.qo cl2 j hne, hA, qFull_mid c rq _ cl2 h2 h2', ← mem_ordOf c cl2 k h2 h2']
    cases k <;> simp at hk ⊢
  · intro cl' j hc'
    by_cases e : cl' = cl
    · subst e
      rw [g.qa j, hB, qFull_mid c rq _ cl' h1 h1', ← mem_ordOf c cl' k h1 h1', ← own_full g j]
      cases k <;> simp at hk ⊢
    · by_cases e1 : cl' = .rdma
      · subst e1; rw [g.qo _ j e]; exact qFull_rdma ..
      · by_cases e2 : cl' = .pmc
        · subst e2; rw [g.qo _ j e]; exact qFull_pmc ..
        · rw [g.qo cl' j e, hC cl' e hc' e1 e2]

/-- one acknowledgement consumed, more to come -/
theorem gtok_more {x : Cmd} {cl : Cls} {k : K} {rq gq : Bool} {c : Cp} {m : Comps} {O P I' C : List Nat} {i : Nat}
    (g : GTok x cl k rq gq c m O P (i :: I') C) (hn : O.length + P.length + I'.length ≠ 0) :
    GTok x cl k rq gq
      (setTok (baseX x c) cl k (toks k (tagOf x cl k) O) (toks k 0 I') (O.length + P.length + I'.length)) m
      O P I' (i :: C) := by
  have hs : SameCfg c (setTok (baseX x c) cl k (toks k (tagOf x cl k) O) (toks k 0 I')
      (O.length + P.length + I'.length)) := sameCfg_setTok ..
  refine ⟨g.ch, setTok_idem .., ?_, g.pend, g.pe, ?_, Nat.pos_of_ne_zero hn, ?_, ?_⟩
  · intro id h; rw [curShoot_setTok]; exact g.cs id h
  · rw [ordOf_same hs]
    refine List.Perm.trans ?_ g.perm
    have e1 : O ++ P ++ I' ++ i :: C = (O ++ P ++ I') ++ i :: C := rfl
    have e2 : O ++ P ++ i :: I' ++ C = (O ++ P) ++ i :: (I' ++ C) := by simp
    rw [e1, e2]
    refine List.Perm.trans List.perm_middle ?_
    refine List.Perm.trans ?_ List.perm_middle.symm
    simp
  · intro j; rw [g.qa j]; cases k <;> simp
    constructor <;> (intro h; rcases h with h | h | h <;> simp [h])
  · intro cl' j h; rw [g.qo cl' j h]; exact (qFull_same hs ..).symm

theorem qs_last {x : Cmd} {cl : Cls} {k : K} {rq gq : Bool} {c : Cp} {m : Comps} {i : Nat} {C : List Nat}
    (g : GTok x cl k rq gq c m [] [] [i] C)
    (hself : ∀ j, (if k = .flush then j ∈ ordOf c cl k else False) ↔
      qFull c (after x rq gq).1 (after x rq gq).2 cl j)
    (hoth : ∀ cl' j, cl' ≠ cl →
      (qFull c rq (gqOf x gq cl cl') cl' j ↔ qFull c (after x rq gq).1 (after x rq gq).2 cl' j)) :
    QS c m (after x rq gq).1 (after x rq gq).2 := by
  intro cl' j
  by_cases e : cl' = cl
  · subst e
    rw [g.qa j, ← hself j, ← own_full g j]
    cases k <;> simp
  · rw [g.qo cl' j e]; exact hoth cl' j e

theorem gs_ans {x : Cmd} {cl : Cls} {k : K} {rq gq : Bool} {c : Cp} {m : Comps} {i : Nat} {C : List Nat}
    (g : GTok x cl k rq gq c m [] [] [i] C) (pre : Pre x rq gq)
    (hq : QS c m (after x rq gq).1 (after x rq gq).2) :
    GS x .ans rq gq { base c with drvOut := [ansOf x] } m :=
  ⟨pre, rfl, pendEmpty_of_gtok g, QS_same (by same_rfl) hq⟩

end Shapes

section Meas

variable (wm : Nat → Nat) (m : Comps) (b : Cp)

theorem meas_more {x : Cmd} {cl : Cls} {k : K} (o i i' : List Sub) (n n' : Nat) (hch : (cl, k) ∈ chain x)
    (hi : i'.length + 1 = i.length) (hn : n' + 1 = n) (hn' : n' ≠ 0) :
    gmeas wm (setTok (baseX x b) cl k o i' n') m < gmeas wm (setTok (baseX x b) cl k o i n) m := by
  have p1 : 0 < n' := Nat.pos_of_ne_zero hn'
  have p2 : 0 < n := by omega
  cases x <;> simp [chain] at hch
  · obtain ⟨rfl, rfl⟩ := hch
    simp [gmeas, pot, wTok, setTok, baseX_eq, base, isShoot] <;> omega
  · obtain ⟨rfl, rfl⟩ := hch
    simp [gmeas, pot, wTok, setTok, baseX_eq, base, isShoot] <;> omega
  · rcases hch with ⟨rfl, rfl⟩ | ⟨rfl, rfl⟩ | ⟨rfl, rfl⟩ | ⟨rfl, rfl⟩ <;>
      simp [gmeas, pot, wTok, setTok, baseX_eq, base, isShoot, Cp.nCache, p1, p2] <;> omega
  · rcases hch with ⟨rfl, rfl⟩ | ⟨rfl, rfl⟩ | ⟨rfl, rfl⟩ | ⟨rfl, rfl⟩ <;>
      simp [gmeas, pot, wTok, setTok, baseX_eq, base, isShoot, p1, p2] <;> omega

theorem meas_drain :
    gmeas wm (setTok (baseX .drain b) .rdma .flush (toks .flush 0 [0]) [] 1) m <
      gmeas wm { base b with drvIn := [.drain] } m := by
  simp [gmeas, pot, wTok, wCmd, setTok, baseX_eq, base, isShoot, toks] <;> omega

theorem meas_rdmaRestart :
    gmeas wm (setTok (baseX .rdmaRestart b) .rdma .restart (toks .restart 0 [0]) [] 1) m <
      gmeas wm { base b with drvIn := [.rdmaRestart] } m := by
  simp [gmeas, pot, wTok, wCmd, setTok, baseX_eq, base, isShoot, toks] <;> omega

theorem meas_shoot (id : Nat) (h : 0 < b.nCU) :
    gmeas wm (setTok (baseX (.shoot id) { b with curShoot := some id }) .cu .flush
        (toks .flush 0 (List.range b.nCU)) [] b.nCU) m <
      gmeas wm { base b with drvIn := [.shoot id] } m := by
  simp [gmeas, pot, wTok, wCmd, wFan, setTok, baseX_eq, base, isShoot, toks, h, Cp.nCache] <;> omega

theorem meas_restart (h : 0 < b.nCache) :
    gmeas wm (setTok (baseX .restart b) .cache .restart (toks .restart 0 b.ordRestart) [] b.nCache) m <
      gmeas wm { base b with drvIn := [.restart] } m := by
  have h' : 0 < b.nI + b.nS + b.nV + b.n2 := h
  simp [gmeas, pot, wTok, wCmd, wFan, setTok, baseX_eq, base, isShoot, toks, h', Cp.nCache, length_ordRestart] <;> omega

theorem meas_mig (id : Nat) :
    gmeas wm { base b with pmcOut := [⟨.flush, 0, id⟩] } m < gmeas wm { base b with drvIn := [.mig id] } m := by
  simp [gmeas, pot, wTok, wCmd, base] <;> omega

theorem meas_ans (x : Cmd) (cl : Cls) (k : K) (a : Ans) (tok : Sub) (n : Nat) (hch : (cl, k) ∈ chain x)
    (hlast : (x = .drain ∨ x = .rdmaRestart) ∨ (cl = .tlb ∧ k = .flush) ∨ (cl = .cu ∧ k = .restart)) (hn : n = 1) :
    gmeas wm { base b with drvOut := [a] } m < gmeas wm (setTok (baseX x b) cl k [] [tok] n) m := by
  subst hn
  cases x <;> simp [chain] at hch
  · obtain ⟨rfl, rfl⟩ := hch
    simp [gmeas, pot, wTok, setTok, baseX_eq, base, isShoot] <;> omega
  · obtain ⟨rfl, rfl⟩ := hch
    simp [gmeas, pot, wTok, setTok, baseX_eq, base, isShoot] <;> omega
  · rcases hch with ⟨rfl, rfl⟩ | ⟨rfl, rfl⟩ | ⟨rfl, rfl⟩ | ⟨rfl, rfl⟩ <;> simp at hlast
    simp [gmeas, pot, wTok, setTok, baseX_eq, base, isShoot] <;> omega
  · rcases hch with ⟨rfl, rfl⟩ | ⟨rfl, rfl⟩ | ⟨rfl, rfl⟩ | ⟨rfl, rfl⟩ <;> simp at hlast
    simp [gmeas, pot, wTok, setTok, baseX_eq, base, isShoot] <;> omega

theorem meas_cu_at (id : Nat) (tok : Sub) (h : 0 < b.nAT) :
    gmeas wm (setTok (baseX (.shoot id) b) .at .flush (toks .flush 0 (List.range b.nAT)) [] b.nAT) m <
      gmeas wm (setTok (baseX (.shoot id) b) .cu .flush [] [tok] 1) m := by
  simp [gmeas, pot, wTok, setTok, baseX_eq, base, isShoot, toks, h, Cp.nCache] <;> omega

theorem meas_at_cache (id : Nat) (tok : Sub) (h : 0 < b.nCache) :
    gmeas wm (setTok (baseX (.shoot id) b) .cache .flush (toks .flush 1 b.ordReset) [] b.nCache) m <
      gmeas wm (setTok (baseX (.shoot id) b) .at .flush [] [tok] 1) m := by
  have h' : 0 < b.nI + b.nS + b.nV + b.n2 := h
  simp [gmeas, pot, wTok, setTok, baseX_eq, base, isShoot, toks, h', Cp.nCache, length_ordReset] <;> omega

theorem meas_cache_tlb (id : Nat) (tok : Sub) :
    gmeas wm (setTok (baseX (.shoot id) { b with curFlush := none }) .tlb .flush
        (toks .flush id (List.range b.nTLB)) [] b.nTLB) m <
      gmeas wm (setTok (baseX (.shoot id) b) .cache .flush [] [tok] 1) m := by
  simp [gmeas, pot, wTok, setTok, baseX_eq, base, isShoot, toks] <;> omega

theorem meas_cache_tlb_r (tok : Sub) (h : 0 < b.nTLB) :
    gmeas wm (setTok (baseX .restart b) .tlb .restart (toks .restart 0 (List.range b.nTLB)) [] b.nTLB) m <
      gmeas wm (setTok (baseX .restart b) .cache .restart [] [tok] 1) m := by
  simp [gmeas, pot, wTok, setTok, baseX_eq, base, isShoot, toks, h] <;> omega

theorem meas_tlb_at_r (tok : Sub) (h : 0 < b.nAT) :
    gmeas wm (setTok (baseX .restart b) .at .restart (toks .restart 0 (List.range b.nAT)) [] b.nAT) m <
      gmeas wm (setTok (baseX .restart b) .tlb .restart [] [tok] 1) m := by
  simp [gmeas, pot, wTok, setTok, baseX_eq, base, isShoot, toks, h] <;> omega

theorem meas_at_cu_r (tok : Sub) :
    gmeas wm (setTok (baseX .restart b) .cu .restart (toks .restart 0 (List.range b.nCU)) [] b.nCU) m <
      gmeas wm (setTok (baseX .restart b) .at .restart [] [tok] 1) m := by
  simp [gmeas, pot, wTok, setTok, baseX_eq, base, isShoot, toks] <;> omega

theorem meas_pmcIn (tok : Sub) :
    gmeas wm { base b with drvOut := [.mig] } m < gmeas wm { base b with pmcIn := [tok] } m := by
  simp [gmeas, pot, wTok, base] <;> omega

end Meas

section Assembly

/-- what `busy_cstage` says about the result `r` of a stage -/
def Res (x : Cmd) (loc : BLoc) (rq gq : Bool) (c : Cp) (m : Comps) (wm : Nat → Nat) (r : Cp × Bool) : Prop :=
  (∃ loc', GS x loc' rq gq r.1 m ∧ (loc' = .pmcWait ↔ loc = .pmcWait)) ∧
  (r.2 = true → gmeas wm r.1 m < gmeas wm c m) ∧ (r.2 = false → r.1 = c)

variable {x : Cmd} {loc : BLoc} {rq gq : Bool} {c : Cp} {m : Comps} (wm : Nat → Nat)

theorem res_noop (h : GS x loc rq gq c m) : Res x loc rq gq c m wm (c, false) :=
  ⟨⟨loc, h, Iff.rfl⟩, fun h => (by cases h), fun _ => rfl⟩

theorem res_noop' {r : Cp × Bool} (hr : r = (c, false)) (h : GS x loc rq gq c m) : Res x loc rq gq c m wm r :=
  hr ▸ res_noop wm h

theorem res_of (f : Cp → Cp × Bool) {F F' : Cp} (loc' : BLoc) (hcp : c = F) (hst : f F = (F', true))
    (gs : GS x loc' rq gq F' m) (h1 : loc' ≠ .pmcWait) (h2 : loc ≠ .pmcWait)
    (hm : gmeas wm F' m < gmeas wm F m) : Res x loc rq gq c m wm (f c) := by
  subst hcp; rw [hst]
  exact ⟨⟨loc', gs, by simp [h1, h2]⟩, fun _ => hm, fun h => by cases h⟩

theorem gs_tok {cl : Cls} {k : K} {O P I C : List Nat} (pre : Pre x rq gq) (g : GTok x cl k rq gq c m O P I C) :
    GS x (.tok cl k) rq gq c m := And.intro pre ⟨O, P, I, C, g⟩

theorem res_more {cl : Cls} {k : K} {O P I' C : List Nat} {i : Nat} (f : Cp → Cp × Bool) (pre : Pre x rq gq)
    (g : GTok x cl k rq gq c m O P (i :: I') C) (hn : O.length + P.length + I'.length ≠ 0)
    (hf : f (setTok (baseX x c) cl k (toks k (tagOf x cl k) O) (toks k 0 (i :: I'))
          (O.length + P.length + I'.length + 1)) =
        (setTok (baseX x c) cl k (toks k (tagOf x cl k) O) (toks k 0 I') (O.length + P.length + I'.length), true)) :
    Res x (.tok cl k) rq gq c m wm (f c) :=
  res_of wm f (.tok cl k) g.cp hf (gs_tok pre (gtok_more g hn)) (by simp) (by simp)
    (meas_more wm m c _ _ _ _ _ g.ch (by simp [toks]) rfl hn)

theorem res_rRdma {k : K} {O P I' C : List Nat} {i : Nat} (hc : CfgOK c) (pre : Pre x rq gq)
    (g : GTok x .rdma k rq gq c m O P (i :: I') C) : Res x (.tok .rdma k) rq gq c m wm (Cp.rRdma c) := by
  have hl := g.perm.length_eq
  have ho : ordOf c .rdma k = [0] := by cases k <;> rfl
  rw [ho] at hl
  simp only [List.length_append, List.length_cons, List.length_nil] at hl
  obtain ⟨rfl, rfl, rfl⟩ := nil3 (O := O) (P := P) (I := I') (by omega)
  have hch := g.ch
  cases x <;> simp [chain] at hch
  · subst hch
    refine res_of wm Cp.rRdma .ans g.cp (rRdma_flush c i _ hc.capDrv) (gs_ans g pre (qs_last g ?_ ?_)) (by simp)
      (by simp) (meas_ans wm m c .drain .rdma .flush _ _ _ g.ch (Or.inl (Or.inl rfl)) rfl)
    · intro j; simp [ordOf, qFull, after]
    · intro cl' j h; cases cl' <;> first | exact Iff.rfl | exact absurd rfl h
  · subst hch
    refine res_of wm Cp.rRdma .ans g.cp (rRdma_restart c i _ hc.capDrv) (gs_ans g pre (qs_last g ?_ ?_)) (by simp)
      (by simp) (meas_ans wm m c .rdmaRestart .rdma .restart _ _ _ g.ch (Or.inl (Or.inr rfl)) rfl)
    · intro j; simp [qFull, after]
    · intro cl' j h; cases cl' <;> first | exact Iff.rfl | exact absurd rfl h

theorem res_rCU {k : K} {O P I' C : List Nat} {i : Nat} (hc : CfgOK c) (pre : Pre x rq gq)
    (g : GTok x .cu k rq gq c m O P (i :: I') C) : Res x (.tok .cu k) rq gq c m wm (Cp.rCU c) := by
  by_cases hn : O.length + P.length + I'.length = 0
  · obtain ⟨rfl, rfl, rfl⟩ := nil3 hn
    have hch := g.ch
    cases x <;> simp [chain] at hch
    · subst hch
      refine res_of wm Cp.rCU (.tok .at .flush) g.cp (rCU_flush_last c _ i hc.capAT hc.small.2.1)
        (gs_tok pre (gtok_next g .at c c.nAT (SameCfg.rfl' c) rfl (by simp [chain]) (by decide) (by decide)
          (by decide) rfl hc.hAT rfl rfl ?_)) (by simp) (by simp) (meas_cu_at wm m c _ _ hc.hAT)
      intro cl' a1 a2 a3 a4
      cases cl' <;> first | rfl | exact absurd rfl a1 | exact absurd rfl a2 | exact absurd rfl a3 | exact absurd rfl a4
    · subst hch
      refine res_of wm Cp.rCU .ans g.cp (rCU_restart_last c i hc.capDrv) (gs_ans g pre (qs_last g ?_ ?_)) (by simp)
        (by simp) (meas_ans wm m c .restart .cu .restart _ _ _ g.ch (Or.inr (Or.inr ⟨rfl, rfl⟩)) rfl)
      · intro j; simp [qFull, after]
      · intro cl' j h; cases cl' <;> first | exact Iff.rfl | exact absurd rfl h
  · exact res_more wm Cp.rCU pre g hn (rCU_more x c k _ i I' _ (chain_k g.ch) hn)

theorem res_rAT {k : K} {O P I' C : List Nat} {i : Nat} (hc : CfgOK c) (pre : Pre x rq gq)
    (g : GTok x .at k rq gq c m O P (i :: I') C) : Res x (.tok .at k) rq gq c m wm (Cp.rAT c) := by
  by_cases hn : O.length + P.length + I'.length = 0
  · obtain ⟨rfl, rfl, rfl⟩ := nil3 hn
    have hch := g.ch
    cases x <;> simp [chain] at hch
    · subst hch
      refine res_of wm Cp.rAT (.tok .cache .flush) g.cp (rAT_flush_last c _ i hc.capCache hc.small.2.2.2)
        (gs_tok pre (gtok_next g .cache c c.nCache (SameCfg.rfl' c) rfl (by simp [chain]) (by decide) (by decide)
          (by decide) rfl hc.hCache rfl rfl ?_)) (by simp) (by simp) (meas_at_cache wm m c _ _ hc.hCache)
      intro cl' a1 a2 a3 a4
      cases cl' <;> first | rfl | exact absurd rfl a1 | exact absurd rfl a2 | exact absurd rfl a3 | exact absurd rfl a4
    · subst hch
      refine res_of wm Cp.rAT (.tok .cu .restart) g.cp (rAT_restart_last c i hc.capCU hc.small.1)
        (gs_tok pre (gtok_next g .cu c c.nCU (SameCfg.rfl' c) rfl (by simp [chain]) (by decide) (by decide)
          (by decide) rfl hc.hCU rfl rfl ?_)) (by simp) (by simp) (meas_at_cu_r wm m c _)
      intro cl' a1 a2 a3 a4
      cases cl' <;> first | rfl | exact absurd rfl a1 | exact absurd rfl a2 | exact absurd rfl a3 | exact absurd rfl a4
  · exact res_more wm Cp.rAT pre g hn (rAT_more x c k _ i I' _ (chain_k g.ch) hn)

theorem res_rCache {k : K} {O P I' C : List Nat} {i : Nat} (hc : CfgOK c) (pre : Pre x rq gq)
    (g : GTok x .cache k rq gq c m O P (i :: I') C) : Res x (.tok .cache k) rq gq c m wm (Cp.rCache c) := by
  by_cases hn : O.length + P.length + I'.length = 0
  · obtain ⟨rfl, rfl, rfl⟩ := nil3 hn
    have hch := g.ch
    cases x <;> simp [chain] at hch
    · subst hch
      refine res_of wm Cp.rCache (.tok .tlb .flush) g.cp
        (rCache_flush_last c _ i (g.cs _ rfl) hc.capTLB hc.small.2.2.1)
        (gs_tok pre (gtok_next g .tlb { c with curFlush := none } c.nTLB (by same_rfl) rfl (by simp [chain])
          (by decide) (by decide) (by decide) rfl hc.hTLB rfl rfl ?_)) (by simp) (by simp)
        (meas_cache_tlb wm m c _ _)
      intro cl' a1 a2 a3 a4
      cases cl' <;> first | rfl | exact absurd rfl a1 | exact absurd rfl a2 | exact absurd rfl a3 | exact absurd rfl a4
    · subst hch
      refine res_of wm Cp.rCache (.tok .tlb .restart) g.cp (rCache_restart_last c i hc.capTLB hc.small.2.2.1)
        (gs_tok pre (gtok_next g .tlb c c.nTLB (SameCfg.rfl' c) rfl (by simp [chain]) (by decide) (by decide)
          (by decide) rfl hc.hTLB rfl rfl ?_)) (by simp) (by simp) (meas_cache_tlb_r wm m c _ hc.hTLB)
      intro cl' a1 a2 a3 a4
      cases cl' <;> first | rfl | exact absurd rfl a1 | exact absurd rfl a2 | exact absurd rfl a3 | exact absurd rfl a4
  · exact res_more wm Cp.rCache pre g hn (rCache_more x c k _ i I' _ (chain_k g.ch) hn)

theorem res_rTLB {k : K} {O P I' C : List Nat} {i : Nat} (hc : CfgOK c) (pre : Pre x rq gq)
    (g : GTok x .tlb k rq gq c m O P (i :: I') C) : Res x (.tok .tlb k) rq gq c m wm (Cp.rTLB c) := by
  by_cases hn : O.length + P.length + I'.length = 0
  · obtain ⟨rfl, rfl, rfl⟩ := nil3 hn
    have hch := g.ch
    cases x <;> simp [chain] at hch
    · subst hch
      refine res_of wm Cp.rTLB .ans g.cp (rTLB_flush_last c _ i hc.capDrv) (gs_ans g pre (qs_last g ?_ ?_)) (by simp)
        (by simp) (meas_ans wm m c (.shoot _) .tlb .flush _ _ _ g.ch (Or.inr (Or.inl ⟨rfl, rfl⟩)) rfl)
      · intro j; simp [ordOf, qFull, after, sizeOf]
      · intro cl' j h; cases cl' <;> first | exact Iff.rfl | exact absurd rfl h
    · subst hch
      refine res_of wm Cp.rTLB (.tok .at .restart) g.cp (rTLB_restart_last c i hc.capAT hc.small.2.1)
        (gs_tok pre (gtok_next g .at c c.nAT (SameCfg.rfl' c) rfl (by simp [chain]) (by decide) (by decide)
          (by decide) rfl hc.hAT rfl rfl ?_)) (by simp) (by simp) (meas_tlb_at_r wm m c _ hc.hAT)
      intro cl' a1 a2 a3 a4
      cases cl' <;> first | rfl | exact absurd rfl a1 | exact absurd rfl a2 | exact absurd rfl a3 | exact absurd rfl a4
  · exact res_more wm Cp.rTLB pre g hn (rTLB_more x c k _ i I' _ (chain_k g.ch) hn)

end Assembly

section Main

variable {x : Cmd} {loc : BLoc} {rq gq : Bool} {c : Cp} {m : Comps} (wm : Nat → Nat)

/-- the response stage of a class -/
def stageOf : Cls → Cp → Cp × Bool
  | .rdma => Cp.rRdma
  | .cu => Cp.rCU
  | .at => Cp.rAT
  | .cache => Cp.rCache
  | .tlb => Cp.rTLB
  | .pmc => Cp.rPMC

theorem stageOf_nil (cl : Cls) (c : Cp) (h : c.inn cl = []) : stageOf cl c = (c, false) := by
  cases cl
  · exact rRdma_nil c h
  · exact rCU_nil c h
  · exact rAT_nil c h
  · exact rCache_nil c h
  · exact rTLB_nil c h
  · exact rPMC_nil c h

theorem res_tok_step {cl : Cls} {k : K} {O P I' C : List Nat} {i : Nat} (hc : CfgOK c) (pre : Pre x rq gq)
    (g : GTok x cl k rq gq c m O P (i :: I') C) : Res x (.tok cl k) rq gq c m wm (stageOf cl c) := by
  cases cl
  · exact res_rRdma wm hc pre g
  · exact res_rCU wm hc pre g
  · exact res_rAT wm hc pre g
  · exact res_rCache wm hc pre g
  · exact res_rTLB wm hc pre g
  · exact absurd rfl (chain_cl g.ch)

theorem res_stageOf (cl' : Cls) (hc : CfgOK c) (h : GS x loc rq gq c m) :
    Res x loc rq gq c m wm (stageOf cl' c) := by
  have h0 := h
  obtain ⟨pre, h'⟩ := h
  cases loc with
  | cmd =>
    obtain ⟨hcp, _, _⟩ := h'
    refine res_noop' wm (stageOf_nil cl' c ?_) h0
    rw [hcp]; cases cl' <;> rfl
  | tok cl k =>
    obtain ⟨O, P, I, C, g⟩ := h'
    by_cases e : cl' = cl
    · subst e
      cases I with
      | nil =>
        refine res_noop' wm (stageOf_nil _ c ?_) h0
        rw [g.cp, inn_setTok_self]; rfl
      | cons i I' => exact res_tok_step wm hc pre g
    · refine res_noop' wm (stageOf_nil _ c ?_) h0
      rw [g.cp]; exact inn_setTok_other _ _ _ _ _ _ _ _ e
  | pmcOut =>
    obtain ⟨⟨id, _, hcp⟩, _, _⟩ := h'
    refine res_noop' wm (stageOf_nil cl' c ?_) h0
    rw [hcp]; cases cl' <;> rfl
  | pmcWait =>
    obtain ⟨_, hcp, _, _⟩ := h'
    refine res_noop' wm (stageOf_nil cl' c ?_) h0
    rw [hcp]; cases cl' <;> rfl
  | pmcIn =>
    obtain ⟨⟨id, rfl⟩, hcp, hpe, hqs⟩ := h'
    by_cases e : cl' = .pmc
    · subst e
      exact res_of wm Cp.rPMC .ans hcp (rPMC_in c hc.capDrv)
        (And.intro pre ⟨rfl, hpe, QS_same (by same_rfl) hqs⟩) (by simp) (by simp) (meas_pmcIn wm m c _)
    · refine res_noop' wm (stageOf_nil cl' c ?_) h0
      rw [hcp]; cases cl' <;> first | rfl | exact absurd rfl e
  | ans =>
    obtain ⟨hcp, _, _⟩ := h'
    refine res_noop' wm (stageOf_nil cl' c ?_) h0
    rw [hcp]; cases cl' <;> rfl

theorem drvIn_of_GS (h : GS x loc rq gq c m) : c.drvIn = [] ∨ (loc = .cmd ∧ c.drvIn = [x]) := by
  obtain ⟨pre, h'⟩ := h
  cases loc with
  | cmd => obtain ⟨hcp, _, _⟩ := h'; right; refine ⟨rfl, ?_⟩; rw [hcp]
  | tok cl k => obtain ⟨O, P, I, C, g⟩ := h'; left; rw [g.cp]; exact drvIn_setTok ..
  | pmcOut => obtain ⟨⟨id, _, hcp⟩, _, _⟩ := h'; left; rw [hcp]; rfl
  | pmcWait => obtain ⟨_, hcp, _, _⟩ := h'; left; rw [hcp]; rfl
  | pmcIn => obtain ⟨_, hcp, _, _⟩ := h'; left; rw [hcp]; rfl
  | ans => obtain ⟨hcp, _, _⟩ := h'; left; rw [hcp]; rfl

theorem res_hFlush (h : GS x loc rq gq c m) : Res x loc rq gq c m wm (Cp.hFlush c) := by
  refine res_noop' wm (hFlush_noop c ?_) h
  intro f rest hd
  rcases drvIn_of_GS h with h1 | ⟨_, h1⟩
  · rw [h1] at hd; cases hd
  · rw [h1] at hd
    have : x = .flush f := by injection hd
    subst this
    exact h.1

theorem res_hCtrl (hc : CfgOK c) (h : GS x loc rq gq c m) : Res x loc rq gq c m wm (Cp.hCtrl c) := by
  rcases drvIn_of_GS h with h1 | ⟨rfl, _⟩
  · exact res_noop' wm (hCtrl_nil c h1) h
  obtain ⟨pre, hcp, hpe, hqs⟩ := h
  cases x with
  | drain =>
    have pre' : rq = false := pre
    refine res_of wm Cp.hCtrl (.tok .rdma .flush) hcp (hCtrl_drain c hc.capRdma)
      (gs_tok pre (gtok_start .rdma .flush c 1 hpe (SameCfg.rfl' c) (by simp [chain])
        (fun id h => by cases h) rfl (by decide) ?_ ?_)) (by simp) (by simp) (meas_drain wm m c)
    · intro j; rw [hqs .rdma j]; simp [qFull, pre']
    · intro cl' j _; exact hqs cl' j
  | rdmaRestart =>
    have pre' : rq = true := pre
    refine res_of wm Cp.hCtrl (.tok .rdma .restart) hcp (hCtrl_rdmaRestart c hc.capRdma)
      (gs_tok pre (gtok_start .rdma .restart c 1 hpe (SameCfg.rfl' c) (by simp [chain])
        (fun id h => by cases h) rfl (by decide) ?_ ?_)) (by simp) (by simp) (meas_rdmaRestart wm m c)
    · intro j; rw [hqs .rdma j]; simp [qFull, pre', ordOf]
    · intro cl' j _; exact hqs cl' j
  | shoot id =>
    have pre' : gq = false := pre
    subst pre'
    refine res_of wm Cp.hCtrl (.tok .cu .flush) hcp (hCtrl_shoot c id hc.capCU hc.small.1)
      (gs_tok pre (gtok_start .cu .flush { c with curShoot := some id } c.nCU hpe (by same_rfl) (by simp [chain])
        (fun id' h => by cases h; rfl) (by simp [ordOf]) hc.hCU ?_ ?_)) (by simp) (by simp)
      (meas_shoot wm m c id hc.hCU)
    · intro j; rw [hqs .cu j]; simp [qFull]
    · intro cl' j h; cases cl' <;> first | exact hqs _ j | exact absurd rfl h
  | restart =>
    have pre' : gq = true := pre
    subst pre'
    refine res_of wm Cp.hCtrl (.tok .cache .restart) hcp (hCtrl_restart c hc.capCache hc.small.2.2.2)
      (gs_tok pre (gtok_start .cache .restart c c.nCache hpe (SameCfg.rfl' c) (by simp [chain])
        (fun id' h => by cases h) (length_ordRestart c).symm hc.hCache ?_ ?_)) (by simp) (by simp)
      (meas_restart wm m c hc.hCache)
    · intro j; rw [hqs .cache j]; simp [qFull, ordOf, sizeOf, mem_ordRestart]
    · intro cl' j h; cases cl' <;> first | exact hqs _ j | exact absurd rfl h
  | mig id =>
    exact res_of wm Cp.hCtrl .pmcOut hcp (hCtrl_mig c id hc.capPMC)
      (And.intro pre ⟨⟨id, rfl, rfl⟩, hpe, QS_same (by same_rfl) hqs⟩) (by simp) (by simp) (meas_mig wm m c id)
  | flush f => exact pre.elim
  | other => exact pre.elim

end Main

end CpS

open CpS

/-- the stages never touch the configuration -/
theorem sameCfg_cstage (k : Nat) (c : Cp) : SameCfg c (cstageFn k c).1 := by
  match k with
  | 0 => exact sameCfg_hFlush c
  | 1 => exact sameCfg_hCtrl c
  | 2 => exact sameCfg_rRdma c
  | 3 => exact sameCfg_rCU c
  | 4 => exact sameCfg_rAT c
  | 5 => exact sameCfg_rCache c
  | 6 => exact sameCfg_rTLB c
  | 7 => exact sameCfg_rPMC c
  | k + 8 => rw [cstage_ge]; exact SameCfg.rfl' c

theorem cfgOK_of_same {c c' : Cp} (h : SameCfg c c') (hc : CfgOK c) : CfgOK c' := by
  obtain ⟨a1, a2, a3, a4, a5, a6, a7, a8, a9, a10, a11, a12, a13, a14, a15⟩ := h
  obtain ⟨b1, b2, b3, b4, b5, b6, b7, b8, b9, b10, b11, b12, b13⟩ := hc
  have hn : c'.nCache = c.nCache := by simp only [Cp.nCache, a4, a5, a6, a7]
  constructor <;> simp only [hn, a1, a2, a3, a8, a9, a10, a11, a12, a13, a14, a15] <;> assumption

/-- a stage leaves an idle GPU alone -/
theorem idle_cstage (k : Nat) {rq gq : Bool} {c : Cp} {m : Comps} (h : GIdle rq gq c m) :
    cstageFn k c = (c, false) := by
  have hcp := h.cp
  have hd : c.drvIn = [] := by rw [hcp]; rfl
  have hi : ∀ cl, c.inn cl = [] := by intro cl; rw [hcp]; cases cl <;> rfl
  match k with
  | 0 => exact hFlush_noop c (by intro f rest e; rw [hd] at e; cases e)
  | 1 => exact hCtrl_nil c hd
  | 2 => exact stageOf_nil .rdma c (hi _)
  | 3 => exact stageOf_nil .cu c (hi _)
  | 4 => exact stageOf_nil .at c (hi _)
  | 5 => exact stageOf_nil .cache c (hi _)
  | 6 => exact stageOf_nil .tlb c (hi _)
  | 7 => exact stageOf_nil .pmc c (hi _)
  | k + 8 => exact cstage_ge k c

/-- a stage of the command processor keeps a busy GPU in a shape of the same command (no fault, no
    message dropped, tokens conserved); it never enters or leaves the location `pmcWait`; whenever it
    reports progress the measure of the GPU decreases, and when it reports none nothing changed -/
theorem busy_cstage (k : Nat) {x : Cmd} {loc : BLoc} {rq gq : Bool} {c : Cp} {m : Comps} (wm : Nat → Nat)
    (hc : CfgOK c) (h : GS x loc rq gq c m) :
    (∃ loc', GS x loc' rq gq (cstageFn k c).1 m ∧ (loc' = .pmcWait ↔ loc = .pmcWait)) ∧
    ((cstageFn k c).2 = true → gmeas wm (cstageFn k c).1 m < gmeas wm c m) ∧
    ((cstageFn k c).2 = false → (cstageFn k c).1 = c) := by
  show Res x loc rq gq c m wm (cstageFn k c)
  match k with
  | 0 => exact res_hFlush wm h
  | 1 => exact res_hCtrl wm hc h
  | 2 => exact res_stageOf wm .rdma hc h
  | 3 => exact res_stageOf wm .cu hc h
  | 4 => exact res_stageOf wm .at hc h
  | 5 => exact res_stageOf wm .cache hc h
  | 6 => exact res_stageOf wm .tlb hc h
  | 7 => exact res_stageOf wm .pmc hc h
  | k + 8 => rw [cstage_ge]; exact res_noop wm h

end SY
end C19
