import MgpuProofs.C04NormTop
/-! The canonical first dword is dispatched like the original one. -/
namespace C04
open Gen
set_option linter.unusedSimpArgs false
set_option linter.unusedVariables false

theorem disp_clr_le (w lo hi : Nat) : clr w lo hi ≤ w := by unfold clr; omega

theorem disp_smem (w : Nat) : clr w 13 15 / 2 ^ 16 = w / 2 ^ 16 := by unfold clr extractBits; omega
theorem disp_v3a1 (w : Nat) : clr w 13 14 / 2 ^ 16 = w / 2 ^ 16 := by unfold clr extractBits; omega
theorem disp_v3a2 (w : Nat) : clr w 11 14 / 2 ^ 16 = w / 2 ^ 16 := by unfold clr extractBits; omega
theorem disp_v3b (w : Nat) : clr w 0 7 / 2 ^ 16 = w / 2 ^ 16 := by unfold clr extractBits; omega
theorem disp_ds1 (w : Nat) : clr w 25 25 / 2 ^ 26 = w / 2 ^ 26 := by unfold clr extractBits; omega
theorem disp_ds2 (w : Nat) : extractBits (clr w 25 25) 17 24 = extractBits w 17 24 := by unfold clr extractBits; omega

theorem disp_flat (w : Nat) :
    clr (clr (clr w 13 13) 14 15) 25 25 ≤ w ∧
    clr (clr (clr w 13 13) 14 15) 25 25 / 2 ^ 26 = w / 2 ^ 26 ∧
    extractBits (clr (clr (clr w 13 13) 14 15) 25 25) 18 24 = extractBits w 18 24 ∧
    (extractBits w 14 15 ≠ 0 →
      clr (clr (clr w 13 13) 14 15) 25 25 + 2 ^ 14 ≤ w ∧
      (clr (clr (clr w 13 13) 14 15) 25 25 + 2 ^ 14) / 2 ^ 26 = w / 2 ^ 26 ∧
      extractBits (clr (clr (clr w 13 13) 14 15) 25 25 + 2 ^ 14) 18 24 = extractBits w 18 24) := by
  rw [flat_clr3]
  unfold extractBits
  omega

/-- the canonical first dword is a 32-bit word, matched to the same format, with the same opcode field -/
theorem norm_dispatch (c : Bool) (f : Format) (row : Row) (w0 : Nat) (w1? : Option Nat)
    (hm : matchFormat w0 = some f) (h13 : ft13.contains f.ft = true) (hw0 : w0 < 2 ^ 32) :
    (normRow c f.ft row w0 w1?).1 < 2 ^ 32 ∧ matchFormat (normRow c f.ft row w0 w1?).1 = some f ∧
    extractBits (normRow c f.ft row w0 w1?).1 f.opLo f.opHi = extractBits w0 f.opLo f.opHi := by
  have hfm := matchFormat_mem hm
  have hdiv := matchFormat_div hw0 hm
  have same : ∀ n0, n0 = w0 → n0 < 2 ^ 32 ∧ matchFormat n0 = some f ∧
      extractBits n0 f.opLo f.opHi = extractBits w0 f.opLo f.opHi := by
    intro n0 e; subst e; exact ⟨hw0, hm, rfl⟩
  have low : ∀ n0, n0 ≤ w0 → n0 / 2 ^ 16 = w0 / 2 ^ 16 → 16 ≤ f.opLo → n0 < 2 ^ 32 ∧ matchFormat n0 = some f ∧
      extractBits n0 f.opLo f.opHi = extractBits w0 f.opLo f.opHi := by
    intro n0 hle e hlo
    have hn : n0 < 2 ^ 32 := Nat.lt_of_le_of_lt hle hw0
    exact ⟨hn, by rw [matchFormat_top16 n0 w0 hn hw0 e, hm], extractBits_of_div e hlo⟩
  have b25 : ∀ n0, n0 ≤ w0 → n0 / 2 ^ 26 = w0 / 2 ^ 26 → (w0 / 2 ^ 26 = 54 ∨ w0 / 2 ^ 26 = 55) →
      extractBits n0 f.opLo f.opHi = extractBits w0 f.opLo f.opHi → n0 < 2 ^ 32 ∧ matchFormat n0 = some f ∧
      extractBits n0 f.opLo f.opHi = extractBits w0 f.opLo f.opHi := by
    intro n0 hle e he hx
    have hn : n0 < 2 ^ 32 := Nat.lt_of_le_of_lt hle hw0
    exact ⟨hn, by rw [matchFormat_bit25 n0 w0 hn hw0 e he, hm], hx⟩
  rcases ft13_cases h13 with g | g | g | g | g | g | g | g | g | g | g | g | g
  · apply same; simp [normRow, g, FT_SOP2, FT_SMEM, FT_VOP3a, FT_VOP3b, FT_DS, FT_FLAT, FT_VOP2]
  · apply same; simp [normRow, g, FT_SOPK, FT_SMEM, FT_VOP3a, FT_VOP3b, FT_DS, FT_FLAT, FT_VOP2]
  · apply same; simp [normRow, g, FT_SOP1, FT_SMEM, FT_VOP3a, FT_VOP3b, FT_DS, FT_FLAT, FT_VOP2]
  · apply same; simp [normRow, g, FT_SOPC, FT_SMEM, FT_VOP3a, FT_VOP3b, FT_DS, FT_FLAT, FT_VOP2]
  · apply same; simp [normRow, g, FT_SOPP, FT_SMEM, FT_VOP3a, FT_VOP3b, FT_DS, FT_FLAT, FT_VOP2]
  · apply same
    simp only [normRow, g, FT_SMEM, FT_VOP3a, FT_VOP3b, FT_DS, FT_FLAT, FT_VOP2, Nat.reduceBEq, Bool.false_eq_true, if_false,
      BEq.rfl, Bool.true_and]
    split <;> rfl
  · apply same; simp [normRow, g, FT_VOP1, FT_SMEM, FT_VOP3a, FT_VOP3b, FT_DS, FT_FLAT, FT_VOP2]
  · apply same; simp [normRow, g, FT_VOPC, FT_SMEM, FT_VOP3a, FT_VOP3b, FT_DS, FT_FLAT, FT_VOP2]
  · obtain ⟨a1, a2, a3, a4, a5⟩ := fmt_smem f hfm g
    simp only [normRow, g, FT_SMEM, BEq.rfl, if_true]
    exact low _ (disp_clr_le _ _ _) (disp_smem _) (by rw [a2]; decide)
  · obtain ⟨a1, a2, a3, a4, a5⟩ := fmt_vop3a f hfm g
    simp only [normRow, g, FT_SMEM, FT_VOP3a, Nat.reduceBEq, Bool.false_eq_true, if_false, BEq.rfl, if_true]
    split
    · exact same _ rfl
    · split
      · exact low _ (disp_clr_le _ _ _) (disp_v3a1 _) (by rw [a2]; decide)
      · exact low _ (disp_clr_le _ _ _) (disp_v3a2 _) (by rw [a2]; decide)
  · obtain ⟨a1, a2, a3, a4, a5⟩ := fmt_vop3b f hfm g
    simp only [normRow, g, FT_SMEM, FT_VOP3a, FT_VOP3b, Nat.reduceBEq, Bool.false_eq_true, if_false, BEq.rfl, if_true]
    split
    · exact same _ rfl
    · exact low _ (disp_clr_le _ _ _) (disp_v3b _) (by rw [a2]; decide)
  · obtain ⟨a1, a2, a3, a4, a5⟩ := fmt_ds f hfm g
    rw [a4, a5] at hdiv
    simp only [normRow, g, FT_SMEM, FT_VOP3a, FT_VOP3b, FT_DS, Nat.reduceBEq, Bool.false_eq_true, if_false, BEq.rfl, if_true]
    exact b25 _ (disp_clr_le _ _ _) (disp_ds1 _) (Or.inl hdiv) (by rw [a2, a3]; exact disp_ds2 _)
  · obtain ⟨a1, a2, a3, a4, a5⟩ := fmt_flat f hfm g
    rw [a4, a5] at hdiv
    simp only [normRow, g, FT_SMEM, FT_VOP3a, FT_VOP3b, FT_DS, FT_FLAT, Nat.reduceBEq, Bool.false_eq_true, if_false, BEq.rfl, if_true]
    obtain ⟨d1, d2, d3, d4⟩ := disp_flat w0
    have k0 := b25 _ d1 d2 (Or.inr hdiv) (by rw [a2, a3]; exact d3)
    cases w1? with
    | none => exact k0
    | some w1 =>
      simp only []
      split
      · rename_i hc
        simp only [Bool.and_eq_true, bne_iff_ne, ne_eq] at hc
        obtain ⟨e1, e2, e3⟩ := d4 hc.2
        exact b25 _ e1 e2 (Or.inr hdiv) (by rw [a2, a3]; exact e3)
      · exact k0

/-! ## `decodeCore` level -/

theorem decodeRow_ok_ft13 {c : Bool} {f : Format} {row : Row} {w0 : Nat} {w1? : Option Nat} {i : Inst}
    (h : decodeRow c f row w0 w1? = .ok i) : ft13.contains f.ft = true := by
  by_cases h13 : ft13.contains f.ft = true
  · exact h13
  · exfalso
    simp only [ft13, List.contains_eq_mem, List.mem_cons, List.not_mem_nil, or_false, decide_eq_true_eq, not_or] at h13
    obtain ⟨n1, n2, n3, n4, n5, n6, n7, n8, n9, n10, n11, n12, n13⟩ := h13
    unfold decodeRow at h
    simp only [] at h
    split at h
    · cases w1? with
      | none => simp at h
      | some w1 =>
        have : dec8 c { name := row.name, ft := f.ft, opcode := row.opcode } row w0 w1 = none := by
          unfold dec8
          simp [n9, n13, n10, n11, n12]
        simp [this, Outcome.setSize] at h
    · have : dec4 { name := row.name, ft := f.ft, opcode := row.opcode } row w0 = none := by
        unfold dec4
        simp [n1, n6, n7, n5, n8, n4, n3, n2]
      simp [this] at h

theorem decodeCore_norm (c : Bool) (w0 : Nat) (w1? : Option Nat) (hw0 : w0 < 2 ^ 32)
    (hw1 : ∀ w1, w1? = some w1 → w1 < 2 ^ 32) :
    decodeCore (lookUpArch c) c (normCore c w0 w1?).1 (normCore c w0 w1?).2 = decodeCore (lookUpArch c) c w0 w1? := by
  unfold normCore
  cases hm : matchFormat w0 with
  | none => rfl
  | some f =>
    simp only []
    cases hl : lookUpArch c f.ft (extractBits w0 f.opLo f.opHi) with
    | none => rfl
    | some row =>
      simp only []
      by_cases h13 : ft13.contains f.ft = true
      · simp only [h13, if_true]
        obtain ⟨a, b, d⟩ := norm_dispatch c f row w0 w1? hm h13 hw0
        unfold decodeCore
        simp only [b, d, hl, hm]
        exact norm_row c f row w0 w1? (matchFormat_mem hm) h13 hw0 hw1
      · simp only [h13]
        rfl

theorem decodeCore_desc (c : Bool) (w0 : Nat) (w1? : Option Nat) (i : Inst) (hw0 : w0 < 2 ^ 32)
    (hw1 : ∀ w1, w1? = some w1 → w1 < 2 ^ 32)
    (h : decodeCore (lookUpArch c) c w0 w1? = .ok i) :
    normCore c w0 w1? = (encWord (descOf c i), encSecond (descOf c i)) := by
  unfold decodeCore at h
  unfold normCore
  cases hm : matchFormat w0 with
  | none => simp [hm] at h
  | some f =>
    simp only [hm] at h ⊢
    cases hl : lookUpArch c f.ft (extractBits w0 f.opLo f.opHi) with
    | none => simp [hl] at h
    | some row =>
      simp only [hl] at h ⊢
      have h13 := decodeRow_ok_ft13 h
      simp only [h13, if_true]
      have hop : extractBits w0 f.opLo f.opHi = row.opcode := (lookUpArch_some hl).2.2.symm
      obtain ⟨e1, e2⟩ := desc_row c f row w0 w1? i (matchFormat_mem hm) h13 hw0 hw1 (matchFormat_div hw0 hm) hop h
      rw [e1, e2]

/-- the canonical second dword is no larger than the original one -/
theorem normRow_snd_le (c : Bool) (ft : Nat) (row : Row) (w0 : Nat) (w1? : Option Nat) (n1 : Nat)
    (h : (normRow c ft row w0 w1?).2 = some n1) : ∃ w1, w1? = some w1 ∧ n1 ≤ w1 := by
  have eb : ∀ w hi, extractBits w 0 hi ≤ w := by
    intro w hi
    unfold extractBits
    simp only [Nat.pow_zero, Nat.div_one]
    exact Nat.mod_le _ _
  cases w1? with
  | none =>
    unfold normRow at h
    by_cases h1 : (ft == FT_SMEM) = true
    · simp [h1] at h
    · by_cases h2 : (ft == FT_VOP3a) = true
      · simp [h1, h2] at h
      · by_cases h3 : (ft == FT_VOP3b) = true
        · simp [h1, h2, h3] at h
        · by_cases h4 : (ft == FT_DS) = true
          · simp [h1, h2, h3, h4] at h
          · by_cases h5 : (ft == FT_FLAT) = true
            · simp [h1, h2, h3, h4, h5] at h
            · by_cases h6 : (ft == FT_VOP2 && extractBits w0 0 8 == 249) = true
              · simp only [h1, h2, h3, h4, h5, h6, if_true, if_false, Bool.false_eq_true] at h
                simp at h
              · simp only [h1, h2, h3, h4, h5, h6, if_true, if_false, Bool.false_eq_true] at h
                split at h <;> simp at h
  | some w1 =>
    refine ⟨w1, rfl, ?_⟩
    unfold normRow at h
    by_cases h1 : (ft == FT_SMEM) = true
    · simp only [h1, if_true, Option.map_some, Option.some.injEq] at h
      subst h
      split <;> exact eb _ _
    · by_cases h2 : (ft == FT_VOP3a) = true
      · simp only [h1, h2, if_true, if_false, Bool.false_eq_true, Option.map_some, Option.some.injEq] at h
        subst h
        split
        · exact Nat.le_refl _
        · exact disp_clr_le _ _ _
      · by_cases h3 : (ft == FT_VOP3b) = true
        · simp only [h1, h2, h3, if_true, if_false, Bool.false_eq_true, Option.map_some, Option.some.injEq] at h
          subst h
          split
          · exact Nat.le_refl _
          · exact disp_clr_le _ _ _
        · by_cases h4 : (ft == FT_DS) = true
          · simp only [h1, h2, h3, h4, if_true, if_false, Bool.false_eq_true, Option.map_some, Option.some.injEq] at h
            subst h
            by_cases s0 : row.src0W > 0 <;> by_cases s1 : row.src1W > 0 <;> by_cases sd : row.dstW > 0 <;>
              simp only [s0, s1, sd, if_true, if_false] <;>
              repeat (first | exact Nat.le_refl _ | apply Nat.le_trans (disp_clr_le _ _ _))
          · by_cases h5 : (ft == FT_FLAT) = true
            · simp only [h1, h2, h3, h4, h5, if_true, if_false, Bool.false_eq_true, Option.some.injEq] at h
              subst h
              exact Nat.le_refl _
            · by_cases h6 : (ft == FT_VOP2 && extractBits w0 0 8 == 249) = true
              · simp only [h1, h2, h3, h4, h5, h6, if_true, if_false, Bool.false_eq_true, Option.map_some, Option.some.injEq] at h
                subst h
                unfold normSdwa
                simp only []
                split <;> repeat (first | exact Nat.le_refl _ | apply Nat.le_trans (disp_clr_le _ _ _))
              · simp only [h1, h2, h3, h4, h5, h6, if_true, if_false, Bool.false_eq_true] at h
                split at h
                · simp only [Option.some.injEq] at h
                  subst h
                  exact Nat.le_refl _
                · simp at h

end C04
