import MgpuModel.C18_Plat
import MgpuProofs.C18Mem
/-! Helper lemmas for C18 (platform part, `MgpuModel/C18_Plat.lean`): closed forms of the two mappers
and of `access` / `target` in terms of the bank index `a / S`, under the equalities between the
builders' numbers collected in `PlatOk`. General lemmas are stated over a variable configuration; the
4 GiB literals appear only in `Props/C18Plat.lean`. -/
namespace C18

/-- what the routing theorems need of the builders' numbers: a positive bank size, the local range of
    every GPU exactly one bank wide (`dramSize = gpuMemSize`), positive interleaving and bank count, and
    the DMA / PMC mapper interleaved like the L1→L2 mapper -/
structure PlatOk (p : PlatCfg) : Prop where
  sPos : 0 < p.S
  dEq : p.D = p.S
  iszPos : 0 < p.isz
  kPos : 0 < p.k
  dmaEq : p.disz = p.isz

theorem lo_eq (p : PlatCfg) (g : Nat) : p.lo g = g * p.S := rfl

theorem hi_eq (p : PlatCfg) (g : Nat) : p.hi g = g * p.S + p.D := rfl

/-- the L1→L2 mapper in terms of the local range -/
theorem l1Find_eq (p : PlatCfg) (g a : Nat) :
    l1Find p g a = if g * p.S ≤ a ∧ a < g * p.S + p.D then .l2 (a / p.isz % p.k) else .rdma := by
  unfold l1Find
  rw [lo_eq, hi_eq]
  by_cases h : g * p.S ≤ a ∧ a < g * p.S + p.D
  · have h' : ¬ (a ≥ g * p.S + p.D ∨ a < g * p.S) := by omega
    simp only [h, h', and_self, if_true, if_false]
  · have h' : a ≥ g * p.S + p.D ∨ a < g * p.S := by omega
    simp only [h, h', if_true, if_false]

/-- `g·S ≤ a < g·S + S` says `a / S = g` -/
theorem range_iff_div (S g a : Nat) (hS : 0 < S) : (g * S ≤ a ∧ a < g * S + S) ↔ a / S = g := by
  constructor
  · intro ⟨h1, h2⟩
    exact Nat.div_eq_of_lt_le h1 (by rw [Nat.add_mul]; omega)
  · intro hg
    subst hg
    have h1 := Nat.div_mul_le_self a S
    have h2 := Nat.lt_div_mul_add (a := a) hS
    omega

/-- with local ranges one bank wide, the L1→L2 mapper keeps exactly the issuer's own bank -/
theorem l1Find_of_ok (p : PlatCfg) (hS : 0 < p.S) (hD : p.D = p.S) (g a : Nat) :
    l1Find p g a = if a / p.S = g then .l2 (a / p.isz % p.k) else .rdma := by
  rw [l1Find_eq, hD]
  by_cases h : a / p.S = g
  · have h' := (range_iff_div p.S g a hS).2 h
    simp only [h', and_self, if_true, h]
  · have h' : ¬ (g * p.S ≤ a ∧ a < g * p.S + p.S) := fun x => h ((range_iff_div p.S g a hS).1 x)
    simp only [h', h, if_false]

theorem l1Find_ne_rdma_iff (p : PlatCfg) (g a : Nat) :
    l1Find p g a ≠ .rdma ↔ (g * p.S ≤ a ∧ a < g * p.S + p.D) := by
  rw [l1Find_eq]
  by_cases h : g * p.S ≤ a ∧ a < g * p.S + p.D
  · simp only [h, and_self, if_true, ne_eq, reduceCtorEq, not_false_eq_true]
  · simp only [h, if_false, ne_eq, not_true_eq_false]

/-- the RDMA table has an entry exactly for the addresses below `(n + 1)·S` -/
theorem rdmaFind_isSome (p : PlatCfg) (hS : 0 < p.S) (a : Nat) :
    (rdmaFind p a).isSome = true ↔ a < (p.n + 1) * p.S := by
  unfold rdmaFind
  have hS' : ¬ p.S = 0 := by omega
  simp only [hS', if_false]
  rw [← Nat.div_lt_iff_lt_mul hS]
  by_cases h : a / p.S < p.n + 1
  · simp only [h, if_true, Option.isSome_some]
  · simp only [h, if_false, Option.isSome_none, Bool.false_eq_true]

theorem rdmaFind_of_pos (p : PlatCfg) (hS : 0 < p.S) (a : Nat) :
    rdmaFind p a = if a / p.S < p.n + 1 then some (a / p.S) else none := by
  unfold rdmaFind
  have hS' : ¬ p.S = 0 := by omega
  simp only [hS', if_false]

/-- closed form of `access` under `PlatOk` -/
theorem access_eq (p : PlatCfg) (h : PlatOk p) (g a : Nat) :
    access p g a =
      if a / p.S = g then .l2 g (a / p.isz % p.k) 0
      else if a / p.S = 0 then .cpu
      else if a / p.S ≤ p.n then .l2 (a / p.S) (a / p.isz % p.k) 1
      else .oob := by
  have hl := l1Find_of_ok p h.sPos h.dEq
  unfold access
  rw [hl g a, rdmaFind_of_pos p h.sPos]
  by_cases h1 : a / p.S = g
  · simp only [h1, if_true]
  · simp only [h1, if_false]
    by_cases h2 : a / p.S = 0
    · simp [h2]
    · obtain ⟨d, hd⟩ : ∃ d, a / p.S = d + 1 :=
        ⟨a / p.S - 1, (Nat.sub_add_cancel (Nat.pos_of_ne_zero h2)).symm⟩
      simp only [h2, if_false]
      by_cases h3 : a / p.S ≤ p.n
      · have h4 : a / p.S < p.n + 1 := by omega
        simp only [h3, h4, if_true]
        rw [hd]
        simp only []
        rw [hl (d + 1) a]
        simp only [hd, if_true]
      · have h4 : ¬ a / p.S < p.n + 1 := by omega
        simp only [h3, h4, if_false]

/-- closed form of `target` (the memory-level model) for a positive bank size -/
theorem target_eq (c : MemCfg) (hS : 0 < c.S) (g a : Nat) :
    target c g a =
      if a / c.S = g then .ok g
      else if a / c.S = 0 then .error .cpu
      else if a / c.S ≤ c.n then .ok (a / c.S)
      else .error .bounds := by
  have hl : ∀ g, isLocal c.S g a = true ↔ a / c.S = g := fun g => by
    rw [isLocal_iff_bank c.S g a hS]; unfold bank; exact eq_comm
  have hS' : ¬ c.S = 0 := by omega
  unfold target
  by_cases h1 : a / c.S = g
  · have hloc := (hl g).2 h1
    simp only [hloc, if_true, h1]
  · have hloc : ¬ isLocal c.S g a = true := fun x => h1 ((hl g).1 x)
    simp only [hloc, h1, Bool.false_eq_true, if_false, routeOut, rdmaCfg, hS']
    by_cases h2 : a / c.S = 0
    · simp [h2]
    · obtain ⟨d, hd⟩ : ∃ d, a / c.S = d + 1 :=
        ⟨a / c.S - 1, (Nat.sub_add_cancel (Nat.pos_of_ne_zero h2)).symm⟩
      simp only [h2, if_false]
      by_cases h3 : a / c.S ≤ c.n
      · have h4 : a / c.S < c.n + 1 := by omega
        simp only [h3, h4, if_true]
        rw [hd]
        simp only []
        have hloc' := (hl (d + 1)).2 hd
        simp only [hloc', if_true]
      · have h4 : ¬ a / c.S < c.n + 1 := by omega
        simp only [h3, h4, if_false]

/-- the last page of bank `d`'s allocator range lies below the end of the table when `d` is not the last
    bank (stated over a variable bank size: `omega` is not given the 4 GiB literal) -/
theorem last_page_lt (K P n d a : Nat) (hP : P ≤ K) (hlt : d < n) (h : a < (d + 1) * K + P) :
    a < (n + 1) * K := by
  have h1 : (d + 1 + 1) * K ≤ (n + 1) * K := Nat.mul_le_mul_right K (by omega)
  rw [Nat.add_mul (d + 1) 1 K, Nat.one_mul] at h1
  generalize (d + 1) * K = x at *
  generalize (n + 1) * K = y at *
  omega

end C18
