import MgpuProofs.C03SRun
/-! Every (format, opcode) the modelled opcode switch of an ALU can select is a row of the table the
    translator generated next to it (so coverage of the table is coverage of the switch). -/
namespace C03S
open C03S
set_option maxRecDepth 4000

theorem gen_gcn3_rows (fmt op : Nat) (h : ScalarIn → ScalarOut) (hd : Gen.gcn3.dispatch fmt op = some h) :
    Gen.gcn3.table.any (fun r => r.1 == fmt && r.2.1 == op) = true := by
  unfold Gen.gcn3.dispatch at hd
  split at hd <;> first | rfl | (exact absurd hd (by simp))

theorem gen_cdna3_rows (fmt op : Nat) (h : ScalarIn → ScalarOut) (hd : Gen.cdna3.dispatch fmt op = some h) :
    Gen.cdna3.table.any (fun r => r.1 == fmt && r.2.1 == op) = true := by
  unfold Gen.cdna3.dispatch at hd
  split at hd <;> first | rfl | (exact absurd hd (by simp))

theorem hand_gcn3_rows (fmt op : Nat) (h : ScalarIn → ScalarOut) (hd : Hand.gcn3.dispatch fmt op = some h) :
    Gen.gcn3.table.any (fun r => r.1 == fmt && r.2.1 == op) = true := by
  unfold Hand.gcn3.dispatch at hd
  split at hd <;> first | rfl | (exact absurd hd (by simp))

theorem hand_cdna3_rows (fmt op : Nat) (h : ScalarIn → ScalarOut) (hd : Hand.cdna3.dispatch fmt op = some h) :
    Gen.cdna3.table.any (fun r => r.1 == fmt && r.2.1 == op) = true := by
  unfold Hand.cdna3.dispatch at hd
  split at hd <;> first | rfl | (exact absurd hd (by simp))

/-- a hand-modelled (format, opcode) has no translated handler -/
theorem hand_gen_disjoint_gcn3 (fmt op : Nat) (h : ScalarIn → ScalarOut) (hd : Hand.gcn3.dispatch fmt op = some h) :
    Gen.gcn3.dispatch fmt op = none := by
  unfold Hand.gcn3.dispatch at hd
  split at hd <;> first | rfl | (exact absurd hd (by simp))

theorem hand_gen_disjoint_cdna3 (fmt op : Nat) (h : ScalarIn → ScalarOut) (hd : Hand.cdna3.dispatch fmt op = some h) :
    Gen.cdna3.dispatch fmt op = none := by
  unfold Hand.cdna3.dispatch at hd
  split at hd <;> first | rfl | (exact absurd hd (by simp))

theorem gcn3_dispatch_rows (fmt op : Nat) (h : ScalarIn → ScalarOut) (hd : gcn3Dispatch fmt op = some h) :
    Gen.gcn3.table.any (fun r => r.1 == fmt && r.2.1 == op) = true := by
  unfold gcn3Dispatch at hd
  cases hg : Gen.gcn3.dispatch fmt op with
  | some f => exact gen_gcn3_rows fmt op f hg
  | none => rw [hg] at hd; exact hand_gcn3_rows fmt op h hd

theorem cdna3_dispatch_rows (fmt op : Nat) (h : ScalarIn → ScalarOut) (hd : cdna3Dispatch fmt op = some h) :
    Gen.cdna3.table.any (fun r => r.1 == fmt && r.2.1 == op) = true := by
  unfold cdna3Dispatch at hd
  cases hg : Gen.cdna3.dispatch fmt op with
  | some f => exact gen_cdna3_rows fmt op f hg
  | none => rw [hg] at hd; exact hand_cdna3_rows fmt op h hd

end C03S
