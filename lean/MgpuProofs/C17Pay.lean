import MgpuProofs.C17Sem
/-! C17: what the response messages carry. Invariant `Pay`: every response (and every committed item still waiting for
the port) belongs to exactly one entry of the commit log and carries what the storage held just below that entry. -/
namespace C17

/-- `d` is the payload that belongs to the commit of `r` recorded in `log` (newest first): `r` occurs in the log, and a read
carries the bytes of the storage made of exactly the commits *below* it; a write carries nothing. -/
def Carries (log : List Req) (r : Req) (d : List Nat) : Prop :=
  ∃ newer older, log = newer ++ r :: older ∧
    (r.kind = .rd → d = readRange older r.addr r.len) ∧ (r.kind = .wr → d = [])

theorem Carries.grow {log : List Req} {r : Req} {d : List Nat} (h : Carries log r d) (n : List Req) :
    Carries (n ++ log) r d := by
  obtain ⟨newer, older, e, h1, h2⟩ := h
  exact ⟨n ++ newer, older, by rw [e, List.append_assoc], h1, h2⟩

/-- an in-flight item: committed items carry their payload, uncommitted ones carry nothing yet -/
def ItemOk (log : List Req) (it : Item) : Prop :=
  (it.committed = true → Carries log it.req it.rdata) ∧ (it.committed = false → it.rdata = [])

theorem ItemOk.grow {log : List Req} {it : Item} (h : ItemOk log it) (n : List Req) : ItemOk (n ++ log) it :=
  ⟨fun hc => (h.1 hc).grow n, h.2⟩

theorem ItemOk_fresh (log : List Req) (r : Req) : ItemOk log (fresh r) :=
  ⟨fun h => by simp [fresh] at h, fun _ => rfl⟩

theorem commit_pay (it it' : Item) (log log' : List Req) (hi : ItemOk log it) (h : commit it log = some (it', log')) :
    (∃ n, log' = n ++ log) ∧ Carries log' it'.req it'.rdata ∧ it'.committed = true := by
  unfold commit at h
  by_cases hc : it.committed = true
  · simp [hc] at h
    obtain ⟨rfl, rfl⟩ := h
    exact ⟨⟨[], rfl⟩, hi.1 hc, hc⟩
  · have hc' : it.committed = false := by simpa using hc
    have hr := hi.2 hc'
    simp [hc] at h
    cases hk : it.req.kind with
    | rd =>
      simp [hk] at h
      obtain ⟨rfl, rfl⟩ := h
      exact ⟨⟨[it.req], rfl⟩, ⟨[], log, rfl, fun _ => rfl, fun h => by simp [hk] at h⟩, rfl⟩
    | wr =>
      simp [hk] at h
      obtain ⟨_, rfl, rfl⟩ := h
      exact ⟨⟨[it.req], rfl⟩, ⟨[], log, rfl, fun h => by simp [hk] at h, fun _ => hr⟩, rfl⟩

theorem finalizePost_pay (c : Cfg) : ∀ (post : List Item) (log : List Req) (out resp : List Rsp),
    (∀ it ∈ post, ItemOk log it) → (∀ x ∈ resp, Carries log x.req x.data) →
    (∃ n, (finalizePost c post log out resp).log = n ++ log) ∧
    (∀ x ∈ (finalizePost c post log out resp).resp, Carries (finalizePost c post log out resp).log x.req x.data) ∧
    (∀ it ∈ (finalizePost c post log out resp).post, ItemOk (finalizePost c post log out resp).log it) := by
  intro post
  induction post with
  | nil => intro log out resp _ hr; exact ⟨⟨[], rfl⟩, hr, fun _ h => by simp [finalizePost] at h⟩
  | cons it rest ih =>
    intro log out resp hp hr
    simp only [finalizePost]
    split
    · exact ⟨⟨[], rfl⟩, hr, hp⟩
    cases hcm : commit it log with
    | none => exact ⟨⟨[], rfl⟩, hr, hp⟩
    | some p =>
      obtain ⟨it', log'⟩ := p
      obtain ⟨⟨n, hn⟩, hcar, hcom⟩ := commit_pay it it' log log' (hp it (by simp)) hcm
      have hrest : ∀ x ∈ rest, ItemOk log' x := fun x hx => by rw [hn]; exact (hp x (by simp [hx])).grow n
      have hresp : ∀ x ∈ resp, Carries log' x.req x.data := fun x hx => by rw [hn]; exact (hr x hx).grow n
      simp only
      split
      · obtain ⟨⟨n2, hn2⟩, a2, a3⟩ := ih log' (out ++ [rspOf it']) (resp ++ [rspOf it']) hrest
          (by
            intro x hx
            simp only [List.mem_append, List.mem_singleton] at hx
            rcases hx with hx | rfl
            · exact hresp x hx
            · exact hcar)
        exact ⟨⟨n2 ++ n, by rw [hn2, hn, List.append_assoc]⟩, a2, a3⟩
      · refine ⟨⟨n, hn⟩, hresp, ?_⟩
        intro x hx
        simp only [List.mem_cons] at hx
        rcases hx with rfl | hx
        · exact ⟨fun _ => hcar, fun h => by rw [hcom] at h; cases h⟩
        · exact hrest x hx

structure Pay (c : Cfg) (s : State) : Prop where
  rsp : ∀ x ∈ s.resp, Carries s.log x.req x.data
  itm : ∀ k, ∀ it ∈ chain c s k, ItemOk s.log it

theorem finalizeAt_pay (c : Cfg) (s : State) (j : Nat) (h : Pay c s) :
    Pay c (finalizeAt c s j).1 ∧ ∃ n, (finalizeAt c s j).1.log = n ++ s.log := by
  unfold finalizeAt
  cases hb : s.banks[j]? with
  | none => exact ⟨h, [], rfl⟩
  | some b =>
    have hlt : j < s.banks.length := (List.getElem?_eq_some_iff.1 hb).1
    have hpost : ∀ it ∈ b.post, ItemOk s.log it := fun it hit =>
      h.itm j it (by simp only [chain, bankChain, hb, bItems, List.mem_append]; exact Or.inl (Or.inl (Or.inl hit)))
    obtain ⟨⟨n, hn⟩, a2, a3⟩ := finalizePost_pay c b.post s.log s.outBuf s.resp hpost h.rsp
    refine ⟨⟨a2, ?_⟩, n, hn⟩
    intro k it hit
    simp only [chain, bankChain] at hit
    by_cases hj : j = k
    · subst hj
      simp only [List.getElem?_set_self hlt, bItems, List.mem_append] at hit
      rcases hit with ((hit | hit) | hit) | hit
      · exact a3 it hit
      · simp only; rw [hn]
        exact (h.itm j it (by simp only [chain, bankChain, hb, bItems, List.mem_append]; exact Or.inl (Or.inl (Or.inr hit)))).grow n
      · simp only; rw [hn]
        exact (h.itm j it (by simp only [chain, bankChain, hb, bItems, List.mem_append]; exact Or.inl (Or.inr hit))).grow n
      · simp only; rw [hn]
        exact (h.itm j it (by simp only [chain, bankChain, List.mem_append]; exact Or.inr hit)).grow n
    · simp only [List.getElem?_set_ne hj] at hit
      simp only; rw [hn]
      exact (h.itm k it (by simp only [chain, bankChain]; exact hit)).grow n

theorem finalizeFrom_pay (c : Cfg) : ∀ (ks : List Nat) (s : State), Pay c s → Pay c (finalizeFrom c ks s).1 := by
  intro ks
  induction ks with
  | nil => intro s h; exact h
  | cons j ks ih =>
    intro s h
    simp only [finalizeFrom]
    split
    · exact (finalizeAt_pay c s j h).1
    · exact ih _ (finalizeAt_pay c s j h).1

theorem tick_pay (c : Cfg) (s : State) (hi : Inv c s) (h : Pay c s) : Pay c (tick c s) := by
  unfold tick
  have h1 : Pay c (finalize c s).1 := finalizeFrom_pay c _ s h
  have i1 := finalize_inv c s hi
  simp only
  split
  · exact h1
  · have i2 := tickPipes_inv c _ i1
    have i3 := tickDelays_inv c _ i2
    split
    · refine ⟨h1.rsp, ?_⟩
      intro k it hit
      rw [tickDelays_chain c _ i2.wf, tickPipes_chain c _ i1.wf] at hit
      exact h1.itm k it hit
    · refine ⟨h1.rsp, ?_⟩
      intro k it hit
      rw [drainTop_chain, (dispatch_chain c _ k i3.wf).2, tickDelays_chain c _ i2.wf, tickPipes_chain c _ i1.wf] at hit
      exact h1.itm k it hit

theorem step_pay (c : Cfg) (s : State) (op : Op) (hi : Inv c s) (h : Pay c s) : Pay c (step c s op) := by
  cases op with
  | deliver k a l d m =>
    simp only [step, deliver]
    split
    · refine ⟨h.rsp, ?_⟩
      intro j it hit
      simp only [chain, ← List.append_assoc, List.filter_append, List.map_append, List.mem_append] at hit
      rcases hit with hit | hit
      · exact h.itm j it (by simp only [chain, List.filter_append, List.map_append, List.mem_append]; simpa [or_assoc] using hit)
      · simp only [List.mem_map] at hit
        obtain ⟨r, _, rfl⟩ := hit
        exact ItemOk_fresh _ r
    · exact h
  | tick => exact tick_pay c s hi h
  | out k => exact ⟨h.rsp, fun j it hit => h.itm j it (by simpa [chain, step] using hit)⟩

theorem init_pay (c : Cfg) (hw : c.width = 1) : Pay c (init c) := by
  refine ⟨fun x hx => by simp [init] at hx, ?_⟩
  intro k it hit
  have := (init_inv c hw).r k
  simp only [R, init, List.map_nil, List.filter_nil, List.nil_append, List.map_eq_nil_iff] at this
  simp only [init] at hit
  rw [this] at hit
  cases hit

theorem run_pay (c : Cfg) (hw : c.width = 1) (ops : List Op) : Pay c (run c ops) := by
  unfold run
  have : ∀ (ops : List Op) (s : State), Inv c s → Pay c s → Pay c (ops.foldl (step c) s) := by
    intro ops
    induction ops with
    | nil => intro s _ h; exact h
    | cons o os ih => intro s hi h; exact ih _ (step_inv c s o hi) (step_pay c s o hi h)
  exact this ops _ (init_inv c hw) (init_pay c hw)

/-- from "carries what lay below its commit" to "carries flat arrival-order memory": per byte, under per-byte routing -/
theorem carried_byte_flat (c : Cfg) (s : State) (h : Inv c s) (r : Req) (newer older : List Req)
    (hlog : s.log = newer ++ r :: older) (x : Nat)
    (hq : ∀ r' ∈ s.arrived, touches x r' = true → bankOf c r'.addr = bankOf c r.addr) :
    readByte older x = readByte (s.arrived.take r.id).reverse x := by
  have hi := h.i (bankOf c r.addr)
  unfold I at hi
  have hin : inB c (bankOf c r.addr) r = true := by simp [inB]
  rw [hlog] at hi
  simp only [List.filter_append, List.filter_cons, hin, if_true, List.reverse_append, List.reverse_cons,
    List.append_assoc, List.singleton_append] at hi
  refine flat_of_prefix c s.arrived older (bankOf c r.addr) r _ h.ids hi ?_ x
    (fun r' hr' ht' => by simp [inB, hq r' hr' ht'])
  intro r' hr'
  exact log_sub_arrived c s h r' (by rw [hlog]; simp [hr'])

theorem log_nodup (c : Cfg) (s : State) (h : Inv c s) : s.log.Nodup := by
  have hnd := arrived_nodup c s h
  have key : ∀ (l : List Req), (∀ k, (l.filter (fun r => bankOf c r.addr == k)).Nodup) → l.Nodup := by
    intro l
    induction l with
    | nil => intro _; exact List.nodup_nil
    | cons a t ih =>
      intro hh
      rw [List.nodup_cons]
      constructor
      · intro hm
        have := hh (bankOf c a.addr)
        simp only [List.filter_cons, beq_self_eq_true, if_true, List.nodup_cons] at this
        exact this.1 (List.mem_filter.2 ⟨hm, by simp⟩)
      · apply ih
        intro k
        have := hh k
        simp only [List.filter_cons] at this
        split at this
        · exact (List.nodup_cons.1 this).2
        · exact this
  apply key
  intro k
  have : (s.arrived.filter (inB c k)).Nodup := hnd.filter _
  rw [← h.i k, List.nodup_append] at this
  have h2 := List.pairwise_reverse.1 this.1
  exact h2.imp (fun hab => Ne.symm hab)

end C17
