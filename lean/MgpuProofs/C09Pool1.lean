import MgpuModel.C09_Disp
import MgpuProofs.C09Res
/-! # C09 — the shared CU pool under the dispatchers, part 1: grid arithmetic, `setDisp` lemmas,
    one placement attempt (`tryCUs`). -/
namespace C09

/-- every CU of the pool satisfies the resource invariant for its registered wavefront-pool sizes -/
def PoolInv (caps : List (List Nat)) (pool : List CU) : Prop :=
  pool.length = caps.length ∧ ∀ c (h : c < pool.length), Inv (caps.getD c []) pool[c]

/-- a launched kernel is well formed -/
def KernOK (k : Kern) : Prop := 1 ≤ k.gx ∧ 1 ≤ k.wx

/-- every work-group of the grid has at least one wavefront -/
theorem nwf_pos (k : Kern) (i : Nat) (hk : KernOK k) (hi : i < k.numWG) : 1 ≤ k.nwfOf i := by
  obtain ⟨hg, hw⟩ := hk
  unfold Kern.numWG at hi
  have h1 : i ≤ (k.gx - 1) / k.wx := by omega
  rw [Nat.le_div_iff_mul_le (by omega)] at h1
  unfold Kern.nwfOf
  omega

theorem disp_setDisp (cp : CP) (i j : Nat) (d : Disp) :
    (cp.setDisp i d).disp j = if i = j ∧ i < cp.disps.length then d else cp.disp j := by
  simp only [CP.setDisp, CP.disp, List.getD_eq_getElem?_getD, List.getElem?_set]
  by_cases h : i = j
  · subst h
    by_cases h2 : i < cp.disps.length
    · simp [h2]
    · simp [h2]
  · simp [h]

theorem disp_setDisp_same (cp : CP) (i : Nat) (d : Disp) (h : i < cp.disps.length) :
    (cp.setDisp i d).disp i = d := by
  rw [disp_setDisp]; simp [h]

theorem disp_setDisp_other (cp : CP) (i j : Nat) (d : Disp) (h : i ≠ j) :
    (cp.setDisp i d).disp j = cp.disp j := by
  rw [disp_setDisp]; simp [h]

/-! ## the fit check of `StartDispatching` (repair 91eb1bb3): `handleLaunch` is the pinned
`handleLaunchOld`, or it only raises the terminal fault "oversize" -/

/-- the state after `log.Panicf("… cannot dispatch kernel …")`: nothing changed but the fault -/
def CP.rejected (cp : CP) : CP := { cp with fault := some "oversize" }

theorem handleLaunch_cases (cp : CP) :
    handleLaunch cp = handleLaunchOld cp ∨
    (handleLaunch cp = (cp.rejected, false) ∧
      ∃ k rest i, cp.drvIn = k :: rest ∧ findAvailable cp.disps = some i ∧ launchFits cp.pool k = false) := by
  unfold handleLaunch handleLaunchOld
  cases hdr : cp.drvIn with
  | nil => exact Or.inl rfl
  | cons k rest =>
    cases hfa : findAvailable cp.disps with
    | none => exact Or.inl rfl
    | some i =>
      cases hl : launchFits cp.pool k with
      | true => left; simp [hl]
      | false => right; exact ⟨by simp [CP.rejected, hl, hdr], k, rest, i, rfl, rfl, hl⟩

/-- a launch whose first work-group passes the check is started exactly as before the repair -/
theorem handleLaunch_of_fits (cp : CP) (h : ∀ k rest, cp.drvIn = k :: rest → launchFits cp.pool k = true) :
    handleLaunch cp = handleLaunchOld cp := by
  rcases handleLaunch_cases cp with e | ⟨_, k, rest, _, hd, _, hl⟩
  · exact e
  · rw [h k rest hd] at hl; cases hl

/-- proof pattern for every invariant: it is kept by the pinned `handleLaunchOld` and by raising the
    fault alone -/
theorem handleLaunch_ind {P : CP → Prop} (cp : CP) (hold : P (handleLaunchOld cp).1) (hrej : P cp.rejected) :
    P (handleLaunch cp).1 := by
  rcases handleLaunch_cases cp with e | ⟨e, _⟩
  · rw [e]; exact hold
  · rw [e]; exact hrej

/-- the fault after `handleLaunch`: unchanged or "oversize" -/
theorem handleLaunch_fault (cp : CP) :
    (handleLaunch cp).1.fault = cp.fault ∨ (handleLaunch cp).1.fault = some "oversize" := by
  rcases handleLaunch_cases cp with e | ⟨e, _⟩
  · left; rw [e]; unfold handleLaunchOld
    cases cp.drvIn with
    | nil => rfl
    | cons k rest =>
      cases findAvailable cp.disps with
      | none => rfl
      | some i => rfl
  · right; rw [e]; rfl

/-- a Go panic ends the tick: on the state left by a rejection the second `Handle` of the tick (which
    the model applies unconditionally) changes nothing -/
theorem handleLaunch_fault_idem (cp : CP) (h : (handleLaunch cp).1.fault = some "oversize")
    (hnf : cp.fault = none) : handleLaunch (handleLaunch cp).1 = handleLaunch cp := by
  rcases handleLaunch_cases cp with e | ⟨e, k, rest, i, hd, hfa, hl⟩
  · exfalso
    have : (handleLaunchOld cp).1.fault = cp.fault := by
      unfold handleLaunchOld
      cases cp.drvIn with
      | nil => rfl
      | cons k rest =>
        cases findAvailable cp.disps with
        | none => rfl
        | some i => rfl
    rw [e, this, hnf] at h; cases h
  · rw [e]
    show handleLaunch cp.rejected = (cp.rejected, false)
    unfold handleLaunch
    have h1 : cp.rejected.drvIn = k :: rest := hd
    have h2 : findAvailable cp.rejected.disps = some i := hfa
    have h3 : launchFits cp.rejected.pool k = false := hl
    rw [h1]; simp only [h2, h3]
    simp [CP.rejected, hd]

theorem PoolInv_set (caps : List (List Nat)) (pool : List CU) (c : Nat) (cu' : CU)
    (h : PoolInv caps pool) (hcu : c < pool.length → Inv (caps.getD c []) cu') :
    PoolInv caps (pool.set c cu') := by
  refine ⟨by simp [h.1], ?_⟩
  intro j hj
  have hj' : j < pool.length := by simpa using hj
  rw [List.getElem_set]
  split
  · rename_i hcj; subst hcj; exact hcu hj'
  · exact h.2 j hj'

/-- `reserve` reports "twice" only for a key that is already resident -/
theorem reserve_twice (cu : CU) (key : Nat) (d : Dem) (cu' : CU) (h : reserve cu key d = (.twice, cu')) :
    ∃ e ∈ cu.resident, e.1 = key := by
  unfold reserve at h
  rcases hs : sgprLoop (units d.s sGran) d.nwf cu.smask with ⟨_ | soffs, M1⟩
  · simp [hs] at h
  · simp only [hs] at h
    rcases hl : cu.lmask.nextRegion (units d.l lGran) stFree with ⟨_ | loff, M2⟩
    · simp [hl] at h
    · simp only [hl] at h
      rcases hm : matchLoop (units d.v vGran) cu.wfFree d.nwf
          { vmasks := cu.vmasks, next := cu.nextSIMD, used := cu.wfFree.map (fun _ => 0) } with ⟨_ | ps, st'⟩
      · simp [hm] at h
      · simp only [hm] at h
        split at h
        · rename_i hany
          simpa [List.any_eq_true] using hany
        · simp at h

/-- one pass of `Next` over the CUs -/
theorem tryCUs_spec (caps : List (List Nat)) (key : Nat) (d : Dem) (hn : 1 ≤ d.nwf) :
    ∀ (cs : List Nat) (pool : List CU) (r : TryRes) (pool' : List CU), PoolInv caps pool →
    (∀ c ∈ cs, c < pool.length) → tryCUs key d cs pool = (r, pool') →
    pool'.length = pool.length ∧
    (r ≠ .fault → PoolInv caps pool') ∧
    ((∀ cu ∈ pool, ∀ e ∈ cu.resident, e.1 ≠ key) → r ≠ .fault) ∧
    (r ≠ .fault → ∀ cu' ∈ pool', ∀ e ∈ cu'.resident,
      (∃ cu ∈ pool, e ∈ cu.resident) ∨ (e.1 = key ∧ ∃ c locs, r = .placed c locs)) ∧
    (∀ c locs, r = .placed c locs → (key, d, locs) ∈ (pool'.getD c default).resident) := by
  intro cs
  induction cs with
  | nil =>
    intro pool r pool' hp _ h
    simp only [tryCUs, Prod.mk.injEq] at h
    obtain ⟨rfl, rfl⟩ := h
    refine ⟨rfl, fun _ => hp, by simp, ?_, by simp⟩
    intro _ cu' hcu' e he
    exact Or.inl ⟨cu', hcu', he⟩
  | cons c cs ih =>
    intro pool r pool' hp hcs h
    have hc : c < pool.length := hcs c List.mem_cons_self
    have hget : pool.getD c default = pool[c] := by simp [List.getD_eq_getElem?_getD, hc]
    have hinv := hp.2 c hc
    have hmem : pool[c] ∈ pool := List.getElem_mem hc
    rcases hr : reserve pool[c] key d with ⟨res, cu1⟩
    have hpres := reserve_preserves _ _ key d res cu1 hinv hr
    simp only [tryCUs, hget, hr] at h
    cases res with
    | ok locs =>
      simp only [Prod.mk.injEq] at h
      obtain ⟨rfl, rfl⟩ := h
      obtain ⟨hi1, hres1⟩ := hpres.1 locs rfl hn
      refine ⟨by simp, fun _ => PoolInv_set caps pool c cu1 hp (fun _ => hi1), by simp, ?_, ?_⟩
      · intro _ cu' hcu' e he
        rcases List.mem_or_eq_of_mem_set hcu' with hm | hm
        · exact Or.inl ⟨cu', hm, he⟩
        · subst hm
          rw [hres1] at he
          rcases List.mem_append.1 he with he | he
          · exact Or.inl ⟨_, hmem, he⟩
          · simp only [List.mem_singleton] at he; subst he
            exact Or.inr ⟨rfl, c, locs, rfl⟩
      · intro c' locs' hpl
        injection hpl with h1 h2; subst h1; subst h2
        simp [List.getD_eq_getElem?_getD, hc, hres1]
    | twice =>
      simp only [Prod.mk.injEq] at h
      obtain ⟨rfl, rfl⟩ := h
      refine ⟨by simp, by simp, ?_, by simp, by simp⟩
      intro hfr _
      obtain ⟨e, he, hk⟩ := reserve_twice _ _ _ _ hr
      exact hfr _ hmem e he hk
    | no =>
      obtain ⟨hi1, hres1, _⟩ := hpres.2 rfl
      have hp1 : PoolInv caps (pool.set c cu1) := PoolInv_set caps pool c cu1 hp (fun _ => hi1)
      have hback : ∀ cu ∈ pool.set c cu1, ∀ e ∈ cu.resident, ∃ cu0 ∈ pool, e ∈ cu0.resident := by
        intro cu hcu e he
        rcases List.mem_or_eq_of_mem_set hcu with hm | hm
        · exact ⟨cu, hm, he⟩
        · subst hm; rw [hres1] at he; exact ⟨_, hmem, he⟩
      obtain ⟨a1, a2, a3, a4, a5⟩ := ih (pool.set c cu1) r pool' hp1
        (by intro c' hc'; simp only [List.length_set]; exact hcs c' (List.mem_cons_of_mem _ hc')) h
      refine ⟨by simpa using a1, a2, ?_, ?_, a5⟩
      · intro hfr
        apply a3
        intro cu hcu e he
        obtain ⟨cu0, h0, he0⟩ := hback cu hcu e he
        exact hfr cu0 h0 e he0
      · intro hnf cu' hcu' e he
        rcases a4 hnf cu' hcu' e he with ⟨cu, hcu, he'⟩ | h'
        · exact Or.inl (hback cu hcu e he')
        · exact Or.inr h'

/-- `FreeResourcesForWG` only removes resident entries -/
theorem free_resident (cu : CU) (key : Nat) (cu' : CU) (h : free cu key = some cu') :
    ∀ e ∈ cu'.resident, e ∈ cu.resident := by
  unfold free at h
  split at h
  · cases h
  · rename_i k d locs _
    injection h with h
    subst h
    intro e he
    simp only at he
    rw [(foldl_freeLoc d locs cu).1] at he
    exact (List.mem_filter.1 he).1

theorem mem_cuOrder (g : Bool) (n nextCU c : Nat) (h : c ∈ cuOrder g n nextCU) : c < n := by
  unfold cuOrder at h
  split at h
  · exact List.mem_range.1 h
  · obtain ⟨i, hi, rfl⟩ := List.mem_map.1 h
    have := List.mem_range.1 hi
    exact Nat.mod_lt _ (by omega)

end C09
