import MgpuProofs.C09Res
/-! # C09 — completeness of the region scan on a "staircase" mask

While `ReserveResourceForWG` runs on a CU without resident work-groups, every limited mask has the
form `ToReserve^a Free^(n-a)` (`Stair m a`): the first-fit scan `nextRegion` then answers exactly
`a` when `a + len ≤ n` and "no region" otherwise. -/
namespace C09

/-- cells `< a` are to-reserve, cells `≥ a` are free -/
def Stair (m : List Nat) (a : Nat) : Prop :=
  ∀ i (h : i < m.length), m[i] = if i < a then 1 else 0

theorem stair_replicate (n : Nat) : Stair (List.replicate n 0) 0 := by
  intro i h; simp

theorem stair_of_all_free (m : List Nat) (h : m = List.replicate m.length 0) : Stair m 0 := by
  rw [h]; exact stair_replicate _

/-- phase 1 of the scan: skipping the to-reserve prefix -/
theorem scan_skip (m : List Nat) (len a : Nat) (hs : Stair m a) (ha : a ≤ m.length) :
    ∀ k off cur fuel, off + k = a → k ≤ fuel → 0 < k →
      scan m len 0 off cur fuel = scan m len 0 a 0 (fuel - k) := by
  intro k
  induction k with
  | zero => intro off cur fuel _ _ h; omega
  | succ k ih =>
    intro off cur fuel hk hf _
    obtain ⟨f, rfl⟩ : ∃ f, fuel = f + 1 := ⟨fuel - 1, by omega⟩
    have hoff : off < m.length := by omega
    have hm : m[off] = 1 := by rw [hs off hoff]; simp; omega
    simp only [scan, hoff, dite_true, hm]
    have h10 : ¬ ((1 : Nat) = 0) := by omega
    simp only [h10, if_false]
    by_cases hk0 : k = 0
    · subst hk0
      have : off + 1 = a := by omega
      rw [this]; simp
    · rw [ih (off + 1) 0 f (by omega) (by omega) (by omega)]
      congr 1; omega

/-- phase 2 of the scan: counting free cells from `a` on -/
theorem scan_count (m : List Nat) (len a : Nat) (hs : Stair m a) (_hlen : 0 < len) :
    ∀ fuel off cur, a ≤ off → cur + a = off → cur < len →
      (a + len ≤ m.length → a + len ≤ off + fuel) →
      scan m len 0 off cur fuel = if a + len ≤ m.length then some a else none := by
  intro fuel
  induction fuel with
  | zero =>
    intro off cur hao hc hcl hf
    have : ¬ (a + len ≤ m.length) := by intro h; have := hf h; omega
    simp [scan, this]
  | succ fuel ih =>
    intro off cur hao hc hcl hf
    simp only [scan]
    by_cases hoff : off < m.length
    · have hm : m[off] = 0 := by rw [hs off hoff]; simp; omega
      simp only [hoff, dite_true, hm, if_true]
      by_cases hfull : cur + 1 = len
      · have h1 : a + len ≤ m.length := by omega
        simp only [hfull, if_true, h1]
        congr 1; omega
      · simp only [hfull, if_false]
        exact ih (off + 1) (cur + 1) (by omega) (by omega) (by omega) (by intro h; have := hf h; omega)
    · have : ¬ (a + len ≤ m.length) := by omega
      simp [hoff, this]

/-- **the scan on a staircase mask** -/
theorem nextRegion_stair (m : List Nat) (len a : Nat) (hs : Stair m a) (ha : a ≤ m.length)
    (hlen : 0 < len) :
    nextRegionL m len 0 = if a + len ≤ m.length then some a else none := by
  unfold nextRegionL
  have hne : ¬ len = 0 := by omega
  simp only [hne, if_false]
  by_cases ha0 : a = 0
  · subst ha0
    exact scan_count m len 0 hs hlen _ 0 0 (by omega) (by omega) hlen (by intro h; omega)
  · rw [scan_skip m len a hs ha a 0 0 (m.length + 1) (by omega) (by omega) (by omega)]
    exact scan_count m len a hs hlen _ a 0 (by omega) (by omega) hlen (by intro h; omega)

/-- marking the region found keeps the staircase form -/
theorem stair_set (m : List Nat) (a n : Nat) (hs : Stair m a) :
    Stair (setStatusL m a n 1) (a + n) := by
  intro i h
  have hl := length_setStatusL m a n 1
  have hi : i < m.length := by omega
  have := getElem?_setStatusL m a n 1 i
  rw [List.getElem?_eq_getElem h, List.getElem?_eq_getElem hi] at this
  simp only [Option.map_some, Option.some.injEq] at this
  rw [this, hs i hi]
  by_cases h1 : a ≤ i ∧ i < a + n
  · have := h1.2; simp [h1, this]
  · simp only [h1, if_false]
    by_cases h2 : i < a
    · have : i < a + n := by omega
      simp [h2, this]
    · have : ¬ i < a + n := by omega
      simp [h2, this]

/-- a zero-length request: `nextRegion` answers 0 and `setStatus` changes nothing -/
theorem setStatusL_zero (m : List Nat) (off s : Nat) : setStatusL m off 0 s = m := by
  apply List.ext_getElem?
  intro i
  rw [getElem?_setStatusL]
  have : ¬ (off ≤ i ∧ i < off) := by omega
  cases m[i]? <;> simp [this]

/-- one search-and-mark step on a staircase mask, any request size -/
theorem stair_step (m : List Nat) (a req : Nat) (hs : Stair m a) (ha : a ≤ m.length) :
    (a + req ≤ m.length → ∃ off, nextRegionL m req 0 = some off ∧
        Stair (setStatusL m off req 1) (a + req)) ∧
    (m.length < a + req → nextRegionL m req 0 = none) := by
  by_cases hr : req = 0
  · subst hr
    refine ⟨fun _ => ⟨0, by simp [nextRegionL], ?_⟩, fun h => by omega⟩
    rw [setStatusL_zero]; exact hs
  · have hpos : 0 < req := by omega
    rw [nextRegion_stair m req a hs ha hpos]
    refine ⟨fun h => ⟨a, by simp [h], stair_set m a req hs⟩, fun h => ?_⟩
    have : ¬ (a + req ≤ m.length) := by omega
    simp [this]

end C09
