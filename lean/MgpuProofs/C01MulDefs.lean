import MgpuModel.C01_Kernels
import MgpuProofs.C01MapDefs
/-! # C01 — `mul` (amd/benchmarks/dnn/gputensor/operator.hsaco, `GPUOperator.ElementWiseMul`): definitions

```
  0 s_load_dword s0, s[4:5], 0x4          ; work-group size x|y from the dispatch packet
  8 s_waitcnt lgkmcnt(0)
 12 s_and_b32 s2, s0, 0xffff
 20 s_load_dword s3, s[6:7], 0x18         ; n
 28 s_load_dwordx2 s[0:1], s[6:7], 0x20   ; hidden global offset x
 36 s_mul_i32 s8, s8, s2                  ; work-group id * work-group size
 40 v_add_u32 v0, vcc, s8, v0
 44 s_waitcnt lgkmcnt(0)
 48 v_add_u32 v1, vcc, s0, v0             ; global id
 52 v_cmp_ge_i32 vcc, s3, v1              ; n >= id   (the source says `if (tid > n) return;`)
 56 s_and_saveexec_b64 s[0:1], vcc
 60 s_cbranch_execz 25                    ; → 164
 64 s_load_dwordx4 s[0:3], s[6:7], 0x0    ; out, in1
 72 s_load_dwordx4 s[4:7], s[6:7], 0x10   ; in2, n|padding   (overwrites s[4:7])
 80 v_mov_b32 v0, 0
 84 v_ashrrev_i64 v[0:1], 30, v[0:1]      ; byte offset = id * 4
 92 s_waitcnt lgkmcnt(0)
 96 v_mov_b32 v3, s3
100 v_add_u32 v2, vcc, s2, v0
104 v_addc_u32 v3, vcc, v3, v1, vcc
108 flat_load_dword v4, v[2:3]            ; in1[id]
116 v_mov_b32 v3, s5
120 v_add_u32 v2, vcc, s4, v0
124 v_addc_u32 v3, vcc, v3, v1, vcc
128 flat_load_dword v2, v[2:3]            ; in2[id]
136 v_mov_b32 v3, s1
140 v_add_u32 v0, vcc, s0, v0
144 v_addc_u32 v1, vcc, v3, v1, vcc
148 s_waitcnt vmcnt(0) lgkmcnt(0)
152 v_mul_f32 v2, v4, v2
156 flat_store_dword v[0:1], v2
164 s_endpgm
```
Kernel arguments (`elemWiseMulKernArg`, packed): Out @0, In1 @8, In2 @16, N i32 @24, Padding @28,
OffsetX i64 @32, OffsetY @40, OffsetZ @48. -/
namespace C01.Emu.Mul
open C03V

def P : Program := ⟨mulKernelCode, false⟩

/-- the dword the kernel stores: `v_mul_f32 (a, b)` in the C03V float specification -/
def mulBits (a b : Nat) : Nat := F.mul F.f32 a b % 4294967296

/-- the dword stored for element `e` when the memory content is `m` -/
def mulVal (in1 in2 : Nat) (m : Nat → Nat) (e : Nat) : Nat :=
  mulBits (rd32 m (in1 + 4 * e) % 2 ^ 32) (rd32 m (in2 + 4 * e) % 2 ^ 32)

/-- admissible launch: `c.lim = n + 1` (the kernel's test is `tid > n`, one element too generous) -/
structure Valid (c : Map.Cfg) (in1 in2 : Nat) : Prop where
  lim31 : c.lim ≤ 2 ^ 31
  limPos : 0 < c.lim
  in1End : in1 + 4 * (c.lo + c.K) ≤ 2 ^ 64
  in2End : in2 + 4 * (c.lo + c.K) ≤ 2 ^ 64
  dstEnd : c.dst + 4 * (c.lo + c.K) ≤ 2 ^ 64
  kaEnd : c.ka + 40 ≤ 2 ^ 64
  paEnd : c.pa + 8 ≤ 2 ^ 64
  coEnd : c.co + 168 < 2 ^ 64
  ka4 : c.ka % 4 = 0
  pa4 : c.pa % 4 = 0
  dIn1 : ∀ a, c.inDst a → ¬ (in1 + 4 * c.lo ≤ a ∧ a < in1 + 4 * (c.lo + c.K))
  dIn2 : ∀ a, c.inDst a → ¬ (in2 + 4 * c.lo ≤ a ∧ a < in2 + 4 * (c.lo + c.K))
  dKa : ∀ a, c.inDst a → ¬ (c.ka ≤ a ∧ a < c.ka + 40)
  dPa : ∀ a, c.inDst a → ¬ (c.pa + 4 ≤ a ∧ a < c.pa + 8)

/-- what the kernel reads from the dispatch packet and the kernel-argument segment -/
structure Img (c : Map.Cfg) (in1 in2 : Nat) (f : Nat → Nat) : Prop where
  wg : rd32 f (c.pa + 4) % 65536 = 64
  n : rd32 f (c.ka + 24) % 2 ^ 32 + 1 = c.lim
  goff : rd32 f (c.ka + 32) % 2 ^ 32 = c.lo
  dstLo : rd32 f (c.ka + 0) % 2 ^ 32 = c.dst % 2 ^ 32
  dstHi : rd32 f (c.ka + 4) % 2 ^ 32 = c.dst / 2 ^ 32
  in1Lo : rd32 f (c.ka + 8) % 2 ^ 32 = in1 % 2 ^ 32
  in1Hi : rd32 f (c.ka + 12) % 2 ^ 32 = in1 / 2 ^ 32
  in2Lo : rd32 f (c.ka + 16) % 2 ^ 32 = in2 % 2 ^ 32
  in2Hi : rd32 f (c.ka + 20) % 2 ^ 32 = in2 / 2 ^ 32

end C01.Emu.Mul
