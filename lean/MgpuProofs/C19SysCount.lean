import MgpuModel.C19_SysCount
import MgpuProofs.C19SysStep
/-! # C19 — the closed system: the counting invariant `CI` of monitored runs (`ReachC`) -/
namespace C19
namespace SY
open CP (Cp Cls K Sub Cmd Ans)
open DR (Drv MmuReq MigCmd)

/-! ## lists -/

theorem cnt_nil (f : Cmd → Bool) : cnt f [] = 0 := rfl
theorem cnt_append (f : Cmd → Bool) (a b : List (Nat × Cmd)) : cnt f (a ++ b) = cnt f a + cnt f b := by
  simp [cnt]
theorem cnt_cons (f : Cmd → Bool) (x : Nat × Cmd) (l : List (Nat × Cmd)) :
    cnt f (x :: l) = (if f x.2 then 1 else 0) + cnt f l := by
  unfold cnt
  rw [List.filter_cons]
  split <;> simp <;> omega
theorem cnt_map (f : Cmd → Bool) (c : Cmd) (g : Nat → Nat) (l : List Nat) :
    cnt f (l.map (fun a => (g a, c))) = if f c then l.length else 0 := by
  induction l with
  | nil => simp [cnt]
  | cons a l ih =>
    rw [List.map_cons, cnt_cons, ih]
    cases f c <;> simp
    omega

theorem cnt_map_id (f : Cmd → Bool) (c : Cmd) (l : List Nat) :
    cnt f (l.map (fun a => (a, c))) = if f c then l.length else 0 := cnt_map f c id l

theorem sumAcc_snoc (l : List MmuReq) (r : MmuReq) : sumAcc (l ++ [r]) = sumAcc l + r.acc.length := by
  simp [sumAcc]
theorem sumPages_snoc (n : Nat) (l : List MmuReq) (r : MmuReq) :
    sumPages n (l ++ [r]) = sumPages n l + (migOrder n r.map).length := by
  simp [sumPages]

/-! ## the monitor sees nothing when the three buffers do not change the right way -/

theorem obs_quiet (c : Cnt) (d d' : Drv) (h1 : d'.gpuOut.length ≤ d.gpuOut.length)
    (h2 : d.gpuIn.length ≤ d'.gpuIn.length) (h3 : d.mmuIn.length ≤ d'.mmuIn.length) : c.obs d d' = c := by
  have e1 : newOut d d' = [] := by
    unfold newOut; exact List.drop_eq_nil_of_le h1
  have e2 : eaten d d' = [] := by
    unfold eaten; rw [Nat.sub_eq_zero_of_le h2]; rfl
  have e3 : tookReq d d' = [] := by
    unfold tookReq; rw [Nat.sub_eq_zero_of_le h3]; rfl
  unfold Cnt.obs
  rw [e1, e2, e3]
  simp [cnt, cntA]

theorem newOut_app (d d' : Drv) (l : List (Nat × Cmd)) (h : d'.gpuOut = d.gpuOut ++ l) : newOut d d' = l := by
  unfold newOut; rw [h]; simp
theorem eaten_cons (d d' : Drv) (a : Ans) (rest : List Ans) (h : d.gpuIn = a :: rest) (h' : d'.gpuIn = rest) :
    eaten d d' = [a] := by
  unfold eaten; rw [h, h']; simp
theorem eaten_same (d d' : Drv) (h' : d'.gpuIn = d.gpuIn) : eaten d d' = [] := by
  unfold eaten; rw [h']; simp
theorem tookReq_cons (d d' : Drv) (r : MmuReq) (rest : List MmuReq) (h : d.mmuIn = r :: rest) (h' : d'.mmuIn = rest) :
    tookReq d d' = [r] := by
  unfold tookReq; rw [h, h']; simp
theorem tookReq_same (d d' : Drv) (h' : d'.mmuIn = d.mmuIn) : tookReq d d' = [] := by
  unfold tookReq; rw [h']; simp
theorem newOut_same (d d' : Drv) (h' : d'.gpuOut = d.gpuOut) : newOut d d' = [] := by
  unfold newOut; rw [h']; simp

/-! ## `CI` reads only part of the driver -/

theorem CI.congr {s s' : Sys} {c : Cnt} (h : CI s c) (h1 : s'.drv.ngpu = s.drv.ngpu)
    (h2 : s'.drv.toSend = s.drv.toSend) (h3 : s'.drv.toCP = s.drv.toCP) (h4 : s'.drv.drain = s.drv.drain)
    (h5 : s'.drv.shoot = s.drv.shoot) (h6 : s'.drv.mig = s.drv.mig) (h7 : s'.drv.restart = s.drv.restart)
    (h8 : s'.drv.rdma = s.drv.rdma) (h9 : s'.drv.cur = s.drv.cur) (h10 : s'.drv.taken = s.drv.taken) : CI s' c := by
  have e1 : pendS s'.drv = pendS s.drv := by simp only [pendS, curAcc, h4, h9]
  have e2 : pendM s'.drv = pendM s.drv := by simp only [pendM, curPages, h4, h5, h9, h1]
  have e3 : pendG s'.drv = pendG s.drv := by simp only [pendG, curAcc, h4, h5, h6, h9]
  have e4 : pendA s'.drv = pendA s.drv := by simp only [pendA, h4, h5, h6, h7, h1]
  exact ⟨by rw [h10]; exact h.ids, by rw [h9]; exact h.cur, by rw [h2]; exact h.nm,
    by rw [h2, h1]; exact h.d1, by rw [h4, h1]; exact h.d2, by rw [h2, e1]; exact h.s1, by rw [h5, e1]; exact h.s2,
    by rw [h3, e2, h1]; exact h.m1, by rw [h6, e2, h1]; exact h.m2, by rw [h2, e3]; exact h.g1,
    by rw [h7, e3]; exact h.g2, by rw [h2, e4, h1]; exact h.a1, by rw [h8, e4, h1]; exact h.a2⟩

/-! ## moves other than the driver's -/

theorem step_other (s : Sys) (m : Mv) (hm : ∀ k, m ≠ .dstage k) (hm' : m ≠ .dtick) :
    (step s m).drv.ngpu = s.drv.ngpu ∧ (step s m).drv.toSend = s.drv.toSend ∧ (step s m).drv.toCP = s.drv.toCP ∧
    (step s m).drv.drain = s.drv.drain ∧ (step s m).drv.shoot = s.drv.shoot ∧ (step s m).drv.mig = s.drv.mig ∧
    (step s m).drv.restart = s.drv.restart ∧ (step s m).drv.rdma = s.drv.rdma ∧ (step s m).drv.cur = s.drv.cur ∧
    (step s m).drv.taken = s.drv.taken ∧ (step s m).drv.gpuOut.length ≤ s.drv.gpuOut.length ∧
    s.drv.gpuIn.length ≤ (step s m).drv.gpuIn.length ∧ s.drv.mmuIn.length ≤ (step s m).drv.mmuIn.length := by
  cases m with
  | dstage k => exact absurd rfl (hm k)
  | dtick => exact absurd rfl hm'
  | cstage g k => simp [step]
  | ctick g => simp [step]
  | toCp =>
    simp only [step]
    split
    · simp
    · rename_i g c rest heq
      split <;> simp [heq]
  | toDrv g =>
    simp only [step]
    split
    · simp
    · split <;> simp
  | take g c => simp [step]
  | ack g c j => simp [step]
  | pmcTake g =>
    simp only [step]
    split
    · simp
    · split
      · simp
      · split <;> simp
  | pmcColl g =>
    simp only [step]
    split <;> simp
  | pmcBack g =>
    simp only [step]
    split <;> simp
  | world o => simp [step]
  | mmuSend r =>
    simp only [step]
    split <;> simp
  | mmuTake =>
    simp only [step]
    split <;> simp

theorem ci_other {s : Sys} {c : Cnt} (h : CI s c) (m : Mv) (hm : ∀ k, m ≠ .dstage k) (hm' : m ≠ .dtick) :
    CI (stepO (s, c) m).1 (stepO (s, c) m).2 := by
  obtain ⟨a1, a2, a3, a4, a5, a6, a7, a8, a9, a10, b1, b2, b3⟩ := step_other s m hm hm'
  show CI (step s m) (c.obs s.drv (step s m).drv)
  rw [obs_quiet c _ _ b1 b2 b3]
  exact h.congr a1 a2 a3 a4 a5 a6 a7 a8 a9 a10

/-! ## the driver's stages -/

theorem obs_eq (c : Cnt) (d d' : Drv) (o : List (Nat × Cmd)) (e : List Ans) (t : List MmuReq)
    (h1 : newOut d d' = o) (h2 : eaten d d' = e) (h3 : tookReq d d' = t) :
    c.obs d d' =
      { reqs := c.reqs ++ t,
        cD := c.cD + cnt isD o, cS := c.cS + cnt isS o, cM := c.cM + cnt isM o, cG := c.cG + cnt isG o,
        cA := c.cA + cnt isA o,
        aD := c.aD + cntA .drain e, aS := c.aS + cntA .shoot e, aM := c.aM + cntA .mig e,
        aG := c.aG + cntA .restart e, aA := c.aA + cntA .rdmaRestart e } := by
  subst h1 h2 h3; rfl

theorem cntA_nil (a : Ans) : cntA a [] = 0 := rfl
theorem cntA_one (a b : Ans) : cntA a [b] = if b = a then 1 else 0 := by
  unfold cntA
  by_cases h : b = a
  · subst h; simp
  · simp [h]

theorem isM_false_of_cnt {m : Nat × Cmd} {rest : List (Nat × Cmd)} (h : cnt isM (m :: rest) = 0) :
    isM m.2 = false ∧ cnt isM rest = 0 := by
  rw [cnt_cons] at h
  cases hx : isM m.2
  · rw [hx] at h; exact ⟨rfl, by simpa using h⟩
  · rw [hx] at h; simp at h

macro "pend_unfold" : tactic =>
  `(tactic| dsimp only [pendS, pendM, pendG, pendA, curAcc, curPages] at *)

theorem ci_sGpu {s : Sys} {c : Cnt} (I : Inv s) (h : CI s c) :
    CI { s with drv := s.drv.sGpu.1 } (c.obs s.drv s.drv.sGpu.1) := by
  rw [c1_sGpu_eq s.drv I.nf]
  cases hts : s.drv.toSend with
  | nil =>
    simp only
    rw [obs_quiet c _ _ (Nat.le_refl _) (Nat.le_refl _) (Nat.le_refl _)]
    exact h
  | cons m rest =>
    simp only
    by_cases hl : s.drv.gpuOut.length < s.drv.capGpuOut
    · rw [if_pos hl]
      rw [obs_eq c _ _ [m] [] []] <;>
        first
          | exact newOut_app _ _ _ rfl
          | exact newOut_same _ _ rfl
          | exact eaten_same _ _ rfl
          | exact tookReq_same _ _ rfl
          | skip
      simp only [List.append_nil, cntA_nil, Nat.add_zero]
      obtain ⟨i1, i2, nm, d1, d2, s1, s2, m1, m2, g1, g2, a1, a2⟩ := h
      rw [hts] at nm d1 s1 g1 a1
      obtain ⟨hm0, nm'⟩ := isM_false_of_cnt nm
      rw [cnt_cons] at d1 s1 g1 a1
      have k0 : ∀ f, cnt f [m] = (if f m.2 = true then 1 else 0) := fun f => by rw [cnt_cons]; rfl
      refine ⟨i1, i2, nm', ?_, d2, ?_, s2, ?_, m2, ?_, g2, ?_, a2⟩
      · pend_unfold; rw [k0]; omega
      · pend_unfold; rw [k0]; omega
      · pend_unfold; rw [k0, hm0]; simpa using m1
      · pend_unfold; rw [k0]; omega
      · pend_unfold; rw [k0]; omega
    · rw [if_neg hl, obs_quiet c _ _ (Nat.le_refl _) (Nat.le_refl _) (Nat.le_refl _)]
      exact h

theorem sMmu_proj (d : Drv) :
    d.sMmu.1.ngpu = d.ngpu ∧ d.sMmu.1.toSend = d.toSend ∧ d.sMmu.1.toCP = d.toCP ∧ d.sMmu.1.drain = d.drain ∧
    d.sMmu.1.shoot = d.shoot ∧ d.sMmu.1.mig = d.mig ∧ d.sMmu.1.restart = d.restart ∧ d.sMmu.1.rdma = d.rdma ∧
    d.sMmu.1.cur = d.cur ∧ d.sMmu.1.taken = d.taken ∧ d.sMmu.1.gpuOut = d.gpuOut ∧ d.sMmu.1.gpuIn = d.gpuIn ∧
    d.sMmu.1.mmuIn = d.mmuIn := by
  unfold Drv.sMmu
  split
  · simp
  · split
    · simp
    · split <;> simp

theorem ci_sMmu {s : Sys} {c : Cnt} (_I : Inv s) (h : CI s c) :
    CI { s with drv := s.drv.sMmu.1 } (c.obs s.drv s.drv.sMmu.1) := by
  obtain ⟨a1, a2, a3, a4, a5, a6, a7, a8, a9, a10, b1, b2, b3⟩ := sMmu_proj s.drv
  rw [obs_quiet c _ _ (by rw [b1]; exact Nat.le_refl _) (by rw [b2]; exact Nat.le_refl _)
    (by rw [b3]; exact Nat.le_refl _)]
  exact h.congr a1 a2 a3 a4 a5 a6 a7 a8 a9 a10

theorem ci_sMig {s : Sys} {c : Cnt} (I : Inv s) (h : CI s c) :
    CI { s with drv := s.drv.sMig.1 } (c.obs s.drv s.drv.sMig.1) := by
  rw [c1_sMig_eq s.drv I.nf]
  cases htc : s.drv.toCP with
  | nil =>
    simp only
    rw [obs_quiet c _ _ (Nat.le_refl _) (Nat.le_refl _) (Nat.le_refl _)]
    exact h
  | cons m rest =>
    simp only
    by_cases ho : s.drv.one = true
    · rw [if_pos ho, obs_quiet c _ _ (Nat.le_refl _) (Nat.le_refl _) (Nat.le_refl _)]
      exact h
    · rw [if_neg ho]
      by_cases hl : s.drv.gpuOut.length < s.drv.capGpuOut
      · rw [if_pos hl]
        rw [obs_eq c _ _ [(m.gpu, .mig m.id)] [] []] <;>
        first
          | exact newOut_app _ _ _ rfl
          | exact newOut_same _ _ rfl
          | exact eaten_same _ _ rfl
          | exact tookReq_same _ _ rfl
          | skip
        simp only [List.append_nil, cntA_nil, Nat.add_zero]
        obtain ⟨i1, i2, nm, d1, d2, s1, s2, m1, m2, g1, g2, a1, a2⟩ := h
        rw [htc] at m1
        have kD : cnt isD [(m.gpu, Cmd.mig m.id)] = 0 := rfl
        have kS : cnt isS [(m.gpu, Cmd.mig m.id)] = 0 := rfl
        have kM : cnt isM [(m.gpu, Cmd.mig m.id)] = 1 := rfl
        have kG : cnt isG [(m.gpu, Cmd.mig m.id)] = 0 := rfl
        have kA : cnt isA [(m.gpu, Cmd.mig m.id)] = 0 := rfl
        refine ⟨i1, i2, nm, ?_, d2, ?_, s2, ?_, m2, ?_, g2, ?_, a2⟩
        · pend_unfold; rw [kD]; exact d1
        · pend_unfold; rw [kS]; exact s1
        · pend_unfold; simp only [List.length_cons] at m1; omega
        · pend_unfold; rw [kG]; exact g1
        · pend_unfold; rw [kA]; exact a1
      · rw [if_neg hl, obs_quiet c _ _ (Nat.le_refl _) (Nat.le_refl _) (Nat.le_refl _)]
        exact h

/-- an idle driver (not handling a request) has every counter at 0 and nothing queued -/
theorem idle_of_not_handling {s : Sys} (I : Inv s) (hh : s.drv.handling = false) : DrvIdle s.drv := by
  cases I.ph with
  | idle hd _ _ _ => exact hd
  | bcast p r σ loc _ hh' => rw [hh] at hh'; cases hh'
  | mig r fl ws hh' => rw [hh] at hh'; cases hh'

theorem ci_parse {s : Sys} {c : Cnt} (I : Inv s) (h : CI s c) :
    CI { s with drv := s.drv.parse.1 } (c.obs s.drv s.drv.parse.1) := by
  rw [c1_parse_eq s.drv I.nf]
  by_cases hh : s.drv.handling = true
  · rw [if_pos hh, obs_quiet c _ _ (Nat.le_refl _) (Nat.le_refl _) (Nat.le_refl _)]
    exact h
  · rw [if_neg hh]
    cases hmi : s.drv.mmuIn with
    | nil =>
      simp only
      rw [obs_quiet c _ _ (Nat.le_refl _) (Nat.le_refl _) (Nat.le_refl _)]
      exact h
    | cons r rest =>
      simp only
      have hid := idle_of_not_handling I (by simpa using hh)
      obtain ⟨c1, c2, c3, c4, c5⟩ := hid.ctrs
      simp only [reduceCtorEq, if_false] at c1 c2 c3 c4 c5
      have hN : s.drv.ngpu % CP.w64 = s.drv.ngpu := Nat.mod_eq_of_lt I.ng.2.1
      have hpos : 0 < s.drv.ngpu := by have := I.ng.1; omega
      rw [obs_eq c _ _ [] [] [r]] <;>
        first
          | exact newOut_same _ _ rfl
          | exact eaten_same _ _ rfl
          | exact tookReq_cons _ _ r rest hmi rfl
          | skip
      simp only [List.append_nil, cntA_nil, Nat.add_zero]
      obtain ⟨i1, i2, nm, d1, d2, s1, s2, m1, m2, g1, g2, a1, a2⟩ := h
      refine ⟨?_, ?_, ?_, ?_, ?_, ?_, ?_, ?_, ?_, ?_, ?_, ?_, ?_⟩
      · show (c.reqs ++ [r]).map (·.id) = s.drv.taken ++ [r.id]
        rw [List.map_append, i1]; rfl
      · intro r' hr'
        have : r' = r := by
          have : some r = some r' := hr'
          exact (Option.some.inj this).symm
        subst this
        show (c.reqs ++ [r']).getLast? = some r'
        simp
      · show cnt isM (s.drv.toSend ++ (List.range s.drv.ngpu).map (fun g => (g, Cmd.drain))) = 0
        rw [hid.toSend, List.nil_append, cnt_map_id]; rfl
      all_goals
        pend_unfold
        simp only [c1, c2, c3, c4, c5, Nat.zero_add, hN, hid.toSend, hid.toCP, List.nil_append, cnt_map_id, cnt_nil, isD, isS, isG, isA,
          List.length_append, List.length_cons, List.length_nil, List.length_range, sumAcc_snoc, sumPages_snoc,
          hpos, if_true, true_or, Bool.false_eq_true, if_false, Nat.lt_irrefl, or_self, Nat.add_zero, Nat.zero_add,
          Nat.mul_add, Nat.mul_one] at *
        omega

/-! ## `processReturnReq` -/

theorem head_facts {s : Sys} (I : Inv s) {a : Ans} {rest : List Ans} (hin : s.drv.gpuIn = a :: rest) :
    ∃ r p n, s.drv.cur = some r ∧ ReqOK s r ∧ a = ansOf (cmdOf p r) ∧ 0 < n ∧ Ctrs s.drv (some p) n := by
  cases I.ph with
  | idle hd _ _ _ => rw [hd.gpuIn] at hin; cases hin
  | mig r fl ws hh hc hr hct hm _ _ _ =>
    have := hm.gpuIn
    rw [hin] at this
    have ha := c2_flIn fl this.symm
    exact ⟨r, .mig, s.drv.mig, hc, hr, by rw [ha]; rfl, hm.pos, hct⟩
  | bcast p r σ loc hp hh hc hr hct htc hone hb hw hmm hpg _ =>
    obtain ⟨hx, _⟩ := c2_head hb hin
    exact ⟨r, p, σ.open_, hc, hr, hx.symm, hb.pos, hct⟩

theorem mkMigs_core (pid size peer : Nat) : ∀ (l : List (Nat × Nat)) (d : Drv), d.fault = none →
    (d.mkMigs pid size peer l).fault = none → d.mig + l.length < CP.w64 →
    (d.mkMigs pid size peer l).toCP.length = d.toCP.length + l.length ∧
    (d.mkMigs pid size peer l).mig = d.mig + l.length ∧
    (d.mkMigs pid size peer l).toSend = d.toSend ∧ (d.mkMigs pid size peer l).gpuOut = d.gpuOut ∧
    (d.mkMigs pid size peer l).gpuIn = d.gpuIn ∧ (d.mkMigs pid size peer l).mmuIn = d.mmuIn ∧
    (d.mkMigs pid size peer l).drain = d.drain ∧ (d.mkMigs pid size peer l).shoot = d.shoot ∧
    (d.mkMigs pid size peer l).restart = d.restart ∧ (d.mkMigs pid size peer l).rdma = d.rdma ∧
    (d.mkMigs pid size peer l).cur = d.cur ∧ (d.mkMigs pid size peer l).taken = d.taken ∧
    (d.mkMigs pid size peer l).ngpu = d.ngpu := by
  intro l
  induction l with
  | nil => intro d _ _ _; simp [Drv.mkMigs]
  | cons x l ih =>
    intro d hf hf' hlt
    obtain ⟨g, v⟩ := x
    have hf0 : d.fault.isSome = false := by rw [hf]; rfl
    unfold Drv.mkMigs at hf' ⊢
    rw [hf0] at hf' ⊢
    simp only [Bool.false_eq_true, if_false] at hf' ⊢
    cases hp : prepare d.alloc pid v g with
    | error e => rw [hp] at hf'; simp at hf'
    | ok t =>
      obtain ⟨pg, old, a'⟩ := t
      rw [hp] at hf'
      simp only at hf' ⊢
      simp only [List.length_cons] at hlt
      have hinc : CP.inc d.mig = d.mig + 1 := by
        unfold CP.inc; exact Nat.mod_eq_of_lt (by omega)
      obtain ⟨q1, q2, q3, q4, q5, q6, q7, q8, q9, q10, q11, q12, q13⟩ := ih _ (by exact hf) hf' (by
        show CP.inc d.mig + l.length < CP.w64
        rw [hinc]; omega)
      refine ⟨?_, ?_, q3, q4, q5, q6, q7, q8, q9, q10, q11, q12, q13⟩
      · rw [q1]; simp only [List.length_append, List.length_cons, List.length_nil]; omega
      · rw [q2]; show CP.inc d.mig + l.length = _
        rw [hinc]; simp only [List.length_cons]; omega

theorem ctrs_at {d : Drv} {p : PK} {n : Nat} (h : Ctrs d (some p) n) :
    d.drain = (if p = .drain then n else 0) ∧ d.shoot = (if p = .shoot then n else 0) ∧
    d.mig = (if p = .mig then n else 0) ∧ d.restart = (if p = .restart then n else 0) ∧
    d.rdma = (if p = .rdma then n else 0) := by
  obtain ⟨c1, c2, c3, c4, c5⟩ := h
  simp only [Option.some.injEq] at c1 c2 c3 c4 c5
  exact ⟨c1, c2, c3, c4, c5⟩

macro "obs_side" hin:ident : tactic =>
  `(tactic| first
    | exact newOut_same _ _ rfl
    | exact eaten_cons _ _ _ _ $hin rfl
    | exact tookReq_same _ _ rfl
    | skip)

theorem ci_ret_drain {s : Sys} {c : Cnt} (I : Inv s) (h : CI s c) (rest : List Ans)
    (hin : s.drv.gpuIn = .drain :: rest) : CI { s with drv := s.drv.ret.1 } (c.obs s.drv s.drv.ret.1) := by
  obtain ⟨r, p, n, hc, hr, hx, hn, hct⟩ := head_facts I hin
  cases p <;> simp [cmdOf, ansOf] at hx
  obtain ⟨c1, c2, c3, c4, c5⟩ := ctrs_at hct
  simp only [reduceCtorEq, if_false, if_true] at c1 c2 c3 c4 c5
  have hdec : CP.dec s.drv.drain = n - 1 := by rw [c1]; exact c2_dec hn
  have hacc : r.acc.length % CP.w64 = r.acc.length := Nat.mod_eq_of_lt hr.accLt
  have hapos : 0 < r.acc.length := List.length_pos_iff.mpr hr.accNe
  rw [c2_ret_drain I.nf hin hc, hdec]
  obtain ⟨i1, i2, nm, d1, d2, s1, s2, m1, m2, g1, g2, a1, a2⟩ := h
  by_cases h0 : n - 1 = 0
  · rw [if_pos h0, c2_toAcc]
    rotate_left
    · exact I.nf
    · exact hr.accIn
    rw [obs_eq c _ _ [] [.drain] []] <;> obs_side hin
    simp only [List.append_nil]
    refine ⟨i1, i2, ?_, ?_, ?_, ?_, ?_, ?_, ?_, ?_, ?_, ?_, ?_⟩
    all_goals
      pend_unfold
      simp only [hc, c1, c2, c3, c4, c5, h0, hacc, hapos, hn, cnt_append, cnt_map, cnt_nil, cntA_one, cntA_nil, isD, isS, isM,
        isG, isA, List.append_nil, if_true, if_false, true_or, or_true, Bool.false_eq_true, Nat.lt_irrefl, or_self,
        reduceCtorEq, Nat.add_zero, Nat.zero_add] at nm d1 d2 s1 s2 m1 m2 g1 g2 a1 a2 ⊢
      omega
  · rw [if_neg h0]
    have hp1 : 0 < n - 1 := by omega
    rw [obs_eq c _ _ [] [.drain] []] <;> obs_side hin
    simp only [List.append_nil]
    refine ⟨i1, i2, ?_, ?_, ?_, ?_, ?_, ?_, ?_, ?_, ?_, ?_, ?_⟩
    all_goals
      pend_unfold
      simp only [hc, c1, c2, c3, c4, c5, hp1, hn, cnt_append, cnt_map, cnt_nil, cntA_one, cntA_nil, isD, isS, isM,
        isG, isA, List.append_nil, if_true, if_false, true_or, or_true, Bool.false_eq_true, Nat.lt_irrefl, or_self,
        reduceCtorEq, Nat.add_zero, Nat.zero_add] at nm d1 d2 s1 s2 m1 m2 g1 g2 a1 a2 ⊢
      omega

theorem ci_ret_restart {s : Sys} {c : Cnt} (I : Inv s) (h : CI s c) (rest : List Ans)
    (hin : s.drv.gpuIn = .restart :: rest) : CI { s with drv := s.drv.ret.1 } (c.obs s.drv s.drv.ret.1) := by
  obtain ⟨r, p, n, hc, hr, hx, hn, hct⟩ := head_facts I hin
  cases p <;> simp [cmdOf, ansOf] at hx
  obtain ⟨c1, c2, c3, c4, c5⟩ := ctrs_at hct
  simp only [reduceCtorEq, if_false, if_true] at c1 c2 c3 c4 c5
  have hdec : CP.dec s.drv.restart = n - 1 := by rw [c4]; exact c2_dec hn
  have hN : s.drv.ngpu % CP.w64 = s.drv.ngpu := Nat.mod_eq_of_lt I.ng.2.1
  have hpos : 0 < s.drv.ngpu := by have := I.ng.1; omega
  rw [c2_ret_restart I.nf hin, hdec]
  obtain ⟨i1, i2, nm, d1, d2, s1, s2, m1, m2, g1, g2, a1, a2⟩ := h
  by_cases h0 : n - 1 = 0
  · rw [if_pos h0]
    rw [obs_eq c _ _ [] [.restart] []] <;> obs_side hin
    simp only [List.append_nil]
    refine ⟨i1, i2, ?_, ?_, ?_, ?_, ?_, ?_, ?_, ?_, ?_, ?_, ?_⟩
    all_goals
      pend_unfold
      simp only [hc, c1, c2, c3, c4, c5, h0, hpos, hn, cnt_append, cnt_map, cnt_map_id, cnt_nil, cntA_one, cntA_nil, isD, isS, isM,
        isG, isA, List.append_nil, if_true, if_false, true_or, or_true, Bool.false_eq_true, Nat.lt_irrefl, or_self,
        reduceCtorEq, Nat.add_zero, Nat.zero_add, List.length_range, hN] at nm d1 d2 s1 s2 m1 m2 g1 g2 a1 a2 ⊢
      omega
  · rw [if_neg h0]
    have hp1 : 0 < n - 1 := by omega
    rw [obs_eq c _ _ [] [.restart] []] <;> obs_side hin
    simp only [List.append_nil]
    refine ⟨i1, i2, ?_, ?_, ?_, ?_, ?_, ?_, ?_, ?_, ?_, ?_, ?_⟩
    all_goals
      pend_unfold
      simp only [hc, c1, c2, c3, c4, c5, hp1, hn, cnt_append, cnt_map, cnt_map_id, cnt_nil, cntA_one, cntA_nil, isD, isS, isM,
        isG, isA, List.append_nil, if_true, if_false, true_or, or_true, Bool.false_eq_true, Nat.lt_irrefl, or_self,
        reduceCtorEq, Nat.add_zero, Nat.zero_add, List.length_range, hN] at nm d1 d2 s1 s2 m1 m2 g1 g2 a1 a2 ⊢
      omega

theorem ci_ret_rdma {s : Sys} {c : Cnt} (I : Inv s) (h : CI s c) (rest : List Ans)
    (hin : s.drv.gpuIn = .rdmaRestart :: rest) : CI { s with drv := s.drv.ret.1 } (c.obs s.drv s.drv.ret.1) := by
  obtain ⟨r, p, n, hc, hr, hx, hn, hct⟩ := head_facts I hin
  cases p <;> simp [cmdOf, ansOf] at hx
  obtain ⟨c1, c2, c3, c4, c5⟩ := ctrs_at hct
  simp only [reduceCtorEq, if_false, if_true] at c1 c2 c3 c4 c5
  have hdec : CP.dec s.drv.rdma = n - 1 := by rw [c5]; exact c2_dec hn
  have hN : s.drv.ngpu % CP.w64 = s.drv.ngpu := Nat.mod_eq_of_lt I.ng.2.1
  rw [c2_ret_rdma I.nf hin, hdec]
  obtain ⟨i1, i2, nm, d1, d2, s1, s2, m1, m2, g1, g2, a1, a2⟩ := h
  by_cases h0 : n - 1 = 0
  · rw [if_pos h0]
    rw [obs_eq c _ _ [] [.rdmaRestart] []] <;> obs_side hin
    simp only [List.append_nil]
    refine ⟨i1, ?_, ?_, ?_, ?_, ?_, ?_, ?_, ?_, ?_, ?_, ?_, ?_⟩
    · intro r' hr'; cases hr'
    all_goals
      pend_unfold
      simp only [hc, c1, c2, c3, c4, c5, h0, hn, cnt_append, cnt_map, cnt_map_id, cnt_nil, cntA_one, cntA_nil, isD, isS, isM,
        isG, isA, List.append_nil, if_true, if_false, true_or, or_true, Bool.false_eq_true, Nat.lt_irrefl, or_self,
        reduceCtorEq, Nat.add_zero, Nat.zero_add, List.length_range, hN] at nm d1 d2 s1 s2 m1 m2 g1 g2 a1 a2 ⊢
      omega
  · rw [if_neg h0]
    have hp1 : 0 < n - 1 := by omega
    rw [obs_eq c _ _ [] [.rdmaRestart] []] <;> obs_side hin
    simp only [List.append_nil]
    refine ⟨i1, i2, ?_, ?_, ?_, ?_, ?_, ?_, ?_, ?_, ?_, ?_, ?_⟩
    all_goals
      pend_unfold
      simp only [hc, c1, c2, c3, c4, c5, hp1, hn, cnt_append, cnt_map, cnt_map_id, cnt_nil, cntA_one, cntA_nil, isD, isS, isM,
        isG, isA, List.append_nil, if_true, if_false, true_or, or_true, Bool.false_eq_true, Nat.lt_irrefl, or_self,
        reduceCtorEq, Nat.add_zero, Nat.zero_add, List.length_range, hN] at nm d1 d2 s1 s2 m1 m2 g1 g2 a1 a2 ⊢
      omega

theorem mig_head {s : Sys} (I : Inv s) {rest : List Ans} (hin : s.drv.gpuIn = .mig :: rest) :
    s.drv.one = true ∧ s.drv.toMMU = none ∧ s.drv.mig = s.drv.toCP.length + 1 := by
  cases I.ph with
  | idle di _ _ _ => rw [di.gpuIn] at hin; cases hin
  | bcast p r σ loc hp _ _ _ _ _ _ bc _ _ _ _ =>
    exact absurd (bc.gpuIn.symm.trans hin) (c4_no_mig p r hp _ rest)
  | mig r fl ws hh hc rq ct mp wi mi rh =>
    have hg := mp.gpuIn
    rw [hin] at hg
    obtain ⟨m, rfl, rfl⟩ : ∃ m, fl = some (m, .bk) ∧ rest = [] := by
      rcases fl with _ | ⟨m, a⟩
      · simp [flIn] at hg
      · cases a with
        | sent => simp [flIn] at hg
        | atG l => simp [flIn] at hg
        | bk => exact ⟨m, rfl, by simpa [flIn] using hg⟩
    refine ⟨by have := mp.one; simpa using this, (mi.fresh (by simp)).1, mp.ctr⟩

theorem ci_ret_mig {s : Sys} {c : Cnt} (I : Inv s) (h : CI s c) (rest : List Ans)
    (hin : s.drv.gpuIn = .mig :: rest) : CI { s with drv := s.drv.ret.1 } (c.obs s.drv s.drv.ret.1) := by
  obtain ⟨r, p, n, hc, hr, hx, hn, hct⟩ := head_facts I hin
  cases p <;> simp [cmdOf, ansOf] at hx
  obtain ⟨c1, c2, c3, c4, c5⟩ := ctrs_at hct
  simp only [reduceCtorEq, if_false, if_true] at c1 c2 c3 c4 c5
  obtain ⟨hone, htm, hmig⟩ := mig_head I hin
  obtain ⟨d0, l0, _, _, hrel, _, _, _⟩ := c4_rel I hone
  have hdec : CP.dec s.drv.mig = n - 1 := by rw [c3]; exact c2_dec hn
  have hapos : 0 < r.acc.length := List.length_pos_iff.mpr hr.accNe
  obtain ⟨i1, i2, nm, d1, d2, s1, s2, m1, m2, g1, g2, a1, a2⟩ := h
  by_cases h0 : n - 1 = 0
  · rw [c4_ret_zero s.drv rest r _ I.nf hin hone hrel (by rw [hdec]; exact h0) hc c4 hr.accLt hr.accIn htm]
    rw [obs_eq c _ _ [] [.mig] []] <;> obs_side hin
    simp only [List.append_nil]
    refine ⟨i1, i2, ?_, ?_, ?_, ?_, ?_, ?_, ?_, ?_, ?_, ?_, ?_⟩
    all_goals
      pend_unfold
      simp only [hc, c1, c2, c3, c4, c5, hapos, hn, cnt_append, cnt_map, cnt_map_id, cnt_nil, cntA_one, cntA_nil, isD, isS, isM,
        isG, isA, List.append_nil, if_true, if_false, true_or, or_true, Bool.false_eq_true, Nat.lt_irrefl, or_self,
        reduceCtorEq, Nat.add_zero, Nat.zero_add, List.length_range] at nm d1 d2 s1 s2 m1 m2 g1 g2 a1 a2 ⊢
      omega
  · rw [c4_ret_ne s.drv rest _ I.nf hin hone hrel (by rw [hdec]; exact h0), hdec]
    have hp1 : 0 < n - 1 := by omega
    rw [obs_eq c _ _ [] [.mig] []] <;> obs_side hin
    simp only [List.append_nil]
    refine ⟨i1, i2, ?_, ?_, ?_, ?_, ?_, ?_, ?_, ?_, ?_, ?_, ?_⟩
    all_goals
      pend_unfold
      simp only [hc, c1, c2, c3, c4, c5, hp1, hn, cnt_append, cnt_map, cnt_map_id, cnt_nil, cntA_one, cntA_nil, isD, isS, isM,
        isG, isA, List.append_nil, if_true, if_false, true_or, or_true, Bool.false_eq_true, Nat.lt_irrefl, or_self,
        reduceCtorEq, Nat.add_zero, Nat.zero_add, List.length_range] at nm d1 d2 s1 s2 m1 m2 g1 g2 a1 a2 ⊢
      omega

theorem ci_ret_shoot {s : Sys} {c : Cnt} (I : Inv s) (h : CI s c) (rest : List Ans)
    (hin : s.drv.gpuIn = .shoot :: rest) : CI { s with drv := s.drv.ret.1 } (c.obs s.drv s.drv.ret.1) := by
  obtain ⟨r, p, n, hc, hr, hx, hn, hct⟩ := head_facts I hin
  cases p <;> simp [cmdOf, ansOf] at hx
  obtain ⟨c1, c2, c3, c4, c5⟩ := ctrs_at hct
  simp only [reduceCtorEq, if_false, if_true] at c1 c2 c3 c4 c5
  obtain ⟨i1, i2, nm, d1, d2, s1, s2, m1, m2, g1, g2, a1, a2⟩ := h
  by_cases h0 : n = 1
  · have nf' : s.drv.ret.1.fault = none := (inv_ret I).nf
    have e := c3_ret_last s.drv rest r I.nf hin (by rw [c2]; exact h0) hc hr.host (by rw [I.ng.2.2]; exact I.ng.1) hr.pid
    rw [e] at nf' ⊢
    obtain ⟨q1, q2, q3, q4, q5, q6, q7, q8, q9, q10, q11, q12, q13⟩ :=
      mkMigs_core _ _ _ _ _ (by exact I.nf) nf' (by
        show s.drv.mig + _ < _
        rw [c3, Nat.zero_add]; exact hr.pagesLt)
    have hppos : 0 < (migOrder s.drv.ngpu r.map).length := List.length_pos_iff.mpr hr.pagesNe
    rw [obs_eq c _ _ [] [.shoot] []]
    rotate_left
    · exact newOut_same _ _ q4
    · exact eaten_cons _ _ _ _ hin q5
    · exact tookReq_same _ _ q6
    simp only [List.append_nil]
    refine ⟨?_, ?_, ?_, ?_, ?_, ?_, ?_, ?_, ?_, ?_, ?_, ?_, ?_⟩
    · show _ = (Drv.mkMigs _ _ _ _ _).taken
      rw [q12]; exact i1
    · show ∀ r', (Drv.mkMigs _ _ _ _ _).cur = some r' → _
      rw [q11]; exact i2
    all_goals
      pend_unfold
      simp only [q1, q2, q3, q7, q8, q9, q10, q11, q13]
      simp only [hc, c1, c2, c3, c4, c5, h0, hppos, hn, cnt_append, cnt_map, cnt_map_id, cnt_nil, cntA_one, cntA_nil, isD, isS, isM,
        isG, isA, List.append_nil, if_true, if_false, true_or, or_true, Bool.false_eq_true, Nat.lt_irrefl, or_self,
        reduceCtorEq, Nat.add_zero, Nat.zero_add, List.length_range, Nat.zero_lt_one, false_or, or_false] at nm d1 d2 s1 s2 m1 m2 g1 g2 a1 a2 ⊢
      omega
  · have hp1 : 0 < n - 1 := by omega
    rw [c3_ret_more s.drv rest I.nf hin (by rw [c2]; omega), c2]
    rw [obs_eq c _ _ [] [.shoot] []] <;> obs_side hin
    simp only [List.append_nil]
    refine ⟨i1, i2, ?_, ?_, ?_, ?_, ?_, ?_, ?_, ?_, ?_, ?_, ?_⟩
    all_goals
      pend_unfold
      simp only [hc, c1, c2, c3, c4, c5, hp1, hn, cnt_append, cnt_map, cnt_map_id, cnt_nil, cntA_one, cntA_nil, isD, isS, isM,
        isG, isA, List.append_nil, if_true, if_false, true_or, or_true, Bool.false_eq_true, Nat.lt_irrefl, or_self,
        reduceCtorEq, Nat.add_zero, Nat.zero_add, List.length_range, Nat.zero_lt_one, false_or, or_false] at nm d1 d2 s1 s2 m1 m2 g1 g2 a1 a2 ⊢
      omega

theorem ci_ret {s : Sys} {c : Cnt} (I : Inv s) (h : CI s c) :
    CI { s with drv := s.drv.ret.1 } (c.obs s.drv s.drv.ret.1) := by
  cases hin : s.drv.gpuIn with
  | nil =>
    have e : s.drv.ret.1 = s.drv := by unfold Drv.ret; rw [I.nf, hin]; rfl
    rw [e, obs_quiet c _ _ (Nat.le_refl _) (Nat.le_refl _) (Nat.le_refl _)]
    exact h
  | cons a rest =>
    cases a with
    | drain => exact ci_ret_drain I h rest hin
    | rdmaRestart => exact ci_ret_rdma I h rest hin
    | shoot => exact ci_ret_shoot I h rest hin
    | restart => exact ci_ret_restart I h rest hin
    | mig => exact ci_ret_mig I h rest hin
    | flush f =>
      have e : s.drv.ret.1 = s.drv := by unfold Drv.ret; rw [I.nf, hin]; rfl
      rw [e, obs_quiet c _ _ (Nat.le_refl _) (Nat.le_refl _) (Nat.le_refl _)]
      exact h

theorem ci_dstage {s : Sys} {c : Cnt} (I : Inv s) (h : CI s c) (k : Nat) :
    CI (stepO (s, c) (.dstage k)).1 (stepO (s, c) (.dstage k)).2 := by
  show CI (step s (.dstage k)) (c.obs s.drv (step s (.dstage k)).drv)
  simp only [step]
  match k with
  | 0 => exact ci_sGpu I h
  | 1 => exact ci_sMmu I h
  | 2 => exact ci_sMig I h
  | 3 => exact ci_ret I h
  | 4 => exact ci_parse I h
  | k + 5 =>
    have : dstageFn (k + 5) s.drv = (s.drv, false) := by simp [dstageFn, DR.stages]
    rw [this, obs_quiet c _ _ (Nat.le_refl _) (Nat.le_refl _) (Nat.le_refl _)]
    exact h

/-- invariant + counting invariant, one observed move -/
theorem ici_stepO {x : Sys × Cnt} (h : Inv x.1 ∧ CI x.1 x.2) (m : Mv) (hm : m.ok x.1) (hd : m ≠ .dtick) :
    Inv (stepO x m).1 ∧ CI (stepO x m).1 (stepO x m).2 := by
  obtain ⟨s, c⟩ := x
  refine ⟨inv_step h.1 m hm, ?_⟩
  by_cases hk : ∃ k, m = .dstage k
  · obtain ⟨k, rfl⟩ := hk
    exact ci_dstage h.1 h.2 k
  · exact ci_other h.2 m (fun k e => hk ⟨k, e⟩) hd

theorem stepC_fst (x : Sys × Cnt) (m : Mv) : (stepC x m).1 = step x.1 m := by
  cases m with
  | dtick =>
    show (stepO (stepO (stepO (stepO (stepO x (.dstage 0)) (.dstage 1)) (.dstage 2)) (.dstage 3)) (.dstage 4)).1 = _
    simp only [stepO, step, dstageFn, DR.stages, List.getD_cons_zero, List.getD_cons_succ, tick_eq]
  | _ => rfl

theorem ici_stepC {x : Sys × Cnt} (h : Inv x.1 ∧ CI x.1 x.2) (m : Mv) (hm : m.ok x.1) :
    Inv (stepC x m).1 ∧ CI (stepC x m).1 (stepC x m).2 := by
  by_cases hd : m = .dtick
  · subst hd
    show Inv (stepO (stepO (stepO (stepO (stepO x (.dstage 0)) (.dstage 1)) (.dstage 2)) (.dstage 3)) (.dstage 4)).1 ∧ _
    have h1 := ici_stepO h (.dstage 0) trivial (by simp)
    have h2 := ici_stepO h1 (.dstage 1) trivial (by simp)
    have h3 := ici_stepO h2 (.dstage 2) trivial (by simp)
    have h4 := ici_stepO h3 (.dstage 3) trivial (by simp)
    exact ici_stepO h4 (.dstage 4) trivial (by simp)
  · have e : stepC x m = stepO x m := by cases m <;> first | rfl | exact absurd rfl hd
    rw [e]; exact ici_stepO h m hm hd

theorem ci_init {s : Sys} (h : Init s) : CI s {} := by
  have hd := h.drv
  refine ⟨?_, ?_, ?_, ?_, ?_, ?_, ?_, ?_, ?_, ?_, ?_, ?_, ?_⟩ <;> rw [hd] <;>
    simp [cnt, sumAcc, sumPages, pendS, pendM, pendG, pendA]

theorem reachC_ici {x : Sys × Cnt} (h : ReachC x) : Inv x.1 ∧ CI x.1 x.2 := by
  induction h with
  | init hi => exact ⟨inv_init hi, ci_init hi⟩
  | step m _ hm ih => exact ici_stepC ih m hm

theorem reachC_reach {x : Sys × Cnt} (h : ReachC x) : Reach x.1 := by
  induction h with
  | init hi => exact Reach.init hi
  | step m _ hm ih => rw [stepC_fst]; exact Reach.step m ih hm

/-- every run of the system can be monitored: the monitor does not restrict the schedules -/
theorem reach_reachC {s : Sys} (h : Reach s) : ∃ c, ReachC (s, c) := by
  induction h with
  | init hi => exact ⟨{}, ReachC.init hi⟩
  | @step s0 m _ hm ih =>
    obtain ⟨c, hc⟩ := ih
    refine ⟨(stepC (s0, c) m).2, ?_⟩
    have := ReachC.step m hc hm
    rw [← stepC_fst (s0, c) m]
    exact this

end SY
end C19
