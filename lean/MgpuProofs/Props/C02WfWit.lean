import MgpuProofs.Props.C02Wf
import MgpuProofs.C02WfFetch
import MgpuProofs.C02WfDemo
/-! # C02 — wavefront machine: fetch buffer, branches, and the witnesses that the hypotheses are needed

Concrete programs are written in the small instruction set of `MgpuModel/C02Wf.lean` (`CInst`), the
same programs the correspondence harness runs on the real compute unit and the real emulator ALU. -/
namespace C02.Wf

/-! ## instruction fetch and branches (no hazard hypothesis at all) -/

/-- **issued_instruction_is_memory_at_pc.** For every program, every schedule the compute unit's rules
    allow (hazard-free or not, any fetch latencies, stale fetch responses arriving after a taken branch
    included): the per-wavefront instruction buffer always holds a window of the instruction memory
    (`InstBuffer[k] = imem[InstBufferStartPC + k]`), a decoded `InstToIssue` is the instruction the
    emulator decodes at the wavefront's PC, and so is the instruction handed to a unit at issue — after
    a branch the buffer is dropped and re-based, a late fetch response is appended only if it continues
    the buffer: no stale instruction is ever executed. -/
theorem issued_instruction_is_memory_at_pc (P : Prog) (hP : P.WF) (gate : TState → Inst → Bool)
    (pc : Nat) (regs : RF) (mem : Mem) (evs : List Ev) (T : TState)
    (hrun : trun P gate (tinit pc regs mem) evs = some T) :
    (∀ k (h : k < T.ib.length), T.ib[k] = P.imem (T.ibStart + k)) ∧
    (∀ i, T.toIssue = some i → P.instAt T.pc = some i) ∧
    (T.ph = .issued → ∃ i, T.cur = some i ∧ P.instAt T.pc = some i) := by
  have h := finv_run hP evs _ T (finv_init pc regs mem) hrun
  exact ⟨h.f.ibok, fun i hi => (h.f.tok i hi).2, h.cur⟩

/-- **branch_pc_equiv.** The branch unit runs `alu.Run` on the PC of the branch and adds the
    instruction size afterwards (`UpdatePCAndSetReady`); the emulator adds the size first and then runs
    `alu.Run`. For the relative branches (`s_branch`, `s_cbranch_scc0/1`; all simm16, taken or not) the
    two orders give the same next PC, in uint64 arithmetic. -/
theorem branch_pc_equiv (c : CInst) (r : RF) (p : Nat) :
    pcAdd ((compile c).tgt r p) (compile c).size = (compile c).tgt r (pcAdd p (compile c).size) :=
  ((compile_wf c).tgt_rel r p).symm

example : (compile (.br 0xfffd)).tgt (fun _ => 0) (pcAdd 0x1010 4) = 0x1008 := by decide +kernel
example : pcAdd ((compile (.br 0xfffd)).tgt (fun _ => 0) 0x1010) 4 = 0x1008 := by decide +kernel

/-! ## a program with correct `s_waitcnt` placement: the hypotheses of the main theorem are met -/

example : hazardFreeRun PGood 9 (einit 0x1000 demoRegs demoMem, {}) = true := by decide +kernel
example : hcheck (csGood.map compile) = true := by decide +kernel

example : (trun PGood (fun _ _ => true) (tinit 0x1000 demoRegs demoMem) evsGood).map
    (fun T => (T.ph, T.regs (vreg 7 0), T.mem 0x200002)) = some (.done, 372180993, 47) := by decide +kernel
example : (erun PGood 9 (einit 0x1000 demoRegs demoMem)).map
    (fun E => (E.done, E.regs (vreg 7 0), E.mem 0x200002)) = some (true, 372180993, 47) := by decide +kernel

/-! ## without the hazard hypothesis timing and emulation differ -/

/-- **missing_waitcnt_differs.** `flat_load_dword v6` immediately followed by `v_xor_b32 v7, s4, v6`:
    the compute unit's rules accept a schedule in which the `v_xor` reads the old `v6` (0) — the
    wavefront completes with `v7[0] = 0x200000`, while the emulator ends with `0x200000 ^ loaded`.
    The hazard check rejects the program, both the address-exact one and the static one. -/
theorem missing_waitcnt_differs :
    (trun PBad (fun _ _ => true) (tinit 0x1000 demoRegs demoMem) evsBad).map
      (fun T => (T.ph, T.regs (vreg 7 0))) = some (.done, 0x200000) ∧
    (erun PBad 7 (einit 0x1000 demoRegs demoMem)).map
      (fun E => (E.done, E.regs (vreg 7 0))) = some (true, 372180993) ∧
    hazardFreeRun PBad 7 (einit 0x1000 demoRegs demoMem, {}) = false ∧
    hcheck (csBad.map compile) = false := by
  refine ⟨?_, ?_, ?_, ?_⟩ <;> decide +kernel

/-- the simulation statement without the hazard hypothesis -/
def wavefront_timing_equals_emulator_without_hazard_check : Prop :=
  ∀ (P : Prog), P.WF → ∀ (gate : TState → Inst → Bool) (pc : Nat) (regs : RF) (mem : Mem) (evs : List Ev) (T : TState),
    trun P gate (tinit pc regs mem) evs = some T → T.ph = .done →
    ∃ n E, erun P n (einit pc regs mem) = some E ∧ E.done = true ∧ T.regs = E.regs

/-- refuted by `missing_waitcnt_differs` (the property itself only speaks of race-free programs) -/
theorem wavefront_timing_equals_emulator_without_hazard_check_refuted :
    ¬ wavefront_timing_equals_emulator_without_hazard_check := by
  intro h
  obtain ⟨h1, h2, _, _⟩ := missing_waitcnt_differs
  cases hT : trun PBad (fun _ _ => true) (tinit 0x1000 demoRegs demoMem) evsBad with
  | none => rw [hT] at h1; cases h1
  | some T =>
    rw [hT] at h1
    simp only [Option.map_some, Option.some.injEq, Prod.mk.injEq] at h1
    cases hE : erun PBad 7 (einit 0x1000 demoRegs demoMem) with
    | none => rw [hE] at h2; cases h2
    | some E7 =>
      rw [hE] at h2
      simp only [Option.map_some, Option.some.injEq, Prod.mk.injEq] at h2
      obtain ⟨n, E, hrun, hd, hregs⟩ := h PBad PBad_wf _ _ _ _ evsBad T hT h1.1
      have := erun_done_unique PBad n 7 _ E E7 hrun hd hE h2.1
      subst this
      have e := congrFun hregs (vreg 7 0)
      rw [h1.2, h2.2] at e
      exact absurd e (by decide)

/-! ## `s_getpc_b64`: `alu.Run` before or after the PC update (repaired) -/

/-- **getpc_equal_after_fix.** The repaired scalar unit advances the PC before `alu.Run`, as the emulator
    (`runWfUntilBarrier`) and the hardware do: `s_getpc_b64 s[4:5]` at 0x1000 leaves s4 = 0x1004 (the
    address of the next instruction) in both modes, and the program is covered by
    `wavefront_timing_equals_emulator` (no restriction on PC-reading scalar instructions any more). -/
theorem getpc_equal_after_fix :
    (trun PPc (fun _ _ => true) (tinit 0x1000 demoRegs demoMem) evsPc).map
      (fun T => (T.ph, T.regs (sreg 4))) = some (.done, 0x1004) ∧
    (erun PPc 2 (einit 0x1000 demoRegs demoMem)).map
      (fun E => (E.done, E.regs (sreg 4))) = some (true, 0x1004) ∧
    hazardFreeRun PPc 2 (einit 0x1000 demoRegs demoMem, {}) = true ∧ PPc.WF := by
  refine ⟨?_, ?_, ?_, PPc_wf⟩ <;> decide +kernel

/-- **getpc_differs_before_fix.** Before the repair the scalar unit called `alu.Run` while the PC still
    pointed AT the instruction and added the size in the write stage: s4 = 0x1000 in timing mode,
    0x1004 in emulation (replayed on the code before commit "fix: the scalar unit …":
    `C02.wf-getpc-differs`, s[4:5] = 1000,0 vs 1004,0). -/
theorem getpc_differs_before_fix :
    (trun PPcOld (fun _ _ => true) (tinit 0x1000 demoRegs demoMem) evsPc).map
      (fun T => (T.ph, T.regs (sreg 4))) = some (.done, 0x1000) ∧
    (erun PPcOld 2 (einit 0x1000 demoRegs demoMem)).map
      (fun E => (E.done, E.regs (sreg 4))) = some (true, 0x1004) ∧
    hazardFreeRun PPcOld 2 (einit 0x1000 demoRegs demoMem, {}) = true := by
  refine ⟨?_, ?_, ?_⟩ <;> decide +kernel

/-- non-vacuity of `driver_runs_the_model`: the driver's loops on the `s_getpc_b64` program -/
example : (trunIdx PPc (tinit 0x1000 demoRegs demoMem) evsPc).2 = none := by decide +kernel
example : (erunFuel PPc 5 (einit 0x1000 demoRegs demoMem)).2 = "done" := by decide +kernel

/-- the main statement for the compute unit as it was before the repairs (`oldCU` unconstrained) -/
def wavefront_timing_equals_emulator_before_fix : Prop :=
  ∀ (P : Prog), (∀ l i, P.dec l = some i → i.WF ∧ i.PcOK) →
    (∀ l i, P.dec l = some i → i.size ≤ l.length ∧ ∀ l', l'.take i.size = l.take i.size → P.dec l' = some i) →
    ∀ (gate : TState → Inst → Bool) (pc : Nat) (regs : RF) (mem : Mem) (fuel : Nat),
    hazardFreeRun P fuel (einit pc regs mem, {}) = true →
    ∀ (evs : List Ev) (T : TState), trun P gate (tinit pc regs mem) evs = some T → T.ph = .done →
    ∃ n E, erun P n (einit pc regs mem) = some E ∧ E.done = true ∧ T.regs = E.regs

/-- refuted by `getpc_differs_before_fix` -/
theorem wavefront_timing_equals_emulator_before_fix_refuted :
    ¬ wavefront_timing_equals_emulator_before_fix := by
  intro h
  obtain ⟨h1, h2, h3⟩ := getpc_differs_before_fix
  cases hT : trun PPcOld (fun _ _ => true) (tinit 0x1000 demoRegs demoMem) evsPc with
  | none => rw [hT] at h1; cases h1
  | some T =>
    rw [hT] at h1
    simp only [Option.map_some, Option.some.injEq, Prod.mk.injEq] at h1
    cases hE : erun PPcOld 2 (einit 0x1000 demoRegs demoMem) with
    | none => rw [hE] at h2; cases h2
    | some E2 =>
      rw [hE] at h2
      simp only [Option.map_some, Option.some.injEq, Prod.mk.injEq] at h2
      obtain ⟨n, E, hrun, hd, hregs⟩ := h PPcOld PPc_wf.inst PPc_wf.pfx _ _ _ _ 2 h3 evsPc T hT h1.1
      have := erun_done_unique PPcOld n 2 _ E E2 hrun hd hE h2.1
      subst this
      have e := congrFun hregs (sreg 4)
      rw [h1.2, h2.2] at e
      exact absurd e (by decide)

/-! ## a FLAT access with EXEC = 0 and `s_waitcnt vmcnt(n)` (repaired) -/

/-- **empty_access_waits_after_fix.** In the repaired vector memory unit a FLAT access for which the
    coalescer forms no transaction (EXEC = 0) waits until the older vector accesses of its wavefront have
    returned. The schedule that exposed the defect is no longer possible (`trun … = none`: load B cannot
    execute while load A is in flight); on the schedule the unit now follows the wavefront ends with
    `v7[0] = 0x200000 ^ loaded` as in the emulator, and the program passes the address-exact check. -/
theorem empty_access_waits_after_fix :
    trun PEmpty (fun _ _ => true) (tinit 0x1000 demoRegs demoMem) evsEmpty = none ∧
    (trun PEmpty (fun _ _ => true) (tinit 0x1000 demoRegs demoMem) evsEmptyFixed).map
      (fun T => (T.ph, T.regs (vreg 7 0))) = some (.done, 372180993) ∧
    (erun PEmpty 12 (einit 0x1000 demoRegs demoMem)).map
      (fun E => (E.done, E.regs (vreg 7 0))) = some (true, 372180993) ∧
    hazardFreeRun PEmpty 12 (einit 0x1000 demoRegs demoMem, {}) = true := by
  refine ⟨?_, ?_, ?_, ?_⟩
  · cases h : trun PEmpty (fun _ _ => true) (tinit 0x1000 demoRegs demoMem) evsEmpty with
    | none => rfl
    | some T =>
      have : (trun PEmpty (fun _ _ => true) (tinit 0x1000 demoRegs demoMem) evsEmpty).isSome = false := by
        decide +kernel
      rw [h] at this; cases this
  · decide +kernel
  · decide +kernel
  · decide +kernel

/-- **vmcnt_skips_empty_access_before_fix.** Before the repair `executeFlatLoad`/`executeFlatStore`
    completed an access without transactions at once, without `OutstandingVectorMemAccess++`: the counter
    counted one access less than the program order `s_waitcnt vmcnt(n)` refers to. The program passes
    the static check (`hcheck = true`), yet the old rules accepted a schedule ending with
    `v7[0] = 0x200000` where the emulator has `0x200000 ^ loaded` (replayed on the code before commit
    "fix: a FLAT load/store for which the coalescer forms no transaction …": `C02.wf-vmcnt-empty-access`,
    v8 lane 0 `fa384efd` vs `ac76539`). -/
theorem vmcnt_skips_empty_access_before_fix :
    hcheck (csEmpty.map compile) = true ∧
    (trun PEmptyOld (fun _ _ => true) (tinit 0x1000 demoRegs demoMem) evsEmpty).map
      (fun T => (T.ph, T.regs (vreg 7 0))) = some (.done, 0x200000) ∧
    (erun PEmptyOld 12 (einit 0x1000 demoRegs demoMem)).map
      (fun E => (E.done, E.regs (vreg 7 0))) = some (true, 372180993) ∧
    hazardFreeRun PEmptyOld 12 (einit 0x1000 demoRegs demoMem, {}) = false := by
  refine ⟨?_, ?_, ?_, ?_⟩ <;> decide +kernel

/-- "the static check alone is enough" for the compute unit before the repair -/
def static_check_alone_suffices_before_fix : Prop :=
  ∀ (base : Nat) (cs : List CInst) (regs : RF) (mem : Mem) (evs : List Ev) (T : TState),
    (∀ d, CInst.getpc d ∉ cs) → hcheck (cs.map compile) = true →
    trun { cprog base cs noForeign with oldCU := true } (fun _ _ => true) (tinit base regs mem) evs = some T →
    T.ph = .done →
    ∃ n E, erun { cprog base cs noForeign with oldCU := true } n (einit base regs mem) = some E ∧
      E.done = true ∧ T.regs = E.regs

/-- refuted by `vmcnt_skips_empty_access_before_fix`; the statement for the repaired unit is the theorem
    `static_check_alone_suffices` -/
theorem static_check_alone_suffices_before_fix_refuted : ¬ static_check_alone_suffices_before_fix := by
  intro h
  obtain ⟨h0, h1, h2, _⟩ := vmcnt_skips_empty_access_before_fix
  cases hT : trun PEmptyOld (fun _ _ => true) (tinit 0x1000 demoRegs demoMem) evsEmpty with
  | none => rw [hT] at h1; cases h1
  | some T =>
    rw [hT] at h1
    simp only [Option.map_some, Option.some.injEq, Prod.mk.injEq] at h1
    cases hE : erun PEmptyOld 12 (einit 0x1000 demoRegs demoMem) with
    | none => rw [hE] at h2; cases h2
    | some E2 =>
      rw [hE] at h2
      simp only [Option.map_some, Option.some.injEq, Prod.mk.injEq] at h2
      obtain ⟨n, E, hrun, hd, hregs⟩ := h 0x1000 csEmpty demoRegs demoMem evsEmpty T
        (by intro d hd; simp [csEmpty] at hd) h0 hT h1.1
      have := erun_done_unique _ n 12 _ E E2 hrun hd hE h2.1
      subst this
      have e := congrFun hregs (vreg 7 0)
      rw [h1.2, h2.2] at e
      exact absurd e (by decide)

end C02.Wf
