import MgpuProofs.C12_FullCons
/-!
# C12 (waiting on a command queue always terminates): conservation of requests, whole `Driver.Tick`

`C12.W.Full` is the transcription of all stages of `Driver.Tick` under Akita's sleep/wake rule, with
the GPU side as a ghost (`Sys.ext`: requests taken from the port and not yet answered).
`Props/C12_Full.lean` shows that the driver never sleeps on work. This file shows that the work is
never LOST: every request of a running head command is in exactly one place — the delay line of the
memory-copy middleware, `requestsToSend`, the outgoing buffer of the GPU port, the GPU side, or, as
its answer, the incoming buffer of the port — and `left` (`len(cmd.GetReqs())`) counts them.
All theorems are about every run `run k (init cfg) evs` of legitimate events (the GPU side only
answers requests it was sent; every enqueued command type has a handler), for all capacities,
configurations and event sequences.
-/
namespace C12
namespace W
namespace Full

/-- **Requests are conserved.** In every reachable state and for every command queue `i`:
    while the queue is running, the number of requests its head still waits for (`left`) is exactly
    the number of its requests / answers that exist somewhere in the system (delay line,
    `requestsToSend`, outgoing buffer, GPU side, incoming buffer), this number is positive and the
    command is still at the head of the queue; when the queue is not running nothing of it is in
    flight. So a wait on queue `i` can only end by the answers arriving — none can be lost, counted
    twice or credited to another queue — and each arriving answer brings `left` one step closer to
    the completion that dequeues the command. -/
theorem requests_conserved (k : Caps) (cfg : Cfg) (evs : List Ev) (hl : ∀ ev ∈ evs, ev.legit = true) :
    let s := run k (init cfg) evs
    ∀ i q, s.core.d.qs[i]? = some q →
      (q.running = true → q.left = inflight s.core s.ext i ∧ 0 < q.left ∧ q.cmds ≠ []) ∧
      (q.running = false → inflight s.core s.ext i = 0) := by
  intro s i q hi
  exact (cinv_run k evs (init cfg) hl (cinv_init cfg)).1 i q hi

/-- **Answers are always solicited.** Every answer that sits in the GPU port (`LaunchKernelRsp`, or
    `GeneralRsp` to a flush / copy request) belongs to a queue that exists, is running and still
    counts at least one outstanding request: `findCommandByReq` / `findCommandByReqID` of the real
    driver always find the command (they never reach `panic("cannot find command")`), and removing
    the request never underflows `left`. -/
theorem answers_are_solicited (k : Caps) (cfg : Cfg) (evs : List Ev) (hl : ∀ ev ∈ evs, ev.legit = true) :
    let s := run k (init cfg) evs
    ∀ m ∈ s.core.inb, ∀ i, m.owner = some i →
      ∃ q, s.core.d.qs[i]? = some q ∧ q.running = true ∧ 0 < q.left := by
  intro s m hm i ho
  exact cinv_solicited (cinv_run k evs (init cfg) hl (cinv_init cfg)) hm ho

/-- **The delay line always has a timer.** Whenever copy requests sit in `awaitingReqs` the
    middleware's `cyclesLeft` is running (not -1): the delay line is shared by all copy commands
    and every start restarts the timer, so requests are never parked in it with nobody counting —
    they reach `requestsToSend` after finitely many ticks, and the counting timer keeps the
    driver awake meanwhile (`work`, clause 5). -/
theorem awaiting_has_timer (k : Caps) (cfg : Cfg) (evs : List Ev) (hl : ∀ ev ∈ evs, ev.legit = true) :
    let s := run k (init cfg) evs
    s.core.d.awaiting ≠ [] → s.core.d.cyc ≠ none := by
  intro s
  exact (cinv_run k evs (init cfg) hl (cinv_init cfg)).2.2.1

/-- **A quiescent driver has drained its queues.** This is what the harness oracle
    `C12.driver.queue-not-drained` evaluates on the real driver: when the driver sleeps (no tick
    event scheduled), no enqueue signal is owed and the GPU side has answered everything (nothing
    outstanding there, nothing left in the outgoing buffer), then every command queue is empty and
    idle — so every `DrainCommandQueue` emptiness check succeeds and every waiting application
    thread is released. Proof: asleep ∧ nothing owed ⇒ no work (`no_lost_wakeup`); no work ⇒ port,
    `requestsToSend` and delay line are empty and no head can be started; by conservation a
    running queue would have `left = 0`, and a non-empty idle queue would be startable because every
    queued command has a handler. -/
theorem quiescent_means_drained (k : Caps) (cfg : Cfg) (evs : List Ev) (hl : ∀ ev ∈ evs, ev.legit = true)
    (hcap : 0 < k.gOut) :
    let s := run k (init cfg) evs
    s.awake = false → s.owed = false → s.ext = [] → s.core.outb = [] →
      ∀ q ∈ s.core.d.qs, q.cmds = [] ∧ q.running = false := by
  intro s hsl hno hext hout
  have hs := sinv_run k evs (init cfg) hl (sinv_init k cfg)
  have hnw : ¬ work k s.core := by
    intro hw
    rcases hs.2 hw with ha | ho
    · rw [hsl] at ha; cases ha
    · rw [hno] at ho; cases ho
  exact cinv_drained (cinv_run k evs (init cfg) hl (cinv_init cfg)) hnw hcap hext hout

/-- **A running queue always waits for something that exists.** If queue `i` is running then at
    least one of its requests (or the answer to it) is somewhere in the system: in the delay line
    (whose timer runs, `awaiting_has_timer`), in `requestsToSend`, in the outgoing buffer, at the
    GPU side, or in the incoming buffer. The queue is never stuck on nothing — whenever its wait has
    not ended, some component still owes it a step. -/
theorem running_queue_waits_for_something (k : Caps) (cfg : Cfg) (evs : List Ev)
    (hl : ∀ ev ∈ evs, ev.legit = true) :
    let s := run k (init cfg) evs
    ∀ i q, s.core.d.qs[i]? = some q → q.running = true → 0 < inflight s.core s.ext i := by
  intro s i q hi hr
  obtain ⟨h1, h2, _⟩ := (requests_conserved k cfg evs hl i q hi).1 hr
  rw [← h1]; exact h2

/-! ### non-vacuity
A kernel on queue 0 and, behind it on queue 1 of the same context, a host-to-device copy of two
pieces (two GPUs: two flushes because the kernel made the context dirty). -/

def consCfg : Cfg := { nGpus := 2, cycH2D := 1, ctxs := [0, 0] }

def consDemo : List Ev :=
  [.enq 0 (.kern 1), .enq 1 (.copy false 2), .kick, .tick, .tick, .retrieveG, .answer 0,
   .tick, .tick, .tick, .tick, .retrieveG, .retrieveG, .retrieveG, .retrieveG,
   .answer 3, .answer 0, .answer 1, .answer 0, .tick, .tick, .tick, .tick, .tick]

/-- all events are legitimate; after 7 events both queues run: queue 0 waits for its one launch
    request, whose answer sits in the port; queue 1 for two flushes (in `requestsToSend`) and two
    copies (in the delay line, timer running) -/
example : (∀ ev ∈ consDemo, ev.legit = true) ∧
    (let s := run {} (init consCfg) (consDemo.take 7)
     s.core.d.qs.map (fun q => (q.running, q.left)) = [(true, 1), (true, 4)] ∧
     inflight s.core s.ext 0 = 1 ∧ inflight s.core s.ext 1 = 4 ∧
     s.core.inb = [.kernRsp 0] ∧ s.ext = [] ∧ s.core.d.toSend = [.flush 1, .flush 1] ∧
     s.core.d.awaiting = [.copy 1, .copy 1] ∧ s.core.d.cyc = some 0) := by
  decide

/-- the whole run (answers in an order of the GPU side's choosing) ends quiescent — the hypotheses
    of `quiescent_means_drained` hold — and drained -/
example : let s := run {} (init consCfg) consDemo
    s.awake = false ∧ s.owed = false ∧ s.ext = [] ∧ s.core.outb = [] ∧
    s.core.d.qs = [{ ctx := 0 }, { ctx := 0 }] := by
  decide

/-- without "the GPU side has answered everything" the conclusion fails: the driver sleeps while
    its four requests are out, with queue 1 running and waiting for exactly these four -/
example : let s := run {} (init consCfg) (consDemo.take 15 ++ [.tick])
    s.awake = false ∧ s.owed = false ∧ s.core.outb = [] ∧ s.ext = [.flush 1, .flush 1, .copy 1, .copy 1] ∧
    s.core.d.qs.map (fun q => (q.running, q.left)) = [(false, 0), (true, 4)] ∧ inflight s.core s.ext 1 = 4 := by
  decide

end Full
end W
end C12
