import MgpuModel.C08
import MgpuProofs.C08HiddenLemmas
import MgpuProofs.Props.C08
import MgpuProofs.Props.C08Wrap
/-! # C08 — hidden kernel arguments, dispatch packet layout, the split at 2^63

What a kernel learns about the launch geometry besides the SGPRs: the HIP hidden kernel arguments
of V5 code objects (`gputensor.newCDNA3HiddenArgs`, serialised by `binary.Write` like every
kernel-argument struct), the dispatch packet it reaches through the dispatch pointer, and — for the
multi-GPU split — what Go's signed 64-bit `int` does beyond the bound of `Geo.NoWrap`. Case lines
`c08 hidden`, `c08 dist64`; oracles `C08.hidden.*`, `C08.packet.layout`, `C08.wgdist64.*`. -/
namespace C08

/-! ## hidden kernel arguments -/

/-- **hidden_layout_is_abi.** The Go struct, packed in declaration order, puts every field at the
    offset and with the width the AMDGPU ABI (code object V5 implicit arguments) gives it; 66 bytes.
    (`hiddenLayout` is compared with the field list regenerated from the Go source:
    `hidden_layout_is_source` in `Props/C08Tie.lean`.) -/
theorem hidden_layout_is_abi :
    (∀ e ∈ abiHidden, offsetOf (goName e.1) hiddenLayout = some e.2.1 ∧ hiddenLayout.lookup (goName e.1) = some e.2.2) ∧
    (hiddenLayout.map (·.2)).sum = 66 := by decide

/-- every field fits the width of its slot -/
def Hidden.Fits (h : Hidden) : Prop := ∀ e ∈ abiHidden, h.field (goName e.1) < 256 ^ e.2.2

/-- **hidden_bytes_decode.** A kernel that reads the ABI offsets from the serialised block gets
    the fields back, for every block whose fields fit their widths. -/
theorem hidden_bytes_decode (h : Hidden) (hf : h.Fits) :
    (hiddenBytes h).length = 66 ∧
    ∀ e ∈ abiHidden, readLE (hiddenBytes h) e.2.1 e.2.2 = h.field (goName e.1) := by
  constructor
  · simp [hiddenBytes, hiddenLayout, leBytes_length]
  · intro e he
    obtain ⟨h1, h2⟩ := hidden_layout_is_abi.1 e he
    unfold hiddenBytes
    rw [readLE_layout h.field (goName e.1) hiddenLayout e.2.1 e.2.2 h1 h2]
    exact Nat.mod_eq_of_lt (hf e he)

/-- typed launch geometry without an empty axis: what `newCDNA3HiddenArgs` is given -/
structure Geo.Launch (g : Geo) : Prop where
  valid : g.Valid
  gx : g.gx < 4294967296
  gy : g.gy < 4294967296
  gz : g.gz < 4294967296
  wx : g.wx < 65536
  wy : g.wy < 65536
  wz : g.wz < 65536

/-- `grid + wg − 1` fits `uint32` on every axis -/
def Geo.CountsFit (g : Geo) : Prop :=
  g.gx + g.wx ≤ 4294967296 ∧ g.gy + g.wy ≤ 4294967296 ∧ g.gz + g.wz ≤ 4294967296

/-- **hidden_args_equal_geometry.** Inside the bound, the hidden arguments are the launch geometry:
    block counts = the number of work-groups per axis the grid builder produces (`Geo.nx/ny/nz`,
    `wgs_enumerate`), group sizes = the work-group size, remainders = the size of the partial
    group, global offsets 0; and every field fits its slot (so `hidden_bytes_decode` applies). -/
theorem hidden_args_equal_geometry (g : Geo) (hl : g.Launch) (hc : g.CountsFit) :
    ∃ h, hiddenOf g = .ok h ∧ h.bc = (g.nx, g.ny, g.nz) ∧ h.gs = (g.wx, g.wy, g.wz) ∧
      h.rem = (g.gx % g.wx, g.gy % g.wy, g.gz % g.wz) ∧ h.off = (0, 0, 0) ∧
      h.dims = (if g.gz > 1 then 3 else if g.gy > 1 then 2 else 1) ∧ h.Fits := by
  obtain ⟨hv, hgx, hgy, hgz, hwx, hwy, hwz⟩ := hl
  obtain ⟨cx, cy, cz⟩ := hc
  have hvx := hv.wx
  have hvy := hv.wy
  have hvz := hv.wz
  have e1 : C02.wgCount g.gx g.wx = g.nx := by
    rw [wgCount_fit' _ _ cx, nwgI_eq _ _ hv.gx hv.wx]; rfl
  have e2 : C02.wgCount g.gy g.wy = g.ny := by
    rw [wgCount_fit' _ _ cy, nwgI_eq _ _ hv.gy hv.wy]; rfl
  have e3 : C02.wgCount g.gz g.wz = g.nz := by
    rw [wgCount_fit' _ _ cz, nwgI_eq _ _ hv.gz hv.wz]; rfl
  have r1 : g.gx % g.wx % 65536 = g.gx % g.wx := Nat.mod_eq_of_lt (by have := Nat.mod_lt g.gx hv.wx; omega)
  have r2 : g.gy % g.wy % 65536 = g.gy % g.wy := Nat.mod_eq_of_lt (by have := Nat.mod_lt g.gy hv.wy; omega)
  have r3 : g.gz % g.wz % 65536 = g.gz % g.wz := Nat.mod_eq_of_lt (by have := Nat.mod_lt g.gz hv.wz; omega)
  refine ⟨{ bc := (C02.wgCount g.gx g.wx, C02.wgCount g.gy g.wy, C02.wgCount g.gz g.wz),
            gs := (g.wx, g.wy, g.wz),
            rem := (g.gx % g.wx % 65536, g.gy % g.wy % 65536, g.gz % g.wz % 65536),
            off := (0, 0, 0),
            dims := if g.gz > 1 then 3 else if g.gy > 1 then 2 else 1 }, ?_, ?_, rfl, ?_, rfl, rfl, ?_⟩
  · unfold hiddenOf
    rw [if_neg (by omega)]
  · simp only [e1, e2, e3]
  · simp only [r1, r2, r3]
  · have b1 : g.nx < 4294967296 := by rw [← e1, wgCount_fit' _ _ cx]; unfold nwgI; exact Nat.lt_of_le_of_lt (Nat.div_le_self _ _) (by omega)
    have b2 : g.ny < 4294967296 := by rw [← e2, wgCount_fit' _ _ cy]; unfold nwgI; exact Nat.lt_of_le_of_lt (Nat.div_le_self _ _) (by omega)
    have b3 : g.nz < 4294967296 := by rw [← e3, wgCount_fit' _ _ cz]; unfold nwgI; exact Nat.lt_of_le_of_lt (Nat.div_le_self _ _) (by omega)
    have m1 := Nat.mod_lt g.gx hv.wx
    have m2 := Nat.mod_lt g.gy hv.wy
    have m3 := Nat.mod_lt g.gz hv.wz
    unfold Hidden.Fits
    simp only [abiHidden, List.forall_mem_cons, List.not_mem_nil, false_imp_iff, implies_true, and_true,
      goName, Hidden.field, e1, e2, e3, r1, r2, r3]
    refine ⟨?_, ?_, ?_, ?_, ?_, ?_, ?_, ?_, ?_, ?_, ?_, ?_, ?_⟩ <;> first | omega | (split <;> (try split) <;> omega)

/-- **hidden_sizes_match_groups.** The work-group size a V5 kernel derives from the hidden
    arguments (group size, or the remainder for the last group of an axis with a partial group)
    is the clipped size of every work-group `NextWG` produces (`wg_sizes`). -/
theorem hidden_sizes_match_groups (g : Geo) (hl : g.Launch) (hc : g.CountsFit) (w : WG) (hw : w ∈ allWGs g) :
    ∃ h, hiddenOf g = .ok h ∧
      w.sz = (hiddenSize h.bc.1 h.gs.1 h.rem.1 w.id.1, hiddenSize h.bc.2.1 h.gs.2.1 h.rem.2.1 w.id.2.1,
              hiddenSize h.bc.2.2 h.gs.2.2 h.rem.2.2 w.id.2.2) := by
  obtain ⟨h, e, hbc, hgs, hrem, _⟩ := hidden_args_equal_geometry g hl hc
  refine ⟨h, e, ?_⟩
  have hv := hl.valid
  obtain ⟨n, hn, rfl⟩ := List.mem_map.mp hw
  have hb := coordOf_bounds g n (List.mem_range.mp hn)
  rw [hbc, hgs, hrem]
  simp only [wgAt, sizesOf]
  rw [clip_eq_hiddenSize g.gx g.wx _ hv.gx hv.wx hb.1, clip_eq_hiddenSize g.gy g.wy _ hv.gy hv.wy hb.2.1,
    clip_eq_hiddenSize g.gz g.wz _ hv.gz hv.wz hb.2.2]
  rfl

/-- the full statement: for every typed launch the block counts are the work-group counts -/
def hidden_block_count_full : Prop :=
  ∀ g : Geo, g.Launch → ∃ h, hiddenOf g = .ok h ∧ h.bc = (g.nx, g.ny, g.nz)

/-- the same statement about `newCDNA3HiddenArgs` before the repair -/
def hidden_block_count_before_fix_full : Prop :=
  ∀ g : Geo, g.Launch → ∃ h, hiddenOfOld g = .ok h ∧ h.bc = (g.nx, g.ny, g.nz)

/-- **hidden_block_count_full holds (repaired code).** `newCDNA3HiddenArgs` computes the block counts
    in 64 bits: for every typed launch geometry (`uint32` global sizes, `uint16` local sizes ≥ 1, no
    empty axis) they are the numbers of work-groups per axis the grid builder produces — also for a
    global size > 2^32 − local size. -/
theorem hidden_block_count_full_all : hidden_block_count_full := by
  intro g hl
  obtain ⟨hv, hgx, hgy, hgz, hwx, hwy, hwz⟩ := hl
  have e1 : C02.wgCount g.gx g.wx = g.nx := by
    rw [wgCount_typed' _ _ hgx hv.wx hwx, nwgI_eq _ _ hv.gx hv.wx]; rfl
  have e2 : C02.wgCount g.gy g.wy = g.ny := by
    rw [wgCount_typed' _ _ hgy hv.wy hwy, nwgI_eq _ _ hv.gy hv.wy]; rfl
  have e3 : C02.wgCount g.gz g.wz = g.nz := by
    rw [wgCount_typed' _ _ hgz hv.wz hwz, nwgI_eq _ _ hv.gz hv.wz]; rfl
  have hvx := hv.wx
  have hvy := hv.wy
  have hvz := hv.wz
  refine ⟨{ bc := (C02.wgCount g.gx g.wx, C02.wgCount g.gy g.wy, C02.wgCount g.gz g.wz),
            gs := (g.wx, g.wy, g.wz),
            rem := (g.gx % g.wx % 65536, g.gy % g.wy % 65536, g.gz % g.wz % 65536),
            off := (0, 0, 0),
            dims := if g.gz > 1 then 3 else if g.gy > 1 then 2 else 1 }, ?_, ?_⟩
  · unfold hiddenOf
    rw [if_neg (by omega)]
  · simp only [e1, e2, e3]

example : (hiddenOf ⟨4294967295, 1, 1, 64, 1, 1⟩).toOption.map (·.bc) = some (67108864, 1, 1) := by decide

/-- **hidden_block_count_before_fix_refuted.** Global size 4294967295 × 1 × 1, local size 64 × 1 × 1:
    `(g + l − 1) / l` wrapped in `uint32`, `hidden_block_count_x = 0`, the grid has 67108864
    work-groups along x (former finding C08-hidden-block-count-wraps). -/
theorem hidden_block_count_before_fix_refuted : ¬ hidden_block_count_before_fix_full := by
  intro h
  obtain ⟨hh, e, hbc⟩ := h ⟨4294967295, 1, 1, 64, 1, 1⟩
    ⟨⟨by decide, by decide, by decide, by decide, by decide, by decide⟩, by decide, by decide, by decide, by decide, by decide, by decide⟩
  have e' : hiddenOfOld ⟨4294967295, 1, 1, 64, 1, 1⟩ = .ok ⟨(0, 1, 1), (64, 1, 1), (63, 0, 0), (0, 0, 0), 1⟩ := by rfl
  rw [e'] at e
  cases e
  exact absurd (congrArg Prod.fst hbc) (by decide)

/-- a zero local size divides by zero (Go panics) -/
theorem hidden_div0 (g : Geo) (h : g.wx = 0 ∨ g.wy = 0 ∨ g.wz = 0) : hiddenOf g = .error "div0" := by
  unfold hiddenOf; rw [if_pos h]

/-! ## the dispatch packet -/

/-- **packet_layout_is_aql.** `kernels.HsaKernelDispatchPacket`, serialised field by field in
    declaration order, is the 64-byte AQL kernel dispatch packet: work-group sizes at 4/6/8, grid
    sizes at 12/16/20, kernel object at 32, kernarg address at 40 (what a kernel reads through the
    dispatch pointer in s[…] — `sgpr_image_is_abi`). -/
theorem packet_layout_is_aql :
    (∀ e ∈ aqlOffsets, offsetOf e.1 packetLayout = some e.2) ∧ (packetLayout.map (·.2)).sum = 64 := by decide

/-! ## the split in signed 64-bit `int` -/

/-- the product is the same residue in both models -/
theorem totalS_eq_totalI (g : Geo) : g.totalS = g.totalI := rfl

/-- **distS_eq_distI.** With head-room — `totalWGCount + totalCUCount ≤ 2^63`, the largest value
    the split computes fits `int` — Go's signed arithmetic (wrapping products, truncating division,
    signed comparison in the panic guard) returns exactly the ranges of the unsigned model `distI`:
    `fixed_width_agrees` / `fixed_width_split` describe the real code there. -/
theorem distS_eq_distI (g : Geo) (cus : List Nat) (hs : 0 < cus.sum) (hs2 : cus.sum < 9223372036854775808)
    (hroom : g.totalI + cus.sum ≤ 9223372036854775808) :
    distS g cus = (distI g cus).map (fun d => d.map Int.ofNat) :=
  distS_eq g cus hs hs2 hroom

/-- **gpuFilterS_eq_gpuFilterI.** Same for the filter closure on every work-group whose flattened
    id is below 2^63 (all work-groups of a grid inside `Geo.NoWrap`). -/
theorem gpuFilterS_eq_gpuFilterI (g : Geo) (d : List Nat) (i : Nat) (c : Coord)
    (hf : c.2.2 * nwgI g.gx g.wx * nwgI g.gy g.wy + c.2.1 * nwgI g.gx g.wx + c.1 < 9223372036854775808) :
    gpuFilterS g (d.map Int.ofNat) i c = gpuFilterI g d i c :=
  gpuFilterS_eq g d i c hf

/-- the full statement for every typed packet: ranges without fault and the probe work-group
    accepted by exactly one launched GPU -/
def split_at_2_63_full : Prop :=
  ∀ (g : Geo) (cus : List Nat) (c : Coord), g.Launch → 0 < cus.sum →
    c.1 < g.nx → c.2.1 < g.ny → c.2.2 < g.nz →
    ∃ d, distS g cus = .ok d ∧ ((launchedS d cus.length).filter fun i => gpuFilterS g d i c).length = 1

/-- **split_at_2_63_refuted.** Grid 4294967295 × 4294967295 × 2 with work-group 1 × 1 × 1 (≈ 2^65
    work-groups), CUs 4 + 4: the `int` product is −17179869182, the ranges are
    0, −8589934584, −17179869168, the guard stays silent, both GPUs are launched and no GPU's filter
    accepts work-group (5,5,1) (replayed on the real driver: `C08.wgdist64.overflow`). -/
theorem split_at_2_63_refuted : ¬ split_at_2_63_full := by
  intro h
  obtain ⟨d, hd, hlen⟩ := h ⟨4294967295, 4294967295, 2, 1, 1, 1⟩ [4, 4] (5, 5, 1)
    ⟨⟨by decide, by decide, by decide, by decide, by decide, by decide⟩, by decide, by decide, by decide, by decide, by decide, by decide⟩
    (by decide) (by decide) (by decide) (by decide)
  have e : distS ⟨4294967295, 4294967295, 2, 1, 1, 1⟩ [4, 4] = .ok [0, -8589934584, -17179869168] := by rfl
  rw [e] at hd
  cases hd
  exact absurd hlen (by decide +kernel)

/-- **split_needs_headroom.** The bound of `distS_eq_distI` is sharp: 454279 · 31252369 · 649657 =
    2^63 − 1 work-groups fit `int`, but with 8 CUs `total + CUs − 1` overflows, `wgPerCU` becomes
    negative and the real driver panics "not all wg allocated", while the unsigned model `distI`
    (and `fixed_width_split`, which is about `distI`) yields ranges. With one CU it fits. -/
theorem split_needs_headroom :
    distS ⟨454279, 31252369, 649657, 1, 1, 1⟩ [4, 4] = .error "not_all_allocated" ∧
    distI ⟨454279, 31252369, 649657, 1, 1, 1⟩ [4, 4] = .ok [0, 4611686018427387904, 9223372036854775808] ∧
    distS ⟨454279, 31252369, 649657, 1, 1, 1⟩ [1] = .ok [0, 9223372036854775807] := by
  refine ⟨by rfl, by rfl, by rfl⟩

/-! ## non-vacuity -/

example : Geo.Launch ⟨58, 4, 1, 48, 4, 1⟩ ∧ Geo.CountsFit ⟨58, 4, 1, 48, 4, 1⟩ :=
  ⟨⟨⟨by decide, by decide, by decide, by decide, by decide, by decide⟩, by decide, by decide, by decide, by decide, by decide, by decide⟩, by unfold Geo.CountsFit; decide⟩
example : hiddenOf ⟨58, 4, 1, 48, 4, 1⟩ = .ok ⟨(2, 1, 1), (48, 4, 1), (10, 0, 0), (0, 0, 0), 2⟩ := by rfl
example : readLE (hiddenBytes ⟨(2, 1, 1), (48, 4, 1), (10, 0, 0), (0, 0, 0), 2⟩) 18 2 = 10 := by decide
example : hiddenSize 2 48 10 1 = 10 ∧ hiddenSize 2 48 10 0 = 48 := by decide
/-- 2^32 work-groups on 4+4 CUs: inside the head-room -/
example : Geo.totalI ⟨65536, 65536, 1, 1, 1, 1⟩ + [4, 4].sum ≤ 9223372036854775808 := by decide
example : distS ⟨65536, 65536, 1, 1, 1, 1⟩ [4, 4] = .ok [0, 2147483648, 4294967296] := by rfl

end C08
