import MgpuProofs.Props.C04
/-! # C04 — decoding a whole instruction stream

`decode_encode` is about one instruction followed by anything. A code object is a *sequence*: the
disassembler's loop (`Disassembler.Disassemble`: `for len(buf) > 0 { inst, err := Decode(buf); if err
!= nil { buf = buf[4:]; continue }; buf = buf[inst.ByteSize:] }`) and the instruction fetch of both
execution modes walk it by the decoded sizes. `disasm` transcribes that loop (the 256-byte kernel
headers of V2/V3 objects are skipped by the caller and are not part of the stream); fuel = one unit
per iteration, `buf.length` units always suffice because every iteration consumes ≥ 4 bytes
(`disasm_fuel_enough`). -/
namespace C04

/-- one iteration's report: an instruction, "Instruction not decodable" (one dword skipped), or the
    run-time fault of `buf = buf[4:]` on fewer than 4 remaining bytes (Go slices do not truncate) -/
inductive Step where
  | inst (i : Inst)
  | skip
  | fault
deriving Repr, DecidableEq

/-- the disassembly loop -/
def disasm (c : Bool) : Nat → List Nat → List Step
  | 0, _ => []
  | f + 1, buf =>
    if buf.length = 0 then []
    else match decode c buf with
      | .ok i => .inst i :: disasm c f (buf.drop i.size)
      | _ => if buf.length < 4 then [.fault] else .skip :: disasm c f (buf.drop 4)

theorem encode_length_pos (c : Bool) (d : Desc) (hwf : wellFormed d = true) :
    (encode d).length = 4 ∨ (encode d).length = 8 := by
  have h := decode_encode c d hwf []
  rw [List.append_nil] at h
  have := (decode_size c (encode d) _ h).1
  rwa [instOf_size c d hwf] at this

/-- **stream round trip.** For every list of well-formed descriptions — any length, any mix of 4-
    and 8-byte formats and literals — walking the concatenated encodings by the decoded sizes yields
    exactly the described instructions, in order, none skipped, none split, nothing reported
    undecodable; trailing bytes `t` are what is left for the next iteration. -/
theorem disasm_encode (c : Bool) (ds : List Desc) (hwf : ∀ d ∈ ds, wellFormed d = true) :
    ∀ (f : Nat) (t : List Nat), ds.length ≤ f →
      disasm c f (ds.flatMap encode ++ t) = ds.map (fun d => Step.inst (instOf c d)) ++ disasm c (f - ds.length) t := by
  induction ds with
  | nil => intro f t _; simp
  | cons d ds ih =>
    intro f t hf
    have hd : wellFormed d = true := hwf d (by simp)
    have hds : ∀ d ∈ ds, wellFormed d = true := fun x hx => hwf x (by simp [hx])
    obtain ⟨f', rfl⟩ : ∃ f', f = f' + 1 := ⟨f - 1, by simp at hf; omega⟩
    have hlen := encode_length_pos c d hd
    have hne : ¬ (List.flatMap encode (d :: ds) ++ t).length = 0 := by
      simp only [List.flatMap_cons, List.length_append]; omega
    have hdec : decode c (List.flatMap encode (d :: ds) ++ t) = .ok (instOf c d) := by
      simp only [List.flatMap_cons, List.append_assoc]
      exact decode_encode c d hd _
    have hdrop : (List.flatMap encode (d :: ds) ++ t).drop (instOf c d).size = ds.flatMap encode ++ t := by
      rw [instOf_size c d hd]
      simp only [List.flatMap_cons, List.append_assoc]
      exact List.drop_left
    rw [disasm]
    simp only [hne, if_false, hdec, hdrop]
    rw [ih hds f' t (by simp at hf; omega)]
    simp only [List.map_cons, List.cons_append, List.length_cons, Nat.add_sub_add_right]

/-- the whole buffer, fuel as the loop has it (it runs while bytes are left) -/
theorem disasm_encode_whole (c : Bool) (ds : List Desc) (hwf : ∀ d ∈ ds, wellFormed d = true) :
    disasm c (ds.flatMap encode).length (ds.flatMap encode) = ds.map (fun d => Step.inst (instOf c d)) := by
  have hlen : ds.length ≤ (ds.flatMap encode).length := by
    induction ds with
    | nil => simp
    | cons d ds ih =>
      have := encode_length_pos c d (hwf d (by simp))
      have := ih (fun x hx => hwf x (by simp [hx]))
      simp only [List.flatMap_cons, List.length_append, List.length_cons]; omega
  have h := disasm_encode c ds hwf _ [] hlen
  rw [List.append_nil] at h
  rw [h]
  cases (ds.flatMap encode).length - ds.length <;> simp [disasm]

/-- **the loop always advances and ends**: with `buf.length` units of fuel the walk never stops for
    lack of fuel — more fuel gives the same list (each iteration drops ≥ 4 bytes or empties). -/
theorem disasm_fuel_enough (c : Bool) : ∀ (n : Nat) (buf : List Nat) (f : Nat), buf.length ≤ n → n ≤ f →
    disasm c f buf = disasm c n buf := by
  intro n
  induction n with
  | zero =>
    intro buf f hb _
    have : buf.length = 0 := by omega
    cases f <;> simp [disasm, this]
  | succ n ih =>
    intro buf f hb hf
    obtain ⟨f', rfl⟩ : ∃ f', f = f' + 1 := ⟨f - 1, by omega⟩
    rw [disasm, disasm]
    by_cases h0 : buf.length = 0
    · simp [h0]
    · simp only [h0, if_false]
      cases hdec : decode c buf with
      | ok i =>
        have hs := decode_size c buf i hdec
        simp only
        rw [ih (buf.drop i.size) f' (by rw [List.length_drop]; omega) (by omega)]
      | err =>
        simp only
        by_cases h4 : buf.length < 4
        · simp [h4]
        · simp only [h4, if_false]
          rw [ih (buf.drop 4) f' (by rw [List.length_drop]; omega) (by omega)]
      | notImpl =>
        simp only
        by_cases h4 : buf.length < 4
        · simp [h4]
        · simp only [h4, if_false]
          rw [ih (buf.drop 4) f' (by rw [List.length_drop]; omega) (by omega)]

/-- **no slice fault on dword-sized sections**: if the buffer length is a multiple of 4 (every `.text`
    section the loader hands over; every concatenation of encodings) the walk never reaches the
    `buf[4:]` fault — decoded sizes are 4 or 8, so the remainder stays a multiple of 4. -/
theorem disasm_no_fault (c : Bool) : ∀ (f : Nat) (buf : List Nat), buf.length % 4 = 0 →
    Step.fault ∉ disasm c f buf := by
  intro f
  induction f with
  | zero => intro buf _; simp [disasm]
  | succ f ih =>
    intro buf hm
    rw [disasm]
    by_cases h0 : buf.length = 0
    · simp [h0]
    · simp only [h0, if_false]
      cases hdec : decode c buf with
      | ok i =>
        have hs := decode_size c buf i hdec
        simp only [List.mem_cons, not_or]
        refine ⟨by simp, ih _ ?_⟩
        rw [List.length_drop]; omega
      | err =>
        simp only
        have h4 : ¬ buf.length < 4 := by omega
        simp only [h4, if_false, List.mem_cons, not_or]
        refine ⟨by simp, ih _ ?_⟩
        rw [List.length_drop]; omega
      | notImpl =>
        simp only
        have h4 : ¬ buf.length < 4 := by omega
        simp only [h4, if_false, List.mem_cons, not_or]
        refine ⟨by simp, ih _ ?_⟩
        rw [List.length_drop]; omega

/-- the fault is real for the model: three stray bytes after nothing -/
example : disasm false 3 [1, 2, 3] = [.fault] := by decide +kernel


/-- the loop with its program counter (`inst.PC = pc; pc += uint64(inst.ByteSize)`; `pc += 4` on a skip) -/
def disasmPC (c : Bool) : Nat → Nat → List Nat → List (Nat × Step)
  | 0, _, _ => []
  | f + 1, pc, buf =>
    if buf.length = 0 then []
    else match decode c buf with
      | .ok i => (pc, .inst i) :: disasmPC c f (pc + i.size) (buf.drop i.size)
      | _ => if buf.length < 4 then [(pc, .fault)] else (pc, .skip) :: disasmPC c f (pc + 4) (buf.drop 4)

/-- forgetting the counters gives `disasm` -/
theorem disasmPC_steps (c : Bool) : ∀ (f pc : Nat) (buf : List Nat),
    (disasmPC c f pc buf).map Prod.snd = disasm c f buf := by
  intro f
  induction f with
  | zero => intro pc buf; simp [disasmPC, disasm]
  | succ f ih =>
    intro pc buf
    rw [disasmPC, disasm]
    by_cases h0 : buf.length = 0
    · simp [h0]
    · simp only [h0, if_false]
      cases hdec : decode c buf with
      | ok i => simp [ih]
      | err => by_cases h4 : buf.length < 4 <;> simp [h4, ih]
      | notImpl => by_cases h4 : buf.length < 4 <;> simp [h4, ih]

/-- addresses at which the encodings of `ds` start when the first starts at `pc` -/
def starts (pc : Nat) : List Desc → List Nat
  | [] => []
  | d :: ds => pc :: starts (pc + (encode d).length) ds

/-- **every instruction is reported at the address its encoding starts at** (what branch targets and
    `s_getpc` rely on), for every well-formed stream of any length. -/
theorem disasmPC_encode (c : Bool) (ds : List Desc) (hwf : ∀ d ∈ ds, wellFormed d = true) :
    ∀ (f pc : Nat), ds.length ≤ f →
      disasmPC c f pc (ds.flatMap encode) = (starts pc ds).zip (ds.map fun d => Step.inst (instOf c d)) := by
  induction ds with
  | nil => intro f pc _; cases f <;> simp [disasmPC, starts]
  | cons d ds ih =>
    intro f pc hf
    have hd : wellFormed d = true := hwf d (by simp)
    have hds : ∀ d ∈ ds, wellFormed d = true := fun x hx => hwf x (by simp [hx])
    obtain ⟨f', rfl⟩ : ∃ f', f = f' + 1 := ⟨f - 1, by simp at hf; omega⟩
    have hlen := encode_length_pos c d hd
    have hne : ¬ (List.flatMap encode (d :: ds)).length = 0 := by
      simp only [List.flatMap_cons, List.length_append]; omega
    have hdec : decode c (List.flatMap encode (d :: ds)) = .ok (instOf c d) := by
      simp only [List.flatMap_cons]
      exact decode_encode c d hd _
    have hdrop : (List.flatMap encode (d :: ds)).drop (instOf c d).size = ds.flatMap encode := by
      rw [instOf_size c d hd]
      simp only [List.flatMap_cons]
      exact List.drop_left
    rw [disasmPC]
    simp only [hne, if_false, hdec, hdrop]
    rw [ih hds f' _ (by simp at hf; omega), instOf_size c d hd]
    simp only [starts, List.map_cons, List.zip_cons_cons]


end C04
