import MgpuProofs.C12_Full
import MgpuModel.Gen.C12Drv
/-!
# C12 (driver sleep/wake, ALL stages of `Driver.Tick`, both ports)

`C12.W.Full` transcribes the whole of `Driver.Tick` — `sendToGPUs`, `sendToMMU`,
`sendMigrationReqToCP`, the memory-copy middleware (delay line + `GeneralRsp` handling, whose result
overwrites the delay line's flag), `processReturnReq` (kernel response and the five page-migration
acknowledgements), `processNewCommand` (Noop, kernel, memory-copy commands) and `parseFromMMU` —
under Akita's sleep/wake rule with the GPU port and the MMU port (`Full.step`; the same function
answers the `c12 full` case lines replayed on the real `TickingComponent` and ports).
-/
namespace C12
namespace W
namespace Full

/-- **Quiet-tick rule, every stage of `Driver.Tick`.** When the GPU port holds only messages some
    stage takes and `Tick` reports no progress, then it has changed nothing — so another tick does
    nothing and reports no progress either — and nothing is left to do: no message waits in the GPU
    port, no migration request can be taken from the MMU port, no queue has a head that can be
    started, no request can be sent, no copy request sits in a counting delay line, the answer to
    the MMU cannot be sent, no page request can go to the command processor. -/
theorem quiet_tick_leaves_no_work (k : Caps) (c : C) (hcl : Clean c) (h : (tick k c).2 = false) :
    (tick k c).1 = c ∧ tick k (tick k c).1 = (c, false) ∧
    c.inb = [] ∧ (c.d.mIn = [] ∨ c.d.handling = true) ∧ (∀ q ∈ c.d.qs, ¬ startable q) ∧
    (c.d.toSend = [] ∨ ¬ c.outb.length < k.gOut) ∧ (c.d.cyc = none ∨ c.d.awaiting = []) ∧
    (c.d.toMMU = false ∨ ¬ c.d.mOut < k.mOut) ∧
    (c.d.migToCP = 0 ∨ c.d.migOne = true ∨ ¬ c.outb.length < k.gOut) := by
  obtain ⟨heq, hnw⟩ := quiet_tick k c hcl h
  have hfalse : tick k c = (c, false) := Prod.ext heq h
  refine ⟨heq, by rw [heq]; exact hfalse, ?_, ?_, ?_, ?_, ?_, ?_, ?_⟩
  · exact Classical.byContradiction fun hin => hnw (Or.inl hin)
  · by_cases hm : c.d.mIn = []
    · exact Or.inl hm
    · right
      cases hh : c.d.handling with
      | true => rfl
      | false => exact absurd (Or.inr (Or.inl ⟨hm, hh⟩)) hnw
  · intro q hq hs; exact hnw (Or.inr (Or.inr (Or.inl ⟨q, hq, hs⟩)))
  · by_cases ht : c.d.toSend = []
    · exact Or.inl ht
    · exact Or.inr fun hlt => hnw (Or.inr (Or.inr (Or.inr (Or.inl ⟨ht, hlt⟩))))
  · by_cases hc : c.d.cyc = none
    · exact Or.inl hc
    · right
      exact Classical.byContradiction fun ha => hnw (Or.inr (Or.inr (Or.inr (Or.inr (Or.inl ⟨hc, ha⟩)))))
  · cases ht : c.d.toMMU with
    | false => exact Or.inl rfl
    | true => exact Or.inr fun hlt => hnw (Or.inr (Or.inr (Or.inr (Or.inr (Or.inr (Or.inl ⟨ht, hlt⟩))))))
  · by_cases hc : c.d.migToCP = 0
    · exact Or.inl hc
    · right
      cases hm : c.d.migOne with
      | true => exact Or.inl rfl
      | false => exact Or.inr fun hlt => hnw (Or.inr (Or.inr (Or.inr (Or.inr (Or.inr (Or.inr ⟨hc, hm, hlt⟩))))))

/-- **No lost wake-up, ALL stages of `Driver.Tick`.** For every configuration (GPUs, delay-line
    lengths, queues and contexts), all port capacities and every sequence of events — the GPU side
    takes requests and answers them in any order and any grouping, the MMU sends migration requests
    and takes the answers, application threads enqueue Noop / kernel / memory-copy commands,
    `runAsync` kicks, the engine handles tick events —: whenever no application signal is owed and
    anything is left for `Tick` to do, a tick event is scheduled. -/
theorem no_lost_wakeup (k : Caps) (cfg : Cfg) (evs : List Ev) (hl : ∀ ev ∈ evs, ev.legit = true) :
    let s := run k (init cfg) evs
    s.owed = false → work k s.core → s.awake = true := by
  intro s hno hw
  rcases (sinv_run k evs (init cfg) hl (sinv_init k cfg)).2 hw with ha | ho
  · exact ha
  · exact absurd ho (by simp [s] at hno; simp [hno])

/-- **A delivery that finds the driver asleep wakes it.** In every reachable state in which the
    driver is asleep and no signal is owed, the GPU port is empty — so the next answer is delivered
    into an empty buffer and schedules a tick (Akita wakes a component only then); a migration
    request that waits in the MMU port while the driver sleeps is waiting for the migration being
    handled, whose last acknowledgement re-opens the port in a tick that reports progress. -/
theorem delivery_wakes (k : Caps) (cfg : Cfg) (evs : List Ev) (hl : ∀ ev ∈ evs, ev.legit = true) (hcap : 0 < k.gIn) :
    let s := run k (init cfg) evs
    s.awake = false → s.owed = false →
      s.core.inb = [] ∧ (∀ j x, s.ext[j]? = some x → (step k s (.answer j)).awake = true) ∧
      (s.core.d.mIn ≠ [] → s.core.d.handling = true) := by
  intro s hsl hno
  have hinv := sinv_run k evs (init cfg) hl (sinv_init k cfg)
  have hnw : ¬ work k s.core := by
    intro hw
    rcases hinv.2 hw with ha | ho
    · rw [hsl] at ha; cases ha
    · rw [hno] at ho; cases ho
  have hin : s.core.inb = [] := Classical.byContradiction fun hin => hnw (Or.inl hin)
  refine ⟨hin, ?_, ?_⟩
  · intro j x hx
    simp only [step, hx, hin, List.length_nil, hcap, if_true, deliverG]
    simp
  · intro hm
    cases hh : s.core.d.handling with
    | true => rfl
    | false => exact absurd (Or.inr (Or.inl ⟨hm, hh⟩)) hnw

/-! ### the hypotheses cannot be dropped -/

/-- the statement for ARBITRARY deliveries (also messages that are not answers to a request of the
    driver): a message in the GPU port ⇒ a tick is scheduled -/
def no_lost_wakeup_any_message : Prop :=
  ∀ (k : Caps) (cfg : Cfg) (evs : List Ev),
    (run k (init cfg) evs).owed = false → (run k (init cfg) evs).core.inb ≠ [] → (run k (init cfg) evs).awake = true

/-- a message of a type outside both switches arrives, then a kernel is launched and answered -/
def foreignWitness : List Ev :=
  [.inject .foreign, .tick, .tick, .enq 0 (.kern 1), .kick, .tick, .tick, .tick, .retrieveG, .answer 0, .tick]

/-- **Why "only answers are delivered" is needed.** A message no stage takes stays at the head of
    the GPU port: every later tick reports no progress, the driver sleeps with input waiting, and
    the kernel response behind it is never processed — its command stays queued with `IsRunning`
    set. Replayed on the real driver by `harness/c12_full.go` (same trace). -/
theorem no_lost_wakeup_any_message_refuted : ¬ no_lost_wakeup_any_message := by
  intro h
  have := h {} { ctxs := [0] } foreignWitness (by decide) (by decide)
  exact absurd this (by decide)

example : let s := run {} (init { ctxs := [0] }) foreignWitness
    s.awake = false ∧ s.core.inb = [.foreign, .kernRsp 0] ∧ s.core.d.qs.map (fun q => (q.cmds.length, q.running)) = [(1, true)] := by
  decide

/-- **The middleware's progress flag is overwritten** (`madeProgress = m.processGeneralRsp(req)`):
    with the delay line counting and a `GeneralRsp` to an unknown request at the head of the port,
    the stage changes `cyclesLeft` and reports no progress — (W1) fails, the tick is quiet although
    the state changed, and the copy request in the delay line is never sent. -/
theorem mw_flag_overwritten :
    let c : C := { d := { cyc := some 2, awaiting := [.copy 0], qs := [{ cmds := [.copy false 1], running := true, left := 1 }] },
                   inb := [.foreignGen] }
    (tick {} c).2 = false ∧ (tick {} c).1.d ≠ c.d ∧ (tick {} c).1.d.cyc = some 1 := by
  intro c
  refine ⟨by decide, by decide, by decide⟩

/-- the statement for ARBITRARY command types: a queue with a head that is not running ⇒ a tick is
    scheduled -/
def no_lost_wakeup_any_command : Prop :=
  ∀ (k : Caps) (cfg : Cfg) (evs : List Ev), (∀ ev ∈ evs, ∀ m, ev ≠ .inject m) →
    (run k (init cfg) evs).owed = false → (∃ q ∈ (run k (init cfg) evs).core.d.qs, startableAny q) →
    (run k (init cfg) evs).awake = true

/-- **Why "every command type has a handler" is needed — and what the driver did before the repair.**
    `FlushCommand` is exported and `Driver.Enqueue` accepts it, but `processOneCommand` handed it to the
    middlewares and none processed it (`Cmd.unhandled`): the tick reported no progress with the command
    at the head of its queue, the Noop behind it never ran. It was replayed on the real driver (oracle
    `C12.driver.unhandled-command`) and is repaired: `FlushCommand` has a handler (`Cmd.fl`,
    `flush_command_completes`, `command_handlers_match_source`: no command type is left without one) and
    a command nobody processes panics naming its type. -/
theorem no_lost_wakeup_any_command_before_fix_refuted : ¬ no_lost_wakeup_any_command := by
  intro h
  have := h {} { ctxs := [0] } [.enq 0 .unhandled, .enq 0 .noop, .kick, .tick, .tick]
    (by intro ev hev m; simp at hev; rcases hev with rfl | rfl | rfl | rfl | rfl <;> simp)
    (by decide) ⟨{ cmds := [.unhandled, .noop] }, by decide, by decide⟩
  exact absurd this (by decide)

/-- **The repaired `FlushCommand`** (2 GPUs): the tick that starts it puts one `FlushReq` per GPU into
    `requestsToSend` and marks the queue running; once both are answered the command is dequeued, the Noop
    behind it runs, and the driver goes to sleep with the queue empty — the trace on which the driver used
    to wedge (`no_lost_wakeup_any_command_before_fix_refuted`). -/
theorem flush_command_completes :
    let evs : List Ev := [.enq 0 .fl, .enq 0 .noop, .kick, .tick]
    let s1 := run {} (init { nGpus := 2, ctxs := [0] }) evs
    let s2 := run {} (init { nGpus := 2, ctxs := [0] })
      (evs ++ [.tick, .tick, .retrieveG, .retrieveG, .answer 0, .answer 0, .tick, .tick, .tick, .tick])
    (∀ ev ∈ evs, ev.legit = true) ∧
    s1.core.d.qs.map (fun q => (q.cmds, q.running, q.left)) = [([.fl, .noop], true, 2)] ∧
    s1.core.d.toSend = [.flush 0, .flush 0] ∧
    s2.core.d.qs.map (fun q => (q.cmds, q.running)) = [([], false)] ∧ s2.awake = false := by
  decide

/-- without a GPU the `FlushCommand` completes in the tick that starts it (`completeCommandIfDone` at the end of
    `processFlushCommand`) -/
theorem flush_command_without_gpu_completes (d : D) (i : Nat) (q : Q) (cs : List Cmd)
    (hc : q.cmds = .fl :: cs) (hr : q.running = false) (hg : d.nGpus = 0) :
    (procQ d i q).1 = { q with cmds := cs, running := false, left := 0 } ∧ (procQ d i q).2.2 = true := by
  unfold procQ
  simp [hc, hr, hg]

/-- **Why "no signal is owed" is needed** (and what `C12.K` is for): `Driver.Enqueue` does not wake
    the driver, so right after an enqueue the driver sleeps with a runnable command; the wake-up
    comes from the `enqueueSignal` the application thread still owes (`K.no_lost_wakeup`: some
    thread `willSignal`). The same states occur in every `c12 full` trace (`e.` tokens). -/
theorem signal_owed_hypothesis_needed :
    let s := run {} (init { ctxs := [0] }) [.kick, .tick, .tick, .enq 0 .noop]
    (∃ q ∈ s.core.d.qs, startable q) ∧ s.awake = false ∧ s.owed = true := by
  refine ⟨⟨{ cmds := [.noop] }, by decide, rfl, .noop, [], rfl, rfl⟩, by decide, by decide⟩

/-- **A copy command without any request completes in the tick that starts it** (0 bytes, no dirty
    buffer: no flush request, no page piece) — the hypothesis `o ≠ []` of
    `W.Copy.memcopy_completes_full` is about the bookkeeping of answers only; the repaired
    `processMemCopy…Command` ends with `completeCommandIfDone`, so no queue is ever left running with
    nothing outstanding (`running_queue_waits_for_something`). -/
theorem copy_without_requests_completes (d : D) (i : Nat) (q : Q) (cs : List Cmd) (d2h : Bool)
    (hc : q.cmds = .copy d2h 0 :: cs) (hr : q.running = false) (hcl : (d.dirty[q.ctx]?).getD false = false) :
    (procQ d i q).1 = { q with cmds := cs, running := false, left := 0 } ∧ (procQ d i q).2.2 = true := by
  unfold procQ
  simp [hc, hr, hcl]

/-! non-vacuity: a run with all kinds of work — a kernel, a copy behind it on another queue of the
    same context (flushes), a page migration — in which the driver is awake whenever the theorem
    says so, and goes to sleep at the end with everything done -/
def demo : List Ev :=
  [.enq 0 (.kern 1), .enq 1 (.copy false 2), .kick, .deliverM ⟨1, 1⟩, .tick, .tick, .tick, .retrieveG, .retrieveG, .retrieveG,
   .answer 0, .tick, .tick, .tick, .retrieveG, .retrieveG, .retrieveG, .retrieveG, .answer 0, .answer 0, .answer 0, .answer 0, .answer 0,
   .answer 0, .tick, .tick, .tick, .tick, .tick, .tick, .tick]

example : (∀ ev ∈ demo, ev.legit = true) ∧
    (run {} (init { nGpus := 2, cycH2D := 1, ctxs := [0, 0] }) (demo.take 8)).awake = true ∧
    work {} (run {} (init { nGpus := 2, cycH2D := 1, ctxs := [0, 0] }) (demo.take 8)).core := by
  refine ⟨by decide, by decide, ?_⟩
  right; right; right; left
  decide

/-! ### tie to the source: the table-like facts the models rest on are re-extracted from
    amd/driver on every run (`translate/c12drv.go` → `Gen.C12Drv`); a changed stage order, port or
    channel capacity, a new / removed case of a switch, a handler that returns `false` after taking
    a message, or a command type that gains / loses its handler breaks one of these obligations -/

/-- the stage list of the model is the statement order of `Driver.Tick` (every stage is called
    before `|| madeProgress`, so none is skipped) -/
theorem stage_order_matches_source : stageNames = Gen.C12Drv.tickOrder ∧ (stages {}).length = Gen.C12Drv.tickOrder.length := by
  decide

/-- the default capacities of the model are the arguments of the two `sim.NewPort` calls -/
theorem port_capacities_match_source :
    ({} : Caps) = { gIn := Gen.C12Drv.gpuPortIn, gOut := Gen.C12Drv.gpuPortOut, mIn := Gen.C12Drv.mmuPortIn, mOut := Gen.C12Drv.mmuPortOut } := by
  decide

/-- the message types the model lets `processReturnReq` / the middleware take are the cases of the
    two type switches, and the middleware's response flag REPLACES the timer's flag
    (`mwTick`: the `foreignGen` case returns `false` whatever the delay line did), idle timer = -1 -/
theorem message_switches_match_source :
    returnCaseNames = Gen.C12Drv.returnCases ∧ generalRspNames = Gen.C12Drv.generalRspCases ∧
    Gen.C12Drv.mwRspFlag = "overwrite" ∧ Gen.C12Drv.timerIdle = -1 := by
  decide

/-- (W1) at source level: every function that runs after a message was retrieved from a port has
    only `return true` statements -/
theorem handlers_always_report_progress :
    Gen.C12Drv.handlerReturns.all (fun h => !h.2.isEmpty && h.2.all (· == "true")) = true ∧
    Gen.C12Drv.handlerReturns.length = returnCaseNames.length + generalRspNames.length + 1 := by
  decide

/-- the command types with a handler are the ones the model starts (`FlushCommand` = `Cmd.fl` since the repair);
    no command type is without one (`unhandledCommandNames = []`; before the repair: `FlushCommand`,
    `no_lost_wakeup_any_command_before_fix_refuted`) -/
theorem command_handlers_match_source :
    handledCommandNames = Gen.C12Drv.handledCommandTypes ∧
    Gen.C12Drv.commandTypes.filter (fun t => !Gen.C12Drv.handledCommandTypes.contains t) = unhandledCommandNames := by
  decide

/-- the channel capacities the protocol models (`C12.step`, `C12.K.step`) are written for: the
    listener's `signal` holds ONE notification (`App.token : Bool`), `enqueueSignal` and
    `closeSignal` are unbuffered (rendezvous with `runAsync`) -/
theorem channel_capacities_match_source :
    Gen.C12Drv.listenerSignalCap = 1 ∧ Gen.C12Drv.enqueueSignalCap = 0 ∧ Gen.C12Drv.closeSignalCap = 0 := by
  decide

end Full
end W
end C12
