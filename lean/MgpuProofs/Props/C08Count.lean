import MgpuProofs.Props.C08
/-! # C08 — counting corollaries of the partition theorems

`items_cover` and `lanes_correct` are permutation statements; the corollaries below are the
counting readings a user relies on when sizing buffers or comparing statistics: the number of
enabled lanes equals the number of work-items, for every (partial) work-group and every grid. -/
namespace C08

theorem sum_map_const_range (c n : Nat) : ((List.range n).map fun _ => c).sum = n * c := by
  induction n with
  | zero => simp
  | succ k ih => rw [List.range_succ, List.map_append, List.sum_append, ih]; simp [Nat.succ_mul]

/-- a box of size `sz` has `z·(y·x)` points -/
theorem spawn_length (sz : Coord) : (spawn sz).length = sz.2.2 * (sz.2.1 * sz.1) := by
  unfold spawn
  simp only [List.length_flatMap, List.length_map, List.length_range, sum_map_const_range]

/-- **enabled_lane_count.** The number of enabled lanes over all wavefronts formed for a work-group
    of (possibly partial) size `sz` inside the pitch `wx × wy` equals the number of its work-items:
    no lane is counted twice, none is lost (a mask with a stray or a missing bit changes the sum). -/
theorem enabled_lane_count (wx wy : Nat) (sz : Coord) (hx : sz.1 ≤ wx) (hy : sz.2.1 ≤ wy) :
    ((formWfs wx wy (spawn sz)).map fun w => (lanesOf w.mask).length).sum
      = sz.2.2 * (sz.2.1 * sz.1) := by
  have h := (lanes_correct wx wy sz hx hy).length_eq
  rw [spawn_length] at h
  rw [← h]
  simp only [laneCoords, List.length_flatMap, List.length_map]

/-- **grid_item_count.** The work-items of all produced work-groups number exactly `gx·gy·gz`. -/
theorem grid_item_count (g : Geo) (hv : g.Valid) : (allItems g).length = g.gz * (g.gy * g.gx) := by
  rw [(items_cover g hv).length_eq, spawn_length]

/-- **group_sizes_sum_to_grid.** The sizes of the produced work-groups add up to the grid size
    (partial groups at the upper faces included). -/
theorem group_sizes_sum_to_grid (g : Geo) (hv : g.Valid) :
    ((allWGs g).map fun w => w.sz.2.2 * (w.sz.2.1 * w.sz.1)).sum = g.gz * (g.gy * g.gx) := by
  rw [← grid_item_count g hv]
  simp only [allItems, List.length_flatMap, List.length_map, spawn_length]

/-- non-vacuity: the geometry of the repaired defect (grid 58×4, group 48×4): the partial group
    `10×4` inside pitch 48 enables exactly 40 lanes -/
example : ((formWfs 48 4 (spawn (10, 4, 1))).map fun w => (lanesOf w.mask).length).sum = 40 := by
  decide +kernel

end C08
