import MgpuProofs.C09CUTimingRun
import MgpuProofs.C09CUEmuRun
import MgpuProofs.C09CUEmuTick
/-! # C09 — the compute-unit side of the MapWGReq / WGCompletionMsg protocol

Statements about the models in `MgpuModel/C09_CU.lean`: the timing compute unit at protocol level
(`handleMapWGReq`, `issueToInternal`, `evalSEndPgm`, `evalSBarrier`, `clearWGResource`) and the
emulation compute unit at event level (`processMapWGReq`, `runEmulation`,
`handleWGCompleteEvent` under a time-ordered engine). All statements are for **arbitrary
interleavings** of any number of work-groups (of any number of kernels / dispatchers) on one CU,
arbitrary back-pressure on the outgoing port and arbitrary pool shapes. -/
namespace C09.CUSide

/-! ## timing compute unit -/

/-- two work-groups (2 and 1 wavefronts, two dispatchers) interleaved on a 2-SIMD CU; the port is
    full when the last wavefront of the first group ends for the first time -/
def demoTOps : List TOp :=
  [.map 1 0 [0, 1], .map 2 1 [1], .issue 1 0, .issue 1 1, .issue 2 0, .endp 1 0, .room 0, .endp 1 1,
   .room 1, .endp 1 1]

/-- **Every WGCompletionMsg answers a MapWGReq this CU has taken, carries exactly its id and goes to
    its requester.** For every state reachable by legal interleavings (`TLegal`: fresh request ids
    with ≥ 1 wavefront and SIMD ids of this CU — what the dispatcher's pool guarantees; only Ready
    wavefronts are issued, only issued wavefronts are evaluated — what the CU's arbiters do). -/
theorem cu_completion_answers_a_request {s : TState} (h : TReach s) :
    ∀ p ∈ s.sent, ∃ g ∈ s.wgs, g.id = p.1 ∧ g.src = p.2 :=
  (treach_inv h).sentKnown

example : (trun (tinit [2, 2] 1) demoTOps).sent = [(1, 0)] := by decide

/-- **Sent ⇔ all wavefronts Completed, at most once.** In every reachable state, for every mapped
    request: its completion message is in the trace iff every one of its wavefronts is Completed;
    the trace never holds two messages for one request; no `panic("never")`. -/
theorem cu_completion_iff_all_wavefronts_completed {s : TState} (h : TReach s) :
    (∀ g ∈ s.wgs, g.id ∈ sentIds s ↔ AllDone g) ∧ (sentIds s).Nodup ∧ s.fault = none :=
  ⟨(treach_inv h).sentIff, (treach_inv h).sentNodup, (treach_inv h).noFault⟩

example : TReach (trun (tinit [2, 2] 1) demoTOps) := treach_run (TReach.init _ _) _ (by decide)

/-- **The message is sent by the last wavefront, with the pools cleared in the same step.** When an
    `s_endpgm` evaluation extends the trace, all other wavefronts of the group were Completed, the
    new entry is exactly `(id, requester)`, afterwards the whole group is Completed and none of
    its wavefronts is left in any pool. -/
theorem cu_completion_only_with_last_wavefront {s : TState} (h : TReach s) (id w : Nat)
    (hL : TLegal s (.endp id w)) (hsent : (tstep s (.endp id w)).sent ≠ s.sent) :
    ∃ g0, findWG s id = some g0 ∧ OthersDone g0.wfs w ∧
      (tstep s (TOp.endp id w)).sent = s.sent ++ [(id, g0.src)] ∧
      (∀ g ∈ (tstep s (TOp.endp id w)).wgs, g.id = id → AllDone g) ∧
      ∀ (sd : Nat) (l : List (Nat × Nat)), (tstep s (TOp.endp id w)).pools[sd]? = some l → ∀ p ∈ l, p.1 ≠ id := by
  have hI := treach_inv h
  have hI' := tinv_step hI _ hL
  obtain ⟨g0, x0, hf, hx0, _⟩ := legal_found hL
  have hw : ¬ g0.wfs.length ≤ w := by
    have := (List.getElem?_eq_some_iff.mp hx0).1; omega
  have hstep : tstep s (.endp id w) = (endPgm s id w).1 := by
    unfold tstep; rw [hI.noFault]; rfl
  rw [hstep] at hsent hI' ⊢
  have hsentIn : id ∈ sentIds (endPgm s id w).1 ∧ OthersDone g0.wfs w ∧
      (endPgm s id w).1.sent = s.sent ++ [(id, g0.src)] := by
    unfold endPgm at hsent ⊢
    simp only [hf, hw, if_false] at hsent ⊢
    rcases endBranch_cases g0 w s.room with ⟨hothers, ⟨_, hb⟩ | ⟨_, hb⟩⟩ | ⟨_, hb | hb | ⟨hb, _⟩⟩
    · rw [hb] at hsent; exact absurd rfl hsent
    · rw [hb]; exact ⟨by simp [sentIds], hothers, rfl⟩
    · rw [hb] at hsent; exact absurd rfl hsent
    · rw [hb] at hsent; exact absurd rfl hsent
    · rw [hb] at hsent; exact absurd rfl hsent
  refine ⟨g0, hf, hsentIn.2.1, hsentIn.2.2, ?_, ?_⟩
  · intro g hg hgid
    exact (hI'.sentIff g hg).mp (by rw [hgid]; exact hsentIn.1)
  · intro sd l hl p hp hpid
    obtain ⟨sh, _, hns, hr⟩ := ((hI'.pool sd l hl).2 p).mp hp
    exact hns (by rw [← hr.1, hpid]; exact hsentIn.1)

/-- **Pool occupancy = the wavefronts of the not-yet-answered work-groups.** In every reachable
    state every wavefront pool is duplicate-free and holds `(id, w)` iff request `id` is mapped,
    unanswered and placed its wavefront `w` on that SIMD. -/
theorem cu_pool_holds_unanswered_wavefronts {s : TState} (h : TReach s) (sd : Nat) (l : List (Nat × Nat))
    (hl : s.pools[sd]? = some l) :
    l.Nodup ∧ ∀ p, p ∈ l ↔ ∃ g ∈ s.wgs, g.id ∉ sentIds s ∧ p.1 = g.id ∧ (g.wfs[p.2]?.map (·.simd)) = some sd := by
  obtain ⟨hnd, hmem⟩ := (treach_inv h).pool sd l hl
  refine ⟨hnd, fun p => ?_⟩
  rw [hmem p]
  constructor
  · rintro ⟨sh, hsh, hns, h1, h2⟩
    obtain ⟨g, hg, rfl⟩ := List.mem_map.mp hsh
    exact ⟨g, hg, hns, h1, by simpa using h2⟩
  · rintro ⟨g, hg, hns, h1, h2⟩
    exact ⟨(g.id, g.wfs.map (·.simd)), List.mem_map.mpr ⟨g, hg, rfl⟩, hns, h1, by simpa using h2⟩

example : (trun (tinit [2, 2] 1) demoTOps).pools = [[], [(2, 0)]] := by decide

/-- **Never above capacity when the dispatcher respects its slot counts.** `book` is the
    dispatcher's list of wavefront slots in use on SIMD `sd` (C09's `Inv`: free slots + resident
    wavefronts = pool size, so `book.length ≤ cap`): it holds every wavefront of every MapWGReq
    whose completion has not been sent (the dispatcher frees slots only on the WGCompletionMsg).
    Then the CU's pool is not longer than the book — `AddWf` itself never checks. -/
theorem cu_pool_within_capacity {s : TState} (h : TReach s) (sd cap : Nat) (l book : List (Nat × Nat))
    (hl : s.pools[sd]? = some l)
    (hbook : ∀ g ∈ s.wgs, g.id ∉ sentIds s → ∀ w x, g.wfs[w]? = some x → x.simd = sd → (g.id, w) ∈ book)
    (hcap : book.length ≤ cap) : l.length ≤ cap := by
  obtain ⟨hnd, hmem⟩ := cu_pool_holds_unanswered_wavefronts h sd l hl
  refine Nat.le_trans (length_le_of_nodup_subset l book hnd ?_) hcap
  intro p hp
  obtain ⟨g, hg, hns, h1, h2⟩ := (hmem p).mp hp
  cases hx : g.wfs[p.2]? with
  | none => simp [hx] at h2
  | some x =>
    have := hbook g hg hns p.2 x hx (by simpa [hx] using h2)
    rw [← h1] at this
    exact this

/-- **Liveness step.** A legal `s_endpgm` evaluation never panics and makes progress unless the
    port is full: either the wavefront is the last one and the port is full (nothing changes, it is
    evaluated again next cycle), or the wavefront is Completed afterwards; if it is the last one
    and the port has room its MapWGReq is answered in this very step. So if every wavefront
    eventually reaches `s_endpgm` and the port eventually has room, every MapWGReq is answered. -/
theorem cu_endpgm_progress {s : TState} (h : TReach s) (id w : Nat) (hL : TLegal s (.endp id w)) :
    (tstep s (.endp id w)).fault = none ∧
    ((s.room = 0 ∧ tstep s (.endp id w) = s ∧ ∃ g0, findWG s id = some g0 ∧ OthersDone g0.wfs w) ∨
     (wfSt (tstep s (.endp id w)) id w = some .done ∧
      ((∃ g0, findWG s id = some g0 ∧ OthersDone g0.wfs w) → id ∈ sentIds (tstep s (.endp id w))))) := by
  have hI := treach_inv h
  have hI' := tinv_step hI _ hL
  refine ⟨hI'.noFault, ?_⟩
  obtain ⟨g0, x0, hf, hx0, hrun⟩ := legal_found hL
  have hw : ¬ g0.wfs.length ≤ w := by
    have := (List.getElem?_eq_some_iff.mp hx0).1; omega
  have hstep : tstep s (.endp id w) = (endPgm s id w).1 := by
    unfold tstep; rw [hI.noFault]; rfl
  have hany : (g0.wfs.any fun x => decide (x.st = .running ∨ x.st = .ready)) = true :=
    List.any_eq_true.mpr ⟨x0, List.mem_of_getElem? hx0, by simp [hrun]⟩
  rw [hstep] at hI' ⊢
  have hfm := found hf
  -- the state of wavefront `w` after an update that sets it to Completed
  have hdone : ∀ (f : WG → WG) (s' : TState), s'.wgs = s.wgs.map (fun g => if g.id = id then f g else g) →
      (f g0).id = id → (f g0).wfs[w]?.map (·.st) = some .done → wfSt s' id w = some .done := by
    intro f s' hs' hfid hfw
    unfold wfSt findWG
    rw [hs']
    have : (s.wgs.map (fun g => if g.id = id then f g else g)).find? (fun g => decide (g.id = id)) = some (f g0) :=
      find_map_upd s.wgs id f g0 hfid hf
    rw [this]
    simpa using hfw
  unfold endPgm
  simp only [hf, hw, if_false]
  rcases endBranch_cases g0 w s.room with ⟨hothers, ⟨hroom, hb⟩ | ⟨_, hb⟩⟩ | ⟨hnot, hb | hb | ⟨_, hb⟩⟩
  · left; rw [hb]; exact ⟨hroom, rfl, g0, rfl, hothers⟩
  · right
    rw [hb]
    refine ⟨hdone (fun g => { g with wfs := setSt g.wfs w .done }) _ rfl hfm.2 ?_, fun _ => by simp [sentIds]⟩
    show (setSt g0.wfs w .done)[w]?.map (·.st) = some .done
    rw [setSt_get]; simp [hx0]
  · right
    rw [hb]
    refine ⟨hdone (fun g => { g with wfs := setSt (release g.wfs) w .done }) _ rfl hfm.2 ?_, ?_⟩
    · show (setSt (release g0.wfs) w .done)[w]?.map (·.st) = some .done
      rw [setSt_get, release_get]; simp [hx0]
    · rintro ⟨g1, hg1, ho⟩
      cases hg1
      exact absurd ho hnot
  · right
    rw [hb]
    refine ⟨hdone (fun g => { g with wfs := setSt g.wfs w .done }) _ rfl hfm.2 ?_, ?_⟩
    · show (setSt g0.wfs w .done)[w]?.map (·.st) = some .done
      rw [setSt_get]; simp [hx0]
    · rintro ⟨g1, hg1, ho⟩
      cases hg1
      exact absurd ho hnot
  · rw [hany] at hb; cases hb

/-- port full: the last wavefront of request 1 stays Running, nothing is sent -/
example : TLegal (trun (tinit [2, 2] 1) (demoTOps.take 7)) (.endp 1 1) ∧
    (trun (tinit [2, 2] 1) (demoTOps.take 7)).room = 0 ∧
    (tstep (trun (tinit [2, 2] 1) (demoTOps.take 7)) (.endp 1 1)).sent = [] ∧
    wfSt (tstep (trun (tinit [2, 2] 1) (demoTOps.take 7)) (.endp 1 1)) 1 1 = some .running := by decide

/-- room again: sent, Completed, both wavefronts of request 1 leave their pools -/
example : TLegal (trun (tinit [2, 2] 1) (demoTOps.take 9)) (.endp 1 1) ∧
    (trun (tinit [2, 2] 1) (demoTOps.take 9)).pools = [[(1, 0)], [(1, 1), (2, 0)]] ∧
    (tstep (trun (tinit [2, 2] 1) (demoTOps.take 9)) (.endp 1 1)).sent = [(1, 0)] ∧
    (tstep (trun (tinit [2, 2] 1) (demoTOps.take 9)) (.endp 1 1)).pools = [[], [(2, 0)]] := by decide

/-! ## emulation compute unit

`handleWGCompleteEvent` as repaired by `fix:` 776c38a7 (`wgComplete`; the code before the repair is
`wgCompleteOld`, run by `erunOld`). Time is counted in cycles, `P` cycles per second (10^9 shipped).
Environments, from strong to weak: `EOk` = fresh MapWGReq ids, events fired in time order with
**any** tie-break (`Legal`; Akita's serial engine pops a binary heap, which is neither
first-in-first-out nor last-in-first-out among equal times) and hypothesis **H**: no MapWGReq is
taken by a Tick that falls exactly on a whole second (`Ceil(now) == now`, the emulation event is
scheduled for `now` itself); `EOkNoH` = the same without H; `EOkAnyOrder` = fresh ids, H, pending
events fired in ANY order; `EOkLoose` = fresh ids and "a WGCompleteEvent fires only if it is
pending", nothing else. Before the repair exactly-once needed `EOk`; now `EOkLoose` suffices. -/

/-- shipped clock: two work-groups, the port is full when the first completes -/
def demoEOps : List EOp :=
  [.deliver 1, .tick 1, .emu 1000000000, .fill, .wgc 1000000001 1, .deliver 2, .wgc 1000000002 1,
   .tick 1000000002, .wgc 1000000003 1, .take, .tick 1000000004, .emu 2000000000, .wgc 2000000001 2, .take,
   .tick 2000000002]

/-- the run reproduced on the real `emu.ComputeUnit` under the real `sim.SerialEngine` with
    `cu.Freq` = 1 Hz (every cycle is a whole second): request 2 is taken at t = 4 while the retry
    of request 1 is pending; both completion events tie at t = 5 and the heap pops request 2 first -/
def wholeSecondOps : List EOp :=
  [.deliver 1, .fill, .tick 1, .emu 1, .wgc 2 1, .wgc 3 1, .deliver 2, .wgc 4 1, .tick 4, .take, .emu 4,
   .tick 5, .wgc 5 2, .take, .take, .wgc 5 1]

/-- shipped clock, no request taken at a whole second, but the emulation event of request 2
    (t = 2 s) is fired before the pending retry of request 1 (t = 1 s + 2 cycles) -/
def anyOrderOps : List EOp :=
  [.deliver 1, .tick 1, .emu 1000000000, .fill, .wgc 1000000001 1, .deliver 2, .tick 1000000002,
   .emu 2000000000, .take, .wgc 2000000001 2, .take, .wgc 1000000002 1]

/-- **Every MapWGReq is answered exactly once** — time-ordered engine, any tie-break, requests may
    be taken at any time, whole seconds included (no hypothesis H). After every run: no id occurs
    twice in all the WGCompletionMsgs sent (neither inside one message nor across messages), every
    id sent is the id of a MapWGReq the CU has taken, and once no emulation / completion event is
    pending every MapWGReq taken is in a message (hence in exactly one, once) and the CU's
    bookkeeping (`wfs`, `finishedMapWGReqs`, queue) is empty. -/
theorem emu_exactly_once (P incap outcap : Nat) (hP : 0 < P) (ops : List EOp)
    (hr : RunOk EOkNoH (einit P incap outcap) ops) :
    (flat (erun (einit P incap outcap) ops)).Nodup ∧
    (∀ x ∈ flat (erun (einit P incap outcap) ops), x ∈ (erun (einit P incap outcap) ops).got) ∧
    ((erun (einit P incap outcap) ops).emus = [] → (erun (einit P incap outcap) ops).wgcs = [] →
      (∀ x ∈ (erun (einit P incap outcap) ops).got, x ∈ flat (erun (einit P incap outcap) ops)) ∧
      (erun (einit P incap outcap) ops).wfs = [] ∧ (erun (einit P incap outcap) ops).finished = [] ∧
      (erun (einit P incap outcap) ops).queue = []) := by
  have h := ninv_run (ninv_init P incap outcap) ops (runOk_mono (fun _ _ => eokNoH_loose) _ _ hr)
  have hT := etime_run (etime_init P incap outcap hP) ops hr
  refine ⟨h.core.sent_nd, h.core.sent_got, fun he hw => ?_⟩
  obtain ⟨hq, hwf, hf, hall⟩ := einv_quiescent h hT he hw
  exact ⟨hall, hwf, hf, hq⟩

/-- the former counter-example is a run the theorem covers: request 2 taken at a whole second, the
    retry of request 1 popped after the first event of request 2 — one message, each id once -/
example : RunOk EOkNoH (einit 1 1 1) wholeSecondOps ∧ (erun (einit 1 1 1) wholeSecondOps).sent = [[1, 2]] ∧
    (erun (einit 1 1 1) wholeSecondOps).got = [1, 2] ∧
    (erun (einit 1 1 1) wholeSecondOps).emus = [] ∧ (erun (einit 1 1 1) wholeSecondOps).wgcs = [] := by
  decide

/-- the same under hypothesis H (the strongest statement that held before the repair) -/
theorem emu_exactly_once_partial (P incap outcap : Nat) (hP : 0 < P) (ops : List EOp)
    (hr : RunOk EOk (einit P incap outcap) ops) :
    (flat (erun (einit P incap outcap) ops)).Nodup ∧
    (∀ x ∈ flat (erun (einit P incap outcap) ops), x ∈ (erun (einit P incap outcap) ops).got) ∧
    ((erun (einit P incap outcap) ops).emus = [] → (erun (einit P incap outcap) ops).wgcs = [] →
      (∀ x ∈ (erun (einit P incap outcap) ops).got, x ∈ flat (erun (einit P incap outcap) ops)) ∧
      (erun (einit P incap outcap) ops).wfs = [] ∧ (erun (einit P incap outcap) ops).finished = [] ∧
      (erun (einit P incap outcap) ops).queue = []) :=
  emu_exactly_once P incap outcap hP ops (runOk_mono (fun _ _ => eok_noH) _ _ hr)

example : RunOk EOk (einit 1000000000 1 1) demoEOps ∧
    (erun (einit 1000000000 1 1) demoEOps).sent = [[1, 2]] ∧
    (erun (einit 1000000000 1 1) demoEOps).got = [1, 2] ∧
    (erun (einit 1000000000 1 1) demoEOps).emus = [] ∧ (erun (einit 1000000000 1 1) demoEOps).wgcs = [] := by
  decide

/-- **No accepted MapWGReq is left behind** (time-ordered engine, any tie-break, no hypothesis H).
    With the shipped incoming-buffer capacity of 1, a MapWGReq sitting in `ToDispatcher` always has
    a Tick pending (`TickLater` on delivery; `Tick` handles one message and returns false, so a
    second buffered message would never wake the CU — capacity 1 is what makes this safe). Hence
    when the event list is empty the buffer is empty too, and every request the port ever
    accepted has been taken and is in exactly one message. -/
theorem emu_quiescent_means_all_answered (P outcap : Nat) (hP : 0 < P) (ops : List EOp)
    (hr : RunOk EOkNoH (einit P 1 outcap) ops)
    (ht : (erun (einit P 1 outcap) ops).ticks = []) (he : (erun (einit P 1 outcap) ops).emus = [])
    (hw : (erun (einit P 1 outcap) ops).wgcs = []) :
    (erun (einit P 1 outcap) ops).inbuf = [] ∧
    (∀ x ∈ (erun (einit P 1 outcap) ops).got, x ∈ flat (erun (einit P 1 outcap) ops)) ∧
    (flat (erun (einit P 1 outcap) ops)).Nodup := by
  have hI := ninv_run (ninv_init P 1 outcap) ops (runOk_mono (fun _ _ => eokNoH_loose) _ _ hr)
  have hT := etime_run (etime_init P 1 outcap hP) ops hr
  have hK := kinv_run (kinv_init P outcap) (etime_init P 1 outcap hP) ops hr
  refine ⟨?_, (einv_quiescent hI hT he hw).2.2.2, hI.core.sent_nd⟩
  false_or_by_contra
  rename_i hc
  exact hK.in_tick hc ht

example : (erun (einit 1000000000 1 1) demoEOps).ticks = [] ∧ (erun (einit 1000000000 1 1) demoEOps).inbuf = [] ∧
    RunOk EOkNoH (einit 1000000000 1 1) demoEOps := by
  decide

/-- the full statement: no hypothesis H -/
def emu_exactly_once_full : Prop :=
  ∀ (P incap outcap : Nat) (ops : List EOp), 0 < P → RunOk EOkNoH (einit P incap outcap) ops →
    (flat (erun (einit P incap outcap) ops)).Nodup

/-- **The full statement holds for the repaired code** (it was refuted before, see below). -/
theorem emu_exactly_once_full_holds : emu_exactly_once_full :=
  fun P incap outcap ops hP hr => (emu_exactly_once P incap outcap hP ops hr).1

/-- the full statement about the code BEFORE the repair (`erunOld` runs `wgCompleteOld`) -/
def emu_exactly_once_full_before_fix : Prop :=
  ∀ (P incap outcap : Nat) (ops : List EOp), 0 < P → RunOkOld EOkNoH (einit P incap outcap) ops →
    (flat (erunOld (einit P incap outcap) ops)).Nodup

/-- **Before the repair the statement was false without H**: a retry `WGCompleteEvent` of request 1
    that ties with the first `WGCompleteEvent` of a request taken at a whole second may fire after
    it; the batch `[1, 2]` has been sent and `finishedMapWGReqs` cleared, so request 1 was appended
    again and answered a second time. At 1 GHz this needs one simulated second of back-pressure.
    (Kept so that the witness stays stated; the harness replays it on the real code and now expects
    one answer per request.) -/
theorem emu_exactly_once_full_before_fix_refuted : ¬ emu_exactly_once_full_before_fix := by
  intro h
  have := h 1 1 1 wholeSecondOps (by decide) (by decide)
  revert this
  decide

example : (erunOld (einit 1 1 1) wholeSecondOps).sent = [[1, 2], [1]] := by decide
example : (erun (einit 1 1 1) wholeSecondOps).sent = [[1, 2]] := by decide

/-- the same with hypothesis H but events fired in ANY order -/
def emu_exactly_once_anyorder_full : Prop :=
  ∀ (P incap outcap : Nat) (ops : List EOp), 0 < P → RunOk EOkAnyOrder (einit P incap outcap) ops →
    (flat (erun (einit P incap outcap) ops)).Nodup

/-- **Exactly-once bookkeeping whatever the order of events** (`EOkLoose`: fresh ids; a
    WGCompleteEvent fires only if pending; Ticks and emulation events at any time, in any order).
    No id occurs twice in all the messages, every id sent was taken, and when no completion event
    is pending and nothing is queued, every request taken is in a message and `wfs` /
    `finishedMapWGReqs` are empty. (That the queue empties needs the time order:
    `emu_anyorder_can_strand_the_queue`.) -/
theorem emu_exactly_once_anyorder (P incap outcap : Nat) (ops : List EOp)
    (hr : RunOk EOkLoose (einit P incap outcap) ops) :
    (flat (erun (einit P incap outcap) ops)).Nodup ∧
    (∀ x ∈ flat (erun (einit P incap outcap) ops), x ∈ (erun (einit P incap outcap) ops).got) ∧
    ((erun (einit P incap outcap) ops).wgcs = [] → (erun (einit P incap outcap) ops).queue = [] →
      (∀ x ∈ (erun (einit P incap outcap) ops).got, x ∈ flat (erun (einit P incap outcap) ops)) ∧
      (erun (einit P incap outcap) ops).wfs = [] ∧ (erun (einit P incap outcap) ops).finished = []) := by
  have h := ninv_run (ninv_init P incap outcap) ops hr
  refine ⟨h.core.sent_nd, h.core.sent_got, fun hw hq => ?_⟩
  obtain ⟨hwf, hf, hall⟩ := ninv_quiescent h hw hq
  exact ⟨hall, hwf, hf⟩

example : RunOk EOkLoose (einit 1000000000 1 1) anyOrderOps ∧
    (erun (einit 1000000000 1 1) anyOrderOps).sent = [[1, 2]] ∧
    (erun (einit 1000000000 1 1) anyOrderOps).wgcs = [] ∧ (erun (einit 1000000000 1 1) anyOrderOps).queue = [] := by
  decide

/-- **The any-order statement holds for the repaired code**: the time order is no longer needed
    for "no request answered twice". -/
theorem emu_exactly_once_anyorder_full_holds : emu_exactly_once_anyorder_full :=
  fun P incap outcap ops _ hr =>
    (emu_exactly_once_anyorder P incap outcap ops (runOk_mono (fun _ _ => eokAnyOrder_loose) _ _ hr)).1

/-- the any-order statement about the code BEFORE the repair -/
def emu_exactly_once_anyorder_full_before_fix : Prop :=
  ∀ (P incap outcap : Nat) (ops : List EOp), 0 < P → RunOkOld EOkAnyOrder (einit P incap outcap) ops →
    (flat (erunOld (einit P incap outcap) ops)).Nodup

/-- **Before the repair the time order was necessary**: with events in arbitrary order the retry of
    request 1 could fire after the batch `[1, 2]` and request 1 was answered twice. -/
theorem emu_exactly_once_anyorder_full_before_fix_refuted : ¬ emu_exactly_once_anyorder_full_before_fix := by
  intro h
  have := h 1000000000 1 1 anyOrderOps (by decide) (by decide)
  revert this
  decide

example : (erunOld (einit 1000000000 1 1) anyOrderOps).sent = [[1, 2], [1]] := by decide
example : (erun (einit 1000000000 1 1) anyOrderOps).sent = [[1, 2]] := by decide

/-- **What survives any event order: no unknown id.** Every id in every WGCompletionMsg is the id of
    a MapWGReq the CU has taken (part of `emu_exactly_once_anyorder`; statement kept from before
    the repair, when it was all that survived). -/
theorem emu_exactly_once_anyorder_partial (P incap outcap : Nat) (ops : List EOp)
    (hr : RunOk EOkAnyOrder (einit P incap outcap) ops) :
    ∀ x ∈ flat (erun (einit P incap outcap) ops), x ∈ (erun (einit P incap outcap) ops).got :=
  (emu_exactly_once_anyorder P incap outcap ops (runOk_mono (fun _ _ => eokAnyOrder_loose) _ _ hr)).2.1

example : RunOk EOkAnyOrder (einit 1000000000 1 1) anyOrderOps := by decide

/-- the emulation event of t = 1 s is fired before the Tick of cycle 2 that takes request 2: the
    Tick sees `nextTick` = 1 s in its future and schedules nothing -/
def strandOps : List EOp :=
  [.deliver 1, .tick 1, .deliver 2, .emu 1000000000, .tick 2, .wgc 1000000001 1]

/-- **Progress does need the time order** (unchanged by the repair): with events in arbitrary order
    a Tick can run "before" an emulation event that has already fired, relies on it and leaves its
    request queued with no event pending — nothing is answered, though nothing is answered twice.
    A time-ordered engine excludes this (`emu_exactly_once`, `emu_quiescent_means_all_answered`). -/
theorem emu_anyorder_can_strand_the_queue :
    RunOk EOkAnyOrder (einit 1000000000 1 1) strandOps ∧
    (erun (einit 1000000000 1 1) strandOps).ticks = [] ∧ (erun (einit 1000000000 1 1) strandOps).emus = [] ∧
    (erun (einit 1000000000 1 1) strandOps).wgcs = [] ∧ (erun (einit 1000000000 1 1) strandOps).queue = [2] ∧
    (erun (einit 1000000000 1 1) strandOps).got = [1, 2] ∧ (erun (einit 1000000000 1 1) strandOps).sent = [] := by
  decide

end C09.CUSide
