import MgpuProofs.C13Writer
import MgpuProofs.Props.C13Elf
import MgpuProofs.Props.C13Frame
/-!
# C13 — a general ELF writer and `parse (writeElf spec) = spec`

`Elf.writeElf : Spec → Bytes` (`MgpuModel/C13Frame.lean`) writes an ELF64 little-endian file
from a description: free header fields, any list of sections (name, type, flags, address, link,
contents — `.text`, `.rodata`, anything else) and any list of symbols (name, value, size, section
index).  It adds the null section, `.symtab`, `.strtab`, `.shstrtab`, lays the contents out and
computes every offset and name index.  For **every** description that passes the decidable
predicate `Elf.specWF` the model of `debug/elf` reads back exactly the description.
-/
namespace C13

/-- **raw_roundtrip.** The header level: for any list of section headers whose fields fit their
widths (`Elf.rawWF`) and any payload, `elf.NewFile`'s header pass returns exactly these headers and
this `shstrndx`, and reads of the payload area return the payload. -/
theorem raw_roundtrip (r : Elf.Raw) (h : Elf.rawWF r = true) :
    Elf.parseHeaders (Elf.writeRaw r) = .ok r.shs r.shstrndx ∧
    ∀ o z, Elf.readAt (Elf.writeRaw r) (64 + 64 * r.shs.length + o) z = Elf.readAt r.blob o z :=
  ⟨Elf.parseHeaders_writeRaw r h, Elf.readAt_writeRaw r⟩

/-- **writer_roundtrip.** `parse (writeElf spec) = spec`: for every well-formed description,
`elf.NewFile` returns the described sections (names, types, flags, addresses, links, with the
offsets/sizes the writer chose), `Symbols()` returns the described symbols in order, and
`Section.Data()` of every section returns the described contents. -/
theorem writer_roundtrip (sp : Elf.Spec) (h : Elf.specWF sp = true) :
    Elf.parse (Elf.writeElf sp) = .ok (Elf.specSecs sp) ∧
    Elf.symbolsOf (Elf.writeElf sp) (Elf.specSecs sp) = .ok (Elf.specSyms sp) ∧
    Elf.sectionsOf (Elf.writeElf sp) (Elf.specSecs sp) = (Elf.specView sp).sections := by
  have h' := (Elf.specWF_iff sp).1 h
  exact ⟨Elf.parse_writeElf' sp h', Elf.symbolsOf_writeElf' sp h', Elf.sectionsOf_writeElf' sp h'⟩

/-- **writer_load.** Loading from the written file is loading from the description: the whole
file layer (`LoadKernelCodeObjectFromBytes`) collapses to the view-level loader on `specView`, so
every view-level theorem (`bytes_exact`, `v5_precedence`, `order_and_neighbours_irrelevant`, …)
speaks about files for all well-formed descriptions, not only for instances. -/
theorem writer_load (sp : Elf.Spec) (h : Elf.specWF sp = true) (k : String) :
    Elf.loadBytes (Elf.writeElf sp) k = some (loadKernel (Elf.specView sp) k) := by
  obtain ⟨h1, h2, h3⟩ := writer_roundtrip sp h
  unfold Elf.loadBytes
  rw [h1]
  simp only [h2, Elf.viewOf, h3]
  rfl

/-! ### non-vacuity: a description with `.text` at 0x1000 (8 bytes), an unrelated `.note` section,
one kernel symbol `k` = 0x1002 (4 bytes, section 1) -/

def exSpec : Elf.Spec :=
  { etype := 1, machine := 224, entry := 0, eflags := 0
    secs := [{ name := [46, 116, 101, 120, 116], type := 1, flags := 6, addr := 0x1000, link := 0,
               data := [1, 2, 3, 4, 5, 6, 7, 8] },
             { name := [46, 110, 111, 116, 101], type := 7, flags := 2, addr := 0x200, link := 0,
               data := [9, 9, 9] }]
    syms := [{ name := [107], value := 0x1002, size := 4, shndx := 1 }] }

theorem exSpec_wf : Elf.specWF exSpec = true := by decide +kernel

example : (Elf.writeElf exSpec).length = 549 := by decide +kernel

/-- the theorem on the instance, and the same answer computed by running the parser model on the
written bytes (an independent check of the statement) -/
example : Elf.parse (Elf.writeElf exSpec) = .ok (Elf.specSecs exSpec) := (writer_roundtrip exSpec exSpec_wf).1
example : Elf.parse (Elf.writeElf exSpec) = .ok (Elf.specSecs exSpec) := by decide +kernel
example : Elf.symbolsOf (Elf.writeElf exSpec) (Elf.specSecs exSpec) = .ok [⟨"k", 0x1002, 4, 1⟩] :=
  (writer_roundtrip exSpec exSpec_wf).2.1

example : Elf.loadBytes (Elf.writeElf exSpec) "k" =
    some (.ok { data := [3, 4, 5, 6], md := {}, version := 5, sym := some ⟨"k", 0x1002, 4, 1⟩ }) := by
  rw [writer_load exSpec exSpec_wf]; decide +kernel

example : Elf.rawWF (Elf.layout exSpec) = true := by decide +kernel
example : Elf.parseHeaders (Elf.writeRaw (Elf.layout exSpec)) = .ok (Elf.layout exSpec).shs 5 :=
  (raw_roundtrip _ (by decide +kernel)).1

/-- the predicate is not vacuous the other way either: a name with a NUL byte, a second symbol
table, a non-empty `SHT_NOBITS` section are refused -/
example : Elf.specWF { exSpec with secs := [{ name := [46, 0, 116], type := 1, flags := 0, addr := 0, link := 0, data := [] }] } = false ∧
    Elf.specWF { exSpec with secs := [{ name := [46], type := 2, flags := 0, addr := 0, link := 0, data := [] }] } = false ∧
    Elf.specWF { exSpec with secs := [{ name := [46], type := 8, flags := 0, addr := 0, link := 0, data := [1] }] } = false := by
  decide +kernel

/-! ### writer and frame together: two kernels with descriptors -/

/-- `.rodata` at 0x400 with two 64-byte descriptors, `.text` at 0x1000 with kernels `a` (4 bytes)
and `b` (8 bytes), symbols `b`, `a.kd`, `a`, `b.kd` -/
def twoSpec : Elf.Spec :=
  { etype := 3, machine := 224, entry := 0, eflags := 0
    secs := [{ name := [46, 114, 111, 100, 97, 116, 97], type := 1, flags := 2, addr := 0x400, link := 0,
               data := List.replicate 64 1 ++ List.replicate 64 2 },
             { name := [46, 116, 101, 120, 116], type := 1, flags := 6, addr := 0x1000, link := 0,
               data := [0, 1, 2, 3, 0, 5, 6, 7, 8, 9, 10, 11] }]
    syms := [{ name := [98], value := 0x1004, size := 8, shndx := 2 },
             { name := [97, 46, 107, 100], value := 0x400, size := 64, shndx := 1 },
             { name := [97], value := 0x1000, size := 4, shndx := 2 },
             { name := [98, 46, 107, 100], value := 0x440, size := 64, shndx := 1 }] }

def twoFile : Bytes := Elf.writeElf twoSpec
/-- kernel `b`'s first code byte and a byte of `b`'s descriptor overwritten -/
def twoPoked : Bytes := Elf.poke (Elf.poke twoFile (Elf.baseOff twoSpec + 128 + 5) 0xEE) (Elf.baseOff twoSpec + 64 + 4) 0xEE

theorem twoSpec_wf : Elf.specWF twoSpec = true := by decide +kernel

/-- both hypotheses of `file_frame_named` for kernel `a`; the descriptor and the symbol range are listed -/
theorem twoPoked_agrees : twoPoked ≠ twoFile ∧ Elf.AgreeOn twoFile twoPoked (Elf.namedRanges twoFile "a") ∧
    (Elf.baseOff twoSpec, 64) ∈ Elf.namedRanges twoFile "a" ∧
    (Elf.baseOff twoSpec + 128, 4) ∈ Elf.namedRanges twoFile "a" := by decide +kernel

/-- `a` loads from the damaged file exactly as the description says (writer + frame + view-level
loader), while `b` does not load the same -/
example : Elf.loadBytes twoPoked "a" = some (loadKernel (Elf.specView twoSpec) "a") := by
  rw [file_frame_named twoFile twoPoked "a" twoPoked_agrees.2.1]; exact writer_load twoSpec twoSpec_wf "a"
example : (match loadKernel (Elf.specView twoSpec) "a" with
      | .ok r => r.data == [0, 1, 2, 3] && r.version == 5
      | _ => false) = true ∧
    Elf.loadBytes twoPoked "b" ≠ Elf.loadBytes twoFile "b" := by
  decide +kernel

end C13
