import MgpuProofs.C12_Wake
/-!
# C12 (driver sleep/wake) — the driver is never asleep while something is left to do

`C12.W.step` is Akita's rule for a ticking component — the next tick is scheduled only when `Tick`
reported progress; a sleeping component is woken only by a delivery into an EMPTY incoming buffer,
by the outgoing buffer leaving the FULL state, or by `runAsync`'s `TickLater` — with `Driver.Tick`
as the OR of the progress flags of its stages. `no_lost_wakeup_generic` holds for every component
whose stages meet the explicit hypothesis list `TickHyps` (W1–W4); `Drv.tickHyps` proves the list for
the transcribed stages of `Driver.Tick`, `no_lost_wakeup` is the resulting unconditional statement,
and `no_lost_wakeup_lazy_refuted` shows that dropping (W1) for one stage ("consumed a message,
reported no progress") loses a wake-up — the input class `harness/c12_wake.go` replays on the real code.
-/
namespace C12
namespace W

/-- **No lost wake-up, any ticking component.** If the stages of `Tick` satisfy
    (W1) no progress reported ⇒ nothing changed, (W2) work ⇒ some stage reports progress,
    (W3) a waiting input message is work, (W4) work looks at the outgoing buffer only for room,
    then after ANY sequence of deliveries, retrievals, enqueues, `runAsync` kicks and tick events:
    whenever work is left, a tick is scheduled — or an application thread that changed the queues
    still owes its signal (which `C12.K` shows it always delivers). -/
theorem no_lost_wakeup_generic {D I O : Type} (inCap outCap : Nat) (stages : List (Stage D I O))
    (work : Core D I O → Prop) (hy : TickHyps stages outCap work) (s0 : Sys D I O)
    (h0 : work s0.core → s0.awake = true ∨ s0.owed = true) (evs : List (Ev D I O)) :
    work (run inCap outCap stages s0 evs).core →
      (run inCap outCap stages s0 evs).awake = true ∨ (run inCap outCap stages s0 evs).owed = true :=
  winv_run inCap outCap stages work hy evs s0 h0

namespace Drv

/-- **The hypothesis list holds for the stages of `Driver.Tick`** (`sendToGPUs`, the memory-copy
    middleware's timer, `processReturnReq`/`processLaunchKernelReturn`, `processNewCommand`), for
    every capacity of the outgoing buffer. -/
theorem tick_hypotheses (outCap : Nat) : TickHyps (stages outCap) outCap (work outCap) := tickHyps outCap

/-- **No lost wake-up (driver).** For any number of queues, any buffer capacities and any sequence
    of events from the initial state: if no application signal is owed and a message is in the
    driver's incoming buffer, or a command is runnable (non-empty queue, `IsRunning` clear), or a
    request can be sent, then the driver is awake (a tick event is scheduled). -/
theorem no_lost_wakeup (inCap outCap nq : Nat) (evs : List (Ev D Rsp Req)) :
    let s := run inCap outCap (stages outCap) (init nq) evs
    s.owed = false →
    (s.core.inb ≠ [] ∨ (∃ q ∈ s.core.d.qs, startable q) ∨ (s.core.d.toSend ≠ [] ∧ s.core.outb.length < outCap)) →
    s.awake = true := by
  intro s hno hw
  have := no_lost_wakeup_generic inCap outCap (stages outCap) (work outCap) (tickHyps outCap) (init nq)
    (winv_init outCap nq) evs hw
  rcases this with ha | ho
  · exact ha
  · exact absurd ho (by simp [s] at hno; simp [hno])

/-- **A tick without progress leaves nothing to do** — the statement the oracle of
    `harness/c12_wake.go` evaluates on the real `Driver.Tick` (`asleep-with-input`): when `Tick`
    returns `false`, the GPU port's incoming buffer is empty and no queue has a runnable head. -/
theorem quiet_tick_leaves_no_work (outCap : Nat) (c : C) (h : (runStages (stages outCap) c).2 = false) :
    (runStages (stages outCap) c).1 = c ∧ c.inb = [] ∧ ∀ q ∈ c.d.qs, ¬ startable q := by
  obtain ⟨heq, hall⟩ := runStages_quiet (stages outCap) (tickHyps outCap).silent c h
  have hnw : ¬ work outCap c := by
    intro hw
    obtain ⟨st, hst, hp⟩ := (tickHyps outCap).claims c hw
    rw [hall st hst] at hp; cases hp
  refine ⟨heq, ?_, ?_⟩
  · exact Classical.byContradiction fun hin => hnw (Or.inl hin)
  · intro q hq hs; exact hnw (Or.inr (Or.inl ⟨q, hq, hs⟩))

/-- the full statement for the variant in which `processLaunchKernelReturn` reports progress only
    when the command completed (violates W1: it consumed a message and returned `false`) -/
def no_lost_wakeup_lazy : Prop :=
  ∀ (inCap outCap nq : Nat) (evs : List (Ev D Rsp Req)),
    (run inCap outCap (stagesLazy outCap) (init nq) evs).owed = false →
    (run inCap outCap (stagesLazy outCap) (init nq) evs).core.inb ≠ [] →
    (run inCap outCap (stagesLazy outCap) (init nq) evs).awake = true

/-- a kernel on 2 member GPUs; both responses are delivered in the same cycle (only the first
    delivery, into the empty buffer, wakes the driver) -/
def twoResponses : List (Ev D Rsp Req) :=
  [.enq (enqCmd 0 (.kern 2)), .kick, .tick, .tick, .tick, .tick, .retrieve, .retrieve,
   .deliver ⟨0⟩, .deliver ⟨0⟩, .tick]

/-- **Why (W1) is needed.** With the lazy variant the tick that handles the first of two responses
    reports no progress: the driver goes to sleep with the second response waiting in its port and
    the kernel command still queued — nobody will ever tick it again. -/
theorem no_lost_wakeup_lazy_refuted : ¬ no_lost_wakeup_lazy := by
  intro h
  have := h 4 4 1 twoResponses (by decide) (by decide)
  exact absurd this (by decide)

/-! the same input on the transcribed stages: awake after the first response, and after the second
    one the command is dequeued and the driver goes to sleep with nothing left -/
example : (run 4 4 (stages 4) (init 1) twoResponses).awake = true ∧
    (run 4 4 (stages 4) (init 1) twoResponses).core.inb.length = 1 := by decide
example : let s := run 4 4 (stages 4) (init 1) (twoResponses ++ [.tick, .tick])
    s.awake = false ∧ s.core.inb = [] ∧ s.core.d.qs = [{}] := by decide
example : (runStages (stages 4) (run 4 4 (stages 4) (init 1) (twoResponses ++ [.tick])).core).2 = false := by decide

end Drv
/-! ### a memory-copy command whose flush response arrives last never completes (defect, not repaired) -/
namespace Copy

/-- full statement: once every request of a running memory-copy command has been answered — in
    whatever order — the command has been dequeued -/
def memcopy_completes_full : Prop :=
  ∀ (nf nc : Nat) (o : List RKind), 0 < nc → validOrder nf nc o → (run nf nc o).queued = false

/-- **Refuted on the current code.** 2 GPUs (one `FlushReq` each), one copy request; responses in
    the order flush, copy, flush: `processFlushReturn` only removes the request, so after the last
    response the command is still queued with `IsRunning` set — the driver sleeps and every
    `DrainCommandQueue` on that queue waits forever. Reproduced on the real `Driver.Tick`
    (`harness/c12_deep.go`, oracle `C12.driver.memcopy-flush-last`). -/
theorem memcopy_completes_full_refuted : ¬ memcopy_completes_full := by
  intro h
  have := h 2 1 [.flush, .copy, .flush] (by decide) (by decide)
  exact absurd this (by decide)

/-- **Partial (what holds).** If the LAST response is a copy response, the command is dequeued. -/
theorem memcopy_completes_partial (nf nc : Nat) (pre : List RKind) (h : validOrder nf nc (pre ++ [.copy])) :
    (run nf nc (pre ++ [.copy])).queued = false := by
  obtain ⟨hf, hc⟩ := h
  simp only [List.count_append, List.count_cons_self, List.count_nil] at hf hc
  have hf' : pre.count .flush = nf := by simpa [List.count_cons] using hf
  obtain ⟨h1, h2⟩ := run_counts pre { f := nf, c := nc }
  simp only [run, List.foldl_append, List.foldl_cons, List.foldl_nil, deliver]
  rw [h1, h2]
  simp only [hf']
  have : nc - pre.count .copy - 1 = 0 := by omega
  simp [this]

/-- **Exactly when it fails.** If the last response is a flush response, the command stays queued. -/
theorem memcopy_stuck_when_flush_last (nf nc : Nat) (pre : List RKind) (h : validOrder nf nc (pre ++ [.flush])) :
    (run nf nc (pre ++ [.flush])).queued = true := by
  obtain ⟨hf, _⟩ := h
  simp only [List.count_append, List.count_cons_self, List.count_nil] at hf
  simp only [run, List.foldl_append, List.foldl_cons, List.foldl_nil, deliver]
  exact stays_queued pre { f := nf, c := nc } (by simp only; omega) rfl

example : validOrder 2 1 [.flush, .flush, .copy] ∧ (run 2 1 [.flush, .flush, .copy]).queued = false := by decide

end Copy

end W

end C12
