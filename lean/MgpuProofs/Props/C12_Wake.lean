import MgpuProofs.C12_Wake
/-!
# C12 (driver sleep/wake) — the driver is never asleep while something is left to do

`C12.W.step` is Akita's rule for a ticking component — the next tick is scheduled only when `Tick`
reported progress; a sleeping component is woken only by a delivery into an EMPTY incoming buffer,
by the outgoing buffer leaving the FULL state, or by `runAsync`'s `TickLater` — with `Driver.Tick`
as the OR of the progress flags of its stages. `no_lost_wakeup_generic` holds for every component
whose stages meet the explicit hypothesis list `TickHyps` (W1–W4); `Drv.tickHyps` proves the list for
the transcribed stages of `Driver.Tick`, `no_lost_wakeup` is the resulting unconditional statement,
and `no_lost_wakeup_lazy_refuted` shows that dropping (W1) for one stage ("consumed a message,
reported no progress") loses a wake-up — the input class `harness/c12_wake.go` replays on the real code.
-/
namespace C12
namespace W

/-- **No lost wake-up, any ticking component.** If the stages of `Tick` satisfy
    (W1) no progress reported ⇒ nothing changed, (W2) work ⇒ some stage reports progress,
    (W3) a waiting input message is work, (W4) work looks at the outgoing buffer only for room,
    then after ANY sequence of deliveries, retrievals, enqueues, `runAsync` kicks and tick events:
    whenever work is left, a tick is scheduled — or an application thread that changed the queues
    still owes its signal (which `C12.K` shows it always delivers). -/
theorem no_lost_wakeup_generic {D I O : Type} (inCap outCap : Nat) (stages : List (Stage D I O))
    (work : Core D I O → Prop) (hy : TickHyps stages outCap work) (s0 : Sys D I O)
    (h0 : work s0.core → s0.awake = true ∨ s0.owed = true) (evs : List (Ev D I O)) :
    work (run inCap outCap stages s0 evs).core →
      (run inCap outCap stages s0 evs).awake = true ∨ (run inCap outCap stages s0 evs).owed = true :=
  winv_run inCap outCap stages work hy evs s0 h0

namespace Drv

/-- **The hypothesis list holds for the stages of `Driver.Tick`** (`sendToGPUs`, the memory-copy
    middleware's timer, `processReturnReq`/`processLaunchKernelReturn`, `processNewCommand`), for
    every capacity of the outgoing buffer. -/
theorem tick_hypotheses (outCap : Nat) : TickHyps (stages outCap) outCap (work outCap) := tickHyps outCap

/-- **No lost wake-up (driver).** For any number of queues, any buffer capacities and any sequence
    of events from the initial state: if no application signal is owed and a message is in the
    driver's incoming buffer, or a command is runnable (non-empty queue, `IsRunning` clear), or a
    request can be sent, then the driver is awake (a tick event is scheduled). -/
theorem no_lost_wakeup (inCap outCap nq : Nat) (evs : List (Ev D Rsp Req)) :
    let s := run inCap outCap (stages outCap) (init nq) evs
    s.owed = false →
    (s.core.inb ≠ [] ∨ (∃ q ∈ s.core.d.qs, startable q) ∨ (s.core.d.toSend ≠ [] ∧ s.core.outb.length < outCap)) →
    s.awake = true := by
  intro s hno hw
  have := no_lost_wakeup_generic inCap outCap (stages outCap) (work outCap) (tickHyps outCap) (init nq)
    (winv_init outCap nq) evs hw
  rcases this with ha | ho
  · exact ha
  · exact absurd ho (by simp [s] at hno; simp [hno])

/-- **A tick without progress leaves nothing to do** — the statement the oracle of
    `harness/c12_wake.go` evaluates on the real `Driver.Tick` (`asleep-with-input`): when `Tick`
    returns `false`, the GPU port's incoming buffer is empty and no queue has a runnable head. -/
theorem quiet_tick_leaves_no_work (outCap : Nat) (c : C) (h : (runStages (stages outCap) c).2 = false) :
    (runStages (stages outCap) c).1 = c ∧ c.inb = [] ∧ ∀ q ∈ c.d.qs, ¬ startable q := by
  obtain ⟨heq, hall⟩ := runStages_quiet (stages outCap) (tickHyps outCap).silent c h
  have hnw : ¬ work outCap c := by
    intro hw
    obtain ⟨st, hst, hp⟩ := (tickHyps outCap).claims c hw
    rw [hall st hst] at hp; cases hp
  refine ⟨heq, ?_, ?_⟩
  · exact Classical.byContradiction fun hin => hnw (Or.inl hin)
  · intro q hq hs; exact hnw (Or.inr (Or.inl ⟨q, hq, hs⟩))

/-- the full statement for the variant in which `processLaunchKernelReturn` reports progress only
    when the command completed (violates W1: it consumed a message and returned `false`) -/
def no_lost_wakeup_lazy : Prop :=
  ∀ (inCap outCap nq : Nat) (evs : List (Ev D Rsp Req)),
    (run inCap outCap (stagesLazy outCap) (init nq) evs).owed = false →
    (run inCap outCap (stagesLazy outCap) (init nq) evs).core.inb ≠ [] →
    (run inCap outCap (stagesLazy outCap) (init nq) evs).awake = true

/-- a kernel on 2 member GPUs; both responses are delivered in the same cycle (only the first
    delivery, into the empty buffer, wakes the driver) -/
def twoResponses : List (Ev D Rsp Req) :=
  [.enq (enqCmd 0 (.kern 2)), .kick, .tick, .tick, .tick, .tick, .retrieve, .retrieve,
   .deliver ⟨0⟩, .deliver ⟨0⟩, .tick]

/-- **Why (W1) is needed.** With the lazy variant the tick that handles the first of two responses
    reports no progress: the driver goes to sleep with the second response waiting in its port and
    the kernel command still queued — nobody will ever tick it again. -/
theorem no_lost_wakeup_lazy_refuted : ¬ no_lost_wakeup_lazy := by
  intro h
  have := h 4 4 1 twoResponses (by decide) (by decide)
  exact absurd this (by decide)

/-! the same input on the transcribed stages: awake after the first response, and after the second
    one the command is dequeued and the driver goes to sleep with nothing left -/
example : (run 4 4 (stages 4) (init 1) twoResponses).awake = true ∧
    (run 4 4 (stages 4) (init 1) twoResponses).core.inb.length = 1 := by decide
example : let s := run 4 4 (stages 4) (init 1) (twoResponses ++ [.tick, .tick])
    s.awake = false ∧ s.core.inb = [] ∧ s.core.d.qs = [{}] := by decide
example : (runStages (stages 4) (run 4 4 (stages 4) (init 1) (twoResponses ++ [.tick])).core).2 = false := by decide

end Drv
/-! ### a memory-copy command completes whichever response arrives last (repaired by a `fix:` commit) -/
namespace Copy

/-- **A memory-copy command always completes (repaired code).** Once every request of a running
    memory-copy command — the `FlushReq`s to all GPUs and the copy requests — has been answered, in
    WHATEVER order the responses arrive, the command has been dequeued (`IsRunning` cleared), so a
    `DrainCommandQueue` on its queue is not left waiting. -/
theorem memcopy_completes_full (nf nc : Nat) (o : List RKind) (hne : o ≠ []) (h : validOrder nf nc o) :
    (run nf nc o).queued = false := by
  obtain ⟨hf, hc⟩ := h
  obtain ⟨pre, last, rfl⟩ : ∃ pre last, o = pre ++ [last] := by
    rcases List.eq_nil_or_concat o with h | ⟨pre, last, h⟩
    · exact absurd h hne
    · exact ⟨pre, last, by simpa using h⟩
  obtain ⟨h1, h2⟩ := run_counts pre { f := nf, c := nc }
  simp only [run, List.foldl_append, List.foldl_cons, List.foldl_nil]
  cases last
  · simp only [List.count_append, List.count_cons_self, List.count_nil] at hf
    have hc' : pre.count .copy = nc := by simpa [List.count_append, List.count_cons] using hc
    simp only [deliver, h1, h2, hc']
    simp
    intro _; omega
  · simp only [List.count_append, List.count_cons_self, List.count_nil] at hc
    have hf' : pre.count .flush = nf := by simpa [List.count_append, List.count_cons] using hf
    simp only [deliver, h1, h2, hf']
    simp
    intro _; omega

/-- **… and never early.** While fewer responses than requests have been processed the command is
    still queued (the drain does not return before the copy is complete). -/
theorem memcopy_not_completed_early (nf nc : Nat) (l : List RKind) (h : l.length < nf + nc) :
    (run nf nc l).queued = true :=
  stays_queued l { f := nf, c := nc } h rfl

/-- the full statement for the code BEFORE the fix (`processFlushReturn` only removed the request) -/
def memcopy_completes_full_before_fix : Prop :=
  ∀ (nf nc : Nat) (o : List RKind), 0 < nc → validOrder nf nc o → (runOld nf nc o).queued = false

/-- **Pre-fix defect (documentation, about `runOld` only).** 2 GPUs (one `FlushReq` each), one copy
    request; responses in the order flush, copy, flush: after the last response the command was
    still queued with `IsRunning` set — the driver slept and every `DrainCommandQueue` on that queue
    waited forever. Found on the real `Driver.Tick`, repaired by the `fix:` commit; the scenario is
    replayed by `harness/c12_deep.go` (oracle `C12.driver.memcopy-flush-last`). -/
theorem memcopy_completes_full_before_fix_refuted : ¬ memcopy_completes_full_before_fix := by
  intro h
  have := h 2 1 [.flush, .copy, .flush] (by decide) (by decide)
  exact absurd this (by decide)

/-- before the fix the command stayed queued exactly when the last response was a flush response -/
theorem memcopy_stuck_when_flush_last_before_fix (nf nc : Nat) (pre : List RKind) (h : validOrder nf nc (pre ++ [.flush])) :
    (runOld nf nc (pre ++ [.flush])).queued = true := by
  obtain ⟨hf, _⟩ := h
  simp only [List.count_append, List.count_cons_self, List.count_nil] at hf
  simp only [runOld, List.foldl_append, List.foldl_cons, List.foldl_nil, deliverOld]
  exact stays_queued_old pre { f := nf, c := nc } (by simp only; omega) rfl

example : validOrder 2 1 [.flush, .copy, .flush] ∧ (run 2 1 [.flush, .copy, .flush]).queued = false ∧
    (run 2 1 [.flush, .copy]).queued = true ∧ (runOld 2 1 [.flush, .copy, .flush]).queued = true := by decide

end Copy

end W

end C12
