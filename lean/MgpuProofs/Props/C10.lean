import MgpuProofs.C10Step
/-!
# Property C10 — device memory management never aliases pages or corrupts mappings

Theorems about the model `MgpuModel/C10.lean` (the allocator after the three `fix:` commits).
`Inv s` = `PInv` (live entries have pairwise distinct, page-aligned physical pages that lie inside
the device they record; the free lists are duplicate-free, page-aligned, inside their device and
disjoint from the live pages; keys `(pid, vaddr)` are unique) ∧ `MirrorOK` (the allocator's mirror
agrees with every page-table entry).
-/
namespace C10

/-! ## the invariant is preserved by every allocator operation -/

/-- `Allocate` keeps the physical invariant for **any** number of processes; with one process it also
keeps the mirror in agreement.  The returned pointer is the process' cursor. -/
theorem allocate_inv {s s' : State} {π bytes d v : Nat}
    (hP : PInv s.ps s.devs s.pool.frees s.pt) (h : allocate s π bytes d = .ok (v, s')) :
    PInv s'.ps s'.devs s'.pool.frees s'.pt ∧ v = cursorOf s π ∧
    (SinglePID π s → MirrorOK s → SinglePID π s' ∧ MirrorOK s') := by
  unfold allocate at h
  split at h
  · simp at h
  · obtain ⟨h1, h2⟩ := allocatePages_pres hP h
    exact ⟨h1.1, h2, h1.2⟩

/-- `AllocateUnified` likewise. -/
theorem allocateUnified_inv {s s' : State} {π bytes v : Nat}
    (hP : PInv s.ps s.devs s.pool.frees s.pt) (h : allocateUnified s π bytes = .ok (v, s')) :
    PInv s'.ps s'.devs s'.pool.frees s'.pt ∧ v = cursorOf s π ∧
    (SinglePID π s → MirrorOK s → SinglePID π s' ∧ MirrorOK s') := by
  unfold allocateUnified at h
  split at h
  · simp at h
  · obtain ⟨h1, h2⟩ := allocatePages_pres hP h
    exact ⟨h1.1, h2, h1.2⟩

/-- `Remap` (any target device, CPU, GPU or unified; any range) never aliases: the new physical
pages are distinct from every live page and recorded with the device that owns them; the page an entry
named before goes back to the free list of its device only when the allocator's record of the virtual
address is right about it (`MirrorWeak`, which every history keeps for any number of processes). -/
theorem remap_inv {s s' : State} {π addr bytes d : Nat}
    (hP : PInv s.ps s.devs s.pool.frees s.pt) (hM : MirrorWeak s.mirror s.pt)
    (h : remap s π addr bytes d = .ok s') :
    PInv s'.ps s'.devs s'.pool.frees s'.pt ∧ (SinglePID π s → MirrorOK s → SinglePID π s' ∧ MirrorOK s') :=
  remap_pres hP hM h

/-- `Distribute` = a sequence of `Remap`s. -/
theorem remapAll_inv (π : Nat) (ids : List Nat) (plan : List (Nat × Nat × Nat)) (s s' : State)
    (hP : PInv s.ps s.devs s.pool.frees s.pt) (hM : MirrorWeak s.mirror s.pt)
    (h : remapAll π ids plan s = .ok s') :
    PInv s'.ps s'.devs s'.pool.frees s'.pt ∧ (SinglePID π s → MirrorOK s → SinglePID π s' ∧ MirrorOK s') :=
  remapAll_pres π ids plan s s' hP hM h

theorem distribute_inv {s s' : State} {π addr bytes : Nat} {ids bs : List Nat}
    (hP : PInv s.ps s.devs s.pool.frees s.pt) (hM : MirrorWeak s.mirror s.pt)
    (h : distribute s π addr bytes ids = .ok (bs, s')) :
    PInv s'.ps s'.devs s'.pool.frees s'.pt ∧ (SinglePID π s → MirrorOK s → SinglePID π s' ∧ MirrorOK s') :=
  distribute_pres hP hM h

/-- `AllocatePageWithGivenVAddr` (the allocation half of page-migration preparation). -/
theorem allocGiven_inv {s s' : State} {π d v : Nat} {u : Bool} {pg : Page}
    (hP : PInv s.ps s.devs s.pool.frees s.pt) (h : allocGiven s π d v u = .ok (pg, s')) :
    PInv s'.ps s'.devs s'.pool.frees s'.pt ∧ (SinglePID π s → MirrorOK s → SinglePID π s' ∧ MirrorOK s') :=
  (allocGiven_pres hP h).1

/-- `Free` / `RemovePage`: under mirror agreement the invariant and the agreement are preserved. -/
theorem free_inv {s s' : State} {ptr : Nat} (hI : Inv s) (h : free s ptr = .ok s') :
    Inv s' ∧ (∀ π, SinglePID π s → SinglePID π s') := by
  obtain ⟨a, b, c⟩ := free_pres hI.phys hI.mirror h
  exact ⟨⟨a, b⟩, c⟩

/-- Removing a page unmaps exactly the entry the page table holds for that virtual address and
appends exactly that entry's physical page to the free lists; nothing else changes. -/
theorem removePage_exact {s s' : State} {v : Nat} (hI : Inv s) (h : removePage s v = .ok s') :
    Inv s' ∧ ∃ e ∈ s.pt, e.vaddr = v ∧
      s'.pt = s.pt.filter (fun p => !(p.pid == e.pid && p.vaddr == e.vaddr)) ∧
      s'.pool.frees.flatten.Perm (e.paddr :: s.pool.frees.flatten) := by
  obtain ⟨a, b, _, e, he, h1, h2, h3, _⟩ := removePage_pres hI.phys hI.mirror h
  exact ⟨⟨a, b⟩, e, he, h3, h1, h2⟩

/-- The invariant gives the property's first sentence: two distinct live entries never share a
physical page, and each page lies wholly inside the device the entry records. -/
theorem inv_no_alias {s : State} (hI : Inv s) {a b : Page} (ha : a ∈ s.pt) (hb : b ∈ s.pt)
    (hp : a.paddr = b.paddr) : a = b :=
  inj_of_nodup_map hI.phys.liveNodup ha hb hp

theorem inv_in_device {s : State} (hI : Inv s) {a : Page} (ha : a ∈ s.pt) :
    s.ps ∣ a.paddr ∧ ∃ d, s.devs[a.dev]? = some d ∧ d.base ≤ a.paddr ∧ a.paddr + s.ps ≤ d.base + d.size :=
  ⟨hI.phys.palign a ha, hI.phys.inDev a ha⟩

/-- A free page is never live. -/
theorem inv_free_not_live {s : State} (hI : Inv s) {p : Nat} (hp : p ∈ s.pool.frees.flatten) :
    ∀ a ∈ s.pt, a.paddr ≠ p := fun a ha h => hI.phys.disj p hp (h ▸ List.mem_map_of_mem ha)

/-! ## the mirror keyed by the virtual address only (open finding) -/

/-- Full statement: after any history the mirror agrees with the page table. -/
def mirror_agrees_full : Prop :=
  ∀ (ops : List Op) (s' : State), run (initState 4096 4096 [8192]) ops = .ok s' → MirrorOK s'

/-- Refuted: two processes allocate (both get 0x1000); the second overwrites the first's mirror entry. -/
theorem mirror_agrees_full_refuted : ¬ mirror_agrees_full := by
  intro h
  have := (h [.init, .init, .alloc 0 100, .alloc 1 100] _ rfl).1
  revert this
  decide

/-- … and the consequence on the real code: process 1 frees its buffer, process 2's live entry
disappears while process 1's stays mapped; process 2's own free then panics. -/
theorem cross_pid_free_witness :
    (match run (initState 4096 4096 [8192]) [.init, .init, .alloc 0 100, .alloc 1 100, .free 0 4096] with
     | .ok s => (ptFind s.pt 2 4096).isNone && (ptFind s.pt 1 4096).isSome
     | .error _ => false) = true ∧
    (match run (initState 4096 4096 [8192]) [.init, .init, .alloc 0 100, .alloc 1 100, .free 0 4096, .free 1 4096] with
     | .ok _ => false
     | .error e => e == Fault.ptMissing) = true := by
  decide

/-! ## Distribute covers the range exactly -/

/-- the regions are consecutive starting at `a`; returns the end -/
def contig : Nat → List (Nat × Nat × Nat) → Option Nat
  | a, [] => some a
  | a, (s, b, _) :: r => if s = a then contig (a + b) r else none

theorem contig_append : ∀ (l1 l2 : List (Nat × Nat × Nat)) (a : Nat),
    contig a (l1 ++ l2) = (contig a l1).bind fun m => contig m l2 := by
  intro l1
  induction l1 with
  | nil => intro l2 a; simp [contig]
  | cons r rest ih =>
    intro l2 a
    obtain ⟨s, b, g⟩ := r
    simp only [List.cons_append, contig]
    split
    · exact ih l2 _
    · rfl

theorem contig_range (a0 c : Nat) (f g : Nat → Nat) (hf : ∀ i, f i = a0 + i * c) : ∀ k,
    contig a0 ((List.range k).map fun i => (f i, c, g i)) = some (a0 + k * c) := by
  intro k
  induction k with
  | zero => simp [contig]
  | succ k ih =>
    rw [List.range_succ, List.map_append, contig_append, ih]
    simp [contig, hf, Nat.add_mul, Nat.add_assoc]

/-- distributorImpl.Distribute's page arithmetic: chunks plus remainder are all the pages -/
theorem distribute_pages (numPages numGPUs : Nat) (hg : 0 < numGPUs) :
    let per := numPages / numGPUs
    let use := if per > 0 then min (numPages / per) numGPUs else 0
    per * use + numPages % numGPUs = numPages := by
  intro per use
  by_cases hp : per > 0
  · have huse : use = numGPUs := by
      simp only [use, hp, if_true]
      apply Nat.min_eq_right
      rw [Nat.le_div_iff_mul_le hp]
      have := Nat.div_mul_le_self numPages numGPUs
      simp only [per]; rw [Nat.mul_comm]; exact this
    rw [huse]
    exact Nat.div_add_mod' numPages numGPUs
  · have hp0 : per = 0 := Nat.eq_zero_of_not_pos hp
    have : numPages < numGPUs := by
      simp only [per] at hp0
      rcases Nat.div_eq_zero_iff.mp hp0 with h | h
      · omega
      · exact h
    simp [use, hp0, Nat.mod_eq_of_lt this]

/-- For every byte size, page size, address and every `n ≥ 1` GPUs the `Remap` calls issued by
`Distribute` are consecutive, start at `addr` and end at `addr + pages·ps`: they are pairwise
disjoint, cover the range exactly, their byte counts sum to `pages·ps`, and (for a page-aligned
`addr`) each starts page-aligned because each length is a multiple of the page size. -/
theorem distribute_covers (ps addr bytes n : Nat) (hn : 0 < n) :
    contig addr (distPlan ps addr bytes n) = some (addr + numPagesOf ps bytes * ps) ∧
    (∀ r ∈ distPlan ps addr bytes n, r.2.2 < n ∧ ps ∣ r.2.1) := by
  have harith := distribute_pages (numPagesOf ps bytes) n hn
  constructor
  · unfold distPlan
    dsimp only at harith ⊢
    generalize numPagesOf ps bytes = P at harith ⊢
    generalize P / n = per at harith ⊢
    generalize (if per > 0 then min (P / per) n else 0) = use at harith ⊢
    have h2 : (per * use + P % n) * ps = P * ps := by rw [harith]
    rw [contig_append, contig_range addr (per * ps) (fun i => addr + i * per * ps) _ (fun i => by rw [Nat.mul_assoc])]
    simp only [Option.bind]
    rw [contig_range (addr + use * (per * ps)) ps (fun i => addr + (per * use + i) * ps) _
      (fun i => by rw [Nat.add_mul, Nat.mul_comm per use, Nat.mul_assoc, Nat.add_assoc])]
    rw [← h2, Nat.add_mul, Nat.mul_comm per use, Nat.mul_assoc, Nat.add_assoc]
  · intro r hr
    unfold distPlan at hr
    dsimp only at hr
    rcases List.mem_append.mp hr with hr | hr
    · obtain ⟨i, hi, rfl⟩ := List.mem_map.mp hr
      have hi' := List.mem_range.mp hi
      refine ⟨?_, Nat.dvd_mul_left ..⟩
      dsimp only
      split at hi'
      · exact Nat.lt_of_lt_of_le hi' (Nat.min_le_right ..)
      · omega
    · obtain ⟨i, _, rfl⟩ := List.mem_map.mp hr
      refine ⟨?_, Nat.dvd_refl _⟩
      dsimp only
      split
      · have := Nat.min_le_right (numPagesOf ps bytes / (numPagesOf ps bytes / n)) n; omega
      · omega

example : distPlan 4096 4096 (5 * 4096) 2 = [(4096, 8192, 0), (12288, 8192, 1), (20480, 4096, 1)] := by decide

/-! ## Context.buffers -/

/-- `removeFreedBuffers` (after the fix) is total — it cannot crash — and keeps exactly the buffers
that are not freed, in their order. -/
theorem rfb_removes_exactly_freed (bufs : List Buf) :
    (∀ b, b ∈ removeFreedBuffers bufs ↔ b ∈ bufs ∧ b.freed = false) ∧
    (removeFreedBuffers bufs).Sublist bufs := by
  refine ⟨fun b => ?_, List.filter_sublist⟩
  simp [removeFreedBuffers, List.mem_filter]

/-- The loop as it was before the fix (delete inside `range`): it panicked when the last two
buffers were freed and kept a freed buffer that followed another freed one. -/
theorem rfb_old_refuted :
    removeFreedBuffersOld [⟨1, 1, false⟩, ⟨2, 1, true⟩, ⟨3, 1, true⟩] = none ∧
    removeFreedBuffersOld [⟨1, 1, true⟩, ⟨2, 1, true⟩, ⟨3, 1, false⟩] = some [⟨2, 1, true⟩, ⟨3, 1, false⟩] := by
  decide

example : removeFreedBuffers [⟨1, 1, true⟩, ⟨2, 1, true⟩, ⟨3, 1, false⟩] = [⟨3, 1, false⟩] := by decide

end C10
