import MgpuModel.C05_Rest
import MgpuProofs.C05Rest
import MgpuProofs.Props.C05Quiet
/-! # C05 — what the rest-wait repair of `DrainCommandQueue` would achieve (model `C05.R`)

`completion_times_refuted` (Props/C05Sched.lean): with the hand-off as it is, simulated time
depends on the host schedule. The candidate repair — `DrainCommandQueue` returns only when no
kick is in flight and no engine goroutine exists — is modelled by `C05.R` (`MgpuModel/C05_Rest.lean`,
`T.step` plus one blocked state of the application thread). Proved here, for EVERY script and
EVERY interleaving of the three goroutines:

* the code itself then enforces the quiescent-call discipline (`rest_wait_enforces_discipline`):
  every run of `R` is, after deleting the rest-wait steps, a `T.runQ` run;
* completion times are those of the sequential specification and the final engine time is
  `sum + rounds`, with no quiescence hypothesis left (`rest_wait_times_deterministic`), hence the
  full statement that is false of `T` is a theorem of `R` (`rest_wait_times_schedule_independent`);
* the wait always ends: no reachable state of `R` is stuck before the script is finished, and every
  step decreases `R.measure` (`rest_wait_no_stuck_state`, `rest_wait_terminates`).

The repair is NOT in the repo (it changes the protocol `C12.step` transcribes; see notes/C05.md).
-/
namespace C05
open C12 (APc RPc EPc Th)

/-- **The rest-wait makes the code follow the quiescent-call discipline by itself**: every run of
    the repaired hand-off is — rest-wait steps deleted — a discipline-respecting run of the
    unrepaired model that ends in the same timed state. -/
theorem rest_wait_enforces_discipline (rounds : List Nat) (ts : List Th) (s : R.St)
    (h : R.runSched (R.init rounds) ts = some s) :
    ∃ ts', T.runQ (T.init rounds) ts' = some s.t ∧ ts'.length ≤ ts.length :=
  Rest.runSched_runQ ts (Rest.rinv_init rounds) h

/-- **With the rest-wait, simulated time is a function of the application's call sequence**: for
    every script and EVERY interleaving that runs it to its end, the completion times are those of
    the sequential specification and the engine time is `sum + number of rounds` — no hypothesis
    about the schedule, none about quiescence. -/
theorem rest_wait_times_deterministic (rounds : List Nat) (ts : List Th) (s : R.St)
    (h : R.runSched (R.init rounds) ts = some s) (hf : R.finished s) :
    s.t.ctimes = T.specTimes 0 1 rounds ∧ s.t.now = rounds.sum + rounds.length := by
  obtain ⟨ts', h', _⟩ := rest_wait_enforces_discipline rounds ts s h
  have hq : T.quiescent s.t := Rest.finished_quiescent (Rest.rinv_run ts (Rest.rinv_init rounds) h) hf
  obtain ⟨c, n⟩ := quiescent_calls_times_deterministic rounds ts' s.t h' hf.1
  exact ⟨c, n hq⟩

/-- **`completion_times_full`, false of the hand-off as it is, holds of the repaired one**: any two
    interleavings of the same script agree on every completion time and on the final time. -/
theorem rest_wait_times_schedule_independent (rounds : List Nat) (ts₁ ts₂ : List Th) (s₁ s₂ : R.St)
    (h₁ : R.runSched (R.init rounds) ts₁ = some s₁) (h₂ : R.runSched (R.init rounds) ts₂ = some s₂)
    (f₁ : R.finished s₁) (f₂ : R.finished s₂) :
    s₁.t.ctimes = s₂.t.ctimes ∧ s₁.t.now = s₂.t.now := by
  obtain ⟨c₁, n₁⟩ := rest_wait_times_deterministic rounds ts₁ s₁ h₁ f₁
  obtain ⟨c₂, n₂⟩ := rest_wait_times_deterministic rounds ts₂ s₂ h₂ f₂
  exact ⟨c₁.trans c₂.symm, n₁.trans n₂.symm⟩

/-- **The rest-wait cannot deadlock**: a reachable state of the repaired hand-off in which no
    thread can move is one where the application thread has finished its whole script. -/
theorem rest_wait_no_stuck_state {s : R.St} (h : R.Reach s) (hst : R.stuck s) : R.finished s :=
  Rest.no_stuck h hst

/-- every step of every thread decreases `R.measure` -/
theorem rest_wait_measure_decreases {s s' : R.St} (h : R.Reach s) (t : Th) (hs : R.step s t = some s') :
    Rest.measure s' < Rest.measure s := Rest.measure_decreases h t hs

/-- all maximal executions from `s` of length ≤ `n` end with the script finished -/
def R.AllRunsFinish : Nat → R.St → Prop
  | 0, s => R.finished s
  | n + 1, s => R.finished s ∨ ((∃ t s', R.step s t = some s') ∧ ∀ t s', R.step s t = some s' → R.AllRunsFinish n s')

/-- **The rest-wait always ends** (liveness by a decreasing measure): from every reachable state of
    the repaired hand-off, however the threads are interleaved, within `Rest.measure s` steps the
    application thread has returned from all its calls. -/
theorem rest_wait_terminates {s : R.St} (h : R.Reach s) : ∀ n, Rest.measure s ≤ n → R.AllRunsFinish n s := by
  intro n
  induction n generalizing s with
  | zero =>
    intro hm
    refine rest_wait_no_stuck_state h fun t => ?_
    cases hstep : R.step s t with
    | none => rfl
    | some s' => have := rest_wait_measure_decreases h t hstep; omega
  | succ n ih =>
    intro hm
    by_cases hfin : R.finished s
    · exact Or.inl hfin
    · refine Or.inr ⟨?_, ?_⟩
      · refine Classical.byContradiction fun hn => hfin (rest_wait_no_stuck_state h fun t => ?_)
        cases hstep : R.step s t with
        | none => rfl
        | some s' => exact absurd ⟨t, s', hstep⟩ hn
      · intro t s' hstep
        have := rest_wait_measure_decreases h t hstep
        exact ih (R.Reach.step t h hstep) (by omega)

/-! ### non-vacuity: the two schedules of `completion_times_witness`, with the rest-wait -/

/-- `schedFast` is no longer possible: after the first `Drain` body returns (step 10) the
    application thread is in the rest-wait and its next step is blocked while the engine runs -/
example : R.runSched (R.init [1, 1]) schedFast = none := by decide

/-- the application thread tries to move as early as it can; it is held until the engine is at rest -/
def schedEager : List Th :=
  [.app, .app, .app, .async, .async, .eng, .eng, .eng, .eng,   -- round 1: command 1 dequeued at cycle 1
   .app,                                                       -- the Drain body returns: rest-wait
   .eng, .eng, .eng, .eng, .eng,                               -- tick at 2 finds nothing; engine exits
   .app,                                                       -- rest-wait ends
   .app, .app, .app, .async, .async,                           -- Enqueue, Drain: tick at 3
   .eng, .eng, .eng, .eng, .eng, .app, .eng, .eng, .eng, .eng, .app]

example : ∃ s, R.runSched (R.init [1, 1]) schedEager = some s ∧ R.finished s ∧
    s.t.ctimes = [(1, 1), (2, 3)] ∧ s.t.now = 4 := by
  refine ⟨_, rfl, ?_, rfl, rfl⟩; decide

/-- the theorem applied to that run -/
example : ∃ s, R.runSched (R.init [1, 1]) schedEager = some s ∧ s.t.ctimes = T.specTimes 0 1 [1, 1] ∧ s.t.now = 4 := by
  have hr : ∃ s, R.runSched (R.init [1, 1]) schedEager = some s ∧ R.finished s := by
    refine ⟨_, rfl, ?_⟩; decide
  obtain ⟨s, h, hf⟩ := hr
  obtain ⟨hc, hn⟩ := rest_wait_times_deterministic [1, 1] schedEager s h hf
  exact ⟨s, h, hc, hn⟩

example : R.Reach (R.init [2, 0, 1]) := R.Reach.init _

end C05
