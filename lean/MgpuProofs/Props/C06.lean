import MgpuProofs.C06Lanes
import MgpuModel.C06
/-! # C06 — vector lanes are independent and obey the EXEC mask

All theorems are generic in the handler `h` (per-lane body `h.f` + mask mode), so they hold for every
vector opcode — including the transcendental, float and 64-bit ones that have no exact reference — as
soon as the handler has the shape of `C06.vexec`. That every handler of both ALUs has that shape is the
regenerated obligation `all_vector_handlers_fit` below (facts re-extracted from the Go source on every
run) and, semantically, the extensional check of tie H (`harness/c06.go`). -/
namespace C06

/-- a handler used by the `example`s: `v_addc_co_u32` with an in-place VCC (the CDNA3 handler before its
    repair; the mode stays in the model, no handler of the repaired tree uses it) -/
private def exH : Handler Unit := hAddc .inplace
private def exS : VState :=
  { vgpr := fun l r => if r = 0 then 4294967295 - l else if r = 1 then l + 1 else 7
    cin := fun l => l % 2 = 0, mout := fun l => l % 2 = 0, mem := fun _ => 0, log := [] }

private def exH_ls : LoadOrStore exH := Or.inl (fun _ _ => rfl)

/-- **The loop as Go runs it — one lane after the other on one mutable register file / VCC accumulator /
    memory — computes exactly the parallel per-lane map on the ORIGINAL state.** This is what makes the
    order of the lanes, and everything an earlier lane did, invisible to a later lane. -/
theorem seq_eq_par {υ} (h : Handler υ) (u : υ) (exec : BitVec 64) (s : VState) (hls : LoadOrStore h) :
    vexec h u exec s = parMap h u (fun i => exec.getLsbD i) 64 (prologue h s) := by
  simp only [vexec, vexecB]
  exact seqLoop_eq_parMap h u _ 64 _ hls

example : (vexec exH () 0x5#64 exS).vgpr 2 2 = 1 ∧ (vexec exH () 0x5#64 exS).vgpr 1 2 = 7 := by
  rw [seq_eq_par exH () _ exS exH_ls]; decide

/-- **Lanes whose EXEC bit is clear keep all their vector registers**, and their bit of the mask result is
    what the code's accumulator started with: 0 for `var vcc uint64` handlers (compares, GCN3 carries),
    the old bit for in-place handlers (CDNA3 `v_addc/v_subb` before their repair). -/
theorem inactive_lanes_unchanged {υ} (h : Handler υ) (u : υ) (exec : BitVec 64) (s : VState)
    (hls : LoadOrStore h) (l : Nat) (hl : exec.getLsbD l = false) :
    (vexec h u exec s).vgpr l = s.vgpr l ∧
    (vexec h u exec s).mout l = (match h.mask with | .fresh => false | _ => s.mout l) := by
  rw [seq_eq_par h u exec s hls]
  constructor
  · simp [parMap, hl]
  · cases hk : h.mask <;> simp [parMap, hl, hk, prologue_mout]

example : exS.vgpr 1 2 = 7 ∧ (0x5#64).getLsbD 1 = false := by decide

/-- **Inactive lanes perform no memory or LDS access**: everything the instruction appends to the access
    log belongs to a lane `< 64` whose EXEC bit is set, and memory changes only by active lanes' stores. -/
theorem inactive_lanes_no_access {υ} (h : Handler υ) (u : υ) (exec : BitVec 64) (s : VState)
    (hls : LoadOrStore h) :
    ∃ new, (vexec h u exec s).log = s.log ++ new ∧
      (∀ a ∈ new, a.lane < 64 ∧ exec.getLsbD a.lane = true) ∧
      (vexec h u exec s).mem
        = applyStores s.mem (activeStores h u (fun i => exec.getLsbD i) 64 (prologue h s)) := by
  rw [seq_eq_par h u exec s hls]
  refine ⟨activeAccesses h u (fun i => exec.getLsbD i) 64 (prologue h s), ?_, ?_, ?_⟩
  · simp [parMap]
  · intro a ha
    simp only [activeAccesses, List.mem_flatMap, List.mem_range] at ha
    obtain ⟨l, hl, hm⟩ := ha
    split at hm
    · rename_i he
      simp only [accesses, List.mem_append, List.mem_map] at hm
      rcases hm with ⟨x, _, rfl⟩ | ⟨x, _, rfl⟩ <;> exact ⟨hl, he⟩
    · cases hm
  · simp [parMap]

/-- with EXEC = 0 a vector instruction does nothing to registers, memory or the log -/
theorem exec_zero_noop {υ} (h : Handler υ) (u : υ) (s : VState) (hls : LoadOrStore h) :
    (vexec h u 0#64 s).vgpr = s.vgpr ∧ (vexec h u 0#64 s).mem = s.mem ∧ (vexec h u 0#64 s).log = s.log := by
  rw [seq_eq_par h u _ s hls]
  have hz : ∀ i, (0#64).getLsbD i = false := by simp
  refine ⟨?_, ?_, ?_⟩
  · funext l; simp [parMap]
  · have : activeStores h u (fun i => (0#64).getLsbD i) 64 (prologue h s) = [] := by
      simp [activeStores, hz]
    simp only [parMap, prologue_mem, this, applyStores, List.foldl_nil]
  · have : activeAccesses h u (fun i => (0#64).getLsbD i) 64 (prologue h s) = [] := by
      simp [activeAccesses, hz]
    simp only [parMap, prologue_log, this, List.append_nil]

/-- **Lane independence**: lane `l` of the result (its VGPR row and its bit of the mask result) depends
    only on lane `l` of the input — its row, its bits of the mask operands, its EXEC bit — on the uniform
    operands `u` and, for loads, on memory. Nothing any other lane holds can influence it. -/
theorem lane_independent {υ} (h : Handler υ) (u : υ) (exec exec' : BitVec 64) (s s' : VState)
    (hls : LoadOrStore h) (l : Nat)
    (hv : s.vgpr l = s'.vgpr l) (hc : s.cin l = s'.cin l) (hm : s.mout l = s'.mout l)
    (hmem : s.mem = s'.mem) (he : exec.getLsbD l = exec'.getLsbD l) :
    (vexec h u exec s).vgpr l = (vexec h u exec' s').vgpr l ∧
    (vexec h u exec s).mout l = (vexec h u exec' s').mout l := by
  rw [seq_eq_par h u exec s hls, seq_eq_par h u exec' s' hls]
  have hlo : laneOut h u (prologue h s) l = laneOut h u (prologue h s') l := by
    cases hk : h.mask <;> simp [laneOut, laneIn, prologue_mout, hv, hc, hm, hmem, hk]
  constructor
  · simp [parMap, hlo, he, hv]
  · cases hk : h.mask <;> simp [parMap, hlo, he, hm, hk, prologue_mout]

example : exS.vgpr 3 = ({ exS with vgpr := fun l r => if l = 3 then exS.vgpr 3 r else 0 } : VState).vgpr 3 := by
  funext r; simp

/-- the state with its lanes renamed by `π` (lane `l` of the new state is lane `π l` of the old one) -/
def permState (π : Nat → Nat) (s : VState) : VState :=
  { vgpr := fun l => s.vgpr (π l), cin := fun l => s.cin (π l), mout := fun l => s.mout (π l), mem := s.mem, log := s.log }

theorem laneOut_perm {υ} (h : Handler υ) (u : υ) (π : Nat → Nat) (s : VState) (l : Nat) :
    laneOut h u (prologue h (permState π s)) l = laneOut h u (prologue h s) (π l) := by
  cases hk : h.mask <;> simp [laneOut, laneIn, prologue_mout, permState, hk]

/-- **Permutation equivariance (registers and mask bits)**: run the instruction on the state whose lanes
    are renamed by `π`, with EXEC (and VCC / the SGPR-pair operands, which are part of the state) renamed
    alike: lane `l` of the result is lane `π l` of the original result. `π` only has to map lanes to lanes. -/
theorem perm_equivariant {υ} (h : Handler υ) (u : υ) (exec exec' : BitVec 64) (s : VState)
    (hls : LoadOrStore h) (π : Nat → Nat) (hπ : ∀ l, l < 64 → π l < 64)
    (hex : ∀ l, l < 64 → exec'.getLsbD l = exec.getLsbD (π l)) (l : Nat) (hl : l < 64) :
    (vexec h u exec' (permState π s)).vgpr l = (vexec h u exec s).vgpr (π l) ∧
    (vexec h u exec' (permState π s)).mout l = (vexec h u exec s).mout (π l) := by
  rw [seq_eq_par h u exec' _ hls, seq_eq_par h u exec s hls]
  have hlo := laneOut_perm h u π s l
  constructor
  · simp only [parMap, hlo, hex l hl, hl, hπ l hl, true_and, prologue_vgpr]
    simp only [permState]
  · cases hk : h.mask <;> simp only [parMap, hk] <;>
      simp only [hlo, hex l hl, hl, hπ l hl, true_and, prologue_mout, hk] <;> simp [permState]

/-- **Permutation equivariance (memory / LDS, stores)**: when the active lanes' store addresses are
    pairwise distinct, the memory after the permuted run equals the memory after the original run, for
    every permutation `π` of the 64 lanes — although the Go loop performs the stores in a different order.
    (Without the hypothesis the highest active lane wins in the emulator and equivariance fails; see
    `perm_mem_needs_disjoint`.) -/
theorem perm_equivariant_mem {υ} (h : Handler υ) (u : υ) (exec exec' : BitVec 64) (s : VState)
    (hls : LoadOrStore h) (π : Nat → Nat) (hπ : ((List.range 64).map π).Perm (List.range 64))
    (hex : ∀ l, l < 64 → exec'.getLsbD l = exec.getLsbD (π l))
    (hd : ActiveAddrsDisjoint h u (fun i => exec.getLsbD i) s) :
    (vexec h u exec' (permState π s)).mem = (vexec h u exec s).mem := by
  rw [seq_eq_par h u exec' _ hls, seq_eq_par h u exec s hls]
  have hmem : (prologue h (permState π s)).mem = (prologue h s).mem := by
    simp [permState]
  simp only [parMap, hmem]
  have hperm : (activeStores h u (fun i => exec.getLsbD i) 64 (prologue h s)).Perm
      (activeStores h u (fun i => exec'.getLsbD i) 64 (prologue h (permState π s))) := by
    have e : activeStores h u (fun i => exec'.getLsbD i) 64 (prologue h (permState π s))
        = ((List.range 64).map π).flatMap
            (fun l => if exec.getLsbD l then (laneOut h u (prologue h s) l).stores else []) := by
      rw [List.flatMap_map]
      simp only [activeStores]
      apply flatMap_congr'
      intro l hl
      simp only [hex l (List.mem_range.mp hl), laneOut_perm]
    rw [e]
    exact (List.Perm.flatMap_right _ hπ).symm
  exact (applyStores_perm _ _ _ hperm hd).symm

/-- **Permutation equivariance (access log)**: the accesses of the permuted run, with their lane tags
    mapped back through `π`, are a permutation of the accesses of the original run — same addresses, same
    lengths, same lanes, no access gained or lost. -/
theorem perm_equivariant_log {υ} (h : Handler υ) (u : υ) (exec exec' : BitVec 64) (s : VState)
    (π : Nat → Nat) (hπ : ((List.range 64).map π).Perm (List.range 64))
    (hex : ∀ l, l < 64 → exec'.getLsbD l = exec.getLsbD (π l)) :
    ((activeAccesses h u (fun i => exec'.getLsbD i) 64 (prologue h (permState π s))).map
        (fun a => { a with lane := π a.lane })).Perm
      (activeAccesses h u (fun i => exec.getLsbD i) 64 (prologue h s)) := by
  have e : (activeAccesses h u (fun i => exec'.getLsbD i) 64 (prologue h (permState π s))).map
        (fun a => { a with lane := π a.lane })
      = ((List.range 64).map π).flatMap
          (fun l => if exec.getLsbD l then accesses l (laneOut h u (prologue h s) l) else []) := by
    rw [List.flatMap_map]
    simp only [activeAccesses, List.map_flatMap]
    apply flatMap_congr'
    intro l hl
    simp only [hex l (List.mem_range.mp hl), laneOut_perm]
    split
    · simp [accesses, List.map_append, List.map_map, Function.comp_def]
    · rfl
  rw [e]
  exact List.Perm.flatMap_right _ hπ

/-- the hypothesis of `perm_equivariant_mem` is needed: two active lanes storing different bytes to one
    address, swapped, leave different memory (the last lane in loop order wins) -/
theorem perm_mem_needs_disjoint :
    ∃ (s : VState) (π : Nat → Nat), ((List.range 64).map π).Perm (List.range 64) ∧
      (vexec hDsWrite 0 0x3#64 (permState π s)).mem 0 ≠ (vexec hDsWrite 0 0x3#64 s).mem 0 := by
  refine ⟨{ vgpr := fun l r => if r = 1 then l + 1 else 0, cin := fun _ => false, mout := fun _ => false,
            mem := fun _ => 0, log := [] },
          fun l => if l = 0 then 1 else if l = 1 then 0 else l, by decide, by decide⟩

/-! ## Regenerated obligations: the Go handlers have the shape the theorems above are about

`Gen.vectorHandlers` is re-extracted from `amd/emu/*.go` and `amd/emu/cdna3/*.go` on every run
(`translate/lanes.go`). If a handler loses its guard, reads lane `i^1`, leaves the loop early, writes a
mask result inside the loop, … the record no longer fits; the `#eval` just below then fails the build
with the handler's name, file:line and the reason, and `all_vector_handlers_fit` fails. -/

open C06Facts in
#eval show IO Unit from do
  unless misfits.isEmpty do
    throw (IO.userError s!"C06: vector handlers that do not fit the lane skeleton: {misfits}")

/-- **Every vector handler of both ALUs — VOP1/2/3a/3b/C, DS, FLAT, and their helpers — is syntactically
    an instance of the skeleton `vexec`**, except the documented cross-lane instruction
    `v_readfirstlane_b32`. (326 records at the pinned tree; regenerated, not sampled.) -/
theorem all_vector_handlers_fit :
    (Gen.vectorHandlers.filter (fun h => !isException h)).all FitsSkeleton = true := by decide +kernel

-- since the repair "cdna3 v_addc/v_subb write 0 for inactive lanes" the handler has the GCN3 shape:
-- `oldVCC` (read at bit i) and a fresh accumulator `vcc` (two mask variables instead of one in-place)
example : FitsSkeleton Gen.vh_cdna3_runVADDCU32 = true ∧ Gen.vh_cdna3_runVADDCU32.masks.length = 2 := by decide

/-- the exception list cannot rot: each listed handler exists in the regenerated facts (by name — the
    list refers to the generated constants) and really does not fit, so nothing is excused needlessly -/
theorem exceptions_are_cross_lane :
    crossLaneExceptions.all (fun e =>
      Gen.vectorHandlers.any (fun h => h.arch == e.arch && h.name == e.name) && !FitsSkeleton e) = true := by
  decide +kernel

/-- every case of the vector opcode switches calls a method that has a fact record, and every
    `u.helper(state, …)` inside a handler resolves to one — no handler escapes the obligation -/
theorem vector_dispatch_covered : dispatchCovered = true ∧ callsResolved = true := by
  constructor <;> decide +kernel

/-- **Scalar instructions are unaffected by EXEC**: over the regenerated facts, the only scalar handlers
    that call `state.EXEC()` / `state.SetEXEC` are those of the documented opcodes
    (`s_*_saveexec_b64`, `s_cbranch_execz/nz`); every other scalar opcode can see EXEC only through an
    operand field that names it. -/
theorem scalar_ignores_exec : scalarIgnoresExec = true := by decide +kernel

example : (Gen.dispatch.filter (fun d => d.format == "sop1" && d.op == 32)).length = 2 := by decide +kernel

end C06
