import MgpuProofs.C10CompBuddy
/-!
# C10 — composition of the allocator layer with the buddy device layer

`MgpuModel/C10Dev.lean` writes the allocator code (`allocatePages`, `Free`/`removePage`, the repaired `Remap` loop,
`Distribute`) once over the interface `Iface σ` of a device memory state. `Spec` (MgpuProofs/C10Comp.lean) is what that
layer assumes of a device: pages handed out are new, distinct and inside the device's range; a page given back leaves
the set of outstanding pages; an outstanding page lies in an allocated block and in no free block. The buddy model
meets it (`BSpec`), by the invariants of `buddy_conservation` and `buddy_disjoint_any_history`.
-/
namespace C10.Comp
open C10

/-- **The allocator layer is safe over ANY device implementation that meets the device specification.** From a state
in the invariant, after every history of the one process' driver operations (SelectGPU, AllocateMemory, FreeMemory,
Remap, Distribute, RemovePage) that does not panic: the page table is injective (no physical page mapped twice), and
every mapped frame lies in the range of a device whose memory state holds it inside an allocated block and outside
every free block. -/
theorem driver_no_alias_any_device {σ : Type} (I : Iface σ) (devs : List Dev) (S : Spec I devs)
    (s0 s : GState σ) (L0 : Nat → List Nat) (ops : List DOp) (h0 : GInv S s0 L0) (t0 : Tight devs s0 L0 [])
    (hrun : run I s0 ops = .ok s) :
    (s.pt.map (·.paddr)).Nodup ∧
    ∀ e ∈ s.pt, ∃ d m, devOf s.devs e.paddr = some d ∧ s.mem[d]? = some m ∧ S.Held m e.paddr ∧
      ¬ S.InFree m e.paddr := by
  obtain ⟨L, g, -⟩ := ginv_run ops s0 s L0 h0 t0 hrun
  exact g.safe

/-- **The page table agrees with the devices, over ANY device implementation meeting the specification.** After every
history that does not panic, the pages a device handed out and did not get back (its ghost list, for which the device
invariant `Good` holds) are EXACTLY the mapped frames that `deviceIDByPAddr` assigns to it: nothing outstanding is
unmapped (no page is lost to the allocator), nothing mapped has been given back. -/
theorem driver_agrees_any_device {σ : Type} (I : Iface σ) (devs : List Dev) (S : Spec I devs)
    (s0 s : GState σ) (L0 : Nat → List Nat) (ops : List DOp) (h0 : GInv S s0 L0) (t0 : Tight devs s0 L0 [])
    (hrun : run I s0 ops = .ok s) :
    ∃ L : Nat → List Nat, (∀ d m, s.mem[d]? = some m → S.Good d m (L d)) ∧
      ∀ d p, p ∈ L d ↔ ∃ e ∈ s.pt, e.paddr = p ∧ devOf s.devs p = some d := by
  obtain ⟨L, g, t⟩ := ginv_run ops s0 s L0 h0 t0 hrun
  refine ⟨L, g.good, ?_⟩
  intro d p
  rw [g.hd]
  exact tight_iff g t d p

example : Tight (bdevsFrom 4096 [2, 2, 2]) (binit [2, 2, 2]) (fun _ => []) [] := tight_binit _

/-- non-vacuity: the buddy devices of a driver meet the specification, initially (see `driver_no_alias_buddy`) -/
example : GInv (BSpec 4096 [2, 2, 2]) (binit [2, 2, 2]) (fun _ => []) := ginv_binit _

/-- a free block of a buddy state in its invariant lies inside the device -/
theorem free_block_in_device {F : Nat} {m : Buddy.State} (h : Buddy.FInv F m) {q : Nat}
    (hq : Buddy.InFreeBlock m q) : m.base ≤ q ∧ q < m.base + m.size := by
  obtain ⟨lv, a, ha, hin⟩ := hq
  obtain ⟨k, hk, rfl⟩ := h.fnode lv a ha
  have hl := h.level_le ha
  unfold Buddy.inBlock at hin
  rw [h.hsize] at hin ⊢
  unfold Buddy.addr at hin
  have h0 : Buddy.szl (4096 * 2 ^ F) 0 = 4096 * 2 ^ F := by simp [Buddy.szl]
  have hS := Buddy.szl_mul (Nat.zero_le lv) hl
  rw [h0, Nat.sub_zero] at hS
  have hle : (k + 1) * Buddy.szl (4096 * 2 ^ F) lv ≤ 2 ^ lv * Buddy.szl (4096 * 2 ^ F) lv :=
    Nat.mul_le_mul_right _ hk
  rw [Nat.succ_mul, Nat.mul_comm (2 ^ lv)] at hle
  omega

example : Buddy.InFreeBlock (Buddy.init 0x5000 (4096 * 2 ^ 2)) 0x7000 := ⟨0, 0x5000, by decide, by decide⟩

/-- **Driver-level no-aliasing when the devices are buddy allocators.** Build + RegisterGPU with devices of
`4096 * 2^F` bytes (one exponent per device: CPU first, then the GPUs; the sizes the buddy allocator is correct for),
then ANY history of driver operations of the one process — SelectGPU, AllocateMemory, FreeMemory, Remap, Distribute,
RemovePage; malformed ones included — that does not panic. Then
1. the page table is injective: no physical page is mapped at two virtual addresses;
2. every mapped frame lies in the range of the device `deviceIDByPAddr` names, and in that device's buddy state it is
   accounted to an allocated block — it has a `blockTracking` entry whose tracker still counts pages and whose block
   (`levelOfBlock`) contains it (`Accounted`, the predicate of `buddy_conservation`);
3. in the buddy state of EVERY device the free blocks are listed once and pairwise disjoint, and no mapped frame — of
   that or of any other device — lies inside one of them.
The assumptions of the allocator layer about its devices (`Spec`) are discharged by `BSpec`. -/
theorem driver_no_alias_buddy (Fs : List Nat) (ops : List DOp) (s : GState Buddy.State)
    (hrun : run buddyIface (binit Fs) ops = .ok s) :
    (s.pt.map (·.paddr)).Nodup ∧
    (∀ e ∈ s.pt, ∃ d b, devOf s.devs e.paddr = some d ∧ s.mem[d]? = some b ∧ Buddy.inDev b e.paddr = true ∧
      Buddy.Accounted b (s.pt.map (·.paddr)) e.paddr) ∧
    (∀ (d : Nat) (b : Buddy.State), s.mem[d]? = some b →
      Buddy.FreeDisjoint b ∧ ∀ e ∈ s.pt, ¬ Buddy.InFreeBlock b e.paddr) := by
  obtain ⟨L, g, -⟩ := ginv_run ops _ s _ (ginv_binit Fs) (tight_binit Fs) hrun
  have hsafe := g.safe
  refine ⟨g.nodup, ?_, ?_⟩
  · intro e he
    obtain ⟨d, b, h1, h2, h3, -⟩ := hsafe.2 e he
    have hg : BGood (bdevsFrom 4096 Fs) d b (L d) := g.good d b h2
    obtain ⟨dv, F, hdv, hsz, hc, -, -⟩ := hg
    refine ⟨d, b, h1, h2, ?_, ?_⟩
    · rw [g.hd] at h1
      obtain ⟨dv', hdv', r1, r2⟩ := devOf_spec h1
      rw [hdv] at hdv'
      injection hdv' with hdv'
      subst hdv'
      unfold Buddy.inDev
      rw [hc.hbase, hc.f.hsize, ← hsz]
      simp [r1, r2]
    · obtain ⟨p, hp, rest⟩ := h3
      rw [List.mem_singleton.mp hp] at rest
      exact ⟨e.paddr, List.mem_map_of_mem he, rest⟩
  · intro d b hm
    have hg : BGood (bdevsFrom 4096 Fs) d b (L d) := g.good d b hm
    obtain ⟨dv, F, hdv, hsz, hc, ht, -⟩ := hg
    refine ⟨(hc.f.safe (L d) (fun q hq => (ht q).mpr hq)).2, ?_⟩
    intro e he hfree
    obtain ⟨r1, r2⟩ := free_block_in_device hc.f hfree
    rw [hc.hbase] at r1 r2
    rw [hc.f.hsize, ← hsz] at r2
    have hd : devOf s.devs e.paddr = some d := by rw [g.hd]; exact devOf_bdevs hdv r1 r2
    obtain ⟨d', b', h1, h2, -, h4⟩ := hsafe.2 e he
    rw [hd] at h1
    injection h1 with h1
    subst h1
    rw [hm] at h2
    injection h2 with h2
    subst h2
    exact h4 hfree

/-- the history of the examples: CPU and two GPUs of 4 pages each; two buffers on GPU 1, the first remapped onto GPU 2
(its two frames go back to GPU 1 and merge), the second freed, the first distributed over both GPUs, more
allocations on both, a direct RemovePage -/
def exOps : List DOp :=
  [.alloc 8192, .alloc 100, .remap 0x1000 8192 2, .free 0x3000, .dist 0x1000 8192 [1, 2], .alloc 4096, .sel 2,
   .alloc 10, .rmpage 0x2000]

def exFrames : Except Fault (GState Buddy.State) → Option (List (Nat × Nat) × List (List (List Nat)))
  | .ok s => some (s.pt.map (fun e => (e.vaddr, e.paddr)), s.mem.map (·.free))
  | .error _ => none

/-- non-vacuity: the history runs to its end on buddy devices; three pages stay mapped, on two devices, next to
non-empty free lists -/
example : exFrames (run buddyIface (binit [2, 2, 2]) exOps) =
    some ([(0x1000, 0x5000), (0x4000, 0x6000), (0x5000, 0xc000)],
          [[[0x1000], [], []], [[], [0x7000], []], [[], [0x9000], [0xb000]]]) := by
  decide +kernel

example : ∃ s, run buddyIface (binit [2, 2, 2]) exOps = .ok s := by
  have h : (exFrames (run buddyIface (binit [2, 2, 2]) exOps)).isSome = true := by decide +kernel
  cases hr : run buddyIface (binit [2, 2, 2]) exOps with
  | ok s => exact ⟨s, rfl⟩
  | error e => rw [hr] at h; cases h

/-- the mapped frames that `deviceIDByPAddr` assigns to device `d` -/
def framesOn (s : GState Buddy.State) (d : Nat) : List Nat :=
  (s.pt.map (·.paddr)).filter fun p => devOf s.devs p == some d

/-- **Driver-level conservation on buddy devices.** After any history (as in `driver_no_alias_buddy`), for every device:
the pages its buddy state tracks (`blockTracking`) are exactly the frames the page table maps on it — the page table
agrees with the allocator —, and every page of the device lies EITHER inside a free block OR inside the allocated block
(`levelOfBlock` of a counting tracker) of a frame that is mapped, never both: free blocks and the blocks of mapped
frames partition the device; no page is lost, none is free while mapped. -/
theorem driver_conservation_buddy (Fs : List Nat) (ops : List DOp) (s : GState Buddy.State)
    (hrun : run buddyIface (binit Fs) ops = .ok s) (d : Nat) (b : Buddy.State) (hb : s.mem[d]? = some b) :
    (∀ p, Buddy.Tracked b p ↔ ∃ e ∈ s.pt, e.paddr = p ∧ devOf s.devs p = some d) ∧
    ∃ dv F, s.devs[d]? = some dv ∧ dv.size = 4096 * 2 ^ F ∧ b.base = dv.base ∧ ∀ j, j < 2 ^ F →
      (Buddy.InFreeBlock b (dv.base + 4096 * j) ∨ Buddy.Accounted b (framesOn s d) (dv.base + 4096 * j)) ∧
      ¬ (Buddy.InFreeBlock b (dv.base + 4096 * j) ∧ Buddy.Accounted b (framesOn s d) (dv.base + 4096 * j)) := by
  obtain ⟨L, g, t⟩ := ginv_run ops _ s _ (ginv_binit Fs) (tight_binit Fs) hrun
  have hg : BGood (bdevsFrom 4096 Fs) d b (L d) := g.good d b hb
  obtain ⟨dv, F, hdv, hsz, hc, ht, -⟩ := hg
  have hiff : ∀ p, Buddy.Tracked b p ↔ ∃ e ∈ s.pt, e.paddr = p ∧ devOf s.devs p = some d := by
    intro p
    rw [ht p, g.hd]
    exact tight_iff g t d p
  refine ⟨hiff, dv, F, by rw [g.hd]; exact hdv, hsz, hc.hbase, ?_⟩
  intro j hj
  refine Buddy.core_conservation hc ?_ j hj
  intro p
  rw [hiff p]
  unfold framesOn
  simp only [List.mem_filter, List.mem_map, beq_iff_eq]
  constructor
  · rintro ⟨e, he, hp, hd⟩
    exact ⟨⟨e, he, hp⟩, hd⟩
  · rintro ⟨⟨e, he, hp⟩, hd⟩
    exact ⟨e, he, hp, hd⟩

/-- the generic allocator code instantiated with the FIFO free list is the code of `C10.step` (sanity check on one
history, not a proof: the proved tie of this layer is the one of `C10.step` itself): same page table, same free lists -/
example :
    (match run fifoIface { ps := 4096, devs := (initState 4096 16384 [16384, 16384]).devs,
                           mem := (initState 4096 16384 [16384, 16384]).pool.frees, pid := 1, cursor := 4096,
                           mirror := [], npages := [], pt := [], gpu := 1 } exOps with
     | .ok g => some (g.pt, g.mem) | .error _ => none) =
    (match C10.run (initState 4096 16384 [16384, 16384])
        [.init, .alloc 0 8192, .alloc 0 100, .remap 0 0x1000 8192 2, .free 0 0x3000, .dist 0 0x1000 8192 [1, 2],
         .alloc 0 4096, .sel 0 2, .alloc 0 10, .rmpage 0x2000] with
     | .ok s => some (s.pt, s.pool.frees) | .error _ => none) := by
  decide +kernel

end C10.Comp
