import MgpuProofs.C14VmuProofs
import MgpuModel.Gen.C14Sched
/-! # C14 — the vector memory unit's transaction path

`C14.Vmu` (`MgpuModel/C14_Vmu.lean`) transcribes `VectorMemoryUnit.Run` (`sendRequest`,
`transactionPipeline.Tick`, `insertTransactionToPipeline` with the coalescing stall) and Akita's
`pipelining.Pipeline` cycle by cycle; the harness drives the real unit with the same schedule and
the model predicts which transaction reaches the `ToVectorMem` port in which cycle (`c14 vmu`).

Why it matters for the wait counters: the return handlers decrement `OutstandingVectorMemAccess`
when the response of the transaction flagged *last* arrives; `waitcnt_tracks_truth` needs responses
in issue order (`inOrder`), which the reorder buffer (C15) provides **for the order in which the
requests reach it**. So the unit itself must hand the transactions to the port in creation order.
With one lane it does (`vmu_one_lane_fifo`); with several lanes it does not
(`vmu_fifo_full … _refuted`, reproduced on the real unit: findings C14-vmu-lanes-reorder-*). -/
namespace C14.Vmu

/-- the r9nano configuration: one lane, ten stages, post-pipeline buffer 8, port 64 -/
def r9nano : Cfg := ⟨1, 10, 8, 64, 16⟩
/-- the mi300a configuration: eight lanes, four stages, post-pipeline buffer 64, port 64 -/
def mi300a : Cfg := ⟨8, 4, 64, 64, 16⟩

/-- **The two configurations are the shipped ones**: lanes / stages / post-pipeline buffer as read
    from `cu.MakeBuilder` and from the mi300a platform builder by `translate/c14.go`, the port
    capacity of `NewComputeUnit`, the burst of `sendRequest`. -/
theorem configurations_are_the_shipped_ones :
    r9nano = ⟨Gen.C14Sched.vmuDefault.2.1, Gen.C14Sched.vmuDefault.1, Gen.C14Sched.vmuDefault.2.2, 64, Gen.C14Sched.vmuBurst⟩ ∧
    mi300a = ⟨Gen.C14Sched.vmuMI300A.2.1, Gen.C14Sched.vmuMI300A.1, Gen.C14Sched.vmuMI300A.2.2.1, 64, Gen.C14Sched.vmuBurst⟩ ∧
    (Gen.C14Sched.ports.find? (fun p => p.1 == "ToVectorMem")).map (·.2.2) = some 64 := by decide

/-- three accesses of 64 transactions each; the memory takes nothing for 40 cycles, then one request
    per cycle -/
def pressure : List Op :=
  [.issue 64 0, .issue 64 0, .issue 64 0] ++ List.replicate 40 (.cyc 0) ++ List.replicate 160 (.cyc 1)

/-- **vmu_one_lane_fifo.** A vector memory unit whose transaction pipeline has ONE lane (any number
    of stages, any buffer and port capacities, any coalescing penalties), under every schedule of
    instruction issues and memory back-pressure: the transactions reach the port in the order in
    which `executeFlatLoad/Store` created them, without a gap — and what has not been sent yet waits,
    in creation order, in the post-pipeline buffer, then in the lane from its last stage to its
    first, then in `transactionsWaiting`. -/
theorem vmu_one_lane_fifo (c : Cfg) (hw : c.width = 1) (ops : List Op) :
    (run c (St.init c) ops).sent = List.range (run c (St.init c) ops).sent.length ∧
    order (run c (St.init c) ops) = List.range (run c (St.init c) ops).next :=
  ⟨vmu_one_lane_sent c hw ops, vmu_one_lane_order c hw ops⟩

example : (run r9nano (St.init r9nano) pressure).sent = List.range 189 := by decide +kernel

/-- **vmu_no_loss** (any number of lanes, every schedule): every transaction created is in exactly
    one place — sent, in the post-pipeline buffer, inside the pipeline or waiting —, the
    post-pipeline buffer and the port never exceed their capacities. -/
theorem vmu_no_loss (c : Cfg) (ops : List Op) :
    (run c (St.init c) ops).sent.length + (run c (St.init c) ops).post.length + inPipe (run c (St.init c) ops) +
      (run c (St.init c) ops).waiting.length = (run c (St.init c) ops).next ∧
    (run c (St.init c) ops).post.length ≤ c.buf ∧ (run c (St.init c) ops).out.length ≤ c.cap :=
  vmu_count c ops

example : (run mi300a (St.init mi300a) (pressure.take 60)).post.length = 64 ∧
    (run mi300a (St.init mi300a) (pressure.take 60)).out.length = 63 ∧
    inPipe (run mi300a (St.init mi300a) (pressure.take 60)) = 32 := by decide +kernel

/-- the full statement: requests reach the port in creation order, for every configuration -/
def vmu_fifo_full (c : Cfg) : Prop := ∀ ops : List Op, (run c (St.init c) ops).sent.Pairwise (· < ·)

/-- the strongest true part: one lane -/
theorem vmu_fifo_partial (c : Cfg) (hw : c.width = 1) : vmu_fifo_full c := by
  intro ops
  rw [(vmu_one_lane_fifo c hw ops).1]
  exact List.pairwise_lt_range

/-- **It is false with several lanes.** Smallest witness: two lanes of one stage, buffer and port of
    one place, one access of four transactions: transaction 1 waits in lane 1 for room in the
    post-pipeline buffer while lane 0, served first by `Tick`, passes transactions 2 and 3. -/
theorem vmu_fifo_full_two_lanes_refuted : ¬ vmu_fifo_full ⟨2, 1, 1, 1, 16⟩ := by
  intro h
  have := h [.issue 4 0, .cyc 0, .cyc 0, .cyc 0, .cyc 1, .cyc 1, .cyc 1, .cyc 1]
  revert this
  decide

/-- **... and with the shipped mi300a configuration** (8 lanes, 4 stages, buffer 64, port 64): three
    accesses of 64 transactions under back-pressure leave in the order …,127,128,136,144,152,160…191,
    129,137,… — the last-flagged transaction 191 of the third access is sent before 28 of its older
    transactions. The real unit does exactly this (harness, first `c14 vmu w=8` case of every run). -/
theorem vmu_fifo_full_mi300a_refuted : ¬ vmu_fifo_full mi300a := by
  intro h
  have := h pressure
  revert this
  decide +kernel

example : ((run mi300a (St.init mi300a) pressure).sent.drop 156).take 12 =
    [184, 185, 186, 187, 188, 189, 190, 191, 129, 137, 145, 153] := by decide +kernel

end C14.Vmu
