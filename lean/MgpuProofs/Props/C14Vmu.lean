import MgpuProofs.C14VmuProofs
import MgpuModel.Gen.C14Sched
/-! # C14 — the vector memory unit's transaction path

`C14.Vmu` (`MgpuModel/C14_Vmu.lean`) transcribes `VectorMemoryUnit.Run` (`sendRequest`,
`transactionPipeline.Tick`, `insertTransactionToPipeline` with the coalescing stall) and Akita's
`pipelining.Pipeline` cycle by cycle; the harness drives the real unit with the same schedule and
the model predicts which transaction reaches the `ToVectorMem` port in which cycle (`c14 vmu`).

Why it matters for the wait counters: the return handlers decrement `OutstandingVectorMemAccess`
when the response of the transaction flagged *last* arrives; `waitcnt_tracks_truth` needs responses
in issue order (`inOrder`), which the reorder buffer (C15) provides **for the order in which the
requests reach it**. So the unit itself must hand the transactions to the port in creation order.
The repaired unit does, for every number of lanes (`vmu_fifo_full`, `vmu_last_transaction_sent_last`):
it records the order in which the transactions entered the pipeline, sends the oldest only and sets
a younger head of the post-pipeline buffer aside (`C14.Vmu.send`). Before the repair (`C14.Vmu.Old`)
it did so with one lane only (`Old.vmu_one_lane_fifo`); with several lanes a full post-pipeline buffer
stalled the lanes, Akita's `Tick` served them by lane number and younger transactions — also the
last-flagged one — overtook older ones (`vmu_fifo_before_fix_…_refuted`; former findings
C14-vmu-lanes-reorder-*). With one lane the repaired unit behaves, cycle by cycle, as the old one
(`vmu_one_lane_unchanged`). -/
namespace C14.Vmu

/-- the r9nano configuration: one lane, ten stages, post-pipeline buffer 8, port 64 -/
def r9nano : Cfg := ⟨1, 10, 8, 64, 16⟩
/-- the mi300a configuration: eight lanes, four stages, post-pipeline buffer 64, port 64 -/
def mi300a : Cfg := ⟨8, 4, 64, 64, 16⟩

/-- **The two configurations are the shipped ones**: lanes / stages / post-pipeline buffer as read
    from `cu.MakeBuilder` and from the mi300a platform builder by `translate/c14.go`, the port
    capacity of `NewComputeUnit`, the burst of `sendRequest`. -/
theorem configurations_are_the_shipped_ones :
    r9nano = ⟨Gen.C14Sched.vmuDefault.2.1, Gen.C14Sched.vmuDefault.1, Gen.C14Sched.vmuDefault.2.2, 64, Gen.C14Sched.vmuBurst⟩ ∧
    mi300a = ⟨Gen.C14Sched.vmuMI300A.2.1, Gen.C14Sched.vmuMI300A.1, Gen.C14Sched.vmuMI300A.2.2.1, 64, Gen.C14Sched.vmuBurst⟩ ∧
    (Gen.C14Sched.ports.find? (fun p => p.1 == "ToVectorMem")).map (·.2.2) = some 64 := by decide

/-- three accesses of 64 transactions each; the memory takes nothing for 40 cycles, then one request
    per cycle -/
def pressure : List Op :=
  [.issue 64 0, .issue 64 0, .issue 64 0] ++ List.replicate 40 (.cyc 0) ++ List.replicate 160 (.cyc 1)

/-- the full statement: requests reach the port in creation order, for every configuration -/
def vmu_fifo_full (c : Cfg) : Prop := ∀ ops : List Op, (run c (St.init c) ops).sent.Pairwise (· < ·)

/-- the same statement about the unit before the repair -/
def vmu_fifo_before_fix_full (c : Cfg) : Prop := ∀ ops : List Op, (Old.run c (St.init c) ops).sent.Pairwise (· < ·)

/-- **vmu_fifo** (repaired unit; any number of lanes and stages, any buffer and port capacities, any
    coalescing penalties, every schedule of instruction issues and memory back-pressure): the
    transactions reach the port in the order in which `executeFlatLoad/Store` created them, without
    a gap — and what has not been sent yet is, in creation order, `transactionsInOrder` followed by
    `transactionsWaiting`. -/
theorem vmu_fifo (c : Cfg) (ops : List Op) :
    (run c (St.init c) ops).sent = List.range (run c (St.init c) ops).sent.length ∧
    ledger (run c (St.init c) ops) = List.range (run c (St.init c) ops).next :=
  ⟨vmu_sent_range c ops, (vmu_inv c ops).1⟩

/-- **vmu_fifo_full holds for every configuration** (was refuted for more than one lane before the
    repair: `vmu_fifo_before_fix_two_lanes_refuted`, `vmu_fifo_before_fix_mi300a_refuted`). -/
theorem vmu_fifo_full_all (c : Cfg) : vmu_fifo_full c := by
  intro ops
  rw [(vmu_fifo c ops).1]
  exact List.pairwise_lt_range

theorem vmu_fifo_full_two_lanes : vmu_fifo_full ⟨2, 1, 1, 1, 16⟩ := vmu_fifo_full_all _
theorem vmu_fifo_full_mi300a : vmu_fifo_full mi300a := vmu_fifo_full_all _

/-- **The last transaction of an instruction is sent last** — what the return handlers rely on when
    they decrement `OutstandingVectorMemAccess` at the response of the transaction flagged last
    (`CanWaitForCoalesce = false`): whenever transaction `j` has been put on the port, every older
    transaction `i < j` (in particular every other transaction of the same instruction) has been put
    on the port before it. Behind a memory path that answers in the order it receives the requests
    (C15's reorder buffer) the hypothesis `inOrder` of `waitcnt_tracks_truth` therefore holds for
    every pipeline width. -/
theorem vmu_last_transaction_sent_last (c : Cfg) (ops : List Op) (i j : Nat) (hij : i < j)
    (hj : j ∈ (run c (St.init c) ops).sent) :
    ∃ a b, (run c (St.init c) ops).sent = a ++ j :: b ∧ i ∈ a := by
  have h := (vmu_fifo c ops).1
  generalize (run c (St.init c) ops).sent = l at *
  rw [h] at hj
  have hjl := List.mem_range.mp hj
  refine ⟨List.range j, List.range' (j + 1) (l.length - (j + 1)), ?_, List.mem_range.mpr hij⟩
  rw [h]
  generalize l.length = n at *
  obtain ⟨k, rfl⟩ : ∃ k, n = j + (k + 1) := ⟨n - (j + 1), by omega⟩
  have : j + (k + 1) - (j + 1) = k := by omega
  rw [List.length_range, this, List.range_eq_range', List.range_eq_range',
    ← List.range'_append_1 (s := 0) (m := j) (n := k + 1)]
  simp [List.range'_succ]

example : (run r9nano (St.init r9nano) pressure).sent = List.range 189 := by decide +kernel
example : (run mi300a (St.init mi300a) pressure).sent = List.range 192 := by decide +kernel

/-- **vmu_no_loss** (any number of lanes, every schedule): every transaction created is in exactly
    one place — sent, set aside, in the post-pipeline buffer, inside the pipeline or waiting —,
    `transactionsInOrder` lists exactly the transactions set aside, in the buffer and in the
    pipeline (so `setAsideTransaction` finds the head it pops), the post-pipeline buffer and the port
    never exceed their capacities. -/
theorem vmu_no_loss (c : Cfg) (ops : List Op) :
    ((run c (St.init c) ops).sent.length + (run c (St.init c) ops).aside.length + (run c (St.init c) ops).post.length +
      inPipe (run c (St.init c) ops) + (run c (St.init c) ops).waiting.length = (run c (St.init c) ops).next ∧
    (run c (St.init c) ops).inOrder.length =
      (run c (St.init c) ops).aside.length + (run c (St.init c) ops).post.length + inPipe (run c (St.init c) ops) ∧
    (run c (St.init c) ops).post.length ≤ c.buf ∧ (run c (St.init c) ops).out.length ≤ c.cap) ∧
    (run c (St.init c) ops).inOrder.Perm (held (run c (St.init c) ops)) :=
  ⟨vmu_count c ops, (vmu_inv c ops).2.1⟩

/-- **vmu_set_aside_bounded**: the unit never keeps more transactions between pipeline entry and
    port — and never sets more aside — than the post-pipeline buffer and the pipeline hold together
    (while something is set aside the pipeline accepts nothing). mi300a: 64 + 8·4 = 96. -/
theorem vmu_set_aside_bounded (c : Cfg) (ops : List Op) :
    (run c (St.init c) ops).inOrder.length ≤ c.buf + c.width * c.stages ∧
    (run c (St.init c) ops).aside.length ≤ c.buf + c.width * c.stages := vmu_bound c ops

/-- the visible part of a unit: what the unit before the repair consists of -/
def vis (s : St) : List (Nat × Nat) × Nat × List (List (Option Nat)) × List Nat × List Nat × List Nat × Nat :=
  (s.waiting, s.stall, s.lanes, s.post, s.out, s.sent, s.next)

/-- **vmu_one_lane_unchanged.** With ONE lane (the r9nano configuration, the `cu.MakeBuilder`
    default) the repaired unit is, after every schedule, in the state the unit before the repair
    would be in — same queues, same lane contents, same port buffer, same send history, hence the
    same timing —, and nothing is ever set aside. -/
theorem vmu_one_lane_unchanged (c : Cfg) (hw : c.width = 1) (ops : List Op) :
    vis (run c (St.init c) ops) = vis (Old.run c (St.init c) ops) ∧ (run c (St.init c) ops).aside = [] := by
  obtain ⟨h1, h2, h3, h4, h5, h6, h7, h8, _⟩ := vmu_run_same c ops _ _ (vmu_init_same c hw)
  exact ⟨by simp [vis, h1, h2, h3, h4, h5, h6, h7], h8⟩

example : (run mi300a (St.init mi300a) (pressure.take 60)).post.length = 64 ∧
    (run mi300a (St.init mi300a) (pressure.take 60)).out.length = 63 ∧
    inPipe (run mi300a (St.init mi300a) (pressure.take 60)) = 32 := by decide +kernel

/-- under the back-pressure schedule the repaired mi300a unit does set transactions aside -/
example : ((List.range 204).map fun k => (run mi300a (St.init mi300a) (pressure.take k)).aside.length).foldl max 0 = 53 := by
  decide +kernel

/-! ## the unit before the repair -/

/-- **Old.vmu_one_lane_fifo.** Before the repair: with ONE lane the transactions reached the port in
    creation order (and what was not sent waited, in creation order, in the post-pipeline buffer,
    then in the lane from its last stage to its first, then in `transactionsWaiting`). -/
theorem vmu_one_lane_fifo_before_fix (c : Cfg) (hw : c.width = 1) (ops : List Op) :
    (Old.run c (St.init c) ops).sent = List.range (Old.run c (St.init c) ops).sent.length ∧
    order (Old.run c (St.init c) ops) = List.range (Old.run c (St.init c) ops).next :=
  ⟨Old.vmu_one_lane_sent c hw ops, Old.vmu_one_lane_order c hw ops⟩

/-- the strongest true part before the repair: one lane -/
theorem vmu_fifo_before_fix_partial (c : Cfg) (hw : c.width = 1) : vmu_fifo_before_fix_full c := by
  intro ops
  rw [(vmu_one_lane_fifo_before_fix c hw ops).1]
  exact List.pairwise_lt_range

/-- **It was false with several lanes.** Smallest witness: two lanes of one stage, buffer and port of
    one place, one access of four transactions: transaction 1 waits in lane 1 for room in the
    post-pipeline buffer while lane 0, served first by `Tick`, passes transactions 2 and 3. -/
theorem vmu_fifo_before_fix_two_lanes_refuted : ¬ vmu_fifo_before_fix_full ⟨2, 1, 1, 1, 16⟩ := by
  intro h
  have := h [.issue 4 0, .cyc 0, .cyc 0, .cyc 0, .cyc 1, .cyc 1, .cyc 1, .cyc 1]
  revert this
  decide

/-- **... and with the shipped mi300a configuration** (8 lanes, 4 stages, buffer 64, port 64): three
    accesses of 64 transactions under back-pressure left in the order …,127,128,136,144,152,160…191,
    129,137,… — the last-flagged transaction 191 of the third access was sent before 28 of its older
    transactions. The real unit did exactly this before the repair (former findings
    C14-vmu-lanes-reorder-transactions / -counter-early). -/
theorem vmu_fifo_before_fix_mi300a_refuted : ¬ vmu_fifo_before_fix_full mi300a := by
  intro h
  have := h pressure
  revert this
  decide +kernel

example : ((Old.run mi300a (St.init mi300a) pressure).sent.drop 156).take 12 =
    [184, 185, 186, 187, 188, 189, 190, 191, 129, 137, 145, 153] := by decide +kernel

end C14.Vmu
