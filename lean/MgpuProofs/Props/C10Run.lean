import MgpuProofs.C10Init
/-!
# Property C10 at the driver level — whole histories

`run (initState ps cpu gpus) ops` is the model's driver: `Builder.Build` + any list of `RegisterGPU`,
then any history over Init / InitWithExistingPID / SelectGPU / CreateUnifiedGPU / AllocateMemory /
AllocateUnifiedMemory / FreeMemory / Remap / Distribute / preparePageForMigration (with its second
page-table `Update`) / RemovePage / AllocatePageWithGivenVAddr / removeFreedBuffers (the very
functions the correspondence check runs against the real `driver.Driver`).

Hypotheses, each stated once:
* `Cfg ps cpu gpus` — positive page size dividing every device size (RegisterDevice then makes
  consecutive, page-aligned ranges);
* `MigsOK n ops` — every `preparePageForMigration` targets a real GPU index `< n` (what
  `processShootdownCompleteRsp` passes; `mig_any_target_full_refuted` shows the hypothesis is necessary);
* `SingleProc ops` — at most one `Init` (any number of `InitWithExistingPID`): required exactly
  where the open finding (mirror keyed by the virtual address only) bites, i.e. for mirror
  agreement and for `Free` not to crash; **not** required for the no-aliasing invariant;
* `Disciplined s₀ ops` — `FreeMemory` is called by a context on one of its live buffers and the
  allocator-internal `RemovePage` is not called: required for "live buffers are intact".
-/
namespace C10

/-- every migration in the history targets one of the `n` real GPUs -/
def MigsOK (n : Nat) (ops : List Op) : Prop := ∀ op ∈ ops, MigOK n op

/-- the history creates at most one process -/
def SingleProc (ops : List Op) : Prop := inits ops ≤ 1

/-- the histories `inv_run` speaks about -/
def Valid (n : Nat) (ops : List Op) : Prop := MigsOK n ops ∧ SingleProc ops

/-- an example history (two contexts of one process; unified device; remap, distribute, migration,
unified allocation, free, removeFreedBuffers, AllocatePageWithGivenVAddr) used to show that the
hypotheses of the theorems below are met by a non-trivial run -/
def exampleOps : List Op :=
  [.init, .initpid 0, .alloc 0 5000, .unify 1 [1, 2], .alloc 1 100, .remap 0 4096 8192 2,
   .dist 0 4096 8192 [1, 2], .mig 1 4096 1, .allocu 0 4097, .free 0 4096, .rfb 0, .sel 1 3,
   .alloc 1 4096, .apg 0 0 12288 false, .free 1 12288]

theorem example_cfg : Cfg 4096 16384 [32768, 32768] :=
  ⟨by decide, ⟨4, rfl⟩, by intro g hg; simp at hg; subst hg; exact ⟨8, rfl⟩⟩

theorem example_valid : Valid 2 exampleOps := by
  constructor
  · intro op hop
    simp [exampleOps] at hop
    rcases hop with rfl | rfl | rfl | rfl | rfl | rfl | rfl | rfl | rfl | rfl | rfl | rfl | rfl | rfl | rfl <;>
      simp [MigOK]
  · unfold SingleProc; decide

theorem example_runs :
    (match run (initState 4096 16384 [32768, 32768]) exampleOps with
     | .ok s => s.pt.length == 3 && s.ctxs.length == 2
     | .error _ => false) = true := by decide

theorem example_disciplined : Disciplined (initState 4096 16384 [32768, 32768]) exampleOps :=
  disciplinedB_sound _ _ (by decide)

/-! ## the initial state -/

/-- `Builder.Build` followed by **any** list of `RegisterGPU` (any page-multiple sizes, including an
empty list and zero-sized devices) establishes the invariant: the free lists of all devices are
duplicate-free, page-aligned, inside their device and pairwise disjoint. -/
theorem inv_init {ps cpu : Nat} {gpus : List Nat} (h : Cfg ps cpu gpus) : Inv (initState ps cpu gpus) :=
  let ⟨hW, _, _, hM, _⟩ := init_all h
  ⟨hW.phys, hM⟩

example : Inv (initState 4096 16384 [32768, 32768]) := inv_init example_cfg

/-! ## the no-aliasing invariant holds after every history, for any number of processes -/

/-- **Any** history — any number of processes, `Free`/`RemovePage` included, unified devices created
at any time, migration with its second page-table update — keeps the physical invariant `PInv`:
live pages pairwise distinct, page-aligned, inside the device they record; free lists duplicate-free,
aligned, inside their device, disjoint from the live pages; unique `(pid, vaddr)` keys.
(The mirror keyed by the virtual address only makes `Free` unmap the *wrong* process' page, but
the page it returns is always the page of the entry it unmaps — `MirrorWeak`.) -/
theorem pinv_run {ps cpu : Nat} {gpus : List Nat} {ops : List Op} {s' : State} (h : Cfg ps cpu gpus)
    (hm : MigsOK gpus.length ops) (hr : run (initState ps cpu gpus) ops = .ok s') :
    PInv s'.ps s'.devs s'.pool.frees s'.pt :=
  (run_all h hm hr).1.phys

/-- Driver-level induction: after every history of a single process the full invariant `Inv`
(`PInv` ∧ the allocator's mirror agrees with every page-table entry) holds. -/
theorem inv_run {ps cpu : Nat} {gpus : List Nat} {ops : List Op} {s' : State} (h : Cfg ps cpu gpus)
    (hv : Valid gpus.length ops) (hr : run (initState ps cpu gpus) ops = .ok s') : Inv s' :=
  let ⟨hW, _, hS⟩ := run_all h hv.1 hr
  ⟨hW.phys, (hS hv.2).2.1⟩

example : ∀ s', run (initState 4096 16384 [32768, 32768]) exampleOps = .ok s' → Inv s' :=
  fun _ hr => inv_run example_cfg example_valid hr

/-- the same, from any state that satisfies the invariants (the induction step made explicit) -/
theorem inv_run_from {n : Nat} {s s' : State} {ops : List Op} (hW : WInv s) (hG : GpuOK n s) (hO : OneProc s)
    (hM : MirrorOK s) (hm : MigsOK n ops) (hb : s.npid + inits ops ≤ 1) (hr : run s ops = .ok s') : Inv s' :=
  ⟨(run_w ops s s' hW hG hm hr).1.phys, (run_one ops s s' hW hG hm hO hM hb hr).2⟩

/-- A physical page is on a free list or mapped, never both, never twice — after every history,
for any number of processes. -/
theorem no_double_handout {ps cpu : Nat} {gpus : List Nat} {ops : List Op} {s' : State} (h : Cfg ps cpu gpus)
    (hm : MigsOK gpus.length ops) (hr : run (initState ps cpu gpus) ops = .ok s') :
    s'.pool.frees.flatten.Nodup ∧ (s'.pt.map (·.paddr)).Nodup ∧
    (∀ p ∈ s'.pool.frees.flatten, p ∉ s'.pt.map (·.paddr)) ∧
    (∀ a ∈ s'.pt, ∀ b ∈ s'.pt, a.paddr = b.paddr → a = b) := by
  have hP := pinv_run h hm hr
  exact ⟨hP.freeNodup, hP.liveNodup, hP.disj, fun a ha b hb hab => inj_of_nodup_map hP.liveNodup ha hb hab⟩

/-- The hypothesis on migration targets is necessary: migrating onto a *unified* device (never done
by `processShootdownCompleteRsp`, whose index ranges over the real GPUs) records the unified
device's ID, whose physical range is empty. -/
def mig_any_target_full : Prop :=
  ∀ (ops : List Op) (s' : State), run (initState 4096 4096 [8192]) ops = .ok s' →
    ∀ pg ∈ s'.pt, ∃ d, s'.devs[pg.dev]? = some d ∧ d.base ≤ pg.paddr ∧ pg.paddr + s'.ps ≤ d.base + d.size

theorem mig_any_target_full_refuted : ¬ mig_any_target_full := by
  intro h
  have := h [.init, .unify 0 [1], .alloc 0 100, .mig 0 4096 1] _ rfl
    { pid := 1, vaddr := 4096, paddr := 12288, dev := 2, unified := true, migrating := true } (by decide)
  obtain ⟨d, hd, he, _⟩ := this
  have hd' : d = { kind := .unified, base := 16384, size := 0, actual := [1] } := by
    have : (some d : Option Dev) = some { kind := .unified, base := 16384, size := 0, actual := [1] } := by
      rw [← hd]; rfl
    injection this
  subst hd'
  revert he
  decide

/-! ## buffers of a process never overlap -/

/-- After every history (any number of processes and contexts), all buffers ever handed out to one
process and still listed in a context — live **or** freed — occupy pairwise disjoint page ranges,
hence disjoint byte ranges: inside one context (`Pairwise` = any two positions) and across the
contexts that share the process. Every buffer ends at or below the process' cursor, which is why
the next pointer (`= cursor`, see `allocate_inv`) can never overlap an earlier one. -/
theorem buffers_never_overlap {ps cpu : Nat} {gpus : List Nat} {ops : List Op} {s' : State} (h : Cfg ps cpu gpus)
    (hm : MigsOK gpus.length ops) (hr : run (initState ps cpu gpus) ops = .ok s') :
    (∀ c ∈ s'.ctxs, c.bufs.Pairwise fun a b => BDisj s'.ps a b ∧ BytesDisj a b) ∧
    (s'.ctxs.Pairwise fun ci cj => ci.pid = cj.pid → ∀ a ∈ ci.bufs, ∀ b ∈ cj.bufs, BDisj s'.ps a b ∧ BytesDisj a b) ∧
    (∀ c ∈ s'.ctxs, ∀ b ∈ c.bufs, b.vaddr + b.size ≤ cursorOf s' c.pid) := by
  obtain ⟨hW, hB, _⟩ := run_all h hm hr
  have hps := hW.phys.pspos
  refine ⟨fun c hc => (hB.within c hc).imp fun hab => ⟨hab, hab.bytes hps⟩,
    hB.across.imp fun hcd hp a ha b hb => ⟨hcd hp a ha b hb, (hcd hp a ha b hb).bytes hps⟩, ?_⟩
  intro c hc b hb
  have h1 := hB.below c hc b hb
  have h2 := bytes_le_pages (bytes := b.size) hps
  unfold pgEnd at h1
  omega

example : ∀ s', run (initState 4096 16384 [32768, 32768]) exampleOps = .ok s' →
    ∀ c ∈ s'.ctxs, c.bufs.Pairwise fun a b => BDisj s'.ps a b ∧ BytesDisj a b :=
  fun _ hr => (buffers_never_overlap example_cfg example_valid.1 hr).1

/-! ## Free of a live buffer never crashes and returns exactly its pages -/

/-- State level: under the invariant, with one process, `Free` of an intact allocation (page count
remembered, every page mapped) cannot panic; `es` are the page-table entries of the buffer's virtual
pages, in order: exactly these are unmapped, exactly their physical pages are appended to the free
lists (multiset equality), and the invariant still holds. -/
theorem free_no_crash {s : State} {π : Nat} {b : Buf} (hI : Inv s) (hS : SinglePID π s) (hb : Intact s π b) :
    ∃ (s' : State) (es : List Page), free s b.vaddr = .ok s' ∧ es.map (·.vaddr) = bufPages s.ps b ∧
      (∀ e ∈ es, e ∈ s.pt) ∧ s'.pt = s.pt.filter (fun e => !((bufPages s.ps b).contains e.vaddr)) ∧
      s'.pool.frees.flatten.Perm (es.map (·.paddr) ++ s.pool.frees.flatten) ∧ Inv s' :=
  free_total hI hS hb

/-- Run level: after any disciplined single-process history, `FreeMemory` on **any** live buffer of
**any** context succeeds (no panic), unmaps exactly the buffer's `numPages` virtual pages and
returns exactly the physical pages they were mapped to. -/
theorem free_no_crash_run {ps cpu : Nat} {gpus : List Nat} {ops : List Op} {s : State} (h : Cfg ps cpu gpus)
    (hv : Valid gpus.length ops) (hD : Disciplined (initState ps cpu gpus) ops)
    (hr : run (initState ps cpu gpus) ops = .ok s)
    {c : Nat} {cx : Ctx} {b : Buf} (hc : s.ctxs[c]? = some cx) (hb : b ∈ cx.bufs) (hf : b.freed = false) :
    ∃ (s' : State) (es : List Page), step s (.free c b.vaddr) = .ok (.ok, s') ∧
      es.map (·.vaddr) = bufPages s.ps b ∧ es.length = numPagesOf s.ps b.size ∧ (∀ e ∈ es, e ∈ s.pt) ∧
      s'.pt = s.pt.filter (fun e => !((bufPages s.ps b).contains e.vaddr)) ∧
      s'.pool.frees.flatten.Perm (es.map (·.paddr) ++ s.pool.frees.flatten) ∧ Inv s' := by
  obtain ⟨hW, _, hS⟩ := run_all h hv.1 hr
  obtain ⟨hO, hM, hA⟩ := hS hv.2
  have hcm := List.mem_of_getElem? hc
  have hint := hA hD cx hcm b hb hf
  rw [hO.ctxPid cx hcm] at hint
  obtain ⟨s1, es, h1, h2, h3, h4, h5, h6⟩ := free_total ⟨hW.phys, hM⟩ hO.single hint
  refine ⟨setCtx s1 c { cx with bufs := cx.bufs.map fun b' => if b'.vaddr = b.vaddr then { b' with freed := true } else b' },
    es, ?_, h2, ?_, h3, h4, h5, ⟨h6.phys, ⟨h6.mirror.1, h6.mirror.2⟩⟩⟩
  · simp only [step, hc, h1]
  · have := congrArg List.length h2
    simpa [bufPages] using this

example : ∀ s, run (initState 4096 16384 [32768, 32768]) exampleOps = .ok s →
    ∀ cx b, s.ctxs[1]? = some cx → b ∈ cx.bufs → b.freed = false →
    ∃ (s' : State) (es : List Page), step s (.free 1 b.vaddr) = .ok (.ok, s') ∧
      es.map (·.vaddr) = bufPages s.ps b ∧ es.length = numPagesOf s.ps b.size ∧ (∀ e ∈ es, e ∈ s.pt) ∧
      s'.pt = s.pt.filter (fun e => !((bufPages s.ps b).contains e.vaddr)) ∧
      s'.pool.frees.flatten.Perm (es.map (·.paddr) ++ s.pool.frees.flatten) ∧ Inv s' :=
  fun _ hr _ _ hc hb hf => free_no_crash_run example_cfg example_valid example_disciplined hr hc hb hf

/-- the live buffer the last example speaks about exists: context 1 ends with a live 4096-byte buffer -/
example : (match run (initState 4096 16384 [32768, 32768]) exampleOps with
     | .ok s => (s.ctxs[1]?.map fun cx => cx.bufs.any fun b => !b.freed) == some true
     | .error _ => false) = true := by decide

/-- After any disciplined single-process history every page of every live buffer is mapped for the
buffer's process, and the allocator remembers the buffer's page count. -/
theorem live_buffers_mapped {ps cpu : Nat} {gpus : List Nat} {ops : List Op} {s : State} (h : Cfg ps cpu gpus)
    (hv : Valid gpus.length ops) (hD : Disciplined (initState ps cpu gpus) ops)
    (hr : run (initState ps cpu gpus) ops = .ok s) :
    ∀ c ∈ s.ctxs, ∀ b ∈ c.bufs, b.freed = false →
      lookup s.npages b.vaddr = some (numPagesOf s.ps b.size) ∧
      ∀ v ∈ bufPages s.ps b, ∃ e ∈ s.pt, e.pid = c.pid ∧ e.vaddr = v := by
  obtain ⟨_, _, hS⟩ := run_all h hv.1 hr
  intro c hc b hb hf
  obtain ⟨i1, i2⟩ := (hS hv.2).2.2 hD c hc b hb hf
  refine ⟨i1, fun v hv' => ?_⟩
  obtain ⟨e, he, hk⟩ := List.mem_map.mp (i2 v hv')
  simp only [key, Prod.mk.injEq] at hk
  exact ⟨e, he, hk.1, hk.2⟩

example : ∀ s, run (initState 4096 16384 [32768, 32768]) exampleOps = .ok s →
    ∀ c ∈ s.ctxs, ∀ b ∈ c.bufs, b.freed = false → ∀ v ∈ bufPages s.ps b, ∃ e ∈ s.pt, e.pid = c.pid ∧ e.vaddr = v :=
  fun _ hr c hc b hb hf => (live_buffers_mapped example_cfg example_valid example_disciplined hr c hc b hb hf).2

/-- Without the single-process hypothesis the statement is false (the open finding): the full
statement "after any disciplined history a Free of a live buffer succeeds" is refuted by two
processes that allocate and free in turn (replayed on the real code by the harness). -/
def free_no_crash_full : Prop :=
  ∀ (ops : List Op) (s : State), MigsOK 1 ops → Disciplined (initState 4096 4096 [8192]) ops →
    run (initState 4096 4096 [8192]) ops = .ok s →
    ∀ c cx b, s.ctxs[c]? = some cx → b ∈ cx.bufs → b.freed = false →
    ∃ r s', step s (.free c b.vaddr) = .ok (r, s')

/-- two processes allocate (both get 0x1000), the first frees -/
def crossPidOps : List Op := [.init, .init, .alloc 0 100, .alloc 1 100, .free 0 4096]

def crossPidState : State :=
  match run (initState 4096 4096 [8192]) crossPidOps with
  | .ok s => s
  | .error _ => initBase 0

theorem free_no_crash_full_refuted : ¬ free_no_crash_full := by
  intro h
  have hm : MigsOK 1 crossPidOps := by
    intro op hop
    simp [crossPidOps] at hop
    rcases hop with rfl | rfl | rfl | rfl | rfl <;> simp [MigOK]
  have hr : run (initState 4096 4096 [8192]) crossPidOps = .ok crossPidState := rfl
  obtain ⟨r, s', hs⟩ := h crossPidOps crossPidState hm (disciplinedB_sound _ _ (by decide)) hr
    1 { pid := 2, gpu := 1, bufs := [⟨4096, 100, false⟩] } ⟨4096, 100, false⟩
    rfl (List.mem_singleton.mpr rfl) rfl
  have hfalse : (match step crossPidState (.free 1 4096) with | .ok _ => true | .error _ => false) = false := by
    decide
  rw [hs] at hfalse
  simp at hfalse

/-- non-vacuity of the any-number-of-processes statements: the two-process history with a
cross-process `Free` runs, and keeps the physical invariant -/
example : ∀ s', run (initState 4096 4096 [8192]) crossPidOps = .ok s' →
    s'.pool.frees.flatten.Nodup ∧ (s'.pt.map (·.paddr)).Nodup ∧
    (∀ p ∈ s'.pool.frees.flatten, p ∉ s'.pt.map (·.paddr)) ∧
    (∀ a ∈ s'.pt, ∀ b ∈ s'.pt, a.paddr = b.paddr → a = b) := by
  intro s' hr
  refine no_double_handout (gpus := [8192]) ⟨by decide, ⟨1, rfl⟩, ?_⟩ ?_ hr
  · intro g hg; simp at hg; subst hg; exact ⟨2, rfl⟩
  · intro op hop
    simp [crossPidOps] at hop
    rcases hop with rfl | rfl | rfl | rfl | rfl <;> simp [MigOK]

end C10
