import MgpuProofs.C18SysLive3
import MgpuProofs.Props.C18
/-! # C18 — the closed n-GPU system (second and third sentence of the property, system level)

`Sys` (`MgpuModel/C18_Sys.lean`) composes n copies of the tick-exact RDMA engine model, outside
port to outside port, through a network that may delay and reorder everything but loses and
duplicates nothing, with arbitrary L1-side requesters and arbitrary L2-side responders. All theorems
are about `srun (initSys cfgs) ops` for an arbitrary list of per-node configurations and an
arbitrary schedule `ops` (any interleaving of requesters, ticks, network, responders, control). -/
namespace C18

/-! ## every node is the single-engine model; the per-engine theorems are corollaries -/

/-- **Every node of the system is a run of the single-engine model** with its own configuration:
the composition drives each engine only through `C18.step`. -/
theorem sys_nodes_are_engines (cfgs : List Cfg) (ops : List SOp) (b : Nat) (B : Node)
    (hB : (srun (initSys cfgs) ops).nodes[b]? = some B) :
    cfgs[b]? = some B.cfg ∧ ∃ eops : List Op, B.s = run B.cfg eops :=
  (allInv_run cfgs ops _ (allInv_init cfgs)).reach b B hB

/-- `rdma_once` holds for both channels of every engine of the system (corollary). -/
theorem sys_rdma_once (cfgs : List Cfg) (ops : List SOp) (b : Nat) (B : Node)
    (hB : (srun (initSys cfgs) ops).nodes[b]? = some B) :
    OnceSpec (routeOut B.cfg) B.s.io ∧ OnceSpec (routeIn B.cfg) B.s.oi := by
  obtain ⟨_, eops, he⟩ := sys_nodes_are_engines cfgs ops b B hB
  rw [he]; exact rdma_once B.cfg eops

/-- `drain_acks_all_idle` holds for every engine of the system (corollary): every drain
acknowledgement saw both of the engine's own tables empty. -/
theorem sys_drain_acks_all_idle (cfgs : List Cfg) (ops : List SOp) (b : Nat) (B : Node)
    (hB : (srun (initSys cfgs) ops).nodes[b]? = some B) : ∀ p ∈ B.s.acks, p = (0, 0) := by
  obtain ⟨_, eops, he⟩ := sys_nodes_are_engines cfgs ops b B hB
  rw [he]; exact drain_acks_all_idle B.cfg eops

/-- a 3-GPU platform: 0x1000-byte banks, buffers of 2, one message per tick and class -/
def demo3 : List Cfg := (List.range 3).map (nodeCfg 2 1 1 1 1 0x1000 3 0x40 2)

/-- traffic crossing in a ring 0→1→2→0; the network delivers requests in the order 2,0,1 and the
    answers in the order 1,2,0; then node 0 is drained -/
def demo3Ops : List SOp :=
  [.issue 0 7 (.read 0x1010 4 0), .issue 1 8 (.write 0x2020 [0xaa, 0xbb] [] 3), .issue 2 9 (.read 0x10 2 0),
   .tick 0, .tick 1, .tick 2, .sendQ 0, .sendQ 1, .sendQ 2, .delivQ 2, .delivQ 0, .delivQ 0,
   .tick 0, .tick 1, .tick 2, .l2take 0, .l2take 1, .l2take 2,
   .l2ans 0 0 (some [1, 2]), .l2ans 1 0 (some [1, 2, 3, 4]), .l2ans 2 0 none,
   .tick 0, .tick 1, .tick 2, .sendR 0, .sendR 1, .sendR 2, .delivR 1, .delivR 1, .delivR 0,
   .tick 0, .tick 1, .tick 2, .l1take 0, .l1take 1, .l1take 2, .ctl 0 (.drain 5), .tick 0, .ctake 0]

example : (srun (initSys demo3) demo3Ops).nodes.map (fun nd => (nd.s.io.fwd.length, nd.s.oi.fwd.length, nd.s.acks)) =
    [(1, 1, [(0, 0)]), (1, 1, []), (1, 1, [])] := by decide +kernel

/-! ## conservation: nothing is lost, nothing is invented -/

/-- **Conservation law of the closed system.** In every reachable state, for every engine `a`
and clone id `f`: the number of entries of `a`'s inside table with this clone id equals the number
of places holding its token — clone in `a`'s outgoing buffer, clone in the network, request held by
another engine under a live name, answer in the network, answer in `a`'s incoming buffer (`GInv`);
the same for the outside table of every node with its L2 side (`NodeInv.l2`); and the live names of
a node are exactly the outside requests it holds, with their sources (`NodeInv.nm`). Since clone ids
in a table are distinct (`rdma_once`), every transaction in flight is in exactly one place. -/
theorem sys_conservation (cfgs : List Cfg) (ops : List SOp) : SInv (srun (initSys cfgs) ops) :=
  (allInv_run cfgs ops _ (allInv_init cfgs)).inv

example : let y := srun (initSys demo3) (demo3Ops.take 12)
    y.netQ = [] ∧ y.nodes.map (fun nd => (nd.s.io.tx.map (·.fid), nd.names.map fun nm => (nm.k, nm.a, nm.c.fid))) =
      [([0], [(0, 2, 0)]), ([0], [(0, 0, 0)]), ([0], [(0, 1, 0)])] := by decide +kernel

/-! ## exactly once, end to end -/

/-- **Every answer reaches its originator exactly once with the responder's data; every request
reaches the owner's L2 side once, unchanged; no cross-talk.** For every schedule and every node `a`:
* every answer `x` the L1 side of `a` receives belongs to a request `q` issued at `a` (same id, sent to
  `q`'s source), the node `b` that `a`'s address table names for `q`'s address received at its L2
  side a clone with exactly `q`'s payload (address, size/data, mask, PID), and `x` carries the data
  the responder of `b` gave for that clone (`E2E`) — nothing else reaches the L1 side;
* no request is answered twice (`got` has distinct request ids);
* the L2 side of a node receives every clone at most once, and every clone of `a` is delivered to
  an outside port at most once in the whole system (with `sys_rdma_once`: each delivered request is
  forwarded to the L2 side at most once). Together with `sys_conservation` (none lost) and
  `sys_live` (all complete): exactly once. -/
theorem sys_end_to_end (cfgs : List Cfg) (ops : List SOp) (a : Nat) (A : Node)
    (hA : (srun (initSys cfgs) ops).nodes[a]? = some A) :
    (∀ x ∈ A.got, E2E (srun (initSys cfgs) ops) a A x) ∧
    (A.got.map (·.rspTo)).Nodup ∧ (A.l2all.map (·.fid)).Nodup ∧
    ∀ c, ((srun (initSys cfgs) ops).nodes.flatMap nameToksAll).count (a, c) ≤ 1 := by
  have h := allInv_run cfgs ops _ (allInv_init cfgs)
  exact ⟨fun x hx => e2e_of_allInv cfgs _ h a A hA x hx, got_nodup h hA, l2all_nodup h hA,
    fun c => delivered_once h hA c⟩

/-- the 3-GPU run with crossing traffic: every L1 side got exactly its own answer with the data the
    owner's responder gave -/
example : (srun (initSys demo3) demo3Ops).nodes.map (fun nd => (nd.sent.map (·.id), nd.got, nd.l2done.map (·.2))) =
    [([0], [⟨0, 7, some [1, 2, 3, 4]⟩], [some [1, 2]]),
     ([0], [⟨0, 8, none⟩], [some [1, 2, 3, 4]]),
     ([0], [⟨0, 9, some [1, 2]⟩], [none])] := by decide +kernel

/-- **On the platform the timing builder creates, every access is forwarded exactly once, to the
owning GPU, and never again.** For `n` nodes with one bank of `bank` bytes each (`platform` = `nodeCfg i` for
`i < n`: the shared `BankedAddressPortMapper` of `createRDMAAddressMapper`, node `i`'s L1 mapper keeping
`[i·bank, (i+1)·bank)` local), every schedule, every node `b`:
* every clone `b` sends out goes to node `addr / bank` — the owner `C18.bank bank addr` of `owner_routing`,
  the only node for which `isLocal` holds;
* every clone `b` forwards to its own L2 side has its address in `b`'s local range, and the local mapper sends
  it to one of `b`'s banks (`addr / isz % k`), never to `ModuleForOtherAddresses` — on the real platform that is
  the engine's own inside port, i.e. a second forward. So no request bounces between engines. -/
theorem sys_forwarded_once_to_owner (cap w1 w2 w3 w4 bank n isz k : Nat) (hisz : 0 < isz) (hk : 0 < k)
    (ops : List SOp) (b : Nat) (B : Node)
    (hB : (srun (initSys (platform cap w1 w2 w3 w4 bank n isz k)) ops).nodes[b]? = some B) :
    (∀ φ ∈ B.s.io.fwd, φ.out.dst = C18.bank bank (addrOf φ.orig.pl) ∧ φ.out.dst < n ∧
      ∀ g, isLocal bank g (addrOf φ.orig.pl) = true ↔ g = φ.out.dst) ∧
    (∀ φ ∈ B.s.oi.fwd, b * bank ≤ addrOf φ.orig.pl ∧ addrOf φ.orig.pl < (b + 1) * bank ∧
      isLocal bank b (addrOf φ.orig.pl) = true ∧ φ.out.dst = addrOf φ.orig.pl / isz % k) := by
  have h := allInv_run (platform cap w1 w2 w3 w4 bank n isz k) ops _ (allInv_init _)
  have hr := sroute_run (routeOut (nodeCfg cap w1 w2 w3 w4 bank n isz k 0)) _ ops
    (sroute_init _ _ (platform_route cap w1 w2 w3 w4 bank n isz k))
  obtain ⟨hcfg, hreach⟩ := h.reach b B hB
  obtain ⟨_, hBcfg⟩ := platform_getElem? hcfg
  have hBc := reach_inv hreach
  have hBh := h.hist.node b B hB
  constructor
  · intro φ hφ
    have hf := (hBc.1.faithful φ hφ).2
    rw [hr.cfg b B hB] at hf
    obtain ⟨h1, h2, h3, _, _⟩ := platform_local hisz hk hf
    have hlt : φ.out.dst < n := by
      simp only [routeOut, nodeCfg] at hf
      by_cases hb0 : bank = 0
      · simp only [hb0, if_true] at hf; cases hf
      · by_cases hlt : addrOf φ.orig.pl / bank < n
        · simp only [hb0, hlt, if_true, if_false, Option.some.injEq] at hf; omega
        · simp only [hb0, hlt, if_false] at hf; cases hf
    refine ⟨h1, hlt, fun g => ?_⟩
    simp only [isLocal, Bool.and_eq_true, decide_eq_true_eq]
    have hpos : 0 < bank := by
      rcases Nat.eq_zero_or_pos bank with h0 | h0
      · subst h0; omega
      · exact h0
    constructor
    · intro ⟨g1, g2⟩
      have e1 : addrOf φ.orig.pl / bank = g := Nat.div_eq_of_lt_le g1 (by rw [Nat.add_mul, Nat.one_mul]; exact g2)
      rw [h1, e1]
    · intro hg
      subst hg
      rw [Nat.add_mul, Nat.one_mul] at h3
      exact ⟨h2, h3⟩
  · intro φ hφ
    have hfa := hBc.2.faithful φ hφ
    -- the request is a delivery of a clone addressed to b
    have h5 : φ.orig ∈ B.namesAll.map nameReq := by
      have := hBh.names φ.orig
      have hpz : 0 < (B.s.oi.fwd.map (·.orig)).count φ.orig := count_pos_of_mem (List.mem_map.mpr ⟨φ, hφ, rfl⟩)
      exact mem_of_count_pos (by omega)
    obtain ⟨nm, hnm, hnme⟩ := List.mem_map.mp h5
    have hpl : nm.c.pl = φ.orig.pl := by rw [← hnme]; rfl
    have hrt := hr.all b B hB nm hnm
    rw [hBh.allDst nm hnm, hpl] at hrt
    obtain ⟨_, h2, h3, h4, h5'⟩ := platform_local hisz hk hrt
    refine ⟨h2, h3, h4, ?_⟩
    have := hfa.2
    rw [hBcfg, h5'] at this
    simp only [Option.some.injEq] at this
    exact this.symm

/-- in the 3-GPU ring run every node forwarded its request to the next node's bank and the clone it
    received to its local module 0 (addresses 0x10, 0x1010, 0x2020 with 64-byte interleaving over 2 banks) -/
example : demo3 = platform 2 1 1 1 1 0x1000 3 0x40 2 ∧
    (srun (initSys demo3) demo3Ops).nodes.map (fun B => (B.s.io.fwd.map (·.out.dst), B.s.oi.fwd.map (·.out.dst))) =
      [([1], [0]), ([2], [0]), ([0], [0])] := by
  exact ⟨rfl, by decide +kernel⟩

/-! ## no panic in a closed, well-formed system -/

/-- **No channel of any engine ever panics** (`badtype`, `bounds`, `notfound`) when every request the
L1 sides issue is well-typed with an address inside the remote table and every node's local mapper
has positive interleaving: in particular a reply always finds its transaction, whatever the order in
which network and responders deliver. -/
theorem sys_no_channel_fault (cfgs : List Cfg) (ops : List SOp)
    (hc : ∀ c ∈ cfgs, 0 < c.isz ∧ 0 < c.k) (hw : WFRun (initSys cfgs) ops) (b : Nat) (B : Node)
    (hB : (srun (initSys cfgs) ops).nodes[b]? = some B) : B.s.io.fault = none ∧ B.s.oi.fault = none := by
  have h := (sok_run ops _ (sinv_init cfgs) (sok_init cfgs hc) hw).2.node b B hB
  exact ⟨h.io.nofault, h.oi.nofault⟩

example : WFRun (initSys demo3) demo3Ops ∧ ∀ c ∈ demo3, 0 < c.isz ∧ 0 < c.k := by
  refine ⟨?_, by decide⟩
  simp only [WFRun, WFOp, demo3Ops, and_true]
  decide +kernel

/-! ## drain acknowledged only when idle in both directions, system-wide -/

/-- **A drain acknowledgement of node `a` is emitted only when nothing of a transaction through `a`
exists anywhere in the system.** In every reachable state, if the next tick of `a` emits a drain
acknowledgement, then (`QuietAt`) both tables of `a` are empty, no clone of `a` is in its outgoing
buffer, in the network, or held by any engine (in its outside port, its table, or its answer
buffer), no answer to `a` is in the network or in `a`'s incoming buffer, and nothing `a` forwarded to
its own L2 side is outstanding (clone buffer, L2 pool, reply buffer all empty). What may remain:
requests not yet accepted by `a` and answers `a` has already put on the network. -/
theorem sys_drain_ack_quiet (cfgs : List Cfg) (ops : List SOp) (a : Nat) (A : Node)
    (hA : (srun (initSys cfgs) ops).nodes[a]? = some A)
    (hack : (tick A.cfg A.s).1.acks ≠ A.s.acks) : QuietAt (srun (initSys cfgs) ops) a A := by
  obtain ⟨h1, h2, _⟩ := drain_ack_only_when_empty A.cfg A.s hack
  exact quiet_of_tables_empty (sys_conservation cfgs ops) hA h1 h2

/-- both nodes are told to drain while each has a request in flight to the other -/
def demo2 : List Cfg := (List.range 2).map (nodeCfg 1 1 1 1 1 0x1000 2 0x40 1)

def demo2Ops : List SOp :=
  [.issue 0 1 (.read 0x1010 4 0), .issue 1 2 (.read 0x20 4 0), .tick 0, .tick 1,
   .ctl 0 (.drain 3), .ctl 1 (.drain 3), .tick 0, .tick 1, .sendQ 0, .sendQ 1, .delivQ 0, .delivQ 0,
   .tick 0, .tick 1, .l2take 0, .l2take 1, .l2ans 0 0 (some [10, 11, 12, 13]), .l2ans 1 0 (some [1, 2, 3, 4]),
   .tick 0, .tick 1, .sendR 0, .sendR 1, .delivR 0, .delivR 0, .tick 0, .tick 1, .l1take 0, .l1take 1]

/-- the hypothesis of `sys_drain_ack_quiet` is met at the end of `demo2Ops` (and not before: after 20
    moves both engines are draining, tables non-empty, no acknowledgement) -/
example : let y := srun (initSys demo2) demo2Ops
    (y.nodes.map fun A => decide ((tick A.cfg A.s).1.acks ≠ A.s.acks)) = [true, true] ∧
    ((srun (initSys demo2) (demo2Ops.take 20)).nodes.map fun A =>
      (A.s.draining, A.s.io.tx.length, decide ((tick A.cfg A.s).1.acks ≠ A.s.acks))) =
      [(true, 1, false), (true, 1, false)] := by decide +kernel

/-! ## liveness -/

/-- **No deadlock.** In every reachable state of a well-configured system without a panic that is not
`Settled`, one of the finitely many moves of `fairList` (an engine tick, the network polling a port
or trying its oldest message, a responder taking or answering its oldest clone, the L1 side or the
command processor taking a response) changes the state. In particular engines that are draining
keep serving requests from outside, so two engines draining at the same time with requests in flight
to each other cannot block each other. -/
theorem sys_no_deadlock (cfgs : List Cfg) (ops : List SOp)
    (hb : ∀ c ∈ cfgs, c.nBanks ≤ cfgs.length)
    (hk : CfgOk (srun (initSys cfgs) ops))
    (hnf : ∀ (b : Nat) (B : Node), (srun (initSys cfgs) ops).nodes[b]? = some B → faulted B.s = false)
    (hns : ¬ Settled (srun (initSys cfgs) ops)) :
    ∃ o0 ∈ fairList (srun (initSys cfgs) ops).nodes.length,
      ∀ o, sameKind o o0 → sysMu (sstep (srun (initSys cfgs) ops) o) < sysMu (srun (initSys cfgs) ops) := by
  have hs := sys_conservation cfgs ops
  have hv := svalid_run _ ops (sinv_init cfgs) (svalid_init cfgs hb)
  obtain ⟨o0, hm, _, hen⟩ := exists_helpful _ hs hv hk hnf hns
  exact ⟨o0, hm, fun o ho => en_lt _ o (hen o ho)⟩

/-- the hypotheses of `sys_no_deadlock` are met by the two engines draining at the same time with
    requests in flight to each other (`demo2Ops` after 20 moves): not settled, no panic -/
example : let y := srun (initSys demo2) (demo2Ops.take 20)
    (∀ c ∈ demo2, c.nBanks ≤ demo2.length) ∧ CfgOk y ∧
    (∀ (b : Nat) (B : Node), y.nodes[b]? = some B → faulted B.s = false) ∧ ¬ Settled y := by
  refine ⟨by decide, cfgOk_run _ _ (cfgOk_init demo2 (by decide)), nofault_of_all (by decide +kernel), ?_⟩
  rw [← settledB_iff]
  decide +kernel

/-- **Liveness under fairness.** Take any reachable state `y0` of a system with positive buffer
sizes and per-cycle widths, banks that name existing nodes and well-formed requests, and any infinite
schedule `σ` from there that brings no new request or control command, in which no control panic
occurs (the command processor follows the drain/restart protocol), and that is fair: each of the
finitely many moves of `fairList` recurs for ever (responders may choose any data). Then the system
reaches a `Settled` state: all tables, buffers, pools and the network are empty, no engine is
draining, every control response has been taken. The proof is by the measure `sysMu`, which every
move either leaves together with the whole state or strictly decreases (`step_mono`). -/
theorem sys_live (cfgs : List Cfg) (ops0 : List SOp) (σ : Nat → SOp)
    (hcfg : ∀ c ∈ cfgs, 0 < c.cap ∧ 0 < c.wReqOut ∧ 0 < c.wRspOut ∧ 0 < c.wReqIn ∧ 0 < c.wRspIn)
    (hmap : ∀ c ∈ cfgs, 0 < c.isz ∧ 0 < c.k) (hb : ∀ c ∈ cfgs, c.nBanks ≤ cfgs.length)
    (hw : WFRun (initSys cfgs) ops0) (hq : ∀ t, isInput (σ t) = false)
    (hfair : ∀ o0 ∈ fairList cfgs.length, ∀ t, ∃ t', t ≤ t' ∧ sameKind (σ t') o0)
    (hcf : ∀ t (b : Nat) (B : Node), (sysAt (srun (initSys cfgs) ops0) σ t).nodes[b]? = some B → B.s.cfault = none) :
    ∃ t, Settled (sysAt (srun (initSys cfgs) ops0) σ t) := by
  have h1 := sok_run ops0 _ (sinv_init cfgs) (sok_init cfgs hmap) hw
  have hv := svalid_run _ ops0 (sinv_init cfgs) (svalid_init cfgs hb)
  have hk := cfgOk_run ops0 _ (cfgOk_init cfgs hcfg)
  have hg := good_along _ σ (fun t => wfop_of_not_input _ _ (hq t)) h1.1 hv h1.2 hk hcf
  have hlen : (srun (initSys cfgs) ops0).nodes.length = cfgs.length := by
    have : ∀ (ops : List SOp) (y : Sys), (srun y ops).nodes.length = y.nodes.length := by
      intro ops
      unfold srun
      induction ops with
      | nil => intro y; rfl
      | cons o os ih => intro y; rw [List.foldl_cons, ih, sstep_length]
    rw [this]; simp [initSys]
  obtain ⟨t, _, ht⟩ := eventually_settled _ σ hq (by rw [hlen]; exact hfair) hg _ 0 (Nat.le_refl _)
  exact ⟨t, ht⟩

/-- **What `Settled` means.** In a settled reachable state every request an L1 side ever issued
is either still in the inside port of its (paused) engine, or has been answered to that L1 side: an
answer with its id, sent to its source (by `sys_end_to_end` carrying the owner's data); and no engine
is draining (every drain command was acknowledged) with no control message left. -/
theorem sys_settled_all_answered (cfgs : List Cfg) (ops : List SOp) (hset : Settled (srun (initSys cfgs) ops))
    (a : Nat) (A : Node) (hA : (srun (initSys cfgs) ops).nodes[a]? = some A) :
    (∀ q ∈ A.sent, q ∈ A.s.io.reqIn ∨ ∃ x ∈ A.got, x.rspTo = q.id ∧ x.dst = q.src) ∧
    (A.s.pause = false → A.s.io.reqIn = []) ∧ A.s.draining = false ∧ A.s.ctIn = [] ∧ A.s.ctOut = [] :=
  ⟨fun q hq => settled_answered (allInv_run cfgs ops _ (allInv_init cfgs)) hset hA q hq,
   (hset.node a A hA).l1, (hset.node a A hA).drain, (hset.node a A hA).ctIn, (hset.node a A hA).ctOut⟩

/-- the same run continued round-robin for 80 moves, as a finite schedule -/
def demo2All : List SOp := demo2Ops.take 20 ++ (List.range 80).map (rrSched 2)

/-- `demo2All` ends settled: `sys_settled_all_answered` applies (both requests answered, both drains
    acknowledged) -/
example : Settled (srun (initSys demo2) demo2All) ∧
    (srun (initSys demo2) demo2All).nodes.map (fun A => (A.sent.map (·.id), A.got.map (·.rspTo), A.s.acks)) =
      [([0], [0], [(0, 0)]), ([0], [0], [(0, 0)])] := by
  refine ⟨(settledB_iff _).mp (by decide +kernel), by decide +kernel⟩

/-- `demo2Ops` stopped after 20 moves (both engines draining, requests in flight to each other),
    continued round-robin for 80 moves -/
def demo2Live : Sys := sysAt (srun (initSys demo2) (demo2Ops.take 20)) (rrSched 2) 80

/-- the hypotheses of `sys_live` are met: the two engines of `demo2Ops` stopped after 20 moves (both
    draining, requests in flight to each other) and continued round-robin settle after 5 rounds with both
    drains acknowledged and both requests answered; the measure there is 0 -/
example :
    (∀ o0 ∈ fairList 2, ∀ t, ∃ t', t ≤ t' ∧ sameKind (rrSched 2 t') o0) ∧
    (∀ t, isInput (rrSched 2 t) = false) ∧
    demo2Live.nodes.map (fun A => (A.s.draining, A.ctlGot, A.got.map (·.data))) =
      [(false, [.drainAck 3], [some [1, 2, 3, 4]]), (false, [.drainAck 3], [some [10, 11, 12, 13]])] ∧
    demo2Live.nodes.map (fun A => faulted A.s) = [false, false] ∧ sysMu demo2Live = 6 := by
  refine ⟨rrSched_fair 2, ?_, by decide +kernel⟩
  intro t
  have hlt : t % (fairList 2).length < (fairList 2).length := Nat.mod_lt _ (by decide)
  have : ∀ i, i < (fairList 2).length → isInput ((fairList 2).getD i (.tick 0)) = false := by decide
  exact this _ hlt

/-- **Liveness of the drain the driver really performs** (`Driver.initiateRDMADrain` on a page
migration drains the RDMA engines of ALL GPUs while the compute units keep running). From any reachable
state in which every engine is paused with no restart pending, on every fair schedule without further
control commands — the L1 sides may go on issuing (well-formed) requests for ever: they pile up in the
bounded inside ports; no control panic can occur (a paused engine knows whom to acknowledge) — the system settles: every transaction in flight completes and every drain is
acknowledged (`Settled`: no engine draining, acknowledgements taken), all engines still paused.
Measure: `sysMu2` = hops left + room left in the inside ports. -/
theorem sys_live_drain_all (cfgs : List Cfg) (ops0 : List SOp) (σ : Nat → SOp)
    (hcfg : ∀ c ∈ cfgs, 0 < c.cap ∧ 0 < c.wReqOut ∧ 0 < c.wRspOut ∧ 0 < c.wReqIn ∧ 0 < c.wRspIn)
    (hmap : ∀ c ∈ cfgs, 0 < c.isz ∧ 0 < c.k) (hb : ∀ c ∈ cfgs, c.nBanks ≤ cfgs.length)
    (hw : WFRun (initSys cfgs) ops0) (hp : AllPaused (srun (initSys cfgs) ops0))
    (hno : ∀ t a k, σ t ≠ SOp.ctl a k)
    (hwf : ∀ t, WFOp (sysAt (srun (initSys cfgs) ops0) σ t) (σ t))
    (hfair : ∀ o0 ∈ fairList cfgs.length, ∀ t, ∃ t', t ≤ t' ∧ sameKind (σ t') o0)
    (hcf : ∀ (b : Nat) (B : Node), (srun (initSys cfgs) ops0).nodes[b]? = some B → B.s.cfault = none) :
    ∃ t, Settled (sysAt (srun (initSys cfgs) ops0) σ t) ∧ AllPaused (sysAt (srun (initSys cfgs) ops0) σ t) := by
  have h1 := sok_run ops0 _ (sinv_init cfgs) (sok_init cfgs hmap) hw
  have hv := svalid_run _ ops0 (sinv_init cfgs) (svalid_init cfgs hb)
  have hk := cfgOk_run ops0 _ (cfgOk_init cfgs hcfg)
  have hr := (allInv_run cfgs ops0 _ (allInv_init cfgs)).reach
  have hg := good_along _ σ hwf h1.1 hv h1.2 hk (cfault_along_paused cfgs _ σ hr hp hno hcf)
  have hlen : (srun (initSys cfgs) ops0).nodes.length = cfgs.length := by
    have : ∀ (ops : List SOp) (y : Sys), (srun y ops).nodes.length = y.nodes.length := by
      intro ops
      unfold srun
      induction ops with
      | nil => intro y; rfl
      | cons o os ih => intro y; rw [List.foldl_cons, ih, sstep_length]
    rw [this]; simp [initSys]
  exact eventually_settled_paused _ σ hp hno (by rw [hlen]; exact hfair) hg

/-- both engines of `demo2` took their drain command with a request in flight to each other
    (`demo2Ops` after 8 moves); then the L1 sides keep issuing reads for ever (`rrIssue`): after 200 moves
    both drains are acknowledged, both old requests answered, the new requests wait in the full inside ports -/
def demo2Paused : Sys := sysAt (srun (initSys demo2) (demo2Ops.take 8)) (rrIssue 2 0x1040) 200

example :
    AllPaused (srun (initSys demo2) (demo2Ops.take 8)) ∧
    (srun (initSys demo2) (demo2Ops.take 8)).nodes.map (fun B => faulted B.s) = [false, false] ∧
    (∀ o0 ∈ fairList 2, ∀ t, ∃ t', t ≤ t' ∧ sameKind (rrIssue 2 0x1040 t') o0) ∧
    Settled demo2Paused ∧
    demo2Paused.nodes.map (fun A => (A.s.pause, A.s.draining, A.ctlGot)) =
      [(true, false, [.drainAck 3]), (true, false, [.drainAck 3])] ∧
    demo2Paused.nodes.map (fun A => (A.got.map (·.rspTo), A.s.io.reqIn.length)) = [([0], 1), ([0], 1)] := by
  refine ⟨allPaused_of_B (by decide +kernel), by decide +kernel, rrIssue_fair 2 0x1040, (settledB_iff _).mp (by decide +kernel), by decide +kernel, by decide +kernel⟩

/-! ## the responders' fairness is necessary -/

/-- **Without a responder nothing is ever answered.** In every run in which no L2-side responder
ever answers, whatever else happens (also with a perfectly fair network and fair ticks), no L1 side
ever receives an answer and no engine ever sends one. -/
theorem sys_no_answer_without_responder (cfgs : List Cfg) (ops : List SOp)
    (hno : ∀ o ∈ ops, ∀ b j d, o ≠ SOp.l2ans b j d) (a : Nat) (A : Node)
    (hA : (srun (initSys cfgs) ops).nodes[a]? = some A) : A.got = [] ∧ A.s.io.ans = [] := by
  have h := allInv_run cfgs ops _ (allInv_init cfgs)
  have hd := l2done_nil_run ops hno (initSys cfgs) (by
    intro b B hb
    simp only [initSys, List.getElem?_map, Option.map_eq_some_iff] at hb
    obtain ⟨c, _, rfl⟩ := hb
    rfl)
  exact no_answer_of_l2done_nil h hd a A hA

/-- the full statement "an issued request can always still be answered, even if the responders
    never answer" -/
def live_without_responder_full : Prop :=
  ∀ (cfgs : List Cfg) (ops : List SOp) (a : Nat) (A : Node),
    (srun (initSys cfgs) ops).nodes[a]? = some A → ∀ q ∈ A.sent,
    ∃ ops', (∀ o ∈ ops', ∀ b j d, o ≠ SOp.l2ans b j d) ∧ (∀ o ∈ ops, ∀ b j d, o ≠ SOp.l2ans b j d) ∧
      ∃ A', (srun (initSys cfgs) (ops ++ ops')).nodes[a]? = some A' ∧ ∃ x ∈ A'.got, x.rspTo = q.id

/-- … is false: one request issued on the 2-GPU platform; no continuation without a responder's
    answer ever delivers anything to the L1 side. -/
theorem live_without_responder_refuted : ¬ live_without_responder_full := by
  intro h
  have hA : (srun (initSys demo2) [.issue 0 1 (.read 0x1010 4 0)]).nodes[0]? =
      some (srun (initSys demo2) [.issue 0 1 (.read 0x1010 4 0)]).nodes[0] := rfl
  obtain ⟨ops', h1, h2, A', hA', x, hx, _⟩ := h demo2 [.issue 0 1 (.read 0x1010 4 0)] 0 _ hA
    ⟨0, 1, .read 0x1010 4 0⟩ (by decide)
  have hno : ∀ o ∈ [SOp.issue 0 1 (.read 0x1010 4 0)] ++ ops', ∀ b j d, o ≠ SOp.l2ans b j d := by
    intro o ho
    rcases List.mem_append.mp ho with ho | ho
    · exact h2 o ho
    · exact h1 o ho
  have := (sys_no_answer_without_responder demo2 _ hno 0 A' hA').1
  rw [this] at hx
  cases hx

end C18
