import MgpuModel.C11CpShare
import MgpuProofs.C11CpShare
/-! # C11 — the copy / flush path and the TLB-shootdown path share `numCacheACK` (property theorems)

`reachCps g ops` is the state of the tick-exact model `MgpuModel/C11CpShare.lean` of
`cp.CommandProcessor` — `cpMiddleware.processFlushReq / processMemCopyReq / processMemCopyRsp` (the
functions `Cp.handle / Cp.dmaRsp` of `MgpuModel/C11Cp.lean`, reused), and the shootdown path of
`ctrlMiddleware` (`processShootdownCommand`, `processCUPipelineFlushRsp`,
`processAddressTranslatorFlushRsp`, the shared `processCacheFlushRsp` with its real guard,
`processTLBFlushRsp`; unchecked `Send`s drop into full buffers) — and of its environment after an
ARBITRARY list of environment moves `SOp`: the moves of `CpOp` (request, tick, takes, cache
acknowledgement, DMA answer), a `ShootDownCommand` arriving, the compute units / address translators /
TLBs taking `k` messages or acknowledging their `j`-th outstanding request — for an ARBITRARY
configuration `CpSCfg` (numbers of components, all buffer capacities). `CpSEnv.step` is the function
the correspondence check runs against the real component (`c11 cps` case lines). -/
namespace C11

/-- flush + copies, no shootdown -/
def cpsDemoPlainOps : List CpOp :=
  [.req .flush, .req .h2d, .tick, .takeCache 9, .ack 2, .ack 0, .ack 0, .ack 0, .tick, .tick, .tick, .tick, .takeDma 9,
   .rsp 0, .tick, .takeDrv 9]

/-- **1. Without a shootdown the shared component IS the component of `Props/C11Cp.lean`.** A run of
    the shared environment whose moves contain no `ShootDownCommand` (moves of the compute units,
    address translators and TLBs are allowed: they find nothing) projects onto the run of `CpEnv` with
    the same copy / flush moves: the state `c : Cp` (buffers, `numCacheACK`, `currFlushRequest`, clone
    maps, fault, ghost log), the requests sent, everything at the DMA engine and the caches and what the
    driver has taken are EQUAL. So every theorem of `Props/C11Cp.lean` (`cp_flush_protocol`,
    `cp_no_copy_during_flush`, `cp_flush_acked_once_after_all_caches`, `cp_copies_forwarded_once_in_order`,
    `cp_copies_answered_once`, `cp_nothing_dropped`, `cp_quiet_all_answered`, `cp_no_fault`) holds for
    the shared component as long as no shootdown is issued. -/
theorem cps_without_shootdown_is_cp (g : CpSCfg) (ops : List SOp) (hn : ∀ op ∈ ops, op ≠ SOp.shoot) :
    (reachCps g ops).toCp = reachCp g.nCaches g.capIn g.capDrv g.capDma g.capCache (ops.filterMap SOp.cp?) ∧
    (reachCps g ops).s.shoot = false ∧ (reachCps g ops).s.later = [] ∧ (reachCps g ops).s.outEarlier = [] := by
  have hp : (CpSEnv.init g).Plain := ⟨⟨rfl, rfl, rfl, rfl, rfl, rfl, rfl, rfl, rfl⟩, rfl, rfl, rfl⟩
  obtain ⟨a, b⟩ := CpSEnv.run_plain ops hp hn
  exact ⟨a, b.s.shoot, b.s.later, b.s.outEarlier⟩

example : (reachCps {} (cpsDemoPlainOps.map .cp)).s.c.log =
    [.flushStart 0, .cacheReq 0, .cacheReq 1, .cacheReq 2, .cacheReq 3, .ack, .ack, .ack, .ack, .flushDone 0 true,
     .fwd 1 0 .h2d true, .done 1 0 .h2d true] ∧
    (reachCps {} (cpsDemoPlainOps.map .cp)).drained = [.ans ⟨0, .flush⟩, .ans ⟨1, .h2d⟩] := by decide +kernel

/-- **1, observable side.** The strings the two environments answer (what the harness compares with the
    real component: `ok`/`full`, `t1`/`t0`/`fault:…`, the messages taken) are the same, move by move
    (`resetBase` = 1000000 is the model's code offset for reset requests in ToCaches; with fewer caches
    no flush request is mistaken for one). -/
theorem cps_without_shootdown_same_trace (g : CpSCfg) (ops : List CpOp) (hn : g.nCaches ≤ resetBase) :
    (CpSEnv.init g).trace (ops.map SOp.cp) =
      (CpEnv.init g.nCaches g.capIn g.capDrv g.capDma g.capCache).cpsTrace ops := by
  have hp : (CpSEnv.init g).Plain := ⟨⟨rfl, rfl, rfl, rfl, rfl, rfl, rfl, rfl, rfl⟩, rfl, rfl, rfl⟩
  exact CpSEnv.trace_plain ops hp (by intro x hx; cases hx) hn

example : (CpSEnv.init {}).trace (cpsDemoPlainOps.map SOp.cp) =
    ["ok", "ok", "t1", "xc[0,1,2,3]", "ok", "ok", "ok", "ok", "t1", "t1", "t1", "t0", "xd[h1]", "ok", "t1",
     "xr[f0,h1]"] := by decide +kernel

/-- one theorem of `Props/C11Cp.lean` carried over as an instance: without a shootdown the shared
    component never panics when ToCaches holds one request per cache -/
theorem cps_without_shootdown_no_fault (g : CpSCfg) (ops : List SOp) (hn : ∀ op ∈ ops, op ≠ SOp.shoot)
    (hcap : g.nCaches ≤ g.capCache) : (reachCps g ops).s.c.fault = none := by
  have h := (cps_without_shootdown_is_cp g ops hn).1
  have := (reach_all g.nCaches g.capIn g.capDrv g.capDma g.capCache (ops.filterMap SOp.cp?)).2.2.2 hcap
  rw [← h] at this
  exact this

example : (reachCps {} [.cp (.req .flush), .take .cu 3, .cp .tick, .ack .tlb 0, .query]).s.c.fault = none :=
  cps_without_shootdown_no_fault _ _ (by decide) (by decide)

/-! ## 2. the full statement is false: a flush that overlaps a shootdown -/

/-- **Full statement (false for the code as it is).** With every class of component present and
    buffers that hold one loop of `Send`s: the command processor never panics, and in every quiet state
    (nothing in any buffer, nothing unacknowledged at any component; no `ShootdownCompleteRsp` was lost
    to a full ToDriver) every request the driver port accepted — flush, copies, shootdown — has been
    answered exactly once. -/
def cps_flush_answered_full : Prop :=
  ∀ (g : CpSCfg) (ops : List SOp), g.Roomy →
    (reachCps g ops).s.c.fault = none ∧
    ((reachCps g ops).quiet → (reachCps g ops).s.dropDone = 0 → (reachCps g ops).allAnswered)

/-- variant 1 of finding `C19-cp-flush-lost-in-shootdown`: the flush request is taken while the
    shootdown waits for the compute units (`numCacheACK == 0`); everything is acknowledged honestly -/
def cpsDemoLost : List SOp :=
  [.shoot, .cp .tick, .cp (.req .flush), .cp .tick, .take .cu 9, .ack .cu 0, .cp .tick, .take .at 9, .ack .at 0,
   .cp .tick, .cp (.takeCache 9), .cp (.ack 0), .cp (.ack 0), .cp (.ack 0), .cp (.ack 0), .cp (.ack 0), .cp (.ack 0),
   .cp (.ack 0), .cp (.ack 0), .cp .tick, .cp .tick, .cp .tick, .cp .tick, .cp .tick, .cp .tick, .cp .tick, .cp .tick,
   .take .tlb 9, .ack .tlb 0, .cp .tick, .cp (.takeDrv 9)]

/-- variant 2: the shootdown is taken while the flush waits for the caches; the flush's own four
    acknowledgements end the shootdown's cache phase before it began -/
def cpsDemoNil : List SOp :=
  [.cp (.req .flush), .cp .tick, .shoot, .cp .tick, .cp (.takeCache 4), .cp (.ack 0), .cp (.ack 0), .cp (.ack 0),
   .cp (.ack 0), .cp .tick, .cp .tick, .cp .tick, .cp .tick, .take .tlb 1, .ack .tlb 0, .cp .tick, .cp (.takeDrv 1),
   .take .cu 1, .ack .cu 0, .cp .tick, .take .at 1, .ack .at 0, .cp .tick, .cp (.takeCache 9), .cp (.ack 0),
   .cp (.ack 0), .cp (.ack 0), .cp (.ack 0), .cp .tick, .cp .tick, .cp .tick, .cp .tick]

/-- **Both variants of the finding, kernel-checked on the model** (and replayed on the real
    `cp.CommandProcessor` by `harness/c11_share.go`, whose traces the correspondence compares with these
    runs). Variant 1: the run ends quiet, without fault, all counters 0 — the driver has received the
    `ShootdownCompleteRsp` and NO answer to its flush request: the flush's acknowledgements and the
    shootdown's reset acknowledgements were counted together, the last one ran
    `processCacheFlushCausedByTLBShootdown`, which clears `currFlushRequest`. Variant 2: the flush's
    own four acknowledgements bring the counter to 0 while `shootDownInProcess`: the TLB flush and
    `ShootdownCompleteRsp` go out before the compute units, translators and caches were touched, and the
    shootdown's later cache acknowledgements end in `processRegularCacheFlush` with
    `currFlushRequest == nil`: nil-pointer panic. -/
theorem cps_flush_overlap_witnesses :
    ((reachCps {} cpsDemoLost).quiet ∧ (reachCps {} cpsDemoLost).s.c.fault = none ∧
      (reachCps {} cpsDemoLost).sent = [⟨0, .flush⟩] ∧ (reachCps {} cpsDemoLost).drained = [.sdone 0] ∧
      (reachCps {} cpsDemoLost).s.sig = "0,0,0,0,0,0") ∧
    ((reachCps {} cpsDemoNil).s.c.fault = some "nilderef" ∧ (reachCps {} cpsDemoNil).drained = [.sdone 0]) := by
  unfold CpSEnv.quiet
  decide +kernel

/-- **Refuted:** the full statement is false for the code as it is — finding
    `C19-cp-flush-lost-in-shootdown` (`known_findings.d/C19.json`), seen from the copy path: the default
    configuration (one component per class, shipped 4096-entry buffers, so `Roomy`) and the two runs of
    `cps_flush_overlap_witnesses`; the run `cpsDemoNil` panics (first clause), the run `cpsDemoLost` ends
    quiet with the flush unanswered (second clause, see the `example` below). -/
theorem cps_flush_answered_full_refuted : ¬ cps_flush_answered_full := by
  intro h
  have hr : ({} : CpSCfg).Roomy := by unfold CpSCfg.Roomy; decide
  obtain ⟨⟨hq, _, hs, hd, _⟩, hn, _⟩ := cps_flush_overlap_witnesses
  -- variant 2 contradicts the first clause, variant 1 the second
  have h2 := (h {} cpsDemoNil hr).1
  rw [hn] at h2
  cases h2

/-- the second clause alone is refuted as well (variant 1: quiet, no fault, the flush unanswered) -/
example : ¬ ((reachCps {} cpsDemoLost).quiet → (reachCps {} cpsDemoLost).s.dropDone = 0 → (reachCps {} cpsDemoLost).allAnswered) := by
  intro h
  obtain ⟨⟨hq, _, hs, hd, _⟩, _⟩ := cps_flush_overlap_witnesses
  have := (h hq (by decide +kernel)).1.length_eq
  rw [hs, hd] at this
  exact absurd this (by decide)

/-! ## 3. what IS safe -/

/-- **(a) No copy is handed to the DMA engine while a cache request of EITHER origin is
    unacknowledged** — for every configuration, every event order, overlapping flushes and shootdowns
    included. In every reachable state the shared counter `numCacheACK` equals the cache requests
    (flush requests of `processFlushReq` and reset requests of the shootdown) waiting in ToCaches + taken
    by the caches and not acknowledged + acknowledgements waiting in the port + reset requests lost by the
    unchecked `ToCaches.Send` (so a lost reset request keeps the counter above 0 for ever). And for every
    forward event in the log (`processMemCopyReq` sent a clone to ToDMA): before it, the counter was
    incremented exactly as often as it was decremented (= it was 0), and no reset request had been
    lost — hence no cache request was in ToCaches, at a cache, or acknowledged-but-unprocessed. -/
theorem cps_no_copy_while_cache_acks_outstanding (g : CpSCfg) (ops : List SOp) :
    (reachCps g ops).s.c.numAck = (reachCps g ops).s.c.cacheOut.length + (reachCps g ops).atCaches.length +
      (reachCps g ops).s.c.cacheIn.length + (reachCps g ops).s.dropC ∧
    ∀ pre ev post, (reachCps g ops).s.log = pre ++ ev :: post → ev.isFwd = true →
      pre.countP SEv.isCacheAsk = pre.countP SEv.isCacheAck ∧ pre.countP SEv.isResetDrop = 0 := by
  have h := cps_reach_cacheInv g ops
  exact ⟨h.count, h.fwd⟩

/-- a copy request behind a shootdown: it is forwarded during the CU phase (counter 0), the next one
    waits through the whole cache phase (4 resets, acknowledged out of order) -/
example : (reachCps {} [.shoot, .cp (.req .h2d), .cp .tick, .take .cu 1, .ack .cu 0, .cp .tick, .take .at 1, .ack .at 0,
      .cp .tick, .cp (.req .d2h), .cp .tick, .cp (.takeCache 9), .cp (.ack 2), .cp (.ack 0), .cp (.ack 1), .cp .tick, .cp .tick,
      .cp .tick, .cp (.ack 0), .cp .tick, .cp .tick]).s.log =
    [.shootStart 0, .cuReq 0 true, .cp (.fwd 0 0 .h2d true), .cuAck, .atReq 0 true, .atAck, .reset 1 true, .reset 2 true,
     .reset 0 true, .reset 3 true, .ackS, .ackS, .ackS, .ackS, .tlbReq 0 true, .cp (.fwd 1 1 .d2h true)] := by
  decide +kernel

/-- a ToCaches buffer with room for 2 of the 4 reset requests: two are lost, the counter stays at 2 for
    ever, the copy behind the shootdown is never forwarded -/
example : (reachCps { capCache := 2 } [.shoot, .cp .tick, .take .cu 1, .ack .cu 0, .cp .tick, .take .at 1, .ack .at 0,
      .cp .tick, .cp (.req .h2d), .cp .tick, .cp (.takeCache 9), .cp (.ack 0), .cp (.ack 0), .cp .tick, .cp .tick, .cp .tick]).s.sig =
      "0,0,0,2,1,0" ∧
    (reachCps { capCache := 2 } [.shoot, .cp .tick, .take .cu 1, .ack .cu 0, .cp .tick, .take .at 1, .ack .at 0,
      .cp .tick, .cp (.req .h2d), .cp .tick, .cp (.takeCache 9), .cp (.ack 0), .cp (.ack 0), .cp .tick, .cp .tick, .cp .tick]).s.dropC = 2 ∧
    (reachCps { capCache := 2 } [.shoot, .cp .tick, .take .cu 1, .ack .cu 0, .cp .tick, .take .at 1, .ack .at 0,
      .cp .tick, .cp (.req .h2d), .cp .tick, .cp (.takeCache 9), .cp (.ack 0), .cp (.ack 0), .cp .tick, .cp .tick, .cp .tick]).s.c.drvIn =
      [⟨0, .h2d⟩] := by
  decide +kernel

/-- a serialised run: shootdown with two copies behind it, then a flush, then a second shootdown;
    acknowledgements out of order -/
def cpsDemoSerial : List SOp :=
  [.shoot, .cp (.req .h2d), .cp .tick, .take .cu 1, .ack .cu 0, .cp .tick, .take .at 1, .ack .at 0, .cp .tick,
   .cp (.req .d2h), .cp (.takeCache 9), .cp (.ack 3), .cp (.ack 0), .cp (.ack 1), .cp (.ack 0), .cp .tick, .cp .tick,
   .cp .tick, .cp .tick, .take .tlb 1, .ack .tlb 0, .cp .tick, .cp (.takeDma 9), .cp (.rsp 1), .cp (.rsp 0), .cp .tick,
   .cp (.takeDrv 9), .cp (.req .flush), .cp .tick, .cp (.takeCache 9), .cp (.ack 0), .cp (.ack 0), .cp (.ack 0),
   .cp (.ack 0), .cp .tick, .cp .tick, .cp .tick, .cp .tick, .cp (.takeDrv 9), .shoot, .cp .tick, .take .cu 1,
   .ack .cu 0, .cp .tick, .take .at 1, .ack .at 0, .cp .tick, .cp (.takeCache 9), .cp (.ack 0), .cp (.ack 0),
   .cp (.ack 0), .cp (.ack 0), .cp .tick, .cp .tick, .cp .tick, .cp .tick, .take .tlb 1, .ack .tlb 0, .cp .tick,
   .cp (.takeDrv 9)]

/-- **(b) Serialised use of the counter is safe** — the `…_partial` of `cps_flush_answered_full`.
    `CpSEnv.serial` is the driver's discipline, checked move by move in the state the move is made in: a
    `ShootDownCommand` is delivered only when the driver has received an answer for every flush request
    it sent (`flushOut = false`: none waits in the port, none is open), a flush request only when it has
    received a `ShootdownCompleteRsp` for every shootdown command (`shootOut = false`: none waits in the
    port, none is in process); copies, ticks, takes and acknowledgements in ANY order and with any
    back-pressure. Then, for every configuration with all component classes present and buffers that hold
    one loop of `Send`s (`CpSCfg.Roomy`), for every such run: the command processor never panics (no
    nil dereference of `currFlushRequest`, no `never`, no `cache_send`); no unchecked `Send` of a loop
    drops a message; and in every quiet state in which no `ShootdownCompleteRsp` was handed to a full
    ToDriver (`dropDone = 0` — that `Send` is unchecked too) the driver has taken exactly one answer per
    accepted flush / H2D / D2H request and one `ShootdownCompleteRsp` per accepted shootdown command. -/
theorem cps_serialised_is_safe (g : CpSCfg) (ops : List SOp) (hr : g.Roomy)
    (hs : (CpSEnv.init g).serial ops = true) :
    (reachCps g ops).s.c.fault = none ∧
    ((reachCps g ops).s.dropCU = 0 ∧ (reachCps g ops).s.dropAT = 0 ∧ (reachCps g ops).s.dropC = 0 ∧
      (reachCps g ops).s.dropTLB = 0) ∧
    ((reachCps g ops).quiet → (reachCps g ops).s.dropDone = 0 → (reachCps g ops).allAnswered) := by
  have h := cps_reach_serInv g hr ops hs
  exact ⟨h.nf, h.rest.nodrop, fun hq hd => h.quiet_answered hr (cps_reach_nodrop g ops) hq hd⟩

example : (CpSEnv.init {}).serial cpsDemoSerial = true ∧ ({} : CpSCfg).Roomy ∧ (reachCps {} cpsDemoSerial).quiet ∧
    (reachCps {} cpsDemoSerial).s.dropDone = 0 ∧
    (reachCps {} cpsDemoSerial).drained = [.sdone 0, .ans ⟨1, .d2h⟩, .ans ⟨0, .h2d⟩, .ans ⟨2, .flush⟩, .sdone 1] ∧
    (reachCps {} cpsDemoSerial).sent = [⟨0, .h2d⟩, ⟨1, .d2h⟩, ⟨2, .flush⟩] ∧ (reachCps {} cpsDemoSerial).shootSent = 2 := by
  unfold CpSEnv.quiet CpSCfg.Roomy
  decide +kernel

/-- the two overlapping runs of the finding are NOT serialised (the hypothesis excludes exactly them) -/
example : (CpSEnv.init {}).serial cpsDemoLost = false ∧ (CpSEnv.init {}).serial cpsDemoNil = false := by decide +kernel

/-- the remaining hypothesis `dropDone = 0` is needed: `processTLBFlushRsp` ignores the error of
    `ToDriver.Send`; with a one-entry ToDriver that still holds a copy's answer the
    `ShootdownCompleteRsp` is lost although the run is serialised -/
example : (CpSEnv.init { capDrv := 1 }).serial [.cp (.req .h2d), .cp .tick, .cp (.takeDma 1), .cp (.rsp 0), .cp .tick, .shoot,
      .cp .tick, .take .cu 1, .ack .cu 0, .cp .tick, .take .at 1, .ack .at 0, .cp .tick, .cp (.takeCache 9), .cp (.ack 0),
      .cp (.ack 0), .cp (.ack 0), .cp (.ack 0), .cp .tick, .cp .tick, .cp .tick, .cp .tick, .take .tlb 1, .ack .tlb 0, .cp .tick,
      .cp (.takeDrv 9)] = true ∧
    (reachCps { capDrv := 1 } [.cp (.req .h2d), .cp .tick, .cp (.takeDma 1), .cp (.rsp 0), .cp .tick, .shoot,
      .cp .tick, .take .cu 1, .ack .cu 0, .cp .tick, .take .at 1, .ack .at 0, .cp .tick, .cp (.takeCache 9), .cp (.ack 0),
      .cp (.ack 0), .cp (.ack 0), .cp (.ack 0), .cp .tick, .cp .tick, .cp .tick, .cp .tick, .take .tlb 1, .ack .tlb 0, .cp .tick,
      .cp (.takeDrv 9)]).drained = [.ans ⟨0, .h2d⟩] ∧
    (reachCps { capDrv := 1 } [.cp (.req .h2d), .cp .tick, .cp (.takeDma 1), .cp (.rsp 0), .cp .tick, .shoot,
      .cp .tick, .take .cu 1, .ack .cu 0, .cp .tick, .take .at 1, .ack .at 0, .cp .tick, .cp (.takeCache 9), .cp (.ack 0),
      .cp (.ack 0), .cp (.ack 0), .cp (.ack 0), .cp .tick, .cp .tick, .cp .tick, .cp .tick, .take .tlb 1, .ack .tlb 0, .cp .tick,
      .cp (.takeDrv 9)]).s.dropDone = 1 := by decide +kernel

/-- **(b) The flush protocol of `Props/C11Cp.lean` still holds in serialised runs**, shootdowns in
    between: the copy / flush path's event log is accepted by the acceptor `specStep` (a flush starts
    only when none is open, asks every cache once in order, is answered only when all `n` caches were
    asked and every request acknowledged; a copy is forwarded only when no flush is open); hence before
    every forward event every started flush was answered and every flush request acknowledged; and the
    answer to flush `f` is produced exactly once, after exactly the caches `0 … n-1` were asked and `n`
    acknowledgements processed, with no copy forwarded in between. (The shootdown's reset requests and
    their acknowledgements are not events of this log: they are `SEv.reset` / `SEv.ackS` of the shared
    log, and `cps_no_copy_while_cache_acks_outstanding` covers them.) -/
theorem cps_serialised_flush_protocol (g : CpSCfg) (ops : List SOp) (hr : g.Roomy)
    (hs : (CpSEnv.init g).serial ops = true) :
    (∃ q, specRun g.nCaches {} (reachCps g ops).s.c.log = some q) ∧
    (∀ pre post ev, ev.isFwd = true → (reachCps g ops).s.c.log = pre ++ ev :: post →
      pre.filterMap CpEv.flushStart? = pre.filterMap CpEv.flushDone? ∧
      (pre.filterMap CpEv.cacheIdx?).length = pre.countP CpEv.isAck) ∧
    (∀ pre post f b, (reachCps g ops).s.c.log = pre ++ .flushDone f b :: post →
      (∃ p1 p2, pre = p1 ++ .flushStart f :: p2 ∧ p2.filterMap CpEv.cacheIdx? = List.range g.nCaches ∧
        p2.countP CpEv.isAck = g.nCaches ∧ ∀ ev ∈ p2, ev.isFwd = false) ∧
      f ∉ pre.filterMap CpEv.flushDone? ∧ f ∉ post.filterMap CpEv.flushDone?) := by
  have h := cps_reach_serInv g hr ops hs
  obtain ⟨q, hq, _⟩ := h.inv.flush.spec
  have hq' : specRun g.nCaches {} (reachCps g ops).s.c.log = some q := by
    rw [← h.rest.ncaches]; exact hq
  refine ⟨⟨q, hq'⟩, ?_, ?_⟩
  · intro pre post ev hf hlog
    rw [hlog] at hq'
    exact accepted_fwd_idle hf hq'
  · intro pre post f b hlog
    have hnd : ((reachCps g ops).s.c.log.filterMap CpEv.flushDone?).Nodup := h.inv.flushDone_nodup
    rw [hlog] at hq' hnd
    exact accepted_flushDone hq' hnd

example : (reachCps {} cpsDemoSerial).s.c.log =
    [.fwd 0 0 .h2d true, .fwd 1 1 .d2h true, .done 1 1 .d2h true, .flushStart 2, .cacheReq 0, .cacheReq 1, .cacheReq 2,
     .cacheReq 3, .done 0 0 .h2d true, .ack, .ack, .ack, .ack, .flushDone 2 true] := by decide +kernel

/-- **(b) Copies in serialised runs: forwarded once in arrival order, answered once for the original
    request** (the statements of `cp_copies_forwarded_once_in_order` / `cp_copies_answered_once`): the
    requests the driver port accepted are the requests taken from the port (one `flushStart` / `fwd`
    event each, in arrival order) followed by those waiting in the port — in front of and behind
    shootdown commands; the clones the DMA side has seen plus those in ToDMA are the forward events in
    order; the answers the driver has taken plus those in ToDriver (between the `ShootdownCompleteRsp`s)
    are the answer events in order; no request is answered twice; clone ids are pairwise distinct. -/
theorem cps_serialised_copies_once (g : CpSCfg) (ops : List SOp) (hr : g.Roomy)
    (hs : (CpSEnv.init g).serial ops = true) :
    (reachCps g ops).sent.map (·.id) = List.range (reachCps g ops).sent.length ∧
    (reachCps g ops).sent = (reachCps g ops).s.c.log.filterMap CpEv.popped? ++
      ((reachCps g ops).s.c.drvIn ++ (reachCps g ops).s.later.filterMap SIn.req?) ∧
    (reachCps g ops).dmaSeen ++ (reachCps g ops).s.c.dmaOut = (reachCps g ops).s.c.log.filterMap CpEv.clone? ∧
    (reachCps g ops).drained.filterMap SOut.ans? ++
      ((reachCps g ops).s.outEarlier.filterMap SOut.ans? ++ (reachCps g ops).s.c.drvOut) =
      (reachCps g ops).s.c.log.filterMap CpEv.rsp? ∧
    ((reachCps g ops).s.c.log.filterMap CpEv.doneOrig?).Nodup ∧
    ((reachCps g ops).s.c.log.filterMap CpEv.fwdCid?).Nodup := by
  have h := cps_reach_serInv g hr ops hs
  obtain ⟨r, hr1, hr2⟩ := h.inv.pop.popped
  refine ⟨h.inv.pop.ids, ?_, h.inv.copy.clones, h.inv.rsp.rsps, h.inv.copy.done_orig, ?_⟩
  · rw [hr2 h.nf] at hr1; exact hr1
  · have := h.inv.copy.cids
    show (List.filterMap CpEv.fwdCid? (reachCps g ops).proj.s.log).Nodup
    rw [this]; exact List.nodup_range

example : (reachCps {} cpsDemoSerial).dmaSeen = [⟨0, 0, .h2d⟩, ⟨1, 1, .d2h⟩] := by decide +kernel

/-- **(b) The shootdown's own bookkeeping in serialised runs.** Each of `numCUAck`,
    `numAddrTranslationFlushAck`, `numTLBAck` equals the requests of its class in the CP's port + taken by
    the components and not acknowledged + acknowledgements waiting (no unchecked `Send` lost one, the
    `uint64` counters never wrap); without `shootDownInProcess` all three are 0; with it, the four phases
    (compute units, address translators, caches — through the shared `numCacheACK` —, TLBs) exclude each
    other and exactly one of them is waiting for somebody: the shootdown can neither skip a phase nor
    stall with nothing outstanding. -/
theorem cps_serialised_shootdown_phases (g : CpSCfg) (ops : List SOp) (hr : g.Roomy)
    (hs : (CpSEnv.init g).serial ops = true) :
    (reachCps g ops).s.numCU = (reachCps g ops).s.cuOut.length + (reachCps g ops).atCU.length +
      (reachCps g ops).s.cuIn.length ∧
    (reachCps g ops).s.numAT = (reachCps g ops).s.atOut.length + (reachCps g ops).atAT.length +
      (reachCps g ops).s.atIn.length ∧
    (reachCps g ops).s.numTLB = (reachCps g ops).s.tlbOut.length + (reachCps g ops).atTLB.length +
      (reachCps g ops).s.tlbIn.length ∧
    ((reachCps g ops).s.shoot = false →
      (reachCps g ops).s.numCU = 0 ∧ (reachCps g ops).s.numAT = 0 ∧ (reachCps g ops).s.numTLB = 0) ∧
    ((reachCps g ops).s.shoot = true →
      ((reachCps g ops).s.numCU = 0 ∨
        ((reachCps g ops).s.numAT = 0 ∧ (reachCps g ops).s.c.numAck = 0 ∧ (reachCps g ops).s.numTLB = 0)) ∧
      ((reachCps g ops).s.numAT = 0 ∨ ((reachCps g ops).s.c.numAck = 0 ∧ (reachCps g ops).s.numTLB = 0)) ∧
      ((reachCps g ops).s.c.numAck = 0 ∨ (reachCps g ops).s.numTLB = 0) ∧
      0 < (reachCps g ops).s.numCU + (reachCps g ops).s.numAT + (reachCps g ops).s.c.numAck +
        (reachCps g ops).s.numTLB) := by
  have h := (cps_reach_serInv g hr ops hs).rest
  exact ⟨h.kcu, h.kat, h.ktlb, h.idle, fun hs' => ⟨(h.phase hs').1, (h.phase hs').2.1, (h.phase hs').2.2, h.live hs'⟩⟩

/-- in the middle of the cache phase of `cpsDemoSerial` (all four resets acknowledged, two of the
    acknowledgements processed) -/
example : (reachCps {} (cpsDemoSerial.take 16)).s.sig = "0,0,0,2,1,0" ∧
    (reachCps {} (cpsDemoSerial.take 16)).s.c.cacheIn = [resetBase + 0, resetBase + 2] := by
  decide +kernel

end C11
